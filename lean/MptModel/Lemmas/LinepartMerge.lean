/-
  Helper lemmas for C18 (core Lean only): the merge path of `linepart::array::apply` on an array prepared by
  `linepart::array::set` keeps the whole property (exact consumption, every visible point drawn once, visible
  interiors, marked crossings).
-/
import MptModel.Lemmas.LinepartFlag
import MptModel.Impl.LinepartArray
namespace Mpt.Linepart
open Mpt.Visible

theorem join_total_aux (to post j : Part) (h : linepartJoin to post = some j) :
    j.raw = to.raw + post.raw ∧ j.usr = to.usr + post.usr ∧ j.cut = to.cut ∧ j.trim = post.trim ∧
    (to.raw ≤ 65535 → to.usr ≤ 65535 → j.raw ≤ 65535 ∧ j.usr ≤ 65535) ∧
    to.usr = to.raw ∧ to.trim = 0 ∧ post.cut = 0 := by
  unfold linepartJoin at h
  have hu : u16max = 65535 := rfl
  split at h; · cases h
  split at h; · cases h
  split at h; · cases h
  cases h
  refine ⟨rfl, rfl, rfl, rfl, ?_, ?_, ?_, ?_⟩ <;> first | omega | (simp only []; omega)

theorem join_keeps_drawn_aux (to post j : Part) (rest : List Part) (start i : Nat)
    (h : linepartJoin to post = some j) :
    drawnCount (j :: rest) start i = drawnCount (to :: post :: rest) start i := by
  obtain ⟨h1, h2, _, _, _, h6, _, _⟩ := join_total_aux to post j h
  simp only [drawnCount]
  rw [h1, h2, h6]
  have e : start + (to.raw + post.raw) = start + to.raw + post.raw := by omega
  rw [e]
  by_cases a : start ≤ i ∧ i < start + (to.raw + post.usr)
  · by_cases b : start ≤ i ∧ i < start + to.raw
    · rw [if_pos a, if_pos b, if_neg (by omega)]; omega
    · rw [if_pos a, if_neg b, if_pos (by omega)]; omega
  · rw [if_neg a, if_neg (by omega), if_neg (by omega)]; omega

def rawSum (ps : List Part) : Nat := (ps.map (·.raw)).sum

theorem rawSum_append (A B : List Part) : rawSum (A ++ B) = rawSum A + rawSum B := by
  simp [rawSum]

theorem rawSum_cons (p : Part) (A : List Part) : rawSum (p :: A) = p.raw + rawSum A := by
  simp [rawSum]

theorem drawnCount_append (A B : List Part) (s i : Nat) :
    drawnCount (A ++ B) s i = drawnCount A s i + drawnCount B (s + rawSum A) i := by
  induction A generalizing s with
  | nil => simp [drawnCount, rawSum]
  | cons p A ih =>
    simp only [List.cons_append, drawnCount, ih, rawSum_cons]
    have : s + p.raw + rawSum A = s + (p.raw + rawSum A) := by omega
    rw [this]; omega

theorem interior_append (r : Range) (xs : List Rat) (A B : List Part) (s : Nat) :
    InteriorVisible r xs (A ++ B) s ↔ InteriorVisible r xs A s ∧ InteriorVisible r xs B (s + rawSum A) := by
  induction A generalizing s with
  | nil => simp [InteriorVisible, rawSum]
  | cons p A ih =>
    simp only [List.cons_append, InteriorVisible, ih, rawSum_cons]
    have : s + p.raw + rawSum A = s + (p.raw + rawSum A) := by omega
    rw [this]
    constructor
    · intro ⟨a, b, c⟩; exact ⟨⟨a, b⟩, c⟩
    · intro ⟨⟨a, b⟩, c⟩; exact ⟨a, b, c⟩

theorem flagged_append (r : Range) (xs : List Rat) (A B : List Part) (s : Nat) :
    Flagged r xs (A ++ B) s ↔ Flagged r xs A s ∧ Flagged r xs B (s + rawSum A) := by
  induction A generalizing s with
  | nil => simp [Flagged, rawSum]
  | cons p A ih =>
    simp only [List.cons_append, Flagged, ih, rawSum_cons]
    have : s + p.raw + rawSum A = s + (p.raw + rawSum A) := by omega
    rw [this]
    constructor
    · intro ⟨a, b, c, d⟩; exact ⟨⟨a, b, c⟩, d⟩
    · intro ⟨⟨a, b, c⟩, d⟩; exact ⟨a, b, c, d⟩

/-- the whole property for a record list that covers the first `c` points of `xs` -/
structure Good (r : Range) (xs : List Rat) (ps : List Part) (c : Nat) : Prop where
  sum : rawSum ps = c
  pos : ∀ p ∈ ps, 0 < p.raw
  drawn : ∀ i, insideAt r xs i → drawnCount ps 0 i = if i < c then 1 else 0
  interior : InteriorVisible r xs ps 0
  flagged : Flagged r xs ps 0

/-- what one call on the window of `xs` that starts at point `c` guarantees, in positions of `xs` -/
structure CallAt (r : Range) (xs : List Rat) (c : Nat) (p : Part) : Prop where
  pos : 0 < p.raw
  usr_raw : p.usr ≤ p.raw + 1
  interior : ∀ i, c < i → i + 1 < c + p.usr → insideAt r xs i
  hidden : ∀ i, c + p.usr ≤ i → i < c + p.raw → ¬ insideAt r xs i
  last : p.raw < p.usr → ¬ insideAt r xs (c + p.raw)
  cutF : 0 < p.usr → ¬ insideAt r xs c → 0 < p.cut
  trimF : 0 < p.usr → ¬ insideAt r xs (c + p.usr - 1) → 0 < p.trim

theorem window_inside (r : Range) (xs : List Rat) (c m k : Nat) (hk : k < m) :
    insideAt r ((xs.drop c).take m) k ↔ insideAt r xs (c + k) := by
  unfold insideAt
  rw [List.getElem?_take, if_pos hk, List.getElem?_drop]

/-- a call on the window of `m` points at `c` -/
theorem window_call (r : Range) (xs : List Rat) (c m : Nat) (hm : 0 < m) (hcm : c + m ≤ xs.length) :
    CallAt r xs c (linepartLinear ((xs.drop c).take m) (some r)) ∧
    (linepartLinear ((xs.drop c).take m) (some r)).raw ≤ m := by
  have hl : ((xs.drop c).take m).length = m := by
    rw [List.length_take, List.length_drop]; omega
  have ok := linear_ok r ((xs.drop c).take m) (by omega)
  have fl := call_flagged r ((xs.drop c).take m) (by omega)
  generalize linepartLinear ((xs.drop c).take m) (some r) = p at ok fl
  have hraw : p.raw ≤ m := by have := ok.raw_le; omega
  have husr : p.usr ≤ m := by have := ok.usr_le; omega
  have hur := ok.usr_raw
  refine ⟨⟨ok.pos, hur, ?_, ?_, ?_, ?_, ?_⟩, hraw⟩
  · intro i h1 h2
    have := ok.interior (i - c) (by omega) (by omega)
    rw [window_inside r xs c m (i - c) (by omega)] at this
    rwa [show c + (i - c) = i by omega] at this
  · intro i h1 h2 hin
    apply ok.hidden (i - c) (by omega) (by omega)
    rw [window_inside r xs c m (i - c) (by omega), show c + (i - c) = i by omega]
    exact hin
  · intro h hin
    apply ok.last h
    rw [window_inside r xs c m p.raw (by omega)]
    exact hin
  · intro h hin
    apply fl.1 h
    intro hw
    apply hin
    rw [window_inside r xs c m 0 hm] at hw
    simpa using hw
  · intro h hin
    apply fl.2 h
    intro hw
    apply hin
    rw [window_inside r xs c m (p.usr - 1) (by omega)] at hw
    rwa [show c + (p.usr - 1) = c + p.usr - 1 by omega] at hw

/-- appending the record of the next call -/
theorem good_snoc (r : Range) (xs : List Rat) (ps : List Part) (c : Nat) (p : Part)
    (hg : Good r xs ps c) (hc : CallAt r xs c p) : Good r xs (ps ++ [p]) (c + p.raw) := by
  obtain ⟨g1, g2, g3, g4, g5⟩ := hg
  refine ⟨?_, ?_, ?_, ?_, ?_⟩
  · rw [rawSum_append, g1]; simp [rawSum]
  · intro q hq
    rcases List.mem_append.1 hq with h | h
    · exact g2 q h
    · simp at h; subst h; exact hc.pos
  · intro i hin
    rw [drawnCount_append, g3 i hin, g1]
    simp only [drawnCount, Nat.zero_add, Nat.add_zero]
    have hur := hc.usr_raw
    by_cases h1 : i < c
    · rw [if_pos h1, if_neg (by omega), if_pos (by omega)]
    · rw [if_neg h1]
      by_cases h2 : i < c + p.raw
      · have : i < c + p.usr := by
          apply Decidable.byContradiction
          intro hn
          exact hc.hidden i (by omega) h2 hin
        rw [if_pos ⟨by omega, this⟩, if_pos h2]
      · rw [if_neg h2, if_neg]
        intro ⟨_, h3⟩
        have he : i = c + p.raw := by omega
        exact hc.last (by omega) (he ▸ hin)
  · rw [interior_append]
    refine ⟨g4, ?_⟩
    simp only [InteriorVisible, g1, Nat.zero_add, and_true]
    exact hc.interior
  · rw [flagged_append]
    refine ⟨g5, ?_⟩
    simp only [Flagged, g1, Nat.zero_add, and_true]
    exact ⟨hc.cutF, hc.trimF⟩

/-- replacing the last two records by their join -/
theorem good_join (r : Range) (xs : List Rat) (A : List Part) (to p j : Part) (c : Nat)
    (hg : Good r xs (A ++ [to, p]) c) (hj : linepartJoin to p = some j) : Good r xs (A ++ [j]) c := by
  obtain ⟨g1, g2, g3, g4, g5⟩ := hg
  obtain ⟨j1, j2, j3, j4, _, j6, j7, j8⟩ := join_total_aux to p j hj
  have hto : 0 < to.raw := g2 to (by simp)
  rw [interior_append] at g4
  rw [flagged_append] at g5
  obtain ⟨i1, i2⟩ := g4
  obtain ⟨f1, f2⟩ := g5
  simp only [InteriorVisible, Flagged, Nat.zero_add, and_true] at i2 f2
  obtain ⟨ito, ip⟩ := i2
  obtain ⟨fto1, fto2, fp1, fp2⟩ := f2
  refine ⟨?_, ?_, ?_, ?_, ?_⟩
  · rw [rawSum_append] at g1 ⊢
    simp only [rawSum, List.map_cons, List.map_nil, List.sum_cons, List.sum_nil] at g1 ⊢
    omega
  · intro q hq
    rcases List.mem_append.1 hq with h | h
    · exact g2 q (by simp [h])
    · simp at h; subst h; omega
  · intro i hin
    rw [← g3 i hin, drawnCount_append, drawnCount_append]
    congr 1
    exact join_keeps_drawn_aux to p j [] _ i hj
  · rw [interior_append]
    refine ⟨i1, ?_⟩
    simp only [InteriorVisible, Nat.zero_add, and_true]
    intro i h1 h2
    rw [j2, j6] at h2
    by_cases ha : i + 1 < rawSum A + to.usr
    · exact ito i h1 ha
    · by_cases hb : i + 1 = rawSum A + to.usr
      · -- the last point of the first record: it carries no trim, so it is visible
        apply Decidable.byContradiction
        intro hn
        have := fto2 (by omega) (by rw [show rawSum A + to.usr - 1 = i by omega]; exact hn)
        omega
      · by_cases hc : i = rawSum A + to.raw
        · -- the first point of the second record: no cut, so it is visible
          apply Decidable.byContradiction
          intro hn
          have := fp1 (by omega) (by rw [← hc]; exact hn)
          omega
        · exact ip i (by omega) (by omega)
  · rw [flagged_append]
    refine ⟨f1, ?_⟩
    simp only [Flagged, Nat.zero_add, and_true]
    constructor
    · intro h hin
      rw [j3]
      exact fto1 (by omega) hin
    · intro h hin
      rw [j4]
      by_cases hp : 0 < p.usr
      · apply fp2 hp
        rw [j2] at hin
        rwa [show rawSum A + to.raw + p.usr - 1 = rawSum A + (to.usr + p.usr) - 1 by omega]
      · -- the second record draws nothing: the last drawn point is the (visible) last point of the first
        exfalso
        have hp0 : p.usr = 0 := by omega
        rw [j2, hp0, Nat.add_zero] at hin
        have := fto2 (by omega) hin
        omega

/-- `pushPart` on the reversed output keeps the property -/
theorem good_push (r : Range) (xs : List Rat) (out : List Part) (c : Nat) (p : Part)
    (hg : Good r xs out.reverse c) (hc : CallAt r xs c p) :
    Good r xs (pushPart out p).reverse (c + p.raw) := by
  cases out with
  | nil => simpa [pushPart] using good_snoc r xs [] c p hg hc
  | cons last more =>
    have hs := good_snoc r xs _ c p hg hc
    cases hj : linepartJoin last p with
    | none =>
      have : pushPart (last :: more) p = p :: last :: more := by simp [pushPart, hj]
      rw [this]
      simpa using hs
    | some j =>
      have : pushPart (last :: more) p = j :: more := by simp [pushPart, hj]
      rw [this]
      simp only [List.reverse_cons, List.append_assoc, List.cons_append, List.nil_append] at hs ⊢
      exact good_join r xs more.reverse last p j _ hs hj

/-! ### the array prepared by `linepart::array::set` -/

/-- a part as `set` makes it: all points drawn, nothing cut, at most 65533 points -/
def Plain (q : Part) : Prop := q.usr = q.raw ∧ 0 < q.raw ∧ q.raw ≤ 65533 ∧ q.cut = 0 ∧ q.trim = 0

theorem arraySetAux_plain (fuel len : Nat) :
    (∀ q ∈ arraySetAux fuel len, Plain q) ∧ (len / 65533 + 1 ≤ fuel → rawSum (arraySetAux fuel len) = len) := by
  induction fuel generalizing len with
  | zero => exact ⟨by intro q hq; simp [arraySetAux] at hq, by intro h; omega⟩
  | succ n ih =>
    unfold arraySetAux
    by_cases h0 : len = 0
    · simp [h0, rawSum]
    · rw [if_neg h0]
      by_cases h1 : len < 65533
      · rw [if_pos h1]
        refine ⟨?_, fun _ => by simp [rawSum]⟩
        intro q hq; simp at hq; subst hq
        exact ⟨rfl, by simp; omega, by simp; omega, rfl, rfl⟩
      · rw [if_neg h1]
        obtain ⟨i1, i2⟩ := ih (len - 65533)
        refine ⟨?_, ?_⟩
        · intro q hq
          simp only [List.mem_cons] at hq
          rcases hq with e | e
          · subst e; exact ⟨rfl, by simp, by simp, rfl, rfl⟩
          · exact i1 q e
        · intro hf
          rw [rawSum_cons, i2 (by omega)]
          simp only []
          omega

/-! ### the merge loop -/

/-- loop invariant: `c` points are consumed and covered by the output; the current old part and the
    parts behind it are plain and cover the rest -/
structure Inv (r : Range) (xs : List Rat) (s : MergeSt) (c : Nat) : Prop where
  good : Good r xs s.out.reverse c
  fin : s.done = true → c = xs.length
  run : s.done = false → Plain s.old ∧ (∀ q ∈ s.rest, Plain q) ∧ s.vals = xs.drop c ∧
    c + s.old.raw + rawSum s.rest = xs.length

/-- one round of the loop on a plain old part: a call on the rest of that part -/
theorem merge_step (r : Range) (xs : List Rat) (s : MergeSt) (c : Nat) (h : Inv r xs s c) (hd : s.done = false) :
    ∃ c', c < c' ∧ Inv r xs (mergeStep (some r) s) c' := by
  obtain ⟨hg, _, hrun⟩ := h
  obtain ⟨⟨ho1, ho2, ho3, ho4, ho5⟩, hrest, hvals, hsum⟩ := hrun hd
  have hvl : s.vals.length = xs.length - c := by rw [hvals, List.length_drop]
  have hm : s.old.raw ≤ s.vals.length := by omega
  obtain ⟨hcall, hraw⟩ := window_call r xs c s.old.raw ho2 (by omega)
  unfold mergeStep
  simp only []
  rw [if_neg (by omega)]
  have husr : (if s.vals.length < s.old.usr then s.vals.length else s.old.usr) = s.old.raw := by
    rw [ho1, if_neg (by omega)]
  have hwin : List.take s.old.raw s.vals = (xs.drop c).take s.old.raw := by rw [hvals]
  rw [husr, hwin]
  generalize hp : linepartLinear ((xs.drop c).take s.old.raw) (some r) = p at hcall hraw ⊢
  have hcut : (if p.usr ≠ 0 ∧ s.old.cut > p.cut then s.old.cut else p.cut) = p.cut := by
    rw [ho4, if_neg (by omega)]
  have htrim : ∀ (u : Nat) (Q : Prop) [Decidable Q],
      (if u ≠ 0 ∧ Q ∧ u = s.old.raw ∧ s.old.trim > p.trim then s.old.trim else p.trim) = p.trim := by
    intro u Q _; rw [if_neg]; intro h; have := h.2.2.2; omega
  simp only [hcut, htrim]
  have hpe : ({ raw := p.raw, usr := p.usr, cut := p.cut, trim := p.trim } : Part) = p := rfl
  by_cases hpart : p.raw < s.old.raw
  · -- a partial segment: the rest of the old part stays current
    rw [if_pos hpart]
    refine ⟨c + p.raw, by have := hcall.pos; omega, ?_, ?_, ?_⟩
    · exact good_push r xs s.out c p hg hcall
    · intro hdn; simp only [hd] at hdn; cases hdn
    · intro _
      refine ⟨⟨rfl, (by show 0 < s.old.raw - p.raw; omega), (by show s.old.raw - p.raw ≤ 65533; omega), rfl, ho5⟩,
        hrest, ?_, ?_⟩
      · simp only []; rw [hvals, List.drop_drop]
      · simp only []; omega
  · rw [if_neg hpart]
    have hpr : p.raw = s.old.raw := by omega
    have hmin : (if s.old.raw < p.raw then s.old.raw else p.raw) = p.raw := by rw [if_neg (by omega)]
    simp only [hmin]
    -- the next old part
    cases hr : s.rest with
    | nil =>
      refine ⟨c + p.raw, by have := hcall.pos; omega, ?_, ?_, ?_⟩
      · simp only [nextOld, hr]
        exact good_push r xs s.out c p hg hcall
      · intro _
        rw [hr] at hsum
        simp only [rawSum, List.map_nil, List.sum_nil] at hsum
        omega
      · intro hdn; simp [nextOld, hr] at hdn
    | cons q more =>
      refine ⟨c + p.raw, by have := hcall.pos; omega, ?_, ?_, ?_⟩
      · simp only [nextOld, hr]
        exact good_push r xs s.out c p hg hcall
      · intro hdn; simp [nextOld, hr, hd] at hdn
      · intro _
        simp only [nextOld, hr]
        rw [hr] at hrest hsum
        refine ⟨hrest q (by simp), fun x hx => hrest x (by simp [hx]), ?_, ?_⟩
        · rw [hvals, List.drop_drop]
        · rw [rawSum_cons] at hsum; omega

/-- the loop ends with every point consumed -/
theorem merge_loop (r : Range) (xs : List Rat) (fuel : Nat) (s : MergeSt) (c : Nat) (h : Inv r xs s c)
    (hf : xs.length - c < fuel) :
    Good r xs (mergeLoop (some r) fuel s).out.reverse xs.length := by
  induction fuel generalizing s c with
  | zero => omega
  | succ n ih =>
    unfold mergeLoop
    by_cases hd : s.done = true
    · rw [if_pos hd]
      have := h.fin hd
      rw [← this]; exact h.good
    · rw [if_neg hd]
      have hd' : s.done = false := by simpa using hd
      obtain ⟨c', hc, hinv⟩ := merge_step r xs s c h hd'
      have hle : c' ≤ xs.length := by
        have := hinv.good.sum
        by_cases hdn : (mergeStep (some r) s).done = true
        · have := hinv.fin hdn; omega
        · have := (hinv.run (by simpa using hdn)).2.2.2; omega
      by_cases hdn : (mergeStep (some r) s).done = true
      · -- finished: any fuel will do
        cases n with
        | zero =>
          unfold mergeLoop
          have := hinv.fin hdn
          rw [← this]; exact hinv.good
        | succ k => exact ih _ c' hinv (by have := hinv.fin hdn; omega)
      · have := (hinv.run (by simpa using hdn))
        obtain ⟨⟨_, hp, _⟩, _, _, hs⟩ := this
        exact ih _ c' hinv (by omega)

/-- **the merge path**: on the parts `linepart::array::set` makes for the points, applying one dimension
    yields records with the whole property -/
theorem merge_good (xs : List Rat) (r : Range) (ps : List Part)
    (h : arrayApply (arraySet xs.length) xs (some r) = some ps) : Good r xs ps xs.length := by
  unfold arrayApply at h
  by_cases h0 : xs.length = 0
  · rw [if_pos h0] at h; cases h
  · rw [if_neg h0] at h
    obtain ⟨hpl, hsum⟩ := arraySetAux_plain (xs.length / 65533 + 2) xs.length
    have hsum' := hsum (by omega)
    cases hq : arraySet xs.length with
    | nil =>
      unfold arraySet at hq
      rw [hq] at hsum'
      simp [rawSum] at hsum'
      omega
    | cons p rest =>
      rw [hq] at h
      simp only [Option.some.injEq] at h
      subst h
      unfold arraySet at hq
      rw [hq] at hpl hsum'
      apply merge_loop r xs _ _ 0 _ (by simp only [List.length_cons]; omega)
      refine ⟨⟨rfl, (by intro q hq; simp at hq), ?_, trivial, trivial⟩, (by intro hd; cases hd), ?_⟩
      · intro i _; simp [drawnCount]
      · intro _
        refine ⟨hpl p (by simp), fun q hq => hpl q (by simp [hq]), by simp, ?_⟩
        rw [rawSum_cons] at hsum'
        show 0 + p.raw + rawSum rest = xs.length
        omega

/-! ### the consumer's view and the fractions of all records -/

/-- with visible interiors and marked crossings every point the consumer reports is visible -/
theorem reported_visible (r : Range) (xs : List Rat) (ps : List Part) (s : Nat)
    (hi : InteriorVisible r xs ps s) (hf : Flagged r xs ps s) : ReportedVisible r xs ps s := by
  induction ps generalizing s with
  | nil => trivial
  | cons p ps ih =>
    obtain ⟨i1, i2⟩ := hi
    obtain ⟨f1, f2, f3⟩ := hf
    refine ⟨?_, ih _ i2 f3⟩
    intro j h1 h2
    by_cases hj0 : j = 0
    · subst hj0
      have hc : p.cut = 0 := by
        apply Decidable.byContradiction; intro hn; rw [if_pos hn] at h1; omega
      apply Decidable.byContradiction
      intro hn
      have := f1 (by omega) (by simpa using hn)
      omega
    · by_cases hl : j + 1 < p.usr
      · exact i1 (s + j) (by omega) (by omega)
      · have ht : p.trim = 0 := by
          apply Decidable.byContradiction; intro hn; rw [if_pos hn] at h2; omega
        apply Decidable.byContradiction
        intro hn
        have := f2 (by omega) (by rw [show s + p.usr - 1 = s + j by omega]; exact hn)
        omega

/-- the `points()` span of every part starts `[cut ≠ 0]` points into its drawn points and leaves `[trim ≠ 0]`
    points at the end: exactly the positions `ReportedVisible` speaks about -/
theorem polyParts_spans (ps : List Part) (t : Nat) :
    (polyParts ps t).map (fun e => ((e.1 : Int) - e.2.2.1, e.2.1, e.2.2.2)) =
      ps.map (fun p => (((if p.cut ≠ 0 then 1 else 0 : Nat) : Int),
        (p.usr : Int) - (if p.cut ≠ 0 then 1 else 0 : Nat) - (if p.trim ≠ 0 then 1 else 0 : Nat), p.usr)) := by
  induction ps generalizing t with
  | nil => rfl
  | cons p ps ih =>
    simp only [polyParts, List.map_cons, ih, List.cons.injEq, and_true, Prod.mk.injEq]
    by_cases hc : p.cut = 0 <;> by_cases ht : p.trim = 0 <;> simp [hc, ht] <;> omega

theorem real_toNat (f : Rat) (h0 : 0 ≤ f) (h1 : f ≤ 1) : real (((code f).toNat : Nat) : Int) = real (code f) := by
  have := (code_bounds f h0 h1).1
  rw [Int.toNat_of_nonneg this]

/-- the fractions of all records of the repeated calls -/
theorem partsAux_coded (r : Range) (xs : List Rat) (fuel : Nat) (zs : List Rat) (s : Nat)
    (hz : ∀ j, zs[j]? = xs[s + j]?) (h : zs.length ≤ fuel) :
    CrossingsCoded (fun c => real (c : Int)) r xs (partsAux (some r) fuel zs) s := by
  induction fuel generalizing zs s with
  | zero => rw [partsAux_nil _ 0 zs (by omega)]; trivial
  | succ n ih =>
    by_cases hne : 0 < zs.length
    · rw [partsAux_cons _ n zs hne]
      have ok := linear_ok r zs hne
      refine ⟨?_, ?_, ih (zs.drop (linepartLinear zs (some r)).raw) (s + (linepartLinear zs (some r)).raw) ?_ ?_⟩
      · intro x0 x1 h0 h1 hu ho
        have z0 : zs[0]? = some x0 := by rw [hz]; simpa using h0
        have z1 : zs[1]? = some x1 := by rw [hz]; exact h1
        have zo : ¬ insideAt r zs 0 := fun hin => ho (by simpa using (insideAt_shift r xs zs s hz 0).1 hin)
        obtain ⟨_, c2, c3, c4, c5, _⟩ := cut_crossing zs r x0 x1 z0 z1 zo hu
        have acc := code_accuracy _ (Rat.le_of_lt c4) c5
        simp only []
        rw [c3, real_toNat _ (Rat.le_of_lt c4) c5]
        exact ⟨acc.1, acc.2, by rw [← c3]; exact c2⟩
      · intro prev x hp hx hu ho
        have zp : zs[(linepartLinear zs (some r)).usr - 2]? = some prev := by
          rw [hz, show s + ((linepartLinear zs (some r)).usr - 2) = s + (linepartLinear zs (some r)).usr - 2 by omega]
          exact hp
        have zx : zs[(linepartLinear zs (some r)).usr - 1]? = some x := by
          rw [hz, show s + ((linepartLinear zs (some r)).usr - 1) = s + (linepartLinear zs (some r)).usr - 1 by omega]
          exact hx
        have zo : ¬ insideAt r zs ((linepartLinear zs (some r)).usr - 1) := by
          intro hin
          apply ho
          have := (insideAt_shift r xs zs s hz _).1 hin
          rwa [show s + ((linepartLinear zs (some r)).usr - 1) = s + (linepartLinear zs (some r)).usr - 1 by omega] at this
        obtain ⟨_, c2, c3, c4, c5, _⟩ := trim_crossing zs r prev x hu zp zx zo
        have acc := code_accuracy _ (Rat.le_of_lt c4) c5
        simp only []
        rw [c3, real_toNat _ (Rat.le_of_lt c4) c5]
        exact ⟨acc.1, acc.2, by rw [← c3]; exact c2⟩
      · intro j; rw [List.getElem?_drop, hz]; congr 1; omega
      · have := ok.pos; have := ok.raw_le; simp only [List.length_drop]; omega
    · rw [partsAux_nil _ _ zs (by omega)]; trivial

theorem floor_mono (a b : Rat) (h : a ≤ b) : a.floor ≤ b.floor := by
  have h1 := Rat.floor_le a
  have h2 := Rat.lt_floor_add_one b
  have : ((a.floor : Int) : Rat) < ((b.floor + 1 : Int) : Rat) := by grind
  have := Rat.intCast_lt_intCast.1 this
  omega

theorem code_zero : code 0 = 0 := by decide +kernel

theorem code_small (x : Rat) (h0 : 0 ≤ x) (h1 : x ≤ 1) (hn : x ≠ 0) (hs : x * 65536 < 1) : code x = 1 := by
  rw [code_eq x h0 h1, if_pos ⟨hn, hs⟩]

theorem code_big (x : Rat) (h0 : 0 ≤ x) (h1 : x ≤ 1) (hb : 65535 < x * 65536) : code x = 65535 := by
  rw [code_eq x h0 h1, if_neg (by intro h; have := h.2; grind), if_pos hb]

theorem code_mid (x : Rat) (h0 : 0 ≤ x) (h1 : x ≤ 1) (ha : ¬ x * 65536 < 1) (hb : ¬ 65535 < x * 65536) :
    code x = (x * 65536).floor := by
  rw [code_eq x h0 h1, if_neg (fun h => ha h.2), if_neg hb]

/-- the code is monotone in the fraction -/
theorem code_mono (f g : Rat) (h0 : 0 ≤ f) (hfg : f ≤ g) (h1 : g ≤ 1) : code f ≤ code g := by
  have hg0 : 0 ≤ g := Rat.le_trans h0 hfg
  have hf1 : f ≤ 1 := Rat.le_trans hfg h1
  have hm := floor_mono (f * 65536) (g * 65536) (by grind)
  have gl := Rat.lt_floor_add_one (g * 65536)
  have fb := Rat.floor_le (f * 65536)
  have e2 : (((g * 65536).floor + 1 : Int) : Rat) = ((g * 65536).floor : Rat) + 1 := by simp [Rat.intCast_add]
  rw [e2] at gl
  by_cases hf0 : f = 0
  · subst hf0
    rw [code_zero]
    exact (code_bounds g hg0 h1).1
  · have hgn : g ≠ 0 := by intro e; subst e; exact hf0 (Rat.le_antisymm hfg h0)
    by_cases hA : f * 65536 < 1
    · rw [code_small f h0 hf1 hf0 hA]
      by_cases hB : g * 65536 < 1
      · rw [code_small g hg0 h1 hgn hB]; omega
      · by_cases hC : 65535 < g * 65536
        · rw [code_big g hg0 h1 hC]; omega
        · rw [code_mid g hg0 h1 hB hC]
          have : ((1 : Int) : Rat) < (((g * 65536).floor : Int) : Rat) + 1 := by
            have : ((1 : Int) : Rat) = 1 := by simp
            rw [this]; grind
          have h3 : ((1 : Int) : Rat) < (((g * 65536).floor + 1 : Int) : Rat) := by rw [e2]; exact this
          have := Rat.intCast_lt_intCast.1 h3
          omega
    · have hB : ¬ g * 65536 < 1 := by grind
      by_cases hD : 65535 < f * 65536
      · rw [code_big f h0 hf1 hD, code_big g hg0 h1 (by grind)]; omega
      · rw [code_mid f h0 hf1 hA hD]
        by_cases hC : 65535 < g * 65536
        · rw [code_big g hg0 h1 hC]
          have : (((f * 65536).floor : Int) : Rat) ≤ ((65535 : Int) : Rat) := by
            have : ((65535 : Int) : Rat) = 65535 := by simp
            rw [this]; grind
          exact Rat.intCast_le_intCast.1 this
        · rw [code_mid g hg0 h1 hB hC]; exact hm

end Mpt.Linepart
