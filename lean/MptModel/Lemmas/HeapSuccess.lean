/-
  C04: success conditions.  `Sem` lets every operation refuse; here: on an empty handle or on a handle that owns a
  private, mutable buffer of the matching kind the operations append / insert / set (and slice, `slice_struct`) are
  NOT refused — together with `Sem` they succeed with the value the vector spec prescribes.
-/
import MptModel.Lemmas.HeapHist
import MptModel.Lemmas.HeapOwn
namespace Mpt.Heap
open Mpt

/-- a result that is neither a fault (`Sem`) nor a refusal is a success -/
theorem ok_of_sem {α : Type} {s : State} {h : Nat} {R : Vec.Vec → Vec.Vec → Prop} {r : Out α} (sem : Sem s h R r)
    (nf : ∀ s' e, r ≠ .fail s' e) : ∃ s' v, r = .ok s' v := by
  cases r with
  | fault w => exact sem.elim
  | fail s' e => exact absurd rfl (nf s' e)
  | ok s' v => exact ⟨s', v, rfl⟩

/-- `ensure` on an owned plain buffer is never refused -/
theorem ensure_own_no_fail {s : State} {h b : Nat} {x : Buf} (o : Own s h b x) (hp : PlainT x.traits) (need : Bool) (n : Nat)
    (s' : State) (e : Fail) : ensure s h b need n ≠ .fail s' e := by
  unfold ensure
  cases need with
  | false => simp
  | true =>
    simp only [if_true]
    have nf := detach_private_no_fail o.hb hp o.ref n
    cases hd : detach s b n with
    | ok s2 v => simp
    | fail s2 e2 => exact absurd hd (nf s2 e2)
    | fault w => simp

/-- the handle is empty or owns a private, mutable buffer whose content type is `t` -/
def Free (s : State) (h : Nat) (t : Option Traits) : Prop :=
  s.handle h = none ∨ ∃ b x, Own s h b x ∧ x.traits = t

theorem append_not_refused {s : State} (inv : Inv s) {h : Nat} (fr : Free s h none) (bytes : List Byte) (s' : State) (e : Fail) :
    arrayAppend s h bytes ≠ .fail s' e := by
  unfold arrayAppend
  rcases fr with hn | ⟨b, x, o, xt⟩
  · rw [hn]
    simp only [appendAt]
    split
    · simp
    · split
      · simp
      · split <;> simp
  · rw [o.hh]
    simp only [o.hb, xt, Option.isSome_none, Bool.false_eq_true, if_false]
    have nf := ensure_own_no_fail o (inv.plain b x o.hb)
      (decide (bytes.length > x.size - x.used ∨ (bytes.length ≠ 0 ∧ (x.shared = true ∨ x.immutable = true)))) (x.used + bytes.length)
    generalize ensure s h b _ (x.used + bytes.length) = r at nf
    cases r with
    | fault w => simp
    | fail s1 e1 => exact absurd rfl (nf s1 e1)
    | ok s1 nb =>
      simp only [appendAt]
      split
      · simp
      · split
        · simp
        · split <;> simp

/-- append on a free raw handle succeeds with the spec's value -/
theorem append_succeeds {s : State} (inv : Inv s) {h : Nat} (hlt : h < s.hs.length) (fr : Free s h none) (bytes : List Byte) :
    ∃ s' v, arrayAppend s h bytes = .ok s' v ∧ Inv s' ∧ s'.abs h = Vec.append (s.abs h) bytes ∧
      ∀ h', h' ≠ h → s'.abs h' = s.abs h' := by
  have sem := append_sem inv hlt bytes
  obtain ⟨s', v, e⟩ := ok_of_sem sem (append_not_refused inv fr bytes)
  rw [e] at sem
  exact ⟨s', v, e, sem.1, sem.2.2.1, sem.2.2.2⟩

theorem insert_not_refused {s : State} (inv : Inv s) {h : Nat} (fr : Free s h none) (pos : Nat) (bytes : List Byte)
    (s' : State) (e : Fail) : insertOp s h pos bytes ≠ .fail s' e := by
  have pokenf : ∀ (st : State) (p : Nat) (s2 : State) (e2 : Fail), poke st h p bytes ≠ .fail s2 e2 := by
    intro st p s2 e2
    unfold poke
    split
    · split <;> simp
    · split
      · simp
      · split <;> simp
  have tail : ∀ (st : State) (p : Nat), (match poke st h p bytes with
      | .ok s2 _ => Out.ok s2 p
      | .fail s2 e => .fail s2 e
      | .fault w => .fault w) ≠ .fail s' e := by
    intro st p
    generalize hp : poke st h p bytes = r
    cases r with
    | fault w => simp
    | fail s2 e2 => exact absurd hp (pokenf _ _ s2 e2)
    | ok s2 u => simp
  unfold insertOp arrayInsert
  rcases fr with hn | ⟨b, x, o, xt⟩
  · rw [hn]
    simp only
    have hz : ((s.newBuf (bytes.length + pos) 0).setHandle h (some s.bufs.length)).buf? s.bufs.length
        = some (State.fresh (bytes.length + pos) 0 none) := by
      rw [State.buf?_setHandle, State.buf?_newBuf]; simp
    rw [hz]
    exact tail _ pos
  · rw [o.hh]
    simp only [o.hb]
    have xp := inv.plain b x o.hb
    have hu := inv.used b x o.hb
    have es := ensure_sem inv o.hh o.hb (decide ¬(max x.used pos + bytes.length ≤ x.size ∧ ¬x.shared = true)) (max x.used pos + bytes.length)
      (by
        intro hn
        simp only [decide_eq_false_iff_not, Decidable.not_not] at hn
        have := o.ref
        exact ⟨by omega, o.wr, hn.1⟩)
    have nf := ensure_own_no_fail o xp (decide ¬(max x.used pos + bytes.length ≤ x.size ∧ ¬x.shared = true)) (max x.used pos + bytes.length)
    generalize ensure s h b _ (max x.used pos + bytes.length) = r at es nf
    cases r with
    | fault w => simp
    | fail s1 e1 => exact absurd rfl (nf s1 e1)
    | ok s1 nb =>
      simp only
      have dp : DetachPost s h x (max x.used pos + bytes.length) s1 nb := es
      obtain ⟨z, hz, zr, zi, zs, zt, zu, zc⟩ := dp.keeps hu (by omega)
      have zp := dp.1.plain nb z hz
      have e1 : esize z.traits = 1 := by rw [zt, xt]; rfl
      by_cases t0 : max z.used pos + bytes.length = 0
      · have : bufferInsert s1 nb pos bytes.length = .ok s1 0 := by
          unfold bufferInsert
          rw [hz]
          simp only
          rw [if_pos t0]
        rw [this]
        exact tail s1 0
      · have bi := bufferInsert_plain_ok (s := s1) hz zp pos bytes.length t0 (by rw [zu]; exact zs) zi
          (esize_one_mod _ e1 _) (esize_one_mod _ e1 _) (esize_one_mod _ e1 _)
        rw [bi]
        exact tail _ pos

/-- insert on a free raw handle succeeds with the spec's value (any position: the gap is zero filled) -/
theorem insert_succeeds {s : State} (inv : Inv s) {h : Nat} (hlt : h < s.hs.length) (fr : Free s h none) (pos : Nat) (bytes : List Byte) :
    ∃ s' v, insertOp s h pos bytes = .ok s' v ∧ Inv s' ∧ s'.abs h = Vec.insert (s.abs h) pos bytes ∧
      ∀ h', h' ≠ h → s'.abs h' = s.abs h' := by
  have sem := insert_sem inv hlt pos bytes
  obtain ⟨s', v, e⟩ := ok_of_sem sem (insert_not_refused inv fr pos bytes)
  rw [e] at sem
  exact ⟨s', v, e, sem.1, sem.2.2.1, sem.2.2.2⟩


theorem toNat_mod_of_aligned (off : Int) (n u : Nat) (hu : u % n = 0) (h : 0 ≤ off * Int.ofNat n + Int.ofNat u) :
    (off * Int.ofNat n + Int.ofNat u).toNat % n = 0 := by
  have e : ((off * Int.ofNat n + Int.ofNat u) % (n : Int)) = 0 := by
    have h1 : (Int.ofNat u) % (n : Int) = 0 := by
      show ((u : Int) % (n : Int)) = 0
      exact_mod_cast hu
    have h2 : off * Int.ofNat n % (n : Int) = 0 := Int.mul_emod_left off n
    rw [Int.add_emod, h1, h2]; simp
  obtain ⟨z, hz⟩ := Int.eq_ofNat_of_zero_le h
  rw [hz] at e ⊢
  rw [Int.toNat_natCast]
  exact_mod_cast e

theorem setAt_none (v : Vec.Vec) (esz : Nat) (off : Int) (bytes : List Byte)
    (h : (if off < 0 then Int.ofNat v.length + off * Int.ofNat esz else off * Int.ofNat esz) < 0) :
    Vec.setAt v esz off bytes = none := by
  unfold Vec.setAt
  simp only
  rw [if_pos h]

/-- `mpt_array_set` with plain element traits on a free handle of that type: not refused when the data are whole
    elements and the position does not lie in front of the data -/
theorem set_not_refused {s : State} (inv : Inv s) {h : Nat} (t : Traits) (pt : PlainT (some t)) (fr : Free s h (some t))
    (bytes : List Byte) (hasSrc : Bool) (off : Int) (whole : bytes.length % t.size = 0)
    (inrange : Vec.setAt (s.abs h) t.size off bytes ≠ none) (s' : State) (e : Fail) :
    arraySet s h (some t) bytes hasSrc off ≠ .fail s' e := by
  have sz0 := (pt t rfl).2.2
  have bsnf : ∀ (st : State) (nb pos : Nat) (z : Buf), st.buf? nb = some z → z.traits = some t → PlainT z.traits →
      pos + bytes.length ≤ z.size → pos % t.size = 0 →
      (match bufferSet st nb (some t) pos bytes hasSrc with
        | .ok s2 _ => Out.ok s2 pos
        | .fail s2 _ => .fail s2 .null
        | .fault w => .fault w) ≠ .fail s' e := by
    intro st nb pos z hz zt zp fit al
    have bs := bufferSet_plain hz zp pos bytes hasSrc
    rw [zt] at bs
    rw [bs, if_neg (by omega)]
    simp only
    rw [if_neg (by simp [sz0, al, whole])]
    simp
  unfold arraySet
  simp only
  rw [if_neg (by simp [sz0, whole])]
  rcases fr with hn | ⟨b, x, o, xt⟩
  · rw [hn]
    simp only
    have a0 : s.abs h = [] := State.abs_none hn
    rw [a0] at inrange
    have nn : ¬ off * Int.ofNat t.size < 0 := by
      intro c
      apply inrange
      apply setAt_none
      generalize off * Int.ofNat t.size = q at c ⊢
      split
      · have z : Int.ofNat ([] : List Byte).length = 0 := rfl
        rw [z]; omega
      · exact c
    rw [if_neg nn]
    have hz : ((s.newBuf ((off * Int.ofNat t.size).toNat + bytes.length) 0 (some t)).setHandle h (some s.bufs.length)).buf? s.bufs.length
        = some (State.fresh ((off * Int.ofNat t.size).toNat + bytes.length) 0 (some t)) := by
      rw [State.buf?_setHandle, State.buf?_newBuf]; simp
    have asz := le_allocSize ((off * Int.ofNat t.size).toNat + bytes.length)
    refine bsnf _ _ _ _ hz rfl pt (by simp only [State.fresh, Buf.size, List.length_replicate]; exact asz) ?_
    have := toNat_mod_of_aligned off t.size 0 (by simp) (by simpa using Int.not_lt.mp nn)
    simpa using this
  · rw [o.hh]
    simp only [o.hb]
    rw [if_neg (by simp [xt])]
    have xp := inv.plain b x o.hb
    have hu := inv.used b x o.hb
    have al := inv.aligned b x o.hb
    rw [xt] at al
    simp only [esize] at al
    have absx : s.abs h = x.content := State.abs_of o.hh o.hb
    have cl := content_length x hu
    generalize hp1 : (if off < 0 then off * Int.ofNat t.size + Int.ofNat x.used else off * Int.ofNat t.size) = pos1
    have nn : ¬ pos1 < 0 := by
      intro c
      apply inrange
      apply setAt_none
      rw [absx, cl, ← hp1] at *
      generalize off * Int.ofNat t.size = q at c ⊢
      split
      · rename_i o0; rw [if_pos o0] at c; omega
      · rename_i o0; rw [if_neg o0] at c; exact c
    rw [if_neg nn]
    have pal : pos1.toNat % t.size = 0 := by
      by_cases o0 : off < 0
      · simp only [o0, if_true] at hp1
        rw [← hp1]
        exact toNat_mod_of_aligned off t.size x.used al (by rw [hp1]; exact Int.not_lt.mp nn)
      · simp only [o0, if_false] at hp1
        rw [← hp1]
        have := toNat_mod_of_aligned off t.size 0 (by simp) (by rw [show off * Int.ofNat t.size + Int.ofNat 0 = off * Int.ofNat t.size by simp, hp1]; exact Int.not_lt.mp nn)
        simpa using this
    have es := ensure_sem inv o.hh o.hb (decide (x.size < pos1.toNat + bytes.length ∨ x.immutable = true ∨ x.shared = true))
      (max (pos1.toNat + bytes.length) x.used)
      (by
        intro hn
        simp only [decide_eq_false_iff_not, not_or, Buf.shared, decide_eq_true_eq, Bool.not_eq_true] at hn
        have := o.ref
        simp only [Buf.size] at hu hn ⊢
        exact ⟨by omega, hn.2.1, by omega⟩)
    have nf := ensure_own_no_fail o xp (decide (x.size < pos1.toNat + bytes.length ∨ x.immutable = true ∨ x.shared = true))
      (max (pos1.toNat + bytes.length) x.used)
    generalize ensure s h b _ (max (pos1.toNat + bytes.length) x.used) = r at es nf
    cases r with
    | fault w => simp
    | fail s1 e1 => exact absurd rfl (nf s1 e1)
    | ok s1 nb =>
      simp only
      have dp : DetachPost s h x (max (pos1.toNat + bytes.length) x.used) s1 nb := es
      obtain ⟨z, hz, zr, zi, zs, zt, zu, zc⟩ := dp.keeps hu (by omega)
      exact bsnf s1 nb pos1.toNat z hz (zt.trans xt) (dp.1.plain nb z hz) (by omega) pal

/-- set on a free handle of the element type succeeds with the spec's value -/
theorem set_succeeds {s : State} (inv : Inv s) {h : Nat} (hlt : h < s.hs.length) (t : Traits) (pt : PlainT (some t))
    (fr : Free s h (some t)) (bytes : List Byte) (hasSrc : Bool) (off : Int) (whole : bytes.length % t.size = 0)
    (inrange : Vec.setAt (s.abs h) t.size off bytes ≠ none) :
    ∃ s' v, arraySet s h (some t) bytes hasSrc off = .ok s' v ∧ Inv s' ∧
      Vec.setAt (s.abs h) t.size off bytes = some (s'.abs h) ∧ ∀ h', h' ≠ h → s'.abs h' = s.abs h' := by
  have sem := set_sem inv hlt t pt bytes hasSrc off
  obtain ⟨s', v, e⟩ := ok_of_sem sem (set_not_refused inv t pt fr bytes hasSrc off whole inrange)
  rw [e] at sem
  exact ⟨s', v, e, sem.1, sem.2.2.1, sem.2.2.2⟩

theorem ownsB_own {s : State} {h : Nat} {t : Option Traits} (e : ownsB s h t = true) :
    ∃ b x, Own s h b x ∧ x.traits = t := by
  unfold ownsB at e
  cases hh : s.handle h with
  | none => rw [hh] at e; simp at e
  | some b =>
    rw [hh] at e
    simp only [Option.bind_some] at e
    cases hb : s.buf? b with
    | none => rw [hb] at e; simp at e
    | some x =>
      rw [hb] at e
      simp only [Bool.and_eq_true, decide_eq_true_eq, Bool.not_eq_true'] at e
      exact ⟨b, x, ⟨hh, hb, e.1.1, e.1.2⟩, e.2⟩

theorem freeB_free {s : State} {h : Nat} {t : Option Traits} (e : freeB s h t = true) : Free s h t := by
  unfold freeB at e
  simp only [Bool.or_eq_true, Option.isNone_iff_eq_none] at e
  rcases e with e | e
  · exact Or.inl e
  · exact Or.inr (ownsB_own e)

/-- a cut inside the data of an own, writable, untyped buffer is not refused -/
theorem cut_not_refused {s : State} (inv : Inv s) {h b : Nat} {x : Buf} (o : Own s h b x) (xt : x.traits = none)
    (off len : Nat) (inr : Vec.cut (s.abs h) off len ≠ none) (s' : State) (e : Fail) :
    cutOp s h off len ≠ .fail s' e := by
  have hu := inv.used b x o.hb
  have absx : s.abs h = x.content := State.abs_of o.hh o.hb
  have hp : PlainT x.traits := by rw [xt]; exact PlainT.none
  have nf := ensure_own_no_fail o hp true x.used
  have es := ensure_sem inv o.hh o.hb true x.used (by intro e; cases e)
  unfold cutOp
  rw [o.hh]
  simp only
  rw [o.hb]
  simp only
  generalize hr : ensure s h b true x.used = r at es nf
  cases r with
  | fault w => simp
  | fail s1 e1 => exact absurd rfl (nf s1 e1)
  | ok s1 nb =>
    simp only
    have dp : DetachPost s h x x.used s1 nb := es
    obtain ⟨z, hz, zr, zi, zs, zt, zu, zc⟩ := dp.keeps hu (Nat.le_refl _)
    have cl := content_length x hu
    rw [absx] at inr
    unfold Vec.cut at inr
    rw [cl] at inr
    unfold bufferCut
    rw [hz]
    simp only [zt, xt, zu]
    by_cases l0 : len = 0
    · subst l0
      simp only [if_true] at inr
      have : off ≤ x.used := by
        by_cases c : off ≤ x.used
        · exact c
        · rw [if_neg c] at inr; exact absurd rfl inr
      rw [if_neg (by omega), if_neg (by omega)]
      simp only [if_true]
      rw [if_neg (by omega)]
      simp
    · simp only [l0, if_false] at inr
      have : off + len ≤ x.used := by
        by_cases c : off + len ≤ x.used
        · exact c
        · rw [if_neg c] at inr; exact absurd rfl inr
      rw [if_neg (by omega), if_neg (by omega)]
      simp only [l0, if_false]
      rw [if_neg (by omega)]
      simp

theorem cut_succeeds {s : State} (inv : Inv s) {h : Nat} (hlt : h < s.hs.length) {b : Nat} {x : Buf} (o : Own s h b x)
    (xt : x.traits = none) (off len : Nat) (inr : Vec.cut (s.abs h) off len ≠ none) :
    ∃ s' v, cutOp s h off len = .ok s' v ∧ Inv s' ∧ Vec.cut (s.abs h) off len = some (s'.abs h) ∧
      ∀ h', h' ≠ h → s'.abs h' = s.abs h' := by
  have sem := cut_sem inv (h := h) off len
  obtain ⟨s', v, e⟩ := ok_of_sem sem (cut_not_refused inv o xt off len inr)
  rw [e] at sem
  exact ⟨s', v, e, sem.1, sem.2.2.1, sem.2.2.2⟩

/-- the operations `mustSucceed` names are not refused by the model -/
theorem mustSucceed_ok {s : State} (inv : Inv s) (op : Op) (wf : op.wf s.hs.length)
    (m : mustSucceed s op (s.abs op.handle) = true) : ∃ s', exec s op = .ok s' () := by
  cases op with
  | append h bytes =>
    have hlt : h < s.hs.length := Op.handle_lt wf
    change freeB s h none = true at m
    obtain ⟨s', v, e, _⟩ := append_succeeds inv hlt (freeB_free m) bytes
    exact ⟨s', by simp only [exec, e, Out.mapv]⟩
  | insert h pos bytes =>
    have hlt : h < s.hs.length := Op.handle_lt wf
    change freeB s h none = true at m
    obtain ⟨s', v, e, _⟩ := insert_succeeds inv hlt (freeB_free m) pos bytes
    exact ⟨s', by simp only [exec, e, Out.mapv]⟩
  | set h t off bytes hasSrc =>
    have hlt : h < s.hs.length := Op.handle_lt wf
    change ((!t.init && t.fini.isNone && decide (t.size ≠ 0)) && freeB s h (some t) && decide (bytes.length % t.size = 0) &&
      (Vec.setAt (s.abs h) t.size off bytes).isSome) = true at m
    simp only [Bool.and_eq_true, Bool.not_eq_true', decide_eq_true_eq, Option.isNone_iff_eq_none] at m
    obtain ⟨⟨⟨⟨⟨ti, tf⟩, tz⟩, fr⟩, whole⟩, inr⟩ := m
    have pt : PlainT (some t) := by
      intro y hy; cases hy; exact ⟨ti, tf, tz⟩
    obtain ⟨s', v, e, _⟩ := set_succeeds inv hlt t pt (freeB_free fr) bytes hasSrc off whole
      (by intro c; rw [c] at inr; simp at inr)
    exact ⟨s', by simp only [exec, e, Out.mapv]⟩
  | cut h off len =>
    have hlt : h < s.hs.length := Op.handle_lt wf
    change (ownsB s h none && (Vec.cut (s.abs h) off len).isSome) = true at m
    simp only [Bool.and_eq_true] at m
    obtain ⟨b, x, o, xt⟩ := ownsB_own m.1
    obtain ⟨s', v, e, _⟩ := cut_succeeds inv hlt o xt off len
      (by intro c; have := m.2; rw [c] at this; simp at this)
    exact ⟨s', by simp only [exec, e, Out.mapv]⟩
  | slice h off len => simp [mustSucceed] at m
  | bset h pos bytes hasSrc => simp [mustSucceed] at m
  | clone d src => simp [mustSucceed] at m
  | drop h => simp [mustSucceed] at m
  | detach h n => simp [mustSucceed] at m
  | reduce h => simp [mustSucceed] at m
  | reserve h n t => simp [mustSucceed] at m

end Mpt.Heap
