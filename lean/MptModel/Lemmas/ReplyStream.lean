/-
  C12, stream-input variant: one request produces exactly the reply frame the spec names.
-/
import MptModel.Impl.Reply
namespace Mpt.StreamIn
open Mpt.ReplySpec (mark streamFrame)

/-- payload of the handler's first reply attempt (`some none` = NULL message) -/
def firstReply : List Act → Option (Option (List Byte))
  | [] => none
  | .reply m :: _ => some (some m)
  | .replyNull :: _ => some none
  | _ :: as => firstReply as

/-- the value the handler returns -/
def lastRet : List Act → Int → Int
  | [], r => r
  | .ret v :: as, _ => lastRet as v
  | _ :: as, r => lastRet as r

theorem mark_length (v : List Byte) : (mark v).length = v.length := by
  cases v <;> simp [mark]

theorem unmarkB (b : UInt8) (h : b.toNat < 128) : (b ||| 128) &&& 127 = b := by
  apply UInt8.eq_of_toBitVec_eq
  simp
  ext i hi
  have h7 : b.toBitVec.toNat.testBit 7 = false := Nat.testBit_lt_two_pow (by simpa using h)
  have : i = 0 ∨ i = 1 ∨ i = 2 ∨ i = 3 ∨ i = 4 ∨ i = 5 ∨ i = 6 ∨ i = 7 := by omega
  rcases this with h|h|h|h|h|h|h|h <;> subst h <;> simp <;>
    first | decide | (simp [BitVec.getElem_eq_testBit_toNat] at *; simp [h7])

/-- a request id (top bit clear) is restored exactly when the reply mark is taken back after a failed send -/
theorem unmark_mark (v : List Byte) (h : (v.headD 0).toNat < 128) : Reply.unmark (mark v) = v := by
  cases v with
  | nil => rfl
  | cons b r => simp [mark, Reply.unmark, unmarkB b (by simpa using h)]

theorem runActs_noctx (acts : List Act) (h : HRes) :
    (runActs false acts h).frames = h.frames ∧ (runActs false acts h).s = h.s ∧
    (runActs false acts h).ret = lastRet acts h.ret := by
  induction acts generalizing h with
  | nil => simp [runActs, lastRet]
  | cons a as ih =>
    cases a <;> simp [runActs, lastRet, ih]

theorem runActs_done (acts : List Act) (h : HRes) (h0 : h.s.rdlen = 0) :
    (runActs true acts h).frames = h.frames ∧ (runActs true acts h).s.rdlen = 0 ∧
    (runActs true acts h).ret = lastRet acts h.ret := by
  induction acts generalizing h with
  | nil => simp [runActs, lastRet, h0]
  | cons a as ih =>
    cases a <;> simp [runActs, lastRet, sreply, h0, ih]

/-- with the request still pending: the first reply attempt (if any) puts exactly one frame on the
    stream, everything after it is refused -/
theorem runActs_armed (acts : List Act) (h : HRes) (h0 : h.s.rdlen ≠ 0) (hv : (h.s.val.headD 0).toNat < 128) :
    (runActs true acts h).ret = lastRet acts h.ret ∧
    match firstReply acts with
    | none => (runActs true acts h).frames = h.frames ∧ (runActs true acts h).s = h.s
    | some m => (runActs true acts h).frames = h.frames ++ [(mark h.s.val).take h.s.rdlen ++ m.getD []] ∧
        (runActs true acts h).s.rdlen = 0 := by
  induction acts generalizing h with
  | nil => simp [runActs, lastRet, firstReply]
  | cons a as ih =>
    cases a with
    | ret v =>
      have := ih { h with ret := v, results := h.results ++ ["ret"] } h0 hv
      simpa [runActs, lastRet, firstReply] using this
    | defer =>
      have := ih { h with results := h.results ++ ["nodefer"] } h0 hv
      simpa [runActs, lastRet, firstReply] using this
    | reply m => simp [runActs, lastRet, firstReply, sreply, h0, runActs_done]
    | replyNull => simp [runActs, lastRet, firstReply, sreply, h0, runActs_done]
    | replyFail m =>
      have hs : ({ h.s with val := Reply.unmark (mark h.s.val) } : SIn) = h.s := by rw [unmark_mark _ hv]
      have := ih { h with results := h.results ++ [if Err.BadArgument.code < 0 then "refused" else "ok"] } h0 hv
      simpa [runActs, lastRet, firstReply, sreply, h0, hs] using this

theorem all_zero_iff (v : List Byte) : (v.all (· == 0)) = !(v.any (· ≠ 0)) := by
  induction v with
  | nil => rfl
  | cons b r ih => by_cases hb : b = 0 <;> simp [hb, ih]

theorem request_frames_aux (idlen : Nat) (val data : List Byte) (acts : List Act) :
    (request ⟨idlen, 0, val⟩ data acts).frames =
      (streamFrame idlen data (firstReply acts) (codeByte (lastRet acts 0))).toList ∧
    (request ⟨idlen, 0, val⟩ data acts).s.rdlen = 0 := by
  unfold request streamFrame
  simp only []
  by_cases h0 : idlen = 0
  · subst h0
    have := runActs_noctx acts { s := ⟨0, 0, val⟩ }
    simp [this]
  · by_cases hl : data.length < idlen
    · simp [h0, hl]
    · by_cases hm : ((data.take idlen).headD 0).toNat ≥ 128
      · simp only [h0, hl, hm, if_true, if_false, true_or, or_true]
        cases hb : MsgId.buf2id (Reply.unmark (data.take idlen)) with
        | ok pr =>
          have := runActs_noctx acts { s := ⟨idlen, 0, Reply.unmark (data.take idlen)⟩ }
          simp [this]
        | err e => simp
        | null => simp
        | oob => simp
        | fault => simp
      · have hlen : (data.take idlen).length = idlen := by simp; omega
        by_cases hc : (data.take idlen).any (· ≠ 0) = true
        · -- a reply context is offered
          have hall : (data.take idlen).all (· == 0) = false := by rw [all_zero_iff, hc]; rfl
          have ha := runActs_armed acts { s := ⟨idlen, idlen, data.take idlen⟩ } (by simpa using h0) (by simpa using hm)
          simp only [h0, hl, hm, hc, hall, if_true, if_false, false_or, or_false, Bool.false_eq_true]
          have htake : (mark (data.take idlen)).take idlen = mark (data.take idlen) := by
            apply List.take_of_length_le; rw [mark_length, hlen]; exact Nat.le_refl _
          cases hf : firstReply acts with
          | none =>
            rw [hf] at ha
            obtain ⟨hr, hfr, hst⟩ := ha
            simp [hfr, hst, hr, h0, sreply, htake]
          | some m =>
            rw [hf] at ha
            obtain ⟨hr, hfr, hst⟩ := ha
            simp [hfr, hst, htake]
        · have hc' : (data.take idlen).any (· ≠ 0) = false := by simpa using hc
          have hall : (data.take idlen).all (· == 0) = true := by rw [all_zero_iff, hc']; rfl
          have := runActs_noctx acts { s := ⟨idlen, 0, data.take idlen⟩ }
          simp only [h0, hl, hm, hc', hall, if_true, if_false, Bool.false_eq_true, false_and, or_true]
          exact ⟨by rw [this.1]; rfl, by rw [this.2.1]⟩

/-- one request on an idle stream input: the frames handed to the stream are exactly the one the
    spec names (or none), and the stream input is idle again afterwards -/
theorem request_frames (s : SIn) (hs : s.rdlen = 0) (data : List Byte) (acts : List Act) :
    (request s data acts).frames =
      (streamFrame s.idlen data (firstReply acts) (codeByte (lastRet acts 0))).toList ∧
    (request s data acts).s.rdlen = 0 := by
  obtain ⟨idlen, rdlen, val⟩ := s
  simp only at hs
  subst hs
  exact request_frames_aux idlen val data acts

end Mpt.StreamIn
