/-
  Helper definitions and lemmas for C06: histories of registrations, the extension order of registry
  states (all four tables are append-only) and the invariant of reachable states.
-/
import MptModel.Impl.Registry
set_option linter.unusedSimpArgs false
namespace Mpt.Registry
open Mpt.Generated Mpt.RegSpec

/-- a registration request -/
inductive Op where
  | basic (size : Nat)
  | generic (d : Desc)
  | iface (name : Option Name)
  | mtype (name : Option Name)
  deriving Repr

/-- what a registration returns: the new type id, if it was accepted -/
def Op.run (r : Reg) : Op → Reg × Option Nat
  | .basic size => match basicAdd r size with
    | (r', .ok id) => (r', some id)
    | (r', _) => (r', none)
  | .generic d => match genericAdd r d with
    | (r', .ok id) => (r', some id)
    | (r', _) => (r', none)
  | .iface name => match ifaceAdd r name with
    | (r', some e) => (r', some e.id)
    | (r', none) => (r', none)
  | .mtype name => match metaAdd r name with
    | (r', some e) => (r', some e.id)
    | (r', none) => (r', none)

def step (r : Reg) (op : Op) : Reg := (op.run r).1

/-- the registry after a history of requests -/
def runOps (ops : List Op) : Reg := ops.foldl step init

/-- `r'` extends `r`: every table of `r` is a prefix of the table of `r'` -/
structure Ext (r r' : Reg) : Prop where
  ifaces : r.ifaces <+: r'.ifaces
  dyn : r.dyn <+: r'.dyn
  metas : r.metas <+: r'.metas
  generics : r.generics <+: r'.generics

theorem Ext.refl (r : Reg) : Ext r r := ⟨List.prefix_refl _, List.prefix_refl _, List.prefix_refl _, List.prefix_refl _⟩

theorem Ext.trans {a b c : Reg} (h1 : Ext a b) (h2 : Ext b c) : Ext a c :=
  ⟨h1.ifaces.trans h2.ifaces, h1.dyn.trans h2.dyn, h1.metas.trans h2.metas, h1.generics.trans h2.generics⟩

theorem step_ext (r : Reg) (op : Op) : Ext r (step r op) := by
  cases op with
  | basic size =>
    simp only [step, Op.run, basicAdd]
    split <;> (rename_i h; split at h <;> simp at h <;> obtain ⟨rfl, _⟩ := h)
    all_goals first
      | exact Ext.refl _
      | exact ⟨List.prefix_refl _, List.prefix_append _ _, List.prefix_refl _, List.prefix_refl _⟩
  | generic d =>
    simp only [step, Op.run, genericAdd]
    split <;> (rename_i h; split at h <;> (try split at h) <;> simp at h <;> obtain ⟨rfl, _⟩ := h)
    all_goals first
      | exact Ext.refl _
      | exact ⟨List.prefix_refl _, List.prefix_refl _, List.prefix_refl _, List.prefix_append _ _⟩
  | iface name =>
    simp only [step, Op.run, ifaceAdd]
    split <;> (rename_i h; split at h <;> (try split at h) <;> simp at h <;> obtain ⟨rfl, _⟩ := h)
    all_goals first
      | exact Ext.refl _
      | exact ⟨List.prefix_append _ _, List.prefix_refl _, List.prefix_refl _, List.prefix_refl _⟩
  | mtype name =>
    simp only [step, Op.run, metaAdd]
    split <;> (rename_i h; split at h <;> (try split at h) <;> simp at h <;> obtain ⟨rfl, _⟩ := h)
    all_goals first
      | exact Ext.refl _
      | exact ⟨List.prefix_refl _, List.prefix_refl _, List.prefix_append _ _, List.prefix_refl _⟩

theorem foldl_ext (ops : List Op) (r : Reg) : Ext r (ops.foldl step r) := by
  induction ops generalizing r with
  | nil => exact Ext.refl r
  | cons op ops ih => exact (step_ext r op).trans (ih _)

theorem runOps_append (a b : List Op) : runOps (a ++ b) = b.foldl step (runOps a) := by
  simp [runOps, List.foldl_append]

/-- later states extend earlier ones -/
theorem runOps_ext (a b : List Op) : Ext (runOps a) (runOps (a ++ b)) := by
  rw [runOps_append]; exact foldl_ext b _

theorem prefix_getElem? {α} {l l' : List α} (h : l <+: l') {i : Nat} {x : α} (hx : l[i]? = some x) : l'[i]? = some x := by
  obtain ⟨t, rfl⟩ := h
  rw [List.getElem?_append_left]
  · exact hx
  · exact (List.getElem?_eq_some_iff.mp hx).1

/-! ### lookups by id are stable under extension -/

theorem interfaceTraits_ext {r r' : Reg} (h : Ext r r') {id : Nat} {e : Named}
    (he : interfaceTraits r id = some e) : interfaceTraits r' id = some e := by
  unfold interfaceTraits at he ⊢
  split at he
  · simp at he
  · rename_i hr
    simp only [hr, if_false]
    cases hi : r.ifaces[id - TypeTab.interfaceBase]? with
    | none => simp [hi] at he
    | some o =>
      rw [prefix_getElem? h.ifaces hi]
      simpa [hi] using he

theorem metatypeTraits_ext {r r' : Reg} (h : Ext r r') {id : Nat} {e : Named}
    (he : metatypeTraits r id = some e) : metatypeTraits r' id = some e := by
  unfold metatypeTraits at he ⊢
  split at he
  · simp at he
  · rename_i hr
    simp only [hr, if_false]
    exact prefix_getElem? h.metas he

theorem traitsWalk_ext {r r' : Reg} (h : Ext r r') (id : Nat) (l : List (String × Nat × Nat)) {t : TraitsVal}
    (ht : traitsWalk r id l = some t) : traitsWalk r' id l = some t := by
  induction l with
  | nil =>
    simp only [traitsWalk] at ht ⊢
    split at ht
    · simp at ht
    · rename_i hb
      simp only [hb, if_false]
      cases hg : r.generics[id - TypeTab.dispatchGenericBase]? with
      | none => simp [hg] at ht
      | some d => rw [prefix_getElem? h.generics hg]; simpa [hg] using ht
  | cons x rest ih =>
    obtain ⟨kind, lo, hi⟩ := x
    simp only [traitsWalk] at ht ⊢
    by_cases hr : lo ≤ id ∧ id ≤ hi
    · simp only [hr, and_self, if_true] at ht ⊢
      by_cases h1 : kind = "null"
      · simp [h1] at ht
      simp only [h1, if_false] at ht ⊢
      by_cases h2 : kind = "core"
      · simpa [h2] using ht
      simp only [h2, if_false] at ht ⊢
      by_cases h3 : kind = "scalar"
      · simpa [h3] using ht
      simp only [h3, if_false] at ht ⊢
      by_cases h4 : kind = "vector"
      · simpa [h4] using ht
      simp only [h4, if_false] at ht ⊢
      by_cases h5 : kind = "interface"
      · simp only [h5, if_true] at ht ⊢
        cases hi' : interfaceTraits r id with
        | none => simp [hi'] at ht
        | some e => rw [interfaceTraits_ext h hi']; simpa [hi'] using ht
      simp only [h5, if_false] at ht ⊢
      by_cases h6 : kind = "dynamic"
      · simp only [h6, if_true] at ht ⊢
        cases hd : r.dyn[id - TypeTab.dynamicBase]? with
        | none => simp [hd] at ht
        | some sz => rw [prefix_getElem? h.dyn hd]; simpa [hd] using ht
      simp only [h6, if_false] at ht ⊢
      by_cases h7 : kind = "static"
      · simp only [h7, if_true] at ht ⊢
        by_cases hs : id ∈ TypeTab.statics
        · simpa [hs] using ht
        · simp only [hs, if_false] at ht ⊢; exact ih ht
      simp only [h7, if_false] at ht ⊢
      by_cases h8 : kind = "meta"
      · simp only [h8, if_true] at ht ⊢
        cases hm : metatypeTraits r id with
        | none => simp [hm] at ht
        | some e => rw [metatypeTraits_ext h hm]; simpa [hm] using ht
      simp [h8] at ht
    · simp only [hr, if_false] at ht ⊢
      exact ih ht

/-- a type that has a description keeps it in every later state -/
theorem traits_ext {r r' : Reg} (h : Ext r r') {id : Nat} {t : TraitsVal}
    (ht : traits r id = some t) : traits r' id = some t :=
  traitsWalk_ext h id _ ht

/-! ### the invariant of reachable states -/

structure Inv (r : Reg) : Prop where
  /-- the built-in entries are there -/
  ext : Ext init r
  ifaceLen : TypeTab.interfaceStart ≤ r.ifaces.length ∧ r.ifaces.length ≤ TypeTab.interfaceCap
  metaLen : 1 ≤ r.metas.length ∧ TypeTab.metaBase + r.metas.length ≤ TypeTab.metaMax + 1
  dynLen : r.dyn.length ≤ TypeTab.dynamicCap
  genLen : TypeTab.genericBase + r.generics.length ≤ TypeTab.genericMax + 1
  /-- entry k of a table carries the id `base + k` -/
  metaId : ∀ i e, r.metas[i]? = some e → e.id = TypeTab.metaBase + i
  ifaceId : ∀ i e, r.ifaces[i]? = some (some e) → e.id = TypeTab.interfaceBase + i
  /-- no registered name is empty or one of the short names that lookups rewrite -/
  noShort : ∀ e ∈ allNamed r, ∀ n, e.name = some n → resolveShort n = n ∧ n ≠ []
  /-- names are unique over both tables -/
  unique : ∀ a ∈ allNamed r, ∀ b ∈ allNamed r, a.name = b.name → a.name ≠ none → a = b

theorem mem_allNamed {r : Reg} {e : Named} : e ∈ allNamed r ↔ e ∈ r.metas ∨ some e ∈ r.ifaces := by
  simp [allNamed]

def idsFrom (base : Nat) : List (Option Named) → Bool
  | [] => true
  | none :: rest => idsFrom (base + 1) rest
  | some e :: rest => e.id == base && idsFrom (base + 1) rest

theorem idsFrom_spec (l : List (Option Named)) (base : Nat) (h : idsFrom base l = true) :
    ∀ i e, l[i]? = some (some e) → e.id = base + i := by
  induction l generalizing base with
  | nil => intro i e hi; simp at hi
  | cons x rest ih =>
    intro i e hi
    cases i with
    | zero =>
      simp at hi; subst hi
      simp [idsFrom] at h
      omega
    | succ i =>
      simp at hi
      have hrest : idsFrom (base + 1) rest = true := by
        cases x <;> simp [idsFrom] at h <;> first | exact h | exact h.2
      have := ih (base + 1) hrest i e hi
      omega

theorem inv_init : Inv init := by
  refine ⟨Ext.refl _, by decide, by decide, by decide, by decide, ?_, ?_, ?_, ?_⟩
  · intro i e h
    have : i < init.metas.length := (List.getElem?_eq_some_iff.mp h).1
    have hi : i = 0 := by simp [init] at this; omega
    subst hi
    simp [init] at h
    subst h
    decide
  · intro i e h
    exact idsFrom_spec init.ifaces TypeTab.interfaceBase (by decide) i e h
  · decide
  · decide

theorem allNamed_mono {r r' : Reg} (h : Ext r r') : ∀ e ∈ allNamed r, e ∈ allNamed r' := by
  intro e he
  rw [mem_allNamed] at he ⊢
  rcases he with he | he
  · exact Or.inl (h.metas.subset he)
  · exact Or.inr (h.ifaces.subset he)

theorem lookupKey_ne_none {r : Reg} {k : Name} {e : Named} (he : e ∈ allNamed r) (hn : e.name = some k) :
    lookupKey r k ≠ none := by
  unfold lookupKey
  intro h
  rw [List.find?_eq_none] at h
  exact h e he (by simp [hn])

theorem lookupKey_mem {r : Reg} {k : Name} {e : Named} (h : lookupKey r k = some e) :
    e ∈ allNamed r ∧ e.name = some k := by
  unfold lookupKey at h
  exact ⟨List.mem_of_find?_eq_some h, by simpa using List.find?_some h⟩

/-- the full names behind the short names are built-in -/
theorem short_targets_builtin : ∀ n : Name, resolveShort n ≠ n →
    ∃ e ∈ allNamed init, e.name = some (resolveShort n) := by
  intro n hn
  unfold resolveShort at hn ⊢
  split at hn
  · rename_i h; simp only [h, if_true]; decide
  split at hn
  · rename_i h1 h; simp only [h1, h, if_false, if_true]; decide
  split at hn
  · rename_i h1 h2 h; simp only [h1, h2, h, if_false, if_true]; decide
  split at hn
  · rename_i h1 h2 h3 h; simp only [h1, h2, h3, h, if_false, if_true]; decide
  · exact absurd rfl hn

/-- consequences of a name passing the tests of the add functions (cross-table test over the whole string) -/
theorem accepted_name {r : Reg} (hinv : Inv r) {name : Option Name} {minLen : Nat} {own : Name → Bool} (hmin : 0 < minLen)
    (h : nameRefused minLen "full" own r name = false) :
    (∀ n, name = some n → resolveShort n = n ∧ n ≠ []) ∧
    (∀ a ∈ allNamed r, a.name = name → name = none) := by
  cases name with
  | none => exact ⟨by intro n hn; simp at hn, by intro a _ _; rfl⟩
  | some n =>
    simp only [nameRefused, dupFound, if_true, Bool.or_eq_false_iff, decide_eq_false_iff_not, Nat.not_lt] at h
    obtain ⟨⟨hlen, _⟩, hnone⟩ := h
    have hne : n ≠ [] := by
      intro h0; subst h0; simp at hlen; omega
    have hlk : lookupKey r (resolveShort n) = none := by
      simp only [namedTraits, hne, false_or] at hnone
      simpa using hnone
    have hres : resolveShort n = n := by
      by_cases hs : resolveShort n = n
      · exact hs
      · obtain ⟨e, he, hen⟩ := short_targets_builtin n hs
        exact absurd hlk (lookupKey_ne_none (allNamed_mono hinv.ext e he) hen)
    refine ⟨?_, ?_⟩
    · intro m hm; simp at hm; subst hm; exact ⟨hres, hne⟩
    · intro a ha han
      rw [hres] at hlk
      exact absurd hlk (lookupKey_ne_none ha han)

/-- with the final test in place a passed chunk walk leaves the new id within the limit -/
theorem rangeRefused_final (base chunk len m : Nat) (lm : Option Nat) :
    rangeRefused base chunk len lm (some m) = false → base + len ≤ m := by
  intro h
  simp only [rangeRefused, Bool.or_eq_false_iff, decide_eq_false_iff_not] at h
  omega

theorem rangeRefused_over (base chunk len m : Nat) (lm : Option Nat) (h : base + len > m) :
    rangeRefused base chunk len lm (some m) = true := by
  simp [rangeRefused, h]

/-- the translated tests are the ones the proofs rely on -/
theorem table_facts :
    TypeTab.genericFinalMax = some TypeTab.genericMax ∧ TypeTab.metaFinalMax = some TypeTab.metaMax ∧
    TypeTab.dupLookupIface = "full" ∧ TypeTab.dupLookupMeta = "full" ∧
    TypeTab.lenExactMeta = true ∧ TypeTab.lenExactIface = true := by decide

theorem getElem?_append_single {α} (l : List α) (x y : α) (i : Nat) (h : (l ++ [x])[i]? = some y) :
    l[i]? = some y ∨ (i = l.length ∧ y = x) := by
  by_cases hi : i < l.length
  · left; rwa [List.getElem?_append_left hi] at h
  · right
    rw [List.getElem?_append_right (by omega)] at h
    have : i - l.length = 0 := by
      by_cases h0 : i - l.length = 0
      · exact h0
      · rw [List.getElem?_eq_none (by simp; omega)] at h; simp at h
    rw [this] at h
    simp at h
    exact ⟨by omega, h.symm⟩

/-- the name invariants after appending the accepted entry `e` to one of the two named tables -/
theorem named_inv_add {r r' : Reg} (hinv : Inv r) {e : Named} {minLen : Nat} {own : Name → Bool} (hmin : 0 < minLen)
    (hacc : nameRefused minLen "full" own r e.name = false)
    (hmem : ∀ a, a ∈ allNamed r' ↔ a ∈ allNamed r ∨ a = e) :
    (∀ a ∈ allNamed r', ∀ n, a.name = some n → resolveShort n = n ∧ n ≠ []) ∧
    (∀ a ∈ allNamed r', ∀ b ∈ allNamed r', a.name = b.name → a.name ≠ none → a = b) := by
  obtain ⟨hA, hB⟩ := accepted_name hinv hmin hacc
  refine ⟨?_, ?_⟩
  · intro a ha n hn
    rcases (hmem a).mp ha with ha | rfl
    · exact hinv.noShort a ha n hn
    · exact hA n hn
  · intro a ha b hb hab hne
    rcases (hmem a).mp ha with ha | rfl <;> rcases (hmem b).mp hb with hb | rfl
    · exact hinv.unique a ha b hb hab hne
    · exact absurd (hB a ha hab) (by rw [← hab]; exact hne)
    · exact absurd (hB b hb hab.symm) hne
    · rfl

theorem inv_step {r : Reg} (hinv : Inv r) (op : Op) : Inv (step r op) := by
  have hext := step_ext r op
  cases op with
  | basic size =>
    simp only [step, Op.run, basicAdd] at hext ⊢
    by_cases hc : r.dyn.length < TypeTab.dynamicCap
    · simp only [hc, if_true] at hext ⊢
      exact { hinv with ext := hinv.ext.trans hext, dynLen := by simp; omega }
    · simp only [hc, if_false]; exact hinv
  | generic d =>
    simp only [step, Op.run, genericAdd] at hext ⊢
    by_cases h0 : d.size = 0
    · simp only [h0, if_true]; exact hinv
    by_cases hc : rangeRefused TypeTab.genericBase TypeTab.genericChunk r.generics.length TypeTab.genericLoopMax TypeTab.genericFinalMax = true
    · simp only [h0, hc, if_false, if_true]; exact hinv
    · simp only [h0, hc, if_false] at hext ⊢
      have hle := rangeRefused_final TypeTab.genericBase TypeTab.genericChunk r.generics.length TypeTab.genericMax TypeTab.genericLoopMax
        (by rw [← table_facts.1]; simpa using hc)
      exact { hinv with ext := hinv.ext.trans hext, genLen := by simp; omega }
  | iface name =>
    simp only [step, Op.run, ifaceAdd] at hext ⊢
    by_cases hc : r.ifaces.length ≥ TypeTab.interfaceCap
    · simp only [hc, if_true]; exact hinv
    by_cases hn : nameRefused TypeTab.minNameLenIface TypeTab.dupLookupIface (ownIface r) r name = true
    · simp only [hc, hn, if_false, if_true]; exact hinv
    · simp only [hc, hn, if_false] at hext ⊢
      have hn' : nameRefused TypeTab.minNameLenIface "full" (ownIface r) r name = false := by
        rw [← table_facts.2.2.1]; simpa using hn
      have hmem : ∀ a, a ∈ allNamed { r with ifaces := r.ifaces ++ [some
          { name := name, id := TypeTab.interfaceBase + r.ifaces.length, traits := pointerCopy "mpt_type_interface_add" }] } ↔
          a ∈ allNamed r ∨ a = { name := name, id := TypeTab.interfaceBase + r.ifaces.length, traits := pointerCopy "mpt_type_interface_add" } := by
        intro a; simp [allNamed, List.filterMap_append, or_assoc]
      obtain ⟨hs, hu⟩ := named_inv_add hinv (e := { name := name, id := TypeTab.interfaceBase + r.ifaces.length, traits := pointerCopy "mpt_type_interface_add" }) (by decide) hn' hmem
      exact { ext := hinv.ext.trans hext
              ifaceLen := by simp; have := hinv.ifaceLen; omega
              metaLen := hinv.metaLen
              dynLen := hinv.dynLen
              genLen := hinv.genLen
              metaId := hinv.metaId
              ifaceId := by
                intro i e he
                rcases getElem?_append_single _ _ _ _ he with h | ⟨hi, hx⟩
                · exact hinv.ifaceId i e h
                · simp at hx; subst hx; simp [hi]
              noShort := hs
              unique := hu }
  | mtype name =>
    simp only [step, Op.run, metaAdd] at hext ⊢
    by_cases hn : nameRefused TypeTab.minNameLenMeta TypeTab.dupLookupMeta (ownMeta r) r name = true
    · simp only [hn, if_true]; exact hinv
    by_cases hc : rangeRefused TypeTab.metaBase TypeTab.metaChunk r.metas.length TypeTab.metaLoopMax TypeTab.metaFinalMax = true
    · simp only [hc, hn, if_false, if_true]; exact hinv
    · simp only [hc, hn, if_false] at hext ⊢
      have hle := rangeRefused_final TypeTab.metaBase TypeTab.metaChunk r.metas.length TypeTab.metaMax TypeTab.metaLoopMax
        (by rw [← table_facts.2.1]; simpa using hc)
      have hn' : nameRefused TypeTab.minNameLenMeta "full" (ownMeta r) r name = false := by
        rw [← table_facts.2.2.2.1]; simpa using hn
      have hmem : ∀ a, a ∈ allNamed { r with metas := r.metas ++ [
          { name := name, id := TypeTab.metaBase + r.metas.length, traits := pointerCopy "mpt_type_metatype_add" }] } ↔
          a ∈ allNamed r ∨ a = { name := name, id := TypeTab.metaBase + r.metas.length, traits := pointerCopy "mpt_type_metatype_add" } := by
        intro a
        simp only [allNamed, List.mem_append, List.mem_singleton]
        constructor
        · rintro ((h | h) | h)
          · exact Or.inl (Or.inl h)
          · exact Or.inr h
          · exact Or.inl (Or.inr h)
        · rintro ((h | h) | h)
          · exact Or.inl (Or.inl h)
          · exact Or.inr h
          · exact Or.inl (Or.inr h)
      obtain ⟨hs, hu⟩ := named_inv_add hinv (e := { name := name, id := TypeTab.metaBase + r.metas.length, traits := pointerCopy "mpt_type_metatype_add" }) (by decide) hn' hmem
      exact { ext := hinv.ext.trans hext
              ifaceLen := hinv.ifaceLen
              metaLen := by simp; have := hinv.metaLen; omega
              dynLen := hinv.dynLen
              genLen := hinv.genLen
              metaId := by
                intro i e he
                rcases getElem?_append_single _ _ _ _ he with h | ⟨hi, hx⟩
                · exact hinv.metaId i e h
                · subst hx; simp [hi]
              ifaceId := hinv.ifaceId
              noShort := hs
              unique := hu }

theorem inv_foldl {r : Reg} (hinv : Inv r) (ops : List Op) : Inv (ops.foldl step r) := by
  induction ops generalizing r with
  | nil => exact hinv
  | cons op ops ih => exact ih (inv_step hinv op)

/-- every reachable state satisfies the invariant -/
theorem inv_runOps (ops : List Op) : Inv (runOps ops) := inv_foldl inv_init ops

/-! ### what an accepted registration returns -/

def Op.kind : Op → Kind
  | .basic _ => .basic
  | .generic _ => .generic
  | .iface _ => .iface
  | .mtype _ => .mtype

/-- first id of the table a kind is registered in, and the table's current length -/
def tableBase : Kind → Nat
  | .basic => TypeTab.dynamicBase
  | .generic => TypeTab.genericBase
  | .iface => TypeTab.interfaceBase
  | .mtype => TypeTab.metaBase

def tableLen (r : Reg) : Kind → Nat
  | .basic => r.dyn.length
  | .generic => r.generics.length
  | .iface => r.ifaces.length
  | .mtype => r.metas.length

/-- largest id the code hands out for a kind -/
def tableMax : Kind → Nat
  | .basic => TypeTab.dynamicBase + TypeTab.dynamicCap - 1
  | .generic => TypeTab.genericMax
  | .iface => TypeTab.interfaceBase + TypeTab.interfaceCap - 1
  | .mtype => TypeTab.metaMax

theorem tableLen_mono {r r' : Reg} (h : Ext r r') (k : Kind) : tableLen r k ≤ tableLen r' k := by
  cases k <;> simp only [tableLen]
  · exact h.dyn.length_le
  · exact h.generics.length_le
  · exact h.ifaces.length_le
  · exact h.metas.length_le

/-- an accepted registration returns `base + current length`, within the table's limit, and grows its table by one;
    a refused one leaves the registry unchanged -/
theorem run_result (r : Reg) (op : Op) :
    (∃ id, (op.run r).2 = some id ∧ id = tableBase op.kind + tableLen r op.kind ∧ id ≤ tableMax op.kind ∧
        tableLen (step r op) op.kind = tableLen r op.kind + 1) ∨
    ((op.run r).2 = none ∧ step r op = r) := by
  cases op with
  | basic size =>
    simp only [step, Op.run, basicAdd, Op.kind, tableBase, tableLen, tableMax]
    by_cases hc : r.dyn.length < TypeTab.dynamicCap
    · left; simp only [hc, if_true]; exact ⟨_, rfl, rfl, by omega, by simp⟩
    · right; simp [hc]
  | generic d =>
    simp only [step, Op.run, genericAdd, Op.kind, tableBase, tableLen, tableMax]
    by_cases h0 : d.size = 0
    · right; simp [h0]
    by_cases hc : rangeRefused TypeTab.genericBase TypeTab.genericChunk r.generics.length TypeTab.genericLoopMax TypeTab.genericFinalMax = true
    · right; simp [h0, hc]
    · left; simp only [h0, hc, if_false]
      have hle := rangeRefused_final TypeTab.genericBase TypeTab.genericChunk r.generics.length TypeTab.genericMax TypeTab.genericLoopMax
        (by rw [← table_facts.1]; simpa using hc)
      exact ⟨_, rfl, rfl, by omega, by simp⟩
  | iface name =>
    simp only [step, Op.run, ifaceAdd, Op.kind, tableBase, tableLen, tableMax]
    by_cases hc : r.ifaces.length ≥ TypeTab.interfaceCap
    · right; simp [hc]
    by_cases hn : nameRefused TypeTab.minNameLenIface TypeTab.dupLookupIface (ownIface r) r name = true
    · right; simp [hc, hn]
    · left; simp only [hc, hn, if_false]
      exact ⟨_, rfl, rfl, by show TypeTab.interfaceBase + r.ifaces.length ≤ _; omega, by simp⟩
  | mtype name =>
    simp only [step, Op.run, metaAdd, Op.kind, tableBase, tableLen, tableMax]
    by_cases hn : nameRefused TypeTab.minNameLenMeta TypeTab.dupLookupMeta (ownMeta r) r name = true
    · right; simp [hn]
    by_cases hc : rangeRefused TypeTab.metaBase TypeTab.metaChunk r.metas.length TypeTab.metaLoopMax TypeTab.metaFinalMax = true
    · right; simp [hn, hc]
    · left; simp only [hc, hn, if_false]
      have hle := rangeRefused_final TypeTab.metaBase TypeTab.metaChunk r.metas.length TypeTab.metaMax TypeTab.metaLoopMax
        (by rw [← table_facts.2.1]; simpa using hc)
      exact ⟨_, rfl, rfl, by show TypeTab.metaBase + r.metas.length ≤ _; omega, by simp⟩

/-- the ids of a kind's table lie in the range types.h reserves for registrations of that kind -/
theorem table_in_range {r : Reg} (hinv : Inv r) (k : Kind) (id : Nat)
    (h1 : id = tableBase k + tableLen r k) (h2 : id ≤ tableMax k) : k.lo ≤ id ∧ id ≤ k.hi := by
  have hi := hinv.ifaceLen
  have hm := hinv.metaLen
  cases k <;> simp only [tableBase, tableLen, tableMax] at h1 h2 <;>
    simp only [Kind.lo, Kind.hi, TypeId._TypeDynamicBase, TypeId._TypeDynamicMax, TypeId._TypeValueAdd, TypeId._TypeValueMax,
      TypeId._TypeInterfaceAdd, TypeId._TypeInterfaceMax, TypeId._TypeMetaPtrBase, TypeId._TypeMetaPtrMax] <;>
    simp only [TypeTab.dynamicBase, TypeTab.dynamicCap, TypeTab.genericBase, TypeTab.genericMax, TypeTab.interfaceBase,
      TypeTab.interfaceCap, TypeTab.interfaceStart, TypeTab.metaBase, TypeTab.metaMax] at h1 h2 hi hm <;> omega

/-! ### entries are found again by id and by name -/

theorem meta_by_id {r : Reg} (hinv : Inv r) {e : Named} (he : e ∈ r.metas) : metatypeTraits r e.id = some e := by
  obtain ⟨i, hi, hget⟩ := List.getElem_of_mem he
  have hsome : r.metas[i]? = some e := by rw [List.getElem?_eq_getElem hi, hget]
  have hid := hinv.metaId i e hsome
  have hm := hinv.metaLen
  unfold metatypeTraits
  have hrange : ¬ (e.id > TypeTab.metaLookup.2 ∨ e.id < TypeTab.metaLookup.1) := by
    simp only [TypeTab.metaLookup, TypeTab.metaBase, TypeTab.metaMax] at *; omega
  simp only [hrange, if_false]
  rw [hid]
  simpa using hsome

theorem iface_by_id {r : Reg} (hinv : Inv r) {e : Named} (he : some e ∈ r.ifaces) : interfaceTraits r e.id = some e := by
  obtain ⟨i, hi, hget⟩ := List.getElem_of_mem he
  have hsome : r.ifaces[i]? = some (some e) := by rw [List.getElem?_eq_getElem hi, hget]
  have hid := hinv.ifaceId i e hsome
  have hm := hinv.ifaceLen
  unfold interfaceTraits
  have hrange : ¬ (e.id > TypeTab.interfaceLookup.2 ∨ e.id < TypeTab.interfaceLookup.1) := by
    simp only [TypeTab.interfaceLookup, TypeTab.interfaceBase, TypeTab.interfaceCap] at *; omega
  simp only [hrange, if_false]
  rw [hid]
  simp [hsome]

theorem matchLen_exact (key : Name) (n : Option Name) : matchLen true key n = decide (n = some key) := by
  cases n with
  | none => simp [matchLen]
  | some e =>
    simp only [matchLen, if_true]
    by_cases h : e = key
    · subst h; simp
    · have : ¬ (some e = some key) := by simpa using h
      simp only [this, decide_false]
      by_cases hl : e.length = key.length
      · have : e.take key.length ≠ key := by rw [← hl, List.take_length]; exact h
        simp [hl, this]
      · simp [hl]

/-- with the exact-length tests in place the length-limited lookup is the lookup of the key -/
theorem lookupLen_eq (r : Reg) (key : Name) : lookupLen r key = lookupKey r key := by
  unfold lookupLen lookupKey allNamed
  rw [table_facts.2.2.2.2.1, table_facts.2.2.2.2.2]
  simp only [matchLen_exact, List.find?_append]
  cases List.find? (fun e => decide (e.name = some key)) r.metas <;> rfl

/-- a registered name resolves to its entry: whole-string lookup and exact length-limited lookup -/
theorem name_roundtrip {r : Reg} (hinv : Inv r) {e : Named} {n : Name} (he : e ∈ allNamed r) (hn : e.name = some n) :
    namedTraits r n (-1) = some e ∧ namedTraits r n n.length = some e := by
  obtain ⟨hres, hne⟩ := hinv.noShort e he n hn
  have hfind : lookupKey r n = some e := by
    cases h : lookupKey r n with
    | none => exact absurd h (lookupKey_ne_none he hn)
    | some e' =>
      obtain ⟨hm, hn'⟩ := lookupKey_mem h
      rw [hinv.unique e' hm e he (by rw [hn, hn']) (by simp [hn'])]
  have hlen : (n.length : Int) ≠ 0 := by
    cases n with
    | nil => exact absurd rfl hne
    | cons a t => simp; omega
  refine ⟨?_, ?_⟩
  · simp [namedTraits, hne, hres, hfind]
  · simp only [namedTraits, hne, hlen, false_or, if_false]
    have : (n.length : Int) ≥ 0 := by omega
    simp [this, lookupLen_eq, hfind]

end Mpt.Registry

