/-
  Histories of array operations (C04): the operation alphabet covered by theorems, its execution on the
  implementation model (`exec`), the vector spec of each operation (`specRel`), and the lifting of the
  per-operation semantics to arbitrary histories over any number of handles.
-/
import MptModel.Lemmas.HeapOps
import MptModel.Spec.ArrayOps
namespace Mpt.Heap
open Mpt

/-- handles exist; element traits passed in have no callbacks and a non-zero size -/
def Op.wf (nh : Nat) : Op → Prop
  | .set h t _ _ _ => h < nh ∧ PlainT (some t)
  | .clone d s => d < nh ∧ s < nh
  | .reserve h _ t => h < nh ∧ PlainT t
  | op => op.handle < nh

/-- M: the model function of each operation -/
def exec (s : State) : Op → Out Unit
  | .append h bytes => Out.mapv (fun _ => ()) (arrayAppend s h bytes)
  | .insert h pos bytes => Out.mapv (fun _ => ()) (insertOp s h pos bytes)
  | .set h t off bytes hasSrc => Out.mapv (fun _ => ()) (arraySet s h (some t) bytes hasSrc off)
  | .slice h off len => Out.mapv (fun _ => ()) (arraySlice s h off len)
  | .cut h off len => Out.mapv (fun _ => ()) (cutOp s h off len)
  | .bset h pos bytes hasSrc => Out.mapv (fun _ => ()) (bsetOp s h pos bytes hasSrc)
  | .clone d src => Out.mapv (fun _ => ()) (arrayClone s d (some src))
  | .drop h => Out.mapv (fun _ => ()) (arrayClone s h none)
  | .detach h n => Out.mapv (fun _ => ()) (detachOp s h n)
  | .reduce h => Out.mapv (fun _ => ()) (arrayReduce s h)
  | .reserve h n t => Out.mapv (fun _ => ()) (arrayReserve s h n t)

/-- S: what the operation does to the value read through its own handle (`old`, `new`); the other handles
    keep their values.  `Vec.cut`/`Vec.setAt` = `none` means the arguments fall outside the data. -/
def specRel (s : State) : Op → Vec.Vec → Vec.Vec → Prop
  | .append _ bytes, v, v' => v' = Vec.append v bytes
  | .insert _ pos bytes, v, v' => v' = Vec.insert v pos bytes
  | .set _ t off bytes _, v, v' => Vec.setAt v t.size off bytes = some v'
  | .slice _ off len, v, v' => v' = Vec.slice v off len
  | .cut _ off len, v, v' => Vec.cut v off len = some v'
  | .bset _ pos bytes _, v, v' => v' = Vec.write v pos bytes
  | .clone _ src, _, v' => v' = s.abs src
  | .drop _, _, v' => v' = []
  | .detach h n, v, v' => v' = v ∨ (ownerImmutable s h = true ∧ ∃ k, n ≤ k ∧ k < v.length ∧ v' = v.take k)
  | .reduce _, v, v' => v' = v
  | .reserve h _ t, v, v' => v' = v ∨ (typeDiffers s h t = true ∧ v' = [])

/-- the relation the theorems prove is membership in the list of alternatives the run checks -/
theorem specRel_iff_alts (s : State) (op : Op) (v v' : Vec.Vec) : specRel s op v v' ↔ v' ∈ specAlts s op v := by
  cases op with
  | append h bytes => simp [specRel, specAlts]
  | insert h pos bytes => simp [specRel, specAlts]
  | set h t off bytes hasSrc => simp [specRel, specAlts, Option.mem_toList, eq_comm]
  | slice h off len => simp [specRel, specAlts]
  | cut h off len => simp [specRel, specAlts, Option.mem_toList, eq_comm]
  | bset h pos bytes hasSrc => simp [specRel, specAlts]
  | clone d src => simp [specRel, specAlts]
  | drop h => simp [specRel, specAlts]
  | reduce h => simp [specRel, specAlts]
  | reserve h n t =>
    simp only [specRel, specAlts, List.mem_cons]
    cases typeDiffers s h t <;> simp
  | detach h n =>
    simp only [specRel, specAlts, List.mem_cons]
    cases ownerImmutable s h with
    | false => simp
    | true =>
      simp only [true_and, if_true, List.mem_map, List.mem_range]
      constructor
      · rintro (e | ⟨k, h1, h2, e⟩)
        · exact Or.inl e
        · exact Or.inr ⟨k - n, by omega, by rw [e]; congr 1; omega⟩
      · rintro (e | ⟨i, hi, e⟩)
        · exact Or.inl e
        · exact Or.inr ⟨n + i, by omega, by omega, e.symm⟩

theorem exec_sem {s : State} (inv : Inv s) (op : Op) (wf : op.wf s.hs.length) :
    Sem s op.handle (specRel s op) (exec s op) := by
  cases op with
  | append h bytes => exact (append_sem inv wf bytes).mapv _
  | insert h pos bytes => exact (insert_sem inv wf pos bytes).mapv _
  | set h t off bytes hasSrc => exact (set_sem inv wf.1 t wf.2 bytes hasSrc off).mapv _
  | slice h off len => exact (slice_sem inv wf off len).mapv _
  | cut h off len => exact (cut_sem inv off len).mapv _
  | bset h pos bytes hasSrc => exact (bset_sem inv pos bytes hasSrc).mapv _
  | clone d src => exact (clone_sem inv wf.1 (some src)).mapv _
  | drop h => exact (clone_sem inv wf none).mapv _
  | detach h n => exact (detachOp_sem inv n).mapv _
  | reduce h => exact (reduce_sem inv).mapv _
  | reserve h n t => exact (reserve_sem inv wf.1 n t wf.2).mapv _

/-- the values read through all handles -/
def absAll (s : State) : List Vec.Vec := (List.range s.hs.length).map s.abs

/-- S on the vector of all handle values: a refusal changes nothing, a success changes the one handle -/
def specStep (s : State) (op : Op) (vs vs' : List Vec.Vec) : Prop :=
  vs' = vs ∨ ∃ v', specRel s op (vs.getD op.handle []) v' ∧ vs' = vs.set op.handle v'

/-- M: run a history; refused operations are skipped with the state the code leaves; `none` = a fault -/
def run : State → List Op → Option State
  | s, [] => some s
  | s, op :: rest =>
    match exec s op with
    | .ok s' _ => run s' rest
    | .fail s' _ => run s' rest
    | .fault _ => none

/-- a history is explained by the spec: successive states of the handle values related by `specStep` -/
inductive Explained : State → List Op → State → Prop where
  | nil (s : State) : Explained s [] s
  | cons {s s1 s2 : State} {op : Op} {rest : List Op} :
      specStep s op (absAll s) (absAll s1) → Explained s1 rest s2 → Explained s (op :: rest) s2

theorem absAll_set {s s' : State} (h : Nat) (hlen : s'.hs.length = s.hs.length) (hlt : h < s.hs.length)
    (oth : ∀ h', h' ≠ h → s'.abs h' = s.abs h') : absAll s' = (absAll s).set h (s'.abs h) := by
  unfold absAll
  rw [hlen]
  apply List.ext_getElem?
  intro i
  rw [List.getElem?_set]
  by_cases e : h = i
  · subst e
    simp [hlt]
  · rw [if_neg e]
    by_cases il : i < s.hs.length
    · simp [il, oth i (fun x => e x.symm)]
    · have : s.hs.length ≤ i := by omega
      simp [this]

theorem absAll_same {s s' : State} (hlen : s'.hs.length = s.hs.length) (same : ∀ h', s'.abs h' = s.abs h') :
    absAll s' = absAll s := by
  unfold absAll
  rw [hlen]
  apply List.map_congr_left
  intro a _; exact same a

theorem absAll_getD (s : State) (h : Nat) (hlt : h < s.hs.length) : (absAll s).getD h [] = s.abs h := by
  simp [absAll, List.getD, List.getElem?_range hlt]

theorem Op.handle_lt {nh : Nat} {op : Op} (wf : op.wf nh) : op.handle < nh := by
  cases op <;> first | exact wf | exact wf.1

end Mpt.Heap
