/-
  Helper lemmas for C13, part 2: push/unshift/pop/shift (core Lean only).
-/
import MptModel.Lemmas.Ring
namespace Mpt
namespace Ring

theorem qpop_spec (r : Ring) (h : r.WF) (n : Nat) (dst : Bool) :
    (n ≤ r.len → (r.qpop n dst = .ok ({ r with len := r.len - n }, r.content.drop (r.len - n))
        ∨ (dst = false ∧ r.qpop n dst = .null))) ∧
    (r.len < n → r.qpop n dst = .null) := by
  obtain ⟨h1, h2⟩ := h
  have hcl := content_length r h1 h2
  unfold qpop low
  simp only [max]
  by_cases hw : r.store.length - r.off < r.len
  · -- wrapped
    rw [show min (r.store.length - r.off) r.len = r.store.length - r.off by omega]
    rw [if_neg (by omega)]
    by_cases hb : n > r.len - (r.store.length - r.off)
    · rw [if_pos hb]
      cases dst
      · refine ⟨fun _ => Or.inr ⟨rfl, ?_⟩, fun _ => ?_⟩ <;> rfl
      · simp only [Bool.not_true, Bool.false_eq_true, ↓reduceIte]
        constructor
        · intro hn
          left
          rw [if_neg (by omega), Mem.rd_ok _ _ _ (by omega), Mem.rd_ok _ _ _ (by omega)]
          simp only [Res.bind_ok, Res.pure_eq]
          congr 2
          apply List.ext_getElem?; intro i
          rw [List.getElem?_drop, getElem?_content _ _ h1 h2, List.getElem?_append,
            Mem.read_length _ _ _ (by omega), Mem.getElem?_read, Mem.getElem?_read]
          ite_idx
        · intro hn
          rw [if_pos (by omega)]
    · rw [if_neg hb]
      constructor
      · intro hn
        left
        rw [Mem.rd_ok _ _ _ (by omega)]
        simp only [Res.bind_ok, Res.pure_eq]
        congr 2
        apply List.ext_getElem?; intro i
        rw [List.getElem?_drop, getElem?_content _ _ h1 h2, Mem.getElem?_read]
        ite_idx
      · intro hn; omega
  · rw [show min (r.store.length - r.off) r.len = r.len by omega]
    rw [if_pos (by omega)]
    constructor
    · intro hn
      left
      rw [if_neg (by omega), Mem.rd_ok _ _ _ (by omega)]
      simp only [Res.bind_ok, Res.pure_eq]
      congr 2
      apply List.ext_getElem?; intro i
      rw [List.getElem?_drop, getElem?_content _ _ h1 h2, Mem.getElem?_read]
      ite_idx
    · intro hn
      rw [if_pos (by omega)]

theorem qshift_spec (r : Ring) (h : r.WF) (n : Nat) (dst : Bool) :
    (n ≤ r.len → ((∃ r', r.qshift n dst = .ok (r', r.content.take n) ∧ r'.WF ∧ r'.store = r.store
          ∧ r'.len = r.len - n ∧ r'.content = r.content.drop n)
        ∨ (dst = false ∧ r.qshift n dst = .null))) ∧
    (r.len < n → r.qshift n dst = .null) := by
  have hwf := h
  obtain ⟨h1, h2⟩ := h
  have hcl := content_length r h1 h2
  unfold qshift low
  simp only [max]
  by_cases hl : n ≤ min (r.store.length - r.off) r.len
  · rw [if_pos hl, Mem.rd_ok _ _ _ (by omega)]
    simp only []
    constructor
    · intro hn
      left
      obtain ⟨r', c, he, hw', hs, hlen, hc⟩ := crop_front r hwf n hn
      rw [he]
      simp only []
      refine ⟨r', ?_, hw', hs, hlen, hc⟩
      congr 2
      apply List.ext_getElem?; intro i
      rw [List.getElem?_take, getElem?_content _ _ h1 h2, Mem.getElem?_read]
      ite_idx
    · intro hn; omega
  · rw [if_neg hl]
    cases dst
    · refine ⟨fun _ => Or.inr ⟨rfl, ?_⟩, fun _ => ?_⟩ <;> rfl
    · simp only [Bool.not_true, Bool.false_eq_true, ↓reduceIte]
      constructor
      · intro hn
        left
        rw [if_neg (by omega), Mem.rd_ok _ _ _ (by omega), Mem.rd_ok _ _ _ (by omega)]
        simp only [Res.bind_ok, Res.pure_eq]
        obtain ⟨r', c, he, hw', hs, hlen, hc⟩ := crop_front r hwf n hn
        rw [he]
        simp only []
        refine ⟨r', ?_, hw', hs, hlen, hc⟩
        congr 2
        apply List.ext_getElem?; intro i
        rw [List.getElem?_take, getElem?_content _ _ h1 h2, List.getElem?_append,
          Mem.read_length _ _ _ (by omega), Mem.getElem?_read, Mem.getElem?_read]
        ite_idx
      · intro hn
        rw [if_pos (by omega)]

theorem qpush_ok (r : Ring) (h : r.WF) (n : Nat) (bytes : Option (List Byte))
    (hfull : r.len < r.store.length) (hn : n ≤ r.store.length - r.len) :
    ∃ r' c, r.qpush n bytes = .ok (r', c) ∧ r'.WF ∧ r'.store.length = r.store.length
      ∧ r'.content = r.content ++ setSrc n bytes := by
  have hwf := h
  obtain ⟨h1, h2⟩ := h
  obtain ⟨k, hp⟩ := qpost_ok r hwf n hfull hn
  unfold qpush
  rw [hp]
  simp only []
  have hwf1 : ({ r with len := r.len + n } : Ring).WF := by unfold WF; simp only []; omega
  by_cases h0 : n = 0
  · subst h0
    unfold set
    simp only [↓reduceIte, Nat.add_zero]
    refine ⟨_, _, rfl, hwf, rfl, ?_⟩
    unfold setSrc
    cases bytes <;> simp
  · obtain ⟨r', c, he, hw', hl', ho', hlen', hc⟩ := set_ok { r with len := r.len + n } hwf1 r.len n bytes
      (by omega) (by simp only []; omega)
    simp only [Nat.add_sub_cancel] at he ⊢
    rw [he]
    refine ⟨r', c, rfl, hw', hl', ?_⟩
    rw [hc]
    have hcl1 := content_length { r with len := r.len + n } (by simp only []; omega) (by simp only []; omega)
    simp only [] at hcl1
    rw [List.drop_of_length_le (by omega), List.append_nil]
    congr 1
    have := content_take { r with len := r.len + n } r.len (by simp only []; omega)
    simp only [] at this
    rw [← this]

theorem qunshift_ok (r : Ring) (h : r.WF) (n : Nat) (bytes : Option (List Byte))
    (hfull : r.len < r.store.length) (hn : n ≤ r.store.length - r.len) :
    ∃ r' c, r.qunshift n bytes = .ok (r', c) ∧ r'.WF ∧ r'.store.length = r.store.length
      ∧ r'.content = setSrc n bytes ++ r.content := by
  have hwf := h
  obtain ⟨h1, h2⟩ := h
  obtain ⟨r1, k, hp, hw1, hs1, hl1, hc1⟩ := qpre_ok r hwf n hfull hn
  unfold qunshift
  rw [hp]
  simp only []
  by_cases h0 : n = 0
  · subst h0
    unfold set
    simp only [↓reduceIte]
    refine ⟨_, _, rfl, hw1, by rw [hs1], ?_⟩
    rw [List.drop_zero] at hc1
    rw [hc1]
    unfold setSrc
    cases bytes <;> simp
  · obtain ⟨r', c, he, hw', hl', ho', hlen', hc⟩ := set_ok r1 hw1 0 n bytes (by omega) (by omega)
    rw [he]
    refine ⟨r', c, rfl, hw', by rw [hl', hs1], ?_⟩
    rw [hc, List.take_zero, List.nil_append, Nat.zero_add, hc1]

theorem qpush_refused (r : Ring) (h : r.WF) (n : Nat) (bytes : Option (List Byte))
    (hn : r.store.length - r.len < n ∨ r.len = r.store.length) :
    r.qpush n bytes = .err .MissingBuffer := by
  unfold qpush
  rw [qpost_refused r h n hn]

theorem qunshift_refused (r : Ring) (h : r.WF) (n : Nat) (bytes : Option (List Byte))
    (hn : r.store.length - r.len < n ∨ r.len = r.store.length) :
    r.qunshift n bytes = .err .MissingBuffer := by
  unfold qunshift
  rw [qpre_refused r h n hn]

end Ring
end Mpt
