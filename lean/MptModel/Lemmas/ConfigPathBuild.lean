/-
  Building a path element by element (mpt_path_addchar / mpt_path_valid / mpt_path_add) and undoing it
  (mpt_path_del), separator mode and binary length mode.
-/
import MptModel.Lemmas.ConfigPathLast
namespace Mpt.Config
open Mpt Mpt.PathMap

/-! ### pending characters -/

/-- characters pushed onto an array backed path whose pending part is kept (or empty) are appended -/
theorem pushChars_arr : ∀ (e : List Byte) (p : Path), p.hasArray = true → p.off + p.len ≤ p.base.length →
    (p.keepPost = true ∨ p.off + p.len = p.base.length) →
    e.foldl pushChar p = { p with base := p.base ++ e, keepPost := p.keepPost || !e.isEmpty }
  | [], p, _, _, _ => by simp
  | c :: cs, p, ha, hle, hk => by
    have h1 : pushChar p c = { p with base := p.base ++ [c], keepPost := true } := by
      have hcond : ¬ (p.off + p.len < p.base.length ∧ (!p.keepPost) = true) := by
        rcases hk with h | h
        · simp [h]
        · omega
      simp only [pushChar, pathAddChar, ha, Bool.not_true, Bool.false_eq_true, ↓reduceIte, hcond, pathValid]
      have : ¬ (p.base ++ [c]).length < p.off + p.len := by simp; omega
      simp only [this, ↓reduceIte]
      simp only [Path.mk.injEq, and_true, true_and, Bool.or_eq_true, decide_eq_true_eq]
      right; simp; omega
    have h2 := pushChars_arr cs { p with base := p.base ++ [c], keepPost := true } ha (by simp; omega) (Or.inl rfl)
    rw [List.foldl_cons, h1, h2]
    simp

/-- the first characters of a path without storage -/
theorem pushChars_new (c : Byte) (cs : List Byte) (p : Path) (ha : p.hasArray = false) (ho : p.off = 0) (hl : p.len = 0) :
    (c :: cs).foldl pushChar p = { p with base := c :: cs, hasArray := true, keepPost := true } := by
  have h1 : pushChar p c = { p with base := [c], hasArray := true, keepPost := true } := by
    simp [pushChar, pathAddChar, ha, ho, hl, pathValid]
  have h2 := pushChars_arr cs { p with base := [c], hasArray := true, keepPost := true } rfl (by simp [ho, hl]) (Or.inl rfl)
  rw [List.foldl_cons, h1, h2]
  simp

/-! ### separator mode -/

theorem joinSep_snoc (sep : Byte) : ∀ (es : List (List Byte)) (e : List Byte), es ≠ [] →
    joinSep sep (es ++ [e]) = joinSep sep es ++ sep :: e
  | [], _, h => absurd rfl h
  | [a], e, _ => by simp [joinSep]
  | a :: b :: es, e, _ => by
    have := joinSep_snoc sep (b :: es) e (by simp)
    simp only [List.cons_append] at this ⊢
    simp only [joinSep, this]
    simp

theorem splitOn_joinSep (sep : Byte) : ∀ (es : List (List Byte)), es ≠ [] → (∀ e ∈ es, sep ∉ e) →
    splitOn sep (joinSep sep es) = es
  | [], h, _ => absurd rfl h
  | [a], _, hs => by simpa [joinSep] using splitOn_no_sep sep a (hs a (by simp))
  | a :: b :: es, _, hs => by
    simp only [joinSep]
    rw [splitOn_append_sep sep a _ (hs a (by simp)), splitOn_joinSep sep (b :: es) (by simp) (fun e he => hs e (by simp [he]))]

theorem takeWhile_append_sep (sep : Byte) : ∀ (t x : List Byte), (t ++ sep :: x).takeWhile (· ≠ sep) = t.takeWhile (· ≠ sep)
  | [], x => by simp
  | c :: cs, x => by
    by_cases hc : c = sep
    · simp [hc]
    · have ih := takeWhile_append_sep sep cs x
      simp only [List.cons_append, List.takeWhile_cons, hc, ne_eq, not_false_eq_true, decide_true, ↓reduceIte, ih]

/-- array backed separator-mode path holding the elements `es`: the text, one more byte, nothing pending -/
structure ArrS (sep : Byte) (p : Path) (es : List (List Byte)) : Prop where
  arr : p.hasArray = true
  keep : p.keepPost = false
  sp : ∃ x, SepPath sep p [] (joinSep sep es) [x]

/-- `mpt_path_add` of the pending element `e` behind the elements `es` -/
theorem pushElem_sep {sep : Byte} {p : Path} {es : List (List Byte)} (h : ArrS sep p es) (hes : es ≠ []) (e : List Byte)
    (hse : sep ∉ e) : ∃ q, pushElem p e = .ok q ∧ ArrS sep q (es ++ [e]) := by
  obtain ⟨x, hS⟩ := h.sp
  have hb : p.base = joinSep sep es ++ [x] := by simpa using hS.base
  have ho := hS.off
  have hl := hS.len
  simp only [List.length_nil] at ho
  have hused : p.off + p.len = p.base.length := by rw [hb, ho, hl]; simp
  have hfold := pushChars_arr e p h.arr (by omega) (Or.inr hused)
  refine ⟨{ p with base := joinSep sep es ++ sep :: e ++ [p.assign], len := p.len + e.length + 1, keepPost := false }, ?_, ?_⟩
  · simp only [pushElem, hfold, pathAdd, pathAddCore, h.arr, Bool.not_true, Bool.false_eq_true, ↓reduceIte, hS.bin]
    have e1 : ¬ (p.base ++ e).length < p.off + p.len := by simp; omega
    have e2 : (p.base ++ e).length - (p.off + p.len) = e.length := by simp; omega
    simp only [e1, ↓reduceIte, e2, Nat.lt_irrefl, Nat.sub_self, Nat.lt_add_one]
    have e3 : ((p.base ++ e).drop (p.off + p.len)).take e.length = e := by
      rw [hused]; simp
    have e4 : (List.contains e p.sep) = false := by
      rw [hS.hsep]; simpa using hse
    simp only [e3, e4, Bool.false_eq_true, ↓reduceIte]
    have hne : p.off + p.len ≠ 0 := by omega
    have hne' : p.len ≠ 0 := by omega
    simp only [hne, hne', ne_eq, not_false_eq_true, ↓reduceIte]
    congr 1
    -- the two writes
    have hpl : p.off + p.len = (joinSep sep es).length + 1 := by omega
    rw [hpl, hb, hS.hsep]
    simp only [Mem.write, Nat.add_sub_cancel, List.length_cons, List.length_nil, List.append_assoc]
    have : ∀ (T : List Byte), ((T ++ ([x] ++ (e ++ [0]))).take T.length ++ ([sep] ++ (T ++ ([x] ++ (e ++ [0]))).drop (T.length + (0 + 1)))) = T ++ sep :: e ++ [0] := by
      intro T; simp
    simp only [Path.mk.injEq, and_true, true_and]
    refine ⟨?_, by omega⟩
    rw [this]
    have e5 : joinSep sep es ++ sep :: e ++ [0] = (joinSep sep es ++ sep :: e) ++ [0] := by simp
    have e6 : (joinSep sep es ++ sep :: e).length = (joinSep sep es).length + 1 + e.length := by simp; omega
    rw [e5, List.take_left' e6, List.drop_of_length_le (by simp; omega)]
    simp
  · refine ⟨h.arr, rfl, p.assign, ?_⟩
    rw [joinSep_snoc sep es e hes]
    refine ⟨by simp, by simp, by simpa using ho, by simp [hl]; omega, hS.bin, hS.hsep, ?_⟩
    have := hS.first
    simp only [takeWhile_append_sep]
    exact this

/-- a separator-mode path without elements: no storage yet, or storage that was emptied again -/
structure Empty0 (sep : Byte) (p : Path) : Prop where
  off : p.off = 0
  len : p.len = 0
  bin : p.binary = false
  hsep : p.sep = sep
  store : (p.hasArray = false ∧ p.base = [] ∧ p.keepPost = false) ∨ (p.hasArray = true ∧ p.base = [] ∧ p.keepPost = false)

/-- the first element -/
theorem pushElem_first_ne {sep : Byte} {p : Path} (h : Empty0 sep p) (e : List Byte) (hne : e ≠ [] ∨ p.hasArray = true) (hse : sep ∉ e) :
    ∃ q, pushElem p e = .ok q ∧ ArrS sep q [e] := by
  have hfold : ∃ kp, e.foldl pushChar p = { p with base := e, hasArray := true, keepPost := kp } := by
    rcases h.store with ⟨ha, _, _⟩ | ⟨ha, hb, hk⟩
    · cases e with
      | nil => rcases hne with h' | h'
               · exact absurd rfl h'
               · rw [ha] at h'; cases h'
      | cons c cs => exact ⟨true, pushChars_new c cs p ha h.off h.len⟩
    · refine ⟨!e.isEmpty, ?_⟩
      rw [pushChars_arr e p ha (by simp [h.off, h.len]) (Or.inr (by simp [h.off, h.len, hb]))]
      simp [hb, hk, ha]
  obtain ⟨kp, hfold⟩ := hfold
  obtain ⟨fl, hfl⟩ : ∃ fl : Nat, fl = if e.length > 255 then 0 else e.length := ⟨_, rfl⟩
  refine ⟨{ p with base := e ++ [p.assign], hasArray := true, first := fl, len := e.length + 1, keepPost := false }, ?_, ?_⟩
  · simp only [pushElem, hfold, pathAdd, pathAddCore, Bool.not_true, Bool.false_eq_true, ↓reduceIte, h.bin, h.off, h.len, Nat.add_zero,
      Nat.lt_irrefl, Nat.sub_zero, Nat.sub_self, Nat.lt_add_one, ne_eq, not_true_eq_false, List.drop_zero, List.take_length]
    have e4 : (List.contains e p.sep) = false := by rw [h.hsep]; simpa using hse
    simp only [e4, Bool.false_eq_true, ↓reduceIte, Nat.zero_add]
    congr 1
    simp only [Mem.write, List.length_cons, List.length_nil, Path.mk.injEq, and_true, true_and]
    have e6 : (e ++ [0]).take e.length = e := List.take_left' rfl
    rw [e6, List.drop_of_length_le (by simp)]
    simp [hfl]
  · refine ⟨rfl, rfl, p.assign, ?_⟩
    refine ⟨by simp [joinSep], by simp, by simpa using h.off, by simp [joinSep], h.bin, h.hsep, ?_⟩
    simp only [joinSep, takeWhile_all sep e hse, hfl]
    by_cases hb : e.length > 255
    · simp [hb]
    · simp [hb]

/-- the loop of `mpt_path_del` steps over the characters of the last element (`r` = the element reversed) -/
theorem delScan_chars (sep : Byte) (base pre : List Byte) : ∀ (r rest : List Byte) (acc n : Nat), 1 ≤ n →
    base = pre ++ r.reverse ++ rest → sep ∉ r →
    delScan base sep (n + r.length) (pre.length + r.length - 1) acc = delScan base sep n (pre.length - 1) (acc + r.length)
  | [], rest, acc, n, _, _, _ => by simp
  | c :: r, rest, acc, n, hn, hb, hs => by
    simp at hs
    have hc : c ≠ sep := fun e => hs.1 e.symm
    have hlen : n + (c :: r).length = (n + r.length) + 1 := by simp; omega
    have hidx : base[pre.length + (c :: r).length - 1]? = some c := by
      rw [hb]
      simp only [List.reverse_cons, List.length_cons, List.append_assoc]
      rw [List.getElem?_append_right (by omega), List.getElem?_append_right (by simp)]
      simp
    have hne : ¬ n + r.length = 0 := by omega
    rw [hlen]
    simp only [delScan, hne, ↓reduceIte, hidx, hc]
    have := delScan_chars sep base pre r ([c] ++ rest) (acc + 1) n hn (by rw [hb]; simp) hs.2
    have e1 : pre.length + (c :: r).length - 1 - 1 = pre.length + r.length - 1 := by simp
    rw [e1, this]
    congr 1
    simp; omega

/-- `mpt_path_del` takes the last element off again -/
theorem pathDel_sep {sep : Byte} {p : Path} {es : List (List Byte)} {e : List Byte} (h : ArrS sep p (es ++ [e]))
    (hse : sep ∉ e) :
    ∃ q, pathDel p = .ok (q, e.length) ∧ (es ≠ [] → ArrS sep q es) ∧ (es = [] → Empty0 sep q) := by
  obtain ⟨x, hS⟩ := h.sp
  have ho := hS.off
  simp only [List.length_nil] at ho
  have hbase : p.base = joinSep sep (es ++ [e]) ++ [x] := by simpa using hS.base
  have hl := hS.len
  have hl0 : ¬ p.len = 0 := by omega
  by_cases hes : es = []
  · subst hes
    simp only [List.nil_append, joinSep] at hbase hl
    have hscan : delScan p.base sep p.len (p.len + p.off - 2) 0 = .ok (0, e.length) := by
      have := delScan_chars sep p.base [] e.reverse [x] 0 1 (Nat.le_refl _) (by simp [hbase]) (by simpa using hse)
      simp only [List.length_reverse, List.length_nil, Nat.zero_add] at this
      have e1 : p.len = 1 + e.length := by omega
      have e2 : p.len + p.off - 2 = e.length - 1 := by omega
      rw [e1, ← e1, e2, e1, this]
      simp [delScan]
    refine ⟨{ p with base := [], len := 0, first := 0, keepPost := false }, ?_, fun hne => absurd rfl hne, fun _ => ?_⟩
    · simp only [pathDel, hl0, ↓reduceIte, hS.bin, Bool.false_eq_true, hS.hsep, hscan, h.arr]
      simp [ho]
    · exact ⟨ho, rfl, hS.bin, hS.hsep, Or.inr ⟨h.arr, rfl, rfl⟩⟩
  · rw [joinSep_snoc sep es e hes] at hbase hl
    have hscan : delScan p.base sep p.len (p.len + p.off - 2) 0 = .ok ((joinSep sep es).length + 1, e.length) := by
      have := delScan_chars sep p.base (joinSep sep es ++ [sep]) e.reverse [x] 0 ((joinSep sep es).length + 2) (by omega)
        (by simp [hbase]) (by simpa using hse)
      simp only [List.length_reverse, List.length_append, List.length_cons, List.length_nil, Nat.zero_add] at this
      have e1 : p.len = (joinSep sep es).length + 2 + e.length := by simp at hl; omega
      have e2 : p.len + p.off - 2 = (joinSep sep es).length + (0 + 1) + e.length - 1 := by omega
      rw [e2, e1, this]
      have hidx : p.base[(joinSep sep es).length + (0 + 1) - 1]? = some sep := by
        rw [hbase]
        simp only [Nat.zero_add, Nat.add_sub_cancel, List.append_assoc]
        rw [List.getElem?_append_right (by omega)]
        simp
      simp only [delScan, Nat.add_eq_zero_iff, Nat.succ_ne_self, and_false, ↓reduceIte, hidx]
    refine ⟨{ p with base := p.base.take ((joinSep sep es).length + 1), len := (joinSep sep es).length + 1, keepPost := false },
      ?_, fun _ => ?_, fun he => absurd he hes⟩
    · simp only [pathDel, hl0, ↓reduceIte, hS.bin, Bool.false_eq_true, hS.hsep, hscan, h.arr]
      have : ¬ (joinSep sep es).length + 1 > p.base.length := by rw [hbase]; simp
      simp [this, ho]
    · refine ⟨h.arr, rfl, sep, ?_⟩
      refine ⟨?_, by simp, by simpa using ho, rfl, hS.bin, hS.hsep, ?_⟩
      · simp only [hbase, List.nil_append, List.append_assoc]
        have : (joinSep sep es ++ (sep :: e ++ [x])) = (joinSep sep es ++ [sep]) ++ (e ++ [x]) := by simp
        rw [this, List.take_left' (by simp)]
      · have := hS.first
        rw [joinSep_snoc sep es e hes, takeWhile_append_sep] at this
        exact this

/-- An array backed separator-mode path built element by element (every character through
    `mpt_path_addchar` + `mpt_path_valid`, then `mpt_path_add`) holds exactly these elements. -/
theorem pushElems_sep {sep : Byte} : ∀ (es' : List (List Byte)) {p : Path} {es : List (List Byte)}, ArrS sep p es → es ≠ [] →
    (∀ e ∈ es', sep ∉ e) → ∃ q, pushElems p es' = .ok q ∧ ArrS sep q (es ++ es')
  | [], p, es, h, _, _ => ⟨p, rfl, by simpa using h⟩
  | e :: es', p, es, h, hes, hs => by
    obtain ⟨q, hq, hQ⟩ := pushElem_sep h hes e (hs e (by simp))
    obtain ⟨q', hq', hQ'⟩ := pushElems_sep es' hQ (by simp) (fun x hx => hs x (by simp [hx]))
    exact ⟨q', by simp only [pushElems, hq, hq'], by simpa using hQ'⟩

/-! ### binary length mode -/

theorem encBin_ne_nil (x : Byte) : ∀ (es : List (List Byte)), es ≠ [] → encBin x es ≠ []
  | [], h => absurd rfl h
  | [e], _ => by simp [encBin]
  | e :: e' :: es, _ => by simp [encBin]

/-- the last byte is the free "next length" field -/
theorem encBin_last (x z : Byte) : ∀ (es : List (List Byte)), es ≠ [] → (encBin x es).dropLast ++ [z] = encBin z es
  | [], h => absurd rfl h
  | [e], _ => by
    simp only [encBin]
    rw [show e ++ [UInt8.ofNat e.length, x] = (e ++ [UInt8.ofNat e.length]) ++ [x] by simp, List.dropLast_concat]
    simp
  | e :: e' :: es, _ => by
    simp only [encBin]
    rw [List.dropLast_append_of_ne_nil (encBin_ne_nil x (e' :: es) (by simp)), List.append_assoc,
      encBin_last x z (e' :: es) (by simp)]

theorem encBin_snoc (x y : Byte) : ∀ (es : List (List Byte)) (e : List Byte), es ≠ [] →
    encBin y (es ++ [e]) = (encBin x es).dropLast ++ UInt8.ofNat e.length :: e ++ [UInt8.ofNat e.length, y]
  | [], _, h => absurd rfl h
  | [a], e, _ => by
    simp only [List.cons_append, List.nil_append, encBin]
    rw [show a ++ [UInt8.ofNat a.length, x] = (a ++ [UInt8.ofNat a.length]) ++ [x] by simp, List.dropLast_concat]
    simp
  | a :: b :: es, e, _ => by
    have ih := encBin_snoc x y (b :: es) e (by simp)
    simp only [List.cons_append] at ih ⊢
    simp only [encBin, ih]
    rw [List.dropLast_append_of_ne_nil (encBin_ne_nil x (b :: es) (by simp))]
    simp

def headLen : List (List Byte) → Nat
  | [] => 0
  | e :: _ => e.length

theorem toNat_ofNat_small (n : Nat) (h : n ≤ 255) : (UInt8.ofNat n).toNat = n := by
  simp [UInt8.toNat_ofNat]
  omega

/-- walking a binary-mode path yields its elements -/
theorem elems_bin (x : Byte) : ∀ (es : List (List Byte)) (pre : List Byte) (p : Path) (fuel : Nat),
    es.length + 1 ≤ fuel → p.binary = true → p.base = pre ++ encBin x es → p.off = pre.length →
    p.len = (encBin x es).length → (es ≠ [] → p.first = headLen es) → (∀ e ∈ es, e.length ≤ 255) →
    elems p fuel = .ok es
  | [], pre, p, fuel, hf, hb, hbase, ho, hl, hfi, hle => by
    obtain ⟨f, rfl⟩ : ∃ f, fuel = f + 1 := ⟨fuel - 1, by omega⟩
    simp [elems, hl, encBin]
  | e :: rest, pre, p, fuel, hf, hb, hbase, ho, hl, hfi, hle => by
    obtain ⟨f, rfl⟩ : ∃ f, fuel = f + 1 := ⟨fuel - 1, by simp at hf; omega⟩
    have hel : e.length ≤ 255 := hle e (by simp)
    -- the two length bytes behind `e`
    obtain ⟨nx, tail, henc, hnx⟩ : ∃ nx tail, encBin x (e :: rest) = e ++ [UInt8.ofNat e.length, nx] ++ tail ∧
        tail = encBin x rest ∧ (rest ≠ [] → nx.toNat = headLen rest) := by
      cases rest with
      | nil => exact ⟨x, [], by simp [encBin], by simp [encBin], fun h => absurd rfl h⟩
      | cons e' r =>
        exact ⟨UInt8.ofNat e'.length, encBin x (e' :: r), by simp [encBin], rfl,
          fun _ => toNat_ofNat_small _ (hle e' (by simp))⟩
    have hl0 : ¬ p.len = 0 := by rw [hl, henc]; simp
    have hdata : p.base.drop p.off = e ++ [UInt8.ofNat e.length, nx] ++ tail := by rw [hbase, ho, henc]; simp
    have hfe : p.first = e.length := by simpa [headLen] using hfi (by simp)
    have hidx : (p.base.drop p.off)[e.length + 1]? = some nx := by
      rw [hdata]
      simp only [List.append_assoc]
      rw [List.getElem?_append_right (by omega)]
      simp
    have hskip : ¬ (e.length + 2 > p.len) := by rw [hl, henc]; simp
    have hnext : pathNext p = .ok ({ p with first := nx.toNat, off := p.off + (e.length + 2), len := p.len - (e.length + 2) }, e.length) := by
      simp only [pathNext, hl0, ↓reduceIte, hb, hfe, hidx, hskip]
    have hq := elems_bin x rest (pre ++ e ++ [UInt8.ofNat e.length, nx])
      { p with first := nx.toNat, off := p.off + (e.length + 2), len := p.len - (e.length + 2) } f
      (by simp at hf; omega) hb (by rw [hbase, henc, hnx.1]; simp) (by simp [ho])
      (by rw [hl, henc, hnx.1]; simp; omega)
      (fun hr => hnx.2 hr)
      (fun e' he' => hle e' (by simp [he']))
    simp only [elems, hl0, ↓reduceIte, hnext]
    rw [hq]
    simp only [hb, ↓reduceIte]
    rw [hbase, ho, henc]
    have : pre.length + (e.length + 2) - e.length - 2 = pre.length := by omega
    simp [this]

/-- array backed binary-mode path holding the elements `es` -/
structure ArrB (p : Path) (es : List (List Byte)) : Prop where
  arr : p.hasArray = true
  keep : p.keepPost = false
  bin : p.binary = true
  off : p.off = 0
  base : ∃ x, p.base = encBin x es
  len : p.len = p.base.length
  first : p.first = headLen es
  small : ∀ e ∈ es, e.length ≤ 255

/-- a binary-mode path without elements -/
structure EmptyB (p : Path) : Prop where
  off : p.off = 0
  len : p.len = 0
  bin : p.binary = true
  store : (p.hasArray = false ∧ p.base = [] ∧ p.keepPost = false) ∨ (p.hasArray = true ∧ p.base = [] ∧ p.keepPost = false)

theorem elems_arrB {p : Path} {es : List (List Byte)} (h : ArrB p es) : elems p (es.length + 1) = .ok es := by
  obtain ⟨x, hx⟩ := h.base
  exact elems_bin x es [] p _ (Nat.le_refl _) h.bin (by simpa using hx) (by simpa using h.off) (by rw [h.len, hx])
    (fun _ => h.first) h.small

/-- `mpt_path_add` of the pending element `e` behind the elements `es` (binary mode) -/
theorem pushElem_bin {p : Path} {es : List (List Byte)} (h : ArrB p es) (hes : es ≠ []) (e : List Byte)
    (hle : e.length ≤ 255) : ∃ q, pushElem p e = .ok q ∧ ArrB q (es ++ [e]) := by
  obtain ⟨x, hx⟩ := h.base
  have ho := h.off
  have hl := h.len
  have hfold := pushChars_arr e p h.arr (by omega) (Or.inr (by omega))
  have hbne : p.base ≠ [] := by rw [hx]; exact encBin_ne_nil x es hes
  have hblen : 0 < p.base.length := List.length_pos_iff.2 hbne
  refine ⟨{ p with base := encBin 0 (es ++ [e]), len := p.len + e.length + 2, keepPost := false }, ?_, ?_⟩
  · simp only [pushElem, hfold, pathAdd, pathAddCore, h.arr, Bool.not_true, Bool.false_eq_true, ↓reduceIte, h.bin]
    have e1 : ¬ (p.base ++ e).length < p.off + p.len := by simp; omega
    have e2 : (p.base ++ e).length - (p.off + p.len) = e.length := by simp; omega
    have e3 : ¬ e.length > 255 := by omega
    have hne : p.off + p.len ≠ 0 := by omega
    have hne' : p.len ≠ 0 := by omega
    simp only [e1, ↓reduceIte, e2, Nat.lt_irrefl, Nat.sub_self, e3, Nat.zero_lt_succ, Nat.sub_zero, hne, hne', ne_eq,
      not_false_eq_true]
    congr 1
    simp only [Path.mk.injEq, and_true, true_and]
    refine ⟨?_, by omega⟩
    rw [encBin_snoc x 0 es e hes, ← hx]
    have hpl : p.off + p.len = p.base.length := by omega
    rw [hpl]
    -- the two writes
    have hsplit : p.base = p.base.dropLast ++ [p.base.getLast hbne] := (List.dropLast_concat_getLast hbne).symm
    have hdl : p.base.dropLast.length = p.base.length - 1 := by simp
    simp only [Mem.write, List.length_cons, List.length_nil, List.replicate]
    generalize hD : p.base.dropLast = D at hsplit hdl
    generalize p.base.getLast hbne = g at hsplit
    rw [hsplit]
    have hDl : (D ++ [g]).length - 1 = D.length := by simp
    simp only [hDl, List.length_append, List.length_cons, List.length_nil, Nat.zero_add]
    have t1 : (D ++ [g] ++ e ++ [0, 0]).take D.length = D := by
      rw [show D ++ [g] ++ e ++ [0, 0] = D ++ ([g] ++ e ++ [0, 0]) by simp]; exact List.take_left' rfl
    have t2 : (D ++ [g] ++ e ++ [0, 0]).drop (D.length + 1) = e ++ [0, 0] := by
      rw [show D ++ [g] ++ e ++ [0, 0] = (D ++ [g]) ++ (e ++ [0, 0]) by simp]; exact List.drop_left' (by simp)
    simp only [Nat.add_sub_cancel]
    rw [t1, t2]
    have t3 : (D ++ [UInt8.ofNat e.length] ++ (e ++ [0, 0])).take (D.length + 1 + e.length) = D ++ [UInt8.ofNat e.length] ++ e := by
      rw [show D ++ [UInt8.ofNat e.length] ++ (e ++ [0, 0]) = (D ++ [UInt8.ofNat e.length] ++ e) ++ [0, 0] by simp]
      exact List.take_left' (by simp; omega)
    rw [t3, List.drop_of_length_le (by simp; omega)]
    simp
  · refine ⟨h.arr, rfl, h.bin, ho, ⟨0, rfl⟩, ?_, ?_, ?_⟩
    · simp only
      rw [encBin_snoc x 0 es e hes, hl, hx]
      have := encBin_ne_nil x es hes
      have hdl : (encBin x es).dropLast.length = (encBin x es).length - 1 := by simp
      have : 0 < (encBin x es).length := List.length_pos_iff.2 this
      simp; omega
    · simp only [h.first]
      cases es with
      | nil => exact absurd rfl hes
      | cons a r => simp [headLen]
    · intro e' he'
      rw [List.mem_append] at he'
      rcases he' with h' | h'
      · exact h.small e' h'
      · simp at h'; subst h'; exact hle

/-- the first element (binary mode) -/
theorem pushElem_bin_first_ne {p : Path} (h : EmptyB p) (e : List Byte) (hne : e ≠ [] ∨ p.hasArray = true) (hle : e.length ≤ 255) :
    ∃ q, pushElem p e = .ok q ∧ ArrB q [e] := by
  have hfold : ∃ kp, e.foldl pushChar p = { p with base := e, hasArray := true, keepPost := kp } := by
    rcases h.store with ⟨ha, _, _⟩ | ⟨ha, hb, hk⟩
    · cases e with
      | nil => rcases hne with h' | h'
               · exact absurd rfl h'
               · rw [ha] at h'; cases h'
      | cons c cs => exact ⟨true, pushChars_new c cs p ha h.off h.len⟩
    · refine ⟨!e.isEmpty, ?_⟩
      rw [pushChars_arr e p ha (by simp [h.off, h.len]) (Or.inr (by simp [h.off, h.len, hb]))]
      simp [hb, hk, ha]
  obtain ⟨kp, hfold⟩ := hfold
  refine ⟨{ p with base := encBin 0 [e], hasArray := true, first := e.length, len := e.length + 2, keepPost := false }, ?_, ?_⟩
  · have e3 : ¬ e.length > 255 := by omega
    simp only [pushElem, hfold, pathAdd, pathAddCore, Bool.not_true, Bool.false_eq_true, ↓reduceIte, h.bin, h.off, h.len, Nat.add_zero,
      Nat.lt_irrefl, Nat.sub_zero, Nat.sub_self, e3, Nat.zero_lt_succ, ne_eq, not_true_eq_false]
    congr 1
    simp only [Mem.write, List.length_cons, List.length_nil, List.replicate, Path.mk.injEq, and_true, true_and, encBin,
      Nat.zero_add]
    have t1 : (e ++ [0, 0]).take e.length = e := List.take_left' rfl
    rw [t1, List.drop_of_length_le (by simp)]
    simp
  · exact ⟨rfl, rfl, h.bin, h.off, ⟨0, rfl⟩, by simp [encBin], by simp [headLen], by simpa using hle⟩

/-- `mpt_path_del` takes the last element off again (binary mode) -/
theorem pathDel_bin {p : Path} {es : List (List Byte)} {e : List Byte} (h : ArrB p (es ++ [e])) :
    ∃ q, pathDel p = .ok (q, e.length) ∧ (es ≠ [] → ArrB q es) ∧ (es = [] → EmptyB q) := by
  obtain ⟨y, hy⟩ := h.base
  have hle : e.length ≤ 255 := h.small e (by simp)
  have hl := h.len
  have ho := h.off
  by_cases hes : es = []
  · subst hes
    simp only [List.nil_append, encBin] at hy
    have hlen : p.len = e.length + 2 := by rw [hl, hy]; simp
    have hl0 : ¬ p.len = 0 := by omega
    have hl2 : ¬ p.len < 2 := by omega
    have hidx : p.base[p.len + p.off - 2]? = some (UInt8.ofNat e.length) := by
      rw [hy, hlen, ho]
      rw [List.getElem?_append_right (by omega)]
      simp
    have hfirst : p.first = e.length := by simpa [headLen] using h.first
    refine ⟨{ p with base := [], len := 0, first := 0, keepPost := false }, ?_, fun hne => absurd rfl hne, fun _ => ?_⟩
    · simp only [pathDel, hl0, ↓reduceIte, h.bin, hl2, hidx, toNat_ofNat_small _ hle]
      have e1 : ¬ p.len ≤ e.length := by omega
      have e2 : p.len - (e.length + 2) = 0 := by omega
      simp [e1, e2, ho, hfirst, h.arr]
    · exact ⟨ho, rfl, h.bin, Or.inr ⟨h.arr, rfl, rfl⟩⟩
  · have hbase : p.base = (encBin 0 es).dropLast ++ UInt8.ofNat e.length :: e ++ [UInt8.ofNat e.length, y] := by
      rw [hy, encBin_snoc 0 y es e hes]
    have hne := encBin_ne_nil 0 es hes
    have hpos : 0 < (encBin 0 es).length := List.length_pos_iff.2 hne
    generalize hD : (encBin 0 es).dropLast = D at hbase
    have hDl : D.length + 1 = (encBin 0 es).length := by rw [← hD]; simp; omega
    have hlen : p.len = D.length + 1 + e.length + 2 := by rw [hl, hbase]; simp; omega
    have hl0 : ¬ p.len = 0 := by omega
    have hl2 : ¬ p.len < 2 := by omega
    have hidx : p.base[p.len + p.off - 2]? = some (UInt8.ofNat e.length) := by
      rw [hbase, hlen, ho]
      rw [List.getElem?_append_right (by simp; omega)]
      simp
      have : D.length + 1 + e.length - (D.length + (e.length + 1)) = 0 := by omega
      simp [this]
    have hback : p.base[D.length]? = some (UInt8.ofNat e.length) := by
      rw [hbase]
      simp
    refine ⟨{ p with base := p.base.take (D.length + 1), len := D.length + 1, keepPost := false }, ?_, fun _ => ?_,
      fun he => absurd he hes⟩
    · simp only [pathDel, hl0, ↓reduceIte, h.bin, hl2, hidx, toNat_ofNat_small _ hle]
      have e1 : ¬ p.len ≤ e.length := by omega
      have e2 : p.len - (e.length + 2) = D.length + 1 := by omega
      have e3 : D.length + 1 + p.off ≠ 0 := by omega
      have e4 : D.length + 1 + p.off - 1 = D.length := by omega
      simp only [e1, ↓reduceIte, e2, e3, ne_eq, not_false_eq_true, e4, hback, Option.map_some,
        toNat_ofNat_small _ hle, not_true_eq_false, h.arr]
      have : ¬ D.length + 1 > p.base.length := by rw [hbase]; simp
      simp [this, ho]
    · have htake : p.base.take (D.length + 1) = encBin (UInt8.ofNat e.length) es := by
        rw [hbase, show D ++ UInt8.ofNat e.length :: e ++ [UInt8.ofNat e.length, y]
          = (D ++ [UInt8.ofNat e.length]) ++ (e ++ [UInt8.ofNat e.length, y]) by simp, List.take_left' (by simp),
          ← hD, encBin_last 0 _ es hes]
      refine ⟨h.arr, rfl, h.bin, ho, ⟨UInt8.ofNat e.length, htake⟩, ?_, ?_, fun e' he' => h.small e' (by simp [he'])⟩
      · simp only [htake]
        rw [← encBin_last 0 (UInt8.ofNat e.length) es hes, hD]
        simp
      · have := h.first
        simp only at this ⊢
        rw [this]
        cases es with
        | nil => exact absurd rfl hes
        | cons a r => simp [headLen]

/-- a binary-mode path built element by element holds exactly these elements -/
theorem pushElems_bin : ∀ (es' : List (List Byte)) {p : Path} {es : List (List Byte)}, ArrB p es → es ≠ [] →
    (∀ e ∈ es', e.length ≤ 255) → ∃ q, pushElems p es' = .ok q ∧ ArrB q (es ++ es')
  | [], p, es, h, _, _ => ⟨p, rfl, by simpa using h⟩
  | e :: es', p, es, h, hes, hs => by
    obtain ⟨q, hq, hQ⟩ := pushElem_bin h hes e (hs e (by simp))
    obtain ⟨q', hq', hQ'⟩ := pushElems_bin es' hQ (by simp) (fun x hx => hs x (by simp [hx]))
    exact ⟨q', by simp only [pushElems, hq, hq'], by simpa using hQ'⟩

/-- an empty element on a path without storage is added like on an emptied array backed path -/
theorem pushElem_nil_noarray (p : Path) (ha : p.hasArray = false) (hb : p.base = []) (ho : p.off = 0) (hl : p.len = 0) :
    pushElem p [] = pushElem { p with hasArray := true } [] := by
  simp [pushElem, pathAdd, ha, hb, ho, hl]

/-- the first element (any, also empty), separator mode -/
theorem pushElem_first {sep : Byte} {p : Path} (h : Empty0 sep p) (e : List Byte) (hse : sep ∉ e) :
    ∃ q, pushElem p e = .ok q ∧ ArrS sep q [e] := by
  by_cases hne : e ≠ [] ∨ p.hasArray = true
  · exact pushElem_first_ne h e hne hse
  · have he : e = [] := by
      refine Classical.byContradiction fun h' => hne (Or.inl h')
    have ha : p.hasArray = false := by
      cases hh : p.hasArray with
      | false => rfl
      | true => exact absurd (Or.inr hh) hne
    subst he
    rcases h.store with ⟨_, hb, hk⟩ | ⟨ha', _, _⟩
    · rw [pushElem_nil_noarray p ha hb h.off h.len]
      exact pushElem_first_ne (p := { p with hasArray := true }) ⟨h.off, h.len, h.bin, h.hsep, Or.inr ⟨rfl, hb, hk⟩⟩ []
        (Or.inr rfl) hse
    · rw [ha] at ha'; cases ha'

/-- the first element (any, also empty), binary mode -/
theorem pushElem_bin_first {p : Path} (h : EmptyB p) (e : List Byte) (hle : e.length ≤ 255) :
    ∃ q, pushElem p e = .ok q ∧ ArrB q [e] := by
  by_cases hne : e ≠ [] ∨ p.hasArray = true
  · exact pushElem_bin_first_ne h e hne hle
  · have he : e = [] := by
      refine Classical.byContradiction fun h' => hne (Or.inl h')
    have ha : p.hasArray = false := by
      cases hh : p.hasArray with
      | false => rfl
      | true => exact absurd (Or.inr hh) hne
    subst he
    rcases h.store with ⟨_, hb, hk⟩ | ⟨ha', _, _⟩
    · rw [pushElem_nil_noarray p ha hb h.off h.len]
      exact pushElem_bin_first_ne (p := { p with hasArray := true }) ⟨h.off, h.len, h.bin, Or.inr ⟨rfl, hb, hk⟩⟩ []
        (Or.inr rfl) hle
    · rw [ha] at ha'; cases ha'

/-! ### whole paths -/

/-- building in separator mode: the path holds exactly the elements -/
theorem build_sep (sep assign : Byte) (e0 : List Byte) (es : List (List Byte))
    (hs : ∀ e ∈ e0 :: es, sep ∉ e) :
    ∃ p, pushElems (emptyPath sep assign false) (e0 :: es) = .ok p ∧ ArrS sep p (e0 :: es) ∧
      elems p ((joinSep sep (e0 :: es)).length + 2) = .ok (e0 :: es) := by
  have hE : Empty0 sep (emptyPath sep assign false) := ⟨rfl, rfl, rfl, rfl, Or.inl ⟨rfl, rfl, rfl⟩⟩
  obtain ⟨q, hq, hQ⟩ := pushElem_first hE e0 (hs e0 (by simp))
  obtain ⟨q', hq', hQ'⟩ := pushElems_sep es hQ (by simp) (fun e he => hs e (by simp [he]))
  refine ⟨q', by simp only [pushElems, hq, hq'], by simpa using hQ', ?_⟩
  obtain ⟨x, hS⟩ := hQ'.sp
  rw [elems_sepPath hS _ (by simp), splitOn_joinSep sep _ (by simp) (by simpa using hs)]
  simp

/-- building in binary length mode: the path holds exactly the elements -/
theorem build_bin (sep assign : Byte) (e0 : List Byte) (es : List (List Byte))
    (hs : ∀ e ∈ e0 :: es, e.length ≤ 255) :
    ∃ p, pushElems (emptyPath sep assign true) (e0 :: es) = .ok p ∧ ArrB p (e0 :: es) ∧
      elems p ((e0 :: es).length + 1) = .ok (e0 :: es) := by
  have hE : EmptyB (emptyPath sep assign true) := ⟨rfl, rfl, rfl, Or.inl ⟨rfl, rfl, rfl⟩⟩
  obtain ⟨q, hq, hQ⟩ := pushElem_bin_first hE e0 (hs e0 (by simp))
  obtain ⟨q', hq', hQ'⟩ := pushElems_bin es hQ (by simp) (fun e he => hs e (by simp [he]))
  have hQ'' : ArrB q' (e0 :: es) := by simpa using hQ'
  exact ⟨q', by simp only [pushElems, hq, hq'], hQ'', elems_arrB hQ''⟩

/-- `mpt_path_last` in binary mode -/
theorem pathLast_bin {p : Path} {es : List (List Byte)} {e : List Byte} (h : ArrB p (es ++ [e])) :
    ∃ q, pathLast p = .ok (q, e.length) ∧ elems q 2 = .ok [e] := by
  obtain ⟨y, hy⟩ := h.base
  have hle : e.length ≤ 255 := h.small e (by simp)
  obtain ⟨P, hP⟩ : ∃ P, p.base = P ++ encBin y [e] := by
    by_cases hes : es = []
    · subst hes; exact ⟨[], by simpa using hy⟩
    · refine ⟨(encBin 0 es).dropLast ++ [UInt8.ofNat e.length], ?_⟩
      rw [hy, encBin_snoc 0 y es e hes]
      simp [encBin]
  have hl : p.len = P.length + e.length + 2 := by rw [h.len, hP]; simp [encBin]; omega
  have hl0 : ¬ p.len = 0 := by omega
  have hl2 : ¬ p.len < 2 := by omega
  have hidx : p.base[p.off + p.len - 2]? = some (UInt8.ofNat e.length) := by
    rw [hP, hl, h.off]
    rw [List.getElem?_append_right (by omega)]
    simp only [encBin]
    rw [List.getElem?_append_right (by omega)]
    have : 0 + (P.length + e.length + 2) - 2 - P.length - e.length = 0 := by omega
    simp [this]
  have e1 : ¬ p.len < e.length + 2 := by omega
  refine ⟨{ p with off := p.off + (p.len - (e.length + 2)), first := e.length, len := e.length + 2 }, ?_, ?_⟩
  · simp only [pathLast, hl0, ↓reduceIte, h.bin, hl2, hidx, toNat_ofNat_small _ hle, e1]
  · exact elems_bin y [e] P _ 2 (by simp) h.bin hP (by simp [h.off, hl]) (by simp [encBin]) (fun _ => by simp [headLen])
      (by simpa using hle)

end Mpt.Config
