/-
  C05, layer 10: the C++ buffer methods (`buffer::trim`, `buffer::skip`, `content<T>::set_length`) and the typed
  array operations built from them (`unique_array::reserve/detach/resize/insert`) are complete steps.
-/
import MptModel.Lemmas.TokHist
import MptModel.Impl.HeapXX
namespace Mpt.Heap
open Mpt

/-- the elements `K .. N-1` of a buffer are destroyed and cut off (`buffer::trim`) -/
theorem bufTrim_ok {amb : List Nat} {s : State} {b : Nat} {x : Buf} (gs : GoodS amb s) (hb : s.buf? b = some x) (len : Nat) :
    OpOK amb s (bufTrim s b len) := by
  obtain ⟨t, N, xt, mt, hu, hsz⟩ := (gs.inv.good b x hb).elems
  have h4 := mt.2.2
  have sz0 : t.size ≠ 0 := by omega
  have szp : 0 < t.size := by omega
  unfold bufTrim
  rw [hb]
  simp only
  by_cases lt : x.used < len
  · rw [if_pos lt]; exact Step.refl gs
  · rw [if_neg lt]
    simp only [xt]
    by_cases bad : t.size = 0 ∨ x.used % t.size ≠ 0 ∨ (x.used - len) % t.size ≠ 0
    · rw [if_pos bad]; exact Step.refl gs
    · rw [if_neg bad]
      simp only [not_or, Decidable.not_not] at bad
      obtain ⟨_, _, km⟩ := bad
      have hK := used_eq_mul km
      generalize hKd : (x.used - len) / t.size = K at hK
      have KN : K ≤ N := by
        have : K * t.size ≤ N * t.size := by rw [← hK, ← hu]; omega
        exact Nat.le_of_mul_le_mul_right this szp
      rw [mt.2.1, if_pos rfl, hK, hu, iters_aligned K N t.size sz0]
      have fit : (K + (N - K)) * t.size ≤ x.size := by
        have : K + (N - K) = N := by omega
        rw [this, ← hu]; exact hsz
      obtain ⟨s1, d', h1, ob, lg, hb1, dl, out⟩ := finiLoop_slots (N - K) s b K t.size x hb h4 fit
      rw [h1]
      simp only [hb1]
      have blt1 := State.buf?_lt hb1
      have fr : Frame s (s1.setBuf b { x with data := d', used := K * t.size }) b :=
        ⟨by simp [ob.hs], by show s1.wins = _; exact ob.wins, by simp [ob.len], fun c ne => by
          rw [State.buf?_setBuf _ _ _ _ blt1, if_neg ne]; exact ob.other c ne⟩
      have hb' : (s1.setBuf b { x with data := d', used := K * t.size }).buf? b = some { x with data := d', used := K * t.size } := by
        rw [State.buf?_setBuf _ _ _ _ blt1, if_pos rfl]
      have xtk : x.toks = slotsFrom x.data t.size 0 K ++ slotsFrom x.data t.size K (N - K) := by
        rw [toks_of_used xt mt hu]
        have e : N = K + (N - K) := by omega
        conv => lhs; rw [e]
        rw [slotsFrom_add]; simp
      have ztk : ({ x with data := d', used := K * t.size } : Buf).toks = slotsFrom x.data t.size 0 K := by
        rw [toks_of_used (x := { x with data := d', used := K * t.size }) (n := K) xt mt rfl]
        exact slotsFrom_congr (fun j _ h2 => out j (Or.inl (by omega)))
      have ufit : K * t.size ≤ ({ x with data := d', used := K * t.size } : Buf).size := by
        have : K * t.size ≤ N * t.size := Nat.mul_le_mul_right _ KN
        simp only [Buf.size, dl]; simp only [Buf.size] at hsz; omega
      refine step_of_frame gs hb fr hb' rfl (goodBuf_of (n := K) xt mt rfl ufit) (by show s.next ≤ s1.next; rw [ob.next]; exact Nat.le_refl _) ?_
      intro small
      have tp := (gs.tok (by have : s1.next ≤ tokLimit := small; rw [ob.next] at this; exact this)).1
      have nd := tp.nodup b x hb
      rw [xtk] at nd
      have ndp := List.nodup_append.mp nd
      rw [ztk]
      refine ⟨Delta.mk (slotsFrom x.data t.size K (N - K)) [] [] 0 [] (by show s1.next = _; rw [ob.next]; rfl)
        (by show s1.log = _; rw [lg]; simp) (Creates.nil _) ndp.2.1
        (fun t ht => by rw [xtk]; exact List.mem_append.mpr (Or.inr ht)) (fun k hk => by cases hk) List.nodup_nil
        (fun t ht => by cases ht) ndp.1 ?_⟩
      intro k
      rw [xtk, List.mem_append]
      constructor
      · intro hA
        exact ⟨Or.inl ⟨Or.inl hA, fun hT => ndp.2.2 k hA k hT rfl⟩, by simp⟩
      · rintro ⟨(⟨hA | hT, nT⟩ | h), _⟩
        · exact hA
        · exact absurd hT nT
        · omega

/-- the elements `0 .. l-1` of a buffer are destroyed and the rest moves to the front (`buffer::skip`) -/
theorem bufSkip_ok {amb : List Nat} {s : State} {b : Nat} {x : Buf} (gs : GoodS amb s) (hb : s.buf? b = some x) (len : Nat) :
    OpOK amb s (bufSkip s b len) := by
  obtain ⟨t, N, xt, mt, hu, hsz⟩ := (gs.inv.good b x hb).elems
  have h4 := mt.2.2
  have sz0 : t.size ≠ 0 := by omega
  have szp : 0 < t.size := by omega
  unfold bufSkip
  rw [hb]
  simp only
  by_cases lt : x.used < len
  · rw [if_pos lt]; exact Step.refl gs
  · rw [if_neg lt]
    simp only [xt]
    by_cases bad : (decide (t.size = 0 ∨ len % t.size ≠ 0)) = true
    · rw [if_pos bad]; exact Step.refl gs
    · rw [if_neg bad]
      simp only [decide_eq_true_eq, not_or, Decidable.not_not] at bad
      have hl := used_eq_mul bad.2
      generalize hld : len / t.size = l at hl
      have lN : l ≤ N := by
        have : l * t.size ≤ N * t.size := by rw [← hl, ← hu]; omega
        exact Nat.le_of_mul_le_mul_right this szp
      have it : iters 0 len t.size = l := by
        have := iters_aligned 0 l t.size sz0
        rw [hl]; simpa using this
      rw [mt.2.1, if_pos rfl, it]
      have fit : (0 + l) * t.size ≤ x.size := by
        have : l * t.size ≤ N * t.size := Nat.mul_le_mul_right _ lN
        rw [Nat.zero_add]; omega
      obtain ⟨s1, d', h1, ob, lg, hb1, dl, out⟩ := finiLoop_slots l s b 0 t.size x hb h4 fit
      rw [Nat.zero_mul] at h1
      rw [h1]
      simp only [hb1]
      have blt1 := State.buf?_lt hb1
      have post : x.used - len = (N - l) * t.size := by rw [hu, hl, Nat.sub_mul]
      rw [post, hl]
      have dfit : (l + (N - l)) * t.size ≤ d'.length := by
        have : l + (N - l) = N := by omega
        rw [this, dl, ← hu]; exact hsz
      have dfit0 : (0 + (N - l)) * t.size ≤ d'.length := by
        have : (0 + (N - l)) * t.size ≤ (l + (N - l)) * t.size := Nat.mul_le_mul_right _ (by omega)
        omega
      have mv := slot_move d' t.size 0 l (N - l) h4 dfit dfit0
      rw [Nat.zero_mul] at mv
      have ml : (Mem.move d' 0 (l * t.size) ((N - l) * t.size)).length = x.data.length := by
        have := move_length' d' t.size 0 l (N - l) dfit dfit0
        rw [Nat.zero_mul] at this
        rw [this, dl]
      generalize hd2 : Mem.move d' 0 (l * t.size) ((N - l) * t.size) = d2 at mv ml
      have fr : Frame s (s1.setBuf b { x with data := d2, used := (N - l) * t.size }) b :=
        ⟨by simp [ob.hs], by show s1.wins = _; exact ob.wins, by simp [ob.len], fun c ne => by
          rw [State.buf?_setBuf _ _ _ _ blt1, if_neg ne]; exact ob.other c ne⟩
      have hb' : (s1.setBuf b { x with data := d2, used := (N - l) * t.size }).buf? b = some { x with data := d2, used := (N - l) * t.size } := by
        rw [State.buf?_setBuf _ _ _ _ blt1, if_pos rfl]
      have xtk : x.toks = slotsFrom x.data t.size 0 l ++ slotsFrom x.data t.size l (N - l) := by
        rw [toks_of_used xt mt hu]
        have e : N = l + (N - l) := by omega
        conv => lhs; rw [e]
        rw [slotsFrom_add]; simp
      have ztk : ({ x with data := d2, used := (N - l) * t.size } : Buf).toks = slotsFrom x.data t.size l (N - l) := by
        rw [toks_of_used (x := { x with data := d2, used := (N - l) * t.size }) (n := N - l) xt mt rfl]
        refine slotsFrom_shift (fun a ha => ?_)
        show slot d2 t.size (0 + a) = _
        rw [mv (0 + a), if_pos ⟨by omega, by omega⟩, out _ (Or.inr (by omega))]
        congr 1; omega
      have ufit : (N - l) * t.size ≤ ({ x with data := d2, used := (N - l) * t.size } : Buf).size := by
        have : (N - l) * t.size ≤ N * t.size := Nat.mul_le_mul_right _ (by omega)
        simp only [Buf.size, ml]; simp only [Buf.size] at hsz; omega
      refine step_of_frame gs hb fr hb' rfl (goodBuf_of (n := N - l) xt mt rfl ufit) (by show s.next ≤ s1.next; rw [ob.next]; exact Nat.le_refl _) ?_
      intro small
      have tp := (gs.tok (by have : s1.next ≤ tokLimit := small; rw [ob.next] at this; exact this)).1
      have nd := tp.nodup b x hb
      rw [xtk] at nd
      have ndp := List.nodup_append.mp nd
      rw [ztk]
      refine ⟨Delta.mk (slotsFrom x.data t.size 0 l) [] [] 0 [] (by show s1.next = _; rw [ob.next]; rfl)
        (by show s1.log = _; rw [lg]; simp) (Creates.nil _) ndp.1
        (fun t ht => by rw [xtk]; exact List.mem_append.mpr (Or.inl ht)) (fun k hk => by cases hk) List.nodup_nil
        (fun t ht => by cases ht) ndp.2.1 ?_⟩
      intro k
      rw [xtk, List.mem_append]
      constructor
      · intro hA
        exact ⟨Or.inl ⟨Or.inr hA, fun hT => ndp.2.2 k hT k hA rfl⟩, by simp⟩
      · rintro ⟨(⟨hT | hA, nT⟩ | h), _⟩
        · exact absurd hT nT
        · exact hA
        · omega


theorem Built.refl (s : State) (b : Nat) (x : Buf) (sz i : Nat) (hb : s.buf? b = some x) : Built s s b x sz i 0 [] x.data x.used :=
  ⟨Frame.refl s b, hb, rfl, rfl, ⟨[], by simp, Creates.nil _⟩, fun _ _ => rfl, fun _ j h1 h2 => by omega⟩

/-- `content<T>::set_length(n)`: trim, or extend by default construction of the gap -/
theorem contentSetLength_ok {amb : List Nat} {s : State} {b : Nat} {x : Buf} (gs : GoodS amb s) (hb : s.buf? b = some x) (n sz : Nat) :
    OpOK amb s (contentSetLength s b n sz) := by
  unfold contentSetLength
  rw [hb]
  simp only
  split
  · exact Step.refl gs
  · split
    · exact bufTrim_ok gs hb _
    · obtain ⟨t, N, xt, mt, hu, hsz⟩ := (gs.inv.good b x hb).elems
      rcases bufferInsert_managed hb xt mt hu hsz (n * sz) 0 with ⟨e, he⟩ | ⟨_, _, _, he⟩ | ⟨p, l, s2, z', ep, el, fit, he, ins⟩ |
        ⟨p, m, s2, z', ep, nm, pfit, he, fr, hb', r, _, tr, dl, u', n', lg, lo, inn⟩
      · rw [he]; exact Step.refl gs
      · rw [he]; exact Step.refl gs
      · rw [he]
        have l0 : l = 0 := by
          rcases Nat.mul_eq_zero.mp el.symm with h | h
          · exact h
          · have := mt.2.2; omega
        subst l0
        exact insert_fill_step gs hb xt mt hu ins fit (Built.refl s2 b z' t.size p ins.buf) (fun _ hk => by cases hk) (Or.inl ⟨rfl, rfl⟩)
      · rw [he]
        have ufit : (N + m) * t.size ≤ z'.size := by
          simp only [Buf.size, dl]
          have : (N + m) * t.size ≤ p * t.size := Nat.mul_le_mul_right _ (by omega)
          simp only [Buf.size] at pfit; omega
        exact append_step gs hb xt mt hu fr hb' r tr u' ufit n' lg lo inn

/-- `unique_array::reserve(len)` -/
theorem uReserve_ok {amb : List Nat} {s : State} (gs : GoodS amb s) {h : Nat} (hlt : h < s.hs.length) (k : XKind) (mt : Managed k.t) (len : Nat) :
    OpOK amb s (uReserve s h k len) := by
  unfold uReserve
  cases hh : s.handle h with
  | none => exact (attach_managed_step gs hlt hh _ _ k.t mt).1
  | some b =>
    simp only
    obtain ⟨x, hb⟩ := gs.inv.live h b hh
    obtain ⟨t, _, xt, _, _, _⟩ := (gs.inv.good b x hb).elems
    have es := ensure_step gs hh hb xt true (len * k.t.size)
    generalize ensure s h b true (len * k.t.size) = r at es
    cases r with
    | fault w => exact es
    | fail s1 e => exact es
    | ok s1 nb => exact es.1

/-- `unique_array::detach()` -/
theorem uDetach_ok {amb : List Nat} {s : State} (gs : GoodS amb s) {h : Nat} (hlt : h < s.hs.length) (k : XKind) (mt : Managed k.t) :
    OpOK amb s (uDetach s h k) := by
  unfold uDetach
  cases hh : s.handle h with
  | none => exact (attach_managed_step gs hlt hh _ _ k.t mt).1
  | some b =>
    simp only
    obtain ⟨x, hb⟩ := gs.inv.live h b hh
    rw [hb]
    simp only
    obtain ⟨t, _, xt, _, _, _⟩ := (gs.inv.good b x hb).elems
    have es := ensure_step gs hh hb xt true (x.used / k.t.size * k.t.size)
    generalize ensure s h b true (x.used / k.t.size * k.t.size) = r at es
    cases r with
    | fault w => exact es
    | fail s1 e => exact es
    | ok s1 nb => exact es.1

/-- continue after a complete step with a method on the buffer the handle holds then -/
theorem OpOK.andThen {amb : List Nat} {s : State} {r : Out Unit} (h : OpOK amb s r) (f : State → Out Unit)
    (hf : ∀ s1, Step amb s s1 → OpOK amb s1 (f s1)) :
    OpOK amb s (match r with
      | .ok s1 _ => f s1
      | .fail s1 e => .fail s1 e
      | .fault w => .fault w) := by
  cases r with
  | fault w => exact h
  | fail s1 e => exact h
  | ok s1 u =>
    have st : Step amb s s1 := h
    have := hf s1 st
    show OpOK amb s (f s1)
    generalize f s1 = r2 at this ⊢
    cases r2 with
    | fault w => exact this
    | fail s2 e => exact st.trans this
    | ok s2 u => exact st.trans this

/-- `unique_array::resize(len)` -/
theorem uResize_ok {amb : List Nat} {s : State} (gs : GoodS amb s) {h : Nat} (hlt : h < s.hs.length) (k : XKind) (mt : Managed k.t) (len : Nat) :
    OpOK amb s (uResize s h k len) := by
  unfold uResize
  refine (uReserve_ok gs hlt k mt len).andThen (fun s1 => match s1.handle h with
    | none => .ok s1 ()
    | some b => contentSetLength s1 b len k.t.size) (fun s1 st => ?_)
  cases hh : s1.handle h with
  | none => exact Step.refl st.good
  | some b =>
    obtain ⟨x, hb⟩ := st.good.inv.live h b hh
    exact contentSetLength_ok st.good hb _ _

/-- `detach()` + `buffer::trim` -/
theorem xTrim_ok {amb : List Nat} {s : State} (gs : GoodS amb s) {h : Nat} (hlt : h < s.hs.length) (k : XKind) (mt : Managed k.t) (n : Nat) :
    OpOK amb s (xTrim s h k n) := by
  unfold xTrim
  refine (uDetach_ok gs hlt k mt).andThen (fun s1 => match s1.handle h with
    | none => .fail s1 .null
    | some b => bufTrim s1 b (n * k.t.size)) (fun s1 st => ?_)
  cases hh : s1.handle h with
  | none => exact Step.refl st.good
  | some b =>
    obtain ⟨x, hb⟩ := st.good.inv.live h b hh
    exact bufTrim_ok st.good hb _

/-- `detach()` + `buffer::skip` -/
theorem xSkip_ok {amb : List Nat} {s : State} (gs : GoodS amb s) {h : Nat} (hlt : h < s.hs.length) (k : XKind) (mt : Managed k.t) (n : Nat) :
    OpOK amb s (xSkip s h k n) := by
  unfold xSkip
  refine (uDetach_ok gs hlt k mt).andThen (fun s1 => match s1.handle h with
    | none => .fail s1 .null
    | some b => bufSkip s1 b (n * k.t.size)) (fun s1 st => ?_)
  cases hh : s1.handle h with
  | none => exact Step.refl st.good
  | some b =>
    obtain ⟨x, hb⟩ := st.good.inv.live h b hh
    exact bufSkip_ok st.good hb _

/-- placement construction by the caller = one round of the caller's construction loop -/
theorem placeElem_eq (s : State) (h nb p : Nat) (k : XKind) (val : Option (List Byte)) (mt : Managed k.t) :
    placeElem s h nb p k val none = ctorLoop 1 s nb p k.t.size := by
  unfold placeElem
  rw [if_pos ⟨mt.1, mt.2.1⟩]
  simp only [ctorLoop]
  cases initAt { s with oracle := [] } nb p k.t.size none <;> rfl

/-- `unique_array::reserve(len)` on a typed array: afterwards the handle holds a buffer of its element type -/
theorem uReserve_typed {amb : List Nat} {s : State} (gs : GoodS amb s) {h : Nat} (hlt : h < s.hs.length) (k : XKind) (mt : Managed k.t)
    (hk : ∀ b x, s.handle h = some b → s.buf? b = some x → x.traits = some k.t) (len : Nat) :
    match uReserve s h k len with
    | .fault _ => False
    | .fail s1 _ => Step amb s s1
    | .ok s1 _ => Step amb s s1 ∧ ∃ nb z, s1.handle h = some nb ∧ s1.buf? nb = some z ∧ z.traits = some k.t := by
  unfold uReserve
  cases hh : s.handle h with
  | none =>
    simp only
    obtain ⟨st, hz⟩ := attach_managed_step gs hlt hh (len * k.t.size - len * k.t.size % k.t.size) (if k.unique then 2 else 0) k.t mt
    refine ⟨st, s.bufs.length, _, ?_, hz, rfl⟩
    simp only [xCreate]
    exact State.handle_setHandle _ h h _ (by simpa using hlt) |>.trans (by simp)
  | some b =>
    simp only
    obtain ⟨x, hb⟩ := gs.inv.live h b hh
    have xt := hk b x hh hb
    have es := ensure_step gs hh hb xt true (len * k.t.size)
    generalize ensure s h b true (len * k.t.size) = r at es
    cases r with
    | fault w => exact es
    | fail s1 e => exact es
    | ok s1 nb =>
      obtain ⟨st, hh1, z, hz, zt, _⟩ := es
      exact ⟨st, nb, z, hh1, hz, zt⟩

/-- placement copy construction by the caller (never refused): one element built from the source token `src` -/
theorem placeCopy_built {s : State} {nb : Nat} {x : Buf} (h p : Nat) (k : XKind) (val : Option (List Byte)) (src : Nat)
    (mt : Managed k.t) (hb : s.buf? nb = some x) (fit : (p + 1) * k.t.size ≤ x.size) :
    ∃ s1 d', placeElem s h nb (p * k.t.size) k val (some src) = .ok s1 () ∧ Built s s1 nb x k.t.size p 1 [src] d' x.used := by
  have h4 := mt.2.2
  have e2 : (p + 1) * k.t.size = p * k.t.size + k.t.size := by rw [Nat.add_mul]; simp
  have f1 : p * k.t.size + k.t.size ≤ x.size := by rw [← e2]; exact fit
  have f1' : (p + 1) * k.t.size ≤ x.data.length := by simp only [Buf.size] at fit; exact fit
  unfold placeElem
  rw [if_pos ⟨mt.1, mt.2.1⟩]
  have hb0 : ({ s with oracle := [] } : State).buf? nb = some x := hb
  rcases initAt_cases (some src) hb0 f1 with ⟨s1, he, fr, hb1, n1, l1, o1⟩ | ⟨s1, he, fr, hb1, n1, l1, o1⟩
  · cases o1
  · rw [he]
    simp only
    have wl := construct_length x.data k.t.size p s.next h4 f1'
    refine ⟨_, _, rfl, ⟨⟨fr.hs, fr.wins, fr.len, fr.other⟩, hb1, wl, n1, ⟨[Ev.copy s.next src], ?_, ?_⟩, ?_, ?_⟩⟩
    · show s1.log = _; rw [l1]; rfl
    · exact Creates.copy (by simp) (Creates.nil _)
    · intro j hj
      exact slot_construct_other x.data k.t.size p s.next h4 f1' j (by omega)
    · intro small j h1 h2
      have e : j = p := by omega
      have sm : s.next < tokLimit := by
        have : s1.next ≤ tokLimit := small
        rw [n1] at this
        have : ({ s with oracle := [] } : State).next = s.next := rfl
        omega
      rw [e, slot_construct_same x.data k.t.size p s.next h4 f1' sm]; omega

/-- `unique_array::insert(pos)` / `typed_array::insert(pos, val)`: reserve, `mpt_buffer_insert` of one element,
    placement construction — default, or a copy of an element the caller holds (`copySrc`, an ambient live token) -/
theorem uInsert_ok {amb : List Nat} {s : State} (gs : GoodS amb s) {h : Nat} (hlt : h < s.hs.length) (k : XKind) (mt : Managed k.t)
    (hk : ∀ b x, s.handle h = some b → s.buf? b = some x → x.traits = some k.t)
    (pos : Int) (val : Option (List Byte)) (copySrc : Option Nat) (hsrc : ∀ c, copySrc = some c → c ∈ amb) :
    OpOK amb s (uInsert s h k pos val copySrc) := by
  have h4 := mt.2.2
  have szp : 0 < k.t.size := by omega
  unfold uInsert
  cases insertPos (xLength s h k) pos with
  | none => exact Step.refl gs
  | some pn =>
    obtain ⟨p, need⟩ := pn
    simp only
    have ur := uReserve_typed gs hlt k mt hk need
    generalize uReserve s h k need = r at ur
    cases r with
    | fault w => exact ur
    | fail s1 e => exact ur
    | ok s1 u =>
      obtain ⟨st, nb, z, hh1, hz, zt⟩ := ur
      simp only [hh1]
      obtain ⟨t', n, zt', _, hu, hsz⟩ := (st.good.inv.good nb z hz).elems
      have te : t' = k.t := by rw [zt] at zt'; cases zt'; rfl
      subst te
      rcases bufferInsert_managed hz zt mt hu hsz (p * k.t.size) k.t.size with ⟨e, he⟩ | ⟨_, e0, _⟩ | ⟨p', l, s2, z', ep, el, fit, he, ins⟩ |
        ⟨p', m, s2, z', ep, nm, pfit, he, fr, hb', r, _, tr, dl, u', n', lg, lo, inn⟩
      · rw [he]; exact st
      · omega
      · rw [he]
        simp only
        have e1 : p' = p := (Nat.eq_of_mul_eq_mul_right szp ep).symm
        have e2 : l = 1 := by
          have : 1 * k.t.size = l * k.t.size := by rw [Nat.one_mul]; exact el
          exact (Nat.eq_of_mul_eq_mul_right szp this).symm
        subst e1; subst e2
        have fit' : (p' + 1) * k.t.size ≤ z'.size := by
          have : (p' + 1) * k.t.size ≤ (max n p' + 1) * k.t.size := Nat.mul_le_mul_right _ (by omega)
          simp only [Buf.size, ins.len]; simp only [Buf.size] at fit; omega
        cases copySrc with
        | none =>
          rw [placeElem_eq _ _ _ _ _ _ mt]
          obtain ⟨s3, d', ec, bt, _⟩ := ctorLoop_spec 1 s2 nb p' k.t.size z' ins.buf h4 fit'
          rw [ec]
          exact st.trans (insert_fill_step st.good hz zt mt hu ins fit bt (fun _ hk => by cases hk) (Or.inl ⟨rfl, rfl⟩))
        | some src =>
          obtain ⟨s3, d', ec, bt⟩ := placeCopy_built h p' k val src mt ins.buf fit'
          rw [ec]
          exact st.trans (insert_fill_step st.good hz zt mt hu ins fit bt
            (fun c hc => by simp only [List.mem_singleton] at hc; rw [hc]; exact hsrc src rfl) (Or.inl ⟨rfl, rfl⟩))
      · rw [he]
        have ufit : (n + m) * k.t.size ≤ z'.size := by
          simp only [Buf.size, dl]
          have : (n + m) * k.t.size ≤ p' * k.t.size := Nat.mul_le_mul_right _ (by omega)
          simp only [Buf.size] at pfit; omega
        exact st.trans (append_step st.good hz zt mt hu fr hb' r tr u' ufit n' lg lo inn)

/-- `Elem val; insert(pos, val)`: the temporary source element around the call -/
theorem uInsertE_ok {s : State} (gs : GoodS [] s) {h : Nat} (hlt : h < s.hs.length) (k : XKind) (mt : Managed k.t)
    (hk : ∀ b x, s.handle h = some b → s.buf? b = some x → x.traits = some k.t) (pos : Int) :
    OpOK [] s (uInsertE s h k pos) := by
  unfold uInsertE
  have gI := goodS_sourcesInit gs 1
  have inner := uInsert_ok gI (h := h) hlt k mt hk pos none (some s.next)
    (by intro c e; cases e; simp [seqFrom])
  generalize uInsert (sourcesInit s 1) h k pos none (some s.next) = r at inner
  cases r with
  | fault w => exact inner
  | fail s' e => exact step_sources_wrap gs 1 s' inner
  | ok s' v => exact step_sources_wrap gs 1 s' inner

theorem OpOK.unit {α : Type} {amb : List Nat} {s : State} {r : Out α} (h : OpOK amb s r) : OpOK amb s r.unit := by
  cases r <;> exact h

/-- `~reference()` -/
theorem refDrop_ok {amb : List Nat} {s : State} (gs : GoodS amb s) {h : Nat} (hlt : h < s.hs.length) : OpOK amb s (refDrop s h) := by
  unfold refDrop
  have := clone_ok gs hlt none
  unfold arrayClone at this
  exact this.unit

/-- `reference<T>::operator=`: the handle shares the buffer of `src` -/
theorem refAssign_ok {amb : List Nat} {s : State} (gs : GoodS amb s) {dst : Nat} (hlt : dst < s.hs.length) (src : Nat) :
    OpOK amb s (refAssign s dst src) := by
  unfold refAssign
  split
  · exact Step.refl gs
  · rename_i diff
    cases hs : s.handle src with
    | none =>
      simp only
      exact (replaceBuf_ok gs hlt none (by intro a e; cases e) (by rw [← hs]; exact fun e => diff e.symm) rfl rfl rfl rfl rfl (by intro c; simp)).unit
    | some a =>
      simp only
      obtain ⟨x, ha⟩ := gs.inv.live src a hs
      have alt := State.buf?_lt ha
      have r := gs.inv.ref a x ha
      unfold addref
      rw [ha]
      have r0 : ¬ x.ref = 0 := by omega
      simp only [r0, if_false]
      have key := replaceBuf_ok (s1 := s.setBuf a { x with ref := x.ref + 1 }) gs hlt (some a)
        (by intro a' e; cases e; exact ⟨x, ha⟩) (by rw [← hs]; exact fun e => diff e.symm) rfl (by simp) rfl rfl rfl
        (by
          intro c
          rw [State.buf?_setBuf _ _ _ _ alt]
          by_cases ca : c = a
          · subst ca; simp [ha]
          · have : ¬ some a = some c := by intro e; cases e; exact ca rfl
            simp [ca, this])
      have nz : x.ref + 1 ≠ 0 := by omega
      generalize x.ref + 1 = k at nz key
      cases k with
      | zero => exact absurd rfl nz
      | succ k => exact key.unit

/-! ### the C++ operations as an alphabet -/

/-- operations of `typed_array<T>` / `unique_array<T>` (element kind `k`) as the harness performs them -/
inductive XEOp where
  | resize (h n : Nat)
  | trim (h n : Nat)                                      -- detach() + buffer::trim
  | skip (h n : Nat)                                      -- detach() + buffer::skip
  | insert (h : Nat) (pos : Int) (val : Option (List Byte))   -- insert(pos): default / placement construction
  | insertCopy (h : Nat) (pos : Int)                      -- `T val; insert(pos, val)`
  | reserve (h n : Nat)
  | detach (h : Nat)
  | assign (dst src : Nat)                                -- operator= / copy construction
  | drop (h : Nat)                                        -- destruction

def XEOp.handle : XEOp → Nat
  | .resize h _ | .trim h _ | .skip h _ | .insert h _ _ | .insertCopy h _ | .reserve h _ | .detach h | .assign h _ | .drop h => h

def execXE (s : State) (k : XKind) : XEOp → Out Unit
  | .resize h n => uResize s h k n
  | .trim h n => xTrim s h k n
  | .skip h n => xSkip s h k n
  | .insert h pos val => uInsert s h k pos val none
  | .insertCopy h pos => uInsertE s h k pos
  | .reserve h n => uReserve s h k n
  | .detach h => uDetach s h k
  | .assign d src => refAssign s d src
  | .drop h => refDrop s h

/-- the handle exists and its buffer (if any) has the array's element type -/
def XEOp.pre (s : State) (k : XKind) (op : XEOp) : Prop :=
  op.handle < s.hs.length ∧ Managed k.t ∧ ∀ b x, s.handle op.handle = some b → s.buf? b = some x → x.traits = some k.t

theorem execXE_ok {s : State} (gs : GoodS [] s) (k : XKind) (op : XEOp) (pre : op.pre s k) : OpOK [] s (execXE s k op) := by
  obtain ⟨hlt, mt, hk⟩ := pre
  cases op with
  | resize h n => exact uResize_ok gs hlt k mt n
  | trim h n => exact xTrim_ok gs hlt k mt n
  | skip h n => exact xSkip_ok gs hlt k mt n
  | insert h pos val => exact uInsert_ok gs hlt k mt hk pos val none (by intro c e; cases e)
  | insertCopy h pos => exact uInsertE_ok gs hlt k mt hk pos
  | reserve h n => exact uReserve_ok gs hlt k mt n
  | detach h => exact uDetach_ok gs hlt k mt
  | assign d src => exact refAssign_ok gs hlt src
  | drop h => exact refDrop_ok gs hlt

/-- histories that mix the C operations (`EOp`) and the C++ operations (`XEOp`, each with its element kind) -/
inductive HistX : State → List (EOp ⊕ (XKind × XEOp)) → State → Prop where
  | nil (s : State) : HistX s [] s
  | c {s s1 s2 : State} {op : EOp} {ops} : op.pre s → (execE s op = .ok s1 () ∨ ∃ e, execE s op = .fail s1 e) → HistX s1 ops s2 →
      HistX s (.inl op :: ops) s2
  | x {s s1 s2 : State} {k : XKind} {op : XEOp} {ops} : op.pre s k → (execXE s k op = .ok s1 () ∨ ∃ e, execXE s k op = .fail s1 e) →
      HistX s1 ops s2 → HistX s (.inr (k, op) :: ops) s2

theorem HistX.step {s s' : State} {ops} (hi : HistX s ops s') (gs : GoodS [] s) : Step [] s s' := by
  induction hi with
  | nil s => exact Step.refl gs
  | c pre he _ ih =>
    have := execE_ok gs _ pre
    rcases he with he | ⟨e, he⟩ <;> (rw [he] at this; exact Step.trans this (ih this.good))
  | x pre he _ ih =>
    have := execXE_ok gs _ _ pre
    rcases he with he | ⟨e, he⟩ <;> (rw [he] at this; exact Step.trans this (ih this.good))

end Mpt.Heap
