/-
  Return code 0 ("end of input, nothing more to deliver") of the element functions: it is only ever
  produced where the source returned the regular end marker -2.  A source that reports a read error
  (-1, or any other end marker) can therefore not make `mpt_parse_config` return success.
-/
import MptModel.Lemmas.ParseLoop

namespace Mpt.Parse
open Mpt

/-- a result whose code is 0 only for the regular end marker -/
def NZ (cfg : Cfg) (o : Out) : Prop := o.1 = 0 → cfg.eof = -2

theorem nz_of_ne (cfg : Cfg) (o : Out) (h : o.1 ≠ 0) : NZ cfg o := fun h0 => absurd h0 h

theorem err_ne (e : Err) (s : St) (src : Src) : (err e s src).1 ≠ 0 := by
  have := Err.code_neg e
  simp only [err]; omega

theorem nameThenData_ne (cfg : Cfg) (s : St) (src : Src) (e : Err) : (nameThenData cfg s src e).1 ≠ 0 := by
  unfold nameThenData
  split
  · exact err_ne _ _ _
  · simp only []
    split
    · rename_i h; omega
    · split
      · simp [Flag.option]
      · simp [Flag.option, Flag.data]

theorem optFinish_ne (cfg : Cfg) (s : St) (src : Src) : (optFinish cfg s src).1 ≠ 0 := by
  unfold optFinish
  simp only []
  split
  · exact err_ne _ _ _
  · simp [Flag.data]

def OptExit.nz : OptExit → Prop
  | .ret code _ => code ≠ 0
  | _ => True

theorem optBody_done_nz (cfg : Cfg) (s : St) (c : UInt8) (r : OptExit) (h : optBody cfg s c = .done r) : r.nz := by
  unfold optBody at h
  simp only [] at h
  (repeat' split at h) <;> cases h <;> simp [OptExit.nz, Err.code]

theorem optExit_ne (cfg : Cfg) (x : OptExit) (src : Src) (h : x.nz) : (optExit cfg x src).1 ≠ 0 := by
  unfold optExit
  split
  · exact h
  · exact nameThenData_ne _ _ _ _
  · exact optFinish_ne _ _ _
  · exact optFinish_ne _ _ _

theorem parseOption_nz (cfg : Cfg) (s : St) (src : Src) : NZ cfg (parseOption cfg s src) := by
  unfold parseOption
  simp only []
  split
  · split
    · exact nz_of_ne _ _ (err_ne _ _ _)
    · rename_i he
      split
      · exact nz_of_ne _ _ (err_ne _ _ _)
      · intro _; simpa using he
  · split
    · exact nz_of_ne _ _ (err_ne _ _ _)
    · split
      · rename_i x hx
        exact nz_of_ne _ _ (optExit_ne _ _ _ (optBody_done_nz _ _ _ _ hx))
      · refine nz_of_ne _ _ (optExit_ne _ _ _ ?_)
        refine scan_inv _ _ (fun _ => True) (fun r : OptExit => r.nz) ?_ ?_ ?_ _ _ trivial
        · intros; trivial
        · intro s' c' r _ hs; exact optBody_done_nz _ _ _ _ hs
        · intro s' _
          simp only [OptExit.nz]
          split <;> simp [Err.code]

/-! ### `mpt_parse_format_pre` -/

theorem preFinish_ne (cfg : Cfg) (s : St) (c : Option UInt8) (src : Src) : (preFinish cfg s c src).1 ≠ 0 := by
  unfold preFinish
  simp only []
  split
  · split
    · exact err_ne _ _ _
    · simp [Flag.section_]
  · split
    · split
      · exact err_ne _ _ _
      · simp [Flag.data]
    · exact err_ne _ _ _

def PreExit.nz : PreExit → Prop
  | .ret code _ => code ≠ 0
  | _ => True

theorem preBody_done_nz (cfg : Cfg) (s : St) (c : UInt8) (r : PreExit) (h : preBody cfg s c = .done r) : r.nz := by
  unfold preBody at h
  simp only [] at h
  (repeat' split at h) <;> cases h <;> simp [PreExit.nz, Flag.sectEnd]

theorem preExit_nz (cfg : Cfg) (x : PreExit) (src : Src) (h : x.nz) : NZ cfg (preExit cfg x src) := by
  unfold preExit
  split
  · exact nz_of_ne _ _ h
  · exact parseOption_nz _ _ _
  · exact nz_of_ne _ _ (nameThenData_ne _ _ _ _)
  · exact nz_of_ne _ _ (preFinish_ne _ _ _ _)
  · exact nz_of_ne _ _ (preFinish_ne _ _ _ _)
  · split
    · exact nz_of_ne _ _ (preFinish_ne _ _ _ _)
    · exact nz_of_ne _ _ (preFinish_ne _ _ _ _)

theorem parseFormatPre_nz (cfg : Cfg) (s : St) (src : Src) : NZ cfg (parseFormatPre cfg s src) := by
  unfold parseFormatPre
  simp only []
  split
  · split
    · exact nz_of_ne _ _ (err_ne _ _ _)
    · rename_i he
      split
      · intro _; simpa using he
      · exact nz_of_ne _ _ (err_ne _ _ _)
  · split
    · split
      · exact nz_of_ne _ _ (err_ne _ _ _)
      · exact nz_of_ne _ _ (by simp [Flag.section_])
    · split
      · rename_i x hx
        exact preExit_nz _ _ _ (preBody_done_nz _ _ _ _ hx)
      · refine preExit_nz _ _ _ ?_
        refine scan_inv _ _ (fun _ => True) (fun r : PreExit => r.nz) ?_ ?_ ?_ _ _ trivial
        · intros; trivial
        · intro s' c' r _ hs; exact preBody_done_nz _ _ _ _ hs
        · intro s' _; trivial

/-! ### `mpt_parse_format_enc` -/

theorem encFinish_ne (cfg : Cfg) (s : St) (src : Src) : (encFinish cfg s src).1 ≠ 0 := by
  unfold encFinish
  split
  · exact err_ne _ _ _
  · simp [Flag.section_]

def EncExit.nz : EncExit → Prop
  | .ret code _ => code ≠ 0
  | _ => True

theorem encStep_done_nz (f : Format) (s : St) (c : UInt8) (r : EncExit) (h : encStep f s c = .done r) : r.nz := by
  unfold encStep at h
  simp only [] at h
  (repeat' split at h) <;> cases h <;> simp [EncExit.nz, Err.code]

theorem encSection_ne (cfg : Cfg) (s : St) (src : Src) : (encSection cfg s src).1 ≠ 0 := by
  unfold encSection
  simp only []
  split
  · exact err_ne _ _ _
  · rename_i c s1 src1 h
    split
    · exact err_ne _ _ _
    · have hscan := scan_inv (encStep cfg.fmt) (fun s => EncExit.ret Err.MissingData.code s)
        (fun _ => True) (fun r : EncExit => r.nz)
        (by intros; trivial)
        (by intro s' c' r _ hs; exact encStep_done_nz _ _ _ _ hs)
        (by intro s' _; simp [EncExit.nz, Err.code]) src1
        ({ s1 with curr := Flag.section_ ||| Flag.name, path := s1.path.addchar c }).markValid trivial
      split
      · rename_i code s3 hx
        rw [hx] at hscan
        exact hscan
      · exact encFinish_ne _ _ _
      · exact encFinish_ne _ _ _

theorem encOption_nz (cfg : Cfg) (s : St) (c : UInt8) (src : Src) : NZ cfg (encOption cfg s c src) := by
  unfold encOption
  simp only []
  split
  · split
    · exact nz_of_ne _ _ (err_ne _ _ _)
    · exact parseOption_nz _ _ _
  · exact parseOption_nz _ _ _

theorem parseFormatEnc_nz (cfg : Cfg) (prev : Nat) (s : St) (src : Src) :
    NZ cfg (parseFormatEnc cfg prev s src) := by
  unfold parseFormatEnc
  simp only []
  split
  · split
    · exact nz_of_ne _ _ (encSection_ne _ _ _)
    · split
      · split
        · exact nz_of_ne _ _ (err_ne _ _ _)
        · rename_i he; intro _; simpa using he
      · split
        · exact nz_of_ne _ _ (by simp [Flag.sectEnd])
        · split
          · exact encOption_nz _ _ _ _
          · exact nz_of_ne _ _ (encSection_ne _ _ _)
  · split
    · split
      · rename_i he
        intro _
        simp only [Bool.and_eq_true, beq_iff_eq] at he
        exact he.2
      · exact nz_of_ne _ _ (err_ne _ _ _)
    · split
      · exact nz_of_ne _ _ (by simp [Flag.sectEnd])
      · split
        · exact encOption_nz _ _ _ _
        · exact nz_of_ne _ _ (encSection_ne _ _ _)

/-! ### `mpt_parse_format_sep` -/

theorem sepExit_ne (cfg : Cfg) (x : SepExit) (src : Src) : (sepExit cfg x src).1 ≠ 0 := by
  unfold sepExit
  split
  · simp only []
    split
    · exact err_ne _ _ _
    · simp [Flag.section_]
  · exact err_ne _ _ _

theorem sepName_ne (cfg : Cfg) (s : St) (c : UInt8) (src : Src) : (sepName cfg s c src).1 ≠ 0 := by
  unfold sepName
  split
  · exact sepExit_ne _ _ _
  · exact sepExit_ne _ _ _

theorem sepFirst_ne (cfg : Cfg) (s : St) (src : Src) : (sepFirst cfg s src).1 ≠ 0 := by
  unfold sepFirst
  simp only []
  split
  · split
    · exact err_ne _ _ _
    · exact sepName_ne _ _ _ _
  · exact sepName_ne _ _ _ _

theorem parseFormatSep_nz (cfg : Cfg) (prev : Nat) (s : St) (src : Src) :
    NZ cfg (parseFormatSep cfg prev s src) := by
  unfold parseFormatSep
  simp only []
  split
  · exact nz_of_ne _ _ (sepFirst_ne _ _ _)
  · split
    · split
      · rename_i he; intro _; simpa using he
      · exact nz_of_ne _ _ (err_ne _ _ _)
    · split
      · split
        · exact parseOption_nz _ _ _
        · exact parseOption_nz _ _ _
      · split
        · exact nz_of_ne _ _ (by simp [Flag.sectEnd])
        · exact nz_of_ne _ _ (sepFirst_ne _ _ _)

/-- **code 0 needs the regular end marker**: every element function -/
theorem next_nz (k : Kind) (cfg : Cfg) (prev : Nat) (s : St) (src : Src) : NZ cfg (next k cfg prev s src) := by
  cases k
  · exact parseFormatPre_nz _ _ _
  · exact parseFormatEnc_nz _ _ _ _
  · exact parseFormatSep_nz _ _ _ _
  · exact parseOption_nz _ _ _

/-- the return code of `mpt_parse_config` is never positive, and 0 only with the regular end marker -/
theorem loop_code {α : Type} (k : Kind) (cfg : Cfg) (save : Handler α) (ctx : α) (prev : Nat) (s : St) (src : Src) :
    (loop k cfg save ctx prev s src).code ≤ 0 ∧ ((loop k cfg save ctx prev s src).code = 0 → cfg.eof = -2) := by
  refine loop_induction k cfg save (fun _ _ _ _ => True) (fun r => r.code ≤ 0 ∧ (r.code = 0 → cfg.eof = -2))
    ?_ ?_ ?_ ?_ (measure prev src) ctx prev s src (Nat.le_refl _) trivial
  · intro ctx prev s src _ hn
    exact ⟨by simp only; omega, fun h0 => next_nz k cfg prev s src h0⟩
  · intro ctx prev s src _ _ _
    exact ⟨by simp only; decide, fun h => by simp only at h; cases h⟩
  · intro ctx prev s src ctx1 e _ _ _ _
    have : Err.MissingData.code < 0 := Err.code_neg _
    exact ⟨by simp only; omega, fun h => by simp only at h; omega⟩
  · intros; trivial

/-! ### a refusing handler against the accepting one -/

/-- the events recorded by the accepting handler only grow -/
theorem loop_ctx_suffix (k : Kind) (cfg : Cfg) (evs : List Events.Event) (prev : Nat) (s : St) (src : Src) :
    ∃ l, (loop k cfg (record none) evs prev s src).ctx = l ++ evs := by
  refine loop_induction k cfg (record none) (fun evs' _ _ _ => ∃ l, evs' = l ++ evs)
    (fun r => ∃ l, r.ctx = l ++ evs) ?_ ?_ ?_ ?_ (measure prev src) evs prev s src (Nat.le_refl _) ⟨[], rfl⟩
  · intro ctx _ _ _ hp _; exact hp
  · intro ctx _ _ _ hp _ _; exact hp
  · intro ctx prev' s' src' ctx1 e hp _ hs _
    obtain ⟨l, hl⟩ := hp
    simp only [record] at hs
    split at hs
    · cases hs
    · simp only [Option.some.injEq] at hs; rw [← hs, hl]; exact ⟨_ :: l, rfl⟩
  · intro ctx prev' s' src' ctx1 p hp _ hs _
    obtain ⟨l, hl⟩ := hp
    simp only [record] at hs
    split at hs
    · cases hs
    · simp only [Option.some.injEq] at hs; rw [← hs, hl]; exact ⟨_ :: l, rfl⟩

/-- the handler that refuses its call number `n` (counted from 0) against the handler that accepts
    everything: when the accepting run makes at most `n` calls both runs are the same; otherwise the
    refusing run returns -0x80 with exactly the `n` events delivered before -/
theorem loop_refuse (k : Kind) (cfg : Cfg) (n : Nat) :
    ∀ (m : Nat) (evs : List Events.Event) (prev : Nat) (s : St) (src : Src), measure prev src ≤ m → evs.length ≤ n →
      ((loop k cfg (record none) evs prev s src).ctx.length ≤ n →
          loop k cfg (record (some n)) evs prev s src = loop k cfg (record none) evs prev s src)
      ∧ (n < (loop k cfg (record none) evs prev s src).ctx.length →
          (loop k cfg (record (some n)) evs prev s src).code = -128
          ∧ (loop k cfg (record (some n)) evs prev s src).ctx.length = n
          ∧ ∃ l, (loop k cfg (record none) evs prev s src).ctx = l ++ (loop k cfg (record (some n)) evs prev s src).ctx) := by
  intro m
  induction m with
  | zero =>
    intro evs prev s src hm hlen
    have h : ¬ 0 < (next k cfg prev s src).1 := by
      intro h; have := next_measure k cfg prev s src h; omega
    rw [loop_nonpos _ _ _ _ _ _ _ h, loop_nonpos _ _ _ _ _ _ _ h]
    exact ⟨fun _ => rfl, fun hh => by simp only at hh; omega⟩
  | succ m ih =>
    intro evs prev s src hm hlen
    by_cases h : 0 < (next k cfg prev s src).1
    · have hlt := next_measure k cfg prev s src h
      by_cases hn : evs.length = n
      · -- this call is refused
        have hr : loop k cfg (record (some n)) evs prev s src
            = { code := -128, ctx := evs, st := (next k cfg prev s src).2.1, prev := prev,
                src := (next k cfg prev s src).2.2 } := by
          rw [loop_pos _ _ _ _ _ _ _ h]
          simp [record, hn]
        have h0 : ∃ l, (loop k cfg (record none) evs prev s src).ctx = l ++ evs ∧ 0 < l.length := by
          rw [loop_pos _ _ _ _ _ _ _ h]
          simp only [record]
          have hne : ((none : Option Nat) == some evs.length) = false := rfl
          simp only [hne, Bool.false_eq_true, ↓reduceIte]
          split
          · exact ⟨[_], rfl, by simp⟩
          · obtain ⟨l, hl⟩ := loop_ctx_suffix k cfg (mkEvent (next k cfg prev s src).1 (next k cfg prev s src).2.1 :: evs)
              (next k cfg prev s src).2.1.curr _ (next k cfg prev s src).2.2
            exact ⟨l ++ [mkEvent (next k cfg prev s src).1 (next k cfg prev s src).2.1], by rw [hl]; simp, by simp⟩
        obtain ⟨l, hl, hpos⟩ := h0
        refine ⟨fun hh => ?_, fun _ => ?_⟩
        · rw [hl] at hh; simp only [List.length_append] at hh; omega
        · rw [hr]; exact ⟨rfl, hn, l, hl⟩
      · -- this call is accepted by both
        have hne1 : ((some n : Option Nat) == some evs.length) = false := by
          simp only [beq_eq_false_iff_ne, ne_eq, Option.some.injEq]; omega
        have hne0 : ((none : Option Nat) == some evs.length) = false := rfl
        rw [loop_pos _ _ _ _ _ _ _ h, loop_pos _ _ _ _ _ _ _ h]
        simp only [record, hne1, hne0, Bool.false_eq_true, ↓reduceIte]
        split
        · exact ⟨fun _ => rfl, fun hh => by simp only [List.length_cons] at hh; omega⟩
        · exact ih _ _ _ _ (by omega) (by simp only [List.length_cons]; omega)
    · rw [loop_nonpos _ _ _ _ _ _ _ h, loop_nonpos _ _ _ _ _ _ _ h]
      exact ⟨fun _ => rfl, fun hh => by simp only at hh; omega⟩

end Mpt.Parse
