/-
  Helper lemmas for C02, encode side (core Lean only): the encoder models of C01 seen through a window that
  shows only a suffix of the finished data (`WInv`), and the placement cases of `mpt_queue_push` on the ring
  model of C13.
-/
import MptModel.Impl.CodedQueue
import MptModel.Lemmas.EncodeZpe
import MptModel.Lemmas.Ring3
namespace Mpt.CQ
open Mpt Mpt.Cobs Mpt.Codec

/-- Window invariant with a hidden head.  The window `win` shows the finished bytes `vis` (a suffix of all
    finished data: earlier bytes may lie outside the window) followed by the open block; `fin` = all
    finished blocks of the message in progress (they may be hidden partly), `ms` = the consumed bytes of the
    message with a cut after every piece. -/
def WInv (v : Variant) (st : EncState) (win vis fin : List Byte) (ms : List (Byte × Bool)) : Prop :=
  ∃ run, st.done = vis.length ∧ run.length + 1 < v.maxlen ∧
    ((st.scratch = 0 ∧ run = [] ∧ fin = [] ∧ ms = [] ∧ win.take st.done = vis ∧ st.done ≤ win.length) ∨
     (st.scratch = run.length + 1 ∧ win.take (st.done + st.scratch) = vis ++ codeOf run :: run ∧
        st.done + st.scratch ≤ win.length)) ∧
    (∀ rest, encB v [] false (ms ++ rest) = fin ++ encB v run false rest)

theorem WInv.bound {v : Variant} {st : EncState} {win vis fin : List Byte} {ms : List (Byte × Bool)}
    (h : WInv v st win vis fin ms) : st.done + st.scratch ≤ win.length ∧ st.done = vis.length := by
  obtain ⟨run, h1, _, h3, _⟩ := h
  rcases h3 with ⟨a, _, _, _, _, f⟩ | ⟨_, _, c⟩ <;> exact ⟨by omega, h1⟩

/-- only the used part of the window matters -/
theorem WInv.congr {v : Variant} {st : EncState} {win win' vis fin : List Byte} {ms : List (Byte × Bool)}
    (h : WInv v st win vis fin ms) (hl : st.done + st.scratch ≤ win'.length)
    (ht : win'.take (st.done + st.scratch) = win.take (st.done + st.scratch)) : WInv v st win' vis fin ms := by
  obtain ⟨run, h1, h2, h3, h4⟩ := h
  refine ⟨run, h1, h2, ?_, h4⟩
  rcases h3 with ⟨a, b, c, d, e, f⟩ | ⟨a, b, c⟩
  · rw [a, Nat.add_zero] at ht hl
    exact Or.inl ⟨a, b, c, d, by rw [ht]; exact e, hl⟩
  · exact Or.inr ⟨a, by rw [ht]; exact b, hl⟩

/-- the visible finished bytes and the open block are the first `done + scratch` bytes of the window -/
theorem WInv.take_vis {v : Variant} {st : EncState} {win vis fin : List Byte} {ms : List (Byte × Bool)}
    (h : WInv v st win vis fin ms) : (win.take (st.done + st.scratch)).take st.done = vis := by
  obtain ⟨run, h1, _, h3, _⟩ := h
  rcases h3 with ⟨a, _, _, _, e, _⟩ | ⟨_, b, _⟩
  · rw [a, Nat.add_zero, List.take_take, Nat.min_self]; exact e
  · rw [b, h1, List.take_left]

/-- a data call on a window: `BadValue` for an empty piece, `MissingBuffer` when the window is used up to the
    last byte, otherwise the consumed part continues the reference encoding and the window keeps its
    size and the visible finished bytes -/
theorem winv_push (v : Variant) (st : EncState) (win vis fin : List Byte) (ms : List (Byte × Bool)) (bytes : List Byte)
    (h : WInv v st win vis fin ms) :
    (bytes = [] ∧ encode (.cobs v) st win (some bytes) = .err .BadValue) ∨
    (encode (.cobs v) st win (some bytes) = .err .MissingBuffer ∧ win.length ≤ st.done + st.scratch + 1) ∨
    ∃ o fin', encode (.cobs v) st win (some bytes) = .ok o ∧ o.win.length = win.length ∧ o.ret ≤ bytes.length ∧
      (st.done + st.scratch + 1 + 2 * bytes.length < win.length → o.ret = bytes.length) ∧ 0 < o.st.scratch ∧
      WInv v o.st o.win (vis ++ fin') (fin ++ fin') (ms ++ markChunk (bytes.take o.ret)) := by
  rw [encode_some]
  obtain ⟨run, h1, h2, h3, h4⟩ := h
  have hm := v.maxlen_cases
  have hsc : st.scratch % 256 = st.scratch := by
    rcases h3 with ⟨a, _⟩ | ⟨a, _⟩ <;> omega
  have hdl : st.done + st.scratch ≤ win.length := by
    rcases h3 with ⟨a, _, _, _, _, f⟩ | ⟨_, _, c⟩ <;> omega
  unfold encodeCobs
  simp only [hsc]
  rw [if_neg (by omega), if_neg (by omega)]
  by_cases hb : bytes.length = 0
  · left; rw [if_pos hb]; exact ⟨List.length_eq_zero_iff.mp hb, rfl⟩
  rw [if_neg hb]
  by_cases hg1 : st.scratch ≠ 0 ∧ win.length - st.done - st.scratch = 0
  · right; left; rw [if_pos hg1]; exact ⟨rfl, by omega⟩
  rw [if_neg hg1]
  by_cases hg2 : st.scratch = 0 ∧ win.length - st.done ≤ 1
  · right; left; rw [if_pos hg2]; exact ⟨rfl, by omega⟩
  rw [if_neg hg2]
  right; right
  -- set up the loop
  have hloop : ∃ ph code, code = (if st.scratch ≠ 0 then st.scratch else 1) ∧ code = run.length + 1 ∧
      win.take (st.done + code) = vis ++ ph :: run ∧ st.done + code < win.length := by
    rcases h3 with ⟨a, b, c, d, e, f⟩ | ⟨a, b, c⟩
    · obtain ⟨ph, hph⟩ := take_succ_ex win st.done (by omega)
      refine ⟨ph, 1, by simp [a], by simp [b], ?_, by omega⟩
      rw [hph, e, b]
    · refine ⟨codeOf run, st.scratch, by simp; omega, a, by rw [b], by omega⟩
  obtain ⟨ph, code, hc1, hc2, hc3, hc4⟩ := hloop
  obtain ⟨o, ho, hp1, hp2, hp3, hp3b, _, fin', run', hp4, hp5, hp6, hp7, hp8, hp9⟩ :=
    encLoopM_spec v bytes.length bytes rfl win (st.done + code) code vis ph run hc3 hc2 hc4 h2
  rw [← hc1, ho]
  have hcode : code ≤ st.scratch + 1 := by rw [hc1]; split <;> omega
  refine ⟨_, fin', rfl, hp1, by simp, ?_, by simp only; omega, ?_⟩
  · intro ha
    have : o.rem = 0 := hp3 (by omega)
    simp [this]
  · refine ⟨run', ?_, hp5, Or.inr ⟨hp4, ?_, ?_⟩, ?_⟩
    · simp only [List.length_append]; omega
    · have : o.dst - o.code + o.code = o.dst := by omega
      simp only [this, hp8]
    · simp only; omega
    · intro rest
      simp only
      rw [List.append_assoc, h4, hp9]; simp

/-- the terminating call on a window: `MissingBuffer` when the delimiter does not fit, otherwise the visible
    finished bytes are followed by the rest of the frame `tail`, and `fin ++ tail` is the reference frame -/
theorem winv_term (v : Variant) (st : EncState) (win vis fin : List Byte) (ms : List (Byte × Bool))
    (h : WInv v st win vis fin ms) :
    (encode (.cobs v) st win none = .err .MissingBuffer ∧ win.length ≤ st.done + st.scratch + 1) ∨
    ∃ o tail, encode (.cobs v) st win none = .ok o ∧ TermPost win vis tail o ∧
      encB v [] false ms ++ [0] = fin ++ tail ∧ tail ≠ [] := by
  obtain ⟨run, h1, h2, h3, h4⟩ := h
  have hsh : Shape st win vis [] run := by
    rcases h3 with ⟨a, b, c, d, e, f⟩ | ⟨a, b, c⟩
    · exact Or.inl ⟨a, b, rfl, e, f⟩
    · exact Or.inr ⟨a, by simpa using b, c⟩
  have henc : encB v [] false ms ++ [0] = fin ++ (finalBlock v run ++ [0]) := by
    have := h4 []
    simp only [List.append_nil] at this
    rw [this]; simp [encB]
  unfold encode
  cases ht : v.tail
  · simp only [ht, Bool.false_eq_true, if_false]
    rcases encodeCobs_term_raw v st win vis [] run (by simp [h1]) h2 hsh with hmb | ⟨o, ho, hpost⟩
    · exact Or.inl hmb
    · refine Or.inr ⟨o, finalBlock v run ++ [0], ho, ?_, henc, by simp⟩
      rw [finalBlock_notail v run ht]
      simpa using hpost
  · simp only [ht, if_true]
    rcases encodeCobsR_term_rawG v ht st win vis [] run (by simp [h1]) h2 hsh with hmb | ⟨o, ho, hpost⟩
    · exact Or.inl hmb
    · exact Or.inr ⟨o, finalBlock v run ++ [0], ho, by simpa using hpost, henc, by simp⟩

/-! ### windows of the ring storage -/

open Ring in
/-- the window `[a, a+n)` of the storage is the image of the logical positions `[k, k+n)` -/
def Maps (r : Ring) (k a n : Nat) : Prop :=
  k + n ≤ r.store.length ∧ a + n ≤ r.store.length ∧ ∀ i, i < n → physIdx r.store.length r.off (k + i) = a + i

open Ring in
/-- clean aligned data: the whole storage -/
theorem Maps.aligned (r : Ring) (h0 : r.off = 0) : Maps r 0 0 r.store.length := by
  refine ⟨by omega, by omega, ?_⟩
  intro i hi
  unfold physIdx; rw [h0]; simp [hi]

open Ring in
/-- upper part: the logical positions behind the lower part `[off, max)` live in `[0, off)` -/
theorem Maps.upper (r : Ring) (h : r.off ≤ r.store.length) : Maps r (r.store.length - r.off) 0 r.off := by
  refine ⟨by omega, by omega, ?_⟩
  intro i hi
  unfold physIdx
  rw [if_neg (by omega)]; omega

open Ring in
/-- lower part: the first logical positions live in `[off, max)` -/
theorem Maps.lower (r : Ring) (h : r.off ≤ r.store.length) : Maps r 0 r.off (r.store.length - r.off) := by
  refine ⟨by omega, by omega, ?_⟩
  intro i hi
  unfold physIdx
  rw [if_pos (by omega)]; omega

open Ring in
/-- the window shows the content from logical position `k` on -/
theorem window_content (r : Ring) (h : r.WF) (k a n : Nat) (hm : Maps r k a n) (hk : k ≤ r.len) (hfit : r.len ≤ k + n) :
    ((r.store.drop a).take n).take (r.len - k) = r.content.drop k := by
  obtain ⟨h1, h2⟩ := h
  obtain ⟨m1, m2, m3⟩ := hm
  apply List.ext_getElem?; intro i
  rw [List.getElem?_take, List.getElem?_take, List.getElem?_drop, List.getElem?_drop, getElem?_content' _ _ h1 h2]
  by_cases hi : i < r.len - k
  · rw [if_pos hi, if_pos (by omega), if_pos (by omega), phys_eq, m3 i (by omega)]
  · rw [if_neg hi, if_neg (by omega)]

open Ring in
/-- storing new window content `w'` and setting the length: the first `k` bytes of the content stay, the
    window content follows -/
theorem content_splice (r : Ring) (h : r.WF) (k a n : Nat) (hm : Maps r k a n) (w' : List Byte) (hw : w'.length = n)
    (len' : Nat) (hk : k ≤ r.len) (hl1 : k ≤ len') (hl2 : len' ≤ k + n) :
    ({ r with store := r.store.take a ++ w' ++ r.store.drop (a + n), len := len' } : Ring).content
      = r.content.take k ++ w'.take (len' - k) := by
  subst hw
  obtain ⟨h1, h2⟩ := h
  obtain ⟨m1, m2, m3⟩ := hm
  have hsl : (r.store.take a ++ w' ++ r.store.drop (a + w'.length)).length = r.store.length := by
    simp only [List.length_append, List.length_take, List.length_drop]; omega
  have hcl := content_length r h1 h2
  have hsp := fun i => getElem?_spliced r.store w' a i (by omega)
  apply List.ext_getElem?; intro i
  rw [getElem?_content' _ _ (by simp only [hsl]; omega) (by simp only [hsl]; exact h2)]
  simp only [hsl]
  rw [List.getElem?_append, List.length_take, hcl, Nat.min_eq_left hk, List.getElem?_take, List.getElem?_take,
    getElem?_content' _ _ h1 h2]
  by_cases hik : i < k
  · rw [if_pos hik, if_pos (by omega), if_pos hik, if_pos (by omega), phys_eq, phys_eq, hsl, hsp]
    -- a position in front of the window image is not touched
    have hout : ¬ (a ≤ physIdx r.store.length r.off i ∧ physIdx r.store.length r.off i < a + w'.length) := by
      intro hc
      have hx := m3 (physIdx r.store.length r.off i - a) (by omega)
      have := physIdx_inj r.store.length r.off (k + (physIdx r.store.length r.off i - a)) i h2 (by omega) (by omega) (by omega)
      omega
    by_cases hlt : physIdx r.store.length r.off i < a
    · rw [if_pos hlt]
    · rw [if_neg hlt, if_neg (by omega)]
  · rw [if_neg hik]
    by_cases hil : i < len'
    · rw [if_pos hil, if_pos (by omega), phys_eq, hsl, hsp]
      have hx := m3 (i - k) (by omega)
      rw [show k + (i - k) = i by omega] at hx
      rw [hx, if_neg (by omega), if_pos (by omega)]
      congr 1; omega
    · rw [if_neg hil, if_neg (by omega)]

/-- the window invariant of the content seen through a window that starts at logical position `k` -/
theorem WInv.window {v : Variant} {st : EncState} {content win vis fin : List Byte} {ms : List (Byte × Bool)}
    (h : WInv v st content vis fin ms) (k : Nat) (hk : k ≤ st.done) (hlen : content.length = st.done + st.scratch)
    (hw : win.take (st.done + st.scratch - k) = content.drop k) (hwl : st.done + st.scratch - k ≤ win.length) :
    WInv v { st with done := st.done - k } win (vis.drop k) fin ms := by
  obtain ⟨run, h1, h2, h3, h4⟩ := h
  refine ⟨run, by simp [h1], h2, ?_, h4⟩
  rcases h3 with ⟨a, b, c, d, e, f⟩ | ⟨a, b, c⟩
  · left
    refine ⟨a, b, c, d, ?_, by simp only; omega⟩
    simp only
    rw [a, Nat.add_zero] at hw
    rw [hw, ← e, List.take_of_length_le (by omega)]
  · right
    refine ⟨a, ?_, by simp only; omega⟩
    simp only
    rw [show st.done - k + st.scratch = st.done + st.scratch - k by omega, hw]
    rw [List.take_of_length_le (by omega)] at b
    rw [b, List.drop_append_of_le_length (by omega)]

/-- storage after an encoder call on the window `[a, a+n)` -/
def splice (store : List Byte) (a n : Nat) (w' : List Byte) : List Byte := store.take a ++ w' ++ store.drop (a + n)

theorem splice_length (store : List Byte) (a n : Nat) (w' : List Byte) (hw : w'.length = n) (h : a + n ≤ store.length) :
    (splice store a n w').length = store.length := by
  simp only [splice, List.length_append, List.length_take, List.length_drop, hw]; omega

/-- what a successful window call leaves behind, expressed for the ring with its length brought up to date:
    `k` = number of finished bytes hidden in front of the window -/
structure CallPost (v : Variant) (r : Ring) (k a n : Nat) (vis fin : List Byte) (ms : List (Byte × Bool))
    (st1 : EncState) (w1 : List Byte) : Prop where
  wlen : w1.length = n
  fit : st1.done + k + st1.scratch ≤ k + n
  wf : ({ r with store := splice r.store a n w1, len := st1.done + k + st1.scratch } : Ring).WF
  inv : WInv v { st1 with done := st1.done + k }
    ({ r with store := splice r.store a n w1, len := st1.done + k + st1.scratch } : Ring).content vis fin ms

/-- the content after a call: `k` hidden finished bytes followed by the used part of the window -/
theorem winv_glue {v : Variant} {st1 : EncState} {w1 vis0 fin1 fin1' : List Byte} {ms1 : List (Byte × Bool)}
    (hinv : WInv v st1 w1 (vis0.drop k ++ fin1) fin1' ms1) (hkv : k ≤ vis0.length) (content' : List Byte)
    (hc : content' = vis0.take k ++ w1.take (st1.done + st1.scratch)) :
    WInv v { st1 with done := st1.done + k } content' (vis0 ++ fin1) fin1' ms1 := by
  subst hc
  have hb := hinv.bound
  obtain ⟨run, g1, g2, g3, g4⟩ := hinv
  have hk1 : (vis0.take k).length = k := by rw [List.length_take]; omega
  have hd1 : (vis0.drop k).length + fin1.length = st1.done := by
    rw [g1, List.length_append]
  have hjoin : vis0.take k ++ (vis0.drop k ++ fin1) = vis0 ++ fin1 := by
    rw [← List.append_assoc, List.take_append_drop]
  have hvl : (vis0 ++ fin1).length = st1.done + k := by
    rw [← hjoin, List.length_append, hk1, List.length_append]; omega
  refine ⟨run, by simp only; exact hvl.symm, g2, ?_, g4⟩
  rcases g3 with ⟨a1, b1, c1, d1, e1, f1⟩ | ⟨a1, b1, c1⟩
  · refine Or.inl ⟨a1, b1, c1, d1, ?_, ?_⟩
    · simp only
      rw [a1, Nat.add_zero, e1, hjoin, List.take_of_length_le (by omega)]
    · simp only
      rw [a1, Nat.add_zero, e1, hjoin]; omega
  · right
    rw [b1, ← List.append_assoc, hjoin]
    refine ⟨a1, by simp only; rw [List.take_of_length_le]; rw [List.length_append, hvl, List.length_cons]; omega, ?_⟩
    simp only [List.length_append, hvl, List.length_cons]; omega

open Ring in
/-- from the window invariant of the window to the invariant of the ring content after the call -/
theorem callPost_of (v : Variant) (r : Ring) (h : r.WF) (k a n : Nat) (hm : Maps r k a n) (hk : k ≤ r.len)
    (vis0 vis1 fin1 : List Byte) (ms1 : List (Byte × Bool)) (st1 : EncState) (w1 : List Byte)
    (hvis0 : r.content.take k = vis0.take k) (hkv : k ≤ vis0.length) (hw : w1.length = n)
    {fin1' : List Byte} (hinv : WInv v st1 w1 (vis0.drop k ++ fin1) fin1' ms1) (hvis1 : vis1 = vis0 ++ fin1) :
    CallPost v r k a n vis1 fin1' ms1 st1 w1 := by
  have hb := hinv.bound
  have hfit : st1.done + k + st1.scratch ≤ k + n := by omega
  have hc := content_splice r h k a n hm w1 hw (st1.done + k + st1.scratch) hk (by omega) hfit
  refine ⟨hw, hfit, ?_, ?_⟩
  · have hsl := splice_length r.store a n w1 hw hm.2.1
    unfold WF; simp only [hsl]
    exact ⟨by have := hm.1; omega, h.2⟩
  · unfold splice
    rw [hc, show st1.done + k + st1.scratch - k = st1.done + st1.scratch by omega, hvis0, hvis1]
    exact winv_glue hinv hkv _ rfl

theorem winv_take_k {v : Variant} {st : EncState} {content vis fin : List Byte} {ms : List (Byte × Bool)}
    (h : WInv v st content vis fin ms) (k : Nat) (hk : k ≤ st.done) : content.take k = vis.take k := by
  have := h.take_vis
  rw [List.take_take, Nat.min_eq_left (by omega)] at this
  rw [← this, List.take_take, Nat.min_eq_left hk]

/-- the state between two messages as a window invariant -/
theorem winv_of_term (v : Variant) (win vis tail : List Byte) (o : EncOut) (h : TermPost win vis tail o) :
    WInv v o.st o.win (vis ++ tail) [] [] := by
  obtain ⟨_, h2, _, h4, h5, h6⟩ := h
  have := v.maxlen_cases
  refine ⟨[], h4, by simp; omega, Or.inl ⟨h2, rfl, rfl, rfl, h6, by omega⟩, by simp⟩

open Ring in
/-- **one encoder call with data through a window of the ring storage** (window = image of the logical
    positions from `k` on, the `k` finished bytes in front of it are hidden from the encoder): either the
    call is refused and nothing changes, or the ring content is continued as the reference encoding says -/
theorem encWin_push (v : Variant) (st : EncState) (r : Ring) (k a n : Nat) (vis fin : List Byte)
    (ms : List (Byte × Bool)) (bytes : List Byte) (cons : List Nat)
    (hwf : r.WF) (hlen : st.done + st.scratch = r.len) (hk : k ≤ st.done) (hm : Maps r k a n) (hfit : r.len ≤ k + n)
    (hinv : WInv v st r.content vis fin ms) :
    (∃ e : Err, encWin (.cobs v) { st with done := st.done - k } r a n (some bytes) cons
        = .ok { st := { st with done := st.done - k }, ring := r, push := e.code, cons := cons } ∧
        ((e = .BadValue ∧ bytes = []) ∨ (e = .MissingBuffer ∧ k + n ≤ r.len + 1))) ∨
    ∃ (o : EncOut) (fin' : List Byte), encWin (.cobs v) { st with done := st.done - k } r a n (some bytes) cons
        = .ok { st := o.st, ring := { r with store := splice r.store a n o.win }, push := (o.ret : Nat), cons := cons ++ [o.ret] } ∧
      o.ret ≤ bytes.length ∧ (r.len + 1 + 2 * bytes.length < k + n → o.ret = bytes.length) ∧ 0 < o.st.scratch ∧
      CallPost v r k a n (vis ++ fin') (fin ++ fin') (ms ++ markChunk (bytes.take o.ret)) o.st o.win := by
  have hwl : ((r.store.drop a).take n).length = n := by
    rw [List.length_take, List.length_drop]; have := hm.2.1; omega
  have hcl := content_length r hwf.1 hwf.2
  have hwc := window_content r hwf k a n hm (by omega) hfit
  have hwin := hinv.window (win := (r.store.drop a).take n) k hk (by omega) (by rw [hlen]; exact hwc) (by omega)
  have hb := hinv.bound
  unfold encWin
  rw [if_neg (by have := hm.2.1; omega)]
  rcases winv_push v _ _ _ _ _ bytes hwin with ⟨hnil, he⟩ | ⟨he, hfull⟩ | ⟨o, fin', he, hol, hret, hroom, hsc, hpost⟩
  · left; exact ⟨Err.BadValue, by rw [he], Or.inl ⟨rfl, hnil⟩⟩
  · left
    refine ⟨Err.MissingBuffer, by rw [he], Or.inr ⟨rfl, ?_⟩⟩
    simp only [hwl] at hfull; omega
  · right
    refine ⟨o, fin', by rw [he]; simp [splice], hret, ?_, hsc, ?_⟩
    · intro hr; apply hroom; simp only [hwl]; omega
    · exact callPost_of v r hwf k a n hm (by omega) vis (vis ++ fin') fin' _ o.st o.win
        (winv_take_k hinv k hk) (by omega) (by rw [hol, hwl]) hpost rfl

open Ring in
/-- **the terminating call through a window**: refused (`MissingBuffer`, nothing changes) or the frame is
    completed: the visible finished bytes are followed by `tail` with `fin ++ tail` = the reference frame -/
theorem encWin_term (v : Variant) (st : EncState) (r : Ring) (k a n : Nat) (vis fin : List Byte)
    (ms : List (Byte × Bool)) (cons : List Nat)
    (hwf : r.WF) (hlen : st.done + st.scratch = r.len) (hk : k ≤ st.done) (hm : Maps r k a n) (hfit : r.len ≤ k + n)
    (hinv : WInv v st r.content vis fin ms) :
    (encWin (.cobs v) { st with done := st.done - k } r a n none cons
        = .ok { st := { st with done := st.done - k }, ring := r, push := Err.MissingBuffer.code, cons := cons } ∧
        k + n ≤ r.len + 1) ∨
    ∃ (o : EncOut) (tail : List Byte), encWin (.cobs v) { st with done := st.done - k } r a n none cons
        = .ok { st := o.st, ring := { r with store := splice r.store a n o.win }, push := 0, cons := cons } ∧
      encB v [] false ms ++ [0] = fin ++ tail ∧ o.ret = 0 ∧
      CallPost v r k a n (vis ++ tail) [] [] o.st o.win := by
  have hwl : ((r.store.drop a).take n).length = n := by
    rw [List.length_take, List.length_drop]; have := hm.2.1; omega
  have hcl := content_length r hwf.1 hwf.2
  have hwc := window_content r hwf k a n hm (by omega) hfit
  have hwin := hinv.window (win := (r.store.drop a).take n) k hk (by omega) (by rw [hlen]; exact hwc) (by omega)
  have hb := hinv.bound
  unfold encWin
  rw [if_neg (by have := hm.2.1; omega)]
  rcases winv_term v _ _ _ _ _ hwin with ⟨he, hfull⟩ | ⟨o, tail, he, hpost, hframe, _⟩
  · left
    refine ⟨by rw [he], ?_⟩
    simp only [hwl] at hfull; omega
  · right
    have hw := winv_of_term v _ _ _ o hpost
    refine ⟨o, tail, ?_, hframe, hpost.2.2.1, ?_⟩
    · rw [he]; simp [splice, hpost.2.2.1]
    · exact callPost_of v r hwf k a n hm (by omega) vis (vis ++ tail) tail _ o.st o.win
        (winv_take_k hinv k hk) (by omega) (by rw [hpost.1, hwl]) hw rfl

theorem err_code_neg (e : Err) : e.code < 0 := by cases e <;> decide

/-- progress of the message in progress made by one or more encoder calls: data consumed (`ret` bytes,
    marked with a cut after every piece), or the frame completed -/
def Progress (v : Variant) (src : Option (List Byte)) (vis fin : List Byte) (ms : List (Byte × Bool))
    (vis' fin' : List Byte) (ms' : List (Byte × Bool)) (ret : Nat) : Prop :=
  match src with
  | some bytes => ∃ fin1 ms2, ret ≤ bytes.length ∧ ms2.map Prod.fst = bytes.take ret ∧
      vis' = vis ++ fin1 ∧ fin' = fin ++ fin1 ∧ ms' = ms ++ ms2
  | none => ∃ tail, ret = 0 ∧ encB v [] false ms ++ [0] = fin ++ tail ∧ vis' = vis ++ tail ∧ fin' = [] ∧ ms' = []

/-- a state of `mpt_queue_push` between two encoder calls: with the ring length brought up to date the
    ring is well-formed and its content is the finished bytes `vis` followed by the open block -/
def WorkInv (v : Variant) (st : EncState) (r : Ring) (vis fin : List Byte) (ms : List (Byte × Bool)) : Prop :=
  ({ r with len := st.done + st.scratch } : Ring).WF ∧
  WInv v st ({ r with len := st.done + st.scratch } : Ring).content vis fin ms

/-- `encWin` does not look at the ring length -/
theorem encWin_len (c : Codec) (st : EncState) (r : Ring) (a n : Nat) (src : Option (List Byte)) (cons : List Nat) (L : Nat) :
    encWin c st r a n src cons =
      match encWin c st { r with len := L } a n src cons with
      | .ok w => .ok { w with ring := { w.ring with len := r.len } }
      | .err e => .err e | .null => .null | .oob => .oob | .fault => .fault := by
  unfold encWin
  simp only
  split
  · rfl
  · split <;> rfl

open Ring in
/-- **one encoder call through a window** (data or termination), from a state whose ring length may be
    stale: refused without any change, or progress -/
theorem encWin_call (v : Variant) (st : EncState) (r : Ring) (k a n : Nat) (vis fin : List Byte)
    (ms : List (Byte × Bool)) (src : Option (List Byte)) (cons : List Nat)
    (hinv : WorkInv v st r vis fin ms) (hk : k ≤ st.done) (hm : Maps r k a n) (hfit : st.done + st.scratch ≤ k + n) :
    (∃ e : Err, encWin (.cobs v) { st with done := st.done - k } r a n src cons
        = .ok { st := { st with done := st.done - k }, ring := r, push := e.code, cons := cons }) ∨
    ∃ (o : EncOut) (vis' fin' : List Byte) (ms' : List (Byte × Bool)),
      encWin (.cobs v) { st with done := st.done - k } r a n src cons
        = .ok { st := o.st, ring := { r with store := splice r.store a n o.win }, push := (o.ret : Nat),
                cons := if src.isSome then cons ++ [o.ret] else cons } ∧
      Progress v src vis fin ms vis' fin' ms' o.ret ∧ (src.isSome → 0 < o.st.scratch) ∧
      (splice r.store a n o.win).length = r.store.length ∧
      WorkInv v { o.st with done := o.st.done + k } { r with store := splice r.store a n o.win } vis' fin' ms' := by
  obtain ⟨hwf, hw⟩ := hinv
  rw [encWin_len _ _ r a n src cons (st.done + st.scratch)]
  have hm' : Maps { r with len := st.done + st.scratch } k a n := hm
  cases src with
  | some bytes =>
    rcases encWin_push v st { r with len := st.done + st.scratch } k a n vis fin ms bytes cons hwf rfl hk hm' hfit hw with
      ⟨e, he, _⟩ | ⟨o, fin', he, hret, _, hsc, hpost⟩
    · left; refine ⟨e, ?_⟩; rw [he]
    · right
      refine ⟨o, vis ++ fin', fin ++ fin', ms ++ markChunk (bytes.take o.ret), ?_, ?_, ?_, ?_, ?_⟩
      · rw [he]; simp
      · exact ⟨fin', markChunk (bytes.take o.ret), hret, markChunk_fst _, rfl, rfl, rfl⟩
      · intro _; exact hsc
      · exact splice_length _ _ _ _ hpost.wlen hm.2.1
      · exact ⟨by simpa [Nat.add_right_comm] using hpost.wf, by simpa [Nat.add_right_comm] using hpost.inv⟩
  | none =>
    rcases encWin_term v st { r with len := st.done + st.scratch } k a n vis fin ms cons hwf rfl hk hm' hfit hw with
      ⟨he, _⟩ | ⟨o, tail, he, hframe, hret0, hpost⟩
    · left; refine ⟨.MissingBuffer, ?_⟩; rw [he]
    · right
      refine ⟨o, vis ++ tail, [], [], ?_, ?_, by simp, ?_, ?_⟩
      · rw [he]; simp [hret0]
      · exact ⟨tail, hret0, hframe, rfl, rfl, rfl⟩
      · exact splice_length _ _ _ _ hpost.wlen hm.2.1
      · exact ⟨by simpa [Nat.add_right_comm] using hpost.wf, by simpa [Nat.add_right_comm] using hpost.inv⟩

/-- outcome of a stage of `mpt_queue_push` that started with finished bytes `vis`, finished blocks `fin` and
    consumed message bytes `ms`: refused (nothing consumed, the content is the same), or progress -/
def StageOut (v : Variant) (src : Option (List Byte)) (M : Nat) (vis fin : List Byte) (ms : List (Byte × Bool))
    (w : Work) : Prop :=
  w.ring.store.length = M ∧
  ((w.push < 0 ∧ w.ring.len = w.st.done + w.st.scratch ∧ WorkInv v w.st w.ring vis fin ms) ∨
   (∃ (vis' fin' : List Byte) (ms' : List (Byte × Bool)) (ret : Nat), w.push = (ret : Int) ∧
      Progress v src vis fin ms vis' fin' ms' ret ∧ WorkInv v w.st w.ring vis' fin' ms'))

theorem encState_eta (st : EncState) : ({ st with done := st.done - 0 } : EncState) = st := by cases st; rfl

/-- the window call without hidden bytes (aligned data, lower part) -/
theorem encWin_stage0 (v : Variant) (st : EncState) (r : Ring) (a n : Nat) (vis fin : List Byte)
    (ms : List (Byte × Bool)) (src : Option (List Byte)) (cons : List Nat)
    (hinv : WorkInv v st r vis fin ms) (hlen : r.len = st.done + st.scratch) (hm : Maps r 0 a n) (hfit : st.done + st.scratch ≤ n) :
    ∃ w, encWin (.cobs v) st r a n src cons = .ok w ∧ StageOut v src r.store.length vis fin ms w ∧ w.ring.off = r.off := by
  have := encWin_call v st r 0 a n vis fin ms src cons hinv (by omega) hm (by omega)
  rw [encState_eta] at this
  rcases this with ⟨e, he⟩ | ⟨o, vis', fin', ms', he, hp, hsc, hl, hw⟩
  · exact ⟨_, he, ⟨rfl, Or.inl ⟨err_code_neg e, hlen, hinv⟩⟩, rfl⟩
  · exact ⟨_, he, ⟨hl, Or.inr ⟨vis', fin', ms', o.ret, rfl, hp, by simpa using hw⟩⟩, rfl⟩

/-- "encode in upper part" (the ring length may be stale) -/
theorem encUpper_call (v : Variant) (st : EncState) (r : Ring) (vis fin : List Byte)
    (ms : List (Byte × Bool)) (src : Option (List Byte)) (cons : List Nat)
    (hinv : WorkInv v st r vis fin ms) (hoff : r.off ≤ r.store.length)
    (hd : r.store.length - r.off ≤ st.done) (hfit : st.done + st.scratch ≤ r.store.length) :
    ∃ w, encUpper (.cobs v) st r src cons = .ok w ∧ w.ring.store.length = r.store.length ∧
      ((w.push < 0 ∧ w.st = st ∧ w.ring = r) ∨
       (∃ (vis' fin' : List Byte) (ms' : List (Byte × Bool)) (ret : Nat), w.push = (ret : Int) ∧
          Progress v src vis fin ms vis' fin' ms' ret ∧ WorkInv v w.st w.ring vis' fin' ms')) := by
  unfold encUpper
  simp only [Ring.max]
  rcases encWin_call v st r (r.store.length - r.off) 0 r.off vis fin ms src cons hinv hd (Maps.upper r hoff) (by omega) with
    ⟨e, he⟩ | ⟨o, vis', fin', ms', he, hp, hsc, hl, hw⟩
  · rw [he]
    refine ⟨_, rfl, rfl, Or.inl ⟨err_code_neg e, ?_, rfl⟩⟩
    simp only
    rw [show st.done - (r.store.length - r.off) + (r.store.length - r.off) = st.done by omega]
  · rw [he]
    exact ⟨_, rfl, hl, Or.inr ⟨vis', fin', ms', o.ret, rfl, hp, hw⟩⟩

/-- "encode in upper part" as first attempt -/
theorem encUpper_stage (v : Variant) (st : EncState) (r : Ring) (vis fin : List Byte)
    (ms : List (Byte × Bool)) (src : Option (List Byte)) (cons : List Nat)
    (hinv : WorkInv v st r vis fin ms) (hlen : r.len = st.done + st.scratch) (hoff : r.off ≤ r.store.length)
    (hd : r.store.length - r.off ≤ st.done) (hfit : st.done + st.scratch ≤ r.store.length) :
    ∃ w, encUpper (.cobs v) st r src cons = .ok w ∧ StageOut v src r.store.length vis fin ms w := by
  obtain ⟨w, he, hl, hc⟩ := encUpper_call v st r vis fin ms src cons hinv hoff hd hfit
  refine ⟨w, he, hl, ?_⟩
  rcases hc with ⟨hneg, hst, hr⟩ | hok
  · left; rw [hst, hr]; exact ⟨hneg, hlen, hinv⟩
  · right; exact hok

theorem ring_len_eta (r : Ring) (L : Nat) (h : r.len = L) : ({ r with len := L } : Ring) = r := by
  cases r; simp only at h; subst h; rfl

/-- encoder call after `mpt_queue_align(&qu->data, 0)`; the ring length is up to date -/
theorem encAligned_stage (v : Variant) (st : EncState) (r : Ring) (vis fin : List Byte)
    (ms : List (Byte × Bool)) (src : Option (List Byte)) (cons : List Nat)
    (hinv : WorkInv v st r vis fin ms) (hlen : r.len = st.done + st.scratch) :
    ∃ w, encAligned (.cobs v) st r src cons = .ok w ∧ StageOut v src r.store.length vis fin ms w := by
  have hr := ring_len_eta r _ hlen
  have hwf : r.WF := by have := hinv.1; rwa [hr] at this
  obtain ⟨r1, ha, hwf1, hl1, hs1, hc1, ho1⟩ := Ring.align_spec r hwf 0
  unfold encAligned
  rw [ha]
  simp only [Ring.max]
  have hr1 := ring_len_eta r1 _ (hl1.trans hlen)
  have hinv1 : WorkInv v st r1 vis fin ms := by
    unfold WorkInv
    rw [hr1]
    refine ⟨hwf1, ?_⟩
    rw [hc1]
    have := hinv.2; rwa [hr] at this
  obtain ⟨w, hw1, hw2, _⟩ := encWin_stage0 v st r1 0 r1.store.length vis fin ms src cons hinv1 (hl1.trans hlen)
    (Maps.aligned r1 (ho1 rfl)) (by have := hwf1.1; omega)
  rw [hs1] at hw2
  exact ⟨w, hw1, hw2⟩

open Ring in
theorem content_take_len (r : Ring) (L d : Nat) (h1 : d ≤ L) (h2 : d ≤ r.len) :
    ({ r with len := L } : Ring).content.take d = r.content.take d := by
  unfold content
  simp only [List.take_take]
  rw [Nat.min_eq_left h1, Nat.min_eq_left h2]

open Ring in
/-- "try out-of-band wrapping": the open block crosses the storage end -/
theorem encOob_stage (v : Variant) (st : EncState) (r : Ring) (vis fin : List Byte)
    (ms : List (Byte × Bool)) (src : Option (List Byte))
    (hinv : WorkInv v st r vis fin ms) (hlen : r.len = st.done + st.scratch) (hs0 : 0 < st.scratch) (hs1 : st.scratch < 256) :
    ∃ w, encOob (.cobs v) st r src = .ok w ∧ StageOut v src r.store.length vis fin ms w ∧ w.ring.off = r.off := by
  have hr := ring_len_eta r _ hlen
  have hwf : r.WF := by have := hinv.1; rwa [hr] at this
  have hw : WInv v st r.content vis fin ms := by have := hinv.2; rwa [hr] at this
  have hcl := content_length r hwf.1 hwf.2
  have hM : st.done + st.scratch ≤ r.store.length := by have := hwf.1; omega
  obtain ⟨c, hget⟩ := get_ok r hwf st.done st.scratch hs0 (by omega)
  have hgot : (r.content.drop st.done).take st.scratch = r.content.drop st.done := by
    rw [List.take_of_length_le (by rw [List.length_drop]; omega)]
  have hgl : (r.content.drop st.done).length = st.scratch := by rw [List.length_drop]; omega
  have hvl := hw.bound.2
  unfold encOob
  simp only [hget, hgot, hgl, Ring.max]
  generalize hbuf : r.content.drop st.done ++ List.replicate (min (r.store.length - st.done) 256 - st.scratch) 0 = buf
  have hbl : buf.length = min (r.store.length - st.done) 256 := by
    rw [← hbuf, List.length_append, hgl, List.length_replicate]; omega
  have hwin : WInv v { st with done := 0 } buf [] fin ms := by
    have := hw.window (win := buf) st.done (Nat.le_refl _) (by omega)
      (by rw [← hbuf, Nat.add_sub_cancel_left, List.take_left' hgl])
      (by rw [hbl]; omega)
    rw [Nat.sub_self, List.drop_of_length_le (by omega)] at this
    exact this
  -- the content in front of the open block
  have hvis : r.content.take st.done = vis := by
    have := hw.take_vis
    rwa [List.take_take, Nat.min_eq_left (by omega)] at this
  have post : ∀ (o : EncOut) (vis' fin' : List Byte) (ms' : List (Byte × Bool)) (fin1 : List Byte),
      o.win.length = buf.length → 0 < o.st.done + o.st.scratch → vis' = vis ++ fin1 →
      WInv v o.st o.win ([] ++ fin1) fin' ms' →
      ∃ r2, setOr { r with len := st.done + (o.st.done + o.st.scratch) } st.done (o.st.done + o.st.scratch)
              (o.win.take (o.st.done + o.st.scratch)) = r2 ∧
        r2.store.length = r.store.length ∧ st.done + (o.st.done + o.st.scratch) ≤ r.store.length ∧ r2.off = r.off ∧
        WorkInv v { o.st with done := st.done + o.st.done } r2 vis' fin' ms' := by
    intro o vis' fin' ms' fin1 hol hpos hv' hpost
    have hb := hpost.bound
    have hfit : st.done + (o.st.done + o.st.scratch) ≤ r.store.length := by
      have := hb.1; rw [hol, hbl] at this; omega
    have hwf1 : ({ r with len := st.done + (o.st.done + o.st.scratch) } : Ring).WF := ⟨hfit, hwf.2⟩
    obtain ⟨r2, c2, hset, hwf2, hsl2, hoff2, hl2, hc2⟩ := set_ok { r with len := st.done + (o.st.done + o.st.scratch) } hwf1
      st.done (o.st.done + o.st.scratch) (some (o.win.take (o.st.done + o.st.scratch))) hpos (by simp only; omega)
    have htl : (o.win.take (o.st.done + o.st.scratch)).length = o.st.done + o.st.scratch := by
      rw [List.length_take]; omega
    have hsrc : setSrc (o.st.done + o.st.scratch) (some (o.win.take (o.st.done + o.st.scratch))) = o.win.take (o.st.done + o.st.scratch) := by
      have := setSrc_some' (o.win.take (o.st.done + o.st.scratch))
      rwa [htl] at this
    have hcl1 := content_length _ hwf1.1 hwf1.2
    rw [hsrc, content_take_len r _ st.done (by omega) (by omega), hvis,
      List.drop_of_length_le (by rw [hcl1]; exact Nat.le_refl _), List.append_nil] at hc2
    refine ⟨r2, by unfold setOr; rw [hset], hsl2, hfit, hoff2, ?_⟩
    unfold WorkInv
    have hl2' : r2.len = st.done + o.st.done + o.st.scratch := by rw [hl2]; simp only; omega
    rw [ring_len_eta r2 _ hl2']
    refine ⟨hwf2, ?_⟩
    have := winv_glue (k := st.done) (vis0 := vis) (fin1 := fin1)
      (by rw [List.drop_of_length_le (by omega)]; exact hpost) (by omega) r2.content
      (by rw [hc2, List.take_of_length_le (Nat.le_of_eq hvl.symm)])
    rw [Nat.add_comm o.st.done st.done, ← hv'] at this
    exact this
  cases src with
  | some bytes =>
    rcases winv_push v _ _ _ _ _ bytes hwin with ⟨_, he⟩ | ⟨he, _⟩ | ⟨o, fin', he, hol, hret, _, hsc, hpost⟩
    · rw [he]; exact ⟨_, rfl, ⟨rfl, Or.inl ⟨err_code_neg Err.BadValue, hlen, hinv⟩⟩, rfl⟩
    · rw [he]; exact ⟨_, rfl, ⟨rfl, Or.inl ⟨err_code_neg Err.MissingBuffer, hlen, hinv⟩⟩, rfl⟩
    · rw [he]
      obtain ⟨r2, hr2, hsl2, hfit, hoff2, hwi⟩ := post o (vis ++ fin') (fin ++ fin') _ fin' hol (by omega) rfl hpost
      simp only
      rw [if_neg (by omega), hr2]
      exact ⟨_, rfl, ⟨hsl2, Or.inr ⟨vis ++ fin', fin ++ fin', _, o.ret, rfl,
        ⟨fin', markChunk (bytes.take o.ret), hret, markChunk_fst _, rfl, rfl, rfl⟩, hwi⟩⟩, hoff2⟩
  | none =>
    rcases winv_term v _ _ _ _ _ hwin with ⟨he, _⟩ | ⟨o, tail, he, hpost, hframe, hne⟩
    · rw [he]; exact ⟨_, rfl, ⟨rfl, Or.inl ⟨err_code_neg Err.MissingBuffer, hlen, hinv⟩⟩, rfl⟩
    · rw [he]
      have hw2 := winv_of_term v _ _ _ o hpost
      have hpos : 0 < o.st.done + o.st.scratch := by
        have := hpost.2.2.2.1
        have : 0 < tail.length := List.length_pos_iff.mpr hne
        simp only [List.length_append, List.nil_append] at *; omega
      obtain ⟨r2, hr2, hsl2, hfit, hoff2, hwi⟩ := post o (vis ++ tail) [] [] tail hpost.1 hpos rfl hw2
      simp only
      rw [if_neg (by omega), hr2]
      exact ⟨_, rfl, ⟨hsl2, Or.inr ⟨vis ++ tail, [], [], o.ret, rfl,
        ⟨tail, hpost.2.2.1, hframe, rfl, rfl, rfl⟩, hwi⟩⟩, hoff2⟩

/-- "start encoding in lower part", first attempt -/
theorem encLowerFirst_stage (v : Variant) (st : EncState) (r : Ring) (vis fin : List Byte)
    (ms : List (Byte × Bool)) (src : Option (List Byte))
    (hinv : WorkInv v st r vis fin ms) (hlen : r.len = st.done + st.scratch) (hoff : r.off ≤ r.store.length)
    (hd : st.done < r.store.length - r.off) :
    ∃ w, encLowerFirst (.cobs v) st r src = .ok w ∧ StageOut v src r.store.length vis fin ms w ∧ w.ring.off = r.off := by
  unfold encLowerFirst
  simp only [Ring.max]
  by_cases h1 : r.store.length - r.off - st.done ≥ st.scratch
  · rw [if_pos h1]
    exact encWin_stage0 v st r r.off (r.store.length - r.off) vis fin ms src [] hinv hlen (Maps.lower r hoff) (by omega)
  · rw [if_neg h1]
    by_cases h2 : st.scratch ≥ 256
    · rw [if_pos h2]
      exact ⟨_, rfl, ⟨rfl, Or.inl ⟨by simp only; decide, hlen, hinv⟩⟩, rfl⟩
    · rw [if_neg h2]
      exact encOob_stage v st r vis fin ms src hinv hlen (by omega) (by omega)

/-- progress by a second call on the rest of the input adds up -/
theorem Progress.seq {v : Variant} {bytes : List Byte} {vis fin vis1 fin1 vis2 fin2 : List Byte}
    {ms ms1 ms2 : List (Byte × Bool)} {n1 n2 : Nat}
    (h1 : Progress v (some bytes) vis fin ms vis1 fin1 ms1 n1)
    (h2 : Progress v (some (bytes.drop n1)) vis1 fin1 ms1 vis2 fin2 ms2 n2) :
    Progress v (some bytes) vis fin ms vis2 fin2 ms2 (n1 + n2) := by
  obtain ⟨f1, m1, a1, b1, c1, d1, e1⟩ := h1
  obtain ⟨f2, m2, a2, b2, c2, d2, e2⟩ := h2
  refine ⟨f1 ++ f2, m1 ++ m2, ?_, ?_, by rw [c2, c1, List.append_assoc], by rw [d2, d1, List.append_assoc],
    by rw [e2, e1, List.append_assoc]⟩
  · rw [List.length_drop] at a2; omega
  · rw [List.map_append, b1, b2, List.take_add]

/-- a second call that consumed nothing keeps the count -/
theorem Progress.seq0 {v : Variant} {bytes : List Byte} {vis fin vis1 fin1 vis2 fin2 : List Byte}
    {ms ms1 ms2 : List (Byte × Bool)} {n1 : Nat}
    (h1 : Progress v (some bytes) vis fin ms vis1 fin1 ms1 n1)
    (h2 : Progress v (some (bytes.drop n1)) vis1 fin1 ms1 vis2 fin2 ms2 0) :
    Progress v (some bytes) vis fin ms vis2 fin2 ms2 n1 := by
  have := Progress.seq h1 h2
  rwa [Nat.add_zero] at this

/-- second push for the rest of the input -/
theorem encSecond_stage (v : Variant) (w : Work) (M off0 : Nat) (vis fin : List Byte)
    (ms : List (Byte × Bool)) (rest : List Byte)
    (hM : w.ring.store.length = M) (hinv : WorkInv v w.st w.ring vis fin ms) (hoff : w.ring.off = off0) (hoM : off0 ≤ M) :
    ∃ w2, encSecond (.cobs v) w (M - off0) rest = .ok w2 ∧ w2.ring.store.length = M ∧
      ((w2.push < 0 ∧ WorkInv v w2.st w2.ring vis fin ms) ∨
       (∃ (vis' fin' : List Byte) (ms' : List (Byte × Bool)) (ret : Nat), w2.push = (ret : Int) ∧
          Progress v (some rest) vis fin ms vis' fin' ms' ret ∧ WorkInv v w2.st w2.ring vis' fin' ms')) := by
  unfold encSecond
  by_cases hd : w.st.done < M - off0
  · rw [if_pos hd]
    obtain ⟨w2, he, hl, hc⟩ := encAligned_stage v w.st { w.ring with len := w.st.done + w.st.scratch } vis fin ms
      (some rest) w.cons hinv rfl
    simp only at hl
    refine ⟨w2, he, by rw [hl, hM], ?_⟩
    rcases hc with ⟨a, _, c⟩ | hok
    · exact Or.inl ⟨a, c⟩
    · exact Or.inr hok
  · rw [if_neg hd]
    have hfit : w.st.done + w.st.scratch ≤ w.ring.store.length := by
      have := hinv.1.1; simp only at this; omega
    obtain ⟨w2, he, hl, hc⟩ := encUpper_call v w.st w.ring vis fin ms (some rest) w.cons hinv
      (by rw [hoff, hM]; exact hoM) (by rw [hoff, hM]; omega) hfit
    refine ⟨w2, he, by rw [hl, hM], ?_⟩
    rcases hc with ⟨a, b, c⟩ | hok
    · left; rw [b, c]; exact ⟨a, hinv⟩
    · exact Or.inr hok

/-- the second attempt of the lower part: retry on aligned data after a refusal, or a second call for the
    rest of the input (on aligned data, or in the upper part) -/
theorem encLowerSecond_stage (v : Variant) (w : Work) (M off0 : Nat) (vis fin : List Byte)
    (ms : List (Byte × Bool)) (src : Option (List Byte))
    (hw : StageOut v src M vis fin ms w) (hoff : w.ring.off = off0) (hoM : off0 ≤ M) :
    ∃ w', encLowerSecond (.cobs v) w (M - off0) src = .ok w' ∧ StageOut v src M vis fin ms w' := by
  obtain ⟨hM, hcase⟩ := hw
  unfold encLowerSecond
  rcases hcase with ⟨hneg, hlen, hinv⟩ | ⟨vis', fin', ms', ret, hpush, hprog, hinv⟩
  · -- bad encoding attempt
    rw [if_pos hneg]
    have := encAligned_stage v w.st w.ring vis fin ms src w.cons hinv hlen
    rwa [hM] at this
  · rw [if_neg (by omega)]
    cases src with
    | none => exact ⟨w, rfl, hM, Or.inr ⟨vis', fin', ms', ret, hpush, hprog, hinv⟩⟩
    | some bytes =>
      simp only
      have hret : w.push.toNat = ret := by omega
      by_cases hlt : w.push.toNat < bytes.length
      · rw [if_pos hlt, hret]
        -- incomplete append action
        obtain ⟨w2, he2, hM2, hc2⟩ := encSecond_stage v w M off0 vis' fin' ms' (bytes.drop ret) hM hinv hoff hoM
        rw [he2]
        refine ⟨_, rfl, by simpa [addPush] using hM2, Or.inr ?_⟩
        rcases hc2 with ⟨hneg2, hinv2⟩ | ⟨vis2, fin2, ms2, ret2, hpush2, hprog2, hinv2⟩
        · exact ⟨vis', fin', ms', ret, by simp only [addPush]; rw [if_neg (by omega)]; exact hpush, hprog, hinv2⟩
        · by_cases hz : ret2 = 0
          · subst hz
            exact ⟨vis2, fin2, ms2, ret, by simp only [addPush]; rw [if_neg (by omega)]; exact hpush,
              Progress.seq0 hprog hprog2, hinv2⟩
          · exact ⟨vis2, fin2, ms2, ret + ret2, by simp only [addPush]; rw [if_pos (by omega)]; omega,
              Progress.seq hprog hprog2, hinv2⟩
      · rw [if_neg hlt]
        exact ⟨w, rfl, hM, Or.inr ⟨vis', fin', ms', ret, hpush, hprog, hinv⟩⟩

/-! ### the encode queue -/

/-- representation invariant of an encode queue with framing `v`: the ring is well-formed, its length is
    `done + scratch`, and its content is the finished bytes `vis` (complete frames and finished blocks,
    not yet taken) followed by the open block; `fin`/`ms` describe the message in progress -/
structure EInv (v : Variant) (q : EncodeQueue) (vis fin : List Byte) (ms : List (Byte × Bool)) : Prop where
  codec : q.codec = some (.cobs v)
  len : q.ring.len = q.st.done + q.st.scratch
  inv : WorkInv v q.st q.ring vis fin ms

theorem EInv.wf {v : Variant} {q : EncodeQueue} {vis fin : List Byte} {ms : List (Byte × Bool)}
    (h : EInv v q vis fin ms) : q.ring.WF := by
  have := h.inv.1; rwa [ring_len_eta _ _ h.len] at this

theorem EInv.winv {v : Variant} {q : EncodeQueue} {vis fin : List Byte} {ms : List (Byte × Bool)}
    (h : EInv v q vis fin ms) : WInv v q.st q.ring.content vis fin ms := by
  have := h.inv.2; rwa [ring_len_eta _ _ h.len] at this

/-- a fresh queue (any capacity, any wrap offset) -/
theorem EInv.fresh (v : Variant) (store : List Byte) (off : Nat) (h : off ≤ store.length) :
    EInv v { ring := { store := store, len := 0, off := off }, codec := some (.cobs v) } [] [] [] := by
  have := v.maxlen_cases
  refine ⟨rfl, rfl, ⟨by simp, h⟩, ⟨[], rfl, by simp; omega, Or.inl ⟨rfl, rfl, rfl, rfl, by simp, by simp⟩, by simp⟩⟩

/-- the three placement cases -/
theorem pushWork_stage (v : Variant) (q : EncodeQueue) (vis fin : List Byte) (ms : List (Byte × Bool))
    (src : Option (List Byte)) (h : EInv v q vis fin ms) :
    ∃ w, pushWork (.cobs v) q src = .ok w ∧ StageOut v src q.ring.store.length vis fin ms w := by
  have hwf := h.wf
  unfold pushWork
  simp only [Ring.max]
  by_cases h0 : q.ring.off = 0
  · rw [if_pos h0]
    obtain ⟨w, a, b, _⟩ := encWin_stage0 v q.st q.ring 0 q.ring.store.length vis fin ms src [] h.inv h.len
      (Maps.aligned q.ring h0) (by have := hwf.1; have := h.len; omega)
    exact ⟨w, a, b⟩
  · rw [if_neg h0]
    by_cases hd : q.st.done ≥ q.ring.store.length - q.ring.off
    · rw [if_pos hd]
      exact encUpper_stage v q.st q.ring vis fin ms src [] h.inv h.len hwf.2 hd (by have := hwf.1; have := h.len; omega)
    · rw [if_neg hd]
      obtain ⟨w, he, hs, ho⟩ := encLowerFirst_stage v q.st q.ring vis fin ms src h.inv h.len hwf.2 (by omega)
      rw [he]
      exact encLowerSecond_stage v w q.ring.store.length q.ring.off vis fin ms src hs ho hwf.2

/-- **`mpt_queue_push` refines the flat encoder**, any ring state (capacity, wrap offset, fill, data wrapped
    or not), data or termination: the call never leaves the storage and never aborts; it is either refused
    (negative return, content and message in progress unchanged) or makes `Progress`: for data, `ret ≤ len`
    bytes are consumed and the content is continued by the reference encoding of the consumed bytes; for
    termination, the frame of the message is completed. -/
theorem queuePush_refines (v : Variant) (q : EncodeQueue) (vis fin : List Byte) (ms : List (Byte × Bool))
    (src : Option (List Byte)) (h : EInv v q vis fin ms) :
    ∃ out, queuePush q src = .ok out ∧ out.q.ring.store.length = q.ring.store.length ∧
      ((out.ret < 0 ∧ EInv v out.q vis fin ms) ∨
       (∃ (vis' fin' : List Byte) (ms' : List (Byte × Bool)) (ret : Nat), out.ret = (ret : Int) ∧
          Progress v src vis fin ms vis' fin' ms' ret ∧ EInv v out.q vis' fin' ms')) := by
  obtain ⟨w, he, hM, hc⟩ := pushWork_stage v q vis fin ms src h
  unfold queuePush
  rw [h.codec]
  simp only [he]
  have hfit : ∀ vis' fin' ms', WorkInv v w.st w.ring vis' fin' ms' → ¬ (w.st.done + w.st.scratch > w.ring.max) := by
    intro _ _ _ hi
    have := hi.1.1; simp only [Ring.max] at *; omega
  rcases hc with ⟨hneg, _, hinv⟩ | ⟨vis', fin', ms', ret, hpush, hprog, hinv⟩
  · rw [if_neg (hfit _ _ _ hinv)]
    exact ⟨_, rfl, hM, Or.inl ⟨hneg, rfl, rfl, hinv⟩⟩
  · rw [if_neg (hfit _ _ _ hinv)]
    exact ⟨_, rfl, hM, Or.inr ⟨vis', fin', ms', ret, hpush, hprog, rfl, rfl, hinv⟩⟩

end Mpt.CQ
