/-
  Helper lemmas and definitions for the heap model (C04): element-wise memory lemmas, accessors of
  the state, the heap invariant `Inv`, and closed forms of the buffer-level functions on buffers whose
  element traits have no callbacks ("plain": raw and plain-old-data buffers).
-/
import MptModel.Impl.Heap
import MptModel.Spec.Vec

namespace Mpt.Heap
open Mpt

/-! ### memory -/

theorem write_length (s : List Byte) (d : Nat) (b : List Byte) (h : d + b.length ≤ s.length) :
    (Mem.write s d b).length = s.length := by
  simp [Mem.write]; omega

theorem getElem?_write (s : List Byte) (d : Nat) (b : List Byte) (i : Nat) (h : d + b.length ≤ s.length) :
    (Mem.write s d b)[i]? = if i < d then s[i]? else if i < d + b.length then b[i - d]? else s[i]? := by
  unfold Mem.write
  grind

theorem read_length (s : List Byte) (src n : Nat) (h : src + n ≤ s.length) :
    (Mem.read s src n).length = n := by
  simp [Mem.read]; omega

theorem getElem?_read (s : List Byte) (src n i : Nat) :
    (Mem.read s src n)[i]? = if i < n then s[src + i]? else none := by
  unfold Mem.read
  grind

theorem move_length (s : List Byte) (d src n : Nat) (h1 : src + n ≤ s.length) (h2 : d + n ≤ s.length) :
    (Mem.move s d src n).length = s.length := by
  unfold Mem.move
  rw [write_length]
  rw [read_length _ _ _ h1]; exact h2

theorem getElem?_move (s : List Byte) (d src n i : Nat) (h1 : src + n ≤ s.length) (h2 : d + n ≤ s.length) :
    (Mem.move s d src n)[i]? = if i < d then s[i]? else if i < d + n then s[src + (i - d)]? else s[i]? := by
  unfold Mem.move Mem.write Mem.read
  grind

@[simp] theorem zeros_length (n : Nat) : (zeros n).length = n := by simp [zeros]

theorem getElem?_zeros (n i : Nat) : (zeros n)[i]? = if i < n then some 0 else none := by
  simp [zeros, List.getElem?_replicate]

/-! ### state accessors -/

namespace State

theorem buf?_lt {s : State} {b : Nat} {x : Buf} (h : s.buf? b = some x) : b < s.bufs.length := by
  unfold buf? at h
  split at h
  · rename_i hb
    have := List.getElem?_eq_some_iff.mp hb
    exact this.1
  · cases h

theorem buf?_setBuf (s : State) (b c : Nat) (x : Buf) (hb : b < s.bufs.length) :
    (s.setBuf b x).buf? c = if c = b then some x else s.buf? c := by
  unfold buf? setBuf
  simp only [List.getElem?_set]
  by_cases h : b = c
  · subst h; simp [hb]
  · have : ¬ c = b := fun e => h e.symm
    simp [h, this]

theorem buf?_freeBuf (s : State) (b c : Nat) (hb : b < s.bufs.length) :
    (s.freeBuf b).buf? c = if c = b then none else s.buf? c := by
  unfold buf? freeBuf
  simp only [List.getElem?_set]
  by_cases h : b = c
  · subst h; simp [hb]
  · have : ¬ c = b := fun e => h e.symm
    simp [h, this]

/-- the buffer `_mpt_buffer_alloc` returns -/
def fresh (len flags : Nat) (traits : Option Traits) : Buf :=
  { ref := 1, flags := flags % 256, traits := traits, used := 0, data := List.replicate (allocSize len) poison }

theorem buf?_newBuf (s : State) (len flags : Nat) (t : Option Traits) (c : Nat) :
    (s.newBuf len flags t).buf? c = if c = s.bufs.length then some (fresh len flags t) else s.buf? c := by
  unfold buf? newBuf fresh
  simp only [List.getElem?_append]
  by_cases h : c < s.bufs.length
  · have : ¬ c = s.bufs.length := by omega
    simp [h, this]
  · by_cases h2 : c = s.bufs.length
    · subst h2; simp
    · have h3 : s.bufs[c]? = none := by simp; omega
      have h4 : c - s.bufs.length ≠ 0 := by omega
      simp [h, h2]
      split <;> simp_all

theorem buf?_ge_length (s : State) (c : Nat) (h : s.bufs.length ≤ c) : s.buf? c = none := by
  unfold buf?
  have : s.bufs[c]? = none := by simp; omega
  simp [this]

@[simp] theorem newBuf_hs (s : State) (len flags : Nat) (t : Option Traits) : (s.newBuf len flags t).hs = s.hs := rfl
@[simp] theorem setBuf_hs (s : State) (b : Nat) (x : Buf) : (s.setBuf b x).hs = s.hs := rfl
@[simp] theorem freeBuf_hs (s : State) (b : Nat) : (s.freeBuf b).hs = s.hs := rfl
@[simp] theorem setHandle_bufs (s : State) (h : Nat) (v : Option Nat) : (s.setHandle h v).bufs = s.bufs := rfl
@[simp] theorem setHandle_hs (s : State) (h : Nat) (v : Option Nat) : (s.setHandle h v).hs = s.hs.set h v := rfl
@[simp] theorem newBuf_length (s : State) (len flags : Nat) (t : Option Traits) :
    (s.newBuf len flags t).bufs.length = s.bufs.length + 1 := by simp [newBuf]
@[simp] theorem setBuf_length (s : State) (b : Nat) (x : Buf) : (s.setBuf b x).bufs.length = s.bufs.length := by simp [setBuf]
@[simp] theorem freeBuf_length (s : State) (b : Nat) : (s.freeBuf b).bufs.length = s.bufs.length := by simp [freeBuf]

@[simp] theorem buf?_setHandle (s : State) (h : Nat) (v : Option Nat) (c : Nat) : (s.setHandle h v).buf? c = s.buf? c := rfl
@[simp] theorem handle_setBuf (s : State) (b : Nat) (x : Buf) (h : Nat) : (s.setBuf b x).handle h = s.handle h := rfl
@[simp] theorem handle_freeBuf (s : State) (b : Nat) (h : Nat) : (s.freeBuf b).handle h = s.handle h := rfl
@[simp] theorem handle_newBuf (s : State) (len flags : Nat) (t : Option Traits) (h : Nat) :
    (s.newBuf len flags t).handle h = s.handle h := rfl

theorem handle_setHandle (s : State) (h h' : Nat) (v : Option Nat) (hh : h < s.hs.length) :
    (s.setHandle h v).handle h' = if h' = h then v else s.handle h' := by
  unfold handle setHandle
  simp only [List.getElem?_set]
  by_cases e : h = h'
  · subst e
    simp [hh]
    cases v <;> rfl
  · have : ¬ h' = h := fun x => e x.symm
    simp [e, this]

theorem handle_eq_some {s : State} {h b : Nat} : s.handle h = some b ↔ s.hs[h]? = some (some b) := by
  unfold handle
  split
  · rename_i b' hb; simp [hb]
  · rename_i hn
    constructor
    · intro e; cases e
    · intro e; exact absurd e (hn b)

theorem handle_lt {s : State} {h b : Nat} (e : s.handle h = some b) : h < s.hs.length := by
  have := handle_eq_some.mp e
  exact (List.getElem?_eq_some_iff.mp this).1

end State

/-! ### invariant -/

/-- element traits without callbacks and with a non-zero element size (raw data = no traits at all) -/
def PlainT (t : Option Traits) : Prop := ∀ x, t = some x → x.init = false ∧ x.fini = none ∧ x.size ≠ 0

theorem PlainT.none : PlainT none := by intro x h; cases h

/-- heap invariant of C04: every handle names a live buffer, the reference count of a live buffer is the
    number of handles naming it (and is not zero: no unreachable buffer), `_used ≤ _size`, plain traits,
    the used size is a whole number of elements -/
structure Inv (s : State) : Prop where
  live : ∀ h b, s.handle h = some b → ∃ x, s.buf? b = some x
  ref : ∀ b x, s.buf? b = some x → x.ref = s.hs.count (some b) ∧ 1 ≤ x.ref
  used : ∀ b x, s.buf? b = some x → x.used ≤ x.size
  plain : ∀ b x, s.buf? b = some x → PlainT x.traits
  aligned : ∀ b x, s.buf? b = some x → x.used % esize x.traits = 0

theorem count_pos_of_getElem? {l : List (Option Nat)} {i : Nat} {a : Option Nat} (h : l[i]? = some a) : 1 ≤ l.count a := by
  have : a ∈ l := List.mem_of_getElem? h
  exact List.count_pos_iff.mpr this

theorem count_one_unique : ∀ {l : List (Option Nat)} {a : Option Nat} {i j : Nat},
    l.count a = 1 → l[i]? = some a → l[j]? = some a → i = j := by
  intro l
  induction l with
  | nil => intro a i j h hi; simp at hi
  | cons x xs ih =>
    intro a i j h hi hj
    rw [List.count_cons] at h
    cases i with
    | zero =>
      cases j with
      | zero => rfl
      | succ j =>
        simp at hi hj
        subst hi
        have := count_pos_of_getElem? hj
        simp at h
        omega
    | succ i =>
      cases j with
      | zero =>
        simp at hi hj
        subst hj
        have := count_pos_of_getElem? hi
        simp at h
        omega
      | succ j =>
        simp at hi hj
        have hx : xs.count a = 1 := by
          have := count_pos_of_getElem? hi
          split at h <;> omega
        have := ih hx hi hj
        omega

theorem count_set_handle (l : List (Option Nat)) (i : Nat) (v c : Option Nat) (h : i < l.length) :
    (l.set i v).count c = (l.count c - if l[i] = c then 1 else 0) + if v = c then 1 else 0 := by
  rw [List.count_set h]
  simp

theorem count_of_getElem {l : List (Option Nat)} {i : Nat} (h : i < l.length) : 1 ≤ l.count l[i] :=
  List.count_pos_iff.mpr (List.getElem_mem h)

namespace State
theorem abs_eq (s : State) (h : Nat) :
    s.abs h = match s.handle h with
      | some b => (match s.buf? b with | some x => x.content | none => [])
      | none => [] := rfl

theorem abs_of {s : State} {h b : Nat} {x : Buf} (hh : s.handle h = some b) (hb : s.buf? b = some x) :
    s.abs h = x.content := by
  simp [abs, hh, hb]

theorem abs_none {s : State} {h : Nat} (hh : s.handle h = none) : s.abs h = [] := by
  simp [abs, hh]
end State

/-- if the reference count is one, `h` is the only handle naming the buffer -/
theorem Inv.unique {s : State} (inv : Inv s) {h h' b : Nat} {x : Buf} (hb : s.buf? b = some x) (hr : x.ref = 1)
    (hh : s.handle h = some b) (hh' : s.handle h' = some b) : h' = h := by
  have hc := (inv.ref b x hb).1
  rw [hr] at hc
  exact count_one_unique hc.symm (State.handle_eq_some.mp hh') (State.handle_eq_some.mp hh)

/-- a private buffer can be changed at will: only its handle sees it -/
theorem Inv.setBuf_private {s : State} (inv : Inv s) {h b : Nat} {x : Buf} (hh : s.handle h = some b)
    (hb : s.buf? b = some x) (hr : x.ref = 1) (x' : Buf) (r' : x'.ref = 1) (u' : x'.used ≤ x'.size)
    (p' : PlainT x'.traits) (a' : x'.used % esize x'.traits = 0) :
    Inv (s.setBuf b x') ∧ (s.setBuf b x').abs h = x'.content ∧ ∀ h', h' ≠ h → (s.setBuf b x').abs h' = s.abs h' := by
  have hlt := State.buf?_lt hb
  refine ⟨⟨?_, ?_, ?_, ?_, ?_⟩, ?_, ?_⟩
  · intro h1 b1 e
    simp only [State.handle_setBuf] at e
    rw [State.buf?_setBuf _ _ _ _ hlt]
    split
    · exact ⟨_, rfl⟩
    · exact inv.live h1 b1 e
  · intro b1 x1 e
    rw [State.buf?_setBuf _ _ _ _ hlt] at e
    simp only [State.setBuf_hs]
    split at e
    · rename_i eb
      cases e
      have := inv.ref b x hb
      rw [eb]
      omega
    · exact inv.ref b1 x1 e
  · intro b1 x1 e
    rw [State.buf?_setBuf _ _ _ _ hlt] at e
    split at e
    · cases e; exact u'
    · exact inv.used b1 x1 e
  · intro b1 x1 e
    rw [State.buf?_setBuf _ _ _ _ hlt] at e
    split at e
    · cases e; exact p'
    · exact inv.plain b1 x1 e
  · intro b1 x1 e
    rw [State.buf?_setBuf _ _ _ _ hlt] at e
    split at e
    · cases e; exact a'
    · exact inv.aligned b1 x1 e
  · rw [State.abs_eq]
    simp [hh, State.buf?_setBuf _ _ _ _ hlt]
  · intro h' ne
    rw [State.abs_eq, State.abs_eq]
    simp only [State.handle_setBuf]
    cases e : s.handle h' with
    | none => rfl
    | some b1 =>
      simp only
      rw [State.buf?_setBuf _ _ _ _ hlt]
      have : b1 ≠ b := by
        intro eb; subst eb
        exact ne (inv.unique hb hr hh e)
      simp [this]

/-! ### closed forms on plain buffers -/

theorem take_write_eq (d : List Byte) (used pos : Nat) (bytes : List Byte)
    (hu : used ≤ d.length) (hs : pos + bytes.length ≤ d.length) :
    (Mem.write (if used < pos then Mem.write d used (zeros (pos - used)) else d) pos bytes).take (max used (pos + bytes.length))
      = Vec.write (d.take used) pos bytes := by
  apply List.ext_getElem?
  intro i
  unfold Vec.write Vec.padTo Vec.zeros
  by_cases h : used < pos
  · simp only [h, if_true]
    have l1 : (Mem.write d used (zeros (pos - used))).length = d.length := by
      apply write_length; simp; omega
    rw [List.getElem?_take]
    rw [getElem?_write _ _ _ _ (by rw [l1]; exact hs)]
    rw [getElem?_write _ _ _ _ (by simp; omega)]
    simp only [getElem?_zeros, zeros_length]
    simp only [List.getElem?_append, List.getElem?_take, List.getElem?_drop, List.length_take, List.length_append,
      List.length_replicate, List.getElem?_replicate]
    grind
  · simp only [h, if_false]
    rw [List.getElem?_take]
    rw [getElem?_write _ _ _ _ hs]
    simp only [List.getElem?_append, List.getElem?_take, List.getElem?_drop, List.length_take, List.length_append,
      List.length_replicate, List.getElem?_replicate]
    grind

theorem unref_plain {s : State} {b : Nat} {x : Buf} (hb : s.buf? b = some x) (hp : PlainT x.traits) :
    unref s b =
      if x.ref = 0 then .ok s ()
      else if x.ref ≠ 1 then .ok (s.setBuf b { x with ref := x.ref - 1 }) ()
      else .ok ((s.setBuf b { x with ref := 0 }).freeBuf b) () := by
  unfold unref
  rw [hb]
  simp only
  split
  · rfl
  · split
    · rfl
    · cases ht : x.traits with
      | none => simp
      | some t =>
        have := hp t ht
        simp [this.2]

/-- plain part of `mpt_buffer_set` -/
def setPlain (z : Buf) (esz pos : Nat) (bytes : List Byte) : Buf :=
  { z with
    data := Mem.write (if z.used - z.used % esz < pos then Mem.write z.data (z.used - z.used % esz) (zeros (pos - (z.used - z.used % esz))) else z.data) pos bytes,
    used := max (z.used - z.used % esz) (pos + bytes.length) }

theorem bufferSet_plain {s : State} {b : Nat} {z : Buf} (hb : s.buf? b = some z) (hp : PlainT z.traits)
    (pos : Nat) (bytes : List Byte) (hasSrc : Bool) :
    bufferSet s b z.traits pos bytes hasSrc =
      if pos + bytes.length > z.size then .fail s (.err .MissingBuffer)
      else match z.traits with
        | none => .ok (s.setBuf b (setPlain z 1 pos bytes)) 0
        | some t =>
          if t.size = 0 ∨ pos % t.size ≠ 0 ∨ bytes.length % t.size ≠ 0 then .fail s (.err .BadArgument)
          else .ok (s.setBuf b (setPlain z t.size pos bytes)) (Int.ofNat (bytes.length / t.size)) := by
  unfold bufferSet
  rw [hb]
  simp only
  split
  · rfl
  · cases ht : z.traits with
    | none =>
      simp [setPlain, setUsed, Nat.mod_one]
    | some t =>
      have := hp t ht
      simp only [bufferSetTyped]
      split
      · rfl
      · simp [this.1, this.2, setPlain, setUsed]

/-! ### moving handles between buffers -/

/-- states with the same live buffers and handles are indistinguishable for the invariant and the content -/
theorem Inv.congr {s s' : State} (inv : Inv s) (hbuf : ∀ c, s'.buf? c = s.buf? c) (hhs : s'.hs = s.hs) :
    Inv s' ∧ ∀ h, s'.abs h = s.abs h := by
  have hh : ∀ h, s'.handle h = s.handle h := by intro h; simp [State.handle, hhs]
  refine ⟨⟨?_, ?_, ?_, ?_, ?_⟩, ?_⟩
  · intro h b e; rw [hh] at e; rw [hbuf]; exact inv.live h b e
  · intro b x e; rw [hbuf] at e; rw [hhs]; exact inv.ref b x e
  · intro b x e; rw [hbuf] at e; exact inv.used b x e
  · intro b x e; rw [hbuf] at e; exact inv.plain b x e
  · intro b x e; rw [hbuf] at e; exact inv.aligned b x e
  · intro h; simp [State.abs_eq, hh, hbuf]

theorem Inv.no_handle_of_dead {s : State} (inv : Inv s) {nb : Nat} (hnb : s.buf? nb = none) (h : Nat) :
    s.handle h ≠ some nb := by
  intro e
  obtain ⟨x, hx⟩ := inv.live h nb e
  rw [hnb] at hx; cases hx

theorem Inv.count_dead {s : State} (inv : Inv s) {nb : Nat} (hnb : s.buf? nb = none) : s.hs.count (some nb) = 0 := by
  rw [List.count_eq_zero]
  intro hm
  obtain ⟨i, hi, e⟩ := List.getElem_of_mem hm
  have : s.handle i = some nb := State.handle_eq_some.mpr (by rw [List.getElem?_eq_getElem hi, e])
  exact inv.no_handle_of_dead hnb i this

/-- handle `h` is pointed at a fresh private buffer `nb` (content `z`), its old buffer loses one reference -/
theorem Inv.retarget {s s' : State} (inv : Inv s) {h nb : Nat} {z : Buf}
    (hlt : h < s.hs.length) (hnb : s.buf? nb = none) (hhs : s'.hs = s.hs.set h (some nb))
    (hbuf : ∀ c, s'.buf? c = if c = nb then some z else
      if s.handle h = some c then
        (match s.buf? c with
         | some x => if x.ref = 1 then none else some { x with ref := x.ref - 1 }
         | none => none)
      else s.buf? c)
    (zr : z.ref = 1) (zu : z.used ≤ z.size) (zp : PlainT z.traits) (za : z.used % esize z.traits = 0) :
    Inv s' ∧ s'.handle h = some nb ∧ s'.abs h = z.content ∧ ∀ h', h' ≠ h → s'.abs h' = s.abs h' := by
  have hh : ∀ h1, s'.handle h1 = if h1 = h then some nb else s.handle h1 := by
    intro h1
    have := State.handle_setHandle s h h1 (some nb) hlt
    simp only [State.handle, State.setHandle] at this ⊢
    rw [hhs]; exact this
  have hdead := inv.no_handle_of_dead hnb
  have hcnt : ∀ c, s'.hs.count (some c) = (s.hs.count (some c) - if s.handle h = some c then 1 else 0) + if c = nb then 1 else 0 := by
    intro c
    rw [hhs, count_set_handle _ _ _ _ hlt]
    have e1 : (s.hs[h] = some c) ↔ (s.handle h = some c) := by
      rw [State.handle_eq_some, List.getElem?_eq_getElem hlt]; simp
    have e2 : (some nb = some c) ↔ (c = nb) := by
      constructor
      · intro e; cases e; rfl
      · intro e; rw [e]
    simp only [e1, e2]
  -- two handles on one buffer: its count is at least 2
  have two : ∀ h1 c x, h1 ≠ h → s.handle h1 = some c → s.handle h = some c → s.buf? c = some x → 2 ≤ x.ref := by
    intro h1 c x ne e1 e2 ex
    have r := inv.ref c x ex
    rcases Nat.lt_or_ge x.ref 2 with lt | ge
    · have : x.ref = 1 := by omega
      exact absurd (inv.unique ex this e2 e1) ne
    · exact ge
  refine ⟨⟨?_, ?_, ?_, ?_, ?_⟩, ?_, ?_, ?_⟩
  · intro h1 b1 e
    rw [hh] at e
    rw [hbuf]
    split at e
    · cases e; simp
    · rename_i ne
      have nb1 : b1 ≠ nb := by intro eq; subst eq; exact hdead h1 e
      simp only [nb1, if_false]
      obtain ⟨x, hx⟩ := inv.live h1 b1 e
      split
      · rename_i e2
        rw [hx]
        have := two h1 b1 x ne e e2 hx
        have : ¬ x.ref = 1 := by omega
        simp [this]
      · exact ⟨x, hx⟩
  · intro c y e
    rw [hbuf] at e
    rw [hcnt]
    split at e
    · rename_i eq; cases e
      subst eq
      have := inv.count_dead hnb
      have hd : ¬ s.handle h = some c := hdead h
      simp [hd, this, zr]
    · rename_i ne
      simp only [ne, if_false, Nat.add_zero]
      split at e
      · rename_i e2
        cases hx : s.buf? c with
        | none => rw [hx] at e; cases e
        | some x =>
          rw [hx] at e
          simp only at e
          split at e
          · cases e
          · rename_i n1
            cases e
            have := inv.ref c x hx
            simp [e2]
            omega
      · rename_i e2
        have := inv.ref c y e
        simp [e2]
        exact this
  · intro c y e
    rw [hbuf] at e
    split at e
    · cases e; exact zu
    · split at e
      · cases hx : s.buf? c with
        | none => rw [hx] at e; cases e
        | some x =>
          rw [hx] at e; simp only at e
          split at e
          · cases e
          · cases e; exact inv.used c x hx
      · exact inv.used c y e
  · intro c y e
    rw [hbuf] at e
    split at e
    · cases e; exact zp
    · split at e
      · cases hx : s.buf? c with
        | none => rw [hx] at e; cases e
        | some x =>
          rw [hx] at e; simp only at e
          split at e
          · cases e
          · cases e; exact inv.plain c x hx
      · exact inv.plain c y e
  · intro c y e
    rw [hbuf] at e
    split at e
    · cases e; exact za
    · split at e
      · cases hx : s.buf? c with
        | none => rw [hx] at e; cases e
        | some x =>
          rw [hx] at e; simp only at e
          split at e
          · cases e
          · cases e; exact inv.aligned c x hx
      · exact inv.aligned c y e
  · rw [hh]; simp
  · rw [State.abs_eq, hh]; simp [hbuf]
  · intro h1 ne
    rw [State.abs_eq, State.abs_eq, hh]
    simp only [ne, if_false]
    cases e : s.handle h1 with
    | none => rfl
    | some b1 =>
      simp only
      have nb1 : b1 ≠ nb := by intro eq; subst eq; exact hdead h1 e
      rw [hbuf]
      simp only [nb1, if_false]
      by_cases e2 : s.handle h = some b1
      · obtain ⟨x, hx⟩ := inv.live h1 b1 e
        have := two h1 b1 x ne e e2 hx
        have : ¬ x.ref = 1 := by omega
        simp [e2, hx, this, Buf.content]
      · simp [e2]


theorem le_roundUp (n sz : Nat) : n ≤ roundUp n sz := by
  unfold roundUp; split <;> omega

theorem le_allocSize (n : Nat) : n ≤ allocSize n := by
  unfold allocSize; omega

theorem setHandle_self {s : State} {h b : Nat} (hh : s.handle h = some b) : s.setHandle h (some b) = s := by
  have e := State.handle_eq_some.mp hh
  have : s.hs.set h (some b) = s.hs := by
    apply List.ext_getElem?
    intro i
    rw [List.getElem?_set]
    split
    · rename_i eq; subst eq
      obtain ⟨hl, he⟩ := List.getElem?_eq_some_iff.mp e
      simp [hl, he]
    · rfl
  simp [State.setHandle, this]

/-! ### detach -/

theorem roundUp_mod (n sz : Nat) (h : sz ≠ 0) : roundUp n sz % sz = 0 := by
  unfold roundUp
  split
  · assumption
  · have e := Nat.mod_add_div n sz
    have lt := Nat.mod_lt n (Nat.pos_of_ne_zero h)
    have : n + (sz - n % sz) = sz * (n / sz + 1) := by
      rw [Nat.mul_add, Nat.mul_one]; omega
    rw [this]; exact Nat.mul_mod_right _ _

/-- what the callers of `detach` rely on, after `arr->_buf = b` -/
def DetachPost (s : State) (h : Nat) (x : Buf) (n : Nat) (s2 : State) (nb : Nat) : Prop :=
  Inv s2 ∧ s2.hs.length = s.hs.length ∧ (∀ h', h' ≠ h → s2.abs h' = s.abs h') ∧ s2.handle h = some nb ∧
  ∃ z, s2.buf? nb = some z ∧ z.ref = 1 ∧ z.immutable = false ∧ n ≤ z.size ∧ z.traits = x.traits ∧
       ∃ k, n ≤ k ∧ z.content = x.content.take k ∧ (k < x.used → x.immutable = true ∧ x.ref < 2)

theorem fresh_not_immutable (len f : Nat) (t : Option Traits) (d : List Byte) (u : Nat) :
    Buf.immutable { State.fresh len (f - f % 2) t with data := d, used := u } = false := by
  simp [Buf.immutable, State.fresh]
  omega

theorem content_take_write (d : List Byte) (bytes : List Byte) (h : bytes.length ≤ d.length) :
    (Mem.write d 0 bytes).take bytes.length = bytes := by
  have := take_write_eq d 0 0 bytes (by omega) (by omega)
  simp [Vec.write, Vec.padTo, Vec.zeros] at this
  exact this

theorem content_length (x : Buf) (h : x.used ≤ x.size) : x.content.length = x.used := by
  simp [Buf.content]; exact Nat.min_eq_left h



/-- outcome predicate for `detach` on the buffer of handle `h` -/
def DetachSem (s : State) (h : Nat) (x : Buf) (n : Nat) (r : Out Nat) : Prop :=
  match r with
  | .fault _ => False
  | .fail s' _ => Inv s' ∧ s'.hs = s.hs ∧ ∀ h', s'.abs h' = s.abs h'
  | .ok s' nb => DetachPost s h x n (s'.setHandle h (some nb)) nb

theorem DetachSem.fail_same {s : State} (inv : Inv s) (h : Nat) (x : Buf) (n : Nat) (e : Fail) :
    DetachSem s h x n (.fail s e) := ⟨inv, rfl, fun _ => rfl⟩


/-- the state reached inside `detach` on a shared buffer before the copy -/
def copyState (s : State) (b : Nat) (x : Buf) (len : Nat) : State :=
  (s.newBuf len (x.flags - x.flags % 2) x.traits).setBuf b { x with ref := x.ref - 1 }

theorem copyState_buf? {s : State} {b : Nat} {x : Buf} (hb : s.buf? b = some x) (len c : Nat) :
    (copyState s b x len).buf? c =
      if c = b then some { x with ref := x.ref - 1 }
      else if c = s.bufs.length then some (State.fresh len (x.flags - x.flags % 2) x.traits)
      else s.buf? c := by
  have blt := State.buf?_lt hb
  unfold copyState
  rw [State.buf?_setBuf _ _ _ _ (by simp; omega), State.buf?_newBuf]

theorem copy_set_cases {s : State} {b : Nat} {x : Buf} (hb : s.buf? b = some x) (hp : PlainT x.traits) (len : Nat) :
    (∃ e, bufferSet (copyState s b x len) s.bufs.length x.traits 0 x.content true = .fail (copyState s b x len) e) ∨
    (x.content.length ≤ allocSize len ∧ ∃ esz v, bufferSet (copyState s b x len) s.bufs.length x.traits 0 x.content true =
      .ok ((copyState s b x len).setBuf s.bufs.length (setPlain (State.fresh len (x.flags - x.flags % 2) x.traits) esz 0 x.content)) v) := by
  have blt := State.buf?_lt hb
  have nbne : s.bufs.length ≠ b := by omega
  have hz : (copyState s b x len).buf? s.bufs.length = some (State.fresh len (x.flags - x.flags % 2) x.traits) := by
    rw [copyState_buf? hb]; simp [nbne]
  have hzp : PlainT (State.fresh len (x.flags - x.flags % 2) x.traits).traits := hp
  have hbs := bufferSet_plain hz hzp 0 x.content true
  have e1 : (State.fresh len (x.flags - x.flags % 2) x.traits).traits = x.traits := rfl
  have e2 : (State.fresh len (x.flags - x.flags % 2) x.traits).size = allocSize len := by simp [State.fresh, Buf.size]
  rw [e1, e2] at hbs
  rw [hbs]
  by_cases fit : 0 + x.content.length > allocSize len
  · rw [if_pos fit]; exact Or.inl ⟨_, rfl⟩
  · rw [if_neg fit]
    generalize x.traits = t
    cases t with
    | none => exact Or.inr ⟨by omega, 1, _, rfl⟩
    | some t =>
      simp only
      split
      · exact Or.inl ⟨_, rfl⟩
      · exact Or.inr ⟨by omega, t.size, _, rfl⟩

theorem detach_copy_fail {s : State} (inv : Inv s) {h b : Nat} {x : Buf} (hb : s.buf? b = some x)
    (shared : 2 ≤ x.ref) (n len : Nat) :
    DetachSem s h x n
      (match unref (copyState s b x len) s.bufs.length with
       | .ok s4 _ =>
         match s4.buf? b with
         | none => .fault "detach: freed buffer"
         | some y => .fail (s4.setBuf b { y with ref := y.ref + 1 }) .null
       | .fail s4 e => .fail s4 e
       | .fault w => .fault w) := by
  have blt := State.buf?_lt hb
  have hp := inv.plain b x hb
  have nbne : s.bufs.length ≠ b := by omega
  have hz : (copyState s b x len).buf? s.bufs.length = some (State.fresh len (x.flags - x.flags % 2) x.traits) := by
    rw [copyState_buf? hb]; simp [nbne]
  rw [unref_plain hz hp]
  simp only [State.fresh]
  simp only [Nat.succ_ne_zero, if_false, ne_eq, not_true_eq_false]
  have l1 : (copyState s b x len).bufs.length = s.bufs.length + 1 := by simp [copyState]
  generalize hs4 : ((copyState s b x len).setBuf s.bufs.length _).freeBuf s.bufs.length = s4
  have h4 : ∀ c, s4.buf? c = if c = s.bufs.length then none else (copyState s b x len).buf? c := by
    intro c
    rw [← hs4, State.buf?_freeBuf _ _ _ (by simp; omega), State.buf?_setBuf _ _ _ _ (by omega)]
    split <;> rfl
  have h4b : s4.buf? b = some { x with ref := x.ref - 1 } := by
    rw [h4, copyState_buf? hb]
    have : ¬ b = s.bufs.length := fun e => nbne e.symm
    simp [this]
  rw [h4b]
  simp only
  have l4 : s4.bufs.length = s.bufs.length + 1 := by rw [← hs4]; simp [l1]
  have := Inv.congr (s' := s4.setBuf b { x with ref := x.ref - 1 + 1 }) inv (by
      intro c
      rw [State.buf?_setBuf _ _ _ _ (by omega), h4, copyState_buf? hb]
      by_cases e1 : c = b
      · subst e1
        have : x.ref - 1 + 1 = x.ref := by omega
        simp [this, hb]
      · by_cases e2 : c = s.bufs.length
        · subst e2; simp [e1, State.buf?_ge_length]
        · simp [e1, e2])
    (by rw [State.setBuf_hs, ← hs4]; simp [copyState])
  exact ⟨this.1, by rw [State.setBuf_hs, ← hs4]; simp [copyState], this.2⟩


theorem setPlain_fresh (len f : Nat) (t : Option Traits) (esz : Nat) (bytes : List Byte) :
    setPlain (State.fresh len f t) esz 0 bytes =
      { State.fresh len f t with data := Mem.write (List.replicate (allocSize len) poison) 0 bytes, used := bytes.length } := by
  simp [setPlain, State.fresh]

theorem detach_copy_ok {s : State} (inv : Inv s) {h b : Nat} {x : Buf} (hh : s.handle h = some b)
    (hb : s.buf? b = some x) (shared : 2 ≤ x.ref) (n len esz : Nat) (nlen : n ≤ len)
    (fit : x.content.length ≤ allocSize len) :
    DetachPost s h x n
      (((copyState s b x len).setBuf s.bufs.length
          (setPlain (State.fresh len (x.flags - x.flags % 2) x.traits) esz 0 x.content)).setHandle h (some s.bufs.length))
      s.bufs.length := by
  have hlt := State.handle_lt hh
  have blt := State.buf?_lt hb
  have hu := inv.used b x hb
  have hp := inv.plain b x hb
  have hnb : s.buf? s.bufs.length = none := State.buf?_ge_length s _ (Nat.le_refl _)
  have nbne : s.bufs.length ≠ b := by omega
  rw [setPlain_fresh]
  generalize hz : ({ State.fresh len (x.flags - x.flags % 2) x.traits with
      data := Mem.write (List.replicate (allocSize len) poison) 0 x.content, used := x.content.length } : Buf) = z
  have zc : z.content = x.content := by
    rw [← hz]
    simp only [Buf.content]
    exact content_take_write _ _ (by rw [List.length_replicate]; exact fit)
  have zsize : z.size = allocSize len := by
    rw [← hz]; simp only [Buf.size]
    rw [write_length _ _ _ (by rw [List.length_replicate]; omega)]; simp
  have l1 : (copyState s b x len).bufs.length = s.bufs.length + 1 := by simp [copyState]
  have ret := Inv.retarget (s' := ((copyState s b x len).setBuf s.bufs.length z).setHandle h (some s.bufs.length))
    inv (h := h) (nb := s.bufs.length) (z := z) hlt hnb (by simp [copyState])
    (by
      intro c
      rw [State.buf?_setHandle, State.buf?_setBuf _ _ _ _ (by omega), copyState_buf? hb]
      by_cases e1 : c = s.bufs.length
      · simp [e1]
      · simp only [e1, if_false, hh]
        by_cases e2 : c = b
        · subst e2
          have : ¬ x.ref = 1 := by omega
          simp [hb, this]
        · have : ¬ some b = some c := by intro e; cases e; exact e2 rfl
          simp [e2, this])
    (by rw [← hz]; rfl)
    (by rw [zsize, ← hz]; exact fit)
    (by rw [← hz]; exact hp)
    (by rw [← hz]; show x.content.length % esize x.traits = 0
        rw [content_length x hu]; exact inv.aligned b x hb)
  refine ⟨ret.1, by simp [copyState], ret.2.2.2, ret.2.1, z, ?_, by rw [← hz]; rfl, ?_, ?_, by rw [← hz]; rfl, max n x.used, by omega, ?_, fun c => by omega⟩
  · rw [State.buf?_setHandle, State.buf?_setBuf _ _ _ _ (by omega)]; simp
  · rw [← hz]; exact fresh_not_immutable _ _ _ _ _
  · rw [zsize]; have := le_allocSize len; omega
  · rw [zc, List.take_of_length_le]
    rw [content_length x hu]; omega


theorem detach_move {s : State} (inv : Inv s) {h b : Nat} {x : Buf} (hh : s.handle h = some b)
    (hb : s.buf? b = some x) (uniq : ¬ 2 ≤ x.ref) (n len : Nat) (nlen : n ≤ len)
    (lal : len % esize x.traits = 0) (trunc : len < x.used → x.immutable = true) :
    DetachSem s h x n (detachMove (s.newBuf len (x.flags - x.flags % 2) x.traits) b x s.bufs.length len) := by
  have hlt := State.handle_lt hh
  have blt := State.buf?_lt hb
  have hr := inv.ref b x hb
  have hu := inv.used b x hb
  have hp := inv.plain b x hb
  have hnb : s.buf? s.bufs.length = none := State.buf?_ge_length s _ (Nat.le_refl _)
  have nbne : s.bufs.length ≠ b := by omega
  have bne : ¬ b = s.bufs.length := fun e => nbne e.symm
  have r1 : x.ref = 1 := by omega
  unfold detachMove
  simp only
  generalize hs2 : (s.newBuf len (x.flags - x.flags % 2) x.traits).setBuf b { x with ref := 0 } = s2
  have l2 : s2.bufs.length = s.bufs.length + 1 := by rw [← hs2]; simp
  have h2 : ∀ c, s2.buf? c = if c = b then some { x with ref := 0 } else if c = s.bufs.length then
      some (State.fresh len (x.flags - x.flags % 2) x.traits) else s.buf? c := by
    intro c; rw [← hs2, State.buf?_setBuf _ _ _ _ (by simp; omega), State.buf?_newBuf]
  have rr : finiTail s2 b x len = Out.ok s2 () := by
    unfold finiTail
    split
    · cases ht : x.traits with
      | none => rfl
      | some t => have := hp t ht; simp [this.2]
    · rfl
  rw [rr]
  simp only
  rw [h2 b, h2 s.bufs.length]
  simp only [if_true, nbne, if_false]
  have hmin : min x.used len ≤ allocSize len := by have := le_allocSize len; omega
  have notgt : ¬ min x.used len > (State.fresh len (x.flags - x.flags % 2) x.traits).size := by
    simp only [State.fresh, Buf.size, List.length_replicate]; omega
  rw [if_neg notgt]
  show DetachPost s h x n _ s.bufs.length
  generalize hz : ({ State.fresh len (x.flags - x.flags % 2) x.traits with
      data := Mem.write (State.fresh len (x.flags - x.flags % 2) x.traits).data 0 (List.take (min x.used len) x.data),
      used := min x.used len } : Buf) = z
  have tl : (List.take (min x.used len) x.data).length = min x.used len := by
    rw [List.length_take]; simp only [Buf.size] at hu; omega
  have zc : z.content = x.content.take len := by
    rw [← hz]
    simp only [Buf.content, State.fresh]
    have := content_take_write (List.replicate (allocSize len) poison) (List.take (min x.used len) x.data)
      (by rw [tl, List.length_replicate]; exact hmin)
    rw [tl] at this
    rw [this, List.take_take, Nat.min_comm]
  have zsize : z.size = allocSize len := by
    rw [← hz]; simp only [Buf.size, State.fresh]
    rw [write_length _ _ _ (by rw [tl, List.length_replicate]; omega)]; simp
  have ret := Inv.retarget (s' := ((s2.setBuf s.bufs.length z).freeBuf b).setHandle h (some s.bufs.length))
    inv (h := h) (nb := s.bufs.length) (z := z) hlt hnb (by rw [← hs2]; simp)
    (by
      intro c
      rw [State.buf?_setHandle, State.buf?_freeBuf _ _ _ (by simp; omega), State.buf?_setBuf _ _ _ _ (by omega), h2]
      by_cases e1 : c = s.bufs.length
      · subst e1
        simp [nbne]
      · simp only [e1, if_false, hh]
        by_cases e2 : c = b
        · subst e2
          simp [hb, r1]
        · have : ¬ some b = some c := by intro e; cases e; exact e2 rfl
          simp [e2, this])
    (by rw [← hz]; rfl)
    (by rw [zsize, ← hz]; exact hmin)
    (by rw [← hz]; exact hp)
    (by rw [← hz]; show min x.used len % esize x.traits = 0
        have := inv.aligned b x hb
        rw [Nat.min_def]; split <;> assumption)
  refine ⟨ret.1, by rw [← hs2]; simp, ret.2.2.2, ret.2.1, z, ?_, by rw [← hz]; rfl, ?_, ?_, by rw [← hz]; rfl, len, nlen, zc, fun c => ⟨trunc c, by omega⟩⟩
  · rw [State.buf?_setHandle, State.buf?_freeBuf _ _ _ (by simp; omega), State.buf?_setBuf _ _ _ _ (by omega)]
    simp [nbne]
  · rw [← hz]; exact fresh_not_immutable _ _ _ _ _
  · rw [zsize]; have := le_allocSize len; omega

theorem detach_sem {s : State} (inv : Inv s) {h b : Nat} {x : Buf} (hh : s.handle h = some b)
    (hb : s.buf? b = some x) (n : Nat) : DetachSem s h x n (detach s b n) := by
  have hlt := State.handle_lt hh
  have blt := State.buf?_lt hb
  have hr := inv.ref b x hb
  have hu := inv.used b x hb
  have hp := inv.plain b x hb
  have hnb : s.buf? s.bufs.length = none := State.buf?_ge_length s _ (Nat.le_refl _)
  have nbne : s.bufs.length ≠ b := by omega
  unfold detach
  rw [hb]
  simp only
  split
  · exact DetachSem.fail_same inv _ _ _ _
  · rename_i sz0ne
    generalize hlen : roundUp n (esize x.traits) = len
    have nlen : n ≤ len := by rw [← hlen]; exact le_roundUp n _
    split
    · -- in place
      rename_i c
      show DetachPost s h x n (s.setHandle h (some b)) b
      rw [setHandle_self hh]
      refine ⟨inv, rfl, fun _ _ => rfl, hh, x, hb, by omega, by simpa using c.2.2, by omega, rfl, max n x.used, by omega, ?_, fun c => by omega⟩
      rw [List.take_of_length_le]
      rw [content_length x hu]; omega
    · split
      · exact DetachSem.fail_same inv _ _ _ _
      · rename_i notinplace notnocopy
        split
        · -- shared: copy
          rename_i shared
          unfold detachCopy
          simp only
          show DetachSem s h x n (match bufferSet (copyState s b x len) s.bufs.length x.traits 0 x.content true with
            | .ok s3 _ => .ok s3 s.bufs.length
            | .fail s3 _ =>
              (match unref s3 s.bufs.length with
               | .ok s4 _ =>
                 match s4.buf? b with
                 | none => .fault "detach: freed buffer"
                 | some y => .fail (s4.setBuf b { y with ref := y.ref + 1 }) .null
               | .fail s4 e => .fail s4 e
               | .fault w => .fault w)
            | .fault w => .fault w)
          rcases copy_set_cases hb hp len with ⟨e, he⟩ | ⟨fit, esz, v, he⟩
          · rw [he]
            exact detach_copy_fail inv hb shared n len
          · rw [he]
            exact detach_copy_ok inv hh hb shared n len esz nlen fit
        · -- unique: move
          rename_i uniq
          exact detach_move inv hh hb uniq n len nlen (by rw [← hlen]; exact roundUp_mod n _ sz0ne)
            (by
              intro c
              have : ¬ (x.ref < 2 ∧ len ≤ x.size ∧ ¬ x.immutable = true) := notinplace
              apply Decidable.byContradiction
              intro ni
              exact this ⟨by omega, by simp only [Buf.size] at hu ⊢; omega, ni⟩)


end Mpt.Heap
