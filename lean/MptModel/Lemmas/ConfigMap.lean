/-
  The configuration tree (node_query / node_assign / remove of config_global.c on ordered trees)
  refines the path -> value map.
-/
import MptModel.Impl.Config
import MptModel.Spec.PathMap
namespace Mpt.Config
open Mpt Mpt.PathMap

/-- the value a query for exactly this path finds (`none`: no such node, or a node without value) -/
def valueAt (l : List CNode) (k : Key) : Option Value := (findExact l k).bind CNode.value

/-- sibling names are unique at every level -/
def Uniq : List CNode → Prop
  | [] => True
  | (.mk n _ ks) :: ts => (∀ c ∈ ts, c.name ≠ n) ∧ Uniq ks ∧ Uniq ts

/-! ### `locate` -/

theorem locate_lt : ∀ {l : List CNode} {nm : List Byte} {i : Nat}, locate l nm = some i → i < l.length
  | [], _, _, h => by simp [locate] at h
  | c :: cs, nm, i, h => by
    simp only [locate] at h
    by_cases hc : c.name = nm
    · simp [hc] at h; subst h; simp
    · simp [hc] at h
      obtain ⟨j, hj, rfl⟩ := h
      have := locate_lt hj
      simp; omega

theorem locate_name : ∀ {l : List CNode} {nm : List Byte} {i : Nat}, locate l nm = some i →
    ∃ c, l[i]? = some c ∧ c.name = nm
  | [], _, _, h => by simp [locate] at h
  | d :: ts, nm, i, h => by
    simp only [locate] at h
    by_cases hc : d.name = nm
    · simp [hc] at h; subst h; exact ⟨d, by simp, hc⟩
    · simp [hc] at h
      obtain ⟨j, hj, rfl⟩ := h
      simpa using locate_name hj

theorem locate_none_iff : ∀ {l : List CNode} {nm : List Byte}, locate l nm = none ↔ ∀ c ∈ l, c.name ≠ nm
  | [], _ => by simp [locate]
  | d :: ts, nm => by
    simp only [locate]
    by_cases hc : d.name = nm
    · simp [hc]
    · simp [hc, locate_none_iff (l := ts)]

theorem locate_append_none : ∀ {l : List CNode} {nm : List Byte}, locate l nm = none → ∀ (m : List CNode),
    locate (l ++ m) nm = (locate m nm).map (· + l.length)
  | [], _, _, m => by simp
  | c :: ts, nm, h, m => by
    simp only [locate] at h
    by_cases hc : c.name = nm
    · simp [hc] at h
    · simp [hc] at h
      simp only [List.cons_append, locate, hc, ↓reduceIte, locate_append_none h m]
      cases locate m nm <;> simp; omega

theorem locate_append_some : ∀ {l : List CNode} {nm : List Byte} {i : Nat}, locate l nm = some i → ∀ (m : List CNode),
    locate (l ++ m) nm = some i
  | [], _, _, h, _ => by simp [locate] at h
  | c :: ts, nm, i, h, m => by
    simp only [locate] at h
    simp only [List.cons_append, locate]
    by_cases hc : c.name = nm
    · simpa [hc] using h
    · simp [hc] at h ⊢
      obtain ⟨j, hj, rfl⟩ := h
      exact ⟨j, locate_append_some hj m, rfl⟩

/-- replacing a node by one of the same name does not change where names are found -/
theorem locate_set : ∀ {l : List CNode} {i : Nat} {c : CNode} {nm : List Byte},
    (∀ d, l[i]? = some d → c.name = d.name) → locate (l.set i c) nm = locate l nm
  | [], _, _, _, _ => by simp
  | d :: ts, 0, c, nm, hc => by
    have := hc d (by simp)
    simp [List.set, locate, this]
  | d :: ts, j + 1, c, nm, hc => by
    simp only [List.set, locate]
    rw [locate_set (fun e he => hc e (by simpa using he))]

theorem chain_ne_nil (e : List Byte) (es : Key) (v : Option Value) : chain (e :: es) v ≠ [] := by
  cases es <;> simp [chain]

/-- looking up along a freshly created chain -/
theorem valueAt_chain : ∀ (k : Key) (v : Option Value) (k' : Key), k ≠ [] →
    valueAt (chain k v) k' = if k' = k then v else none
  | [], _, _, h => absurd rfl h
  | [e], v, k', _ => by
    cases k' with
    | nil => simp [valueAt, findExact]
    | cons e' es' =>
      simp only [valueAt, findExact, chain, locate, CNode.name]
      by_cases he : e = e'
      · subst he
        cases es' with
        | nil => simp [CNode.value]
        | cons a as => simp [CNode.kids, findExact, locate]
      · simp [he]
        intro h; exact absurd h.symm he
  | e :: e2 :: es, v, k', _ => by
    cases k' with
    | nil => simp [valueAt, findExact]
    | cons e' es' =>
      simp only [valueAt, findExact, chain, locate, CNode.name]
      by_cases he : e = e'
      · subst he
        cases es' with
        | nil => simp [CNode.value]
        | cons a as =>
          have ih := valueAt_chain (e2 :: es) v (a :: as) (by simp)
          simp only [valueAt] at ih
          simp [CNode.kids, ih]
      · simp [he]
        intro h; exact absurd h.symm he

@[simp] theorem CNode.name_mk (n : List Byte) (v : Option (List Byte)) (k : List CNode) : (CNode.mk n v k).name = n := rfl
@[simp] theorem CNode.value_mk (n : List Byte) (v : Option (List Byte)) (k : List CNode) : (CNode.mk n v k).value = v := rfl
@[simp] theorem CNode.kids_mk (n : List Byte) (v : Option (List Byte)) (k : List CNode) : (CNode.mk n v k).kids = k := rfl

theorem valueAt_nil_key (l : List CNode) : valueAt l [] = none := by simp [valueAt, findExact]

theorem valueAt_cons_key (l : List CNode) (e : List Byte) (es : Key) :
    valueAt l (e :: es) =
      match locate l e with
      | none => none
      | some i =>
        match l[i]? with
        | none => none
        | some c => if es.isEmpty then c.value else valueAt c.kids es := by
  simp only [valueAt, findExact]
  cases h1 : locate l e with
  | none => simp
  | some i =>
    simp only
    cases h2 : l[i]? with
    | none => simp
    | some c => by_cases h : es.isEmpty <;> simp_all

/-- keys whose first element is not found in `l` are looked up in what is appended -/
theorem valueAt_append_none {l : List CNode} {e : List Byte} (h : locate l e = none) (m : List CNode) (es : Key) :
    valueAt (l ++ m) (e :: es) = valueAt m (e :: es) := by
  rw [valueAt_cons_key, valueAt_cons_key, locate_append_none h]
  cases hm : locate m e with
  | none => simp
  | some j =>
    simp only [Option.map_some]
    rw [List.getElem?_append_right (by omega)]
    simp

/-- keys whose first element is found in `l` do not see what is appended -/
theorem valueAt_append_some {l : List CNode} {e : List Byte} {i : Nat} (h : locate l e = some i) (m : List CNode) (es : Key) :
    valueAt (l ++ m) (e :: es) = valueAt l (e :: es) := by
  rw [valueAt_cons_key, valueAt_cons_key, locate_append_some h, h]
  simp only
  rw [List.getElem?_append_left (locate_lt h)]

/-- replacing the node found for `e` by a node of the same name -/
theorem valueAt_set {l : List CNode} {e : List Byte} {i : Nat} {c c' : CNode}
    (h : locate l e = some i) (hc : l[i]? = some c) (hn : c'.name = c.name) (e' : List Byte) (es' : Key) :
    valueAt (l.set i c') (e' :: es') =
      if e' = e then (if es'.isEmpty then c'.value else valueAt c'.kids es') else valueAt l (e' :: es') := by
  have hi := locate_lt h
  have hloc : locate (l.set i c') e' = locate l e' := locate_set (by intro d hd; rw [hc] at hd; cases hd; exact hn)
  rw [valueAt_cons_key, hloc]
  by_cases he : e' = e
  · subst he
    simp only [h, ↓reduceIte]
    simp [hi]
  · simp only [he, ↓reduceIte]
    rw [valueAt_cons_key]
    cases hj : locate l e' with
    | none => simp
    | some j =>
      have hji : j ≠ i := by
        rintro rfl
        obtain ⟨d, hd, hdn⟩ := locate_name hj
        obtain ⟨d', hd', hdn'⟩ := locate_name h
        rw [hd] at hd'
        cases hd'
        exact he (hdn.symm.trans hdn')
      simp only
      rw [List.getElem?_set_ne (Ne.symm hji)]

theorem nodeAssign_some : ∀ (k : Key) (l : List CNode) (v : Value), k ≠ [] → ∃ l', nodeAssign l k v = some l'
  | [], _, _, h => absurd rfl h
  | e :: es, l, v, _ => by
    simp only [nodeAssign]
    cases hl : locate l e with
    | none => exact ⟨_, rfl⟩
    | some i =>
      obtain ⟨c, hc, _⟩ := locate_name hl
      simp only [hc]
      by_cases hes : es.isEmpty
      · simp [hes]
      · simp only [hes]
        have : es ≠ [] := by intro h; simp [h] at hes
        obtain ⟨ks', hk⟩ := nodeAssign_some es c.kids v this
        simp [hk]

/-- get-after-set and independence: after an assignment the assigned path reads the new value and
    every other path reads what it read before -/
theorem valueAt_assign : ∀ (k : Key) (l l' : List CNode) (v : Value), nodeAssign l k v = some l' →
    ∀ k', valueAt l' k' = if k' = k then some v else valueAt l k'
  | [], _, _, _, h, _ => by simp [nodeAssign] at h
  | e :: es, l, l', v, h, k' => by
    simp only [nodeAssign] at h
    cases k' with
    | nil => simp [valueAt_nil_key]
    | cons e' es' =>
      cases hl : locate l e with
      | none =>
        simp only [hl] at h
        cases h
        cases hl' : locate l e' with
        | some i =>
          rw [valueAt_append_some hl']
          have : ¬ (e' :: es' = e :: es) := by
            intro heq; cases heq; rw [hl] at hl'; cases hl'
          simp [this]
        | none =>
          rw [valueAt_append_none hl', valueAt_chain _ _ _ (by simp)]
          have : valueAt l (e' :: es') = none := by rw [valueAt_cons_key, hl']
          rw [this]
      | some i =>
        obtain ⟨c, hc, hcn⟩ := locate_name hl
        simp only [hl, hc] at h
        by_cases hes : es.isEmpty
        · simp only [hes, ↓reduceIte] at h
          cases h
          have hes' : es = [] := by simpa using hes
          subst hes'
          rw [valueAt_set (c' := .mk c.name (some v) c.kids) hl hc rfl]
          by_cases he : e' = e
          · subst he
            by_cases hes'' : es'.isEmpty
            · have : es' = [] := by simpa using hes''
              subst this
              simp
            · have hne : es' ≠ [] := by intro h; simp [h] at hes''
              simp only [↓reduceIte, hes'', CNode.kids_mk]
              have : ¬ (e' :: es' = [e']) := by simp [hne]
              simp only [this, ↓reduceIte]
              rw [valueAt_cons_key, hl]
              simp [hc, hes'']
          · have : ¬ (e' :: es' = [e]) := by simp [he]
            simp [he, this]
        · simp only [hes] at h
          cases hk : nodeAssign c.kids es v with
          | none => simp [hk] at h
          | some ks' =>
            simp only [hk] at h
            cases h
            rw [valueAt_set (c' := .mk c.name c.value ks') hl hc rfl]
            by_cases he : e' = e
            · subst he
              have hne : es ≠ [] := by intro h; simp [h] at hes
              by_cases hes'' : es'.isEmpty
              · have : es' = [] := by simpa using hes''
                subst this
                have : ¬ ([e'] = e' :: es) := by simp [hne.symm]
                simp only [↓reduceIte, List.isEmpty_nil, CNode.value_mk, this]
                rw [valueAt_cons_key, hl]
                simp [hc]
              · simp only [↓reduceIte, hes'', CNode.kids_mk]
                rw [valueAt_assign es c.kids ks' v hk es']
                rw [valueAt_cons_key (l := l), hl]
                simp only [hc, hes'']
                by_cases heq : es' = es <;> simp [heq]
            · have : ¬ (e' :: es' = e :: es) := by simp [he]
              simp [he, this]


theorem Uniq_cons (c : CNode) (ts : List CNode) :
    Uniq (c :: ts) ↔ (∀ d ∈ ts, d.name ≠ c.name) ∧ Uniq c.kids ∧ Uniq ts := by
  cases c with
  | mk n v ks => simp [Uniq]

theorem valueAt_cons_skip {c : CNode} {ts : List CNode} {e : List Byte} (h : c.name ≠ e) (es : Key) :
    valueAt (c :: ts) (e :: es) = valueAt ts (e :: es) := by
  rw [valueAt_cons_key, valueAt_cons_key]
  simp only [locate, h, ↓reduceIte]
  cases locate ts e with
  | none => simp
  | some j => simp

theorem valueAt_cons_hit {c : CNode} {ts : List CNode} {e : List Byte} (h : c.name = e) (es : Key) :
    valueAt (c :: ts) (e :: es) = if es.isEmpty then c.value else valueAt c.kids es := by
  rw [valueAt_cons_key]
  simp [locate, h]

/-- erasing the (only) node called `e`: keys starting with `e` find nothing, other keys are unaffected -/
theorem valueAt_eraseIdx : ∀ {l : List CNode} {e : List Byte} {i : Nat}, Uniq l → locate l e = some i →
    ∀ (e' : List Byte) (es' : Key),
    valueAt (l.eraseIdx i) (e' :: es') = if e' = e then none else valueAt l (e' :: es')
  | [], _, _, _, h, _, _ => by simp [locate] at h
  | c :: ts, e, i, hu, h, e', es' => by
    rw [Uniq_cons] at hu
    simp only [locate] at h
    by_cases hc : c.name = e
    · simp [hc] at h; subst h
      simp only [List.eraseIdx_zero, List.tail_cons]
      by_cases he : e' = e
      · subst he
        have : locate ts e' = none := locate_none_iff.2 (fun d hd => by rw [← hc]; exact hu.1 d hd)
        rw [valueAt_cons_key, this]
        simp
      · simp only [he, ↓reduceIte]
        rw [valueAt_cons_skip (by rw [hc]; exact fun h => he h.symm)]
    · simp [hc] at h
      obtain ⟨j, hj, rfl⟩ := h
      simp only [List.eraseIdx_cons_succ]
      by_cases hce : c.name = e'
      · have he : ¬ e' = e := by rintro rfl; exact hc hce
        rw [valueAt_cons_hit hce, valueAt_cons_hit hce]
        simp [he]
      · rw [valueAt_cons_skip hce, valueAt_cons_skip hce]
        exact valueAt_eraseIdx hu.2.2 hj e' es'

theorem Uniq_getElem : ∀ {l : List CNode} {i : Nat} {c : CNode}, Uniq l → l[i]? = some c → Uniq c.kids
  | [], _, _, _, h => by simp at h
  | d :: ts, 0, c, hu, h => by
    rw [Uniq_cons] at hu
    simp at h; subst h; exact hu.2.1
  | d :: ts, j + 1, c, hu, h => by
    rw [Uniq_cons] at hu
    exact Uniq_getElem hu.2.2 (by simpa using h)

/-- removal: the path and everything beneath it reads "absent" afterwards, every other path reads what it read before -/
theorem valueAt_remove : ∀ (k : Key) (l l' : List CNode), Uniq l → removeExact l k = some l' →
    ∀ k', valueAt l' k' = if k.isPrefixOf k' then none else valueAt l k'
  | [], _, _, _, h, _ => by simp [removeExact] at h
  | e :: es, l, l', hu, h, k' => by
    simp only [removeExact] at h
    cases k' with
    | nil => simp [valueAt_nil_key, List.isPrefixOf]
    | cons e' es' =>
      cases hl : locate l e with
      | none => simp [hl] at h
      | some i =>
        obtain ⟨c, hc, hcn⟩ := locate_name hl
        simp only [hl, hc] at h
        simp only [List.isPrefixOf]
        by_cases hes : es.isEmpty
        · simp only [hes, ↓reduceIte] at h
          cases h
          have hes' : es = [] := by simpa using hes
          subst hes'
          rw [valueAt_eraseIdx hu hl]
          by_cases he : e' = e
          · simp [he]
          · have : ¬ e = e' := fun h => he h.symm
            simp [he, this]
        · simp only [hes] at h
          have hne : es ≠ [] := by intro h; simp [h] at hes
          cases hk : removeExact c.kids es with
          | none => simp [hk] at h
          | some ks' =>
            simp only [hk] at h
            cases h
            rw [valueAt_set (c' := .mk c.name c.value ks') hl hc rfl]
            by_cases he : e' = e
            · subst he
              simp only [↓reduceIte, beq_self_eq_true, Bool.true_and, CNode.value_mk, CNode.kids_mk]
              by_cases hes'' : es'.isEmpty
              · have : es' = [] := by simpa using hes''
                subst this
                have hpre : es.isPrefixOf [] = false := by
                  cases es with
                  | nil => exact absurd rfl hne
                  | cons a as => rfl
                simp only [List.isEmpty_nil, ↓reduceIte, hpre, Bool.false_eq_true]
                rw [valueAt_cons_key, hl]
                simp [hc]
              · simp only [hes'', Bool.false_eq_true, ↓reduceIte]
                rw [valueAt_remove es c.kids ks' (Uniq_getElem hu hc) hk es']
                rw [valueAt_cons_key (l := l), hl]
                simp [hc, hes'']
            · have : (e == e') = false := by simp; exact fun h => he h.symm
              simp [he, this]


/-- nothing to remove: no path beneath `k` holds a value -/
theorem valueAt_remove_none : ∀ (k : Key) (l : List CNode), k ≠ [] → removeExact l k = none →
    ∀ k', k.isPrefixOf k' = true → valueAt l k' = none
  | [], _, h, _, _, _ => absurd rfl h
  | e :: es, l, _, h, k', hp => by
    cases k' with
    | nil => simp [List.isPrefixOf] at hp
    | cons e' es' =>
      simp only [List.isPrefixOf, Bool.and_eq_true, beq_iff_eq] at hp
      obtain ⟨rfl, hp'⟩ := hp
      simp only [removeExact] at h
      rw [valueAt_cons_key]
      cases hl : locate l e with
      | none => simp
      | some i =>
        obtain ⟨c, hc, _⟩ := locate_name hl
        simp only [hl, hc] at h ⊢
        by_cases hes : es.isEmpty
        · simp [hes] at h
        · simp only [hes] at h
          have hne : es ≠ [] := by intro h; simp [h] at hes
          cases hk : removeExact c.kids es with
          | some ks' => simp [hk] at h
          | none =>
            have hes' : ¬ es'.isEmpty := by
              intro h
              have : es' = [] := by simpa using h
              subst this
              cases es with
              | nil => exact hne rfl
              | cons a as => simp [List.isPrefixOf] at hp'
            simp only [hes', Bool.false_eq_true, ↓reduceIte]
            exact valueAt_remove_none es c.kids hne hk es' hp'

/-! ### unique sibling names are kept -/

theorem Uniq_chain : ∀ (k : Key) (v : Option Value), Uniq (chain k v)
  | [], _ => by simp [chain, Uniq]
  | [e], v => by simp [chain, Uniq]
  | e :: e2 :: es, v => by
    simp only [chain, Uniq]
    exact ⟨by simp, Uniq_chain (e2 :: es) v, trivial⟩

theorem Uniq_append : ∀ {l m : List CNode}, Uniq l → Uniq m → (∀ c ∈ l, ∀ d ∈ m, d.name ≠ c.name) → Uniq (l ++ m)
  | [], m, _, hm, _ => by simpa using hm
  | c :: ts, m, hl, hm, hd => by
    rw [Uniq_cons] at hl
    rw [List.cons_append, Uniq_cons]
    refine ⟨?_, hl.2.1, Uniq_append hl.2.2 hm (fun c' hc' d hdm => hd c' (by simp [hc']) d hdm)⟩
    intro d hdm
    rw [List.mem_append] at hdm
    rcases hdm with h | h
    · exact hl.1 d h
    · exact hd c (by simp) d h

theorem Uniq_set : ∀ {l : List CNode} {i : Nat} {c c' : CNode}, Uniq l → l[i]? = some c → c'.name = c.name →
    Uniq c'.kids → Uniq (l.set i c')
  | [], _, _, _, _, h, _, _ => by simp at h
  | d :: ts, 0, c, c', hu, h, hn, hk => by
    rw [Uniq_cons] at hu
    simp at h; subst h
    simp only [List.set, Uniq_cons]
    exact ⟨by rw [hn]; exact hu.1, hk, hu.2.2⟩
  | d :: ts, j + 1, c, c', hu, h, hn, hk => by
    rw [Uniq_cons] at hu
    simp only [List.set, Uniq_cons]
    refine ⟨?_, hu.2.1, Uniq_set hu.2.2 (by simpa using h) hn hk⟩
    intro x hx
    have hj : ts[j]? = some c := by simpa using h
    rcases List.mem_or_eq_of_mem_set hx with h1 | h1
    · exact hu.1 x h1
    · subst h1
      rw [hn]
      exact hu.1 c (List.mem_of_getElem? hj)

theorem Uniq_eraseIdx : ∀ {l : List CNode} (i : Nat), Uniq l → Uniq (l.eraseIdx i)
  | [], _, _ => by simp [Uniq]
  | d :: ts, 0, hu => by
    rw [Uniq_cons] at hu
    simpa using hu.2.2
  | d :: ts, j + 1, hu => by
    rw [Uniq_cons] at hu
    simp only [List.eraseIdx_cons_succ, Uniq_cons]
    exact ⟨fun x hx => hu.1 x (List.mem_of_mem_eraseIdx hx), hu.2.1, Uniq_eraseIdx j hu.2.2⟩

theorem Uniq_assign : ∀ (k : Key) (l l' : List CNode) (v : Value), Uniq l → nodeAssign l k v = some l' → Uniq l'
  | [], _, _, _, _, h => by simp [nodeAssign] at h
  | e :: es, l, l', v, hu, h => by
    simp only [nodeAssign] at h
    cases hl : locate l e with
    | none =>
      simp only [hl] at h
      cases h
      refine Uniq_append hu (Uniq_chain _ _) ?_
      intro c hc d hd
      have hne := locate_none_iff.1 hl c hc
      have : d.name = e := by
        cases es with
        | nil => simp [chain] at hd; subst hd; rfl
        | cons a as => simp [chain] at hd; subst hd; rfl
      rw [this]
      exact fun h => hne h.symm
    | some i =>
      obtain ⟨c, hc, _⟩ := locate_name hl
      simp only [hl, hc] at h
      by_cases hes : es.isEmpty
      · simp only [hes, ↓reduceIte] at h
        cases h
        exact Uniq_set (c' := .mk c.name (some v) c.kids) hu hc rfl (by simpa using Uniq_getElem hu hc)
      · simp only [hes] at h
        cases hk : nodeAssign c.kids es v with
        | none => simp [hk] at h
        | some ks' =>
          simp only [hk] at h
          cases h
          exact Uniq_set (c' := .mk c.name c.value ks') hu hc rfl (by simpa using Uniq_assign es c.kids ks' v (Uniq_getElem hu hc) hk)

theorem Uniq_remove : ∀ (k : Key) (l l' : List CNode), Uniq l → removeExact l k = some l' → Uniq l'
  | [], _, _, _, h => by simp [removeExact] at h
  | e :: es, l, l', hu, h => by
    simp only [removeExact] at h
    cases hl : locate l e with
    | none => simp [hl] at h
    | some i =>
      obtain ⟨c, hc, _⟩ := locate_name hl
      simp only [hl, hc] at h
      by_cases hes : es.isEmpty
      · simp only [hes, ↓reduceIte] at h
        cases h
        exact Uniq_eraseIdx i hu
      · simp only [hes] at h
        cases hk : removeExact c.kids es with
        | none => simp [hk] at h
        | some ks' =>
          simp only [hk] at h
          cases h
          exact Uniq_set (c' := .mk c.name c.value ks') hu hc rfl (by simpa using Uniq_remove es c.kids ks' (Uniq_getElem hu hc) hk)

/-! ### the map laws of S -/

theorem find?_ext {α : Type} (p q : α → Bool) : ∀ (l : List α), (∀ x ∈ l, p x = q x) → l.find? p = l.find? q
  | [], _ => rfl
  | a :: as, h => by
    simp only [List.find?_cons, h a (by simp)]
    rw [find?_ext p q as (fun x hx => h x (by simp [hx]))]

theorem get_set (m : PMap) (k k' : Key) (v : Value) :
    PathMap.get (PathMap.set m k v) k' = if k' = k then some v else PathMap.get m k' := by
  simp only [PathMap.get, PathMap.set, List.find?_cons]
  by_cases h : k' = k
  · subst h; simp
  · have h' : (k == k') = false := by simp; exact fun e => h e.symm
    simp only [h', h, ↓reduceIte]
    rw [List.find?_filter]
    congr 1
    apply find?_ext
    intro x _
    by_cases hx : x.1 = k'
    · have : x.1 ≠ k := by rw [hx]; exact h
      simp [hx]; exact h
    · simp [hx]

theorem get_removePrefix (m : PMap) (k k' : Key) :
    PathMap.get (removePrefix m k) k' = if k.isPrefixOf k' then none else PathMap.get m k' := by
  simp only [PathMap.get, removePrefix]
  rw [List.find?_filter]
  by_cases hp : k.isPrefixOf k'
  · simp only [hp, ↓reduceIte]
    have : ∀ o : Option (Key × Value), o = none → o.map (fun x => x.2) = none := by intro o h; rw [h]; rfl
    apply this
    apply List.find?_eq_none.2
    intro x _
    by_cases hx : x.1 = k'
    · simp [hx, hp]
    · simp [hx]
  · simp only [hp, Bool.false_eq_true, ↓reduceIte]
    congr 1
    apply find?_ext
    intro x _
    by_cases hx : x.1 = k'
    · simp [hx, hp]
    · simp [hx]


/-! ### histories -/

inductive Op where
  | set (k : Key) (v : Value)
  | del (k : Key)

def Op.key : Op → Key
  | .set k _ => k
  | .del k => k

/-- one step of the tree model (assign / remove of the global configuration object) -/
def stepM (l : List CNode) : Op → List CNode
  | .set k v => (nodeAssign l k v).getD l
  | .del k => (removeExact l k).getD l

/-- one step of the map -/
def stepS (m : PMap) : Op → PMap
  | .set k v => PathMap.set m k v
  | .del k => removePrefix m k

/-- a query of the tree for any non-empty path gives what the map holds -/
def Agree (l : List CNode) (m : PMap) : Prop := ∀ k, k ≠ [] → valueAt l k = PathMap.get m k

theorem agree_step {l : List CNode} {m : PMap} (hu : Uniq l) (ha : Agree l m) (op : Op) (hk : op.key ≠ []) :
    Uniq (stepM l op) ∧ Agree (stepM l op) (stepS m op) := by
  cases op with
  | set k v =>
    obtain ⟨l', hl'⟩ := nodeAssign_some k l v hk
    simp only [stepM, stepS, hl', Option.getD_some]
    refine ⟨Uniq_assign k l l' v hu hl', ?_⟩
    intro k' hk'
    rw [valueAt_assign k l l' v hl' k', get_set, ha k' hk']
  | del k =>
    simp only [stepM, stepS]
    cases hr : removeExact l k with
    | some l' =>
      simp only [Option.getD_some]
      refine ⟨Uniq_remove k l l' hu hr, ?_⟩
      intro k' hk'
      rw [valueAt_remove k l l' hu hr k', get_removePrefix, ha k' hk']
    | none =>
      simp only [Option.getD_none]
      refine ⟨hu, ?_⟩
      intro k' hk'
      rw [get_removePrefix]
      by_cases hp : k.isPrefixOf k'
      · simp only [hp, ↓reduceIte]
        exact valueAt_remove_none k l hk hr k' hp
      · simp only [hp, Bool.false_eq_true, ↓reduceIte]
        exact ha k' hk'

theorem agree_foldl : ∀ (ops : List Op) (l : List CNode) (m : PMap), Uniq l → Agree l m → (∀ op ∈ ops, op.key ≠ []) →
    Uniq (ops.foldl stepM l) ∧ Agree (ops.foldl stepM l) (ops.foldl stepS m)
  | [], l, m, hu, ha, _ => ⟨hu, ha⟩
  | op :: ops, l, m, hu, ha, hk => by
    obtain ⟨hu', ha'⟩ := agree_step hu ha op (hk op (by simp))
    exact agree_foldl ops _ _ hu' ha' (fun o ho => hk o (by simp [ho]))

end Mpt.Config
