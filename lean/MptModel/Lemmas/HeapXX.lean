/-
  Semantics of the C++ wrappers (Impl/HeapXX.lean) on plain buffers, built on the lemmas of the C layer.
-/
import MptModel.Impl.HeapXX
import MptModel.Lemmas.HeapHist
namespace Mpt.Heap
open Mpt

/-- `set_instance(new buffer)`: the handle is pointed at the fresh buffer `nb` holding `z`, the old buffer
    loses its reference -/
theorem replaceBuf_fresh_sem {s s2 : State} (inv : Inv s) {h : Nat} (hlt : h < s.hs.length) {z : Buf}
    (hs2hs : s2.hs = s.hs) (hs2len : s2.bufs.length = s.bufs.length + 1)
    (hs2 : ∀ c, s2.buf? c = if c = s.bufs.length then some z else s.buf? c)
    (zr : z.ref = 1) (zu : z.used ≤ z.size) (zp : PlainT z.traits) (za : z.used % esize z.traits = 0) :
    Sem s h (fun _ v' => v' = z.content) (replaceBuf s2 h (some s.bufs.length) (s.handle h)) := by
  have hnb : s.buf? s.bufs.length = none := State.buf?_ge_length s _ (Nat.le_refl _)
  have final : ∀ s3 : State, s3.hs = s.hs →
      (∀ c, s3.buf? c = if c = s.bufs.length then some z else
        match s.handle h with
        | none => s.buf? c
        | some b => if c = b then
            (match s.buf? b with
             | some x => if x.ref = 1 then none else some { x with ref := x.ref - 1 }
             | none => none)
          else s.buf? c) → ∀ v : Int,
      Sem s h (fun _ v' => v' = z.content) (.ok (s3.setHandle h (some s.bufs.length)) v) := by
    intro s3 h3 b3 v
    have ret := Inv.retarget (s' := s3.setHandle h (some s.bufs.length)) inv (z := z) hlt hnb (by simp [h3])
      (by
        intro c
        rw [State.buf?_setHandle, b3]
        by_cases e1 : c = s.bufs.length
        · simp [e1]
        · simp only [e1, if_false]
          cases hd : s.handle h with
          | none => simp
          | some b =>
            simp only
            by_cases e2 : c = b
            · rw [e2]; cases hx : s.buf? b <;> simp
            · have : ¬ some b = some c := by intro e; cases e; exact e2 rfl
              simp [e2, this])
      zr zu zp za
    exact ⟨ret.1, by simp [h3], ret.2.2.1, ret.2.2.2⟩
  unfold replaceBuf
  cases hd : s.handle h with
  | none =>
    simp only
    have := final s2 hs2hs (by intro c; rw [hs2, hd]) 1
    simpa using this
  | some b =>
    simp only
    obtain ⟨x, hb⟩ := inv.live h b hd
    have blt := State.buf?_lt hb
    have nbne : s.bufs.length ≠ b := by omega
    have bne : ¬ b = s.bufs.length := fun e => nbne e.symm
    have hb2 : (s2.setHandle h (some s.bufs.length)).buf? b = some x := by
      rw [State.buf?_setHandle, hs2]; simp [bne, hb]
    rw [unref_plain hb2 (inv.plain b x hb)]
    have r := inv.ref b x hb
    rw [if_neg (by omega)]
    -- unref keeps the handle table; describe the buffers
    by_cases r1 : x.ref = 1
    · simp only [r1, ne_eq, not_true_eq_false, if_false]
      have e : ((s2.setHandle h (some s.bufs.length)).setBuf b { x with ref := 0 }).freeBuf b
          = (((s2.setBuf b { x with ref := 0 }).freeBuf b).setHandle h (some s.bufs.length)) := rfl
      rw [e]
      apply final
      · simp [hs2hs]
      · intro c
        rw [State.buf?_freeBuf _ _ _ (by simp [hs2len]; omega), State.buf?_setBuf _ _ _ _ (by omega), hs2]
        rw [hd]
        by_cases e1 : c = s.bufs.length
        · rw [e1]; simp [nbne]
        · by_cases e2 : c = b
          · rw [e2]; simp [bne, hb, r1]
          · simp [e1, e2]
    · simp only [r1, ne_eq, not_false_eq_true, if_true]
      have e : (s2.setHandle h (some s.bufs.length)).setBuf b { x with ref := x.ref - 1 }
          = ((s2.setBuf b { x with ref := x.ref - 1 }).setHandle h (some s.bufs.length)) := rfl
      rw [e]
      apply final
      · simp [hs2hs]
      · intro c
        rw [State.buf?_setBuf _ _ _ _ (by omega), hs2]
        rw [hd]
        by_cases e1 : c = s.bufs.length
        · rw [e1]; simp [nbne]
        · by_cases e2 : c = b
          · rw [e2]; simp [bne, hb, r1]
          · simp [e1, e2]

theorem setFresh_sem {s : State} (inv : Inv s) {h : Nat} (hlt : h < s.hs.length) (bytes : List Byte) :
    Sem s h (fun _ v' => v' = bytes) (setFresh s h bytes) := by
  unfold setFresh
  simp only
  have hz : (s.newBuf bytes.length 0).buf? s.bufs.length = some (State.fresh bytes.length 0 none) := by
    rw [State.buf?_newBuf]; simp
  rw [hz]
  simp only
  have asz := le_allocSize bytes.length
  rw [if_neg (by simp only [State.fresh, Buf.size, List.length_replicate]; omega)]
  simp only [setUsed]
  have wl : (Mem.write (State.fresh bytes.length 0 none).data 0 bytes).length = allocSize bytes.length := by
    rw [write_length _ _ _ (by simp [State.fresh]; omega)]; simp [State.fresh]
  have rs := replaceBuf_fresh_sem (s2 := (s.newBuf bytes.length 0).setBuf s.bufs.length
      { State.fresh bytes.length 0 none with data := Mem.write (State.fresh bytes.length 0 none).data 0 bytes, used := bytes.length })
    inv hlt (z := { State.fresh bytes.length 0 none with data := Mem.write (State.fresh bytes.length 0 none).data 0 bytes, used := bytes.length })
    (by simp) (by simp)
    (by
      intro c
      rw [State.buf?_setBuf _ _ _ _ (by simp), State.buf?_newBuf]
      by_cases e : c = s.bufs.length <;> simp [e])
    rfl (by simp only [Buf.size]; rw [wl]; exact asz) PlainT.none (by simp [State.fresh, esize, Nat.mod_one])
  have hc : ({ State.fresh bytes.length 0 none with data := Mem.write (State.fresh bytes.length 0 none).data 0 bytes, used := bytes.length } : Buf).content = bytes := by
    simp only [Buf.content]
    exact content_take_write _ _ (by simp [State.fresh]; omega)
  rw [hc] at rs
  generalize replaceBuf _ h (some s.bufs.length) (s.handle h) = r at rs
  cases r with
  | fault w => exact rs
  | fail s3 e => exact rs
  | ok s3 v => exact rs

/-- `array::set(len, base)`: the handle reads exactly the new bytes, every other handle is unchanged — in
    particular when the buffer is shared -/
theorem arraySetX_sem {s : State} (inv : Inv s) {h : Nat} (hlt : h < s.hs.length) (bytes : List Byte) :
    Sem s h (fun _ v' => v' = bytes) (arraySetX s h bytes) := by
  unfold arraySetX
  cases hh : s.handle h with
  | none => exact setFresh_sem inv hlt bytes
  | some b =>
    simp only
    obtain ⟨x, hb⟩ := inv.live h b hh
    rw [hb]
    simp only
    have hu := inv.used b x hb
    have r := inv.ref b x hb
    have inplace : ¬ (x.traits.isSome = true ∨ x.shared = true) → bytes.length ≤ x.size →
        Sem s h (fun _ v' => v' = bytes) (Out.ok (setUsed s b x (Mem.write x.data 0 bytes) bytes.length) 0) := by
      intro c fit
      simp only [not_or, Bool.not_eq_true, Option.isSome_eq_false_iff, Option.isNone_iff_eq_none] at c
      have r1 : x.ref = 1 := by have := c.2; simp [Buf.shared] at this; omega
      simp only [Buf.size] at fit
      have pm := inv.setBuf_private hh hb r1 { x with data := Mem.write x.data 0 bytes, used := bytes.length } r1
        (by simp only [Buf.size]; rw [write_length _ _ _ (by omega)]; exact fit)
        (by rw [c.1]; exact PlainT.none) (by simp [c.1, esize, Nat.mod_one])
      refine ⟨pm.1, by simp [setUsed], ?_, pm.2.2⟩
      simp only [setUsed]
      rw [pm.2.1]
      simp only [Buf.content]
      exact content_take_write _ _ fit
    split
    · exact setFresh_sem inv hlt bytes
    · rename_i c
      split
      · rename_i le
        exact inplace c (by simp only [Buf.size] at hu ⊢; omega)
      · split
        · exact setFresh_sem inv hlt bytes
        · rename_i gt nofresh
          exact inplace c (by simp only [Buf.size] at hu nofresh ⊢; omega)

/-- `array::insert(off, len, data)` -/
theorem arrayInsertX_sem {s : State} (inv : Inv s) {h : Nat} (hlt : h < s.hs.length) (off : Nat) (bytes : List Byte) :
    Sem s h (fun v v' => v' = Vec.insert v off bytes) (arrayInsertX s h off bytes) := by
  unfold arrayInsertX
  cases handleTyped s h with
  | true => exact Sem.fail_same inv _ _ _
  | false => exact insert_sem inv hlt off bytes

/-- `array::append(len, data)` -/
theorem arrayAppendX_sem {s : State} (inv : Inv s) {h : Nat} (hlt : h < s.hs.length) (bytes : List Byte) :
    Sem s h (fun v v' => v' = Vec.append v bytes) (arrayAppendX s h bytes) :=
  append_sem inv hlt bytes

end Mpt.Heap
namespace Mpt.Heap
open Mpt

theorem unit_eq {α : Type} (r : Out α) : r.unit = Out.mapv (fun _ => ()) r := by
  cases r <;> rfl

/-- `~reference()` / destruction of an array: the handle reads nothing, the others are unchanged -/
theorem refDrop_sem {s : State} (inv : Inv s) {h : Nat} (hlt : h < s.hs.length) :
    Sem s h (fun _ v' => v' = []) (refDrop s h) := by
  unfold refDrop
  rw [unit_eq]
  have := clone_sem inv hlt none
  unfold arrayClone at this
  exact this.mapv _

/-- `reference::operator=` (array assignment and copy construction): the handle reads what the source reads,
    the source and every other handle are unchanged -/
theorem refAssign_sem {s : State} (inv : Inv s) {dst : Nat} (hlt : dst < s.hs.length) (src : Nat) :
    Sem s dst (fun _ v' => v' = s.abs src) (refAssign s dst src) := by
  unfold refAssign
  split
  · rename_i same
    refine ⟨inv, rfl, ?_, fun _ _ => rfl⟩
    simp [State.abs_eq, same]
  · rename_i diff
    cases hs : s.handle src with
    | none =>
      simp only
      rw [unit_eq]
      have := replaceBuf_sem inv hlt none (by intro a e; cases e) (by rw [← hs]; exact fun e => diff e.symm) rfl rfl (by intro c; simp)
      refine (Sem.weaken this ?_).mapv _
      intro v v' e; rw [e]; simp [contentOf, State.abs_none hs]
    | some a =>
      simp only
      obtain ⟨x, ha⟩ := inv.live src a hs
      have alt := State.buf?_lt ha
      have r := inv.ref a x ha
      unfold addref
      rw [ha]
      have r0 : ¬ x.ref = 0 := by omega
      simp only [r0, if_false]
      have := replaceBuf_sem (s1 := s.setBuf a { x with ref := x.ref + 1 }) inv hlt (some a)
        (by intro a' e; cases e; exact ⟨x, ha⟩) (by rw [← hs]; exact fun e => diff e.symm) rfl (by simp)
        (by
          intro c
          rw [State.buf?_setBuf _ _ _ _ alt]
          by_cases ca : c = a
          · subst ca; simp [ha]
          · have : ¬ some a = some c := by intro e; cases e; exact ca rfl
            simp [ca, this])
      have key : Sem s dst (fun _ v' => v' = s.abs src)
          (Out.mapv (fun _ => ()) (replaceBuf (s.setBuf a { x with ref := x.ref + 1 }) dst (some a) (s.handle dst))) := by
        refine (Sem.weaken this ?_).mapv _
        intro v v' e; rw [e]; simp only [contentOf, State.abs_eq, hs, ha]
      have nz : x.ref + 1 ≠ 0 := by omega
      generalize x.ref + 1 = k at nz key
      cases k with
      | zero => exact absurd rfl nz
      | succ k =>
        rw [unit_eq]
        exact key

end Mpt.Heap
