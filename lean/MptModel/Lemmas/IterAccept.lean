/-
  Helper lemmas for C19 (core Lean only): canonical texts are accepted with the denoted values —
  number lists (value-list generator, text argument iterator).
-/
import MptModel.Lemmas.IterNum
namespace Mpt.Iter
open Mpt.IterSpec

theorem strict_ne_nil (t : List Char) (v : Rat) (h : strictNumber t = some v) : t ≠ [] := by
  intro e; subst e
  simp [strictNumber, intPart, unsign] at h

/-- a number token followed by text that cannot continue it is converted by `mpt_cdouble` -/
theorem cdouble_strict (t rest : List Char) (v : Rat) (h : strictNumber t = some v) (hs : Stops rest) :
    cdouble (t ++ rest) = .ok v rest := by
  obtain ⟨h1, h2, h3⟩ := scan_strict t rest v h hs
  have hne := strict_ne_nil t v h
  unfold cdouble scanDouble
  rw [if_neg (by cases t with | nil => exact absurd rfl hne | cons a as => simp), strict_not_inf t rest v h, if_pos h1, h2, h3]

theorem stops_nil : Stops [] := by intro c hc; simp at hc

theorem stops_space (l : List Char) : Stops (' ' :: l) := by
  intro c hc
  simp at hc; subst hc
  decide

/-- leading blanks are skipped by the scanner -/
theorem scanDouble_space (x : List Char) : scanDouble (' ' :: x) = scanDouble x := by
  have hd : dropSpace (' ' :: x) = dropSpace x := by simp [dropSpace, isSpace]
  unfold scanDouble scanOk scanVal scanRest numStart
  rw [hd]

/-- first token of a blank-separated text -/
theorem splitOnC_cons (sep c : Char) (cs : List Char) :
    IterSpec.splitOn sep (c :: cs) =
      if c = sep then [] :: IterSpec.splitOn sep cs
      else match IterSpec.splitOn sep cs with
        | [] => [[c]]
        | w :: ws => (c :: w) :: ws := rfl

theorem splitOnC_ne_nil (sep : Char) (s : List Char) : IterSpec.splitOn sep s ≠ [] := by
  induction s with
  | nil => simp [IterSpec.splitOn]
  | cons c cs ih =>
    rw [splitOnC_cons]
    split
    · simp
    · split <;> simp

/-- parts joined with a separator character -/
def joinC (sep : Char) : List (List Char) → List Char
  | [] => []
  | [t] => t
  | t :: more => t ++ sep :: joinC sep more

theorem joinC_cons (sep : Char) (t : List Char) (more : List (List Char)) (h : more ≠ []) :
    joinC sep (t :: more) = t ++ sep :: joinC sep more := by
  cases more with
  | nil => exact absurd rfl h
  | cons a as => rfl

/-- splitting at a separator and joining with it gives the text back -/
theorem join_splitC (sep : Char) (s : List Char) : joinC sep (IterSpec.splitOn sep s) = s := by
  induction s with
  | nil => rfl
  | cons c cs ih =>
    rw [splitOnC_cons]
    by_cases hc : c = sep
    · rw [if_pos hc, joinC_cons _ _ _ (splitOnC_ne_nil sep cs), ih, hc]; rfl
    · rw [if_neg hc]
      cases hq : IterSpec.splitOn sep cs with
      | nil => exact absurd hq (splitOnC_ne_nil sep cs)
      | cons w ws =>
        rw [hq] at ih
        simp only []
        cases ws with
        | nil => simp only [joinC] at ih ⊢; rw [ih]
        | cons a as =>
          rw [joinC_cons _ _ _ (by simp)] at ih ⊢
          rw [List.cons_append, ih]

theorem splitOn_cons (c : Char) (cs : List Char) :
    IterSpec.splitOn ' ' (c :: cs) =
      if c = ' ' then [] :: IterSpec.splitOn ' ' cs
      else match IterSpec.splitOn ' ' cs with
        | [] => [[c]]
        | w :: ws => (c :: w) :: ws := rfl

theorem splitOn_ne_nil (s : List Char) : IterSpec.splitOn ' ' s ≠ [] := splitOnC_ne_nil ' ' s

/-- a blank-separated list of number tokens, as text -/
def joinBlank : List (List Char) → List Char
  | [] => []
  | [t] => t
  | t :: more => t ++ ' ' :: joinBlank more

theorem joinBlank_cons (t : List Char) (more : List (List Char)) (h : more ≠ []) :
    joinBlank (t :: more) = t ++ ' ' :: joinBlank more := by
  cases more with
  | nil => exact absurd rfl h
  | cons a as => rfl

/-- splitting at blanks and joining with blanks gives the text back -/
theorem join_split (s : List Char) : joinBlank (IterSpec.splitOn ' ' s) = s := by
  induction s with
  | nil => rfl
  | cons c cs ih =>
    rw [splitOn_cons]
    by_cases hc : c = ' '
    · rw [if_pos hc, joinBlank_cons _ _ (splitOn_ne_nil cs), ih, hc]; rfl
    · rw [if_neg hc]
      cases hq : IterSpec.splitOn ' ' cs with
      | nil => exact absurd hq (splitOn_ne_nil cs)
      | cons w ws =>
        rw [hq] at ih
        simp only []
        cases ws with
        | nil => simp only [joinBlank] at ih ⊢; rw [ih]
        | cons a as =>
          rw [joinBlank_cons _ _ (by simp)] at ih ⊢
          rw [List.cons_append, ih]

theorem infScan_space (x : List Char) : infScan (' ' :: x) = infScan x := by
  have hd : dropSpace (' ' :: x) = dropSpace x := by simp [dropSpace, isSpace]
  unfold infScan numStart
  rw [hd]

theorem cdouble_space (x : List Char) (v : Rat) (r : List Char) (h : cdouble x = .ok v r) :
    cdouble (' ' :: x) = .ok v r := by
  unfold cdouble at h ⊢
  split at h
  · cases h
  · rw [if_neg (by simp), infScan_space, scanDouble_space]
    cases hi : infScan x with
    | some p => rw [hi] at h; exact h
    | none =>
      rw [hi] at h
      simp only [] at h ⊢
      cases hq : scanDouble x with
      | none => rw [hq] at h; simp only [] at h; split at h <;> cases h
      | some p => rw [hq] at h; exact h

/-- a blank-separated list of number tokens is read number by number -/
theorem nums_join (toks : List (List Char)) (vs : List Rat) (hne : toks ≠ [])
    (h : allSome (toks.map strictNumber) = some vs) :
    nums (joinBlank toks) = vs ∧ numsOk (joinBlank toks) = true ∧
    ∃ v r, cdouble (joinBlank toks) = .ok v r ∧ vs.head? = some v := by
  induction toks generalizing vs with
  | nil => exact absurd rfl hne
  | cons t more ih =>
    simp only [List.map_cons, allSome] at h
    cases ht : strictNumber t with
    | none => rw [ht] at h; simp [allSome] at h
    | some v =>
      rw [ht] at h
      simp only [allSome] at h
      cases hm : allSome (more.map strictNumber) with
      | none => rw [hm] at h; simp at h
      | some ws =>
        rw [hm] at h
        simp only [Option.map_some, Option.some.injEq] at h
        subst h
        by_cases hmore : more = []
        · subst hmore
          simp only [List.map_nil, allSome, Option.some.injEq] at hm
          subst hm
          have hc := cdouble_strict t [] v ht stops_nil
          rw [List.append_nil] at hc
          obtain ⟨n1, n2⟩ := nums_step t v [] hc
          simp only [joinBlank]
          refine ⟨by rw [n1, nums_empty], ?_, v, [], hc, rfl⟩
          rw [n2]; rfl
        · obtain ⟨i1, i2, v2, r2, i3, _⟩ := ih ws hmore hm
          rw [joinBlank_cons _ _ hmore]
          have hc := cdouble_strict t (' ' :: joinBlank more) v ht (stops_space _)
          obtain ⟨n1, n2⟩ := nums_step _ v _ hc
          have hsp := cdouble_space _ v2 r2 i3
          obtain ⟨m1, m2⟩ := nums_step _ v2 r2 hsp
          obtain ⟨k1, k2⟩ := nums_step _ v2 r2 i3
          refine ⟨?_, ?_, v, _, hc, rfl⟩
          · rw [n1, m1, ← k1, i1]
          · rw [n2, m2, ← k2, i2]

theorem explicit_elems (vs : List Rat) : (IterSpec.explicit vs).elems = vs := by
  unfold IterSpec.explicit Den.elems
  apply List.ext_getElem?
  intro i
  simp only [List.getElem?_map, List.getElem?_range]
  by_cases hi : i < vs.length
  · simp [hi, List.getD_eq_getElem?_getD, List.getElem?_eq_getElem hi]
  · simp [hi, List.getElem?_eq_none (Nat.le_of_not_lt hi)]

/-- **a canonical number list is accepted and denotes its numbers** -/
theorem accept_values (s : List Char) (vs : List Rat)
    (hname : (s.takeWhile isLetter).isEmpty = true) (h : numbers s = some vs) (hvs : vs ≠ []) :
    ∃ g, create s = some g ∧ g.all = vs ∧ g.rem = vs ∧ g.WF := by
  unfold numbers at h
  have hj := join_split s
  obtain ⟨n1, n2, v, r, n3, n4⟩ := nums_join (IterSpec.splitOn ' ' s) vs (splitOn_ne_nil s) h
  rw [hj] at n1 n2 n3
  -- the text starts with the first token: not white space, not a letter
  have hsne : s ≠ [] := by
    intro e; subst e; unfold cdouble at n3; simp at n3
  have hhead : ∀ c, s.head? = some c → isSpace c = false := by
    intro c hc
    cases hq : IterSpec.splitOn ' ' s with
    | nil => exact absurd hq (splitOn_ne_nil s)
    | cons t more =>
      rw [hq] at h hj
      simp only [List.map_cons, allSome] at h
      cases ht : strictNumber t with
      | none => rw [ht] at h; simp [allSome] at h
      | some w =>
        have htne := strict_ne_nil t w ht
        -- s = t ++ …, so the head of s is the head of t
        have hst : s.head? = t.head? := by
          rw [← hj]
          by_cases hm : more = []
          · subst hm; rfl
          · rw [joinBlank_cons _ _ hm]; exact head_append_of_ne _ _ htne
        rw [hst] at hc
        -- scan_strict shows the token does not start with white space
        obtain ⟨k1, _, _⟩ := scan_strict t [] w ht stops_nil
        rw [List.append_nil] at k1
        apply Decidable.byContradiction
        intro hsp
        have hsp' : isSpace c = true := by simpa using hsp
        -- a token starting with white space: `unsign`/`intPart` see that character first
        cases t with
        | nil => exact absurd rfl htne
        | cons a as =>
          simp at hc; subst hc
          have : intPart (a :: as) = [] := by
            have ha1 : a ≠ '-' := by intro e; subst e; simp [isSpace] at hsp'
            have ha2 : a ≠ '+' := by intro e; subst e; simp [isSpace] at hsp'
            have ha3 : isDig a = false := by
              cases hd : isDig a with
              | false => rfl
              | true =>
                have := digit_not_space a hd
                rw [this] at hsp'; cases hsp'
            simp [intPart, unsign, ha1, ha2, List.takeWhile, ha3]
          simp [strictNumber, this] at ht
  have hds : dropSpace s = s := by
    cases s with
    | nil => exact absurd rfl hsne
    | cons a as => exact dropSpace_id a as (hhead a rfl)
  refine ⟨.values s (some r) v, ?_, n1, ?_, ?_⟩
  · unfold create
    simp only []
    rw [hds, spanP_eq]
    have he : s.isEmpty = false := by cases s with | nil => exact absurd rfl hsne | cons _ _ => rfl
    rw [he]
    simp only [Bool.false_eq_true, ↓reduceIte]
    rw [isLetter_eq] at hname
    have hl : (List.takeWhile isAlpha s).length = 0 := by
      cases hq : List.takeWhile isAlpha s with
      | nil => rfl
      | cons _ _ => rw [hq] at hname; simp at hname
    rw [if_neg (by omega), if_pos hname]
    unfold mkValues
    rw [n3]
  · simp only [Gen.rem]
    rw [← (nums_step s v r n3).1, n1]
  · refine ⟨⟨v, r, n3⟩, n2, ?_⟩
    intro s' hs'; cases hs'
    rw [← (nums_step s v r n3).2]; exact n2

end Mpt.Iter
