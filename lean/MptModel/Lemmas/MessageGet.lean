/-
  C17: mpt_message_get — the (at most two-fragment) message over wrapped queue data denotes the
  requested stretch of the queue's logical content.
-/
import MptModel.Lemmas.Message
import MptModel.Lemmas.Mem
namespace Mpt
open Mpt.Flat

/-- `struct queue` invariant needed here -/
def Ring.wfq (r : Ring) : Prop := r.len ≤ r.store.length ∧ r.off ≤ r.store.length

theorem Ring.getElem?_content' (r : Ring) (h : r.wfq) (i : Nat) :
    r.content[i]? = if i < r.len then (if i < r.store.length - r.off then r.store[r.off + i]? else r.store[i - (r.store.length - r.off)]?) else none := by
  obtain ⟨h1, h2⟩ := h
  unfold Ring.content
  grind

theorem rd_ok (s : List Byte) (src n : Nat) (h : src + n ≤ s.length) : Mem.rd s src n = .ok (Mem.read s src n) := by
  simp [Mem.rd, h]

theorem get_ok (r : Ring) (h : r.wfq) (pos take : Nat) (hle : pos + take ≤ r.len) :
    ∃ m, Msg.get r pos take = .ok m ∧ m.flat = (r.content.drop pos).take take := by
  have hc := Ring.getElem?_content' r h
  obtain ⟨h1, h2⟩ := h
  unfold Msg.get
  generalize hl : min (r.store.length - r.off) r.len = low0
  simp only []
  by_cases hp : pos < low0
  · simp only [hp, if_true]
    have g1 : ¬ take > low0 - pos + (r.len - low0) := by omega
    simp only [g1, if_false]
    by_cases ht : take ≤ low0 - pos
    · simp only [ht, if_true]
      rw [rd_ok _ _ _ (by omega)]
      refine ⟨_, rfl, ?_⟩
      apply List.ext_getElem?
      intro i
      simp only [Msg.flat, List.flatten_nil, List.append_nil, Mem.getElem?_read, List.getElem?_take, List.getElem?_drop, hc]
      grind
    · simp only [ht, if_false]
      rw [rd_ok _ _ _ (by omega), rd_ok _ _ _ (by omega)]
      refine ⟨_, rfl, ?_⟩
      apply List.ext_getElem?
      intro i
      simp only [Msg.flat, List.flatten_cons, List.flatten_nil, List.append_nil, List.getElem?_append,
        Mem.read_length _ _ _ (show r.off + pos + (low0 - pos) ≤ r.store.length by omega),
        Mem.getElem?_read, List.getElem?_take, List.getElem?_drop, hc]
      grind
  · simp only [hp, if_false]
    have g0 : ¬ pos - low0 > r.len - low0 := by omega
    simp only [g0, if_false]
    have g1 : ¬ take > r.len - low0 - (pos - low0) + 0 := by omega
    simp only [g1, if_false]
    have ht : take ≤ r.len - low0 - (pos - low0) := by omega
    simp only [ht, if_true]
    rw [rd_ok _ _ _ (by omega)]
    refine ⟨_, rfl, ?_⟩
    apply List.ext_getElem?
    intro i
    simp only [Msg.flat, List.flatten_nil, List.append_nil, Mem.getElem?_read, List.getElem?_take, List.getElem?_drop, hc]
    grind

/-- shape of the message: one fragment unless the stretch starts in the first data part and runs beyond it -/
theorem get_shape (r : Ring) (h : r.wfq) (pos take : Nat) (hle : pos + take ≤ r.len) :
    ∃ m, Msg.get r pos take = .ok m ∧
      ((pos < min (r.store.length - r.off) r.len ∧ min (r.store.length - r.off) r.len < pos + take) → m.cont.length = 1) ∧
      (¬ (pos < min (r.store.length - r.off) r.len ∧ min (r.store.length - r.off) r.len < pos + take) → m.cont = []) := by
  obtain ⟨h1, h2⟩ := h
  unfold Msg.get
  generalize hl : min (r.store.length - r.off) r.len = low0
  simp only []
  by_cases hp : pos < low0
  · simp only [hp, if_true]
    have g1 : ¬ take > low0 - pos + (r.len - low0) := by omega
    simp only [g1, if_false]
    by_cases ht : take ≤ low0 - pos
    · simp only [ht, if_true]
      rw [rd_ok _ _ _ (by omega)]
      refine ⟨_, rfl, ?_, ?_⟩ <;> intro hc <;> first | rfl | (exfalso; omega) | (exfalso; simp at hc; done) | (exfalso; simp at hc; omega)
    · simp only [ht, if_false]
      rw [rd_ok _ _ _ (by omega), rd_ok _ _ _ (by omega)]
      refine ⟨_, rfl, ?_, ?_⟩ <;> intro hc <;> first | rfl | (exfalso; omega) | (exfalso; simp at hc; done) | (exfalso; simp at hc; omega)
  · simp only [hp, if_false]
    have g0 : ¬ pos - low0 > r.len - low0 := by omega
    simp only [g0, if_false]
    have g1 : ¬ take > r.len - low0 - (pos - low0) + 0 := by omega
    simp only [g1, if_false]
    have ht : take ≤ r.len - low0 - (pos - low0) := by omega
    simp only [ht, if_true]
    rw [rd_ok _ _ _ (by omega)]
    refine ⟨_, rfl, ?_, ?_⟩ <;> intro hc <;> first | rfl | (exfalso; omega) | (exfalso; simp at hc; done) | (exfalso; simp at hc; omega)

theorem get_refused (r : Ring) (pos take : Nat) (hgt : r.len < pos + take) :
    ∃ e, Msg.get r pos take = .err e := by
  unfold Msg.get
  generalize hl : min (r.store.length - r.off) r.len = low0
  simp only []
  by_cases hp : pos < low0
  · have g1 : take > low0 - pos + (r.len - low0) := by omega
    simp [hp, g1]
  · simp only [hp, if_false]
    by_cases g0 : pos - low0 > r.len - low0
    · simp [g0]
    · have g1 : r.len - low0 - (pos - low0) < take := by omega
      simp [g0, g1]

end Mpt
