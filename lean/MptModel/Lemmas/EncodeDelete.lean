/-
  Lemmas about message deletion in the encoder models (core Lean only).
-/
import MptModel.Lemmas.EncodeZpe
namespace Mpt.Codec
open Mpt.Cobs

/-- going back over zero-free bytes ends behind the delimiter in front of them -/
theorem backToDelim_spec (win pre : List Byte) (hpre : pre = [] ∨ pre.getLast? = some 0) :
    ∀ (fin : List Byte), (∀ x ∈ fin, x ≠ 0) → win.take (pre.length + fin.length) = pre ++ fin →
    backToDelim win 0 (pre.length + fin.length) = pre.length := by
  intro fin
  generalize hn : fin.length = n
  induction n generalizing fin with
  | zero =>
    intro _ hw
    have : fin = [] := List.length_eq_zero_iff.mp hn
    subst this
    simp only [Nat.add_zero, List.append_nil] at hw ⊢
    rcases hpre with h | h
    · subst h; rfl
    · obtain ⟨ys, rfl⟩ := List.getLast?_eq_some_iff.mp h
      have hlen : (ys ++ [0]).length = ys.length + 1 := by simp
      rw [hlen] at hw ⊢
      have h0 : win[ys.length]? = some 0 := by
        have := congrArg (fun l => l[ys.length]?) hw
        simp only [List.getElem?_take] at this
        rw [if_pos (by omega)] at this
        rw [this]; simp
      simp [backToDelim, h0]
  | succ n ih =>
    intro hnz hw
    rcases List.eq_nil_or_concat fin with h | ⟨ys, x, h⟩
    · subst h; simp at hn
    · subst h
      have hys : ys.length = n := by simp at hn; exact hn
      have hx : x ≠ 0 := hnz x (by simp)
      have hxat : win[pre.length + n]? = some x := by
        have := congrArg (fun l => l[pre.length + n]?) hw
        simp only [List.getElem?_take] at this
        rw [if_pos (by omega)] at this
        rw [this, List.concat_eq_append, ← List.append_assoc, List.getElem?_append_right (by simp; omega)]
        simp [hys]
      have hw' : win.take (pre.length + n) = pre ++ ys := by
        have := congrArg (List.take (pre.length + n)) hw
        rw [List.take_take, Nat.min_eq_left (by omega)] at this
        rw [this, List.concat_eq_append, ← List.append_assoc, List.take_append_of_le_length (by simp; omega)]
        rw [show pre.length + n = (pre ++ ys).length by simp [hys], List.take_length]
      show backToDelim win 0 (pre.length + n + 1) = pre.length
      simp only [backToDelim, hxat]
      rw [if_neg (by simpa using hx)]
      exact ih ys hys (fun y hy => hnz y (by simp [hy])) hw'

/-- the finished blocks of a message in progress contain no zero -/
theorem EncInvM.fin_nz {v : Variant} {st : EncState} {win pre : List Byte} {ms : List (Byte × Bool)}
    (h : EncInvM v st win pre ms) : ∃ fin, st.done = pre.length + fin.length ∧ win.take st.done = pre ++ fin ∧
      (∀ x ∈ fin, x ≠ 0) ∧ st.done + st.scratch ≤ win.length ∧ st.scratch < 256 := by
  obtain ⟨fin, run, h1, h2, h3, h4⟩ := h
  have hm := v.maxlen_cases
  have hnz : ∀ x ∈ fin, x ≠ 0 := by
    have h5 := h4 []
    simp only [List.append_nil] at h5
    intro x hx
    exact encB_nz v ms [] false (Inv.nil v) x (by rw [h5]; simp [hx])
  refine ⟨fin, h1, ?_, hnz, ?_, ?_⟩
  · rcases h3 with ⟨a, b, c, d, e, f⟩ | ⟨a, b, c⟩
    · subst c; simpa using e
    · have := congrArg (List.take st.done) b
      rw [List.take_take, Nat.min_eq_left (by omega)] at this
      rw [this, h1, List.append_assoc, ← List.append_assoc, List.take_append_of_le_length (by simp)]
      rw [show pre.length + fin.length = (pre ++ fin).length by simp, List.take_length]
  · rcases h3 with ⟨a, _, _, _, _, f⟩ | ⟨_, _, c⟩ <;> omega
  · rcases h3 with ⟨a, _⟩ | ⟨a, _⟩ <;> omega

/-- deleting the message in progress restores the encoder state in front of it (all four COBS framings) -/
theorem encodeCobsDel_abort (v : Variant) (st : EncState) (win pre : List Byte) (ms : List (Byte × Bool))
    (h : EncInvM v st win pre ms) (hctx : st.ctx ≠ 0) (hpre : pre = [] ∨ pre.getLast? = some 0) :
    encodeCobsDel st win 1 = .ok ⟨{ ctx := 0, done := pre.length, scratch := 0 }, win, pre.length⟩ ∧
    EncInvM v { ctx := 0, done := pre.length, scratch := 0 } win pre [] := by
  obtain ⟨fin, h1, h2, h3, h4, h5⟩ := h.fin_nz
  have hb : backToDelim win 0 st.done = pre.length := by
    rw [h1]; exact backToDelim_spec win pre hpre fin h3 (by rw [← h1]; exact h2)
  constructor
  · unfold encodeCobsDel
    have hsc : st.scratch % 256 = st.scratch := by omega
    simp only [hsc]
    rw [if_neg (by omega), if_neg (by omega)]
    simp only [Nat.one_ne_zero, if_false, hctx, ne_eq, not_false_eq_true, if_true, Nat.sub_self, dropFrames, hb]
  · refine EncInvM.start v _ win pre rfl rfl ?_ (by simp only; omega)
    simp only
    have := congrArg (List.take pre.length) h2
    rw [List.take_take, Nat.min_eq_left (by omega)] at this
    rw [this]; simp

/-- deleting the last finished frame restores the state in front of it -/
theorem encodeCobsDel_frame (st : EncState) (win pre body : List Byte) (hs : st.scratch = 0) (hc : st.ctx = 0)
    (hd : st.done = (pre ++ body ++ [0]).length) (hw : win.take st.done = pre ++ body ++ [0])
    (hl : st.done ≤ win.length) (hnz : ∀ x ∈ body, x ≠ 0) (hpre : pre = [] ∨ pre.getLast? = some 0) :
    encodeCobsDel st win 1 = .ok ⟨{ ctx := 0, done := pre.length, scratch := 0 }, win, pre.length⟩ := by
  have hlen : st.done = pre.length + body.length + 1 := by rw [hd]; simp; omega
  have hw' : win.take (pre.length + body.length) = pre ++ body := by
    have := congrArg (List.take (pre.length + body.length)) hw
    rw [List.take_take, Nat.min_eq_left (by omega)] at this
    rw [this, List.take_append_of_le_length (by simp)]
    rw [show pre.length + body.length = (pre ++ body).length by simp, List.take_length]
  have hb := backToDelim_spec win pre hpre body hnz hw'
  unfold encodeCobsDel
  simp only [hs, hc, Nat.zero_mod]
  rw [if_neg (by omega), if_neg (by omega)]
  simp only [Nat.one_ne_zero, if_false, ne_eq, not_true_eq_false, dropFrames]
  rw [if_neg (by omega)]
  have : st.done - 1 = pre.length + body.length := by omega
  rw [this, hb]

end Mpt.Codec
