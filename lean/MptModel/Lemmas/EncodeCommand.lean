/-
  Lemmas about the command text encoder model under arbitrary call splits and window growth schedules
  (`encodeSched .command`) and under the retry loop of `mpt_array_push` (core Lean only).
-/
import MptModel.Lemmas.ArrayPush
import MptModel.Lemmas.EncodeString
namespace Mpt.Codec
open Mpt.Cobs

/-- command text encoder between two calls: finished data `pre`, bytes `p` of the message in progress -/
def CmdInv (st : EncState) (win pre p : List Byte) : Prop :=
  st.scratch = 0 ∧ st.ctx = 0 ∧ st.done ≤ win.length ∧ win.take st.done = pre ++ p ∧ (0 : Byte) ∉ p

theorem CmdInv.grow {st : EncState} {win pre p : List Byte} (h : CmdInv st win pre p) (ext : List Byte) :
    CmdInv st (win ++ ext) pre p := by
  obtain ⟨a, b, c, d, e⟩ := h
  exact ⟨a, b, by simp; omega, by rw [List.take_append_of_le_length c]; exact d, e⟩

theorem CmdInv.of_take {st : EncState} {win win' pre p : List Byte} (h : CmdInv st win pre p)
    (ht : win'.take st.done = win.take st.done) (hl : st.done ≤ win'.length) : CmdInv st win' pre p := by
  obtain ⟨a, b, _, d, e⟩ := h
  exact ⟨a, b, hl, by rw [ht]; exact d, e⟩

/-- one data call of the command text encoder: complete case split -/
theorem cmd_push (st : EncState) (win pre p bytes : List Byte) (h : CmdInv st win pre p) :
    (bytes = [] ∧ encode .command st win (some bytes) = .err .BadArgument) ∨
    (st.done = win.length ∧ encode .command st win (some bytes) = .err .MissingBuffer) ∨
    ((0 : Byte) ∈ bytes.take (min bytes.length (win.length - st.done)) ∧
      encode .command st win (some bytes) = .err .BadEncoding) ∨
    ∃ o, encode .command st win (some bytes) = .ok o ∧ o.ret = min bytes.length (win.length - st.done) ∧ 0 < o.ret ∧
      o.win.length = win.length ∧ o.st.done = st.done + o.ret ∧ o.st.scratch = 0 ∧
      CmdInv o.st o.win pre (p ++ bytes.take o.ret) := by
  obtain ⟨a, b, c, d, e⟩ := h
  unfold encode encodeString
  simp only [a, b, ne_eq, not_true_eq_false, or_self, if_false]
  rw [if_neg (by omega)]
  by_cases hb : bytes.length = 0
  · left; rw [if_pos hb]; exact ⟨List.length_eq_zero_iff.mp hb, rfl⟩
  rw [if_neg hb]
  by_cases hm : win.length - st.done = 0
  · right; left; rw [if_pos hm]; exact ⟨by omega, rfl⟩
  rw [if_neg hm]
  by_cases hz : (0 : Byte) ∈ bytes.take (min bytes.length (win.length - st.done))
  · right; right; left; rw [if_pos hz]; exact ⟨hz, rfl⟩
  rw [if_neg hz]
  right; right; right
  have hfit : st.done + min bytes.length (win.length - st.done) ≤ win.length := by omega
  rw [if_pos hfit]
  have htl : (bytes.take (min bytes.length (win.length - st.done))).length = min bytes.length (win.length - st.done) := by
    simp
  have hpl : (win.take st.done ++ bytes.take (min bytes.length (win.length - st.done))).length
      = st.done + min bytes.length (win.length - st.done) := by
    rw [List.length_append, htl, List.length_take]; omega
  refine ⟨_, rfl, rfl, by simp only; omega, ?_, rfl, rfl, rfl, rfl, ?_, ?_, ?_⟩
  · simp only [List.length_append, List.length_take, List.length_drop]; omega
  · simp only [List.length_append, List.length_take, List.length_drop]; omega
  · simp only
    rw [List.take_left' hpl, d, List.append_assoc]
  · simp only
    intro hmem
    rcases List.mem_append.mp hmem with h1 | h1
    · exact e h1
    · exact hz h1

/-- the terminating call of the command text encoder -/
theorem cmd_term (st : EncState) (win pre p : List Byte) (h : CmdInv st win pre p) :
    (st.done = win.length ∧ encode .command st win none = .err .MissingBuffer) ∨
    ∃ o, encode .command st win none = .ok o ∧ o.ret = 0 ∧ o.win.length = win.length ∧ o.st.done = st.done + 1 ∧
      o.st.done ≤ o.win.length ∧ o.win.take o.st.done = pre ++ (p ++ [0]) ∧ CmdInv o.st o.win (pre ++ (p ++ [0])) [] := by
  obtain ⟨a, b, c, d, e⟩ := h
  unfold encode encodeString
  simp only [a, b, ne_eq, not_true_eq_false, or_self, if_false]
  rw [if_neg (by omega)]
  by_cases hm : win.length - st.done = 0
  · left; rw [if_pos hm]; exact ⟨by omega, rfl⟩
  rw [if_neg hm]
  right
  have hlt : st.done < win.length := by omega
  rw [wr_ok win st.done 0 hlt]
  have ht : (win.set st.done 0).take (st.done + 1) = pre ++ (p ++ [0]) := by
    rw [take_succ_set win st.done 0 hlt, d, List.append_assoc]
  refine ⟨_, rfl, rfl, by simp, rfl, by simp; omega, ht, rfl, rfl, by simp; omega, ?_, by simp⟩
  simp only [List.append_nil]; exact ht

/-- partial correctness of the caller loop for command text: whatever the pieces and the growth schedule,
    the finished data is `pre`, the bytes handed over, and the delimiter; nothing with a zero byte got in -/
theorem cmd_sched_refines (fill : Byte) (fuel : Nat) :
    ∀ (st : EncState) (win : List Byte) (chunks : List (List Byte)) (caps : List Nat) (pre p : List Byte) (o : EncOut),
      CmdInv st win pre p → encodeSched .command fill fuel st win chunks caps = .ok o →
      o.st.scratch = 0 ∧ o.st.ctx = 0 ∧ o.st.done ≤ o.win.length ∧
      o.win.take o.st.done = pre ++ (p ++ chunks.flatten ++ [0]) ∧ (0 : Byte) ∉ p ++ chunks.flatten := by
  induction fuel with
  | zero => intro st win chunks caps pre p o _ h; simp [encodeSched] at h
  | succ f ih =>
    intro st win chunks caps pre p o hinv h
    cases chunks with
    | nil =>
      simp only [encodeSched] at h
      rcases cmd_term st win pre p hinv with ⟨_, he⟩ | ⟨o', he, _, _, _, hl, ht, hi⟩
      · rw [he] at h
        simp only [if_true] at h
        cases caps with
        | nil => simp at h
        | cons k caps => exact ih _ _ _ _ _ _ _ (hinv.grow _) h
      · rw [he] at h
        simp only [CRes.ok.injEq] at h
        subst h
        exact ⟨hi.1, hi.2.1, hl, by simpa using ht, by simpa using hinv.2.2.2.2⟩
    | cons ch rest =>
      simp only [encodeSched] at h
      rcases cmd_push st win pre p ch hinv with ⟨_, he⟩ | ⟨_, he⟩ | ⟨_, he⟩ | ⟨o', he, _, _, _, _, _, hinv'⟩
      · rw [he] at h; simp at h
      · rw [he] at h
        simp only [if_true] at h
        cases caps with
        | nil => simp at h
        | cons k caps => exact ih _ _ _ _ _ _ _ (hinv.grow _) h
      · rw [he] at h; simp at h
      · rw [he] at h
        simp only at h
        by_cases hall : o'.ret = ch.length
        · rw [if_pos hall] at h
          have := ih _ _ _ _ _ _ _ hinv' h
          rw [hall, List.take_length] at this
          simpa [List.append_assoc] using this
        · rw [if_neg hall] at h
          cases caps with
          | nil => simp at h
          | cons k caps =>
            have := ih _ _ _ _ _ _ _ (hinv'.grow _) h
            simp only [List.flatten_cons] at this ⊢
            have e : p ++ List.take o'.ret ch ++ (List.drop o'.ret ch ++ rest.flatten) = p ++ (ch ++ rest.flatten) := by
              rw [List.append_assoc, ← List.append_assoc (ch.take o'.ret), List.take_append_drop]
            rw [e] at this
            exact this

/-- the caller loop for command text never stores outside the window and never leaves the modelled states -/
theorem cmd_sched_safe (fill : Byte) (fuel : Nat) :
    ∀ (st : EncState) (win : List Byte) (chunks : List (List Byte)) (caps : List Nat) (pre p : List Byte),
      CmdInv st win pre p →
      encodeSched .command fill fuel st win chunks caps ≠ .oob ∧
      encodeSched .command fill fuel st win chunks caps ≠ .unmodelled := by
  induction fuel with
  | zero => intro st win chunks caps pre p _; simp [encodeSched]
  | succ f ih =>
    intro st win chunks caps pre p hinv
    cases chunks with
    | nil =>
      simp only [encodeSched]
      rcases cmd_term st win pre p hinv with ⟨_, he⟩ | ⟨o', he, _⟩
      · rw [he]
        simp only [if_true]
        cases caps with
        | nil => simp
        | cons k caps => exact ih _ _ _ _ _ _ (hinv.grow _)
      · rw [he]; simp
    | cons ch rest =>
      simp only [encodeSched]
      rcases cmd_push st win pre p ch hinv with ⟨_, he⟩ | ⟨_, he⟩ | ⟨_, he⟩ | ⟨o', he, _, _, _, _, _, hinv'⟩
      · rw [he]; simp
      · rw [he]
        simp only [if_true]
        cases caps with
        | nil => simp
        | cons k caps => exact ih _ _ _ _ _ _ (hinv.grow _)
      · rw [he]; simp
      · rw [he]
        simp only
        by_cases hall : o'.ret = ch.length
        · rw [if_pos hall]; exact ih _ _ _ _ _ _ hinv'
        · rw [if_neg hall]
          cases caps with
          | nil => simp
          | cons k caps => exact ih _ _ _ _ _ _ (hinv'.grow _)

/-- total correctness for command text: as soon as the space granted in total (in whatever portions) holds
    the message and the delimiter, the loop finishes -/
theorem cmd_sched_total (fill : Byte) (fuel : Nat) :
    ∀ (st : EncState) (win : List Byte) (chunks : List (List Byte)) (caps : List Nat) (pre p : List Byte),
      CmdInv st win pre p → (∀ c ∈ chunks, c ≠ []) → (0 : Byte) ∉ chunks.flatten →
      chunks.length + caps.length + 1 ≤ fuel →
      st.done + chunks.flatten.length + 1 ≤ win.length + caps.sum →
      ∃ o, encodeSched .command fill fuel st win chunks caps = .ok o := by
  induction fuel with
  | zero => intro st win chunks caps pre p _ _ _ hf _; omega
  | succ f ih =>
    intro st win chunks caps pre p hinv hne hz hf hsp
    cases chunks with
    | nil =>
      simp only [encodeSched]
      rcases cmd_term st win pre p hinv with ⟨hfull, he⟩ | ⟨o', he, _⟩
      · rw [he]
        simp only [if_true]
        cases caps with
        | nil => simp at hsp; omega
        | cons k caps =>
          refine ih _ _ _ _ _ _ (hinv.grow _) hne hz (by simp at hf ⊢; omega) ?_
          simp only [List.sum_cons, List.length_append, List.length_replicate] at hsp ⊢; omega
      · rw [he]; exact ⟨o', rfl⟩
    | cons ch rest =>
      simp only [encodeSched]
      have hchne : ch ≠ [] := hne ch (by simp)
      have hzc : (0 : Byte) ∉ ch := fun h => hz (by simp [h])
      have hzr : (0 : Byte) ∉ rest.flatten := fun h => hz (by simp only [List.flatten_cons, List.mem_append]; exact Or.inr h)
      simp only [List.flatten_cons, List.length_append, List.length_cons] at hsp hf
      rcases cmd_push st win pre p ch hinv with ⟨hnil, _⟩ | ⟨hfull, he⟩ | ⟨hzz, _⟩ | ⟨o', he, hret, hpos, hlen, hdone, _, hinv'⟩
      · exact absurd hnil hchne
      · rw [he]
        simp only [if_true]
        cases caps with
        | nil => simp at hsp; omega
        | cons k caps =>
          refine ih _ _ _ _ _ _ (hinv.grow _) hne hz (by simp at hf ⊢; omega) ?_
          simp only [List.sum_cons, List.length_append, List.length_replicate, List.flatten_cons] at hsp ⊢; omega
      · exact absurd (List.mem_of_mem_take hzz) hzc
      · rw [he]
        simp only
        by_cases hall : o'.ret = ch.length
        · rw [if_pos hall]
          exact ih _ _ _ _ _ _ hinv' (fun c hc => hne c (by simp [hc])) hzr (by omega) (by rw [hlen, hdone, hall]; omega)
        · rw [if_neg hall]
          cases caps with
          | nil => simp at hsp; omega
          | cons k caps =>
            have hdl : (ch.drop o'.ret).length = ch.length - o'.ret := by simp
            refine ih _ _ _ _ _ _ (hinv'.grow _) ?_ ?_ (by simp at hf ⊢; omega) ?_
            · intro c hc
              rcases List.mem_cons.mp hc with h | h
              · subst h; intro h0; have := congrArg List.length h0; simp at this; omega
              · exact hne c (by simp [h])
            · intro h0
              simp only [List.flatten_cons, List.mem_append] at h0
              rcases h0 with h0 | h0
              · exact hzc (List.mem_of_mem_drop h0)
              · exact hzr h0
            · simp only [List.sum_cons, List.length_append, List.length_replicate, List.flatten_cons, hdl] at hsp ⊢
              omega

/-! ### command text through `mpt_array_push` -/

theorem CmdInv.le {st : EncState} {win pre p : List Byte} (h : CmdInv st win pre p) : st.done + st.scratch ≤ win.length := by
  have := h.1; have := h.2.2.1; omega

/-- the retry loop of `mpt_array_push` terminates and takes all data (command text without zero byte) -/
theorem cmd_pushLoop_data (fill : Byte) (pre : List Byte) (fuel : Nat) :
    ∀ (st : EncState) (buf : List Byte) (bytes : List Byte) (max : Nat) (cons : List Nat) (p : List Byte),
      CmdInv st buf pre p → bytes ≠ [] → (0 : Byte) ∉ bytes →
      (2 * bytes.length + 1 ≤ fuel ∨ (st.done < buf.length ∧ 2 * bytes.length ≤ fuel)) →
      ∃ st' buf' cons', pushLoop .command fill fuel st buf (st.done + st.scratch) (some bytes) max cons =
          .ok (st', buf', st'.done + st'.scratch, ((max + bytes.length : Nat) : Int), cons') ∧
        CmdInv st' buf' pre (p ++ bytes) := by
  induction fuel with
  | zero =>
    intro st buf bytes max cons p _ hne _ hf
    have := List.length_pos_iff.mpr hne
    omega
  | succ f ih =>
    intro st buf bytes max cons p hinv hne hz hf
    have hpos := List.length_pos_iff.mpr hne
    have hle := hinv.le
    have hs0 := hinv.1
    unfold pushLoop
    rw [if_neg (by omega)]
    simp only [Nat.sub_self, List.drop_zero, List.take_zero, List.nil_append, Nat.zero_add]
    rcases cmd_push st buf pre p bytes hinv with ⟨hnil, _⟩ | ⟨hfull, he⟩ | ⟨hzz, _⟩ | ⟨o, he, hret, hrpos, hlen, hdone, hsc, hinv'⟩
    · exact absurd hnil hne
    · -- require larger buffer
      rw [he]
      simp only
      obtain ⟨d1, d2, d3⟩ := detach_grow buf (st.done + st.scratch) (buf.length + 64) fill hle
      have hinvD : CmdInv st (detach buf (st.done + st.scratch) (buf.length + 64) fill) pre p :=
        hinv.of_take (by simpa [hs0] using d1) (by omega)
      have hf' : st.done < (detach buf (st.done + st.scratch) (buf.length + 64) fill).length ∧ 2 * bytes.length ≤ f := by
        rcases hf with h | h
        · exact ⟨by omega, by omega⟩
        · omega
      exact ih st _ bytes max cons p hinvD hne hz (Or.inr hf')
    · exact absurd (List.mem_of_mem_take hzz) hz
    · rw [he]
      simp only
      by_cases hfull : bytes.length = o.ret
      · rw [if_pos hfull]
        refine ⟨o.st, o.win, cons ++ [o.ret], ?_, ?_⟩
        · rw [hfull]
        · rw [← hfull, List.take_length] at hinv'; exact hinv'
      · rw [if_neg hfull, if_neg (by omega)]
        have hdl : (bytes.drop o.ret).length = bytes.length - o.ret := by simp
        have hdne : bytes.drop o.ret ≠ [] := by
          intro h; have := congrArg List.length h; simp at this; omega
        have hzd : (0 : Byte) ∉ bytes.drop o.ret := fun h => hz (List.mem_of_mem_drop h)
        obtain ⟨st', buf', cons', e1, e2⟩ := ih o.st o.win (bytes.drop o.ret) (max + o.ret) (cons ++ [o.ret]) _ hinv' hdne hzd
          (Or.inl (by rw [hdl]; rcases hf with h | h <;> omega))
        refine ⟨st', buf', cons', ?_, ?_⟩
        · rw [e1, hdl]
          have : max + o.ret + (bytes.length - o.ret) = max + bytes.length := by omega
          rw [this]
        · rw [List.append_assoc, List.take_append_drop] at e2; exact e2

/-- the retry loop on the terminating call (command text) -/
theorem cmd_pushLoop_term (fill : Byte) (pre : List Byte) (fuel : Nat) :
    ∀ (st : EncState) (buf : List Byte) (max : Nat) (cons : List Nat) (p : List Byte),
      CmdInv st buf pre p → (2 ≤ fuel ∨ (st.done < buf.length ∧ 1 ≤ fuel)) →
      ∃ st' buf', pushLoop .command fill fuel st buf (st.done + st.scratch) none max cons =
          .ok (st', buf', st'.done + st'.scratch, ((max : Nat) : Int), cons) ∧
        buf'.take st'.done = pre ++ (p ++ [0]) ∧ CmdInv st' buf' (pre ++ (p ++ [0])) [] := by
  induction fuel with
  | zero => intro st buf max cons p _ hf; omega
  | succ f ih =>
    intro st buf max cons p hinv hf
    have hle := hinv.le
    have hs0 := hinv.1
    unfold pushLoop
    rw [if_neg (by omega)]
    simp only [Nat.sub_self, List.drop_zero, List.take_zero, List.nil_append, Nat.zero_add]
    rcases cmd_term st buf pre p hinv with ⟨hfull, he⟩ | ⟨o, he, hret, hlen, hdone, hl, ht, hi⟩
    · rw [he]
      simp only
      obtain ⟨d1, d2, d3⟩ := detach_grow buf (st.done + st.scratch) (buf.length + 64) fill hle
      have hinvD : CmdInv st (detach buf (st.done + st.scratch) (buf.length + 64) fill) pre p :=
        hinv.of_take (by simpa [hs0] using d1) (by omega)
      refine ih st _ max cons p hinvD (Or.inr ⟨by omega, ?_⟩)
      rcases hf with h | h <;> omega
    · rw [he]
      simp only
      exact ⟨o.st, o.win, by simp [hret], ht, hi⟩

/-- state of an encode array for command text between two `mpt_array_push` calls -/
def CmdArrInv (a : EncArray) (pre p : List Byte) : Prop :=
  (a.buf = none ∧ a.st = {} ∧ a.used = 0 ∧ pre = [] ∧ p = []) ∨
  (∃ buf, a.buf = some buf ∧ a.used = a.st.done + a.st.scratch ∧ CmdInv a.st buf pre p)

theorem cmd_arrayPush_start (fill : Byte) (a : EncArray) (pre p : List Byte) (add : Nat)
    (h : CmdArrInv a pre p) (hadd : 64 ≤ add) :
    ∃ buf, arrayStart fill a add = .ok (buf, a.st.done + a.st.scratch) ∧
      CmdInv a.st buf pre p ∧ a.st.done + a.st.scratch + add ≤ buf.length := by
  unfold arrayStart
  rcases h with ⟨h1, h2, h3, h4, h5⟩ | ⟨buf, h1, h2, h3⟩
  · subst h4 h5
    rw [h1, h2]
    refine ⟨List.replicate (allocSize add) fill, by simp, ⟨rfl, rfl, by simp, by simp, by simp⟩, ?_⟩
    have := allocSize_ge add; simp; omega
  · rw [h1, h2]
    obtain ⟨d1, d2, d3⟩ := detach_grow buf (a.st.done + a.st.scratch) (a.st.done + a.st.scratch + add) fill h3.le
    have hs0 := h3.1
    exact ⟨_, rfl, h3.of_take (by simpa [hs0] using d1) (by omega), d2⟩

/-- `mpt_array_push` with command text data (no zero byte): returns, takes everything, keeps the invariant -/
theorem cmd_arrayPush_data (fill : Byte) (a : EncArray) (pre p bytes : List Byte)
    (h : CmdArrInv a pre p) (hne : bytes ≠ []) (hz : (0 : Byte) ∉ bytes) :
    ∃ a' cons, arrayPush .command fill a (some bytes) = .ok (a', (bytes.length : Int), cons) ∧
      CmdArrInv a' pre (p ++ bytes) := by
  have hpos := List.length_pos_iff.mpr hne
  obtain ⟨buf, hs, hinv, hl⟩ := cmd_arrayPush_start fill a pre p (if bytes.length > 64 then bytes.length else 64) h (by split <;> omega)
  unfold arrayPush
  simp only [Option.map_some, Option.getD_some]
  rw [hs]
  simp only
  rw [if_neg (by omega)]
  obtain ⟨st', buf', cons', e1, e2⟩ := cmd_pushLoop_data fill pre (2 * bytes.length + 8) a.st buf bytes 0 [] p hinv hne hz (Or.inl (by omega))
  rw [e1]
  exact ⟨{ st := st', buf := some buf', used := st'.done + st'.scratch }, cons', by simp, Or.inr ⟨buf', rfl, rfl, e2⟩⟩

/-- `mpt_array_push` terminating a command text message: returns 0 and appends the bytes and the delimiter -/
theorem cmd_arrayPush_term (fill : Byte) (a : EncArray) (pre p : List Byte) (h : CmdArrInv a pre p) :
    ∃ a' cons buf', arrayPush .command fill a none = .ok (a', 0, cons) ∧ a'.buf = some buf' ∧
      buf'.take a'.st.done = pre ++ (p ++ [0]) ∧ CmdArrInv a' (pre ++ (p ++ [0])) [] := by
  obtain ⟨buf, hs, hinv, hl⟩ := cmd_arrayPush_start fill a pre p 64 h (Nat.le_refl _)
  unfold arrayPush
  simp only [Option.map_none, Option.getD_none, gt_iff_lt, Nat.not_lt_zero, if_false, if_true]
  rw [hs]
  simp only
  obtain ⟨st', buf', e1, e2, e3⟩ := cmd_pushLoop_term fill pre (2 * 0 + 8) a.st buf 0 [] p hinv (Or.inl (by omega))
  rw [e1]
  exact ⟨{ st := st', buf := some buf', used := st'.done + st'.scratch }, [], buf', by simp, rfl, e2, Or.inr ⟨buf', rfl, rfl, e3⟩⟩

/-- a whole command text message through `mpt_array_push`: every call returns, and the frame is appended -/
theorem cmd_arrayMessage_spec (fill : Byte) (chunks : List (List Byte)) :
    ∀ (a : EncArray) (pre p : List Byte), CmdArrInv a pre p → (∀ c ∈ chunks, c ≠ []) → (0 : Byte) ∉ chunks.flatten →
    ∃ a' buf', arrayMessage .command fill a chunks = .ok a' ∧ a'.buf = some buf' ∧
      buf'.take a'.st.done = pre ++ (p ++ chunks.flatten ++ [0]) ∧
      CmdArrInv a' (pre ++ (p ++ chunks.flatten ++ [0])) [] := by
  induction chunks with
  | nil =>
    intro a pre p h _ _
    obtain ⟨a', cons, buf', e1, e2, e3, e4⟩ := cmd_arrayPush_term fill a pre p h
    simp only [arrayMessage, e1]
    exact ⟨a', buf', rfl, e2, by simpa using e3, by simpa using e4⟩
  | cons ch rest ih =>
    intro a pre p h hne hz
    have hzc : (0 : Byte) ∉ ch := fun h => hz (by simp [h])
    have hzr : (0 : Byte) ∉ rest.flatten := fun h => hz (by simp only [List.flatten_cons, List.mem_append]; exact Or.inr h)
    obtain ⟨a1, cons, e1, e2⟩ := cmd_arrayPush_data fill a pre p ch h (hne ch (by simp)) hzc
    simp only [arrayMessage, e1, if_true]
    obtain ⟨a', buf', f1, f2, f3, f4⟩ := ih a1 pre (p ++ ch) e2 (fun c hc => hne c (by simp [hc])) hzr
    exact ⟨a', buf', f1, f2, by simpa [List.append_assoc] using f3, by simpa [List.append_assoc] using f4⟩

end Mpt.Codec
