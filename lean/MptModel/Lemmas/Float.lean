/-
  Helper lemmas about Spec/Float.lean: a number whose magnitude does not exceed the largest finite value of a
  format rounds to a finite value of that format (no saturation).
-/
import MptModel.Spec.Float
namespace Mpt.Flt

theorem pow2_pos (n : Nat) : 0 < pow2 n := Nat.two_pow_pos n
theorem pow2_add (a b : Nat) : pow2 (a + b) = pow2 a * pow2 b := Nat.pow_add 2 a b
theorem pow2_mono {a b : Nat} (h : a ≤ b) : pow2 a ≤ pow2 b := Nat.pow_le_pow_right (by decide) h

/-- the format facts the lemma needs; true for binary32, binary64 and the x87 extended format -/
structure Fmt.Sane (f : Fmt) : Prop where
  p_pos : 1 ≤ f.p
  emax_ge : ((f.p - 1 : Nat) : Int) ≤ f.emax
  emin_lt : f.emin < f.emax

theorem sane32 : binary32.Sane := ⟨by decide, by decide, by decide⟩
theorem sane64 : binary64.Sane := ⟨by decide, by decide, by decide⟩
theorem sane80 : x87ext.Sane := ⟨by decide, by decide, by decide⟩

/-- exponent of the last bit of the largest binade -/
def Fmt.e0 (f : Fmt) : Nat := (f.emax - ((f.p - 1 : Nat) : Int)).toNat

theorem Fmt.maxInt_eq (f : Fmt) : f.maxInt = (pow2 f.p - 1) * pow2 f.e0 := rfl

/-- leading-bit bound: a value with its leading bit above `emax` exceeds the largest finite number -/
theorem lead_le_emax (f : Fmt) (hs : f.Sane) (m : Nat) (e : Int) (hm : m ≠ 0)
    (hb : m * pow2 e.toNat ≤ f.maxInt * pow2 (-e).toNat) : ((Nat.log2 m : Nat) : Int) + e ≤ f.emax := by
  by_cases h : ((Nat.log2 m : Nat) : Int) + e ≤ f.emax
  · exact h
  · exfalso
    have hE0 : (f.e0 : Int) = f.emax - ((f.p - 1 : Nat) : Int) := by
      unfold Fmt.e0; have := hs.emax_ge; omega
    have hp := hs.p_pos
    -- L + a ≥ e0 + p + b
    have hexp : f.e0 + f.p + (-e).toNat ≤ Nat.log2 m + e.toNat := by omega
    have h1 : pow2 (Nat.log2 m) * pow2 e.toNat ≤ m * pow2 e.toNat :=
      Nat.mul_le_mul_right _ (Nat.log2_self_le hm)
    have h2 : pow2 (f.e0 + f.p + (-e).toNat) ≤ pow2 (Nat.log2 m) * pow2 e.toNat := by
      rw [← pow2_add]; exact pow2_mono hexp
    have h3 : pow2 (f.e0 + f.p + (-e).toNat) = pow2 f.p * pow2 f.e0 * pow2 (-e).toNat := by
      rw [pow2_add, pow2_add, Nat.mul_comm (pow2 f.e0)]
    have h4 : f.maxInt * pow2 (-e).toNat < pow2 f.p * pow2 f.e0 * pow2 (-e).toNat := by
      rw [Fmt.maxInt_eq]
      apply (Nat.mul_lt_mul_right (pow2_pos _)).mpr
      apply (Nat.mul_lt_mul_right (pow2_pos _)).mpr
      have := pow2_pos f.p
      omega
    omega

/-- No saturation: a value of magnitude at most `maxInt` rounds to a finite value. -/
theorem roundFin_finite (f : Fmt) (hs : f.Sane) (neg : Bool) (m : Nat) (e : Int)
    (hb : m * pow2 e.toNat ≤ f.maxInt * pow2 (-e).toNat) : ∃ m' e', roundFin f neg m e = .fin neg m' e' := by
  unfold roundFin
  by_cases hm : m = 0
  · exact ⟨0, 0, by simp [hm]⟩
  simp only [hm, if_false]
  have hlead := lead_le_emax f hs m e hm hb
  have hp := hs.p_pos
  have hE0 : (f.e0 : Int) = f.emax - ((f.p - 1 : Nat) : Int) := by
    unfold Fmt.e0; have := hs.emax_ge; omega
  have hqmin : f.qmin = f.emin - ((f.p - 1 : Nat) : Int) := rfl
  -- abbreviations
  generalize hq : max (((Nat.log2 m : Nat) : Int) + e - ((f.p - 1 : Nat) : Int)) f.qmin = q
  by_cases hqe : q ≤ e
  · simp only [hqe, if_true]
    have : ¬ (((Nat.log2 m : Nat) : Int) + e > f.emax) := by omega
    simp only [this, if_false]
    exact ⟨m, e, rfl⟩
  simp only [hqe, if_false]
  generalize hsh : (q - e).toNat = sh
  have hsh1 : 1 ≤ sh := by omega
  have hshq : (sh : Int) = q - e := by omega
  -- keep < 2^p
  have hkeep : m / pow2 sh < pow2 f.p := by
    apply Nat.div_lt_of_lt_mul
    have h1 : Nat.log2 m + 1 ≤ sh + f.p := by omega
    calc m < pow2 (Nat.log2 m + 1) := Nat.lt_log2_self
      _ ≤ pow2 (sh + f.p) := pow2_mono h1
      _ = pow2 sh * pow2 f.p := pow2_add _ _
  by_cases hu : (m % pow2 sh > pow2 (sh - 1) ∨ m % pow2 sh = pow2 (sh - 1) ∧ m / pow2 sh % 2 = 1)
  · -- rounded up
    simp only [hu, if_true]
    have hm'0 : m / pow2 sh + 1 ≠ 0 := Nat.succ_ne_zero _
    simp only [hm'0, if_false]
    by_cases hlt : m / pow2 sh + 1 < pow2 f.p
    · have hl : Nat.log2 (m / pow2 sh + 1) < f.p := (Nat.log2_lt hm'0).2 hlt
      have : ¬ (((Nat.log2 (m / pow2 sh + 1) : Nat) : Int) + q > f.emax) := by
        have := hs.emin_lt; omega
      simp only [this, if_false]
      exact ⟨_, _, rfl⟩
    · -- carry into the next binade: keep + 1 = 2^p
      have heq : m / pow2 sh + 1 = pow2 f.p := by omega
      have hl : Nat.log2 (m / pow2 sh + 1) = f.p := by rw [heq]; exact Nat.log2_two_pow
      by_cases hov : ((Nat.log2 (m / pow2 sh + 1) : Nat) : Int) + q > f.emax
      · exfalso
        rw [hl] at hov
        -- then the value was in the largest binade, above maxInt
        have hqE : q = f.e0 := by have := hs.emin_lt; omega
        have hexp : sh + e.toNat = f.e0 + (-e).toNat := by omega
        have hrem : 1 ≤ m % pow2 sh := by
          have := pow2_pos (sh - 1)
          rcases hu with h | ⟨h, _⟩ <;> omega
        have hdm := Nat.div_add_mod m (pow2 sh)
        have hgt : (pow2 f.p - 1) * pow2 sh < m := by
          have : m / pow2 sh = pow2 f.p - 1 := by omega
          rw [← this, Nat.mul_comm]; omega
        have h1 : (pow2 f.p - 1) * pow2 sh * pow2 e.toNat < m * pow2 e.toNat :=
          (Nat.mul_lt_mul_right (pow2_pos _)).mpr hgt
        have h2 : (pow2 f.p - 1) * pow2 sh * pow2 e.toNat = f.maxInt * pow2 (-e).toNat := by
          rw [Fmt.maxInt_eq, Nat.mul_assoc, ← pow2_add, hexp, pow2_add, Nat.mul_assoc]
        omega
      · simp only [hov, if_false]
        exact ⟨_, _, rfl⟩
  · -- rounded down
    simp only [hu, if_false]
    by_cases hk0 : m / pow2 sh = 0
    · exact ⟨0, 0, by simp [hk0]⟩
    simp only [hk0, if_false]
    have hl : Nat.log2 (m / pow2 sh) < f.p := (Nat.log2_lt hk0).2 hkeep
    have : ¬ (((Nat.log2 (m / pow2 sh) : Nat) : Int) + q > f.emax) := by
      have := hs.emin_lt; omega
    simp only [this, if_false]
    exact ⟨_, _, rfl⟩

end Mpt.Flt
