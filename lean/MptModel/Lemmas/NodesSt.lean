/-
  The operand search of the specification state `Forest.St` (`sibsOf?`, `detached?`, `topOf?`, `find?` over the
  top-level lists) tied to the located form (`SibsAt`, `find?` in one list, permutation of `tops`) the refinement
  theorems are stated in; with it: add / insert / clone / move of `Forest.St` are refined by the pointer store.
-/
import MptModel.Lemmas.NodesMove
namespace Mpt.Nodes
open Mpt Mpt.Forest

/-! ### one list -/

theorem idx?_none_of_not_mem {p : Nat} : ∀ {l : Forest}, p ∉ ids l → idx? p l = none
  | [], _ => by simp
  | (.node i n v cs) :: ts, h => by
    simp at h
    rw [idx?_cons]
    have h1 : ¬ i = p := fun e => h.1 e.symm
    simp [h1, idx?_none_of_not_mem h.2.2]

theorem parentOf?_none {p : Nat} : ∀ {l : Forest}, p ∉ ids l → parentOf? p l = none
  | [], _ => by simp [parentOf?]
  | (.node i n v cs) :: ts, h => by
    simp at h
    simp only [parentOf?, idx?_none_of_not_mem h.2.1, Option.isSome_none, Bool.false_eq_true, ↓reduceIte,
      parentOf?_none h.2.1, parentOf?_none h.2.2]

/-- `Forest.sibsOf?` finds a sibling list in the sense of `SibsAt`, and `updSibs` changes exactly that list -/
theorem sibsOf?_sibsAt {p : Nat} {l L : Forest} {j : Nat} (h : Forest.sibsOf? p l = some (L, j)) :
    ∃ par, SibsAt p l L j par ∧ ∀ g, updSibs p g l = applyAt par g l := by
  simp only [Forest.sibsOf?] at h
  cases hi : idx? p l with
  | some j' =>
    simp only [hi, Option.some.injEq, Prod.mk.injEq] at h
    obtain ⟨rfl, rfl⟩ := h
    exact ⟨none, SibsAt.top hi, fun g => by simp [updSibs, hi, applyAt]⟩
  | none =>
    simp only [hi] at h
    cases hq : parentOf? p l with
    | none => simp [hq] at h
    | some q =>
      simp only [hq] at h
      cases hf : Forest.find? q l with
      | none => simp [hf] at h
      | some tq =>
        simp only [hf, Option.map_eq_some_iff, Prod.mk.injEq] at h
        obtain ⟨j', hj', rfl, rfl⟩ := h
        exact ⟨some q, SibsAt.kids hf hj', fun g => by simp [updSibs, hi, hq, applyAt]⟩

theorem SibsAt.mem {p : Nat} {l L : Forest} {j : Nat} {par : Option Nat} (h : SibsAt p l L j par) : p ∈ ids l :=
  h.subset p (idx?_mem h.idx)

theorem sibsOf?_not_mem {p : Nat} {l : Forest} (h : p ∉ ids l) :
    Forest.sibsOf? p l = none ∧ ∀ g, updSibs p g l = l := by
  refine ⟨by simp [Forest.sibsOf?, idx?_none_of_not_mem h, parentOf?_none h], fun g => ?_⟩
  simp [updSibs, idx?_none_of_not_mem h, parentOf?_none h]

/-- a root of a sibling list is found as itself -/
theorem find?_of_idx? {x : Nat} : ∀ {l : Forest} {j : Nat} {t : Tree}, (ids l).Nodup → idx? x l = some j → l[j]? = some t →
    Forest.find? x l = some t
  | [], _, _, _, h, _ => by simp at h
  | (.node i n v cs) :: ts, j, t, hnd, hi, ht => by
    rw [ids_cons, List.nodup_cons, List.mem_append, List.nodup_append] at hnd
    obtain ⟨hni, ndcs, ndts, disj⟩ := hnd
    rw [idx?_cons] at hi
    by_cases hix : i = x
    · simp [hix] at hi; subst hi
      simp at ht; subst ht
      simp [Forest.find?, hix]
    · simp [hix] at hi
      obtain ⟨j', hj', rfl⟩ := hi
      have hxts : x ∈ ids ts := idx?_mem hj'
      have hxcs : x ∉ ids cs := fun h => disj x h x hxts rfl
      simp only [Forest.find?, hix, ↓reduceIte, find?_none hxcs]
      exact find?_of_idx? ndts hj' (by simpa using ht)

/-- searching below a found node -/
theorem find?_below {q x : Nat} : ∀ {l : Forest} {tq : Tree}, (ids l).Nodup → Forest.find? q l = some tq →
    x ∈ ids tq.children → Forest.find? x l = Forest.find? x tq.children
  | [], _, _, hf, _ => by simp [Forest.find?] at hf
  | (.node i n v cs) :: ts, tq, hnd, hf, hx => by
    have hnd' := hnd
    rw [ids_cons, List.nodup_cons, List.mem_append, List.nodup_append] at hnd
    obtain ⟨hni, ndcs, ndts, disj⟩ := hnd
    simp only [Forest.find?] at hf
    by_cases hiq : i = q
    · simp [hiq] at hf; subst hf
      simp only [Tree.children] at hx ⊢
      have hix : ¬ i = x := by rintro rfl; exact hni (Or.inl hx)
      simp only [Forest.find?, hix, ↓reduceIte]
      cases hc : Forest.find? x cs with
      | some t => rfl
      | none =>
        have hxts : x ∉ ids ts := fun h => disj x hx x h rfl
        simp [find?_none hxts]
    · simp only [hiq, ↓reduceIte] at hf
      cases hc : Forest.find? q cs with
      | some t =>
        simp [hc] at hf; subst hf
        have hxcs : x ∈ ids cs := find?_children_subset hc x hx
        have hix : ¬ i = x := by rintro rfl; exact hni (Or.inl hxcs)
        have ih := find?_below ndcs hc hx
        simp only [Forest.find?, hix, ↓reduceIte, ih]
        cases hc2 : Forest.find? x t.children with
        | some t2 => rfl
        | none =>
          have hxts : x ∉ ids ts := fun h => disj x hxcs x h rfl
          simp [find?_none hxts]
      | none =>
        simp [hc] at hf
        have hxts : x ∈ ids ts := find?_children_subset hf x hx
        have hix : ¬ i = x := by rintro rfl; exact hni (Or.inr hxts)
        have hxcs : x ∉ ids cs := fun h => disj x h x hxts rfl
        simp only [Forest.find?, hix, ↓reduceIte, find?_none hxcs]
        exact find?_below ndts hf hx

/-- the element a `SibsAt` points at is what `find?` returns for it -/
theorem SibsAt.find_elem {x : Nat} {l L : Forest} {j : Nat} {par : Option Nat} {t : Tree} (h : SibsAt x l L j par)
    (hnd : (ids l).Nodup) (ht : L[j]? = some t) : Forest.find? x l = some t := by
  cases h with
  | top hi => exact find?_of_idx? hnd hi ht
  | kids hf hi =>
    rw [find?_below hnd hf (idx?_mem hi)]
    exact find?_of_idx? (find?_children_nodup hnd hf) hi ht

/-- `modKids` only looks at the children of the node it finds -/
theorem modKids_congr {p : Nat} {g g' : Forest → Forest} : ∀ {l : Forest} {tp : Tree}, (ids l).Nodup →
    Forest.find? p l = some tp → g tp.children = g' tp.children → modKids p g l = modKids p g' l
  | [], _, _, hf, _ => by simp [Forest.find?] at hf
  | (.node i n v cs) :: ts, tp, hnd, hf, hg => by
    rw [ids_cons, List.nodup_cons, List.mem_append, List.nodup_append] at hnd
    obtain ⟨hni, ndcs, ndts, disj⟩ := hnd
    simp only [Forest.find?] at hf
    by_cases hip : i = p
    · simp [hip] at hf; subst hf
      simp only [Tree.children] at hg
      simp [modKids, hip, hg]
    · simp only [hip, ↓reduceIte] at hf
      cases hc : Forest.find? p cs with
      | some t =>
        simp [hc] at hf; subst hf
        have hpts : p ∉ ids ts := fun h => disj p (find?_mem hc).1 p h rfl
        simp only [modKids, hip, ↓reduceIte, modKids_congr ndcs hc hg, modKids_of_not_mem hpts]
      | none =>
        simp [hc] at hf
        have hpcs : p ∉ ids cs := fun h => disj p h p (find?_mem hf).1 rfl
        simp only [modKids, hip, ↓reduceIte, modKids_congr ndts hf hg, modKids_of_not_mem hpcs]

/-! ### the collection of top-level lists -/

theorem one_top {tops : List Forest} {l : Forest} (h : l ∈ tops) : ∃ rest, tops.Perm (l :: rest) := by
  obtain ⟨A, B, rfl⟩ := List.append_of_mem h
  exact ⟨A ++ B, List.perm_middle⟩

theorem two_tops {tops : List Forest} {l l' : Forest} (h : l ∈ tops) (h' : l' ∈ tops) (hne : l ≠ l') :
    ∃ rest, tops.Perm (l :: l' :: rest) := by
  obtain ⟨A, B, rfl⟩ := List.append_of_mem h
  have h2 : l' ∈ A ++ B := by
    simp only [List.mem_append, List.mem_cons] at h' ⊢
    rcases h' with h1 | h1 | h1
    · exact Or.inl h1
    · exact absurd h1.symm hne
    · exact Or.inr h1
  obtain ⟨rest, hr⟩ := one_top h2
  exact ⟨rest, List.perm_middle.trans (List.Perm.cons l hr)⟩

/-- a handle lies in one top-level list only -/
theorem uniq_top {tops : List Forest} (hnd : (tops.flatMap ids).Nodup) {l l' : Forest} (h : l ∈ tops) (h' : l' ∈ tops)
    {a : Nat} (ha : a ∈ ids l) (ha' : a ∈ ids l') : l = l' := by
  refine Classical.byContradiction fun hne => ?_
  obtain ⟨rest, hp⟩ := two_tops h h' hne
  have := (hp.flatMap_right ids).nodup_iff.1 hnd
  simp only [List.flatMap_cons] at this
  exact (List.nodup_append.1 this).2.2 a ha a (by simp [ha']) rfl

theorem Realises.disjoint_rest {s : Store} {l : Forest} {rest : List Forest} (h : Realises s (l :: rest)) :
    ∀ r ∈ rest, ∀ a ∈ ids l, a ∉ ids r := by
  intro r hr a ha har
  have := h.nodup
  simp only [List.flatMap_cons] at this
  exact (List.nodup_append.1 this).2.2 a ha a (List.mem_flatMap.2 ⟨r, hr, har⟩) rfl

/-! ### the operand search of `Forest.St` -/

theorem st_sibsOf? {sp : Forest.St} {p : Nat} {L : Forest} {j : Nat} (h : sp.sibsOf? p = some (L, j)) :
    ∃ l0 ∈ sp.tops, Forest.sibsOf? p l0 = some (L, j) := by
  simp only [Forest.St.sibsOf?] at h
  obtain ⟨l0, hl0, h0⟩ := List.exists_of_findSome?_eq_some h
  exact ⟨l0, hl0, h0⟩

theorem st_find? {sp : Forest.St} {p : Nat} {t : Tree} (h : sp.find? p = some t) :
    ∃ l0 ∈ sp.tops, Forest.find? p l0 = some t := by
  simp only [Forest.St.find?] at h
  obtain ⟨l0, hl0, h0⟩ := List.exists_of_findSome?_eq_some h
  exact ⟨l0, hl0, h0⟩

theorem st_detached? {sp : Forest.St} {x : Nat} {t : Tree} (h : sp.detached? x = some t) : [t] ∈ sp.tops ∧ t.id = x := by
  simp only [Forest.St.detached?] at h
  cases hf : sp.tops.find? (fun l => headId l == some x) with
  | none => simp [hf] at h
  | some l =>
    rw [hf] at h
    have hm := List.mem_of_find?_eq_some hf
    have hp := List.find?_some hf
    match l, h with
    | [t'], h =>
      simp at h; subst h
      exact ⟨hm, by simpa [headId] using hp⟩

/-- `eraseTop x` takes away the detached root `x` and nothing else -/
theorem eraseTop_perm {s : Store} {sp : Forest.St} {x : Nat} {t : Tree} {others : List Forest} (htid : t.id = x)
    (hp : sp.tops.Perm ([t] :: others)) (hR : Realises s ([t] :: others)) : (sp.eraseTop x).Perm others := by
  simp only [Forest.St.eraseTop]
  refine (hp.filter _).trans ?_
  have h1 : (headId [t] != some x) = false := by simp [headId, htid]
  rw [List.filter_cons_of_neg (by simp [h1])]
  rw [List.filter_eq_self.2]
  intro l hl
  have hne := (hR.real l (by simp [hl])).1
  cases l with
  | nil => exact absurd rfl hne
  | cons u us =>
    cases u with
    | node i n v cs =>
      have hx : x ∉ ids ((.node i n v cs) :: us) := hR.disjoint_rest _ hl x (by cases t; simp [Tree.id] at htid; simp [htid])
      simp only [headId, List.head?_cons, Option.map_some, Tree.id, bne_iff_ne, ne_eq, Option.some.injEq]
      intro h; subst h; simp at hx


/-- the top-level lists after the detached root `x` was taken away and `F` applied, `F` changing `l0` only -/
theorem placed_tops {s : Store} {sp : Forest.St} {x : Nat} {t : Tree} {l0 : Forest} {rest : List Forest} (F : Forest → Forest)
    (htid : t.id = x) (hp : sp.tops.Perm ([t] :: l0 :: rest)) (hR : Realises s ([t] :: l0 :: rest))
    (hF : ∀ r ∈ rest, F r = r) : ((sp.eraseTop x).map F).Perm (F l0 :: rest) := by
  have h1 := (eraseTop_perm htid hp hR).map F
  refine h1.trans ?_
  simp only [List.map_cons]
  have : rest.map F = rest := by
    conv => rhs; rw [← List.map_id rest]
    exact List.map_congr_left (fun r hr => by simp [hF r hr])
  rw [this]

/-- located form of the operands of `place`: the detached root and the list of the target are different tops -/
theorem located_pair {s : Store} {sp : Forest.St} (hR : Realises s sp.tops) {p : Nat} {t : Tree} {l0 : Forest}
    (ht : [t] ∈ sp.tops) (hl0 : l0 ∈ sp.tops) (hp : p ∈ ids l0) (hnp : p ∉ ids [t]) :
    ∃ rest, sp.tops.Perm ([t] :: l0 :: rest) ∧ Realises s ([t] :: l0 :: rest) ∧ ∀ r ∈ rest, p ∉ ids r := by
  have hne : [t] ≠ l0 := by rintro rfl; exact hnp hp
  obtain ⟨rest, hperm⟩ := two_tops ht hl0 hne
  have hR' := hR.perm hperm.symm
  refine ⟨rest, hperm, hR', ?_⟩
  have hR2 : Realises s (l0 :: [t] :: rest) := hR'.perm (List.Perm.swap _ _ _)
  exact fun r hr => hR2.disjoint_rest r (by simp [hr]) p hp

/-- `St.add` (by position and by name) is refined by `mpt_gnode_add` / `mpt_node_add` -/
theorem st_add_refines {s : Store} {sp sp' : Forest.St} (hR : Realises s sp.tops) {first x : Nat} {pos : Int} {byName : Bool}
    (h : sp.add first pos x byName = some sp') : ∃ s', s.add first pos x byName = .ok s' ∧ Realises s' sp'.tops := by
  simp only [Forest.St.add] at h
  cases hd : sp.detached? x with
  | none => simp [hd] at h
  | some t =>
    simp only [hd, Forest.St.place] at h
    cases hs : sp.sibsOf? first with
    | none => simp [hs] at h
    | some lj =>
      obtain ⟨l, j⟩ := lj
      simp only [hs] at h
      by_cases hc : (ids [t]).contains first
      · simp at hc; simp [hc] at h
      · simp only [hc, Bool.false_eq_true, ↓reduceIte] at h
        obtain ⟨htm, htid⟩ := st_detached? hd
        obtain ⟨l0, hl0, hso⟩ := st_sibsOf? hs
        obtain ⟨par, hat, hupd⟩ := sibsOf?_sibsAt hso
        obtain ⟨rest, hperm, hR', hrest⟩ := located_pair hR htm hl0 hat.mem (by simpa using hc)
        cases t with
        | node x' n' v' cs' =>
          simp only [Tree.id] at htid; subst htid
          have htops : ∀ k, ((sp.eraseTop x').map (updSibs first fun l' => l'.insertIdx k (.node x' n' v' cs'))).Perm
              (applyAt par (fun l' => l'.insertIdx k (.node x' n' v' cs')) l0 :: rest) := by
            intro k
            have := placed_tops (updSibs first fun l' => l'.insertIdx k (.node x' n' v' cs')) rfl hperm hR'
              (fun r hr => (sibsOf?_not_mem (hrest r hr)).2 _)
            rwa [hupd] at this
          cases byName with
          | false =>
            simp only [Bool.false_eq_true, ↓reduceIte, Option.some.injEq] at h
            subst h
            obtain ⟨s', h1, h2⟩ := add_refines pos hR' hat
            exact ⟨s', h1, h2.perm (htops _)⟩
          | true =>
            simp only [↓reduceIte, Tree.name] at h
            obtain ⟨s', h1, h2⟩ := add_name_refines pos hR' hat
            cases hk : nameIdx l j n' pos with
            | none =>
              simp only [hk, Option.some.injEq] at h h2
              subst h
              exact ⟨s', h1, h2.perm hperm⟩
            | some k =>
              simp only [hk, Option.some.injEq] at h h2
              subst h
              exact ⟨s', h1, h2.perm (htops k)⟩

theorem nameIdx_nil (f : Nat) (nm : Name) (pos : Int) : nameIdx [] f nm pos = some 0 := by
  simp [nameIdx, namesakes, midx]

theorem addIdx_zero (f : Nat) (pos : Int) (hf : f = 0) : addIdx 0 f pos = 0 := by
  subst hf
  simp only [addIdx]
  split
  · rfl
  · split
    · simp
    · simp

/-- `St.insert` (by position and by name) is refined by `mpt_gnode_insert` / `mpt_node_insert` -/
theorem st_insert_refines {s : Store} {sp sp' : Forest.St} (hR : Realises s sp.tops) {parent x : Nat} {pos : Int} {byName : Bool}
    (h : sp.insert parent pos x byName = some sp') : ∃ s', s.insert parent pos x byName = .ok s' ∧ Realises s' sp'.tops := by
  simp only [Forest.St.insert] at h
  cases hd : sp.detached? x with
  | none => simp [hd] at h
  | some t =>
    cases hfp : sp.find? parent with
    | none => simp [hd, hfp] at h
    | some pt =>
      simp only [hd, hfp] at h
      by_cases hc : (ids [t]).contains parent
      · simp at hc; simp [hc] at h
      · simp only [hc, Bool.false_eq_true, ↓reduceIte] at h
        obtain ⟨htm, htid⟩ := st_detached? hd
        obtain ⟨l0, hl0, hf⟩ := st_find? hfp
        obtain ⟨rest, hperm, hR', hrest⟩ := located_pair hR htm hl0 (find?_mem hf).1 (by simpa using hc)
        have hnd0 : (ids l0).Nodup := by
          have := hR'.nodup
          simp only [List.flatMap_cons] at this
          exact (List.nodup_append.1 (List.nodup_append.1 this).2.1).1
        cases t with
        | node x' n' v' cs' =>
          simp only [Tree.id] at htid; subst htid
          have htops : ∀ g, ((sp.eraseTop x').map (modKids parent g)).Perm (modKids parent g l0 :: rest) := fun g =>
            placed_tops (modKids parent g) rfl hperm hR' (fun r hr => modKids_of_not_mem (hrest r hr))
          by_cases hempty : pt.children = []
          · -- first child of a childless parent
            obtain ⟨s', h1, h2⟩ := insert_empty_refines pos byName hR' hf hempty
            have hk : (if byName = true then nameIdx pt.children 0 (Tree.node x' n' v' cs').name pos
                else some (addIdx pt.children.length 0 pos)) = some 0 := by
              rw [hempty]
              cases byName with
              | true => simp [nameIdx_nil]
              | false => simp [addIdx_zero 0 pos rfl]
            simp only [hk, Option.some.injEq] at h
            subst h
            refine ⟨s', h1, h2.perm ?_⟩
            have := htops (fun l => l.insertIdx 0 (.node x' n' v' cs'))
            rwa [modKids_congr (g' := fun _ => [.node x' n' v' cs']) hnd0 hf (by simp [hempty])] at this
          · cases byName with
            | false =>
              simp only [Bool.false_eq_true, ↓reduceIte, Option.some.injEq] at h
              subst h
              obtain ⟨s', h1, h2⟩ := insert_refines pos hR' hf hempty
              exact ⟨s', h1, h2.perm (htops _)⟩
            | true =>
              simp only [↓reduceIte, Tree.name] at h
              obtain ⟨s', h1, h2⟩ := insert_name_refines pos hR' hf hempty
              cases hk : nameIdx pt.children 0 n' pos with
              | none =>
                simp only [hk, Option.some.injEq] at h h2
                subst h
                exact ⟨s', h1, h2.perm hperm⟩
              | some k =>
                simp only [hk, Option.some.injEq] at h h2
                subst h
                exact ⟨s', h1, h2.perm (htops _)⟩

/-- `St.clone x 1` / `St.clone x 2` are refined by `mpt_tree_clone` / `mpt_list_clone` -/
theorem st_clone_refines {s : Store} {sp sp' : Forest.St} (hR : Realises s sp.tops) (hn : sp.next = s.nodes.length) {x : Nat} :
    (sp.clone x 1 = some sp' → ∃ r, s.treeClone x = .ok r ∧ Realises r.1 sp'.tops) ∧
    (sp.clone x 2 = some sp' → ∃ r, s.listClone s.fuel (some x) = .ok r ∧ Realises r.1 sp'.tops) := by
  have key : ∀ mode, sp.clone x mode = some sp' → ∃ l i t l0 par rest, l[i]? = some t ∧ SibsAt x l0 l i par ∧
      sp.tops.Perm (l0 :: rest) ∧ Realises s (l0 :: rest) ∧
      sp'.tops = sp.tops ++ [(relabel (if mode = 0 then [.node t.id t.name t.value []] else if mode = 1 then [t] else l.drop i) sp.next).1] := by
    intro mode h
    simp only [Forest.St.clone] at h
    cases hs : sp.sibsOf? x with
    | none => simp [hs] at h
    | some li =>
      obtain ⟨l, i⟩ := li
      simp only [hs] at h
      cases ht : l[i]? with
      | none => simp [ht] at h
      | some t =>
        simp only [ht, Option.some.injEq] at h
        obtain ⟨l0, hl0, hso⟩ := st_sibsOf? hs
        obtain ⟨par, hat, _⟩ := sibsOf?_sibsAt hso
        obtain ⟨rest, hperm⟩ := one_top hl0
        exact ⟨l, i, t, l0, par, rest, ht, hat, hperm, hR.perm hperm.symm, by rw [← h]⟩
  constructor
  · intro h
    obtain ⟨l, i, t, l0, par, rest, ht, hat, hperm, hR', htops⟩ := key 1 h
    have hnd0 : (ids l0).Nodup := by
      have := hR'.nodup
      simp only [List.flatMap_cons] at this
      exact (List.nodup_append.1 this).1
    have hfx := hat.find_elem hnd0 ht
    have htid := (find?_mem hfx).2
    cases t with
    | node x' n v cs =>
      simp only [Tree.id] at htid; subst htid
      obtain ⟨s', h1, h2⟩ := treeClone_refines hR' hfx
      refine ⟨_, h1, ?_⟩
      rw [htops, hn]
      simp only [show ¬ (1 : Nat) = 0 by decide, ↓reduceIte]
      exact h2.perm (List.Perm.append_right _ hperm)
  · intro h
    obtain ⟨l, i, t, l0, par, rest, ht, hat, hperm, hR', htops⟩ := key 2 h
    obtain ⟨s', h1, h2⟩ := listClone_refines hR' hat
    refine ⟨_, h1, ?_⟩
    rw [htops, hn]
    simp only [show ¬ (2 : Nat) = 0 by decide, show ¬ (2 : Nat) = 1 by decide, ↓reduceIte]
    exact h2.perm (List.Perm.append_right _ hperm)

theorem id_mem_of_getElem? : ∀ {L : Forest} {k : Nat} {t : Tree}, L[k]? = some t → t.id ∈ ids L
  | [], _, _, h => by simp at h
  | (.node i n v cs) :: ts, 0, t, h => by simp at h; subst h; simp [Tree.id]
  | (.node i n v cs) :: ts, k + 1, t, h => by
    have := id_mem_of_getElem? (L := ts) (k := k) (t := t) (by simpa using h)
    simp [this]

theorem applyAt_congr {p : Nat} {l L : Forest} {j : Nat} {par : Option Nat} {g g' : Forest → Forest}
    (h : SibsAt p l L j par) (hnd : (ids l).Nodup) (hg : g L = g' L) : applyAt par g l = applyAt par g' l := by
  cases h with
  | top _ => simpa [applyAt] using hg
  | kids hf _ => simpa [applyAt] using modKids_congr hnd hf hg

/-- the list that `topOf?` names is the one that holds the handle -/
theorem topOf?_spec {sp : Forest.St} (hnd : (sp.tops.flatMap ids).Nodup) {a i : Nat} (h : sp.topOf? a = some i) {l : Forest}
    (hl : l ∈ sp.tops) (ha : a ∈ ids l) :
    sp.tops[i]? = some l ∧ ∀ (c : Nat) (k : Nat), c ∈ ids l → sp.topOf? c = some k → k ≤ i := by
  simp only [Forest.St.topOf?] at h ⊢
  obtain ⟨hlt, hi, hmin⟩ := List.findIdx?_eq_some_iff_getElem.1 h
  have heq : sp.tops[i] = l := uniq_top hnd (List.getElem_mem hlt) hl (by simpa using hi) ha
  refine ⟨by rw [List.getElem?_eq_getElem hlt, heq], ?_⟩
  intro c k hc hk
  obtain ⟨hklt, _, hkmin⟩ := List.findIdx?_eq_some_iff_getElem.1 hk
  refine Nat.le_of_not_lt fun hik => ?_
  exact hkmin i hik (by rw [heq]; simpa using hc)

/-- `St.move` is refined by `mpt_node_move` (list reference kept in a variable of the caller) -/
theorem st_move_refines_slot {s : Store} {sp sp' : Forest.St} (hR : Realises s sp.tops) {a b m : Nat}
    (h : sp.move a b = some (sp', m)) (slot : Store.Slot)
    (hslot : ∀ la S i ps, la ∈ sp.tops → SibsAt a la S i ps → ∀ p, slot = .kids p → ps = some p) :
    ∃ r, s.move s.fuel slot (some a) b = .ok r ∧ r.2 = m ∧ Realises r.1 sp'.tops := by
  simp only [Forest.St.move] at h
  cases hta : sp.topOf? a with
  | none => simp [hta] at h
  | some ia =>
  cases htb : sp.topOf? b with
  | none => simp [hta, htb] at h
  | some ib =>
  cases hsa : sp.sibsOf? a with
  | none => simp [hta, htb, hsa] at h
  | some Si =>
  cases hsb : sp.sibsOf? b with
  | none => simp [hta, htb, hsa, hsb] at h
  | some Dd =>
    obtain ⟨S, i⟩ := Si
    obtain ⟨D, d⟩ := Dd
    simp only [hta, htb, hsa, hsb] at h
    by_cases hab : ia = ib
    · simp [hab] at h
    · simp only [hab, ↓reduceIte, Option.some.injEq, Prod.mk.injEq] at h
      obtain ⟨htops, hm⟩ := h
      obtain ⟨la, hla, hsoa⟩ := st_sibsOf? hsa
      obtain ⟨lb, hlb, hsob⟩ := st_sibsOf? hsb
      obtain ⟨ps, hata, hupda⟩ := sibsOf?_sibsAt hsoa
      obtain ⟨pd, hatb, hupdb⟩ := sibsOf?_sibsAt hsob
      have hne : la ≠ lb := by
        rintro rfl
        have h1 := (topOf?_spec hR.nodup hta hla hata.mem).2 b ib hatb.mem htb
        have h2 := (topOf?_spec hR.nodup htb hla hatb.mem).2 a ia hata.mem hta
        omega
      obtain ⟨rest, hperm⟩ := two_tops hla hlb hne
      have hR' := hR.perm hperm.symm
      obtain ⟨s', h1, h2⟩ := move_refines (slot := slot) hR' hata hatb (hslot la S i ps hla hata)
      refine ⟨(s', _), h1, hm, ?_⟩
      -- the lists the specification produces
      generalize hA : applyAt ps (fun _ => S.take i ++ (merge (S.drop i) D d).1) la = A' at h2
      generalize hB : applyAt pd (fun _ => (merge (S.drop i) D d).2.1) lb = B' at h2
      have hdab : ∀ x ∈ ids la, x ∉ ids lb := fun x hx hx' => hne (uniq_top hR.nodup hla hlb hx hx')
      have hresta : ∀ r ∈ rest, a ∉ ids r := fun r hr => hR'.disjoint_rest r (by simp [hr]) a hata.mem
      have hrestb : ∀ r ∈ rest, b ∉ ids r := by
        have hR2 : Realises s (lb :: la :: rest) := hR'.perm (List.Perm.swap _ _ _)
        exact fun r hr => hR2.disjoint_rest r (by simp [hr]) b hatb.mem
      have hnda : (ids la).Nodup := by
        have := hR'.nodup
        simp only [List.flatMap_cons] at this
        exact (List.nodup_append.1 this).1
      have hbB : b ∈ ids B' := by
        obtain ⟨tb, htb', htbid⟩ := getElem?_of_idx? hatb.idx
        have hdlt := (List.getElem?_eq_some_iff.1 htb').1
        obtain ⟨_, hpre⟩ := merge_dst_prefix (S.drop i) D d
        have := hpre d hdlt
        rw [htb'] at this
        cases hq : (merge (S.drop i) D d).2.1[d]? with
        | none => simp [hq] at this
        | some t' =>
          simp [hq] at this
          have hmem := id_mem_of_getElem? hq
          rw [this, htbid] at hmem
          have hndb : (ids lb).Nodup := by
            have := hR'.nodup
            simp only [List.flatMap_cons] at this
            exact (List.nodup_append.1 (List.nodup_append.1 this).2.1).1
          obtain ⟨A2, B2, _, hsplit⟩ := hatb.ids_split hndb
          rw [← hB, hsplit]
          simp [hmem]
      have hbA : b ∉ ids A' := by
        by_cases hAe : A' = []
        · simp [hAe]
        · intro hbA
          have hnd := h2.nodup
          have hAi : A'.isEmpty = false := by cases A' <;> simp_all
          simp only [hAi, Bool.false_eq_true, ↓reduceIte, List.cons_append, List.nil_append, List.flatMap_cons] at hnd
          exact (List.nodup_append.1 hnd).2.2 b hbA b (by simp [hbB]) rfl
      have hmap : ((sp.tops.map (updSibs a fun l' => l'.take i ++ (merge (S.drop i) D d).1)).map
          (updSibs b fun _ => (merge (S.drop i) D d).2.1)).Perm (A' :: B' :: rest) := by
        refine ((hperm.map _).map _).trans ?_
        simp only [List.map_cons, List.map_map]
        have e1 : updSibs b (fun _ => (merge (S.drop i) D d).2.1) (updSibs a (fun l' => l'.take i ++ (merge (S.drop i) D d).1) la) = A' := by
          rw [hupda, applyAt_congr (g' := fun _ => S.take i ++ (merge (S.drop i) D d).1) hata hnda rfl, hA]
          exact (sibsOf?_not_mem hbA).2 _
        have e2 : updSibs b (fun _ => (merge (S.drop i) D d).2.1) (updSibs a (fun l' => l'.take i ++ (merge (S.drop i) D d).1) lb) = B' := by
          rw [(sibsOf?_not_mem (p := a) (l := lb) (fun hx => hdab a hata.mem hx)).2 _, hupdb, hB]
        rw [e1, e2]
        have : rest.map ((updSibs b fun _ => (merge (S.drop i) D d).2.1) ∘ (updSibs a fun l' => l'.take i ++ (merge (S.drop i) D d).1)) = rest := by
          conv => rhs; rw [← List.map_id rest]
          refine List.map_congr_left (fun r hr => ?_)
          simp only [Function.comp, id]
          rw [(sibsOf?_not_mem (hresta r hr)).2 _, (sibsOf?_not_mem (hrestb r hr)).2 _]
        rw [this]
      rw [← htops]
      simp only [Forest.St.dropEmpty]
      refine h2.perm ((hmap.filter _).trans ?_)
      have hBne : B' ≠ [] := (h2.real B' (by simp)).1
      have hrne : ∀ r ∈ rest, r ≠ [] := fun r hr => (h2.real r (by simp [hr])).1
      have hfr : rest.filter (fun l => !l.isEmpty) = rest := by
        apply List.filter_eq_self.2
        intro r hr
        have := hrne r hr
        cases r <;> simp_all
      have hfB : (!B'.isEmpty) = true := by cases B' <;> simp_all
      by_cases hAe : A'.isEmpty
      · simp [List.filter_cons, hAe, hfB, hfr]
      · simp [List.filter_cons, hAe, hfB, hfr]


/-- `St.move` is refined by `mpt_node_move` (list reference kept in a variable of the caller) -/
theorem st_move_refines {s : Store} {sp sp' : Forest.St} (hR : Realises s sp.tops) {a b m : Nat}
    (h : sp.move a b = some (sp', m)) :
    ∃ slot r, s.move s.fuel slot (some a) b = .ok r ∧ r.2 = m ∧ Realises r.1 sp'.tops :=
  ⟨.loc, st_move_refines_slot hR h .loc (by intro _ _ _ _ _ _ p hp; cases hp)⟩

end Mpt.Nodes
