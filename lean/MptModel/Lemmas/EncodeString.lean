/-
  Lemmas about the command text encoder model `encodeString` (core Lean only).
-/
import MptModel.Impl.Encode
namespace Mpt.Codec
open Mpt.Cobs

/-- command text, one push and the termination on a window with room: the finished data is the message
    followed by the delimiter -/
theorem encodeString_frame (win m : List Byte) (hm : m ≠ []) (hz : (0 : Byte) ∉ m) (hw : m.length + 1 ≤ win.length) :
    ∃ o1 o2, encodeString {} win (some m) = .ok o1 ∧ o1.ret = m.length ∧
      encodeString o1.st o1.win none = .ok o2 ∧ o2.win.take o2.st.done = m ++ [0] ∧ some (m ++ [0]) = encStr m := by
  have hl : 0 < m.length := List.length_pos_iff.mpr hm
  have hmin : min m.length (win.length - 0) = m.length := by omega
  refine ⟨⟨{ done := m.length }, m ++ win.drop m.length, m.length⟩, ?_⟩
  have h1 : encodeString {} win (some m) = .ok ⟨{ done := m.length }, m ++ win.drop m.length, m.length⟩ := by
    unfold encodeString
    simp only [ne_eq, not_true_eq_false, or_self, if_false, Nat.not_lt_zero, Nat.sub_zero]
    rw [if_neg (by omega), if_neg (by omega)]
    have : min m.length win.length = m.length := by omega
    simp only [this, List.take_length, hz, if_false, Nat.zero_add]
    rw [if_pos (by omega)]
    simp
  have hlen : (m ++ win.drop m.length).length = win.length := by simp; omega
  refine ⟨⟨{ done := m.length + 1 }, (m ++ win.drop m.length).set m.length 0, 0⟩, h1, rfl, ?_, ?_, by simp [encStr, hz]⟩
  · unfold encodeString
    simp only [ne_eq, not_true_eq_false, or_self, if_false]
    rw [if_neg (by rw [hlen]; omega), if_neg (by rw [hlen]; omega)]
    simp only [wr]
    rw [if_pos (by rw [hlen]; omega)]
    rfl
  · simp only
    apply List.ext_getElem?
    intro i
    simp only [List.getElem?_take, List.getElem?_set, List.getElem?_append, List.length_append, List.length_drop]
    by_cases h : i < m.length
    · have : ¬ m.length = i := by omega
      simp [h, this]; omega
    · by_cases h2 : i = m.length
      · subst h2; simp; omega
      · have : ¬ i < m.length + 1 := by omega
        simp [this]
        rw [if_neg h]
        have : i - m.length = (i - m.length - 1) + 1 := by omega
        rw [this]; rfl

/-- a zero byte in what would be copied is refused -/
theorem encodeString_refuses (st : EncState) (win m : List Byte) (hs : st.scratch = 0 ∧ st.ctx = 0)
    (hz : (0 : Byte) ∈ m.take (min m.length (win.length - st.done))) (hd : st.done < win.length) (hm : m ≠ []) :
    encodeString st win (some m) = .err .BadEncoding := by
  have hl : 0 < m.length := List.length_pos_iff.mpr hm
  unfold encodeString
  simp only [hs, ne_eq, not_true_eq_false, or_self, if_false]
  rw [if_neg (by omega), if_neg (by omega), if_neg (by omega), if_pos hz]

end Mpt.Codec
