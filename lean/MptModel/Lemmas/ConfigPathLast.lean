/-
  mpt_path_last after any number of mpt_path_next calls (separator mode): the path is reduced to the last
  component of the text.
-/
import MptModel.Lemmas.ConfigPath
namespace Mpt.Config
open Mpt Mpt.PathMap

/-- separator-mode path over the text `t` (stored behind `pre`, followed by `tl`: terminator or assign character
    and whatever comes after it); `first` is unknown (0) or the length of the first component -/
structure SepPath (sep : Byte) (p : Path) (pre t tl : List Byte) : Prop where
  base : p.base = pre ++ t ++ tl
  tl : tl ≠ []
  off : p.off = pre.length
  len : p.len = t.length + 1
  bin : p.binary = false
  hsep : p.sep = sep
  first : p.first = 0 ∨ p.first = (t.takeWhile (· ≠ sep)).length

theorem takeWhile_first (sep : Byte) : ∀ (a rest : List Byte), sep ∉ a → (a ++ sep :: rest).takeWhile (· ≠ sep) = a
  | [], rest, _ => by simp
  | c :: cs, rest, h => by
    simp at h
    have hc : c ≠ sep := fun e => h.1 e.symm
    have ih := takeWhile_first sep cs rest h.2
    simp only [List.cons_append, List.takeWhile_cons, hc, ne_eq, not_false_eq_true, decide_true, ↓reduceIte, ih]

theorem takeWhile_all (sep : Byte) : ∀ (t : List Byte), sep ∉ t → t.takeWhile (· ≠ sep) = t
  | [], _ => by simp
  | c :: cs, h => by
    simp at h
    have hc : c ≠ sep := fun e => h.1 e.symm
    have ih := takeWhile_all sep cs h.2
    simp only [List.takeWhile_cons, hc, ne_eq, not_false_eq_true, decide_true, ↓reduceIte, ih]

/-- one `mpt_path_next` on a path with at least two components -/
theorem pathNext_step {sep : Byte} {p : Path} {pre t tl a rest : List Byte} (h : SepPath sep p pre t tl)
    (hta : t = a ++ sep :: rest) (hna : sep ∉ a) :
    ∃ q, pathNext p = .ok (q, a.length) ∧ SepPath sep q (pre ++ a ++ [sep]) rest tl ∧ q.first = 0 ∧
      q.off = pre.length + a.length + 1 ∧ q.base = p.base := by
  have hl := h.len
  have hdata : p.base.drop p.off = t ++ tl := by simp [h.base, h.off]
  have hl0 : ¬ p.len = 0 := by omega
  rcases Nat.eq_zero_or_pos p.first with hf0 | hfpos
  · -- plain search
    have hmem : memchr (t ++ tl) sep t.length = some a.length := by
      rw [hta]
      simp only [List.append_assoc, List.cons_append]
      apply memchr_some _ _ _ _ hna
      simp
    refine ⟨{ p with off := p.off + (a.length + 1), len := p.len - (a.length + 1) }, ?_, ?_, hf0, ?_, rfl⟩
    · simp only [pathNext, hl, h.bin, hf0, hdata, h.hsep]
      simp [h.base, h.off, hmem]
    · exact ⟨by simp [h.base, hta], h.tl, by simp [h.off], by simp [hl, hta], h.bin, h.hsep, Or.inl hf0⟩
    · simp [h.off]; omega
  · -- recorded length of the first component
    have hfa : p.first = a.length := by
      rcases h.first with h0 | h1
      · omega
      · rw [h1, hta, takeWhile_first sep a rest hna]
    have hne : ¬ p.first = 0 := by omega
    refine ⟨{ p with first := 0, off := p.off + (a.length + 1), len := p.len - (a.length + 1) }, ?_, ?_, rfl, ?_, rfl⟩
    · have hle : ¬ (a.length + 1 > t.length + 1) := by rw [hta]; simp
      simp only [pathNext, hl, h.bin, hfa]
      have : ¬ a.length = 0 := by omega
      simp [this, hle]
    · exact ⟨by simp [h.base, hta], h.tl, by simp [h.off], by simp [hl, hta], h.bin, h.hsep, Or.inl rfl⟩
    · simp [h.off]; omega

/-- `mpt_path_next` on a path with one component uses it up -/
theorem pathNext_end {sep : Byte} {p : Path} {pre t tl : List Byte} (h : SepPath sep p pre t tl) (hsep : sep ∉ t) :
    ∃ q, pathNext p = .ok (q, t.length) ∧ q.len = 0 ∧ q.off = pre.length + t.length + 1 ∧ q.base = p.base := by
  have hl := h.len
  have hdata : p.base.drop p.off = t ++ tl := by simp [h.base, h.off]
  rcases Nat.eq_zero_or_pos p.first with hf0 | hfpos
  · have hmem : memchr (t ++ tl) sep t.length = none := by
      apply memchr_none
      simp [hsep]
    refine ⟨{ p with off := p.off + p.len, len := 0 }, ?_, rfl, by simp [h.off, hl]; omega, rfl⟩
    simp only [pathNext, hl, h.bin, hf0, hdata, h.hsep]
    simp [h.base, h.off, hmem]
  · have hfa : p.first = t.length := by
      rcases h.first with h0 | h1
      · omega
      · rw [h1, takeWhile_all sep t hsep]
    refine ⟨{ p with first := 0, off := p.off + (t.length + 1), len := p.len - (t.length + 1) }, ?_, by simp [hl],
      by simp [h.off]; omega, rfl⟩
    simp only [pathNext, hl, h.bin, hfa]
    have : ¬ t.length = 0 := by omega
    simp [this]

/-- walking a separator-mode path yields the components of its text, whatever `first` says -/
theorem elems_sepPath {sep : Byte} {p : Path} {pre t tl : List Byte} (h : SepPath sep p pre t tl) (fuel : Nat)
    (hf : t.length + 2 ≤ fuel) : elems p fuel = .ok (splitOn sep t) := by
  rcases Nat.eq_zero_or_pos p.first with hf0 | hfpos
  · exact elems_first0G sep t.length t pre tl p fuel (Nat.le_refl _) hf h.tl h.base h.off h.len hf0 h.bin h.hsep
  · obtain ⟨f, rfl⟩ : ∃ f, fuel = f + 1 := ⟨fuel - 1, by omega⟩
    have hl0 : ¬ p.len = 0 := by have := h.len; omega
    by_cases hsep : sep ∈ t
    · obtain ⟨a, rest, hta, hna⟩ := exists_first_sep sep t hsep
      obtain ⟨q, hq, hQ, hq0, hqoff, hqb⟩ := pathNext_step h hta hna
      have := elems_first0G sep rest.length rest (pre ++ a ++ [sep]) tl q f (Nat.le_refl _)
        (by rw [hta] at hf; simp at hf; omega) hQ.tl hQ.base hQ.off hQ.len hq0 hQ.bin hQ.hsep
      simp only [elems, hl0, ↓reduceIte, hq, this]
      have hsp : splitOn sep t = a :: splitOn sep rest := by rw [hta]; exact splitOn_append_sep sep a rest hna
      rw [hsp, hqoff, h.bin, h.base, hta]
      have : pre.length + a.length + 1 - a.length - 1 = pre.length := by omega
      simp [this]
    · obtain ⟨q, hq, hql, hqoff, hqb⟩ := pathNext_end h hsep
      obtain ⟨f', rfl⟩ : ∃ f', f = f' + 1 := ⟨f - 1, by omega⟩
      simp only [elems, hl0, ↓reduceIte, hq, hql]
      rw [splitOn_no_sep sep t hsep, hqoff, h.bin, h.base]
      have : pre.length + t.length + 1 - t.length - 1 = pre.length := by omega
      simp [this]

/-- the text splits into everything up to and including the last separator, and the last component -/
theorem last_decomp (sep : Byte) : ∀ (n : Nat) (t : List Byte), t.length ≤ n →
    ∃ u last, t = u ++ last ∧ sep ∉ last ∧ (u = [] ∨ ∃ u', u = u' ++ [sep]) ∧ (splitOn sep t).getLast? = some last
  | 0, t, hn => by
    have : t = [] := List.length_eq_zero_iff.1 (by omega)
    subst this
    exact ⟨[], [], rfl, by simp, Or.inl rfl, by simp [splitOn]⟩
  | n + 1, t, hn => by
    by_cases hsep : sep ∈ t
    · obtain ⟨a, rest, hta, hna⟩ := exists_first_sep sep t hsep
      obtain ⟨u, last, h1, h2, h3, h4⟩ := last_decomp sep n rest (by rw [hta] at hn; simp at hn; omega)
      refine ⟨a ++ sep :: u, last, by rw [hta, h1]; simp, h2, Or.inr ?_, ?_⟩
      · rcases h3 with rfl | ⟨u', rfl⟩
        · exact ⟨a, rfl⟩
        · exact ⟨a ++ sep :: u', by simp⟩
      · rw [hta, splitOn_append_sep sep a rest hna, List.getLast?_cons_of_ne_nil (splitOn_ne_nil sep rest), h4]
    · exact ⟨[], t, rfl, hsep, Or.inl rfl, by rw [splitOn_no_sep sep t hsep]; rfl⟩

/-- the backward scan of `mpt_path_last` stops behind the last separator (`r` = the last component reversed) -/
theorem scanBack_rev (sep : Byte) (base pre u : List Byte) : ∀ (r rest : List Byte) (acc : Nat),
    base = pre ++ u ++ r.reverse ++ rest → sep ∉ r → (u = [] ∨ ∃ u', u = u' ++ [sep]) →
    scanBack base sep (u.length + r.length) (pre.length + u.length + r.length - 1) acc = .ok (u.length, acc + r.length)
  | [], rest, acc, hb, _, hu => by
    rcases hu with rfl | ⟨u', rfl⟩
    · simp [scanBack]
    · have hidx : base[pre.length + (u' ++ [sep]).length + ([] : List Byte).length - 1]? = some sep := by
        rw [hb]
        simp only [List.length_append, List.length_cons, List.length_nil, Nat.add_zero, List.reverse_nil, List.append_nil,
          List.append_assoc]
        rw [List.getElem?_append_right (by omega), List.getElem?_append_right (by omega)]
        have : pre.length + (u'.length + 1) - 1 - pre.length - u'.length = 0 := by omega
        simp [this]
      have : (u' ++ [sep]).length + ([] : List Byte).length = u'.length + 1 := by simp
      rw [this]
      simp only [scanBack, hidx, ↓reduceIte]
      simp
  | c :: r, rest, acc, hb, hn, hu => by
    simp at hn
    have hc : c ≠ sep := fun e => hn.1 e.symm
    have hlen : u.length + (c :: r).length = (u.length + r.length) + 1 := by simp; omega
    rw [hlen]
    have hidx : base[pre.length + u.length + (c :: r).length - 1]? = some c := by
      rw [hb]
      simp only [List.reverse_cons, List.length_cons, List.append_assoc]
      rw [List.getElem?_append_right (by omega), List.getElem?_append_right (by omega),
        List.getElem?_append_right (by simp; omega)]
      have : pre.length + u.length + r.length - pre.length - u.length - r.length = 0 := by omega
      simp [this]
    simp only [scanBack, hidx, hc, ↓reduceIte]
    have := scanBack_rev sep base pre u r ([c] ++ rest) (acc + 1) (by rw [hb]; simp) hn.2 hu
    have e1 : pre.length + u.length + (c :: r).length - 1 - 1 = pre.length + u.length + r.length - 1 := by simp
    rw [e1, this]
    simp; omega

theorem scanBack_spec (sep : Byte) (base pre u l1 rest : List Byte) (acc : Nat)
    (hb : base = pre ++ u ++ l1 ++ rest) (hn : sep ∉ l1) (hu : u = [] ∨ ∃ u', u = u' ++ [sep]) :
    scanBack base sep (u.length + l1.length) (pre.length + u.length + l1.length - 1) acc = .ok (u.length, acc + l1.length) := by
  have := scanBack_rev sep base pre u l1.reverse rest acc (by simpa using hb) (by simpa using hn) hu
  simpa using this

/-- `mpt_path_last` reduces a separator-mode path (after any number of consumed components) to its last component -/
theorem pathLast_sepPath {sep : Byte} {p : Path} {pre t tl : List Byte} (h : SepPath sep p pre t tl) :
    ∃ q u last, t = u ++ last ∧ sep ∉ last ∧ (splitOn sep t).getLast? = some last ∧ pathLast p = .ok (q, last.length) ∧
      SepPath sep q (pre ++ u) last tl := by
  obtain ⟨u, last, h1, h2, h3, h4⟩ := last_decomp sep t.length t (Nat.le_refl _)
  have hl := h.len
  have hsb := scanBack_spec sep p.base pre u last tl 0 (by rw [h.base, h1]; simp) h2 h3
  have hlen : t.length = u.length + last.length := by rw [h1]; simp
  have e1 : p.len - 1 = u.length + last.length := by omega
  have e2 : p.off + p.len - 2 = pre.length + u.length + last.length - 1 := by rw [h.off]; omega
  refine ⟨{ p with off := p.off + u.length, first := if last.length > 255 then 0 else last.length, len := last.length + 1 },
    u, last, h1, h2, h4, ?_, ?_⟩
  · have hl0 : ¬ p.len = 0 := by omega
    simp only [pathLast, hl0, ↓reduceIte, h.bin, h.hsep, e1, e2, hsb]
    simp
  · refine ⟨by simp [h.base, h1], h.tl, by simp [h.off], rfl, h.bin, h.hsep, ?_⟩
    simp only [takeWhile_all sep last h2]
    by_cases hb : last.length > 255
    · simp [hb]
    · simp [hb]

/-- `n` calls of `mpt_path_next` leave a path over the remaining components -/
theorem nextN_sepPath {sep : Byte} {tl : List Byte} : ∀ (n : Nat) {p : Path} {pre t : List Byte}, SepPath sep p pre t tl →
    n < (splitOn sep t).length →
    ∃ p' pre' t', nextN p n = .ok p' ∧ SepPath sep p' pre' t' tl ∧ splitOn sep t' = (splitOn sep t).drop n
  | 0, p, pre, t, h, _ => ⟨p, pre, t, rfl, h, by simp⟩
  | n + 1, p, pre, t, h, hn => by
    have hsep : sep ∈ t := by
      refine Classical.byContradiction fun hns => ?_
      rw [splitOn_no_sep sep t hns] at hn
      simp at hn
    obtain ⟨a, rest, hta, hna⟩ := exists_first_sep sep t hsep
    have hsp : splitOn sep t = a :: splitOn sep rest := by rw [hta]; exact splitOn_append_sep sep a rest hna
    obtain ⟨q, hq, hQ, _, _, _⟩ := pathNext_step h hta hna
    obtain ⟨p', pre', t', h1, h2, h3⟩ := nextN_sepPath n hQ (by rw [hsp] at hn; simpa using hn)
    exact ⟨p', pre', t', by simp only [nextN, hq, h1], h2, by rw [h3, hsp]; simp⟩

/-- the path `mpt_path_set` makes -/
theorem pathSet_sepPath (sep assign : Byte) (hs : sep ≠ 0) (hsa : sep ≠ assign) (text : List Byte) (h0 : (0 : Byte) ∉ text) :
    ∃ tl, SepPath sep (pathSet sep assign text).1 [] (text.takeWhile (· ≠ assign)) tl := by
  obtain ⟨x, tl, hdec, hx, hall⟩ := text_decomp assign text h0
  generalize ht : text.takeWhile (· ≠ assign) = t at hdec hall ⊢
  obtain ⟨h1, h2, h3, h4⟩ := setScanG_first sep assign hs hsa t x tl 0 0 hall hx
  simp only [Nat.zero_add] at h1
  refine ⟨x :: tl, by simp [pathSet, hdec], by simp, by simp [pathSet], by simp [pathSet, hdec, h1, h2], by simp [pathSet],
    by simp [pathSet], ?_⟩
  by_cases hsep : sep ∈ t
  · obtain ⟨a, rest, hta, hna⟩ := exists_first_sep sep t hsep
    have hf := h4 a rest hta hna
    simp only [Nat.zero_add] at hf
    have htw : (t.takeWhile (· ≠ sep)).length = a.length := by rw [hta, takeWhile_first sep a rest hna]
    rw [htw]
    simp only [pathSet, hdec, hf]
    by_cases hb : a.length > 255
    · simp [hb]
    · simp [hb]
  · left
    simp [pathSet, hdec, h3 hsep]

/-- `mpt_path_last` after `n` consumed components (fewer than there are): the path is reduced to the last component
    of the text, whose length is returned -/
theorem pathLast_after_next (sep assign : Byte) (hs : sep ≠ 0) (hsa : sep ≠ assign) (text : List Byte)
    (h0 : (0 : Byte) ∉ text) (n : Nat) (hn : n < (splitPath sep assign text).length) :
    ∃ p q last, (splitPath sep assign text).getLast? = some last ∧
      nextN (pathSet sep assign text).1 n = .ok p ∧ pathLast p = .ok (q, last.length) ∧
      elems q (last.length + 2) = .ok [last] := by
  obtain ⟨tl, hS⟩ := pathSet_sepPath sep assign hs hsa text h0
  simp only [splitPath] at hn ⊢
  obtain ⟨p, pre', t', h1, h2, h3⟩ := nextN_sepPath n hS hn
  obtain ⟨q, u, last, h4, h5, h6, h7, h8⟩ := pathLast_sepPath h2
  refine ⟨p, q, last, ?_, h1, h7, ?_⟩
  · rw [h3, List.getLast?_drop] at h6
    have : ¬ (splitOn sep (text.takeWhile (· ≠ assign))).length ≤ n := by omega
    simp only [this, ↓reduceIte] at h6
    exact h6
  · rw [elems_sepPath h8 _ (Nat.le_refl _), splitOn_no_sep sep last h5]

end Mpt.Config
