/-
  Lemmas for C16: cell-level facts about the identifier model (`Impl/Ident.lean`), the well-formedness invariant,
  and what each block of `mpt_identifier_set/copy` does to storage and heap.
-/
import MptModel.Impl.Ident
set_option linter.unusedSimpArgs false
namespace Mpt.Ident

theorem mid_of_three {α} (pre p post : List α) {n m : Nat} (h1 : pre.length = n) (h2 : p.length = m) :
    ((pre ++ p ++ post).drop n).take m = p ∧ (pre ++ p ++ post).take n = pre ∧ (pre ++ p ++ post).drop (n + m) = post := by
  subst h1 h2
  refine ⟨?_, ?_, ?_⟩
  · rw [List.append_assoc, List.drop_left, List.take_left]
  · rw [List.append_assoc, List.take_left]
  · rw [← List.length_append, List.drop_left]

theorem wr_ok {area : List Cell} {off : Nat} {cells : List Cell} (h : off + cells.length ≤ area.length) :
    wr area off cells = .ok (area.take off ++ cells ++ area.drop (off + cells.length)) := by
  simp [wr, h, pure, Except.pure]

theorem wr_length {area a : List Cell} {off : Nat} {cells : List Cell} (h : wr area off cells = .ok a) :
    a.length = area.length := by
  unfold wr at h
  split at h
  · simp only [pure, Except.pure, Except.ok.injEq] at h
    subst h
    simp; omega
  · cases h

@[simp] theorem zeros_length (n : Nat) : (zeros n).length = n := by simp [zeros]
@[simp] theorem bytesC_length (b : List Byte) : (bytesC b).length = b.length := by simp [bytesC]
@[simp] theorem ptrCells_length (t : Nat) : (ptrCells t).length = 8 := by simp [ptrCells]

theorem cellBytes_bytesC (b : List Byte) : cellBytes (bytesC b) = some b := by
  induction b with
  | nil => rfl
  | cons x r ih => simp [bytesC, cellBytes] at ih ⊢; simp [ih]

theorem cellBytes_append (a b : List Cell) :
    cellBytes (a ++ b) = (cellBytes a).bind fun x => (cellBytes b).map (x ++ ·) := by
  induction a with
  | nil => simp [cellBytes]
  | cons c r ih =>
    cases c with
    | byte x =>
      simp only [List.cons_append, cellBytes, ih]
      cases cellBytes r <;> simp
      cases cellBytes b <;> simp
    | ptr t k => simp [cellBytes]
    | undef => simp [cellBytes]

theorem cellBytes_zeros (n : Nat) : cellBytes (zeros n) = some (List.replicate n 0) := by
  have : zeros n = bytesC (List.replicate n 0) := by simp [zeros, bytesC]
  rw [this, cellBytes_bytesC]

theorem cellBytes_length {c : List Cell} {b : List Byte} (h : cellBytes c = some b) : b.length = c.length := by
  induction c generalizing b with
  | nil => simp [cellBytes] at h; subst h; rfl
  | cons x r ih =>
    cases x with
    | byte y =>
      simp only [cellBytes, Option.map_eq_some_iff] at h
      obtain ⟨b', hb', rfl⟩ := h
      simp [ih hb']
    | ptr t k => simp [cellBytes] at h
    | undef => simp [cellBytes] at h

theorem ptrCells_ne_zeros (t : Nat) : ptrCells t ≠ zeros 8 := by
  simp [ptrCells, zeros, List.range, List.range.loop]

theorem ptrCells_head (t : Nat) : (ptrCells t).head? = some (.ptr t 0) := by
  simp [ptrCells, List.range, List.range.loop]

/-- loading `_base` from an area whose cells 4..12 hold the pointer to block `t` -/
theorem getBase_tok {area : List Cell} {t : Nat} (hl : 12 ≤ area.length) (hc : (area.drop 4).take 8 = ptrCells t) :
    getBase area = .ok (.tok t) := by
  unfold getBase
  have : ¬ area.length < 12 := by omega
  simp only [this, if_false, hc, ptrCells_ne_zeros, ptrCells_head, if_true]
  rfl

theorem getBase_null {area : List Cell} (hl : 12 ≤ area.length) (hc : (area.drop 4).take 8 = zeros 8) :
    getBase area = .ok .null := by
  unfold getBase
  have : ¬ area.length < 12 := by omega
  simp only [this, if_false, hc, if_true]
  rfl

/-- storing then loading `_base` -/
theorem setBase_getBase {area a : List Cell} {t : Nat} (h : setBase area (.tok t) = .ok a) :
    getBase a = .ok (.tok t) ∧ a.length = area.length ∧ a.take 4 = area.take 4 ∧ a.drop 12 = area.drop 12 := by
  unfold setBase at h
  have hl := wr_length h
  unfold wr at h
  simp only [ptrCells_length] at h
  split at h
  · rename_i hb
    simp only [pure, Except.pure, Except.ok.injEq] at h
    subst h
    have h4 : (area.take 4).length = 4 := by simp; omega
    obtain ⟨m1, m2, m3⟩ := mid_of_three (area.take 4) (ptrCells t) (area.drop (4 + 8)) h4 (ptrCells_length t)
    refine ⟨getBase_tok (by rw [hl]; omega) m1, hl, ?_, ?_⟩
    · rw [m2]
    · rw [show 12 = 4 + 8 from rfl, m3]
  · cases h


/- ---------- heap ---------- -/
theorem free_ok {h : Heap} {t who : Nat} {b : Block} (hb : h.blocks[t]? = some b) (hl : b.live = true) (ho : b.owner = who) :
    h.free t who = .ok ⟨h.blocks.set t { b with live := false }⟩ := by
  simp [Heap.free, hb, hl, ho, pure, Except.pure]

/-- the identifier is well-formed in heap `h` as slot `k` -/
structure Wf (id : Ident) (h : Heap) (k : Nat) : Prop where
  area_len : 12 ≤ id.area.length
  max_eq : id.max = min id.area.length identMax
  len_le : id.len ≤ 65535
  inl : id.len ≤ id.max → ∃ b, cellBytes (id.area.take id.len) = some b
  ext : id.max < id.len → ∃ t b, getBase id.area = .ok (.tok t) ∧ h.blocks[t]? = some b ∧ b.live = true ∧ b.owner = k ∧
    b.data.length = id.len

/-- every live block of owner `k` is the one the identifier points to (nothing leaked) -/
def Own (id : Ident) (h : Heap) (k : Nat) : Prop :=
  ∀ t b, h.blocks[t]? = some b → b.live = true → b.owner = k → id.max < id.len ∧ getBase id.area = .ok (.tok t)

/-- blocks of other owners are untouched -/
def Frame (h h' : Heap) (k : Nat) : Prop :=
  ∀ (t : Nat) (b : Block), b.owner ≠ k → (h.blocks[t]? = some b ↔ h'.blocks[t]? = some b)

theorem Frame.refl (h : Heap) (k : Nat) : Frame h h k := fun _ _ _ => Iff.rfl

theorem Wf.max_le {id : Ident} {h : Heap} {k : Nat} (hw : Wf id h k) : id.max ≤ id.area.length ∧ 12 ≤ id.max ∧ id.max ≤ 252 := by
  have := hw.max_eq
  have := hw.area_len
  unfold identMax at *
  omega

/-- freeing the old allocation of a well-formed identifier, in a heap `h1` that extends `h` by new blocks:
    afterwards no block of `h` owned by `k` is live -/
theorem release_old {id : Ident} {h : Heap} {k : Nat} (hw : Wf id h k) (ho : Own id h k) (extra : List Block) :
    ∃ p h2, oldAlloc id = .ok p ∧ freePtr ⟨h.blocks ++ extra⟩ p k = .ok h2 ∧
      h2.blocks.length = h.blocks.length + extra.length ∧
      (∀ t b, t < h.blocks.length → h2.blocks[t]? = some b → b.owner = k → b.live = false) ∧
      (∀ t b, b.owner ≠ k → (h.blocks[t]? = some b ↔ (t < h.blocks.length ∧ h2.blocks[t]? = some b))) ∧
      (∀ i, i < extra.length → h2.blocks[h.blocks.length + i]? = extra[i]?) := by
  unfold oldAlloc
  by_cases hext : id.max < id.len
  · obtain ⟨t, b, hgb, hb, hl, hown, _⟩ := hw.ext hext
    have hlt : t < h.blocks.length := by
      rcases Nat.lt_or_ge t h.blocks.length with h' | h'
      · exact h'
      · rw [List.getElem?_eq_none h'] at hb; cases hb
    have hb1 : (h.blocks ++ extra)[t]? = some b := by rw [List.getElem?_append_left hlt]; exact hb
    refine ⟨.tok t, _, by simp [hext, hgb], free_ok hb1 hl hown, by simp, ?_, ?_, ?_⟩
    · intro t' b' ht' hb' ho'
      simp only [List.getElem?_set] at hb'
      by_cases htt : t = t'
      · subst htt
        simp [List.length_append] at hb'
        rw [← hb'.2]
      · simp only [htt, if_false] at hb'
        rw [List.getElem?_append_left ht'] at hb'
        by_cases hlive : b'.live = true
        · have := (ho t' b' hb' hlive ho').2
          rw [hgb] at this
          simp at this
          exact absurd this htt
        · simpa using hlive
    · intro t' b' hne
      simp only [List.getElem?_set]
      constructor
      · intro hb'
        have ht' : t' < h.blocks.length := by
          rcases Nat.lt_or_ge t' h.blocks.length with h' | h'
          · exact h'
          · rw [List.getElem?_eq_none h'] at hb'; cases hb'
        refine ⟨ht', ?_⟩
        have : ¬ t = t' := by
          intro hc; subst hc; rw [hb] at hb'; cases hb'; exact hne hown
        simp only [this, if_false]
        rw [List.getElem?_append_left ht']; exact hb'
      · rintro ⟨ht', hb'⟩
        by_cases htt : t = t'
        · subst htt
          simp [List.length_append] at hb'
          rw [← hb'.2] at hne; exact absurd hown hne
        · simp only [htt, if_false] at hb'
          rw [List.getElem?_append_left ht'] at hb'; exact hb'
    · intro i hi
      simp only [List.getElem?_set]
      have : ¬ t = h.blocks.length + i := by omega
      simp only [this, if_false]
      rw [List.getElem?_append_right (by omega)]
      congr 1; omega
  · refine ⟨.null, ⟨h.blocks ++ extra⟩, by simp [hext]; rfl, rfl, by simp, ?_, ?_, ?_⟩
    · intro t' b' ht' hb' ho'
      simp only at hb'
      rw [List.getElem?_append_left ht'] at hb'
      by_cases hlive : b'.live = true
      · exact absurd (ho t' b' hb' hlive ho').1 hext
      · simpa using hlive
    · intro t' b' _
      simp only
      constructor
      · intro hb'
        have ht' : t' < h.blocks.length := by
          rcases Nat.lt_or_ge t' h.blocks.length with h' | h'
          · exact h'
          · rw [List.getElem?_eq_none h'] at hb'; cases hb'
        exact ⟨ht', by rw [List.getElem?_append_left ht']; exact hb'⟩
      · rintro ⟨ht', hb'⟩
        rw [List.getElem?_append_left ht'] at hb'; exact hb'
    · intro i hi
      simp only
      rw [List.getElem?_append_right (by omega)]
      congr 1; omega


/-- the identifier holds `data` with `charset`, is well-formed, and leaks nothing -/
structure Holds (id : Ident) (h : Heap) (k : Nat) (charset : Nat) (data : List Byte) : Prop where
  wf : Wf id h k
  own : Own id h k
  read : readData id h id.len = .ok data
  len : id.len = data.length
  cs : id.charset = charset

theorem frame_of_release {h h2 : Heap} {k : Nat} {extra : List Block}
    (hlen : h2.blocks.length = h.blocks.length + extra.length)
    (hfr : ∀ (t : Nat) (b : Block), b.owner ≠ k → (h.blocks[t]? = some b ↔ (t < h.blocks.length ∧ h2.blocks[t]? = some b)))
    (hex : ∀ i, i < extra.length → h2.blocks[h.blocks.length + i]? = extra[i]?)
    (hown : ∀ b, b ∈ extra → b.owner = k) : Frame h h2 k := by
  intro t b hne
  constructor
  · intro hb; exact ((hfr t b hne).mp hb).2
  · intro hb
    by_cases ht : t < h.blocks.length
    · exact (hfr t b hne).mpr ⟨ht, hb⟩
    · exfalso
      have ht2 : t < h2.blocks.length := by
        rcases Nat.lt_or_ge t h2.blocks.length with h' | h'
        · exact h'
        · rw [List.getElem?_eq_none h'] at hb; cases hb
      have := hex (t - h.blocks.length) (by omega)
      rw [show h.blocks.length + (t - h.blocks.length) = t by omega, hb] at this
      have hm : b ∈ extra := List.mem_of_getElem? this.symm
      exact hne (hown b hm)

theorem setExt_spec {id : Ident} {h : Heap} {k : Nat} (hw : Wf id h k) (ho : Own id h k) (data : List Byte) (cs : Nat)
    (hbig : id.max < data.length) (hle : data.length ≤ 65535) :
    ∃ id' h', setExt id h k data cs = .ok (id', h', true) ∧ Holds id' h' k cs data ∧ Frame h h' k ∧
      id'.max = id.max ∧ id'.area.length = id.area.length := by
  obtain ⟨p, h2, hp, hfree, hlen, hdead, hfr, hex⟩ := release_old hw ho [⟨data, true, k⟩]
  obtain ⟨hm1, hm2, hm3⟩ := hw.max_le
  have hwr : wr id.area 0 (zeros id.max) = .ok (zeros id.max ++ id.area.drop id.max) := by
    rw [wr_ok (by simp; omega)]; simp
  have hl1 : (zeros id.max ++ id.area.drop id.max).length = id.area.length := by simp; omega
  obtain ⟨a2, ha2⟩ : ∃ a2, setBase (zeros id.max ++ id.area.drop id.max) (.tok h.blocks.length) = .ok a2 := by
    unfold setBase
    rw [wr_ok (by simp; omega)]
    exact ⟨_, rfl⟩
  obtain ⟨hgb, hl2, _, _⟩ := setBase_getBase ha2
  have hnew : h2.blocks[h.blocks.length]? = some ⟨data, true, k⟩ := by
    have := hex 0 (by simp)
    simpa using this
  refine ⟨{ id with len := data.length, charset := cs, area := a2 }, h2, ?_, ?_, ?_, rfl, by simp [hl2, hl1]⟩
  · simp only [setExt, Heap.alloc, bind, Except.bind, hp, hfree, hwr, ha2, pure, Except.pure]
  · constructor
    · constructor
      · simp only; rw [hl2, hl1]; exact hw.area_len
      · simp only; rw [hl2, hl1]; exact hw.max_eq
      · exact hle
      · intro hc; simp only at hc; omega
      · intro _
        exact ⟨h.blocks.length, _, hgb, hnew, rfl, rfl, rfl⟩
    · intro t b hb hl hown
      simp only
      refine ⟨hbig, ?_⟩
      by_cases ht : t < h.blocks.length
      · have := hdead t b ht hb hown
        rw [hl] at this; cases this
      · have ht2 : t < h2.blocks.length := by
          rcases Nat.lt_or_ge t h2.blocks.length with h' | h'
          · exact h'
          · rw [List.getElem?_eq_none h'] at hb; cases hb
        have : t = h.blocks.length := by simp at hlen; omega
        rw [this]; exact hgb
    · simp only [readData]
      have : id.max < data.length := hbig
      simp only [this, if_true, bind, Except.bind, hgb, hnew]
      simp [pure, Except.pure]
    · rfl
    · rfl
  · apply frame_of_release hlen hfr hex
    intro b hb; simp at hb; rw [hb]


theorem take_three {α} (a b c : List α) (n : Nat) (h1 : a.length ≤ n) (h2 : n ≤ a.length + b.length) :
    (a ++ b ++ c).take n = a ++ b.take (n - a.length) := by
  rw [List.append_assoc, List.take_append_of_le_length' h1] <;> try omega
  congr 1
  rw [List.take_append_of_le_length (by omega)]
where
  List.take_append_of_le_length' {α} {l₁ l₂ : List α} {n : Nat} (h : l₁.length ≤ n) :
      (l₁ ++ l₂).take n = l₁ ++ l₂.take (n - l₁.length) := by
    rw [List.take_append]
    rw [List.take_of_length_le h]

theorem zeros_take (n m : Nat) (h : m ≤ n) : (zeros n).take m = zeros m := by
  simp [zeros, List.take_replicate, Nat.min_eq_left h]

/-- the value area after the inline branch of `mpt_identifier_set` -/
theorem setInl_area {area : List Cell} {mx : Nat} (src : List Cell) (h1 : src.length ≤ mx) (h2 : mx ≤ area.length) :
    inlArea area mx src = .ok (src ++ zeros (mx - src.length) ++ area.drop mx) := by
  unfold inlArea
  by_cases hz : src.length = 0
  · have : src = [] := List.eq_nil_of_length_eq_zero hz
    subst this
    simp only [List.length_nil, ne_eq, not_true_eq_false, if_false]
    rw [wr_ok (by simp; omega)]; simp
  · simp only [ne_eq, hz, not_false_eq_true, if_true]
    rw [wr_ok (by omega)]
    simp only [List.take_zero, List.nil_append, Nat.zero_add, bind, Except.bind]
    by_cases hp : mx - src.length = 0
    · have : mx = src.length := by omega
      subst this
      simp [pure, Except.pure, zeros]
    · simp only [ne_eq, hp, not_false_eq_true, if_true]
      rw [wr_ok (by simp; omega)]
      congr 1
      simp only [zeros_length]
      rw [List.take_left' rfl, List.drop_append, List.drop_of_length_le (by omega)]
      simp only [List.nil_append, List.drop_drop]
      congr 2
      omega

theorem setInl_spec {id : Ident} {h : Heap} {k : Nat} (hw : Wf id h k) (ho : Own id h k) (src : List Cell) (sb : List Byte)
    (nlen cs : Nat) (hsb : cellBytes src = some sb) (h1 : src.length ≤ nlen) (h2 : nlen ≤ id.max) :
    ∃ id' h', setInl id h k src nlen cs = .ok (id', h', true) ∧
      Holds id' h' k cs (sb ++ List.replicate (nlen - src.length) 0) ∧ Frame h h' k ∧
      id'.max = id.max ∧ id'.area.length = id.area.length := by
  obtain ⟨p, h2', hp, hfree, hlen, hdead, hfr, hex⟩ := release_old hw ho []
  obtain ⟨hm1, hm2, hm3⟩ := hw.max_le
  have harea := setInl_area (area := id.area) (mx := id.max) src (by omega) hm1
  have hsl := cellBytes_length hsb
  have hl1 : (src ++ zeros (id.max - src.length) ++ id.area.drop id.max).length = id.area.length := by simp; omega
  have hnl : nlen ≤ 65535 := by omega
  refine ⟨{ id with len := nlen, charset := cs, area := src ++ zeros (id.max - src.length) ++ id.area.drop id.max }, h2', ?_, ?_, ?_, rfl, hl1⟩
  · simp only [setInl, bind, Except.bind, hp]
    rw [harea]
    simp only [List.append_nil] at hfree
    simp only [hfree, pure, Except.pure]
  · have htake : (src ++ zeros (id.max - src.length) ++ id.area.drop id.max).take nlen = src ++ zeros (nlen - src.length) := by
      rw [take_three _ _ _ nlen h1 (by simp; omega), zeros_take _ _ (by omega)]
    have hcb : cellBytes (src ++ zeros (nlen - src.length)) = some (sb ++ List.replicate (nlen - src.length) 0) := by
      rw [cellBytes_append, hsb, cellBytes_zeros]; rfl
    constructor
    · constructor
      · simp only; rw [hl1]; exact hw.area_len
      · simp only; rw [hl1]; exact hw.max_eq
      · exact hnl
      · intro _; simp only; rw [htake]; exact ⟨_, hcb⟩
      · intro hc; simp only at hc; omega
    · intro t b hb hl hown
      simp only [List.length_nil, Nat.add_zero] at hlen
      have ht : t < h.blocks.length := by
        rcases Nat.lt_or_ge t h2'.blocks.length with h' | h'
        · omega
        · rw [List.getElem?_eq_none h'] at hb; cases hb
      have := hdead t b ht hb hown
      rw [hl] at this; cases this
    · simp only [readData]
      have : ¬ id.max < nlen := by omega
      simp only [this, if_false, hl1]
      have : nlen ≤ id.area.length := by omega
      simp only [this, if_true, htake, hcb]
      rfl
    · simp [hsl]; omega
    · rfl
  · apply frame_of_release hlen hfr hex
    intro b hb; cases hb


theorem copyInl_spec {id : Ident} {h : Heap} {k : Nat} (hw : Wf id h k) (ho : Own id h k) (base : List Byte) (cs : Nat)
    (h2 : base.length ≤ id.max) :
    ∃ id' h', copyInl id h k base cs = .ok (id', h', true) ∧ Holds id' h' k cs base ∧ Frame h h' k ∧
      id'.max = id.max ∧ id'.area.length = id.area.length := by
  obtain ⟨p, h2', hp, hfree, hlen, hdead, hfr, hex⟩ := release_old hw ho []
  obtain ⟨hm1, hm2, hm3⟩ := hw.max_le
  have hwr : wr id.area 0 (bytesC base) = .ok (bytesC base ++ id.area.drop base.length) := by
    rw [wr_ok (by simp; omega)]; simp
  have hl1 : (bytesC base ++ id.area.drop base.length).length = id.area.length := by simp; omega
  refine ⟨{ id with len := base.length, charset := cs, area := bytesC base ++ id.area.drop base.length }, h2', ?_, ?_, ?_, rfl, hl1⟩
  · simp only [List.append_nil] at hfree
    simp only [copyInl, bind, Except.bind, hp, hwr, hfree, pure, Except.pure]
  · have htake : (bytesC base ++ id.area.drop base.length).take base.length = bytesC base := by
      rw [List.take_left' (by simp)]
    constructor
    · constructor
      · simp only; rw [hl1]; exact hw.area_len
      · simp only; rw [hl1]; exact hw.max_eq
      · simp only; omega
      · intro _; simp only; rw [htake]; exact ⟨_, cellBytes_bytesC base⟩
      · intro hc; simp only at hc; omega
    · intro t b hb hl hown
      simp only [List.length_nil, Nat.add_zero] at hlen
      have ht : t < h.blocks.length := by
        rcases Nat.lt_or_ge t h2'.blocks.length with h' | h'
        · omega
        · rw [List.getElem?_eq_none h'] at hb; cases hb
      have := hdead t b ht hb hown
      rw [hl] at this; cases this
    · simp only [readData]
      have : ¬ id.max < base.length := by omega
      simp only [this, if_false, hl1]
      have : base.length ≤ id.area.length := by omega
      simp only [this, if_true, htake, cellBytes_bytesC]
      rfl
    · rfl
    · rfl
  · apply frame_of_release hlen hfr hex
    intro b hb; cases hb

theorem copyExt_spec {id : Ident} {h : Heap} {k : Nat} (hw : Wf id h k) (ho : Own id h k) (base : List Byte) (cs : Nat)
    (hbig : id.max < base.length) (hle : base.length ≤ 65535) :
    ∃ id' h', copyExt id h k base cs = .ok (id', h', true) ∧ Holds id' h' k cs base ∧ Frame h h' k ∧
      id'.max = id.max ∧ id'.area.length = id.area.length := by
  obtain ⟨p, h2, hp, hfree, hlen, hdead, hfr, hex⟩ := release_old hw ho [⟨base, true, k⟩]
  obtain ⟨hm1, hm2, hm3⟩ := hw.max_le
  have hal := hw.area_len
  have hwr : wr id.area 0 (zeros 4) = .ok (zeros 4 ++ id.area.drop 4) := by
    rw [wr_ok (by simp; omega)]; simp
  have hl1 : (zeros 4 ++ id.area.drop 4).length = id.area.length := by simp; omega
  obtain ⟨a2, ha2⟩ : ∃ a2, setBase (zeros 4 ++ id.area.drop 4) (.tok h.blocks.length) = .ok a2 := by
    unfold setBase
    rw [wr_ok (by simp; omega)]
    exact ⟨_, rfl⟩
  obtain ⟨hgb, hl2, _, _⟩ := setBase_getBase ha2
  have hnew : h2.blocks[h.blocks.length]? = some ⟨base, true, k⟩ := by
    have := hex 0 (by simp)
    simpa using this
  refine ⟨{ id with len := base.length, charset := cs, area := a2 }, h2, ?_, ?_, ?_, rfl, by simp [hl2, hl1]⟩
  · simp only [copyExt, Heap.alloc, bind, Except.bind, hp, hfree, hwr, ha2, pure, Except.pure]
  · constructor
    · constructor
      · simp only; rw [hl2, hl1]; exact hw.area_len
      · simp only; rw [hl2, hl1]; exact hw.max_eq
      · exact hle
      · intro hc; simp only at hc; omega
      · intro _
        exact ⟨h.blocks.length, _, hgb, hnew, rfl, rfl, rfl⟩
    · intro t b hb hl hown
      simp only
      refine ⟨hbig, ?_⟩
      by_cases ht : t < h.blocks.length
      · have := hdead t b ht hb hown
        rw [hl] at this; cases this
      · have ht2 : t < h2.blocks.length := by
          rcases Nat.lt_or_ge t h2.blocks.length with h' | h'
          · exact h'
          · rw [List.getElem?_eq_none h'] at hb; cases hb
        have : t = h.blocks.length := by simp at hlen; omega
        rw [this]; exact hgb
    · simp only [readData]
      have : id.max < base.length := hbig
      simp only [this, if_true, bind, Except.bind, hgb, hnew]
      simp [pure, Except.pure]
    · rfl
    · rfl
  · apply frame_of_release hlen hfr hex
    intro b hb; simp at hb; rw [hb]


/- ---------- whole functions ---------- -/

/-- `mpt_identifier_set(id, buf, len)` with `len` bytes (at most 65534) of the caller's buffer: stored with a terminator -/
theorem set_buf {id : Ident} {h : Heap} {k : Nat} (hw : Wf id h k) (ho : Own id h k) (buf : List Byte) (len : Nat)
    (hl : len ≤ buf.length) (hn : len + 1 ≤ 65535) :
    ∃ id' h', set id h k (some buf) len = .ok (id', h', true) ∧ Holds id' h' k 1 (buf.take len ++ [0]) ∧
      Frame h h' k ∧ id'.max = id.max ∧ id'.area.length = id.area.length := by
  unfold set
  simp only [Option.isSome_some, if_true]
  have h0 : ¬ ((len : Int) < 0) := by omega
  have h1 : ¬ ((len : Int) + 1 > 65535) := by omega
  simp only [h0, if_false, h1, false_or]
  have e1 : ((len : Int)).toNat = len := by simp
  have e2 : ((len : Int) + 1).toNat = len + 1 := by omega
  simp only [e1, e2]
  simp only [hl, if_true]
  have htl : (buf.take len).length = len := by simp; omega
  by_cases hbig : len + 1 > id.max
  · simp only [hbig, if_true]
    exact setExt_spec hw ho (buf.take len ++ [0]) 1 (by simp [htl]; omega) (by simp [htl]; omega)
  · simp only [hbig, if_false]
    have := setInl_spec hw ho (bytesC (buf.take len)) (buf.take len) (len + 1) 1 (cellBytes_bytesC _) (by simp [htl]) (by omega)
    simpa [htl] using this

/-- `mpt_identifier_set(id, name, len)` with a text of up to 65534 bytes: stored with its terminator -/
theorem set_text {id : Ident} {h : Heap} {k : Nat} (hw : Wf id h k) (ho : Own id h k) (name : List Byte)
    (hn : name.length + 1 ≤ 65535) :
    ∃ id' h', set id h k (some (name ++ [0])) name.length = .ok (id', h', true) ∧ Holds id' h' k 1 (name ++ [0]) ∧
      Frame h h' k ∧ id'.max = id.max ∧ id'.area.length = id.area.length := by
  have := set_buf hw ho (name ++ [0]) name.length (by simp) hn
  simpa using this

/-- beyond the limit the call is refused and nothing changes -/
theorem set_text_refused (id : Ident) (h : Heap) (k : Nat) (name : List Byte) (hn : 65535 < name.length + 1) :
    set id h k (some (name ++ [0])) name.length = .ok (id, h, false) := by
  unfold set
  simp only [Option.isSome_some, if_true]
  have h0 : ¬ ((name.length : Int) < 0) := by omega
  have h1 : ((name.length : Int) + 1 > 65535) := by omega
  simp only [h0, if_false, h1, or_true, if_true]
  rfl

/-- `len = -1`: the text is the C string in the buffer -/
theorem set_cstr (id : Ident) (h : Heap) (k : Nat) (buf : List Byte) :
    set id h k (some buf) (-1) = set id h k (some buf) (strlen buf) := by
  unfold set
  simp

/-- zero name pointer: `n` cleared bytes of non-printable content -/
theorem set_null {id : Ident} {h : Heap} {k : Nat} (hw : Wf id h k) (ho : Own id h k) (n : Nat) (hn : n ≤ 65535) :
    ∃ id' h', set id h k none n = .ok (id', h', true) ∧ Holds id' h' k 0 (List.replicate n 0) ∧
      Frame h h' k ∧ id'.max = id.max ∧ id'.area.length = id.area.length := by
  unfold set
  simp only [Option.isSome_none, Bool.false_eq_true, if_false]
  have h1 : ¬ ((n : Int) < 0 ∨ (n : Int) > 65535) := by omega
  simp only [h1, if_false]
  have e1 : ((n : Int)).toNat = n := by simp
  simp only [e1]
  by_cases hbig : n > id.max
  · simp only [hbig, if_true]
    have := setExt_spec hw ho (List.replicate n 0) 0 (by simpa using hbig) (by simpa using hn)
    simpa using this
  · simp only [hbig, if_false]
    have := setInl_spec hw ho (zeros n) (List.replicate n 0) n 0 (cellBytes_zeros n) (by simp) (by omega)
    simpa using this

theorem set_null_refused (id : Ident) (h : Heap) (k : Nat) (n : Int) (hn : n < 0 ∨ 65535 < n) :
    set id h k none n = .ok (id, h, false) := by
  unfold set
  simp only [Option.isSome_none, Bool.false_eq_true, if_false]
  have h1 : (n < 0 ∨ n > 65535) := by omega
  simp only [h1, if_true]
  rfl

/-- a well-formed identifier reads back what it holds -/
theorem Holds.len_le {id : Ident} {h : Heap} {k cs : Nat} {d : List Byte} (hh : Holds id h k cs d) : d.length ≤ 65535 := by
  rw [← hh.len]; exact hh.wf.len_le

/-- identifiers of other slots do not notice an operation on slot `k` -/
theorem Holds.frame {id : Ident} {h h' : Heap} {j k cs : Nat} {d : List Byte} (hh : Holds id h j cs d)
    (hf : Frame h h' k) (hjk : j ≠ k) : Holds id h' j cs d := by
  have hwf : Wf id h' j := by
    refine ⟨hh.wf.area_len, hh.wf.max_eq, hh.wf.len_le, hh.wf.inl, ?_⟩
    intro hext
    obtain ⟨t, b, hgb, hb, hl, hown, hlen⟩ := hh.wf.ext hext
    exact ⟨t, b, hgb, (hf t b (by rw [hown]; exact hjk)).mp hb, hl, hown, hlen⟩
  refine ⟨hwf, ?_, ?_, hh.len, hh.cs⟩
  · intro t b hb hl hown
    exact hh.own t b ((hf t b (by rw [hown]; exact hjk)).mpr hb) hl hown
  · have hr := hh.read
    unfold readData at hr ⊢
    by_cases hext : id.max < id.len
    · obtain ⟨t, b, hgb, hb, hl, hown, hlen⟩ := hh.wf.ext hext
      have hb' := (hf t b (by rw [hown]; exact hjk)).mp hb
      simp only [hext, if_true, bind, Except.bind, hgb, hb, hb'] at hr ⊢
      exact hr
    · simp only [hext, if_false] at hr ⊢
      exact hr

/-- `mpt_identifier_copy(dst, src)` between two different identifiers -/
theorem copy_spec {dst src : Ident} {h : Heap} {k j cs : Nat} {d : List Byte} (hw : Wf dst h k) (ho : Own dst h k)
    (hs : Holds src h j cs d) :
    ∃ dst' h', copy dst (some src) false h k = .ok (dst', h', true) ∧ Holds dst' h' k cs d ∧ Frame h h' k ∧
      dst'.max = dst.max ∧ dst'.area.length = dst.area.length := by
  unfold copy
  simp only [Bool.false_eq_true, if_false, bind, Except.bind, hs.read, hs.cs]
  rw [hs.len]
  by_cases hfit : d.length ≤ dst.max
  · simp only [hfit, if_true]
    exact copyInl_spec hw ho d cs hfit
  · simp only [hfit, if_false]
    exact copyExt_spec hw ho d cs (by omega) hs.len_le

/-- copy from the zero pointer clears the identifier -/
theorem copy_null {dst : Ident} {h : Heap} {k : Nat} (hw : Wf dst h k) (ho : Own dst h k) :
    ∃ dst' h', copy dst none false h k = .ok (dst', h', true) ∧ Holds dst' h' k 0 [] ∧ Frame h h' k ∧
      dst'.max = dst.max ∧ dst'.area.length = dst.area.length := by
  have := set_null hw ho 0 (by omega)
  simpa [copy] using this

/-- copying an identifier onto itself changes nothing -/
theorem copy_self {id : Ident} {h : Heap} {k : Nat} (hw : Wf id h k) :
    copy id (some id) true h k = .ok (id, h, true) := by
  unfold copy oldAlloc
  simp only [if_true]
  by_cases hext : id.max < id.len
  · obtain ⟨t, b, hgb, _⟩ := hw.ext hext
    simp [hext, hgb, bind, Except.bind, pure, Except.pure]
  · simp [hext, bind, Except.bind, pure, Except.pure]

/-- `_identifier_fini`: the allocation is released -/
theorem fini_spec {id : Ident} {h : Heap} {k : Nat} (hw : Wf id h k) (ho : Own id h k) :
    ∃ id' h', fini id h k = .ok (id', h') ∧ Frame h h' k ∧ h'.blocks.length = h.blocks.length ∧
      (∀ (t : Nat) (b : Block), h'.blocks[t]? = some b → b.owner = k → b.live = false) := by
  obtain ⟨p, h2, hp, hfree, hlen, hdead, hfr, hex⟩ := release_old hw ho []
  obtain ⟨hm1, hm2, hm3⟩ := hw.max_le
  simp only [List.append_nil] at hfree
  simp only [List.length_nil, Nat.add_zero] at hlen
  have hdead' : ∀ (t : Nat) (b : Block), h2.blocks[t]? = some b → b.owner = k → b.live = false := by
    intro t b hb hown
    have ht : t < h.blocks.length := by
      rcases Nat.lt_or_ge t h2.blocks.length with h' | h'
      · omega
      · rw [List.getElem?_eq_none h'] at hb; cases hb
    exact hdead t b ht hb hown
  have hframe : Frame h h2 k := by
    apply frame_of_release (extra := []) (by simpa using hlen) hfr hex
    intro b hb; cases hb
  unfold fini
  by_cases hext : id.max < id.len
  · have hwr : wr id.area 0 (zeros id.max) = .ok (zeros id.max ++ id.area.drop id.max) := by
      rw [wr_ok (by simp; omega)]; simp
    simp only [hext, if_true, bind, Except.bind, hp, hfree, hwr, pure, Except.pure]
    exact ⟨_, _, rfl, hframe, hlen, hdead'⟩
  · simp only [hext, if_false, pure, Except.pure]
    refine ⟨_, _, rfl, Frame.refl h k, rfl, ?_⟩
    intro t b hb hown
    by_cases hl : b.live = true
    · exact absurd (ho t b hb hl hown).1 hext
    · simpa using hl

/-- a new identifier in storage of at least 16 bytes -/
theorem create_spec (size : Nat) (hs : 16 ≤ size) (h : Heap) (k : Nat)
    (hfresh : ∀ (t : Nat) (b : Block), h.blocks[t]? = some b → b.owner = k → b.live = false) :
    ∃ id, create size = .ok id ∧ Holds id h k 0 [] ∧ id.max = min (size - 4) identMax ∧ id.area.length = size - 4 := by
  unfold create init rawStorage
  have h4 : ¬ size < 4 := by omega
  simp only [h4, if_false, bind, Except.bind]
  have hmin : min (size - 4) identMax ≤ size - 4 := Nat.min_le_left _ _
  rw [wr_ok (by simp; exact hmin)]
  simp only [pure, Except.pure]
  refine ⟨_, rfl, ?_, rfl, by simp; omega⟩
  have hl : (List.take 0 (List.replicate (size - 4) Cell.undef) ++ zeros (min (size - 4) identMax) ++
      List.drop (0 + (zeros (min (size - 4) identMax)).length) (List.replicate (size - 4) Cell.undef)).length = size - 4 := by
    simp; omega
  constructor
  · constructor
    · simp only; rw [hl]; omega
    · simp only; rw [hl]
    · simp
    · intro _; exact ⟨[], by simp [cellBytes]⟩
    · intro hc; simp only at hc; omega
  · intro t b hb hl' hown
    have := hfresh t b hb hown
    rw [hl'] at this; cases this
  · simp [readData, cellBytes, pure, Except.pure]
  · rfl
  · rfl


/- ---------- comparisons ---------- -/
theorem firstDiffGo_none {a b : List Byte} {i n : Nat} :
    firstDiffGo a b i n = none ↔ ∀ j, j < n → a[j]? = b[j]? := by
  induction n generalizing a b i with
  | zero => simp [firstDiffGo]
  | succ m ih =>
    unfold firstDiffGo
    by_cases hh : a.head? = b.head?
    · simp only [hh, bne_self_eq_false, Bool.false_eq_true, if_false]
      rw [ih]
      constructor
      · intro h j hj
        cases j with
        | zero => simpa [List.head?_eq_getElem?] using hh
        | succ j' =>
          have := h j' (by omega)
          simpa [List.getElem?_tail] using this
      · intro h j hj
        have := h (j + 1) (by omega)
        simpa [List.getElem?_tail] using this
    · have : (a.head? != b.head?) = true := by simpa using hh
      simp only [this, if_true]
      constructor
      · intro h; cases h
      · intro h
        exfalso; apply hh
        have := h 0 (by omega)
        simpa [List.head?_eq_getElem?] using this

theorem firstDiffGo_some {a b : List Byte} {i n r : Nat} (h : firstDiffGo a b i n = some r) :
    ∃ j, j < n ∧ r = i + j ∧ a[j]? ≠ b[j]? := by
  induction n generalizing a b i with
  | zero => simp [firstDiffGo] at h
  | succ m ih =>
    unfold firstDiffGo at h
    by_cases hh : a.head? = b.head?
    · simp only [hh, bne_self_eq_false, Bool.false_eq_true, if_false] at h
      obtain ⟨j, hj, hr, hne⟩ := ih h
      refine ⟨j + 1, by omega, by omega, ?_⟩
      simpa [List.getElem?_tail] using hne
    · have : (a.head? != b.head?) = true := by simpa using hh
      simp only [this, if_true, Option.some.injEq] at h
      refine ⟨0, by omega, by omega, ?_⟩
      simpa [List.head?_eq_getElem?] using hh

/-- equal prefixes of length `n` of two lists at least that long -/
theorem take_eq_of_getElem {a b : List Byte} {n : Nat} (ha : n ≤ a.length) (hb : n ≤ b.length)
    (h : ∀ j, j < n → a[j]? = b[j]?) : a.take n = b.take n := by
  apply List.ext_getElem?
  intro j
  rw [List.getElem?_take, List.getElem?_take]
  by_cases hj : j < n
  · simp [hj, h j hj]
  · simp [hj]

/-- **text comparison** of an identifier that holds the text `c` -/
theorem compare_text {id : Ident} {h : Heap} {k : Nat} {c : List Byte} (hh : Holds id h k 1 (c ++ [0])) (b : List Byte) :
    ∃ r, compare id h (some (b ++ [0])) b.length = .ok r ∧ (r = 0 ↔ b = c) := by
  have hlen : id.len = c.length + 1 := by rw [hh.len]; simp
  unfold compare
  have h1 : ¬ ((some (b ++ [0])).isSome = true ∧ id.charset ≠ 1) := by simp [hh.cs]
  have h2 : ¬ ((b.length : Int) < 0 ∧ (some (b ++ [0]) : Option (List Byte)).isNone = true) := by simp
  have h3 : ¬ ((b.length : Int) < 0) := by omega
  simp only [h1, if_false, h2, h3, Int.toNat_natCast]
  have h4 : ¬ (b.length = 0 ∧ id.len = 0) := by omega
  simp only [h4, if_false]
  by_cases hl : b.length + 1 ≠ id.len
  · rw [if_neg (by simp), if_pos hl]
    refine ⟨_, rfl, ?_⟩
    constructor
    · intro hc; simp [Err.code] at hc
    · intro hc; subst hc; omega
  · have hbl : b.length = c.length := by omega
    rw [if_neg (by simp), if_neg hl]
    simp only [bind, Except.bind, hh.read]
    have h5 : ¬ (b.length > (b ++ [0]).length) := by simp
    simp only [h5, if_false]
    unfold firstDiff
    cases hfd : firstDiffGo (c ++ [0]) (b ++ [0]) 0 b.length with
    | some i =>
      simp only [pure, Except.pure]
      refine ⟨_, rfl, ?_⟩
      obtain ⟨j, hj, _, hne⟩ := firstDiffGo_some hfd
      constructor
      · intro hc; omega
      · intro hc; subst hc; exact absurd rfl hne
    | none =>
      have hterm : (c ++ [0])[b.length]? = some 0 := by
        rw [hbl]; simp
      simp only [hterm, bne_self_eq_false, Bool.false_eq_true, if_false, pure, Except.pure]
      refine ⟨_, rfl, ?_⟩
      simp only [true_iff]
      rw [firstDiffGo_none] at hfd
      have := take_eq_of_getElem (n := b.length) (by simp; omega) (by simp) hfd
      simp only [List.take_left' hbl.symm, List.take_left' rfl] at this
      exact this.symm

/-- an identifier that does not hold text is different from every text -/
theorem compare_nontext {id : Ident} {h : Heap} (hc : id.charset ≠ 1) (b : List Byte) (n : Int) :
    compare id h (some b) n = .ok Err.BadType.code := by
  unfold compare
  simp [hc, pure, Except.pure]

/-- **identifier comparison**: zero exactly for the same kind and the same bytes -/
theorem inequal_spec {a b : Ident} {h : Heap} {ka kb ca cb : Nat} {da db : List Byte}
    (ha : Holds a h ka ca da) (hb : Holds b h kb cb db) :
    ∃ r, inequal a b h = .ok r ∧ (r = 0 ↔ ca = cb ∧ da = db) := by
  unfold inequal
  rw [ha.cs, hb.cs]
  by_cases hcs : ca ≠ cb
  · rw [if_pos hcs]
    simp only [pure, Except.pure]
    refine ⟨_, rfl, ?_⟩
    constructor
    · intro hc; exfalso; apply hcs; omega
    · intro hc; exact absurd hc.1 hcs
  · have hcs' : ca = cb := by simpa using hcs
    rw [if_neg hcs]
    by_cases hl : a.len ≠ b.len
    · rw [if_pos hl]
      simp only [pure, Except.pure]
      refine ⟨_, rfl, ?_⟩
      constructor
      · intro hc; exfalso; apply hl; omega
      · intro hc
        exfalso; apply hl
        rw [ha.len, hb.len, hc.2]
    · have hl' : a.len = b.len := by simpa using hl
      have hrb : readData b h a.len = .ok db := by rw [hl']; exact hb.read
      rw [if_neg hl]
      simp only [bind, Except.bind, ha.read, hrb]
      have hla : da.length = a.len := ha.len.symm
      have hlb : db.length = a.len := by rw [hl']; exact hb.len.symm
      unfold firstDiff
      cases hfd : firstDiffGo da db 0 a.len with
      | some i =>
        simp only [pure, Except.pure]
        refine ⟨_, rfl, ?_⟩
        obtain ⟨j, hj, hi, hne⟩ := firstDiffGo_some hfd
        simp only [Nat.zero_add] at hi
        rw [hi]
        have hja : j < da.length := by omega
        have hjb : j < db.length := by omega
        rw [List.getElem?_eq_getElem hja, List.getElem?_eq_getElem hjb] at hne
        constructor
        · intro hc
          exfalso; apply hne
          simp only [List.getElem?_eq_getElem hja, List.getElem?_eq_getElem hjb, Option.getD_some] at hc
          have : da[j].toNat = db[j].toNat := by omega
          congr 1
          exact UInt8.toNat_inj.mp this
        · intro hc
          exfalso; apply hne
          have h2 := hc.2
          subst h2; rfl
      | none =>
        simp only [pure, Except.pure]
        refine ⟨_, rfl, ?_⟩
        simp only [true_iff]
        refine ⟨hcs', ?_⟩
        rw [firstDiffGo_none] at hfd
        have := take_eq_of_getElem (n := a.len) (by omega) (by omega) hfd
        rw [List.take_of_length_le (by omega), List.take_of_length_le (by omega)] at this
        exact this


/- ---------- systems of identifiers ---------- -/
/-- a well-formed identifier that owns all live blocks of its slot can be read -/
theorem Wf.holds {id : Ident} {h : Heap} {k : Nat} (hw : Wf id h k) (ho : Own id h k) :
    ∃ d, Holds id h k id.charset d := by
  obtain ⟨hm1, _, _⟩ := hw.max_le
  by_cases hext : id.max < id.len
  · obtain ⟨t, b, hgb, hb, hl, hown, hlen⟩ := hw.ext hext
    refine ⟨b.data, hw, ho, ?_, hlen.symm, rfl⟩
    simp only [readData, hext, if_true, bind, Except.bind, hgb, hb, hl]
    simp only [Bool.not_true, Bool.false_eq_true, if_false, hlen, Nat.le_refl, if_true, pure, Except.pure]
    rw [← hlen, List.take_length]
  · obtain ⟨b, hb⟩ := hw.inl (by omega)
    have hbl := cellBytes_length hb
    refine ⟨b, hw, ho, ?_, ?_, rfl⟩
    · have : id.len ≤ id.area.length := by omega
      simp only [readData, hext, if_false, this, if_true, hb]
      rfl
    · rw [hbl]; simp; omega

theorem Wf.frame {id : Ident} {h h' : Heap} {j k : Nat} (hw : Wf id h j) (hf : Frame h h' k) (hjk : j ≠ k) : Wf id h' j := by
  refine ⟨hw.area_len, hw.max_eq, hw.len_le, hw.inl, ?_⟩
  intro hext
  obtain ⟨t, b, hgb, hb, hl, hown, hlen⟩ := hw.ext hext
  exact ⟨t, b, hgb, (hf t b (by rw [hown]; exact hjk)).mp hb, hl, hown, hlen⟩

/-- general form of `mpt_identifier_set` on a well-formed identifier: it never faults when the caller's buffer
    is as long as announced, and either refuses (nothing changes) or leaves a well-formed identifier -/
theorem set_total {id : Ident} {h : Heap} {k : Nat} (hw : Wf id h k) (ho : Own id h k) (name : Option (List Byte)) (len : Int)
    (hv : ∀ b, name = some b → len ≤ b.length) :
    ∃ id' h' ok, set id h k (name.map (· ++ [0])) len = .ok (id', h', ok) ∧ Wf id' h' k ∧ Own id' h' k ∧ Frame h h' k := by
  cases name with
  | none =>
    simp only [Option.map_none]
    by_cases hr : len < 0 ∨ 65535 < len
    · exact ⟨id, h, false, set_null_refused id h k len hr, hw, ho, Frame.refl h k⟩
    · obtain ⟨id', h', hs, hh, hf, _⟩ := set_null hw ho len.toNat (by omega)
      have : ((len.toNat : Nat) : Int) = len := by omega
      rw [this] at hs
      exact ⟨id', h', true, hs, hh.wf, hh.own, hf⟩
  | some b =>
    simp only [Option.map_some]
    have hlb := hv b rfl
    -- effective length
    have key : ∀ n : Nat, n ≤ b.length →
        ∃ id' h' ok, set id h k (some (b ++ [0])) n = .ok (id', h', ok) ∧ Wf id' h' k ∧ Own id' h' k ∧ Frame h h' k := by
      intro n hn
      by_cases hbig : n + 1 ≤ 65535
      · obtain ⟨id', h', hs, hh, hf, _⟩ := set_buf hw ho (b ++ [0]) n (by simp; omega) hbig
        exact ⟨id', h', true, hs, hh.wf, hh.own, hf⟩
      · refine ⟨id, h, false, ?_, hw, ho, Frame.refl h k⟩
        unfold set
        simp only [Option.isSome_some, if_true]
        have h0 : ¬ ((n : Int) < 0) := by omega
        have h1 : ((n : Int) + 1 > 65535) := by omega
        simp only [h0, if_false, h1, or_true, if_true]
        rfl
    by_cases hneg : len < 0
    · have hsl : strlen (b ++ [0]) ≤ b.length := by
        unfold strlen
        have : ((b ++ [0]).takeWhile (· != 0)).length ≤ (b.takeWhile (· != 0)).length := by
          rw [List.takeWhile_append]
          split
          · rename_i heq; simp; omega
          · exact Nat.le_refl _
        exact Nat.le_trans this (List.takeWhile_sublist _).length_le
      have heq : set id h k (some (b ++ [0])) len = set id h k (some (b ++ [0])) (strlen (b ++ [0])) := by
        unfold set
        simp [hneg]
      rw [heq]
      exact key _ hsl
    · have : ((len.toNat : Nat) : Int) = len := by omega
      rw [← this]
      exact key len.toNat (by omega)

/-- system invariant: every live identifier is well-formed, and every live block is referenced by the (live)
    identifier that owns it — nothing dangles, nothing is leaked -/
structure SysInv (s : Sys) : Prop where
  wf : ∀ k id, s.get k = some id → Wf id s.heap k
  own : ∀ (t : Nat) (b : Block), s.heap.blocks[t]? = some b → b.live = true →
    ∃ id, s.get b.owner = some id ∧ id.max < id.len ∧ getBase id.area = .ok (.tok t)

theorem SysInv.empty : SysInv Sys.empty := by
  constructor
  · intro k id h; simp [Sys.get, Sys.empty] at h
  · intro t b h; simp [Sys.empty] at h

theorem SysInv.ownOf {s : Sys} (hi : SysInv s) {k : Nat} {id : Ident} (hg : s.get k = some id) : Own id s.heap k := by
  intro t b hb hl hown
  obtain ⟨id', hg', h1, h2⟩ := hi.own t b hb hl
  rw [hown, hg] at hg'
  cases hg'
  exact ⟨h1, h2⟩

/-- a slot without a live identifier owns no live block -/
theorem SysInv.dead {s : Sys} (hi : SysInv s) {k : Nat} (hg : s.get k = none) :
    ∀ (t : Nat) (b : Block), s.heap.blocks[t]? = some b → b.owner = k → b.live = false := by
  intro t b hb hown
  by_cases hl : b.live = true
  · obtain ⟨id', hg', _⟩ := hi.own t b hb hl
    rw [hown, hg] at hg'; cases hg'
  · simpa using hl

theorem get_set_self {s : Sys} {k : Nat} {id : Ident} (v : Option Ident) (hg : s.get k = some id) :
    ({ ids := s.ids.set k v, heap := s.heap } : Sys).get k = v := by
  unfold Sys.get at hg ⊢
  have hk : k < s.ids.length := by
    rcases Nat.lt_or_ge k s.ids.length with h' | h'
    · exact h'
    · rw [List.getElem?_eq_none h'] at hg; cases hg
  simp [List.getElem?_set, hk]

theorem get_set_other {ids : List (Option Ident)} {h h' : Heap} {k j : Nat} (v : Option Ident) (hjk : j ≠ k) :
    ({ ids := ids.set k v, heap := h' } : Sys).get j = ({ ids := ids, heap := h } : Sys).get j := by
  unfold Sys.get
  simp [List.getElem?_set, Ne.symm hjk]

/-- replacing identifier `k` by a well-formed one after a heap change that only touched `k`'s blocks keeps the invariant -/
theorem SysInv.update {s : Sys} (hi : SysInv s) {k : Nat} {id id' : Ident} {h' : Heap} (hg : s.get k = some id)
    (hw : Wf id' h' k) (ho : Own id' h' k) (hf : Frame s.heap h' k) :
    SysInv { ids := s.ids.set k (some id'), heap := h' } := by
  have hgk : ({ ids := s.ids.set k (some id'), heap := h' } : Sys).get k = some id' := by
    have := get_set_self (s := s) (some id') hg
    simpa [Sys.get] using this
  constructor
  · intro j idj hj
    by_cases hjk : j = k
    · subst hjk
      rw [hgk] at hj; cases hj; exact hw
    · rw [get_set_other (h := s.heap) _ hjk] at hj
      exact (hi.wf j idj hj).frame hf hjk
  · intro t b hb hl
    by_cases hown : b.owner = k
    · obtain ⟨h1, h2⟩ := ho t b hb hl hown
      exact ⟨id', by rw [hown]; exact hgk, h1, h2⟩
    · have hb0 := (hf t b hown).mpr hb
      obtain ⟨idj, hj, h1, h2⟩ := hi.own t b hb0 hl
      refine ⟨idj, ?_, h1, h2⟩
      rw [get_set_other (h := s.heap) _ hown]; exact hj

/-- ending identifier `k` after its blocks were all released keeps the invariant -/
theorem SysInv.remove {s : Sys} (hi : SysInv s) {k : Nat} {id : Ident} {h' : Heap} (hg : s.get k = some id)
    (hdead : ∀ (t : Nat) (b : Block), h'.blocks[t]? = some b → b.owner = k → b.live = false) (hf : Frame s.heap h' k) :
    SysInv { ids := s.ids.set k none, heap := h' } := by
  have hgk : ({ ids := s.ids.set k none, heap := h' } : Sys).get k = none := by
    have := get_set_self (s := s) none hg
    simpa [Sys.get] using this
  constructor
  · intro j idj hj
    by_cases hjk : j = k
    · subst hjk
      rw [hgk] at hj; cases hj
    · rw [get_set_other (h := s.heap) _ hjk] at hj
      exact (hi.wf j idj hj).frame hf hjk
  · intro t b hb hl
    by_cases hown : b.owner = k
    · have := hdead t b hb hown
      rw [hl] at this; cases this
    · have hb0 := (hf t b hown).mpr hb
      obtain ⟨idj, hj, h1, h2⟩ := hi.own t b hb0 hl
      refine ⟨idj, ?_, h1, h2⟩
      rw [get_set_other (h := s.heap) _ hown]; exact hj

theorem owned_zero {s : Sys} {k : Nat}
    (hdead : ∀ (t : Nat) (b : Block), s.heap.blocks[t]? = some b → b.owner = k → b.live = false) : s.owned k = 0 := by
  unfold Sys.owned
  rw [List.length_eq_zero_iff, List.filter_eq_nil_iff]
  intro b hb
  obtain ⟨t, ht, rfl⟩ := List.mem_iff_getElem.mp hb
  simp only [Bool.and_eq_true, beq_iff_eq, not_and]
  intro hl hown
  have := hdead t _ (List.getElem?_eq_getElem ht) hown
  rw [hl] at this; cases this


/-- what the caller owes: storage of at least `sizeof(struct identifier)`, and a buffer as long as announced -/
def Op.valid : Op → Prop
  | .new size => 16 ≤ size
  | .set _ (some b) len => len ≤ b.length
  | _ => True

theorem new_slot_inv {s : Sys} (hi : SysInv s) {id : Ident} {h' : Heap} (hw : Wf id h' s.ids.length)
    (ho : Own id h' s.ids.length) (hf : Frame s.heap h' s.ids.length) :
    SysInv { ids := s.ids ++ [some id], heap := h' } := by
  have hgk : ({ ids := s.ids ++ [some id], heap := h' } : Sys).get s.ids.length = some id := by
    simp [Sys.get]
  have hold : ∀ j, j ≠ s.ids.length → ({ ids := s.ids ++ [some id], heap := h' } : Sys).get j = s.get j := by
    intro j hj
    unfold Sys.get
    by_cases hlt : j < s.ids.length
    · simp [List.getElem?_append_left hlt]
    · have : s.ids.length < j := by omega
      simp [List.getElem?_eq_none (show s.ids.length ≤ j by omega), List.getElem?_eq_none (show (s.ids ++ [some id]).length ≤ j by simp; omega)]
  constructor
  · intro j idj hj
    by_cases hjk : j = s.ids.length
    · subst hjk; rw [hgk] at hj; cases hj; exact hw
    · rw [hold j hjk] at hj
      exact (hi.wf j idj hj).frame hf hjk
  · intro t b hb hl
    by_cases hown : b.owner = s.ids.length
    · obtain ⟨h1, h2⟩ := ho t b hb hl hown
      exact ⟨id, by rw [hown]; exact hgk, h1, h2⟩
    · have hb0 := (hf t b hown).mpr hb
      obtain ⟨idj, hj, h1, h2⟩ := hi.own t b hb0 hl
      exact ⟨idj, by rw [hold _ hown]; exact hj, h1, h2⟩

theorem fresh_slot_dead {s : Sys} (hi : SysInv s) :
    ∀ (t : Nat) (b : Block), s.heap.blocks[t]? = some b → b.owner = s.ids.length → b.live = false := by
  apply hi.dead
  simp [Sys.get]

/-- **one step**: on a system that satisfies the invariant no operation faults (no free of a wild, dead or foreign
    block, no read of a clobbered pointer or freed block, no access outside storage), the invariant is kept, and an
    identifier that ends leaves no block behind -/
theorem step_inv {s : Sys} (hi : SysInv s) (op : Op) (hv : op.valid) :
    ∃ s' r, s.step op = .ok (s', r) ∧ SysInv s' ∧ (∀ n, r = .ended n → n = 0) := by
  cases op with
  | new size =>
    obtain ⟨id, hc, hh, _⟩ := create_spec size hv s.heap s.ids.length (fresh_slot_dead hi)
    refine ⟨_, _, by simp only [Sys.step, hc, bind, Except.bind, pure, Except.pure]; rfl, ?_, by intro n hn; cases hn⟩
    exact new_slot_inv hi hh.wf hh.own (Frame.refl _ _)
  | set k name len =>
    cases hg : s.get k with
    | none => exact ⟨s, .invalid, by simp [Sys.step, hg, pure, Except.pure], hi, by intro n hn; cases hn⟩
    | some id =>
      have hv' : ∀ b, name = some b → len ≤ b.length := by
        intro b hb; subst hb; exact hv
      obtain ⟨id', h', ok, hs, hw, ho, hf⟩ := set_total (hi.wf k id hg) (hi.ownOf hg) name len hv'
      refine ⟨_, _, by simp only [Sys.step, hg, hs, bind, Except.bind, pure, Except.pure]; rfl, ?_, by intro n hn; cases hn⟩
      exact hi.update hg hw ho hf
  | copy k j =>
    cases hg : s.get k with
    | none => exact ⟨s, .invalid, by simp [Sys.step, hg, pure, Except.pure], hi, by intro n hn; cases hn⟩
    | some id =>
      cases j with
      | none =>
        obtain ⟨id', h', hs, hh, hf, _⟩ := copy_null (hi.wf k id hg) (hi.ownOf hg)
        refine ⟨_, _, by simp only [Sys.step, hg, hs, bind, Except.bind, pure, Except.pure]; rfl, ?_, by intro n hn; cases hn⟩
        exact hi.update hg hh.wf hh.own hf
      | some j =>
        cases hgj : s.get j with
        | none => exact ⟨s, .invalid, by simp [Sys.step, hg, hgj, pure, Except.pure], hi, by intro n hn; cases hn⟩
        | some src =>
          by_cases hjk : j = k
          · subst hjk
            rw [hg] at hgj; cases hgj
            have hs := copy_self (hi.wf j id hg)
            refine ⟨_, _, by simp only [Sys.step, hg, beq_self_eq_true, hs, bind, Except.bind, pure, Except.pure]; rfl, ?_, by intro n hn; cases hn⟩
            exact hi.update hg (hi.wf j id hg) (hi.ownOf hg) (Frame.refl _ _)
          · obtain ⟨d, hsrc⟩ := (hi.wf j src hgj).holds (hi.ownOf hgj)
            obtain ⟨id', h', hs, hh, hf, _⟩ := copy_spec (hi.wf k id hg) (hi.ownOf hg) hsrc
            have hb : (j == k) = false := by simpa using hjk
            refine ⟨_, _, by simp only [Sys.step, hg, hgj, hb, hs, bind, Except.bind, pure, Except.pure]; rfl, ?_, by intro n hn; cases hn⟩
            exact hi.update hg hh.wf hh.own hf
  | free k =>
    cases hg : s.get k with
    | none => exact ⟨s, .invalid, by simp [Sys.step, hg, pure, Except.pure], hi, by intro n hn; cases hn⟩
    | some id =>
      obtain ⟨id', h', hs, hh, hf, _⟩ := set_null (hi.wf k id hg) (hi.ownOf hg) 0 (by omega)
      have hdead : ∀ (t : Nat) (b : Block), h'.blocks[t]? = some b → b.owner = k → b.live = false := by
        intro t b hb hown
        by_cases hl : b.live = true
        · have h1 := (hh.own t b hb hl hown).1
          have h2 := hh.len
          simp at h2
          omega
        · simpa using hl
      have hinv := hi.remove hg hdead hf
      refine ⟨_, _, by simp only [Sys.step, hg, bind, Except.bind]; rw [show ((0 : Nat) : Int) = 0 from rfl] at hs; simp only [hs, pure, Except.pure]; rfl, hinv, ?_⟩
      intro n hn
      simp only [OpRes.ended.injEq] at hn
      rw [← hn]
      exact owned_zero hdead
  | tinit j =>
    obtain ⟨c, hc, hhc, _⟩ := create_spec 16 (by omega) s.heap s.ids.length (fresh_slot_dead hi)
    have hc' : init (rawStorage 16) 16 = .ok c := hc
    cases j with
    | none =>
      refine ⟨_, _, by simp only [Sys.step, traitsInit, hc', bind, Except.bind, pure, Except.pure]; rfl, ?_, by intro n hn; cases hn⟩
      exact new_slot_inv hi hhc.wf hhc.own (Frame.refl _ _)
    | some j =>
      cases hgj : s.get j with
      | none => exact ⟨s, .invalid, by simp [Sys.step, hgj, pure, Except.pure], hi, by intro n hn; cases hn⟩
      | some src =>
        obtain ⟨d, hsrc⟩ := (hi.wf j src hgj).holds (hi.ownOf hgj)
        obtain ⟨id', h', hs, hh, hf, _⟩ := copy_spec hhc.wf hhc.own hsrc
        refine ⟨_, _, by simp only [Sys.step, hgj, Option.map_some, traitsInit, hc', hs, bind, Except.bind, pure, Except.pure]; rfl, ?_, by intro n hn; cases hn⟩
        exact new_slot_inv hi hh.wf hh.own hf
  | tfini k =>
    cases hg : s.get k with
    | none => exact ⟨s, .invalid, by simp [Sys.step, hg, pure, Except.pure], hi, by intro n hn; cases hn⟩
    | some id =>
      obtain ⟨id', h', hs, hf, _, hdead⟩ := fini_spec (hi.wf k id hg) (hi.ownOf hg)
      have hinv := hi.remove hg hdead hf
      refine ⟨_, _, by simp only [Sys.step, hg, hs, bind, Except.bind, pure, Except.pure]; rfl, hinv, ?_⟩
      intro n hn
      simp only [OpRes.ended.injEq] at hn
      rw [← hn]
      exact owned_zero hdead

/-- **histories**: from the empty system every history of valid operations runs without a fault and ends in a
    system that satisfies the invariant -/
theorem run_inv {s : Sys} (hi : SysInv s) (ops : List Op) (hv : ∀ op, op ∈ ops → op.valid) :
    ∃ s', s.run ops = .ok s' ∧ SysInv s' := by
  induction ops generalizing s with
  | nil => exact ⟨s, rfl, hi⟩
  | cons op rest ih =>
    obtain ⟨s1, r, hs, hi1, _⟩ := step_inv hi op (hv op (by simp))
    obtain ⟨s', hr, hi'⟩ := ih hi1 (fun o ho => hv o (by simp [ho]))
    exact ⟨s', by simp only [Sys.run, hs, bind, Except.bind]; exact hr, hi'⟩


end Mpt.Ident
