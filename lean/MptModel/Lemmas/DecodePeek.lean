/-
  Lemmas for C03 (core Lean only): what a peek call (`sourcelen == 0`) may change.
-/
import MptModel.Lemmas.DecodeSegs
namespace Mpt.Codec
open Mpt.Cobs

theorem take_set_ge' (s : List Byte) (i n : Nat) (b : Byte) (h : n ≤ i) : (s.set i b).take n = s.take n := by
  rw [List.take_set, List.set_eq_of_length_le]; simp; omega

theorem take_of_take {s t : List Byte} {i j : Nat} (h : s.take j = t.take j) (hij : i ≤ j) : s.take i = t.take i := by
  have := congrArg (List.take i) h
  simpa [List.take_take, Nat.min_eq_left hij] using this

/-- the zero loop leaves the bytes in front of the write index alone -/
theorem putZeros_low (k : Nat) : ∀ (l : Loc) (r : Nat),
    (putZeros k l r).1.store.take l.w = l.store.take l.w ∧ l.w ≤ (putZeros k l r).1.w := by
  induction k with
  | zero => intro l r; simp [putZeros]
  | succ k ih =>
    intro l r
    unfold putZeros
    by_cases hp : l.proc = 0
    · rw [if_pos hp]; simp
    · rw [if_neg hp]
      cases hput : l.put r 0 with
      | none => simp
      | some l' =>
        simp only
        unfold Loc.put at hput
        split at hput
        · simp only [Option.some.injEq] at hput
          subst hput
          have := ih { l with store := l.store.set l.w 0, mlen := l.mlen + 1, writes := l.writes ++ [(l.w, r)], proc := l.proc - 1, pos := l.pos + 1 } r
          simp only [Loc.w] at this ⊢
          refine ⟨?_, by omega⟩
          rw [take_of_take this.1 (by omega), take_set_ge' _ _ _ _ (Nat.le_refl _)]
        · simp at hput

/-- in every mode the block loop only stores at or behind the write index it starts with -/
theorem decLoop_low (v : Variant) (st : DecState) (peek : Bool) (n : Nat) : ∀ (l : Loc),
    (decLoop v st peek n l).store.take l.w = l.store.take l.w := by
  induction n with
  | zero => intro l; simp [decLoop, Loc.save]
  | succ n ih =>
    intro l
    unfold decLoop
    split
    · split
      · simp [Loc.save]
      · rename_i val _
        simp only
        split
        · simp [Loc.save]
        split
        · simp [Loc.save]
        · split
          · rename_i l' hput
            unfold Loc.put at hput
            split at hput
            · simp only [Option.some.injEq] at hput
              subst hput
              have := ih { l with reads := l.reads ++ [l.r], store := l.store.set l.w val, mlen := l.mlen + 1, writes := l.writes ++ [(l.w, l.r + 1)], pos := l.pos + 1 }
              simp only [Loc.w] at this ⊢
              rw [take_of_take this (by omega), take_set_ge' _ _ _ _ (Nat.le_refl _)]
            · simp at hput
          · simp [Loc.save]
    · split
      · simp [Loc.save]
      · split
        · simp [Loc.save]
        · rename_i next _
          simp only
          have hz := putZeros_low (lenData v l.code + lenZero v l.code next.toNat - l.pos) { l with reads := l.reads ++ [l.r] } (l.r + 1)
          split
          · rename_i l' heq
            rw [heq] at hz
            simp only [Loc.save]
            simpa [Loc.w] using hz.1
          · rename_i l' heq
            rw [heq] at hz
            split
            · simpa [Loc.w] using hz.1
            · have := ih { l' with proc := l'.proc + 1, code := next.toNat, pos := 0 }
              simp only [Loc.w] at this hz ⊢
              rw [take_of_take this hz.2, hz.1]


theorem decLoop_susp_peek (v : Variant) (st : DecState) (n : Nat) : ∀ (l : Loc),
    l.r + n = l.store.length → 0 < l.code → l.code < 256 → l.pos < 256 →
    Susp v st l (l.store.drop l.r) (decLoop v st true n l) := by
  induction n with
  | zero =>
    intro l _ hc0 hc hp
    simp only [decLoop]
    exact Susp.ofSave [] _ rfl rfl rfl rfl hc0 hc hp rfl rfl (by simp [Loc.acc]) (by intro m; rw [MRes.pre_nil])
  | succ n ih =>
    intro l hn hc0 hc hp
    have hlt : l.r < l.store.length := by omega
    have hb : l.store[l.r]? = some l.store[l.r] := by simp [hlt]
    have hinp : l.store.drop l.r = l.store[l.r] :: l.store.drop (l.r + 1) := by
      rw [List.drop_eq_getElem_cons hlt]
    generalize l.store[l.r] = b at hb hinp
    unfold decLoop
    rw [hinp]
    by_cases hd : l.pos < lenData v l.code
    · simp only [hd, if_true, hb]
      by_cases hz : b = 0
      · simp only [hz, if_true]
        exact Susp.ofSave [] _ rfl rfl rfl rfl hc0 hc hp rfl rfl (by simp [Loc.acc]) (by intro m; rw [MRes.pre_nil])
      simp only [hz, if_false]
      by_cases hpr : l.proc = 0
      · rw [if_pos hpr]
        exact Susp.ofSave [] _ rfl rfl rfl rfl hc0 hc hp rfl rfl (by simp [Loc.acc]) (by intro m; rw [MRes.pre_nil])
      rw [if_neg hpr]
      have hw : l.w < l.r + 1 := by simp only [Loc.w, Loc.r]; omega
      rw [Loc.put_some { l with reads := l.reads ++ [l.r] } (l.r + 1) b hw (by simp; omega)]
      simp only
      have hwl : l.done + l.mlen < l.store.length := by simp only [Loc.r] at hlt; omega
      have hld := lenData_lt v l.code hc
      refine Susp.step' b [b] (ih _ ?_ hc0 hc ?_) ?_ ?_ ?_ rfl rfl ?_ ?_
      · simp only [Loc.r, Loc.w, List.length_set] at *; omega
      · show l.pos + 1 < 256; omega
      · simp only [Loc.r]; omega
      · simp
      · exact drop_set_lt _ _ _ _ hw
      · simp only [Loc.acc, Loc.w]; exact region_snoc _ _ _ _ hwl
      · intro tl; simp [mach, hd, hz]
    · -- only process first block
      simp only [hd, if_false, if_true]
      exact Susp.ofSave [] _ rfl rfl rfl rfl hc0 hc hp rfl rfl (by simp [Loc.acc]) (by intro m; rw [MRes.pre_nil])


/-- peek mode never completes a message -/
theorem decLoop_peek_ne_one (v : Variant) (st : DecState) (n : Nat) : ∀ (l : Loc), (decLoop v st true n l).ret ≠ .val 1 := by
  induction n with
  | zero => intro l; simp [decLoop, Loc.save]
  | succ n ih =>
    intro l
    unfold decLoop
    split
    · split
      · simp [Loc.save]
      · simp only
        split
        · simp [Loc.save]
        split
        · simp [Loc.save]
        · split
          · exact ih _
          · simp [Loc.save]
    · simp [Loc.save]

/-- what a peek call (`sourcelen == 0`) does to a decoder in the middle of a frame: it decodes the rest of
    the open block in place and nothing else -/
theorem peek_hist (v : Variant) (c0 : Nat) (U : List Byte) (st : DecState) (store : List Byte) (segs : List Seg)
    (hflat : flat (segs.take 1) = store) (h : Hist v c0 U st store) :
    (decodeCobs v st segs true).ret ≠ .val 1 ∧
    (decodeCobs v st segs true).store.length = store.length ∧
    (decodeCobs v st segs true).st.pos = st.pos ∧ (decodeCobs v st segs true).st.msg = st.msg ∧
    (decodeCobs v st segs true).store.take (st.pos + st.len) = store.take (st.pos + st.len) ∧
    ((decodeCobs v st segs true).ret = .val 0 →
      Hist v c0 U (decodeCobs v st segs true).st (decodeCobs v st segs true).store ∧
      st.curr ≤ (decodeCobs v st segs true).st.curr ∧ st.len ≤ (decodeCobs v st segs true).st.len ∧
      (decodeCobs v st segs true).store.drop (decodeCobs v st segs true).st.curr = store.drop (decodeCobs v st segs true).st.curr) := by
  obtain ⟨hmsg, hcurr, c, p, hctx, hc0, hc, hp, hrel⟩ := h
  have hprev : decPrev st = (st, st.pos, st.len) := by simp [decPrev, hmsg]
  unfold decodeCobs
  simp only [if_true, hflat]
  unfold decPrep
  simp only [hprev, hmsg, Option.isSome_none, Bool.false_eq_true, false_and, if_false, if_true]
  by_cases hg : st.pos + st.len > st.curr ∨ store.length < st.pos + st.len
  · rw [if_pos hg]
    exact ⟨by simp, rfl, rfl, by first | rfl | simp [hmsg], rfl, by simp⟩
  rw [if_neg hg]
  by_cases hl : st.len = 0
  · rw [if_pos hl]
    exact ⟨by simp, rfl, rfl, by first | rfl | simp [hmsg], rfl, by simp⟩
  rw [if_neg hl]
  unfold decEnter
  rw [if_neg (by omega)]
  simp only
  unfold decStart
  have hcode : st.ctx % 256 = c := by rw [hctx]; exact ctx_code c p hc
  have hpos : st.ctx / 256 % 256 = p := by rw [hctx]; exact ctx_pos c p hc hp
  simp only [hcode, hpos]
  rw [if_neg (by omega)]
  generalize hL : ({ store := store, done := st.pos, mlen := st.len, proc := st.curr - (st.pos + st.len), code := c, pos := p } : Loc) = l
  have hr : l.r = st.curr := by subst hL; simp only [Loc.r]; omega
  have hw : l.w = st.pos + st.len := by subst hL; rfl
  have hs : l.store = store := by subst hL; rfl
  have hlow := decLoop_low v st true (store.length - l.r) l
  have hne := decLoop_peek_ne_one v st (store.length - l.r) l
  have hsusp := decLoop_susp_peek v st (store.length - l.r) l (by rw [hr, hs]; omega) (by subst hL; exact hc0) (by subst hL; exact hc) (by subst hL; exact hp)
  generalize decLoop v st true (store.length - l.r) l = o at hlow hne hsusp
  obtain ⟨out, c', p', e1, e2, e3, e4, e5, e6⟩ := hsusp.sv hne
  have hdone : l.done = st.pos := by subst hL; rfl
  have hmlen : l.mlen = st.len := by subst hL; rfl
  refine ⟨hne, by rw [hsusp.len, hs], by rw [e1], by rw [e1]; first | rfl | exact hmsg, by rw [← hw, hlow, hs], ?_⟩
  intro _
  have hreg : (o.store.drop o.st.pos).take o.st.len = l.acc ++ out := by
    rw [e1]; simp only; rw [← hdone]; exact e5
  have hacc : l.acc = (store.drop st.pos).take st.len := by subst hL; rfl
  refine ⟨⟨by rw [e1]; exact hmsg, ?_, c', p', by rw [e1], e2, e3, e4, ?_⟩, by rw [← hr]; exact hsusp.curr.1, by rw [e1]; simp only; omega, by rw [hsusp.unread, hs]⟩
  · have h1 := hsusp.curr.2; have h2 := hsusp.len
    rw [hs] at h1 h2
    simp only [List.length_drop] at h1; omega
  · intro more
    have hk : l.r + (o.st.curr - l.r) = o.st.curr := by have := hsusp.curr.1; omega
    have hcl : l.code = c ∧ l.pos = p := by subst hL; exact ⟨rfl, rfl⟩
    rw [hrel, ← hr, ← hs, ← hcl.1, ← hcl.2, e6, MRes.pre_pre, hreg, hsusp.unread, List.drop_drop, hk, hacc]
    simp only [hs]


/-- the same for the decoder selected by the variant (the tail fix-up does nothing in peek mode) -/
theorem peek_histV (v : Variant) (c0 : Nat) (U : List Byte) (st : DecState) (store : List Byte) (segs : List Seg)
    (hflat : flat (segs.take 1) = store) (h : Hist v c0 U st store) :
    (decodeV v st segs true).ret ≠ .val 1 ∧
    (decodeV v st segs true).store.length = store.length ∧
    (decodeV v st segs true).st.pos = st.pos ∧ (decodeV v st segs true).st.msg = st.msg ∧
    (decodeV v st segs true).store.take (st.pos + st.len) = store.take (st.pos + st.len) ∧
    ((decodeV v st segs true).ret = .val 0 →
      Hist v c0 U (decodeV v st segs true).st (decodeV v st segs true).store ∧
      st.curr ≤ (decodeV v st segs true).st.curr ∧ st.len ≤ (decodeV v st segs true).st.len ∧
      (decodeV v st segs true).store.drop (decodeV v st segs true).st.curr = store.drop (decodeV v st segs true).st.curr) := by
  have hh := peek_hist v c0 U st store segs hflat h
  unfold decodeV
  cases ht : v.tail
  · simp only [Bool.false_eq_true, if_false]; exact hh
  · simp only [if_true]
    unfold decodeCobsR
    simp only [true_or, if_true]
    generalize decodeCobs v st segs true = o at hh
    by_cases hc : o.ret = .err .MissingData ∧ o.st.ctx ≠ 0
    · rw [if_pos hc]
      exact ⟨by simp, hh.2.1, hh.2.2.1, hh.2.2.2.1, hh.2.2.2.2.1, by simp⟩
    · rw [if_neg hc]; exact hh

end Mpt.Codec
