/-
  Helper lemmas for C02 (core Lean only): `mpt_queue_peek` on a decode queue.  The decoder sees the first
  contiguous part of the data behind the delivered bytes; inside a valid stream it decodes more of the open
  block in place and nothing else, so a later `mpt_queue_recv` continues exactly as without the peek.
-/
import MptModel.Lemmas.DecodePeek
import MptModel.Lemmas.DecodeLive
import MptModel.Lemmas.CodedQueueRecv
namespace Mpt.Codec
open Mpt.Cobs

/-- what the block loop does in peek mode: it copies data bytes of the open block (all non-zero) and stops -/
theorem decLoop_peek_facts (v : Variant) (st : DecState) (s : List Byte) (c : Nat) (n : Nat) : ∀ l : Loc,
    l.r + n = l.store.length → l.store.drop l.r = s.drop l.r → l.store.length = s.length → c ≤ l.r →
    (∀ i, c ≤ i → i < l.r → s[i]? ≠ some 0) → st.pos = l.done →
    Scan s c (decLoop v st true n l) ∧ (decLoop v st true n l).ret ≠ .val 1 ∧
    (JL v l → SlackOk v (decLoop v st true n l).st) ∧
    (decLoop v st true n l).st.pos + (decLoop v st true n l).st.len ≤ (decLoop v st true n l).st.curr ∧
    (decLoop v st true n l).st.pos = st.pos ∧ (decLoop v st true n l).st.msg = st.msg := by
  have hsave : ∀ (lx : Loc) (ret : DecRet) (r0 : Nat), lx.r = r0 → ret ≠ .val 1 → lx.store.drop r0 = s.drop r0 → lx.store.length = s.length →
      c ≤ r0 → r0 ≤ s.length → (∀ i, c ≤ i → i < r0 → s[i]? ≠ some 0) → (ret = .err .MissingData → s[r0]? = some 0) →
      st.pos = lx.done →
      Scan s c (lx.save st ret) ∧ (lx.save st ret).ret ≠ .val 1 ∧ (JL v lx → SlackOk v (lx.save st ret).st) ∧
      (lx.save st ret).st.pos + (lx.save st ret).st.len ≤ (lx.save st ret).st.curr ∧
      (lx.save st ret).st.pos = st.pos ∧ (lx.save st ret).st.msg = st.msg := by
    intro lx ret r0 hr0 hne hd hl hc hr hnz hmd hp
    refine ⟨Scan.ofSave s c lx st ret hne r0 hr0 hd hl hc hr hnz hmd, hne, fun hj => save_slack v lx st ret hp hj, ?_, rfl, rfl⟩
    simp only [Loc.save, Loc.r, hp]; omega
  induction n with
  | zero =>
    intro l hn hd hl hc hnz hp
    simp only [decLoop]
    exact hsave l _ l.r rfl (by simp) hd hl hc (by omega) hnz (by simp) hp
  | succ n ih =>
    intro l hn hd hl hc hnz hp
    have hlt : l.r < l.store.length := by omega
    have hb : l.store[l.r]? = some l.store[l.r] := by simp [hlt]
    have hsb : s[l.r]? = some l.store[l.r] := by rw [← getElem?_of_drop_eq hd l.r (Nat.le_refl _)]; exact hb
    have hd1 : l.store.drop (l.r + 1) = s.drop (l.r + 1) := drop_ge_of_drop hd (by omega)
    generalize l.store[l.r] = b at hb hsb
    unfold decLoop
    by_cases hdat : l.pos < lenData v l.code
    · simp only [hdat, if_true, hb]
      by_cases hz : b = 0
      · simp only [hz, if_true]
        exact hsave { l with reads := l.reads ++ [l.r] } _ l.r rfl (by simp) hd hl hc (by omega) hnz (fun _ => by rw [hsb, hz]) hp
      simp only [hz, if_false]
      by_cases hpr : l.proc = 0
      · rw [if_pos hpr]
        exact hsave { l with reads := l.reads ++ [l.r] } _ l.r rfl (by simp) hd hl hc (by omega) hnz (by simp) hp
      rw [if_neg hpr]
      have hw : l.w < l.r + 1 := by simp only [Loc.w, Loc.r]; omega
      rw [Loc.put_some { l with reads := l.reads ++ [l.r] } (l.r + 1) b hw (by simp only; omega)]
      simp only
      have hih := ih { store := l.store.set l.w b, done := l.done, mlen := l.mlen + 1, proc := l.proc, code := l.code, pos := l.pos + 1, reads := l.reads ++ [l.r], writes := l.writes ++ [(l.w, l.r + 1)] } ?_ ?_ ?_ ?_ ?_ hp
      · refine ⟨hih.1, hih.2.1, fun hj => hih.2.2.1 ?_, hih.2.2.2⟩
        have hld := lenData_lt v l.code hj.1
        exact ⟨hj.1, by show l.pos + 1 < 256; omega, fun _ => by show 1 ≤ l.proc; omega⟩
      · simp only [Loc.r, List.length_set] at *; omega
      · simp only [Loc.r, Loc.w] at *
        rw [show l.done + (l.mlen + 1) + l.proc = l.done + l.mlen + l.proc + 1 by omega,
          drop_set_lt _ _ _ _ (by omega)]
        exact hd1
      · simp only [List.length_set]; exact hl
      · simp only [Loc.r] at *; omega
      · intro i h1 h2
        by_cases hi : i < l.r
        · exact hnz i h1 hi
        · have : i = l.r := by simp only [Loc.r] at *; omega
          subst this
          rw [hsb]; simp [hz]
    · simp only [hdat, if_false, if_true]
      exact hsave l _ l.r rfl (by simp) hd hl hc (by omega) hnz (by simp) hp

/-- a peek call between messages, with a delivered message, or on data that ends in front of the read
    position is refused: state and storage stay as they are -/
theorem decPrep_peek_refused (st : DecState) (segs : List Seg) (store : List Byte)
    (h : st.msg.isSome ∨ st.len = 0 ∨ store.length < st.curr) (hle : st.pos + st.len ≤ st.curr) :
    ∃ e, decPrep st segs store true = .inl (e, st) ∧ e ≠ .MissingData := by
  unfold decPrep
  simp only
  split
  · exact ⟨_, rfl, by simp⟩
  split
  · exact ⟨_, rfl, by simp⟩
  · rename_i _ hm
    have hnone : st.msg = none := by
      cases hs : st.msg with
      | none => rfl
      | some m => simp [hs] at hm
    have hprev : decPrev st = (st, st.pos, st.len) := by simp [decPrev, hnone]
    rw [hprev]
    simp only
    by_cases hl : st.len = 0
    · rw [if_pos hl]; exact ⟨_, rfl, by simp⟩
    · rw [if_neg hl]
      have hs : store.length < st.curr := by
        rcases h with h | h | h
        · simp [hnone] at h
        · exact absurd h hl
        · exact h
      unfold decEnter
      rw [if_pos (by omega)]
      exact ⟨_, rfl, by simp⟩

theorem peek_refused (v : Variant) (st : DecState) (a : Nat) (w : List Byte)
    (h : st.msg.isSome ∨ st.len = 0 ∨ w.length < st.curr) (hle : st.pos + st.len ≤ st.curr) :
    (decodeV v st [(a, w)] true).st = st ∧ (decodeV v st [(a, w)] true).store = w ∧
    (decodeV v st [(a, w)] true).ret ≠ .oob ∧ (decodeV v st [(a, w)] true).ret ≠ .clobber ∧
    ∃ e, (decodeV v st [(a, w)] true).ret = .err e := by
  have hflat : flat ([(a, w)].take 1) = w := by simp [flat]
  obtain ⟨e, he, hne⟩ := decPrep_peek_refused st ([(a, w)].take 1) (flat ([(a, w)].take 1)) (by rw [hflat]; exact h) hle
  have hc : decodeCobs v st [(a, w)] true = { ret := .err e, st := st, store := w } := by
    unfold decodeCobs
    simp only [if_true]
    rw [he, hflat]
  unfold decodeV
  cases ht : v.tail
  · simp only [Bool.false_eq_true, if_false]; rw [hc]; simp
  · simp only [if_true]
    unfold decodeCobsR
    rw [hc]
    simp only
    rw [if_neg (by simp [hne])]
    simp

/-- what a peek call that sees the first `n` bytes of the data `s` leaves behind, inside a frame -/
structure PeekOut (v : Variant) (c0 : Nat) (U : List Byte) (st : DecState) (s : List Byte) (n : Nat) (o : DecOut) : Prop where
  len : o.store.length = n
  pos : o.st.pos = st.pos
  msg : o.st.msg = none
  hist : Hist v c0 U o.st (o.store ++ s.drop n)
  unread : (o.store ++ s.drop n).drop o.st.curr = s.drop o.st.curr
  ge : st.curr ≤ o.st.curr
  le : o.st.curr ≤ s.length
  nz : ∀ i, st.curr ≤ i → i < o.st.curr → s[i]? ≠ some 0
  slack : SlackOk v st → SlackOk v o.st
  bnd : o.st.pos + o.st.len ≤ o.st.curr
  nofault : o.ret ≠ .oob ∧ o.ret ≠ .clobber ∧ o.ret ≠ .val 1

theorem peek_win0 (v : Variant) (c0 : Nat) (U : List Byte) (st : DecState) (s : List Byte) (n a : Nat) (hn : n ≤ s.length)
    (hle : st.pos + st.len ≤ st.curr) (h : Hist v c0 U st s) :
    PeekOut v c0 U st s n (decodeCobs v st [(a, s.take n)] true) := by
  have hflat : flat ([(a, s.take n)].take 1) = s.take n := by simp [flat]
  have hwl : (s.take n).length = n := by simp [Nat.min_eq_left hn]
  obtain ⟨hmsg, hcurr, c, p, hctx, hc0, hc, hp, hrel⟩ := h
  have hprev : decPrev st = (st, st.pos, st.len) := by simp [decPrev, hmsg]
  by_cases href : st.len = 0 ∨ n < st.curr
  · -- refused: nothing changes
    obtain ⟨e, he, hne⟩ := decPrep_peek_refused st ([(a, s.take n)].take 1) (flat ([(a, s.take n)].take 1))
      (by rw [hflat, hwl]; rcases href with h | h; exact Or.inr (Or.inl h); exact Or.inr (Or.inr h)) hle
    have hcb : decodeCobs v st [(a, s.take n)] true = { ret := .err e, st := st, store := s.take n } := by
      unfold decodeCobs
      simp only [if_true]
      rw [he, hflat]
    rw [hcb]
    have hs : s.take n ++ s.drop n = s := List.take_append_drop n s
    exact ⟨hwl, rfl, hmsg, by simp only [hs]; exact ⟨hmsg, hcurr, c, p, hctx, hc0, hc, hp, hrel⟩, by simp only [hs],
      Nat.le_refl _, hcurr, fun i h1 h2 => by simp only at h2; omega, fun hsl => hsl, hle, by simp, by simp, by simp⟩
  · have hl : st.len ≠ 0 := fun h => href (Or.inl h)
    have hcn : st.curr ≤ n := by rcases Nat.lt_or_ge n st.curr with h | h; exact absurd (Or.inr h) href; exact h
    have hcode : st.ctx % 256 = c := by rw [hctx]; exact ctx_code c p hc
    have hpos : st.ctx / 256 % 256 = p := by rw [hctx]; exact ctx_pos c p hc hp
    have hsafe := (decodeCobs_safe v st [(a, s.take n)] true (by intro m hm; rw [hmsg] at hm; cases hm)).nofault
    have hcb : decodeCobs v st [(a, s.take n)] true =
        decLoop v st true ((s.take n).length - (st.pos + st.len + (st.curr - (st.pos + st.len))))
          { store := s.take n, done := st.pos, mlen := st.len, proc := st.curr - (st.pos + st.len), code := c, pos := p } := by
      unfold decodeCobs
      simp only [if_true, hflat]
      unfold decPrep
      simp only [hprev, hmsg, Option.isSome_none, Bool.false_eq_true, false_and, if_false]
      rw [if_neg (by rw [hwl]; omega), if_neg hl]
      unfold decEnter
      rw [if_neg (by rw [hwl]; omega)]
      simp only
      unfold decStart
      simp only [hcode, hpos]
      rw [if_neg (by omega)]
      rfl
    rw [hcb] at hsafe ⊢
    generalize hL : ({ store := s.take n, done := st.pos, mlen := st.len, proc := st.curr - (st.pos + st.len), code := c, pos := p } : Loc) = l at hsafe ⊢
    have hr : l.r = st.curr := by subst hL; simp only [Loc.r]; omega
    have hs : l.store = s.take n := by subst hL; rfl
    have hdone : l.done = st.pos := by subst hL; rfl
    have hmlen : l.mlen = st.len := by subst hL; rfl
    have hcl : l.code = c ∧ l.pos = p := by subst hL; exact ⟨rfl, rfl⟩
    have hacc : l.acc = (s.drop st.pos).take st.len := by
      subst hL
      simp only [Loc.acc]
      apply List.ext_getElem?
      intro i
      simp only [List.getElem?_take, List.getElem?_drop]
      split
      · rw [if_pos (by omega)]
      · rfl
    have hjl : SlackOk v st → JL v l := by
      intro hsl
      subst hL
      refine ⟨hc, hp, fun hlt => ?_⟩
      have := hsl.2
      have e1 : st.ctx / 256 = p := by rw [hctx]; omega
      rw [e1, hcode] at this
      have := this hlt
      show 1 ≤ st.curr - (st.pos + st.len)
      omega
    have hnn : (s.take n).length - (st.pos + st.len + (st.curr - (st.pos + st.len))) = (s.take n).length - l.r := by rw [hr]; omega
    rw [hnn] at hsafe ⊢
    have hsusp := decLoop_susp_peek v st ((s.take n).length - l.r) l (by rw [hr, hs]; rw [hwl]; omega) (by rw [hcl.1]; exact hc0)
      (by rw [hcl.1]; exact hc) (by rw [hcl.2]; exact hp)
    obtain ⟨hscan, hne, hslack, hbnd, hpos', hmsg'⟩ := decLoop_peek_facts v st (s.take n) st.curr ((s.take n).length - l.r) l
      (by rw [hr, hs]; rw [hwl]; omega) (by rw [hs]) (by rw [hs]) (by rw [hr]; exact Nat.le_refl _)
      (fun i h1 h2 => by omega) hdone.symm
    generalize decLoop v st true ((s.take n).length - l.r) l = o at hsafe hsusp hscan hne hslack hbnd hpos' hmsg'
    obtain ⟨out, c', p', e1, e2, e3, e4, e5, e6⟩ := hsusp.sv hne
    have holen : o.store.length = n := by rw [hsusp.len, hs, hwl]
    have hocn : o.st.curr ≤ n := by have := hscan.le; rw [hwl] at this; exact this
    have hoge : st.curr ≤ o.st.curr := hscan.ge
    have hun : (o.store ++ s.drop n).drop o.st.curr = s.drop o.st.curr := by
      rw [List.drop_append_of_le_length (by omega), hscan.unread]
      apply List.ext_getElem?
      intro i
      simp only [List.getElem?_append, List.getElem?_drop, List.getElem?_take, List.length_drop, List.length_take]
      rw [Nat.min_eq_left hn]
      split
      · rw [if_pos (by omega)]
      · congr 1; omega
    have hstlen : o.st.len = st.len + out.length := by rw [e1]; simp only; rw [hmlen]
    refine ⟨holen, hpos', by rw [hmsg']; exact hmsg, ⟨by rw [hmsg']; exact hmsg, by simp only [List.length_append, List.length_drop]; omega,
      c', p', by rw [e1], e2, e3, e4, ?_⟩, hun, hoge, by omega, ?_, fun hsl => hslack (hjl hsl), hbnd, ?_⟩
    · intro more
      rw [hun]
      have hreg : ((o.store ++ s.drop n).drop o.st.pos).take o.st.len = (s.drop st.pos).take st.len ++ out := by
        have e5' : (o.store.drop st.pos).take (st.len + out.length) = l.acc ++ out := by rw [← hdone, ← hmlen]; exact e5
        rw [take_drop_append_le _ _ _ _ (by omega), hpos', hstlen, e5', hacc]
      rw [hreg, hrel]
      have hsplit : s.drop st.curr = (s.take n).drop l.r ++ s.drop n := by
        rw [hr]
        apply List.ext_getElem?
        intro i
        simp only [List.getElem?_append, List.getElem?_drop, List.getElem?_take, List.length_drop, List.length_take]
        rw [Nat.min_eq_left hn]
        split
        · rw [if_pos (by omega)]
        · congr 1; omega
      have hrest : ((s.take n).drop l.r).drop (o.st.curr - l.r) ++ s.drop n = s.drop o.st.curr := by
        rw [List.drop_drop, show l.r + (o.st.curr - l.r) = o.st.curr by omega]
        apply List.ext_getElem?
        intro i
        simp only [List.getElem?_append, List.getElem?_drop, List.getElem?_take, List.length_drop, List.length_take]
        rw [Nat.min_eq_left hn]
        split
        · rw [if_pos (by omega)]
        · congr 1; omega
      rw [hsplit, List.append_assoc, ← hcl.1, ← hcl.2, ← hs, e6, MRes.pre_pre, hs, ← List.append_assoc, hrest]
    · intro i h1 h2
      have := hscan.nz i h1 (by rw [if_neg hne]; omega)
      rw [List.getElem?_take, if_pos (by omega)] at this
      exact this
    · exact ⟨hsafe.1, hsafe.2, hne⟩

/-- the same for the decoder selected by the variant (the tail fix-up only changes the return value) -/
theorem peek_win (v : Variant) (c0 : Nat) (U : List Byte) (st : DecState) (s : List Byte) (n a : Nat) (hn : n ≤ s.length)
    (hle : st.pos + st.len ≤ st.curr) (h : Hist v c0 U st s) :
    PeekOut v c0 U st s n (decodeV v st [(a, s.take n)] true) := by
  have h0 := peek_win0 v c0 U st s n a hn hle h
  unfold decodeV
  cases ht : v.tail
  · simp only [Bool.false_eq_true, if_false]; exact h0
  · simp only [if_true]
    unfold decodeCobsR
    simp only [true_or, if_true]
    generalize decodeCobs v st [(a, s.take n)] true = o at h0
    by_cases hc : o.ret = .err .MissingData ∧ o.st.ctx ≠ 0
    · rw [if_pos hc]
      exact ⟨h0.len, h0.pos, h0.msg, h0.hist, h0.unread, h0.ge, h0.le, h0.nz, h0.slack, h0.bnd, by simp⟩
    · rw [if_neg hc]; exact h0

end Mpt.Codec

namespace Mpt.CQ
open Mpt Mpt.Cobs Mpt.Codec Mpt.Ring Mpt.Stream

/-- `mpt_message_read(&msg, off, 0)` on the queue data: the rest of the part that holds offset `off0` is one piece
    of the storage -/
theorem skipTo_spec (r : Ring) (h : r.WF) (off0 b used : Nat) (hs : skipTo r off0 = some (b, used)) :
    b + used ≤ r.store.length ∧ off0 + used ≤ r.len ∧
    ∀ i, i < r.len →
      ((b ≤ physIdx r.store.length r.off i ∧ physIdx r.store.length r.off i < b + used) ↔ (off0 ≤ i ∧ i < off0 + used)) ∧
      (off0 ≤ i → i < off0 + used → physIdx r.store.length r.off i = b + (i - off0)) := by
  obtain ⟨h1, h2⟩ := h
  unfold skipTo at hs
  simp only [Ring.max] at hs
  unfold physIdx
  repeat' split at hs
  all_goals
    first | (simp at hs; done) | skip
  all_goals
    simp only [Option.some.injEq, Prod.mk.injEq] at hs
    obtain ⟨hb, hu⟩ := hs
    refine ⟨by omega, by omega, fun i hi => ?_⟩
    by_cases hw : r.off + i < r.store.length
    · simp only [hw, if_true]; omega
    · simp only [hw, if_false]; omega

/-- the piece of storage handed to the decoder is a window of the queue content -/
theorem skipTo_window (r : Ring) (h : r.WF) (off0 b used : Nat) (hs : skipTo r off0 = some (b, used)) :
    (r.store.drop b).take used = (r.content.drop off0).take used := by
  obtain ⟨hb, hu, hi⟩ := skipTo_spec r h off0 b used hs
  apply List.ext_getElem?
  intro i
  simp only [List.getElem?_take, List.getElem?_drop]
  split
  · rename_i hlt
    rw [getElem?_content' r _ h.1 h.2, if_pos (by omega), phys_eq, (hi (off0 + i) (by omega)).2 (by omega) (by omega)]
    congr 1; omega
  · rfl

/-- the decoder's output written back: the window of the content is replaced -/
theorem skipTo_write (r : Ring) (h : r.WF) (off0 b used : Nat) (hs : skipTo r off0 = some (b, used)) (w : List Byte)
    (hw : w.length = used) :
    ({ r with store := Mem.write r.store b w } : Ring).content = r.content.take off0 ++ w ++ r.content.drop (off0 + w.length) := by
  subst hw
  obtain ⟨hb, hu, hi⟩ := skipTo_spec r h off0 b _ hs
  have hwl := Mem.write_length r.store b w (by omega)
  have hcl := content_length r h.1 h.2
  apply List.ext_getElem?
  intro i
  rw [getElem?_spliced _ _ _ _ (by rw [hcl]; omega)]
  rw [getElem?_content' _ _ (by simp only [hwl]; exact h.1) (by simp only [hwl]; exact h.2)]
  simp only [hwl]
  rw [getElem?_content' r _ h.1 h.2]
  by_cases hil : i < r.len
  · simp only [hil, if_true]
    rw [phys_eq, phys_eq, hwl, Mem.getElem?_write _ _ _ _ (by omega)]
    obtain ⟨hiff, heq⟩ := hi i hil
    by_cases hin : off0 ≤ i ∧ i < off0 + w.length
    · have hp := hiff.mpr hin
      have e := heq hin.1 hin.2
      rw [if_neg (show ¬ physIdx r.store.length r.off i < b by omega),
        if_pos (show physIdx r.store.length r.off i < b + w.length by omega),
        if_neg (show ¬ i < off0 by omega), if_pos (show i < off0 + w.length by omega), e]
      congr 1; omega
    · have hp : ¬(b ≤ physIdx r.store.length r.off i ∧ physIdx r.store.length r.off i < b + w.length) := fun hh => hin (hiff.mp hh)
      repeat' split
      all_goals first | rfl | (exfalso; omega)
  · simp only [hil, if_false]
    rw [if_neg (by omega), if_neg (by omega)]

/-- the queue after a peek that reached the decoder with the piece `(b, used)` of the storage -/
def peekSt (st : DecState) : DecState :=
  { ctx := st.ctx, curr := st.curr - st.pos, pos := st.pos - st.pos, len := st.len, msg := st.msg }

def peekQ (v : Variant) (q : DecodeQueue) (b used : Nat) : DecodeQueue :=
  let o := decodeV v (peekSt q.st) [(q.base + b, (q.ring.store.drop b).take used)] true
  { q with ring := { q.ring with store := Mem.write q.ring.store b o.store },
           st := { ctx := o.st.ctx, curr := o.st.curr + q.st.pos, pos := o.st.pos + q.st.pos, len := o.st.len, msg := o.st.msg } }

/-- `mpt_queue_peek` leaves the queue alone or runs the decoder on one piece of the storage -/
theorem queuePeek_shape (v : Variant) (q : DecodeQueue) (h : DInv q) (hc : q.codec = some v) (mx : Nat) (dst : Bool)
    (q' : DecodeQueue) (r : Int) (out : List Byte) (he : queuePeek q mx dst = .ok (q', r, out)) :
    q' = q ∨ ∃ b used, skipTo q.ring q.st.pos = some (b, used) ∧ q' = peekQ v q b used := by
  have hmin : min q.st.pos q.st.curr = q.st.pos := by have := h.bnd.le; omega
  unfold queuePeek at he
  split at he
  · cases he; exact Or.inl rfl
  rw [hc] at he
  unfold peekDec at he
  simp only [hmin] at he
  split at he
  · cases he; exact Or.inl rfl
  · rename_i b used hsk
    refine Or.inr ⟨b, used, hsk, ?_⟩
    split at he
    · cases he
    · cases he
    · cases he; simp only [peekQ, peekSt]
    · split at he
      · cases he; simp only [peekQ, peekSt]
      · unfold Mem.rd at he
        split at he
        · simp only [Res.bind_ok, Res.pure_eq] at he
          cases he; simp only [peekQ, peekSt]
        · cases he

theorem take_window_drop (l : List Byte) (p n : Nat) : l.take p ++ (l.drop p).take n ++ l.drop (p + n) = l := by
  rw [List.append_assoc, ← List.drop_drop, List.take_append_drop, List.take_append_drop]

/-- a refused peek changes neither the decoder state nor the queue content -/
theorem peekQ_refused (v : Variant) (q : DecodeQueue) (h : DInv q) (b used : Nat) (hs : skipTo q.ring q.st.pos = some (b, used))
    (href : q.st.msg.isSome ∨ q.st.len = 0 ∨ used < q.st.curr - q.st.pos) :
    (peekQ v q b used).st = q.st ∧ (peekQ v q b used).ring.content = q.ring.content := by
  obtain ⟨hb, hu, _⟩ := skipTo_spec q.ring h.wf _ b used hs
  have hle := h.bnd.le
  have hwl : ((q.ring.store.drop b).take used).length = used := by simp only [List.length_take, List.length_drop]; omega
  obtain ⟨e1, e2, _⟩ := peek_refused v (peekSt q.st) (q.base + b)
    ((q.ring.store.drop b).take used) (by rw [hwl]; exact href) (by simp only [peekSt]; omega)
  constructor
  · simp only [peekQ]
    rw [e1]
    simp only [peekSt]
    cases hst : q.st with
    | mk ctx curr pos len msg =>
      rw [hst] at hle
      simp only at hle ⊢
      congr 1 <;> omega
  · have := skipTo_write q.ring h.wf _ b used hs
      (decodeV v (peekSt q.st) [(q.base + b, (q.ring.store.drop b).take used)] true).store (by rw [e2]; exact hwl)
    simp only [peekQ]
    rw [this, e2, skipTo_window q.ring h.wf _ b used hs]
    simp only [List.length_take, List.length_drop]
    rw [content_length q.ring h.wf.1 h.wf.2, Nat.min_eq_left (by omega)]
    exact take_window_drop _ _ _

/-- offsets and storage bounds after a peek, any data -/
theorem peekQ_inv (v : Variant) (q : DecodeQueue) (h : DInv q) (b used : Nat) (hs : skipTo q.ring q.st.pos = some (b, used)) :
    DInv (peekQ v q b used) ∧ (peekQ v q b used).ring.store.length = q.ring.store.length ∧
    (peekQ v q b used).ring.len = q.ring.len ∧ (peekQ v q b used).ring.off = q.ring.off := by
  obtain ⟨hb, hu, _⟩ := skipTo_spec q.ring h.wf _ b used hs
  have hle := h.bnd.le
  have htot := h.bnd.tot
  have hwl : ((q.ring.store.drop b).take used).length = used := by simp only [List.length_take, List.length_drop]; omega
  have hwf : ∀ m, (peekSt q.st).msg = some m → m = (peekSt q.st).len := h.bnd.msg
  have hflat : (flat (if true = true then [(q.base + b, (q.ring.store.drop b).take used)].take 1 else [(q.base + b, (q.ring.store.drop b).take used)])).length = used := by
    simp [flat]; omega
  have hsafe := decodeV_safe v (peekSt q.st)
    [(q.base + b, (q.ring.store.drop b).take used)] true hwf
  have hol := hsafe.len
  rw [hflat] at hol
  have hwr := Mem.write_length q.ring.store b _ (by rw [hol]; exact hb)
  refine ⟨⟨⟨by simp only [peekQ, hwr]; exact h.wf.1, by simp only [peekQ, hwr]; exact h.wf.2⟩, ?_⟩, by simp only [peekQ, hwr], rfl, rfl⟩
  by_cases hc : q.st.curr - q.st.pos ≤ used
  · have hbnd := decodeV_bnd v (peekSt q.st)
      [(q.base + b, (q.ring.store.drop b).take used)] true
      (by rw [hflat]; exact ⟨by simp only [peekSt]; omega, by simp only [peekSt]; omega, hwf⟩)
    rw [hflat] at hbnd
    exact ⟨by simp only [peekQ]; have := hbnd.le; omega, by simp only [peekQ]; have := hbnd.tot; omega, by simp only [peekQ]; exact hbnd.msg⟩
  · obtain ⟨e1, _⟩ := peekQ_refused v q h b used hs (Or.inr (Or.inr (by omega)))
    rw [e1]
    exact h.bnd

theorem drop_prefix (pre s : List Byte) (k : Nat) : (pre ++ s).drop (k + pre.length) = s.drop k := by
  apply List.ext_getElem?
  intro i
  simp only [List.getElem?_drop, List.getElem?_append]
  rw [if_neg (by omega)]
  congr 1; omega

/-- bytes put back in front of the storage -/
theorem hist_unshift {v : Variant} {c0 : Nat} {U : List Byte} {st : DecState} {s : List Byte} (h : Hist v c0 U st s)
    (pre : List Byte) :
    Hist v c0 U { ctx := st.ctx, curr := st.curr + pre.length, pos := st.pos + pre.length, len := st.len, msg := st.msg }
      (pre ++ s) := by
  obtain ⟨hmsg, hcurr, c, p, hctx, hc0, hc, hp, hrel⟩ := h
  refine ⟨hmsg, by simp only [List.length_append]; omega, c, p, hctx, hc0, hc, hp, ?_⟩
  intro more
  simp only
  rw [drop_prefix, drop_prefix]
  exact hrel more

/-- **a peek inside a valid stream**: the receiver stays where it is in the stream (same frame, same bytes
    accepted), the work area invariant holds, no message appears or disappears -/
theorem peekQ_phase (v : Variant) (frames : List (List Byte)) (ms : List Msg) (hcar : Carries v frames ms)
    (q : DecodeQueue) (fed future : List Byte) (hfut : fed ++ future = frames.flatten) (k : Nat) (h : DInv q)
    (hph : Phase v frames q.st q.ring.content fed k) (b used : Nat)
    (hs : skipTo q.ring q.st.pos = some (b, used)) :
    Phase v frames (peekQ v q b used).st (peekQ v q b used).ring.content fed k ∧
    (SlackOk v q.st → SlackOk v (peekQ v q b used).st) ∧
    (peekQ v q b used).st.msg = q.st.msg := by
  obtain ⟨hb, hu, _⟩ := skipTo_spec q.ring h.wf _ b used hs
  have hle := h.bnd.le
  have hcl := content_length q.ring h.wf.1 h.wf.2
  cases hph with
  | idle hf hcc hfed =>
    have href : q.st.msg.isSome ∨ q.st.len = 0 ∨ used < q.st.curr - q.st.pos := by
      cases hm : q.st.msg with
      | none => exact Or.inr (Or.inl (hf.hnone hm))
      | some m => exact Or.inl rfl
    obtain ⟨e1, e2⟩ := peekQ_refused v q h b used hs href
    rw [e1, e2]
    exact ⟨Phase.idle hf hcc hfed, fun hsl => hsl, rfl⟩
  | busy c0 Uc hc0 hnz hh hfed =>
    have hsh : Hist v c0.toNat (Uc ++ q.ring.content.drop q.st.curr) (peekSt q.st) (q.ring.content.drop q.st.pos) :=
      Hist.shift hh q.st.pos (Nat.le_refl _) hle (q.st.pos - q.st.pos) rfl
    have hsl0 : SlackOk v q.st → SlackOk v (peekSt q.st) := by
      intro hsl
      refine ⟨hsl.1, fun hlt => ?_⟩
      have := hsl.2 hlt
      simp only [peekSt]; omega
    have hn : used ≤ (q.ring.content.drop q.st.pos).length := by simp only [List.length_drop, hcl]; omega
    have hpo := peek_win v c0.toNat _ (peekSt q.st) (q.ring.content.drop q.st.pos) used (q.base + b) hn
      (by simp only [peekSt]; omega) hsh
    rw [← skipTo_window q.ring h.wf _ b used hs] at hpo
    have hcw := skipTo_write q.ring h.wf _ b used hs
      (decodeV v (peekSt q.st) [(q.base + b, (q.ring.store.drop b).take used)] true).store hpo.len
    have hcont : (peekQ v q b used).ring.content = q.ring.content.take q.st.pos ++
        ((decodeV v (peekSt q.st) [(q.base + b, (q.ring.store.drop b).take used)] true).store ++
          (q.ring.content.drop q.st.pos).drop used) := by
      simp only [peekQ]
      rw [hcw, hpo.len, List.append_assoc, List.drop_drop]
    have hpl : (q.ring.content.take q.st.pos).length = q.st.pos := by simp only [List.length_take, hcl]; omega
    have hst : (peekQ v q b used).st =
        { ctx := (decodeV v (peekSt q.st) [(q.base + b, (q.ring.store.drop b).take used)] true).st.ctx,
          curr := (decodeV v (peekSt q.st) [(q.base + b, (q.ring.store.drop b).take used)] true).st.curr + (q.ring.content.take q.st.pos).length,
          pos := (decodeV v (peekSt q.st) [(q.base + b, (q.ring.store.drop b).take used)] true).st.pos + (q.ring.content.take q.st.pos).length,
          len := (decodeV v (peekSt q.st) [(q.base + b, (q.ring.store.drop b).take used)] true).st.len,
          msg := (decodeV v (peekSt q.st) [(q.base + b, (q.ring.store.drop b).take used)] true).st.msg } := by
      simp only [peekQ, hpl]
    have hhist := hist_unshift hpo.hist (q.ring.content.take q.st.pos)
    rw [← hcont, ← hst] at hhist
    have hge : q.st.curr - q.st.pos ≤ (decodeV v (peekSt q.st) [(q.base + b, (q.ring.store.drop b).take used)] true).st.curr := hpo.ge
    have hlee : (decodeV v (peekSt q.st) [(q.base + b, (q.ring.store.drop b).take used)] true).st.curr ≤ q.ring.len - q.st.pos := by
      have := hpo.le
      simp only [List.length_drop, hcl] at this
      exact this
    have hcurr : (peekQ v q b used).st.curr = (decodeV v (peekSt q.st) [(q.base + b, (q.ring.store.drop b).take used)] true).st.curr + q.st.pos := rfl
    have hclen : (peekQ v q b used).ring.content.length = q.ring.content.length := by
      rw [hcont]
      simp only [List.length_append, List.length_take, List.length_drop, hpo.len, hcl]
      omega
    have hun : (peekQ v q b used).ring.content.drop (peekQ v q b used).st.curr = q.ring.content.drop (peekQ v q b used).st.curr := by
      rw [hcont, hcurr]
      have := drop_prefix (q.ring.content.take q.st.pos) ((decodeV v (peekSt q.st) [(q.base + b, (q.ring.store.drop b).take used)] true).store ++
          (q.ring.content.drop q.st.pos).drop used) (decodeV v (peekSt q.st) [(q.base + b, (q.ring.store.drop b).take used)] true).st.curr
      rw [hpl] at this
      rw [this, hpo.unread, List.drop_drop, Nat.add_comm]
    have hout : CallOut v c0.toNat (Uc ++ q.ring.content.drop q.st.curr) q.ring.content q.st.curr
        { ret := .val 0, st := (peekQ v q b used).st, store := (peekQ v q b used).ring.content } := by
      refine ⟨fun _ => hhist, fun h1 => by simp at h1, ⟨hun, hclen, ?_, ?_, ?_, fun h1 => by simp at h1, fun h1 => by simp at h1⟩⟩
      · show q.st.curr ≤ (peekQ v q b used).st.curr
        rw [hcurr]; omega
      · show (peekQ v q b used).st.curr ≤ q.ring.content.length
        rw [hcurr, hcl]; omega
      · intro i h1 h2
        have h2' : i < (peekQ v q b used).st.curr := by simpa using h2
        rw [hcurr] at h2'
        have := hpo.nz (i - q.st.pos) (by simp only [peekSt]; omega) (by omega)
        rw [List.getElem?_drop, show q.st.pos + (i - q.st.pos) = i by omega] at this
        exact this
    have hres := (phase_after v frames ms hcar q.ring.content fed future hfut k q.st.curr c0 Uc _ hc0 hnz hfed hout).1 (by simp)
    refine ⟨hres.1, ?_, ?_⟩
    · intro hsl
      have hs2 := hpo.slack (hsl0 hsl)
      refine ⟨hs2.1, fun hlt => ?_⟩
      have := hs2.2 hlt
      simp only [peekQ]; omega
    · simp only [peekQ]
      rw [hpo.msg, hh.msg]

/-- with a delivered message waiting the peek is refused: the message stays readable -/
theorem peekQ_delivered (v : Variant) (q : DecodeQueue) (h : DInv q) (b used : Nat) (hs : skipTo q.ring q.st.pos = some (b, used))
    (hm : q.st.msg.isSome) : (peekQ v q b used).st = q.st ∧ (peekQ v q b used).ring.content = q.ring.content :=
  peekQ_refused v q h b used hs (Or.inl hm)

/-- **`mpt_queue_peek` is total** on every state with consistent offsets, any data, with or without destination:
    no access outside the storage (the decoder stays inside the piece it is given, the copy to the destination
    stays inside the decoded bytes) -/
theorem queuePeek_total (v : Variant) (q : DecodeQueue) (h : DInv q) (hc : q.codec = some v) (mx : Nat) (dst : Bool) :
    ∃ q' r out, queuePeek q mx dst = .ok (q', r, out) := by
  have hmin : min q.st.pos q.st.curr = q.st.pos := by have := h.bnd.le; omega
  have key : ∀ x, queuePeek q mx dst = x → ∃ q' r out, x = .ok (q', r, out) := by
    intro x he
    unfold queuePeek at he
    split at he
    · subst he; exact ⟨_, _, _, rfl⟩
    rw [hc] at he
    unfold peekDec at he
    simp only [hmin] at he
    split at he
    · subst he; exact ⟨_, _, _, rfl⟩
    · rename_i b used hsk
      obtain ⟨hb, hu, _⟩ := skipTo_spec q.ring h.wf _ b used hsk
      have hle := h.bnd.le
      have hwl : ((q.ring.store.drop b).take used).length = used := by simp only [List.length_take, List.length_drop]; omega
      have hwf : ∀ m, (peekSt q.st).msg = some m → m = (peekSt q.st).len := h.bnd.msg
      have hflat : (flat (if true = true then [(q.base + b, (q.ring.store.drop b).take used)].take 1 else [(q.base + b, (q.ring.store.drop b).take used)])).length = used := by
        simp [flat]; omega
      have hsafe := decodeV_safe v (peekSt q.st) [(q.base + b, (q.ring.store.drop b).take used)] true hwf
      have hol := hsafe.len
      rw [hflat] at hol
      have hnf := hsafe.nofault
      have hwr := Mem.write_length q.ring.store b _ (by rw [hol]; exact hb)
      have hbound : (∀ e, (decodeV v (peekSt q.st) [(q.base + b, (q.ring.store.drop b).take used)] true).ret ≠ .err e) →
          (decodeV v (peekSt q.st) [(q.base + b, (q.ring.store.drop b).take used)] true).st.pos +
            (decodeV v (peekSt q.st) [(q.base + b, (q.ring.store.drop b).take used)] true).st.len ≤ used := by
        intro hne
        by_cases hcc : q.st.curr - q.st.pos ≤ used
        · have hbnd := decodeV_bnd v (peekSt q.st) [(q.base + b, (q.ring.store.drop b).take used)] true
            (by rw [hflat]; exact ⟨by simp only [peekSt]; omega, by simp only [peekSt]; omega, hwf⟩)
          rw [hflat] at hbnd
          have := hbnd.le; have := hbnd.tot; omega
        · obtain ⟨_, _, _, _, e, he'⟩ := peek_refused v (peekSt q.st) (q.base + b) ((q.ring.store.drop b).take used)
            (Or.inr (Or.inr (by rw [hwl]; simp only [peekSt]; omega))) (by simp only [peekSt]; omega)
          exact absurd he' (hne e)
      simp only [peekSt] at hnf hbound hwr
      split at he
      · rename_i heq; exact absurd heq hnf.1
      · rename_i heq; exact absurd heq hnf.2
      · subst he; exact ⟨_, _, _, rfl⟩
      · rename_i n hval
        split at he
        · subst he; exact ⟨_, _, _, rfl⟩
        · unfold Mem.rd at he
          split at he
          · simp only [Res.bind_ok, Res.pure_eq] at he
            subst he; exact ⟨_, _, _, rfl⟩
          · rename_i hoob
            exfalso
            apply hoob
            rw [hwr]
            have := hbound (fun e he' => by rw [hval] at he'; cases he')
            omega
  exact key _ rfl

/-- `mpt_queue_peek` keeps offsets and storage bounds, any data -/
theorem queuePeek_inv (v : Variant) (q : DecodeQueue) (h : DInv q) (hc : q.codec = some v) (mx : Nat) (dst : Bool)
    (q' : DecodeQueue) (r : Int) (out : List Byte) (he : queuePeek q mx dst = .ok (q', r, out)) :
    DInv q' ∧ q'.codec = some v ∧ q'.ring.store.length = q.ring.store.length ∧ q'.ring.len = q.ring.len ∧ q'.ring.off = q.ring.off := by
  rcases queuePeek_shape v q h hc mx dst q' r out he with rfl | ⟨b, used, hs, rfl⟩
  · exact ⟨h, hc, rfl, rfl, rfl⟩
  · obtain ⟨hi, h1, h2, h3⟩ := peekQ_inv v q h b used hs
    exact ⟨hi, hc, h1, h2, h3⟩

/-- **`mpt_queue_peek` inside a valid stream is invisible to the stream**: same position in the stream, same
    pending message, work area invariant kept -/
theorem queuePeek_phase (v : Variant) (frames : List (List Byte)) (ms : List Msg) (hcar : Carries v frames ms)
    (q : DecodeQueue) (hc : q.codec = some v) (fed future : List Byte) (hfut : fed ++ future = frames.flatten) (k : Nat)
    (h : DInv q) (hph : Phase v frames q.st q.ring.content fed k) (mx : Nat) (dst : Bool)
    (q' : DecodeQueue) (r : Int) (out : List Byte) (he : queuePeek q mx dst = .ok (q', r, out)) :
    Phase v frames q'.st q'.ring.content fed k ∧ (SlackOk v q.st → SlackOk v q'.st) ∧ q'.st.msg = q.st.msg ∧
    (q.st.msg.isSome → q'.st = q.st ∧ q'.ring.content = q.ring.content) := by
  rcases queuePeek_shape v q h hc mx dst q' r out he with rfl | ⟨b, used, hs, rfl⟩
  · exact ⟨hph, fun x => x, rfl, fun _ => ⟨rfl, rfl⟩⟩
  · obtain ⟨h1, h2, h3⟩ := peekQ_phase v frames ms hcar q fed future hfut k h hph b used hs
    exact ⟨h1, h2, h3, fun hm => peekQ_delivered v q h b used hs hm⟩

end Mpt.CQ
