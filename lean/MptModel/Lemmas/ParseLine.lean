/-
  Symbolic evaluation of the parser model on the pieces the reference writer (Spec/Render.lean)
  produces: skipping of insignificant text, names, values (plain and quoted), for C09.
-/
import MptModel.Lemmas.ParseLoop
import MptModel.Spec.Render

namespace Mpt.Parse
open Mpt.Render

/-! ### loops over a known prefix -/

/-- run the loop body over characters that all continue the loop -/
def runSteps {σ ρ : Type} (step : σ → UInt8 → Step σ ρ) : σ → List UInt8 → Option σ
  | s, [] => some s
  | s, c :: cs =>
    match step s c with
    | .more s' => runSteps step s' cs
    | .done _ => none

theorem runSteps_append {σ ρ : Type} (step : σ → UInt8 → Step σ ρ) (s s' s'' : σ) (a b : List UInt8)
    (h1 : runSteps step s a = some s') (h2 : runSteps step s' b = some s'') :
    runSteps step s (a ++ b) = some s'' := by
  induction a generalizing s with
  | nil => simp only [runSteps, Option.some.injEq] at h1; subst h1; exact h2
  | cons c cs ih =>
    simp only [List.cons_append, runSteps] at h1 ⊢
    split at h1
    · rename_i s1 hs; exact ih s1 h1
    · cases h1

theorem scanAux_prefix {σ ρ : Type} (step : σ → UInt8 → Step σ ρ) (atEnd : σ → ρ) (cs rest : List UInt8) :
    ∀ (n : Nat) (t : List UInt8) (s s' : σ), runSteps step s cs = some s' →
      scanAux step atEnd (cs ++ rest) n t s = scanAux step atEnd rest (n + cs.length) (cs.reverse ++ t) s' := by
  induction cs with
  | nil => intro n t s s' h; simp only [runSteps, Option.some.injEq] at h; subst h; simp
  | cons c cs ih =>
    intro n t s s' h
    simp only [runSteps] at h
    split at h
    · rename_i s1 hs
      simp only [List.cons_append, scanAux, hs]
      rw [ih (n + 1) (c :: t) s1 s' h]
      simp only [List.length_cons, List.reverse_cons, List.append_assoc, List.singleton_append]
      congr 1; omega
    · cases h

/-- the loop runs over `cs` and is left by the body at character `c` -/
theorem scan_prefix_done {σ ρ : Type} (step : σ → UInt8 → Step σ ρ) (atEnd : σ → ρ)
    (cs : List UInt8) (c : UInt8) (rest : List UInt8) (src : Src) (s s' : σ) (r : ρ)
    (hsrc : src.rest = cs ++ c :: rest) (h1 : runSteps step s cs = some s') (h2 : step s' c = .done r) :
    ∃ src', scan step atEnd src s = (r, src') ∧ src'.rest = rest := by
  unfold scan
  rw [hsrc, scanAux_prefix step atEnd cs (c :: rest) _ _ s s' h1]
  simp only [scanAux, h2]
  exact ⟨_, rfl, rfl⟩

/-- the loop runs over `cs` and meets the end of the input -/
theorem scan_prefix_end {σ ρ : Type} (step : σ → UInt8 → Step σ ρ) (atEnd : σ → ρ)
    (cs : List UInt8) (src : Src) (s s' : σ)
    (hsrc : src.rest = cs) (h1 : runSteps step s cs = some s') :
    ∃ src', scan step atEnd src s = (atEnd s', src') ∧ src'.rest = [] := by
  unfold scan
  have := scanAux_prefix step atEnd cs [] src.reads src.trace s s' h1
  rw [List.append_nil] at this
  rw [hsrc, this]
  simp only [scanAux]
  exact ⟨_, rfl, rfl⟩

/-! ### insignificant text: what `mpt_parse_nextvis` skips -/

/-- formats of the reference writer: `#` is the only comment character -/
def HashOnly (f : Format) : Prop := f.com = [35, 0, 0, 0]

theorem HashOnly.isComment {f : Format} (h : HashOnly f) (c : UInt8) : f.isComment c = (c == 35) := by
  unfold Format.isComment
  rw [h]
  by_cases h0 : c = 0
  · subst h0; decide
  · by_cases h35 : c = 35
    · subst h35; decide
    · simp [h0, h35]

/-- state after skipping: `some inComment`, `none` if a visible character or a zero byte is met -/
def visSkip : Bool → List UInt8 → Option Bool
  | b, [] => some b
  | true, c :: r => if c == 10 then visSkip false r else visSkip true r
  | false, c :: r =>
    if c == 0 then none
    else if isspace c then visSkip false r
    else if c == 35 then visSkip true r
    else none

/-- a character that ends the skipping -/
def visible (c : UInt8) : Bool := c != 0 && !isspace c && c != 35

theorem nextvis_runSteps {f : Format} (hf : HashOnly f) :
    ∀ (junk : List UInt8) (b b' : Bool) (line : Nat), visSkip b junk = some b' →
      ∃ line', runSteps (nextvisStep f) { line := line, skip := b } junk = some { line := line', skip := b' } := by
  intro junk
  induction junk with
  | nil => intro b b' line h; simp only [visSkip, Option.some.injEq] at h; subst h; exact ⟨line, rfl⟩
  | cons c r ih =>
    intro b b' line h
    cases b with
    | true =>
      simp only [visSkip] at h
      simp only [runSteps, nextvisStep, ↓reduceIte]
      split at h
      · rename_i hc; simp only [hc, ↓reduceIte]; exact ih _ _ _ h
      · rename_i hc; simp only [hc]; exact ih _ _ _ h
    | false =>
      simp only [visSkip] at h
      split at h
      · cases h
      · rename_i h0
        split at h
        · rename_i hsp
          simp only [runSteps, nextvisStep, Bool.false_eq_true, ↓reduceIte, h0, hsp]
          exact ih _ _ _ h
        · rename_i hsp
          split at h
          · rename_i h35
            simp only [runSteps, nextvisStep, Bool.false_eq_true, ↓reduceIte, h0, hsp, hf.isComment, h35]
            exact ih _ _ _ h
          · cases h

theorem nextvisStep_visible {f : Format} (hf : HashOnly f) (c : UInt8) (hc : visible c = true) (line : Nat) :
    nextvisStep f { line := line, skip := false } c = .done (some c, line) := by
  unfold visible at hc
  simp only [Bool.and_eq_true, bne_iff_ne, ne_eq, Bool.not_eq_eq_eq_not, Bool.not_true] at hc
  obtain ⟨⟨h0, hsp⟩, h35⟩ := hc
  have hnl : (c == 10) = false := by
    cases h : c == 10
    · rfl
    · have : c = 10 := by simpa using h
      subst this; revert hsp; decide
  simp only [nextvisStep, Bool.false_eq_true, ↓reduceIte, beq_iff_eq, h0, hsp, hf.isComment, hnl]
  simp [h35]

/-- skipping insignificant text up to a visible character -/
theorem nextvis_skip {f : Format} (hf : HashOnly f) (junk : List UInt8) (c : UInt8) (rest : List UInt8)
    (s : St) (src : Src) (hj : visSkip false junk = some false) (hc : visible c = true)
    (hsrc : src.rest = junk ++ c :: rest) :
    ∃ line' src', nextvis f s src = (some c, { s with line := line' }, src') ∧ src'.rest = rest := by
  obtain ⟨line', hrun⟩ := nextvis_runSteps hf junk false false s.line hj
  obtain ⟨src', hs, hr⟩ := scan_prefix_done (nextvisStep f) (fun v => (none, v.line)) junk c rest src
    { line := s.line, skip := false } { line := line', skip := false } (some c, line') hsrc hrun
    (nextvisStep_visible hf c hc line')
  refine ⟨line', src', ?_, hr⟩
  unfold nextvis
  simp only [hs]

/-- only insignificant text is left -/
theorem nextvis_end {f : Format} (hf : HashOnly f) (junk : List UInt8) (b : Bool)
    (s : St) (src : Src) (hj : visSkip false junk = some b) (hsrc : src.rest = junk) :
    ∃ line' src', nextvis f s src = (none, { s with line := line' }, src') ∧ src'.rest = [] := by
  obtain ⟨line', hrun⟩ := nextvis_runSteps hf junk false b s.line hj
  obtain ⟨src', hs, hr⟩ := scan_prefix_end (nextvisStep f) (fun v => (none, v.line)) junk src
    { line := s.line, skip := false } { line := line', skip := b } hsrc hrun
  refine ⟨line', src', ?_, hr⟩
  unfold nextvis
  simp only [hs]

theorem visSkip_append (a b : List UInt8) (x y z : Bool) (h1 : visSkip x a = some y) (h2 : visSkip y b = some z) :
    visSkip x (a ++ b) = some z := by
  induction a generalizing x with
  | nil => simp only [visSkip, Option.some.injEq] at h1; subst h1; exact h2
  | cons c r ih =>
    cases x with
    | true =>
      simp only [visSkip, List.cons_append] at h1 ⊢
      split at h1 <;> rename_i hc <;> simp only [hc, ↓reduceIte] <;> exact ih _ h1
    | false =>
      simp only [visSkip, List.cons_append] at h1 ⊢
      split at h1
      · cases h1
      · rename_i h0
        simp only [h0]
        split at h1
        · rename_i hsp; simp only [hsp, ↓reduceIte, Bool.false_eq_true]; exact ih _ h1
        · rename_i hsp
          split at h1
          · rename_i h35; simp only [hsp, h35, ↓reduceIte, Bool.false_eq_true]; exact ih _ h1
          · cases h1

/-- the rest of a line up to and including its line feed, skipped by `mpt_parse_endline` -/
theorem endline_line (cs rest : List UInt8) (s : St) (src : Src) (hcs : cs.contains 10 = false)
    (hsrc : src.rest = cs ++ 10 :: rest) :
    ∃ line' src', endline s src = ({ s with line := line' }, src') ∧ src'.rest = rest := by
  have hrun : ∀ (l : List UInt8) (line : Nat), l.contains 10 = false →
      runSteps endlineStep line l = some line := by
    intro l
    induction l with
    | nil => intro line _; rfl
    | cons c r ih =>
      intro line h
      simp only [List.contains_cons, Bool.or_eq_false_iff] at h
      have hc : (c == 10) = false := by
        cases hh : c == 10
        · rfl
        · have : c = 10 := by simpa using hh
          subst this; simp at h
      simp only [runSteps, endlineStep, hc]
      exact ih line h.2
  obtain ⟨src', hs, hr⟩ := scan_prefix_done endlineStep (fun l => l) cs 10 rest src s.line s.line (s.line + 1)
    hsrc (hrun cs s.line hcs) (by simp [endlineStep])
  refine ⟨s.line + 1, src', ?_, hr⟩
  unfold endline
  simp only [hs]

end Mpt.Parse

namespace Mpt.Parse
open Mpt.Render

/-! ### canonical path and parser states -/

/-- a path with buffer: committed elements `e`, pending bytes `l`, KeepPost `k` -/
def Pth (e : List (List UInt8)) (l : List UInt8) (k : Bool) (fi : UInt8) : Path :=
  { elems := e, pending := l.toArray, keep := k, hasBuf := true, first := fi }

/-- a path without pending bytes as the element loop leaves it (fresh, invalidated or shortened) -/
def Clean (e : List (List UInt8)) (p : Path) : Prop := p.elems = e ∧ p.pending = #[] ∧ p.keep = false

theorem clean_init : Clean [] ({} : Path) := ⟨rfl, rfl, rfl⟩
theorem clean_pth (e : List (List UInt8)) (fi : UInt8) : Clean e (Pth e [] false fi) := ⟨rfl, rfl, rfl⟩

theorem addchar_clean {e : List (List UInt8)} {p : Path} (h : Clean e p) (c : UInt8) :
    p.addchar c = Pth e [c] false p.first := by
  obtain ⟨h1, h2, h3⟩ := h
  cases p
  simp only at h1 h2 h3
  subst h1 h2 h3
  simp only [Path.addchar, Pth]
  split <;> simp_all

@[simp] theorem addchar_keep (e : List (List UInt8)) (l : List UInt8) (fi c : UInt8) :
    (Pth e l true fi).addchar c = Pth e (l ++ [c]) true fi := by
  simp [Path.addchar, Pth]

@[simp] theorem addchar_nil (e : List (List UInt8)) (k : Bool) (fi c : UInt8) :
    (Pth e [] k fi).addchar c = Pth e [c] k fi := by
  simp [Path.addchar, Pth]

theorem addchar_over (e : List (List UInt8)) (l : List UInt8) (fi c : UInt8) (hl : l ≠ []) :
    (Pth e l false fi).addchar c = Pth e (l.dropLast ++ [c]) false fi := by
  have : l.length ≠ 0 := by intro h; exact hl (List.length_eq_zero_iff.mp h)
  simp [Path.addchar, Pth, this]

@[simp] theorem delchar_pth (e : List (List UInt8)) (l : List UInt8) (k : Bool) (fi : UInt8) :
    (Pth e l k fi).delchar = Pth e l.dropLast k fi := by
  simp [Path.delchar, Pth]

@[simp] theorem valid_pth (e : List (List UInt8)) (l : List UInt8) (k : Bool) (fi : UInt8) :
    (Pth e l k fi).valid = (l.length, Pth e l (k || !l.isEmpty) fi) := by
  cases l <;> simp [Path.valid, Pth]

@[simp] theorem invalidate_pth (e : List (List UInt8)) (l : List UInt8) (k : Bool) (fi : UInt8) :
    (Pth e l k fi).invalidate = Pth e [] false fi := by
  simp [Path.invalidate, Pth]

@[simp] theorem head_pth (e : List (List UInt8)) (l : List UInt8) (k : Bool) (fi : UInt8) (n : Nat) :
    (Pth e l k fi).head n = l.take n := by
  simp [Path.head, Pth]

theorem add_pth (e : List (List UInt8)) (l : List UInt8) (k : Bool) (fi : UInt8) (n : Nat)
    (hn : n ≤ l.length) (hsep : (l.take n).contains Path.sep = false) :
    (Pth e l k fi).add n = .ok (Pth (e ++ [l.take n]) (l.drop (n + 1)) false
      (if e.isEmpty then UInt8.ofNat n else fi)) := by
  unfold Path.add
  rw [head_pth, hsep]
  have h1 : ¬ l.length < n := by omega
  simp [Pth, h1, List.take_of_length_le]

theorem del_pth (e : List (List UInt8)) (l : List UInt8) (k : Bool) (fi : UInt8) (he : e ≠ []) :
    (Pth e l k fi).del = .ok (Pth e.dropLast [] false (if e.dropLast.isEmpty then 0 else fi)) := by
  unfold Path.del
  have : (Pth e l k fi).elems.isEmpty = false := by simp [Pth, he]
  rw [this]
  simp [Pth]

/-- parser state around a canonical path -/
abbrev Stt (e : List (List UInt8)) (l : List UInt8) (k : Bool) (fi : UInt8) (v cur ln : Nat) : St :=
  { path := Pth e l k fi, valid := v, curr := cur, line := ln }

theorem save_stt (e : List (List UInt8)) (l : List UInt8) (k : Bool) (fi : UInt8) (v cur ln : Nat) (c : UInt8)
    (h0 : c ≠ 0) :
    (Stt e l k fi v cur ln).save c =
      { path := (Pth e l k fi).addchar c, valid := v, curr := cur, line := if c == 10 then ln + 1 else ln } := by
  simp [St.save, h0]

@[simp] theorem markValid_stt (e : List (List UInt8)) (l : List UInt8) (k : Bool) (fi : UInt8) (v cur ln : Nat) :
    (Stt e l k fi v cur ln).markValid = Stt e l (k || !l.isEmpty) fi l.length cur ln := by
  simp [St.markValid]

/-! ### names -/
theorem ncheckChars_all (b : Bool) (l : List UInt8) : ncheckChars 0xff b l = none := by
  induction l generalizing b with
  | nil => rfl
  | cons c r ih =>
    have h1 : has 0xff NameFlag.space = true := by decide
    have h2 : has 0xff NameFlag.numStart = true := by decide
    have h3 : has 0xff NameFlag.numCont = true := by decide
    have h4 : has 0xff NameFlag.binary = true := by decide
    have h5 : has 0xff NameFlag.special = true := by decide
    unfold ncheckChars
    simp only [h1, h4, h5, Bool.not_true, Bool.false_eq_true, ↓reduceIte, ih]
    cases b <;> simp [h2, h3]

theorem ncheck_all (n : List UInt8) : ncheck n 0xff = none := by
  unfold ncheck
  split
  · have : has 0xff NameFlag.empty = true := by decide
    simp [this]
  · exact ncheckChars_all _ _

/-- the name restriction of the specification is the one `mpt_parse_ncheck` applies -/
theorem charsFit_ncheck (flags : Nat) : ∀ (l : List UInt8) (b : Bool), charsFit flags b l = true →
    ncheckChars flags b l = none := by
  intro l
  induction l with
  | nil => intro b _; rfl
  | cons c r ih =>
    intro b h
    simp only [charsFit, Bool.and_eq_true] at h
    obtain ⟨hc, hr⟩ := h
    have hr' := ih false hr
    unfold ncheckChars
    have e1 : Render.isSpace c = isspace c := rfl
    have e2 : Render.isDigit c = isdigit c := rfl
    have e3 : Render.isPrint c = isprint c := rfl
    have e4 : Render.isAlnum c = isalnum c := by
      simp [Render.isAlnum, isalnum, isalpha, Render.isDigit, isdigit, Bool.or_assoc]
    rw [e1, e2, e3, e4] at hc
    by_cases h1 : isspace c = true
    · simp only [h1, ↓reduceIte] at hc ⊢
      have : has flags NameFlag.space = true := hc
      simp [this, hr']
    · simp only [h1, Bool.false_eq_true, ↓reduceIte] at hc ⊢
      by_cases h2 : isdigit c = true
      · simp only [h2, ↓reduceIte] at hc ⊢
        have : has flags (if b = true then NameFlag.numStart else NameFlag.numCont) = true := by
          cases b <;> exact hc
        simp [this, hr']
      · simp only [h2, Bool.false_eq_true, ↓reduceIte] at hc ⊢
        by_cases h3 : isprint c = true
        · simp only [h3, Bool.not_true, Bool.false_eq_true, ↓reduceIte] at hc ⊢
          by_cases h4 : isalnum c = true
          · simp [h4, hr']
          · simp only [h4, Bool.not_false, ↓reduceIte] at hc ⊢
            have : has flags NameFlag.special = true := hc
            simp [this, hr']
        · simp only [h3, Bool.not_false, ↓reduceIte] at hc ⊢
          have : has flags NameFlag.binary = true := hc
          simp [this, hr']

theorem nameFits_ncheck (flags : Nat) (n : List UInt8) (h : nameFits flags n = true) : ncheck n flags = none := by
  unfold nameFits at h
  unfold ncheck
  split
  · rename_i he
    rw [if_pos he] at h
    have : has flags NameFlag.empty = true := h
    simp [this]
  · rename_i he
    rw [if_neg he] at h
    exact charsFit_ncheck flags n true h

/-- every name fits the word with all flags set -/
theorem charsFit_all : ∀ (l : List UInt8) (b : Bool), charsFit 0xff b l = true := by
  intro l
  induction l with
  | nil => intro _; rfl
  | cons c r ih =>
    intro b
    simp only [charsFit, ih, Bool.and_true]
    cases b <;> (repeat' split) <;> decide

theorem nameFits_all (n : List UInt8) : nameFits 0xff n = true := by
  unfold nameFits
  split
  · decide
  · exact charsFit_all n true

/-- a Boolean property of all 256 byte values, checked by evaluation -/
theorem forall_byte (p : UInt8 → Bool) (h : (List.range 256).all (fun k => p (UInt8.ofNat k)) = true)
    (c : UInt8) : p c = true := by
  have := List.all_eq_true.mp h c.toNat (List.mem_range.mpr (UInt8.toNat_lt c))
  simpa using this

/-- what the name characters of the reference writer are not -/
theorem nameChar_facts (c : UInt8) (h : nameChar c = true) :
    c ≠ 0 ∧ c ≠ 10 ∧ c ≠ 35 ∧ c ≠ 46 ∧ c ≠ 61 ∧ c ≠ 123 ∧ c ≠ 125 ∧ c ≠ 91 ∧ c ≠ 93 ∧ c ≠ 124
      ∧ True ∧ True ∧ isspace c = false := by
  have := forall_byte (fun c => !nameChar c || (c != 0 && c != 10 && c != 35 && c != 46 && c != 61 && c != 123
    && c != 125 && c != 91 && c != 93 && c != 124 && true && true && !isspace c)) (by decide +kernel) c
  simp only [h, Bool.not_true, Bool.false_or, Bool.and_eq_true, bne_iff_ne, ne_eq, Bool.not_eq_eq_eq_not,
    and_assoc] at this
  exact this

theorem nameOk_nosep (n : List UInt8) (h : n.all nameChar = true) : n.contains Path.sep = false := by
  induction n with
  | nil => rfl
  | cons c r ih =>
    simp only [List.all_cons, Bool.and_eq_true] at h
    have := (nameChar_facts c h.1).2.2.2.1
    simp only [List.contains_cons, Bool.or_eq_false_iff]
    refine ⟨?_, ih h.2⟩
    simp [Path.sep]; exact fun hh => this hh.symm

end Mpt.Parse
