/-
  Safety lemmas for the decoder model (core Lean only): no load outside the storage, every store strictly
  behind the read index, loads strictly increasing (each byte is read at most once per call).
-/
import MptModel.Impl.Decode
namespace Mpt.Codec
open Mpt.Cobs

/-- properties of the index trace and storage size kept by every exit -/
structure Safe (total : Nat) (st : DecState) (dpos : Nat) (o : DecOut) : Prop where
  nofault : o.ret ≠ .oob ∧ o.ret ≠ .clobber
  md : o.ret = .err .MissingData → o.st.pos = st.pos ∧ dpos + o.st.len ≤ o.st.curr ∧ o.st.curr < total
  len : o.store.length = total
  writes : ∀ x ∈ o.writes, x.1 < x.2 ∧ x.2 ≤ total
  reads : o.reads.Pairwise (· < ·) ∧ ∀ x ∈ o.reads, x < total

/-- loop invariant for the safety facts; `rb` = all loads so far are below this index -/
structure LSafe (total : Nat) (dpos : Nat) (l : Loc) (n rb : Nat) : Prop where
  done : l.done = dpos
  len : l.store.length = total
  unread : l.r + n = total
  writes : ∀ x ∈ l.writes, x.1 < x.2 ∧ x.2 ≤ total
  reads : l.reads.Pairwise (· < ·) ∧ ∀ x ∈ l.reads, x < rb
  rb : rb ≤ total

theorem Loc.put_some (l : Loc) (r : Nat) (b : Byte) (h1 : l.w < r) (h2 : r ≤ l.store.length) :
    l.put r b = some { l with store := l.store.set l.w b, mlen := l.mlen + 1, writes := l.writes ++ [(l.w, r)] } := by
  simp [Loc.put, h1, h2]

theorem save_safe (total dpos : Nat) (l : Loc) (n rb : Nat) (st : DecState) (ret : DecRet) (h : LSafe total dpos l n rb)
    (hr : ret ≠ .oob ∧ ret ≠ .clobber) (hmd : ret = .err .MissingData → 0 < n) : Safe total st dpos (l.save st ret) := by
  refine ⟨hr, ?_, h.len, h.writes, h.reads.1, ?_⟩
  · intro he
    have := hmd he; have := h.unread; have := h.done
    simp only [Loc.save, Loc.r] at *
    exact ⟨trivial, by omega, by omega⟩
  intro x hx
  have := h.reads.2 x hx
  have := h.rb
  simp only [Loc.save] at *
  omega

theorem putZeros_safe (total dpos : Nat) (k : Nat) : ∀ (l : Loc) (n rb : Nat) (r : Nat), LSafe total dpos l n rb → r = l.r + 1 → r ≤ total →
    LSafe total dpos (putZeros k l r).1 n rb ∧ (putZeros k l r).1.r = l.r := by
  induction k with
  | zero => intro l n rb r h _ _; exact ⟨h, by simp [putZeros]⟩
  | succ k ih =>
    intro l n rb r h hr hrt
    unfold putZeros
    by_cases hp : l.proc = 0
    · simp only [hp, if_true]; exact ⟨h, trivial⟩
    · simp only [hp, if_false]
      have hw : l.w < r := by simp only [Loc.w, Loc.r] at *; omega
      rw [Loc.put_some l r 0 hw (by rw [h.len]; exact hrt)]
      simp only
      have h' : LSafe total dpos { l with store := l.store.set l.w 0, mlen := l.mlen + 1, writes := l.writes ++ [(l.w, r)], proc := l.proc - 1, pos := l.pos + 1 } n rb := by
        refine ⟨h.done, by simp [h.len], ?_, ?_, h.reads, h.rb⟩
        · have := h.unread; simp only [Loc.r] at *; omega
        · intro x hx
          simp only [List.mem_append, List.mem_singleton] at hx
          rcases hx with hx | hx
          · exact h.writes x hx
          · subst hx; exact ⟨hw, hrt⟩
      have := ih _ n rb r h' (by simp only [Loc.r] at *; omega) hrt
      refine ⟨this.1, ?_⟩
      rw [this.2]; simp only [Loc.r]; omega

/-- a load of the next unread byte -/
theorem LSafe.read {total dpos : Nat} {l : Loc} {n : Nat} (h : LSafe total dpos l (n + 1) l.r) :
    ∃ b, l.store[l.r]? = some b ∧ LSafe total dpos { l with reads := l.reads ++ [l.r] } (n + 1) (l.r + 1) := by
  have hlt : l.r < l.store.length := by have := h.unread; have := h.len; omega
  refine ⟨l.store[l.r], by simp [hlt], h.done, h.len, h.unread, h.writes, ⟨?_, ?_⟩, ?_⟩
  · rw [List.pairwise_append]
    refine ⟨h.reads.1, by simp, ?_⟩
    intro a ha b hb; simp at hb; subst hb; exact h.reads.2 a ha
  · intro x hx
    simp only [List.mem_append, List.mem_singleton] at hx
    rcases hx with hx | hx
    · have := h.reads.2 x hx; omega
    · subst hx; simp only [Loc.r]; omega
  · have := h.len; simp only [Loc.r] at *; omega

theorem decLoop_safe (v : Variant) (st : DecState) (peek : Bool) (total dpos : Nat) (n : Nat) :
    ∀ l, LSafe total dpos l n l.r → Safe total st dpos (decLoop v st peek n l) := by
  induction n with
  | zero => intro l h; simp only [decLoop]; exact save_safe total dpos l 0 _ st _ h (by simp) (by simp)
  | succ n ih =>
    intro l h
    obtain ⟨b, hb, h1⟩ := h.read
    unfold decLoop
    by_cases hd : l.pos < lenData v l.code
    · simp only [hd, if_true, hb]
      by_cases hz : b = 0
      · simp only [hz, if_true]; exact save_safe total dpos _ _ _ st _ h1 (by simp) (by simp)
      simp only [hz, if_false]
      by_cases hp : l.proc = 0
      · rw [if_pos hp]; exact save_safe total dpos _ _ _ st _ h1 (by simp) (by simp)
      rw [if_neg hp]
      have hw : l.w < l.r + 1 := by simp only [Loc.w, Loc.r]; omega
      have hr : l.r + 1 ≤ l.store.length := by have := h.unread; have := h.len; omega
      have := Loc.put_some { l with reads := l.reads ++ [l.r] } (l.r + 1) b hw hr
      rw [this]
      simp only
      apply ih
      refine ⟨h.done, by simp [h.len], ?_, ?_, ?_, ?_⟩
      · have := h.unread; simp only [Loc.r] at *; omega
      · intro x hx
        simp only [List.mem_append, List.mem_singleton] at hx
        rcases hx with hx | hx
        · exact h.writes x hx
        · subst hx
          have := h.len
          simp only [Loc.r, Loc.w] at *
          exact ⟨by omega, by omega⟩
      · refine ⟨h1.reads.1, ?_⟩
        intro x hx; have := h1.reads.2 x hx; simp only [Loc.r] at *; omega
      · have := h.unread; simp only [Loc.r] at *; omega
    · simp only [hd, if_false]
      by_cases hpk : peek = true
      · simp only [hpk, if_true]; exact save_safe total dpos l (n+1) _ st _ h (by simp) (by simp)
      have hpf : peek = false := by simpa using hpk
      subst hpf
      simp only [Bool.false_eq_true, if_false, hb]
      have hrt : l.r + 1 ≤ total := by have := h.unread; omega
      have hz := putZeros_safe total dpos (lenData v l.code + lenZero v l.code b.toNat - l.pos) _ (n + 1) (l.r + 1) (l.r + 1) h1 rfl hrt
      generalize hq : putZeros (lenData v l.code + lenZero v l.code b.toNat - l.pos) { l with reads := l.reads ++ [l.r] } (l.r + 1) = q at hz
      obtain ⟨l', ok⟩ := q
      cases ok
      · exact save_safe total dpos _ _ _ st _ hz.1 (by simp) (by simp)
      · show Safe total st dpos (if b = 0 then _ else _)
        by_cases hn : b = 0
        · simp only [hn, if_true]
          refine ⟨by simp, by simp, hz.1.len, hz.1.writes, hz.1.reads.1, ?_⟩
          intro x hx; have := hz.1.reads.2 x hx; omega
        · simp only [hn, if_false]
          apply ih
          have h2 := hz.2
          simp only [Loc.r] at h2 ⊢
          refine ⟨hz.1.done, hz.1.len, ?_, hz.1.writes, ⟨hz.1.reads.1, ?_⟩, ?_⟩
          · have := h.unread; simp only [Loc.r] at *; omega
          · intro x hx; have := hz.1.reads.2 x hx; simp only [Loc.r] at *; omega
          · have := h.unread; simp only [Loc.r] at *; omega


/-- what the callers of the decoders may rely on: no stray access, stores only behind the read index -/
structure SafeOut (total : Nat) (o : DecOut) : Prop where
  nofault : o.ret ≠ .oob ∧ o.ret ≠ .clobber
  len : o.store.length = total
  writes : ∀ x ∈ o.writes, x.1 < x.2 ∧ x.2 ≤ total
  reads : o.reads.Pairwise (· < ·) ∧ ∀ x ∈ o.reads, x < total
  md : o.ret = .err .MissingData → o.st.pos + o.st.len ≤ o.st.curr ∧ o.st.curr < total

theorem SafeOut.fail (store : List Byte) (st : DecState) (e : Err) (he : e ≠ .MissingData) :
    SafeOut store.length { ret := .err e, st := st, store := store } :=
  ⟨by simp, rfl, by simp, by simp, by simp [he]⟩

theorem Safe.out {total : Nat} {st : DecState} {o : DecOut} (h : Safe total st st.pos o) : SafeOut total o :=
  ⟨h.nofault, h.len, h.writes, h.reads, fun he => by
    obtain ⟨a, b, c⟩ := h.md he
    rw [a]; exact ⟨b, c⟩⟩

/-- what `decPrep` hands to the loop -/
structure PrepOk (store : List Byte) (st' : DecState) (l : Loc) : Prop where
  hstore : l.store = store
  r : l.r ≤ store.length
  reads : l.reads = []
  writes : l.writes = []
  pos : st'.pos = l.done

theorem decEnter_ok (st : DecState) (store : List Byte) (done mlen proc : Nat) (st' : DecState) (l : Loc)
    (hp : st.pos = done) (h : decEnter st store done mlen proc = .inr (st', l)) : PrepOk store st' l := by
  unfold decEnter at h
  split at h
  · simp at h
  · simp only [Sum.inr.injEq, Prod.mk.injEq] at h
    obtain ⟨rfl, rfl⟩ := h
    exact ⟨rfl, by simp only [Loc.r]; omega, rfl, rfl, hp⟩

theorem decPrep_ok (st : DecState) (segs : List Seg) (store : List Byte) (peek : Bool) (st' : DecState) (l : Loc)
    (hwf : ∀ m, st.msg = some m → m = st.len) (h : decPrep st segs store peek = .inr (st', l)) : PrepOk store st' l := by
  unfold decPrep at h
  simp only at h
  split at h
  · simp at h
  split at h
  · simp at h
  split at h
  · split at h
    · simp at h
    · exact decEnter_ok _ _ _ _ _ _ _ rfl h
  · rename_i hm
    refine decEnter_ok _ _ _ _ _ _ _ ?_ h
    cases hmsg : st.msg with
    | none => simp [decPrev, hmsg]
    | some m =>
      have := hwf m hmsg
      simp [decPrev, hmsg, this] at hm

theorem decPrep_err (st : DecState) (segs : List Seg) (store : List Byte) (peek : Bool) (st' : DecState) (e : Err)
    (h : decPrep st segs store peek = .inl (e, st')) : e ≠ .MissingData := by
  unfold decPrep decEnter at h
  simp only at h
  repeat' split at h
  all_goals simp at h
  all_goals (obtain ⟨rfl, _⟩ := h; simp)

theorem decStart_safe (v : Variant) (st : DecState) (peek : Bool) (l : Loc) (store : List Byte) (h : PrepOk store st l) :
    SafeOut store.length (decStart v st peek l) := by
  unfold decStart
  have hl : LSafe store.length st.pos l (store.length - l.r) l.r :=
    ⟨h.pos.symm, by rw [h.hstore], by have := h.r; omega, by simp [h.writes], by simp [h.reads], h.r⟩
  split
  · split
    · exact ⟨by simp, by simp [h.hstore], by simp, by simp, by simp⟩
    · rename_i c hc
      have hlt : l.r < store.length := by
        have : l.r < l.store.length := by
          rcases Nat.lt_or_ge l.r l.store.length with h1 | h1
          · exact h1
          · simp [List.getElem?_eq_none h1] at hc
        rw [h.hstore] at this; exact this
      split
      · exact ⟨by simp, by simp [h.hstore], by simp, by simp [hlt], by simp⟩
      · apply Safe.out
        rw [h.hstore]
        apply decLoop_safe v st peek store.length st.pos
        refine ⟨h.pos.symm, h.hstore ▸ rfl, ?_, by simp [h.writes], ?_, ?_⟩
        · simp only [Loc.r] at *; omega
        · simp only [Loc.r] at *; simp
        · simp only [Loc.r] at *; omega
  · apply Safe.out
    rw [h.hstore]
    exact decLoop_safe v st peek store.length st.pos _ l hl

theorem decodeCobs_safe (v : Variant) (st : DecState) (segs : List Seg) (peek : Bool)
    (hwf : ∀ m, st.msg = some m → m = st.len) :
    SafeOut (flat (if peek then segs.take 1 else segs)).length (decodeCobs v st segs peek) := by
  unfold decodeCobs
  simp only
  generalize (if peek = true then List.take 1 segs else segs) = sg
  split
  · rename_i e st' he
    exact SafeOut.fail _ _ _ (decPrep_err _ _ _ _ _ _ he)
  · rename_i st' l he
    exact decStart_safe v st' peek l _ (decPrep_ok _ _ _ _ _ _ hwf he)


theorem decodeCobsR_safe (v : Variant) (st : DecState) (segs : List Seg) (peek : Bool)
    (hwf : ∀ m, st.msg = some m → m = st.len) :
    SafeOut (flat (if peek then segs.take 1 else segs)).length (decodeCobsR v st segs peek) := by
  have h := decodeCobs_safe v st segs peek hwf
  unfold decodeCobsR
  simp only
  generalize decodeCobs v st segs peek = o at h ⊢
  generalize (flat (if peek = true then List.take 1 segs else segs)).length = total at h ⊢
  by_cases hc : o.ret = .err .MissingData ∧ o.st.ctx ≠ 0
  · rw [if_pos hc]
    have hmd := h.md hc.1
    by_cases h1 : peek = true ∨ o.store.length ≤ o.st.pos + o.st.len
    · rw [if_pos h1]
      exact ⟨by simp, h.len, h.writes, h.reads, by simp⟩
    · rw [if_neg h1, if_pos (by omega)]
      refine ⟨by simp, by simp [h.len], ?_, h.reads, by simp⟩
      intro x hx
      simp only [List.mem_append, List.mem_singleton] at hx
      rcases hx with hx | hx
      · exact h.writes x hx
      · subst hx; exact ⟨by omega, by omega⟩
  · rw [if_neg hc]; exact h

/-- safety facts for the decoder selected by the variant -/
theorem decodeV_safe (v : Variant) (st : DecState) (segs : List Seg) (peek : Bool)
    (hwf : ∀ m, st.msg = some m → m = st.len) :
    SafeOut (flat (if peek then segs.take 1 else segs)).length (decodeV v st segs peek) := by
  unfold decodeV
  cases ht : v.tail
  · simp only [Bool.false_eq_true, if_false]; exact decodeCobs_safe v st segs peek hwf
  · simp only [if_true]; exact decodeCobsR_safe v st segs peek hwf

end Mpt.Codec
