/-
  Op-level semantics of the heap model on plain buffers (C04): every array operation, run on a state
  satisfying the invariant, never faults, preserves the invariant, leaves every other handle's content
  unchanged and changes the content of its own handle as the vector spec says (`Sem`).
-/
import MptModel.Lemmas.Heap
namespace Mpt.Heap
open Mpt

/-- outcome predicate: op on handle `h`, allowed content change `R old new` -/
def Sem {α : Type} (s : State) (h : Nat) (R : Vec.Vec → Vec.Vec → Prop) (r : Out α) : Prop :=
  match r with
  | .fault _ => False
  | .fail s' _ => Inv s' ∧ s'.hs.length = s.hs.length ∧ ∀ h', s'.abs h' = s.abs h'
  | .ok s' _ => Inv s' ∧ s'.hs.length = s.hs.length ∧ R (s.abs h) (s'.abs h) ∧ ∀ h', h' ≠ h → s'.abs h' = s.abs h'

theorem Sem.fail_same {α : Type} {s : State} (inv : Inv s) (h : Nat) (R : Vec.Vec → Vec.Vec → Prop) (e : Fail) :
    Sem (α := α) s h R (.fail s e) := ⟨inv, rfl, fun _ => rfl⟩

theorem take_write_append (d : List Byte) (used : Nat) (bytes : List Byte) (h : used + bytes.length ≤ d.length) :
    (Mem.write d used bytes).take (used + bytes.length) = d.take used ++ bytes := by
  apply List.ext_getElem?
  intro i
  rw [List.getElem?_take, getElem?_write _ _ _ _ h]
  simp only [List.getElem?_append, List.getElem?_take, List.length_take]
  grind

/-- facts about the private buffer after a successful detach to at least `used + k` bytes -/
theorem DetachPost.keeps {s : State} {h : Nat} {x : Buf} {n : Nat} {s2 : State} {nb : Nat}
    (p : DetachPost s h x n s2 nb) (hu : x.used ≤ x.size) (hn : x.used ≤ n) :
    ∃ z, s2.buf? nb = some z ∧ z.ref = 1 ∧ z.immutable = false ∧ n ≤ z.size ∧ z.traits = x.traits ∧
      z.used = x.used ∧ z.content = x.content := by
  obtain ⟨inv2, _, _, _, z, hz, zr, zi, zs, zt, k, hk, zc⟩ := p
  have zu := inv2.used nb z hz
  have cl := content_length x hu
  have zc' : z.content = x.content := by
    rw [zc, List.take_of_length_le]; omega
  refine ⟨z, hz, zr, zi, zs, zt, ?_, zc'⟩
  have := congrArg List.length zc'
  rw [content_length z zu, cl] at this
  exact this

/-- outcome predicate of `ensure` -/
def EnsureSem (s : State) (h : Nat) (x : Buf) (n : Nat) (r : Out Nat) : Prop :=
  match r with
  | .fault _ => False
  | .fail s' _ => Inv s' ∧ s'.hs = s.hs ∧ ∀ h', s'.abs h' = s.abs h'
  | .ok s' nb => DetachPost s h x n s' nb

/-- `ensure` either refuses without a trace or yields a private buffer of at least `n` bytes; when no
    detach is requested the buffer must already be private, mutable and large enough -/
theorem ensure_sem {s : State} (inv : Inv s) {h b : Nat} {x : Buf} (hh : s.handle h = some b)
    (hb : s.buf? b = some x) (need : Bool) (n : Nat)
    (hp : need = false → x.ref < 2 ∧ x.immutable = false ∧ n ≤ x.size) :
    EnsureSem s h x n (ensure s h b need n) := by
  unfold ensure
  cases need with
  | true =>
    simp only [if_true]
    have ds := detach_sem inv hh hb n
    generalize detach s b n = r at ds
    cases r with
    | fault w => exact ds
    | fail s1 e => exact ds
    | ok s1 nb => exact ds
  | false =>
    simp only [Bool.false_eq_true, if_false]
    have c := hp rfl
    have hu := inv.used b x hb
    have hr := inv.ref b x hb
    show DetachPost s h x n s b
    refine ⟨inv, rfl, fun _ _ => rfl, hh, x, hb, by omega, c.2.1, c.2.2, rfl, max n x.used, by omega, ?_⟩
    rw [List.take_of_length_le]
    rw [content_length x hu]; omega

theorem appendAt_sem {s s0 : State} {h nb : Nat} {x : Buf} (bytes : List Byte) (hu : x.used ≤ x.size)
    (xraw : x.traits = none) (absx : s0.abs h = x.content)
    (dp : DetachPost s0 h x (x.used + bytes.length) s nb) :
    Sem s0 h (fun v v' => v' = Vec.append v bytes) (appendAt s nb x.used bytes) := by
  obtain ⟨z, hz, zr, zi, zs, zt, zu, zc⟩ := dp.keeps hu (by omega)
  obtain ⟨inv2, len2, oth2, hh2, _⟩ := dp
  unfold appendAt
  split
  · rename_i l0
    refine ⟨inv2, len2, ?_, oth2⟩
    have : bytes = [] := List.eq_nil_of_length_eq_zero l0
    rw [State.abs_of hh2 hz, absx, zc, this]; simp [Vec.append]
  · rw [hz]
    simp only
    have nf : ¬ x.used + bytes.length > z.size := by omega
    rw [if_neg nf]
    simp only [setUsed]
    have pm := inv2.setBuf_private hh2 hz zr
      { z with data := Mem.write z.data x.used bytes, used := x.used + bytes.length } zr
      (by simp only [Buf.size]; rw [write_length _ _ _ (by simp only [Buf.size] at zs; omega)]; simp only [Buf.size] at zs; omega)
      (by rw [zt, xraw]; exact PlainT.none)
      (by simp [zt, xraw, esize, Nat.mod_one])
    refine ⟨pm.1, by simpa using len2, ?_, ?_⟩
    · rw [pm.2.1, absx]
      simp only [Buf.content, Vec.append]
      rw [take_write_append _ _ _ (by simp only [Buf.size] at zs; omega)]
      have e : z.data.take z.used = x.data.take x.used := zc
      rw [zu] at e
      rw [e]
    · intro h' ne; rw [pm.2.2 h' ne]; exact oth2 h' ne

theorem append_sem {s : State} (inv : Inv s) {h : Nat} (hlt : h < s.hs.length) (bytes : List Byte) :
    Sem s h (fun v v' => v' = Vec.append v bytes) (arrayAppend s h bytes) := by
  unfold arrayAppend
  cases hh : s.handle h with
  | none =>
    simp only
    have hnb : s.buf? s.bufs.length = none := State.buf?_ge_length s _ (Nat.le_refl _)
    have abs0 : s.abs h = [] := State.abs_none hh
    have ret := Inv.retarget (s' := (s.newBuf bytes.length 0).setHandle h (some s.bufs.length)) inv
      (z := State.fresh bytes.length 0 none) hlt hnb (by simp)
      (by intro c; rw [State.buf?_setHandle, State.buf?_newBuf]; simp [hh])
      rfl (by simp [State.fresh]) PlainT.none (by simp [State.fresh])
    have hz : ((s.newBuf bytes.length 0).setHandle h (some s.bufs.length)).buf? s.bufs.length
        = some (State.fresh bytes.length 0 none) := by
      rw [State.buf?_setHandle, State.buf?_newBuf]; simp
    have dp : DetachPost s h (State.fresh bytes.length 0 none) ((State.fresh bytes.length 0 none).used + bytes.length)
        ((s.newBuf bytes.length 0).setHandle h (some s.bufs.length)) s.bufs.length := by
      refine ⟨ret.1, by simp, ret.2.2.2, ret.2.1, _, hz, rfl, ?_, ?_, rfl, bytes.length, ?_, ?_⟩
      · simp [Buf.immutable, State.fresh]
      · simp only [State.fresh, Buf.size, List.length_replicate]; have := le_allocSize bytes.length; omega
      · simp [State.fresh]
      · simp [State.fresh, Buf.content]
    have := appendAt_sem (s0 := s) (h := h) bytes (x := State.fresh bytes.length 0 none) (by simp [State.fresh]) rfl
      (by rw [abs0]; simp [State.fresh, Buf.content]) dp
    exact this
  | some b =>
    simp only
    obtain ⟨x, hb⟩ := inv.live h b hh
    rw [hb]
    simp only
    have hu := inv.used b x hb
    have hr := inv.ref b x hb
    have absx : s.abs h = x.content := State.abs_of hh hb
    split
    · exact Sem.fail_same inv _ _ _
    · rename_i raw
      have xraw : x.traits = none := by simpa using raw
      by_cases l0 : bytes.length = 0
      · have : bytes = [] := List.eq_nil_of_length_eq_zero l0
        subst this
        simp [ensure, appendAt, Sem, Vec.append, inv]
      · have es := ensure_sem inv hh hb
          (decide (bytes.length > x.size - x.used ∨ (bytes.length ≠ 0 ∧ (x.shared ∨ x.immutable)))) (x.used + bytes.length)
          (by
            intro hn
            simp only [decide_eq_false_iff_not, not_or, not_and] at hn
            have c := hn.2 l0
            simp only [Buf.shared, decide_eq_true_eq, Bool.not_eq_true] at c
            exact ⟨by omega, c.2, by omega⟩)
        generalize ensure s h b _ (x.used + bytes.length) = r at es
        cases r with
        | fault w => exact es
        | fail s1 e => exact ⟨es.1, by rw [es.2.1], es.2.2⟩
        | ok s1 nb => exact appendAt_sem bytes hu xraw absx es

theorem DetachPost.abs_same {s : State} {h : Nat} {x : Buf} {n : Nat} {s2 : State} {nb : Nat}
    (p : DetachPost s h x n s2 nb) (hu : x.used ≤ x.size) (hn : x.used ≤ n) (absx : s.abs h = x.content) :
    ∀ h', s2.abs h' = s.abs h' := by
  obtain ⟨z, hz, _, _, _, _, _, zc⟩ := p.keeps hu hn
  intro h'
  by_cases e : h' = h
  · subst e; rw [State.abs_of p.2.2.2.1 hz, zc, absx]
  · exact p.2.2.1 h' e

theorem Sem.of_private_fail {α : Type} {s : State} {h : Nat} {x : Buf} {n : Nat} {s2 : State} {nb : Nat}
    (R : Vec.Vec → Vec.Vec → Prop) (p : DetachPost s h x n s2 nb) (hu : x.used ≤ x.size) (hn : x.used ≤ n)
    (absx : s.abs h = x.content) (e : Fail) : Sem (α := α) s h R (.fail s2 e) :=
  ⟨p.1, p.2.1, p.abs_same hu hn absx⟩

theorem setPlain_content (z : Buf) (esz pos : Nat) (bytes : List Byte) (hu : z.used ≤ z.size)
    (hal : z.used % esz = 0) (fit : pos + bytes.length ≤ z.size) :
    (setPlain z esz pos bytes).content = Vec.write z.content pos bytes ∧
    (setPlain z esz pos bytes).used ≤ (setPlain z esz pos bytes).size ∧
    (setPlain z esz pos bytes).used = max z.used (pos + bytes.length) := by
  have len1 : (if z.used < pos then Mem.write z.data z.used (zeros (pos - z.used)) else z.data).length = z.data.length := by
    split
    · rw [write_length _ _ _ (by simp only [zeros_length, Buf.size] at hu fit ⊢; omega)]
    · rfl
  unfold setPlain
  simp only [hal, Nat.sub_zero, Buf.content, Buf.size]
  refine ⟨take_write_eq z.data z.used pos bytes hu fit, ?_, trivial⟩
  rw [write_length _ _ _ (by rw [len1]; exact fit), len1]
  simp only [Buf.size] at hu fit; omega

/-- `mpt_buffer_set` on the private buffer obtained by `ensure` -/
theorem bufferSet_private_sem {s s2 : State} {h nb : Nat} {x : Buf} {n : Nat} (pos : Nat) (bytes : List Byte) (hasSrc : Bool)
    (hu : x.used ≤ x.size) (hal : x.used % esize x.traits = 0) (absx : s.abs h = x.content)
    (dp : DetachPost s h x n s2 nb) (hn : max x.used (pos + bytes.length) ≤ n) :
    Sem s h (fun v v' => v' = Vec.write v pos bytes) (bufferSet s2 nb x.traits pos bytes hasSrc) := by
  obtain ⟨z, hz, zr, zi, zs, zt, zu, zc⟩ := dp.keeps hu (by omega)
  have inv2 := dp.1
  have zused := inv2.used nb z hz
  have zp := inv2.plain nb z hz
  rw [← zt, bufferSet_plain hz zp]
  have fit : ¬ pos + bytes.length > z.size := by omega
  rw [if_neg fit]
  have okcase : ∀ esz, esz = esize z.traits → (pos + bytes.length) % esz = 0 → ∀ v : Int,
      Sem s h (fun v v' => v' = Vec.write v pos bytes) (Out.ok (s2.setBuf nb (setPlain z esz pos bytes)) v) := by
    intro esz he hmod v
    have zal : z.used % esz = 0 := by rw [he, zu, zt]; exact hal
    have sc := setPlain_content z esz pos bytes zused zal (by omega)
    have pm := inv2.setBuf_private dp.2.2.2.1 hz zr (setPlain z esz pos bytes) zr sc.2.1 zp
      (by
        show (setPlain z esz pos bytes).used % esize z.traits = 0
        rw [sc.2.2, ← he, Nat.max_def]; split <;> assumption)
    refine ⟨pm.1, by simpa using dp.2.1, ?_, ?_⟩
    · rw [pm.2.1, sc.1, zc, absx]
    · intro h' ne; rw [pm.2.2 h' ne]; exact dp.2.2.1 h' ne
  cases ht : z.traits with
  | none =>
    simp only
    exact okcase 1 (by rw [ht]; rfl) (Nat.mod_one _) 0
  | some t =>
    simp only
    split
    · exact Sem.of_private_fail _ dp hu (by omega) absx _
    · rename_i c
      simp only [not_or, Decidable.not_not] at c
      exact okcase t.size (by rw [ht]; rfl) (by rw [Nat.add_mod, c.2.1, c.2.2]; simp) _

theorem bset_sem {s : State} (inv : Inv s) {h : Nat} (pos : Nat) (bytes : List Byte) (hasSrc : Bool) :
    Sem s h (fun v v' => v' = Vec.write v pos bytes) (bsetOp s h pos bytes hasSrc) := by
  unfold bsetOp
  cases hh : s.handle h with
  | none => exact Sem.fail_same inv _ _ _
  | some b =>
    simp only
    obtain ⟨x, hb⟩ := inv.live h b hh
    rw [hb]
    simp only
    have es := ensure_sem inv hh hb true (max x.used (pos + bytes.length)) (by intro e; cases e)
    generalize ensure s h b true _ = r at es
    cases r with
    | fault w => exact es
    | fail s1 e => exact ⟨es.1, by rw [es.2.1], es.2.2⟩
    | ok s1 nb => exact bufferSet_private_sem pos bytes hasSrc (inv.used b x hb) (inv.aligned b x hb) (State.abs_of hh hb) es (Nat.le_refl _)


/-- effect of `mpt_buffer_cut` on a plain buffer: remove `[off, off+len)` -/
def cutPlain (x : Buf) (off len : Nat) : Buf :=
  { x with data := (if x.used - len - off ≠ 0 then Mem.move x.data off (off + len) (x.used - len - off) else x.data),
           used := off + (x.used - len - off) }

theorem bufferCut_plain {s : State} {b : Nat} {x : Buf} (hb : s.buf? b = some x) (hp : PlainT x.traits) (off len : Nat) :
    (∃ e, bufferCut s b off len = .fail s e) ∨
    (∃ len', (len' = if len = 0 then x.used - off else len) ∧ off + len' ≤ x.used ∧ (len = 0 → off ≤ x.used) ∧
      (off % esize x.traits = 0 ∧ len' % esize x.traits = 0) ∧
      bufferCut s b off len = .ok (s.setBuf b (cutPlain x off len')) (off + (x.used - len' - off))) := by
  unfold bufferCut
  rw [hb]
  simp only
  split
  · exact Or.inl ⟨_, rfl⟩
  · rename_i c1
    split
    · exact Or.inl ⟨_, rfl⟩
    · rename_i c2
      generalize hl : (if len = 0 then x.used - off else len) = len'
      split
      · exact Or.inl ⟨_, rfl⟩
      · rename_i c3
        have fit : off + len' ≤ x.used := by
          rw [← hl]; split
          · simp only [not_and, Nat.not_lt] at c2; rename_i l0; have := c2 l0; omega
          · rw [← hl] at c3; rename_i l0; simp only [l0, if_false] at c3; omega
        have o0 : len = 0 → off ≤ x.used := by
          intro l0; simp only [not_and, Nat.not_lt] at c2; exact c2 l0
        cases ht : x.traits with
        | none =>
          simp only
          refine Or.inr ⟨len', rfl, fit, o0, ⟨by simp [esize, Nat.mod_one], by simp [esize, Nat.mod_one]⟩, ?_⟩
          rfl
        | some t =>
          simp only
          split
          · exact Or.inl ⟨_, rfl⟩
          · rename_i c4
            have pt := hp t ht
            simp only [pt.2, Option.isSome_none, Bool.false_eq_true, if_false, hb]
            simp only [not_or, Decidable.not_not] at c4
            refine Or.inr ⟨len', rfl, fit, o0, ⟨by simpa [esize] using c4.2.1, by simpa [esize] using c4.2.2⟩, ?_⟩
            rfl

theorem cutPlain_content (x : Buf) (off len : Nat) (hu : x.used ≤ x.size) (fit : off + len ≤ x.used) :
    (cutPlain x off len).content = x.content.take off ++ x.content.drop (off + len) ∧
    (cutPlain x off len).used ≤ (cutPlain x off len).size ∧ (cutPlain x off len).used = x.used - len := by
  have len1 : (if x.used - len - off ≠ 0 then Mem.move x.data off (off + len) (x.used - len - off) else x.data).length = x.data.length := by
    split
    · rw [move_length _ _ _ _ (by simp only [Buf.size] at hu; omega) (by simp only [Buf.size] at hu; omega)]
    · rfl
  unfold cutPlain
  simp only [Buf.content, Buf.size]
  refine ⟨?_, by rw [len1]; simp only [Buf.size] at hu; omega, by omega⟩
  apply List.ext_getElem?
  intro i
  split
  · rw [List.getElem?_take, getElem?_move _ _ _ _ _ (by simp only [Buf.size] at hu; omega) (by simp only [Buf.size] at hu; omega)]
    simp only [List.getElem?_append, List.getElem?_take, List.getElem?_drop, List.length_take]
    simp only [Buf.size] at hu
    grind
  · simp only [List.getElem?_append, List.getElem?_take, List.getElem?_drop, List.length_take]
    simp only [Buf.size] at hu
    grind

theorem sub_mod_zero {a b k : Nat} (ha : a % k = 0) (hb : b % k = 0) : (a - b) % k = 0 := by
  have h1 := Nat.dvd_of_mod_eq_zero ha
  have h2 := Nat.dvd_of_mod_eq_zero hb
  exact Nat.mod_eq_zero_of_dvd (Nat.dvd_sub h1 h2)

theorem cut_sem {s : State} (inv : Inv s) {h : Nat} (off len : Nat) :
    Sem s h (fun v v' => Vec.cut v off len = some v') (cutOp s h off len) := by
  unfold cutOp
  cases hh : s.handle h with
  | none => exact Sem.fail_same inv _ _ _
  | some b =>
    simp only
    obtain ⟨x, hb⟩ := inv.live h b hh
    rw [hb]
    simp only
    have hu := inv.used b x hb
    have hal := inv.aligned b x hb
    have absx : s.abs h = x.content := State.abs_of hh hb
    have es := ensure_sem inv hh hb true x.used (by intro e; cases e)
    generalize ensure s h b true _ = r at es
    cases r with
    | fault w => exact es
    | fail s1 e => exact ⟨es.1, by rw [es.2.1], es.2.2⟩
    | ok s1 nb =>
      simp only
      have dp : DetachPost s h x x.used s1 nb := es
      obtain ⟨z, hz, zr, zi, zs, zt, zu, zc⟩ := dp.keeps hu (Nat.le_refl _)
      have inv2 := dp.1
      have zused := inv2.used nb z hz
      have zp := inv2.plain nb z hz
      rcases bufferCut_plain hz zp off len with ⟨e, he⟩ | ⟨len', hl, fit, o0, al, he⟩
      · rw [he]; exact Sem.of_private_fail _ dp hu (Nat.le_refl _) absx _
      · rw [he]
        have cc := cutPlain_content z off len' zused fit
        have pm := inv2.setBuf_private dp.2.2.2.1 hz zr (cutPlain z off len') zr cc.2.1 zp
          (by
            show (cutPlain z off len').used % esize z.traits = 0
            rw [cc.2.2]
            exact sub_mod_zero (by rw [zu, zt]; exact hal) al.2)
        refine ⟨pm.1, by simpa using dp.2.1, ?_, ?_⟩
        · rw [pm.2.1, cc.1, zc, absx]
          have cl := content_length x hu
          show Vec.cut x.content off len = some _
          unfold Vec.cut
          rw [cl]
          by_cases l0 : len = 0
          · simp only [l0, if_true] at hl ⊢
            rw [if_pos (by rw [← zu]; exact o0 l0)]
            have : off + len' = x.used := by rw [hl, zu]; have := o0 l0; omega
            rw [this, List.drop_of_length_le (by omega)]; simp
          · simp only [l0, if_false] at hl ⊢
            rw [if_pos (by rw [← zu, ← hl]; exact fit), hl]
        · intro h' ne; rw [pm.2.2 h' ne]; exact dp.2.2.1 h' ne


end Mpt.Heap
