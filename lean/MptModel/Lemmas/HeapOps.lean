/-
  Op-level semantics of the heap model on plain buffers (C04): every array operation, run on a state
  satisfying the invariant, never faults, preserves the invariant, leaves every other handle's content
  unchanged and changes the content of its own handle as the vector spec says (`Sem`).
-/
import MptModel.Lemmas.Heap
namespace Mpt.Heap
open Mpt

/-- outcome predicate: op on handle `h`, allowed content change `R old new` -/
def Sem {α : Type} (s : State) (h : Nat) (R : Vec.Vec → Vec.Vec → Prop) (r : Out α) : Prop :=
  match r with
  | .fault _ => False
  | .fail s' _ => Inv s' ∧ s'.hs.length = s.hs.length ∧ ∀ h', s'.abs h' = s.abs h'
  | .ok s' _ => Inv s' ∧ s'.hs.length = s.hs.length ∧ R (s.abs h) (s'.abs h) ∧ ∀ h', h' ≠ h → s'.abs h' = s.abs h'

theorem Sem.fail_same {α : Type} {s : State} (inv : Inv s) (h : Nat) (R : Vec.Vec → Vec.Vec → Prop) (e : Fail) :
    Sem (α := α) s h R (.fail s e) := ⟨inv, rfl, fun _ => rfl⟩

theorem take_write_append (d : List Byte) (used : Nat) (bytes : List Byte) (h : used + bytes.length ≤ d.length) :
    (Mem.write d used bytes).take (used + bytes.length) = d.take used ++ bytes := by
  apply List.ext_getElem?
  intro i
  rw [List.getElem?_take, getElem?_write _ _ _ _ h]
  simp only [List.getElem?_append, List.getElem?_take, List.length_take]
  grind

/-- facts about the private buffer after a successful detach to at least `used + k` bytes -/
theorem DetachPost.keeps {s : State} {h : Nat} {x : Buf} {n : Nat} {s2 : State} {nb : Nat}
    (p : DetachPost s h x n s2 nb) (hu : x.used ≤ x.size) (hn : x.used ≤ n) :
    ∃ z, s2.buf? nb = some z ∧ z.ref = 1 ∧ z.immutable = false ∧ n ≤ z.size ∧ z.traits = x.traits ∧
      z.used = x.used ∧ z.content = x.content := by
  obtain ⟨inv2, _, _, _, z, hz, zr, zi, zs, zt, k, hk, zc⟩ := p
  have zu := inv2.used nb z hz
  have cl := content_length x hu
  have zc' : z.content = x.content := by
    rw [zc, List.take_of_length_le]; omega
  refine ⟨z, hz, zr, zi, zs, zt, ?_, zc'⟩
  have := congrArg List.length zc'
  rw [content_length z zu, cl] at this
  exact this

/-- outcome predicate of `ensure` -/
def EnsureSem (s : State) (h : Nat) (x : Buf) (n : Nat) (r : Out Nat) : Prop :=
  match r with
  | .fault _ => False
  | .fail s' _ => Inv s' ∧ s'.hs = s.hs ∧ ∀ h', s'.abs h' = s.abs h'
  | .ok s' nb => DetachPost s h x n s' nb

/-- `ensure` either refuses without a trace or yields a private buffer of at least `n` bytes; when no
    detach is requested the buffer must already be private, mutable and large enough -/
theorem ensure_sem {s : State} (inv : Inv s) {h b : Nat} {x : Buf} (hh : s.handle h = some b)
    (hb : s.buf? b = some x) (need : Bool) (n : Nat)
    (hp : need = false → x.ref < 2 ∧ x.immutable = false ∧ n ≤ x.size) :
    EnsureSem s h x n (ensure s h b need n) := by
  unfold ensure
  cases need with
  | true =>
    simp only [if_true]
    have ds := detach_sem inv hh hb n
    generalize detach s b n = r at ds
    cases r with
    | fault w => exact ds
    | fail s1 e => exact ds
    | ok s1 nb => exact ds
  | false =>
    simp only [Bool.false_eq_true, if_false]
    have c := hp rfl
    have hu := inv.used b x hb
    have hr := inv.ref b x hb
    show DetachPost s h x n s b
    refine ⟨inv, rfl, fun _ _ => rfl, hh, x, hb, by omega, c.2.1, c.2.2, rfl, max n x.used, by omega, ?_⟩
    rw [List.take_of_length_le]
    rw [content_length x hu]; omega

theorem appendAt_sem {s s0 : State} {h nb : Nat} {x : Buf} (bytes : List Byte) (hu : x.used ≤ x.size)
    (xraw : x.traits = none) (absx : s0.abs h = x.content)
    (dp : DetachPost s0 h x (x.used + bytes.length) s nb) :
    Sem s0 h (fun v v' => v' = Vec.append v bytes) (appendAt s nb x.used bytes) := by
  obtain ⟨z, hz, zr, zi, zs, zt, zu, zc⟩ := dp.keeps hu (by omega)
  obtain ⟨inv2, len2, oth2, hh2, _⟩ := dp
  unfold appendAt
  split
  · rename_i l0
    refine ⟨inv2, len2, ?_, oth2⟩
    have : bytes = [] := List.eq_nil_of_length_eq_zero l0
    rw [State.abs_of hh2 hz, absx, zc, this]; simp [Vec.append]
  · rw [hz]
    simp only
    have nf : ¬ x.used + bytes.length > z.size := by omega
    rw [if_neg nf]
    simp only [setUsed]
    have pm := inv2.setBuf_private hh2 hz zr
      { z with data := Mem.write z.data x.used bytes, used := x.used + bytes.length } zr
      (by simp only [Buf.size]; rw [write_length _ _ _ (by simp only [Buf.size] at zs; omega)]; simp only [Buf.size] at zs; omega)
      (by rw [zt, xraw]; exact PlainT.none)
      (by simp [zt, xraw, esize, Nat.mod_one])
    refine ⟨pm.1, by simpa using len2, ?_, ?_⟩
    · rw [pm.2.1, absx]
      simp only [Buf.content, Vec.append]
      rw [take_write_append _ _ _ (by simp only [Buf.size] at zs; omega)]
      have e : z.data.take z.used = x.data.take x.used := zc
      rw [zu] at e
      rw [e]
    · intro h' ne; rw [pm.2.2 h' ne]; exact oth2 h' ne

theorem append_sem {s : State} (inv : Inv s) {h : Nat} (hlt : h < s.hs.length) (bytes : List Byte) :
    Sem s h (fun v v' => v' = Vec.append v bytes) (arrayAppend s h bytes) := by
  unfold arrayAppend
  cases hh : s.handle h with
  | none =>
    simp only
    have hnb : s.buf? s.bufs.length = none := State.buf?_ge_length s _ (Nat.le_refl _)
    have abs0 : s.abs h = [] := State.abs_none hh
    have ret := Inv.retarget (s' := (s.newBuf bytes.length 0).setHandle h (some s.bufs.length)) inv
      (z := State.fresh bytes.length 0 none) hlt hnb (by simp)
      (by intro c; rw [State.buf?_setHandle, State.buf?_newBuf]; simp [hh])
      rfl (by simp [State.fresh]) PlainT.none (by simp [State.fresh])
    have hz : ((s.newBuf bytes.length 0).setHandle h (some s.bufs.length)).buf? s.bufs.length
        = some (State.fresh bytes.length 0 none) := by
      rw [State.buf?_setHandle, State.buf?_newBuf]; simp
    have dp : DetachPost s h (State.fresh bytes.length 0 none) ((State.fresh bytes.length 0 none).used + bytes.length)
        ((s.newBuf bytes.length 0).setHandle h (some s.bufs.length)) s.bufs.length := by
      refine ⟨ret.1, by simp, ret.2.2.2, ret.2.1, _, hz, rfl, ?_, ?_, rfl, bytes.length, ?_, ?_⟩
      · simp [Buf.immutable, State.fresh]
      · simp only [State.fresh, Buf.size, List.length_replicate]; have := le_allocSize bytes.length; omega
      · simp [State.fresh]
      · simp [State.fresh, Buf.content]
    have := appendAt_sem (s0 := s) (h := h) bytes (x := State.fresh bytes.length 0 none) (by simp [State.fresh]) rfl
      (by rw [abs0]; simp [State.fresh, Buf.content]) dp
    exact this
  | some b =>
    simp only
    obtain ⟨x, hb⟩ := inv.live h b hh
    rw [hb]
    simp only
    have hu := inv.used b x hb
    have hr := inv.ref b x hb
    have absx : s.abs h = x.content := State.abs_of hh hb
    split
    · exact Sem.fail_same inv _ _ _
    · rename_i raw
      have xraw : x.traits = none := by simpa using raw
      by_cases l0 : bytes.length = 0
      · have : bytes = [] := List.eq_nil_of_length_eq_zero l0
        subst this
        simp [ensure, appendAt, Sem, Vec.append, inv]
      · have es := ensure_sem inv hh hb
          (decide (bytes.length > x.size - x.used ∨ (bytes.length ≠ 0 ∧ (x.shared ∨ x.immutable)))) (x.used + bytes.length)
          (by
            intro hn
            simp only [decide_eq_false_iff_not, not_or, not_and] at hn
            have c := hn.2 l0
            simp only [Buf.shared, decide_eq_true_eq, Bool.not_eq_true] at c
            exact ⟨by omega, c.2, by omega⟩)
        generalize ensure s h b _ (x.used + bytes.length) = r at es
        cases r with
        | fault w => exact es
        | fail s1 e => exact ⟨es.1, by rw [es.2.1], es.2.2⟩
        | ok s1 nb => exact appendAt_sem bytes hu xraw absx es

theorem DetachPost.abs_same {s : State} {h : Nat} {x : Buf} {n : Nat} {s2 : State} {nb : Nat}
    (p : DetachPost s h x n s2 nb) (hu : x.used ≤ x.size) (hn : x.used ≤ n) (absx : s.abs h = x.content) :
    ∀ h', s2.abs h' = s.abs h' := by
  obtain ⟨z, hz, _, _, _, _, _, zc⟩ := p.keeps hu hn
  intro h'
  by_cases e : h' = h
  · subst e; rw [State.abs_of p.2.2.2.1 hz, zc, absx]
  · exact p.2.2.1 h' e

theorem Sem.of_private_fail {α : Type} {s : State} {h : Nat} {x : Buf} {n : Nat} {s2 : State} {nb : Nat}
    (R : Vec.Vec → Vec.Vec → Prop) (p : DetachPost s h x n s2 nb) (hu : x.used ≤ x.size) (hn : x.used ≤ n)
    (absx : s.abs h = x.content) (e : Fail) : Sem (α := α) s h R (.fail s2 e) :=
  ⟨p.1, p.2.1, p.abs_same hu hn absx⟩

theorem setPlain_content (z : Buf) (esz pos : Nat) (bytes : List Byte) (hu : z.used ≤ z.size)
    (hal : z.used % esz = 0) (fit : pos + bytes.length ≤ z.size) :
    (setPlain z esz pos bytes).content = Vec.write z.content pos bytes ∧
    (setPlain z esz pos bytes).used ≤ (setPlain z esz pos bytes).size ∧
    (setPlain z esz pos bytes).used = max z.used (pos + bytes.length) := by
  have len1 : (if z.used < pos then Mem.write z.data z.used (zeros (pos - z.used)) else z.data).length = z.data.length := by
    split
    · rw [write_length _ _ _ (by simp only [zeros_length, Buf.size] at hu fit ⊢; omega)]
    · rfl
  unfold setPlain
  simp only [hal, Nat.sub_zero, Buf.content, Buf.size]
  refine ⟨take_write_eq z.data z.used pos bytes hu fit, ?_, trivial⟩
  rw [write_length _ _ _ (by rw [len1]; exact fit), len1]
  simp only [Buf.size] at hu fit; omega

/-- `mpt_buffer_set` on the private buffer obtained by `ensure` -/
theorem bufferSet_private_sem {s s2 : State} {h nb : Nat} {x : Buf} {n : Nat} (pos : Nat) (bytes : List Byte) (hasSrc : Bool)
    (hu : x.used ≤ x.size) (hal : x.used % esize x.traits = 0) (absx : s.abs h = x.content)
    (dp : DetachPost s h x n s2 nb) (hn : max x.used (pos + bytes.length) ≤ n) :
    Sem s h (fun v v' => v' = Vec.write v pos bytes) (bufferSet s2 nb x.traits pos bytes hasSrc) := by
  obtain ⟨z, hz, zr, zi, zs, zt, zu, zc⟩ := dp.keeps hu (by omega)
  have inv2 := dp.1
  have zused := inv2.used nb z hz
  have zp := inv2.plain nb z hz
  rw [← zt, bufferSet_plain hz zp]
  have fit : ¬ pos + bytes.length > z.size := by omega
  rw [if_neg fit]
  have okcase : ∀ esz, esz = esize z.traits → (pos + bytes.length) % esz = 0 → ∀ v : Int,
      Sem s h (fun v v' => v' = Vec.write v pos bytes) (Out.ok (s2.setBuf nb (setPlain z esz pos bytes)) v) := by
    intro esz he hmod v
    have zal : z.used % esz = 0 := by rw [he, zu, zt]; exact hal
    have sc := setPlain_content z esz pos bytes zused zal (by omega)
    have pm := inv2.setBuf_private dp.2.2.2.1 hz zr (setPlain z esz pos bytes) zr sc.2.1 zp
      (by
        show (setPlain z esz pos bytes).used % esize z.traits = 0
        rw [sc.2.2, ← he, Nat.max_def]; split <;> assumption)
    refine ⟨pm.1, by simpa using dp.2.1, ?_, ?_⟩
    · rw [pm.2.1, sc.1, zc, absx]
    · intro h' ne; rw [pm.2.2 h' ne]; exact dp.2.2.1 h' ne
  cases ht : z.traits with
  | none =>
    simp only
    exact okcase 1 (by rw [ht]; rfl) (Nat.mod_one _) 0
  | some t =>
    simp only
    split
    · exact Sem.of_private_fail _ dp hu (by omega) absx _
    · rename_i c
      simp only [not_or, Decidable.not_not] at c
      exact okcase t.size (by rw [ht]; rfl) (by rw [Nat.add_mod, c.2.1, c.2.2]; simp) _

theorem bset_sem {s : State} (inv : Inv s) {h : Nat} (pos : Nat) (bytes : List Byte) (hasSrc : Bool) :
    Sem s h (fun v v' => v' = Vec.write v pos bytes) (bsetOp s h pos bytes hasSrc) := by
  unfold bsetOp
  cases hh : s.handle h with
  | none => exact Sem.fail_same inv _ _ _
  | some b =>
    simp only
    obtain ⟨x, hb⟩ := inv.live h b hh
    rw [hb]
    simp only
    have es := ensure_sem inv hh hb true (max x.used (pos + bytes.length)) (by intro e; cases e)
    generalize ensure s h b true _ = r at es
    cases r with
    | fault w => exact es
    | fail s1 e => exact ⟨es.1, by rw [es.2.1], es.2.2⟩
    | ok s1 nb => exact bufferSet_private_sem pos bytes hasSrc (inv.used b x hb) (inv.aligned b x hb) (State.abs_of hh hb) es (Nat.le_refl _)


/-- effect of `mpt_buffer_cut` on a plain buffer: remove `[off, off+len)` -/
def cutPlain (x : Buf) (off len : Nat) : Buf :=
  { x with data := (if x.used - len - off ≠ 0 then Mem.move x.data off (off + len) (x.used - len - off) else x.data),
           used := off + (x.used - len - off) }

theorem bufferCut_plain {s : State} {b : Nat} {x : Buf} (hb : s.buf? b = some x) (hp : PlainT x.traits) (off len : Nat) :
    (∃ e, bufferCut s b off len = .fail s e) ∨
    (∃ len', (len' = if len = 0 then x.used - off else len) ∧ off + len' ≤ x.used ∧ (len = 0 → off ≤ x.used) ∧
      (off % esize x.traits = 0 ∧ len' % esize x.traits = 0) ∧
      bufferCut s b off len = .ok (s.setBuf b (cutPlain x off len')) (off + (x.used - len' - off))) := by
  unfold bufferCut
  rw [hb]
  simp only
  split
  · exact Or.inl ⟨_, rfl⟩
  · rename_i c1
    split
    · exact Or.inl ⟨_, rfl⟩
    · rename_i c2
      generalize hl : (if len = 0 then x.used - off else len) = len'
      split
      · exact Or.inl ⟨_, rfl⟩
      · rename_i c3
        have fit : off + len' ≤ x.used := by
          rw [← hl]; split
          · simp only [not_and, Nat.not_lt] at c2; rename_i l0; have := c2 l0; omega
          · rw [← hl] at c3; rename_i l0; simp only [l0, if_false] at c3; omega
        have o0 : len = 0 → off ≤ x.used := by
          intro l0; simp only [not_and, Nat.not_lt] at c2; exact c2 l0
        cases ht : x.traits with
        | none =>
          simp only
          refine Or.inr ⟨len', rfl, fit, o0, ⟨by simp [esize, Nat.mod_one], by simp [esize, Nat.mod_one]⟩, ?_⟩
          rfl
        | some t =>
          simp only
          split
          · exact Or.inl ⟨_, rfl⟩
          · rename_i c4
            have pt := hp t ht
            simp only [pt.2, Option.isSome_none, Bool.false_eq_true, if_false, hb]
            simp only [not_or, Decidable.not_not] at c4
            refine Or.inr ⟨len', rfl, fit, o0, ⟨by simpa [esize] using c4.2.1, by simpa [esize] using c4.2.2⟩, ?_⟩
            rfl

theorem cutPlain_content (x : Buf) (off len : Nat) (hu : x.used ≤ x.size) (fit : off + len ≤ x.used) :
    (cutPlain x off len).content = x.content.take off ++ x.content.drop (off + len) ∧
    (cutPlain x off len).used ≤ (cutPlain x off len).size ∧ (cutPlain x off len).used = x.used - len := by
  have len1 : (if x.used - len - off ≠ 0 then Mem.move x.data off (off + len) (x.used - len - off) else x.data).length = x.data.length := by
    split
    · rw [move_length _ _ _ _ (by simp only [Buf.size] at hu; omega) (by simp only [Buf.size] at hu; omega)]
    · rfl
  unfold cutPlain
  simp only [Buf.content, Buf.size]
  refine ⟨?_, by rw [len1]; simp only [Buf.size] at hu; omega, by omega⟩
  apply List.ext_getElem?
  intro i
  split
  · rw [List.getElem?_take, getElem?_move _ _ _ _ _ (by simp only [Buf.size] at hu; omega) (by simp only [Buf.size] at hu; omega)]
    simp only [List.getElem?_append, List.getElem?_take, List.getElem?_drop, List.length_take]
    simp only [Buf.size] at hu
    grind
  · simp only [List.getElem?_append, List.getElem?_take, List.getElem?_drop, List.length_take]
    simp only [Buf.size] at hu
    grind

theorem sub_mod_zero {a b k : Nat} (ha : a % k = 0) (hb : b % k = 0) : (a - b) % k = 0 := by
  have h1 := Nat.dvd_of_mod_eq_zero ha
  have h2 := Nat.dvd_of_mod_eq_zero hb
  exact Nat.mod_eq_zero_of_dvd (Nat.dvd_sub h1 h2)

theorem cut_sem {s : State} (inv : Inv s) {h : Nat} (off len : Nat) :
    Sem s h (fun v v' => Vec.cut v off len = some v') (cutOp s h off len) := by
  unfold cutOp
  cases hh : s.handle h with
  | none => exact Sem.fail_same inv _ _ _
  | some b =>
    simp only
    obtain ⟨x, hb⟩ := inv.live h b hh
    rw [hb]
    simp only
    have hu := inv.used b x hb
    have hal := inv.aligned b x hb
    have absx : s.abs h = x.content := State.abs_of hh hb
    have es := ensure_sem inv hh hb true x.used (by intro e; cases e)
    generalize ensure s h b true _ = r at es
    cases r with
    | fault w => exact es
    | fail s1 e => exact ⟨es.1, by rw [es.2.1], es.2.2⟩
    | ok s1 nb =>
      simp only
      have dp : DetachPost s h x x.used s1 nb := es
      obtain ⟨z, hz, zr, zi, zs, zt, zu, zc⟩ := dp.keeps hu (Nat.le_refl _)
      have inv2 := dp.1
      have zused := inv2.used nb z hz
      have zp := inv2.plain nb z hz
      rcases bufferCut_plain hz zp off len with ⟨e, he⟩ | ⟨len', hl, fit, o0, al, he⟩
      · rw [he]; exact Sem.of_private_fail _ dp hu (Nat.le_refl _) absx _
      · rw [he]
        have cc := cutPlain_content z off len' zused fit
        have pm := inv2.setBuf_private dp.2.2.2.1 hz zr (cutPlain z off len') zr cc.2.1 zp
          (by
            show (cutPlain z off len').used % esize z.traits = 0
            rw [cc.2.2]
            exact sub_mod_zero (by rw [zu, zt]; exact hal) al.2)
        refine ⟨pm.1, by simpa using dp.2.1, ?_, ?_⟩
        · rw [pm.2.1, cc.1, zc, absx]
          have cl := content_length x hu
          show Vec.cut x.content off len = some _
          unfold Vec.cut
          rw [cl]
          by_cases l0 : len = 0
          · simp only [l0, if_true] at hl ⊢
            rw [if_pos (by rw [← zu]; exact o0 l0)]
            have : off + len' = x.used := by rw [hl, zu]; have := o0 l0; omega
            rw [this, List.drop_of_length_le (by omega)]; simp
          · simp only [l0, if_false] at hl ⊢
            rw [if_pos (by rw [← zu, ← hl]; exact fit), hl]
        · intro h' ne; rw [pm.2.2 h' ne]; exact dp.2.2.1 h' ne



/-- effect of `mpt_buffer_insert` on a plain buffer -/
def insPlain (x : Buf) (pos len : Nat) : Buf :=
  { x with
    data :=
      (if pos > x.used then
        Mem.write (if x.used - pos ≠ 0 then Mem.move x.data (pos + len) pos (x.used - pos) else x.data)
          x.used (zeros (pos - x.used))
       else (if x.used - pos ≠ 0 then Mem.move x.data (pos + len) pos (x.used - pos) else x.data)),
    used := max x.used pos + len }

theorem bufferInsert_plain {s : State} {b : Nat} {x : Buf} (hb : s.buf? b = some x) (hp : PlainT x.traits) (pos len : Nat) :
    (∃ e, bufferInsert s b pos len = .fail s e) ∨
    (max x.used pos + len = 0 ∧ bufferInsert s b pos len = .ok s 0) ∨
    (max x.used pos + len ≤ x.size ∧ x.immutable = false ∧
      (pos % esize x.traits = 0 ∧ len % esize x.traits = 0) ∧
      bufferInsert s b pos len = .ok (s.setBuf b (insPlain x pos len)) pos) := by
  unfold bufferInsert
  rw [hb]
  simp only
  by_cases t0 : max x.used pos + len = 0
  · rw [if_pos t0]; exact Or.inr (Or.inl ⟨t0, rfl⟩)
  · rw [if_neg t0]
    by_cases fit : max x.used pos + len > x.size
    · rw [if_pos fit]; exact Or.inl ⟨_, rfl⟩
    · rw [if_neg fit]
      by_cases imm : x.immutable = true
      · rw [if_pos imm]; exact Or.inl ⟨_, rfl⟩
      · rw [if_neg imm]
        have imm' : x.immutable = false := by simpa using imm
        cases ht : x.traits with
        | none =>
          simp only
          exact Or.inr (Or.inr ⟨by omega, imm', ⟨by simp [esize, Nat.mod_one], by simp [esize, Nat.mod_one]⟩, rfl⟩)
        | some t =>
          simp only
          split
          · exact Or.inl ⟨_, rfl⟩
          · rename_i c4
            have pt := hp t ht
            simp only [not_or, Decidable.not_not] at c4
            simp only [pt.1, Bool.false_eq_true, if_false]
            exact Or.inr (Or.inr ⟨by omega, imm', ⟨by simpa [esize] using c4.2.2.1, by simpa [esize] using c4.2.2.2⟩, rfl⟩)

theorem insPlain_poke_content (x : Buf) (pos : Nat) (bytes : List Byte) (hu : x.used ≤ x.size)
    (fit : max x.used pos + bytes.length ≤ x.size) :
    (Mem.write (insPlain x pos bytes.length).data pos bytes).take (insPlain x pos bytes.length).used
      = Vec.insert x.content pos bytes ∧
    (insPlain x pos bytes.length).data.length = x.data.length := by
  simp only [Buf.size] at hu fit
  unfold insPlain Vec.insert Vec.padTo Vec.zeros Buf.content
  simp only
  by_cases c : pos < x.used
  · have c' : ¬ pos > x.used := by omega
    have k : x.used - pos ≠ 0 := by omega
    simp only [c', if_false, k, ne_eq, not_false_eq_true, if_true]
    have ml := move_length x.data (pos + bytes.length) pos (x.used - pos) (by omega) (by omega)
    refine ⟨?_, ml⟩
    apply List.ext_getElem?
    intro i
    rw [List.getElem?_take, getElem?_write _ _ _ _ (by rw [ml]; omega),
      getElem?_move _ _ _ _ _ (by omega) (by omega)]
    simp only [List.getElem?_append, List.getElem?_take, List.getElem?_drop, List.length_take, List.length_append,
      List.length_replicate, List.getElem?_replicate]
    grind
  · have k : x.used - pos = 0 := by omega
    simp only [k, ne_eq, not_true_eq_false, if_false]
    by_cases c' : pos > x.used
    · simp only [c', if_true]
      have wl := write_length x.data x.used (zeros (pos - x.used)) (by simp; omega)
      refine ⟨?_, wl⟩
      apply List.ext_getElem?
      intro i
      rw [List.getElem?_take, getElem?_write _ _ _ _ (by rw [wl]; omega),
        getElem?_write _ _ _ _ (by simp; omega)]
      simp only [getElem?_zeros, zeros_length]
      simp only [List.getElem?_append, List.getElem?_take, List.getElem?_drop, List.length_take, List.length_append,
        List.length_replicate, List.getElem?_replicate]
      grind
    · simp only [c', if_false]
      refine ⟨?_, trivial⟩
      apply List.ext_getElem?
      intro i
      rw [List.getElem?_take, getElem?_write _ _ _ _ (by omega)]
      simp only [List.getElem?_append, List.getElem?_take, List.getElem?_drop, List.length_take, List.length_append,
        List.length_replicate, List.getElem?_replicate]
      grind


theorem State.setBuf_setBuf (s : State) (b : Nat) (x y : Buf) : (s.setBuf b x).setBuf b y = s.setBuf b y := by
  simp [State.setBuf, List.set_set]

theorem poke_eq {s : State} {h nb : Nat} {y : Buf} (hh : s.handle h = some nb) (hy : s.buf? nb = some y)
    (off : Nat) (bytes : List Byte) (fit : off + bytes.length ≤ y.size) :
    poke s h off bytes = .ok (s.setBuf nb { y with data := Mem.write y.data off bytes }) () := by
  unfold poke
  rw [hh]; simp only; rw [hy]; simp only
  rw [if_neg (by omega)]

theorem write_nil (d : List Byte) (off : Nat) : Mem.write d off [] = d := by
  simp [Mem.write]

/-- `mpt_buffer_insert` followed by the caller's copy, on the private buffer obtained by `ensure` -/
theorem insert_private_sem {s s1 : State} {h nb : Nat} {x : Buf} {n : Nat} (pos : Nat) (bytes : List Byte)
    (hu : x.used ≤ x.size) (hal : x.used % esize x.traits = 0) (absx : s.abs h = x.content)
    (dp : DetachPost s h x n s1 nb) (hn : max x.used pos + bytes.length ≤ n) :
    Sem s h (fun v v' => v' = Vec.insert v pos bytes)
      (match bufferInsert s1 nb pos bytes.length with
       | .ok s2 p =>
         (match poke s2 h p bytes with
          | .ok s3 _ => .ok s3 p
          | .fail s3 e => .fail s3 e
          | .fault w => .fault w)
       | .fail s2 e => .fail s2 e
       | .fault w => .fault w) := by
  obtain ⟨z, hz, zr, zi, zs, zt, zu, zc⟩ := dp.keeps hu (by omega)
  have inv2 := dp.1
  have hh2 := dp.2.2.2.1
  have zused := inv2.used nb z hz
  have zp := inv2.plain nb z hz
  rcases bufferInsert_plain hz zp pos bytes.length with ⟨e, he⟩ | ⟨t0, he⟩ | ⟨fit, _, al, he⟩
  · rw [he]; exact Sem.of_private_fail _ dp hu (by omega) absx _
  · rw [he]
    simp only
    have b0 : bytes = [] := List.eq_nil_of_length_eq_zero (by omega)
    have p0 : pos = 0 := by omega
    have u0 : x.used = 0 := by omega
    subst b0 p0
    rw [poke_eq hh2 hz 0 [] (by simp)]
    simp only [write_nil]
    have pm := inv2.setBuf_private hh2 hz zr z zr zused zp (inv2.aligned nb z hz)
    refine ⟨pm.1, by simpa using dp.2.1, ?_, ?_⟩
    · rw [pm.2.1, zc, absx]
      have : x.content = [] := by simp [Buf.content, u0]
      simp [this, Vec.insert, Vec.padTo, Vec.zeros]
    · intro h' ne; rw [pm.2.2 h' ne]; exact dp.2.2.1 h' ne
  · rw [he]
    simp only
    have blt := State.buf?_lt hz
    have hy : (s1.setBuf nb (insPlain z pos bytes.length)).buf? nb = some (insPlain z pos bytes.length) := by
      rw [State.buf?_setBuf _ _ _ _ blt]; simp
    have ipc := insPlain_poke_content z pos bytes zused (by rw [zu]; omega)
    rw [poke_eq (by simpa using hh2) hy pos bytes (by simp only [Buf.size]; rw [ipc.2]; simp only [Buf.size] at zs; omega)]
    simp only [State.setBuf_setBuf]
    have pm := inv2.setBuf_private hh2 hz zr
      { insPlain z pos bytes.length with data := Mem.write (insPlain z pos bytes.length).data pos bytes } zr
      (by
        simp only [Buf.size]
        rw [write_length _ _ _ (by rw [ipc.2]; simp only [Buf.size] at zs; omega), ipc.2]
        show max z.used pos + bytes.length ≤ z.data.length
        simp only [Buf.size] at zs; omega)
      zp
      (by
        show (max z.used pos + bytes.length) % esize z.traits = 0
        have a1 : z.used % esize z.traits = 0 := by rw [zu, zt]; exact hal
        have : max z.used pos % esize z.traits = 0 := by rw [Nat.max_def]; split; exact al.1; exact a1
        rw [Nat.add_mod, this, al.2]; simp)
    refine ⟨pm.1, by simpa using dp.2.1, ?_, ?_⟩
    · rw [pm.2.1, absx, ← zc]
      exact ipc.1
    · intro h' ne; rw [pm.2.2 h' ne]; exact dp.2.2.1 h' ne


/-- an empty handle gets a fresh buffer -/
theorem attach_fresh {s : State} (inv : Inv s) {h : Nat} (hlt : h < s.hs.length) (hh : s.handle h = none)
    (len : Nat) (t : Option Traits) (pt : PlainT t) :
    DetachPost s h (State.fresh len 0 t) len ((s.newBuf len 0 t).setHandle h (some s.bufs.length)) s.bufs.length ∧
    s.abs h = (State.fresh len 0 t).content := by
  have hnb : s.buf? s.bufs.length = none := State.buf?_ge_length s _ (Nat.le_refl _)
  have ret := Inv.retarget (s' := (s.newBuf len 0 t).setHandle h (some s.bufs.length)) inv
    (z := State.fresh len 0 t) hlt hnb (by simp)
    (by intro c; rw [State.buf?_setHandle, State.buf?_newBuf]; simp [hh])
    rfl (by simp [State.fresh]) pt (by simp [State.fresh])
  have hz : ((s.newBuf len 0 t).setHandle h (some s.bufs.length)).buf? s.bufs.length = some (State.fresh len 0 t) := by
    rw [State.buf?_setHandle, State.buf?_newBuf]; simp
  refine ⟨⟨ret.1, by simp, ret.2.2.2, ret.2.1, _, hz, rfl, ?_, ?_, rfl, len, Nat.le_refl _, ?_⟩, ?_⟩
  · simp [Buf.immutable, State.fresh]
  · simp only [State.fresh, Buf.size, List.length_replicate]; exact le_allocSize len
  · simp [State.fresh, Buf.content]
  · rw [State.abs_none hh]; simp [State.fresh, Buf.content]

theorem fresh_used (len f : Nat) (t : Option Traits) : (State.fresh len f t).used = 0 := rfl
theorem fresh_size (len f : Nat) (t : Option Traits) : (State.fresh len f t).size = allocSize len := by
  simp [State.fresh, Buf.size]

theorem insert_sem {s : State} (inv : Inv s) {h : Nat} (hlt : h < s.hs.length) (pos : Nat) (bytes : List Byte) :
    Sem s h (fun v v' => v' = Vec.insert v pos bytes) (insertOp s h pos bytes) := by
  unfold insertOp arrayInsert
  cases hh : s.handle h with
  | none =>
    simp only
    obtain ⟨dp, absx⟩ := attach_fresh inv hlt hh (bytes.length + pos) none PlainT.none
    obtain ⟨inv1, len1, oth1, hh1, z, hz, _⟩ := dp
    have hz' : ((s.newBuf (bytes.length + pos) 0).setHandle h (some s.bufs.length)).buf? s.bufs.length
        = some (State.fresh (bytes.length + pos) 0 none) := by
      rw [State.buf?_setHandle, State.buf?_newBuf]; simp
    rw [hz']
    simp only [setUsed]
    generalize hs1 : (s.newBuf (bytes.length + pos) 0).setHandle h (some s.bufs.length) = s1 at *
    have blt := State.buf?_lt hz'
    generalize hd : (if pos ≠ 0 then Mem.write (State.fresh (bytes.length + pos) 0 none).data 0 (zeros pos)
      else (State.fresh (bytes.length + pos) 0 none).data) = d
    have asz := le_allocSize (bytes.length + pos)
    have dl : d.length = allocSize (bytes.length + pos) := by
      rw [← hd]; split
      · rw [write_length _ _ _ (by simp [State.fresh]; omega)]; simp [State.fresh]
      · simp [State.fresh]
    have hy : (s1.setBuf s.bufs.length { State.fresh (bytes.length + pos) 0 none with data := d, used := bytes.length + pos }).buf? s.bufs.length
        = some { State.fresh (bytes.length + pos) 0 none with data := d, used := bytes.length + pos } := by
      rw [State.buf?_setBuf _ _ _ _ blt]; simp
    rw [poke_eq (by simpa using hh1) hy pos bytes (by simp only [Buf.size]; omega)]
    simp only [State.setBuf_setBuf]
    have pm := inv1.setBuf_private hh1 hz' rfl
      { State.fresh (bytes.length + pos) 0 none with data := Mem.write d pos bytes, used := bytes.length + pos } rfl
      (by simp only [Buf.size]; rw [write_length _ _ _ (by omega)]; omega)
      PlainT.none (by simp [State.fresh, esize, Nat.mod_one])
    refine ⟨pm.1, by simpa using len1, ?_, ?_⟩
    · rw [pm.2.1, State.abs_none hh]
      simp only [Buf.content, Vec.insert, Vec.padTo, Vec.zeros]
      apply List.ext_getElem?
      intro i
      rw [List.getElem?_take, getElem?_write _ _ _ _ (by omega), ← hd]
      by_cases p0 : pos = 0
      · simp only [p0, ne_eq, not_true_eq_false, if_false, State.fresh]
        simp only [List.getElem?_append, List.getElem?_take, List.getElem?_drop, List.length_take, List.length_append,
          List.length_replicate, List.getElem?_replicate]
        grind
      · simp only [p0, ne_eq, not_false_eq_true, if_true]
        rw [getElem?_write _ _ _ _ (by simp [State.fresh]; omega)]
        simp only [getElem?_zeros, zeros_length, State.fresh]
        simp only [List.getElem?_append, List.getElem?_take, List.getElem?_drop, List.length_take, List.length_append,
          List.length_replicate, List.getElem?_replicate]
        grind
    · intro h' ne; rw [pm.2.2 h' ne]; exact oth1 h' ne
  | some b =>
    simp only
    obtain ⟨x, hb⟩ := inv.live h b hh
    rw [hb]
    simp only
    have hu := inv.used b x hb
    have hal := inv.aligned b x hb
    have absx : s.abs h = x.content := State.abs_of hh hb
    by_cases need : (max x.used pos + bytes.length ≤ x.size ∧ ¬ x.shared = true)
    · -- no detach
      have dn : decide (¬ (max x.used pos + bytes.length ≤ x.size ∧ ¬ x.shared = true)) = false := by simp [need]
      rw [dn]
      by_cases imm : x.immutable = true
      · -- `mpt_buffer_insert` refuses an immutable buffer (or has nothing to do)
        simp only [ensure, Bool.false_eq_true, if_false]
        have hp := inv.plain b x hb
        rcases bufferInsert_plain hb hp pos bytes.length with ⟨e, he⟩ | ⟨t0, he⟩ | ⟨_, ni, _⟩
        · rw [he]; exact Sem.fail_same inv _ _ _
        · rw [he]
          simp only
          have b0 : bytes = [] := List.eq_nil_of_length_eq_zero (by omega)
          have p0 : pos = 0 := by omega
          have u0 : x.used = 0 := by omega
          subst b0 p0
          rw [poke_eq hh hb 0 [] (by simp)]
          simp only [write_nil]
          have : s.setBuf b x = s := by
            have := State.handle_eq_some.mp hh
            simp only [State.setBuf]
            have e : s.bufs.set b (some x) = s.bufs := by
              apply List.ext_getElem?
              intro i
              rw [List.getElem?_set]
              split
              · rename_i eq; subst eq
                have blt := State.buf?_lt hb
                simp only [blt, if_true]
                unfold State.buf? at hb
                split at hb
                · rename_i hx; cases hb; exact hx.symm
                · cases hb
              · rfl
            rw [e]
          rw [this]
          refine ⟨inv, rfl, ?_, fun _ _ => rfl⟩
          rw [absx]
          have : x.content = [] := by simp [Buf.content, u0]
          simp [this, Vec.insert, Vec.padTo, Vec.zeros]
        · rw [imm] at ni; cases ni
      · have es := ensure_sem inv hh hb false (max x.used pos + bytes.length)
          (by intro _; simp only [Buf.shared, decide_eq_true_eq] at need; exact ⟨by omega, by simpa using imm, need.1⟩)
        generalize ensure s h b false _ = r at es
        cases r with
        | fault w => exact es
        | fail s1 e => exact ⟨es.1, by rw [es.2.1], es.2.2⟩
        | ok s1 nb => exact insert_private_sem pos bytes hu hal absx es (Nat.le_refl _)
    · have dn : decide (¬ (max x.used pos + bytes.length ≤ x.size ∧ ¬ x.shared = true)) = true := by
        simp only [decide_eq_true_eq]; exact need
      rw [dn]
      have es := ensure_sem inv hh hb true (max x.used pos + bytes.length) (by intro e; cases e)
      generalize ensure s h b true _ = r at es
      cases r with
      | fault w => exact es
      | fail s1 e => exact ⟨es.1, by rw [es.2.1], es.2.2⟩
      | ok s1 nb => exact insert_private_sem pos bytes hu hal absx es (Nat.le_refl _)


end Mpt.Heap
