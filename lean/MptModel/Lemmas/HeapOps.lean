/-
  Op-level semantics of the heap model on plain buffers (C04): every array operation, run on a state
  satisfying the invariant, never faults, preserves the invariant, leaves every other handle's content
  unchanged and changes the content of its own handle as the vector spec says (`Sem`).
-/
import MptModel.Lemmas.Heap
import MptModel.Spec.ArrayOps
namespace Mpt.Heap
open Mpt

/-- outcome predicate: op on handle `h`, allowed content change `R old new` -/
def Sem {α : Type} (s : State) (h : Nat) (R : Vec.Vec → Vec.Vec → Prop) (r : Out α) : Prop :=
  match r with
  | .fault _ => False
  | .fail s' _ => Inv s' ∧ s'.hs.length = s.hs.length ∧ ∀ h', s'.abs h' = s.abs h'
  | .ok s' _ => Inv s' ∧ s'.hs.length = s.hs.length ∧ R (s.abs h) (s'.abs h) ∧ ∀ h', h' ≠ h → s'.abs h' = s.abs h'

theorem Sem.fail_same {α : Type} {s : State} (inv : Inv s) (h : Nat) (R : Vec.Vec → Vec.Vec → Prop) (e : Fail) :
    Sem (α := α) s h R (.fail s e) := ⟨inv, rfl, fun _ => rfl⟩

theorem take_write_append (d : List Byte) (used : Nat) (bytes : List Byte) (h : used + bytes.length ≤ d.length) :
    (Mem.write d used bytes).take (used + bytes.length) = d.take used ++ bytes := by
  apply List.ext_getElem?
  intro i
  rw [List.getElem?_take, getElem?_write _ _ _ _ h]
  simp only [List.getElem?_append, List.getElem?_take, List.length_take]
  grind

/-- facts about the private buffer after a successful detach to at least `used + k` bytes -/
theorem DetachPost.keeps {s : State} {h : Nat} {x : Buf} {n : Nat} {s2 : State} {nb : Nat}
    (p : DetachPost s h x n s2 nb) (hu : x.used ≤ x.size) (hn : x.used ≤ n) :
    ∃ z, s2.buf? nb = some z ∧ z.ref = 1 ∧ z.immutable = false ∧ n ≤ z.size ∧ z.traits = x.traits ∧
      z.used = x.used ∧ z.content = x.content := by
  obtain ⟨inv2, _, _, _, z, hz, zr, zi, zs, zt, k, hk, zc, _⟩ := p
  have zu := inv2.used nb z hz
  have cl := content_length x hu
  have zc' : z.content = x.content := by
    rw [zc, List.take_of_length_le]; omega
  refine ⟨z, hz, zr, zi, zs, zt, ?_, zc'⟩
  have := congrArg List.length zc'
  rw [content_length z zu, cl] at this
  exact this

/-- outcome predicate of `ensure` -/
def EnsureSem (s : State) (h : Nat) (x : Buf) (n : Nat) (r : Out Nat) : Prop :=
  match r with
  | .fault _ => False
  | .fail s' _ => Inv s' ∧ s'.hs = s.hs ∧ ∀ h', s'.abs h' = s.abs h'
  | .ok s' nb => DetachPost s h x n s' nb

/-- `ensure` either refuses without a trace or yields a private buffer of at least `n` bytes; when no
    detach is requested the buffer must already be private, mutable and large enough -/
theorem ensure_sem {s : State} (inv : Inv s) {h b : Nat} {x : Buf} (hh : s.handle h = some b)
    (hb : s.buf? b = some x) (need : Bool) (n : Nat)
    (hp : need = false → x.ref < 2 ∧ x.immutable = false ∧ n ≤ x.size) :
    EnsureSem s h x n (ensure s h b need n) := by
  unfold ensure
  cases need with
  | true =>
    simp only [if_true]
    have ds := detach_sem inv hh hb n
    generalize detach s b n = r at ds
    cases r with
    | fault w => exact ds
    | fail s1 e => exact ds
    | ok s1 nb => exact ds
  | false =>
    simp only [Bool.false_eq_true, if_false]
    have c := hp rfl
    have hu := inv.used b x hb
    have hr := inv.ref b x hb
    show DetachPost s h x n s b
    refine ⟨inv, rfl, fun _ _ => rfl, hh, x, hb, by omega, c.2.1, c.2.2, rfl, max n x.used, by omega, ?_, fun c => by omega⟩
    rw [List.take_of_length_le]
    rw [content_length x hu]; omega

theorem appendAt_sem {s s0 : State} {h nb : Nat} {x : Buf} (bytes : List Byte) (hu : x.used ≤ x.size)
    (xraw : x.traits = none) (absx : s0.abs h = x.content)
    (dp : DetachPost s0 h x (x.used + bytes.length) s nb) :
    Sem s0 h (fun v v' => v' = Vec.append v bytes) (appendAt s nb x.used bytes) := by
  obtain ⟨z, hz, zr, zi, zs, zt, zu, zc⟩ := dp.keeps hu (by omega)
  obtain ⟨inv2, len2, oth2, hh2, _⟩ := dp
  unfold appendAt
  split
  · rename_i l0
    refine ⟨inv2, len2, ?_, oth2⟩
    have : bytes = [] := List.eq_nil_of_length_eq_zero l0
    rw [State.abs_of hh2 hz, absx, zc, this]; simp [Vec.append]
  · rw [hz]
    simp only
    have nf : ¬ x.used + bytes.length > z.size := by omega
    rw [if_neg nf]
    simp only [setUsed]
    have pm := inv2.setBuf_private hh2 hz zr
      { z with data := Mem.write z.data x.used bytes, used := x.used + bytes.length } zr
      (by simp only [Buf.size]; rw [write_length _ _ _ (by simp only [Buf.size] at zs; omega)]; simp only [Buf.size] at zs; omega)
      (by rw [zt, xraw]; exact PlainT.none)
      (by simp [zt, xraw, esize, Nat.mod_one])
    refine ⟨pm.1, by simpa using len2, ?_, ?_⟩
    · rw [pm.2.1, absx]
      simp only [Buf.content, Vec.append]
      rw [take_write_append _ _ _ (by simp only [Buf.size] at zs; omega)]
      have e : z.data.take z.used = x.data.take x.used := zc
      rw [zu] at e
      rw [e]
    · intro h' ne; rw [pm.2.2 h' ne]; exact oth2 h' ne

theorem append_sem {s : State} (inv : Inv s) {h : Nat} (hlt : h < s.hs.length) (bytes : List Byte) :
    Sem s h (fun v v' => v' = Vec.append v bytes) (arrayAppend s h bytes) := by
  unfold arrayAppend
  cases hh : s.handle h with
  | none =>
    simp only
    have hnb : s.buf? s.bufs.length = none := State.buf?_ge_length s _ (Nat.le_refl _)
    have abs0 : s.abs h = [] := State.abs_none hh
    have ret := Inv.retarget (s' := (s.newBuf bytes.length 0).setHandle h (some s.bufs.length)) inv
      (z := State.fresh bytes.length 0 none) hlt hnb (by simp)
      (by intro c; rw [State.buf?_setHandle, State.buf?_newBuf]; simp [hh])
      rfl (by simp [State.fresh]) PlainT.none (by simp [State.fresh])
    have hz : ((s.newBuf bytes.length 0).setHandle h (some s.bufs.length)).buf? s.bufs.length
        = some (State.fresh bytes.length 0 none) := by
      rw [State.buf?_setHandle, State.buf?_newBuf]; simp
    have dp : DetachPost s h (State.fresh bytes.length 0 none) ((State.fresh bytes.length 0 none).used + bytes.length)
        ((s.newBuf bytes.length 0).setHandle h (some s.bufs.length)) s.bufs.length := by
      refine ⟨ret.1, by simp, ret.2.2.2, ret.2.1, _, hz, rfl, ?_, ?_, rfl, bytes.length, ?_, ?_⟩
      · simp [Buf.immutable, State.fresh]
      · simp only [State.fresh, Buf.size, List.length_replicate]; have := le_allocSize bytes.length; omega
      · simp [State.fresh]
      · simp [State.fresh, Buf.content]
    have := appendAt_sem (s0 := s) (h := h) bytes (x := State.fresh bytes.length 0 none) (by simp [State.fresh]) rfl
      (by rw [abs0]; simp [State.fresh, Buf.content]) dp
    exact this
  | some b =>
    simp only
    obtain ⟨x, hb⟩ := inv.live h b hh
    rw [hb]
    simp only
    have hu := inv.used b x hb
    have hr := inv.ref b x hb
    have absx : s.abs h = x.content := State.abs_of hh hb
    split
    · exact Sem.fail_same inv _ _ _
    · rename_i raw
      have xraw : x.traits = none := by simpa using raw
      by_cases l0 : bytes.length = 0
      · have : bytes = [] := List.eq_nil_of_length_eq_zero l0
        subst this
        simp [ensure, appendAt, Sem, Vec.append, inv]
      · have es := ensure_sem inv hh hb
          (decide (bytes.length > x.size - x.used ∨ (bytes.length ≠ 0 ∧ (x.shared ∨ x.immutable)))) (x.used + bytes.length)
          (by
            intro hn
            simp only [decide_eq_false_iff_not, not_or, not_and] at hn
            have c := hn.2 l0
            simp only [Buf.shared, decide_eq_true_eq, Bool.not_eq_true] at c
            exact ⟨by omega, c.2, by omega⟩)
        generalize ensure s h b _ (x.used + bytes.length) = r at es
        cases r with
        | fault w => exact es
        | fail s1 e => exact ⟨es.1, by rw [es.2.1], es.2.2⟩
        | ok s1 nb => exact appendAt_sem bytes hu xraw absx es

theorem DetachPost.abs_same {s : State} {h : Nat} {x : Buf} {n : Nat} {s2 : State} {nb : Nat}
    (p : DetachPost s h x n s2 nb) (hu : x.used ≤ x.size) (hn : x.used ≤ n) (absx : s.abs h = x.content) :
    ∀ h', s2.abs h' = s.abs h' := by
  obtain ⟨z, hz, _, _, _, _, _, zc⟩ := p.keeps hu hn
  intro h'
  by_cases e : h' = h
  · subst e; rw [State.abs_of p.2.2.2.1 hz, zc, absx]
  · exact p.2.2.1 h' e

theorem Sem.of_private_fail {α : Type} {s : State} {h : Nat} {x : Buf} {n : Nat} {s2 : State} {nb : Nat}
    (R : Vec.Vec → Vec.Vec → Prop) (p : DetachPost s h x n s2 nb) (hu : x.used ≤ x.size) (hn : x.used ≤ n)
    (absx : s.abs h = x.content) (e : Fail) : Sem (α := α) s h R (.fail s2 e) :=
  ⟨p.1, p.2.1, p.abs_same hu hn absx⟩

theorem setPlain_content (z : Buf) (esz pos : Nat) (bytes : List Byte) (hu : z.used ≤ z.size)
    (hal : z.used % esz = 0) (fit : pos + bytes.length ≤ z.size) :
    (setPlain z esz pos bytes).content = Vec.write z.content pos bytes ∧
    (setPlain z esz pos bytes).used ≤ (setPlain z esz pos bytes).size ∧
    (setPlain z esz pos bytes).used = max z.used (pos + bytes.length) := by
  have len1 : (if z.used < pos then Mem.write z.data z.used (zeros (pos - z.used)) else z.data).length = z.data.length := by
    split
    · rw [write_length _ _ _ (by simp only [zeros_length, Buf.size] at hu fit ⊢; omega)]
    · rfl
  unfold setPlain
  simp only [hal, Nat.sub_zero, Buf.content, Buf.size]
  refine ⟨take_write_eq z.data z.used pos bytes hu fit, ?_, trivial⟩
  rw [write_length _ _ _ (by rw [len1]; exact fit), len1]
  simp only [Buf.size] at hu fit; omega

/-- `mpt_buffer_set` on the private buffer obtained by `ensure` -/
theorem bufferSet_private_sem {s s2 : State} {h nb : Nat} {x : Buf} {n : Nat} (pos : Nat) (bytes : List Byte) (hasSrc : Bool)
    (hu : x.used ≤ x.size) (hal : x.used % esize x.traits = 0) (absx : s.abs h = x.content)
    (dp : DetachPost s h x n s2 nb) (hn : max x.used (pos + bytes.length) ≤ n) :
    Sem s h (fun v v' => v' = Vec.write v pos bytes) (bufferSet s2 nb x.traits pos bytes hasSrc) := by
  obtain ⟨z, hz, zr, zi, zs, zt, zu, zc⟩ := dp.keeps hu (by omega)
  have inv2 := dp.1
  have zused := inv2.used nb z hz
  have zp := inv2.plain nb z hz
  rw [← zt, bufferSet_plain hz zp]
  have fit : ¬ pos + bytes.length > z.size := by omega
  rw [if_neg fit]
  have okcase : ∀ esz, esz = esize z.traits → (pos + bytes.length) % esz = 0 → ∀ v : Int,
      Sem s h (fun v v' => v' = Vec.write v pos bytes) (Out.ok (s2.setBuf nb (setPlain z esz pos bytes)) v) := by
    intro esz he hmod v
    have zal : z.used % esz = 0 := by rw [he, zu, zt]; exact hal
    have sc := setPlain_content z esz pos bytes zused zal (by omega)
    have pm := inv2.setBuf_private dp.2.2.2.1 hz zr (setPlain z esz pos bytes) zr sc.2.1 zp
      (by
        show (setPlain z esz pos bytes).used % esize z.traits = 0
        rw [sc.2.2, ← he, Nat.max_def]; split <;> assumption)
    refine ⟨pm.1, by simpa using dp.2.1, ?_, ?_⟩
    · rw [pm.2.1, sc.1, zc, absx]
    · intro h' ne; rw [pm.2.2 h' ne]; exact dp.2.2.1 h' ne
  cases ht : z.traits with
  | none =>
    simp only
    exact okcase 1 (by rw [ht]; rfl) (Nat.mod_one _) 0
  | some t =>
    simp only
    split
    · exact Sem.of_private_fail _ dp hu (by omega) absx _
    · rename_i c
      simp only [not_or, Decidable.not_not] at c
      exact okcase t.size (by rw [ht]; rfl) (by rw [Nat.add_mod, c.2.1, c.2.2]; simp) _

theorem bset_sem {s : State} (inv : Inv s) {h : Nat} (pos : Nat) (bytes : List Byte) (hasSrc : Bool) :
    Sem s h (fun v v' => v' = Vec.write v pos bytes) (bsetOp s h pos bytes hasSrc) := by
  unfold bsetOp
  cases hh : s.handle h with
  | none => exact Sem.fail_same inv _ _ _
  | some b =>
    simp only
    obtain ⟨x, hb⟩ := inv.live h b hh
    rw [hb]
    simp only
    have es := ensure_sem inv hh hb true (max x.used (pos + bytes.length)) (by intro e; cases e)
    generalize ensure s h b true _ = r at es
    cases r with
    | fault w => exact es
    | fail s1 e => exact ⟨es.1, by rw [es.2.1], es.2.2⟩
    | ok s1 nb => exact bufferSet_private_sem pos bytes hasSrc (inv.used b x hb) (inv.aligned b x hb) (State.abs_of hh hb) es (Nat.le_refl _)


/-- effect of `mpt_buffer_cut` on a plain buffer: remove `[off, off+len)` -/
def cutPlain (x : Buf) (off len : Nat) : Buf :=
  { x with data := (if x.used - len - off ≠ 0 then Mem.move x.data off (off + len) (x.used - len - off) else x.data),
           used := off + (x.used - len - off) }

theorem bufferCut_plain {s : State} {b : Nat} {x : Buf} (hb : s.buf? b = some x) (hp : PlainT x.traits) (off len : Nat) :
    (∃ e, bufferCut s b off len = .fail s e) ∨
    (∃ len', (len' = if len = 0 then x.used - off else len) ∧ off + len' ≤ x.used ∧ (len = 0 → off ≤ x.used) ∧
      (off % esize x.traits = 0 ∧ len' % esize x.traits = 0) ∧
      bufferCut s b off len = .ok (s.setBuf b (cutPlain x off len')) (off + (x.used - len' - off))) := by
  unfold bufferCut
  rw [hb]
  simp only
  split
  · exact Or.inl ⟨_, rfl⟩
  · rename_i c1
    split
    · exact Or.inl ⟨_, rfl⟩
    · rename_i c2
      generalize hl : (if len = 0 then x.used - off else len) = len'
      split
      · exact Or.inl ⟨_, rfl⟩
      · rename_i c3
        have fit : off + len' ≤ x.used := by
          rw [← hl]; split
          · simp only [not_and, Nat.not_lt] at c2; rename_i l0; have := c2 l0; omega
          · rw [← hl] at c3; rename_i l0; simp only [l0, if_false] at c3; omega
        have o0 : len = 0 → off ≤ x.used := by
          intro l0; simp only [not_and, Nat.not_lt] at c2; exact c2 l0
        cases ht : x.traits with
        | none =>
          simp only
          refine Or.inr ⟨len', rfl, fit, o0, ⟨by simp [esize, Nat.mod_one], by simp [esize, Nat.mod_one]⟩, ?_⟩
          rfl
        | some t =>
          simp only
          split
          · exact Or.inl ⟨_, rfl⟩
          · rename_i c4
            have pt := hp t ht
            simp only [pt.2, Option.isSome_none, Bool.false_eq_true, if_false, hb]
            simp only [not_or, Decidable.not_not] at c4
            refine Or.inr ⟨len', rfl, fit, o0, ⟨by simpa [esize] using c4.2.1, by simpa [esize] using c4.2.2⟩, ?_⟩
            rfl

theorem cutPlain_content (x : Buf) (off len : Nat) (hu : x.used ≤ x.size) (fit : off + len ≤ x.used) :
    (cutPlain x off len).content = x.content.take off ++ x.content.drop (off + len) ∧
    (cutPlain x off len).used ≤ (cutPlain x off len).size ∧ (cutPlain x off len).used = x.used - len := by
  have len1 : (if x.used - len - off ≠ 0 then Mem.move x.data off (off + len) (x.used - len - off) else x.data).length = x.data.length := by
    split
    · rw [move_length _ _ _ _ (by simp only [Buf.size] at hu; omega) (by simp only [Buf.size] at hu; omega)]
    · rfl
  unfold cutPlain
  simp only [Buf.content, Buf.size]
  refine ⟨?_, by rw [len1]; simp only [Buf.size] at hu; omega, by omega⟩
  apply List.ext_getElem?
  intro i
  split
  · rw [List.getElem?_take, getElem?_move _ _ _ _ _ (by simp only [Buf.size] at hu; omega) (by simp only [Buf.size] at hu; omega)]
    simp only [List.getElem?_append, List.getElem?_take, List.getElem?_drop, List.length_take]
    simp only [Buf.size] at hu
    grind
  · simp only [List.getElem?_append, List.getElem?_take, List.getElem?_drop, List.length_take]
    simp only [Buf.size] at hu
    grind

theorem sub_mod_zero {a b k : Nat} (ha : a % k = 0) (hb : b % k = 0) : (a - b) % k = 0 := by
  have h1 := Nat.dvd_of_mod_eq_zero ha
  have h2 := Nat.dvd_of_mod_eq_zero hb
  exact Nat.mod_eq_zero_of_dvd (Nat.dvd_sub h1 h2)

theorem cut_sem {s : State} (inv : Inv s) {h : Nat} (off len : Nat) :
    Sem s h (fun v v' => Vec.cut v off len = some v') (cutOp s h off len) := by
  unfold cutOp
  cases hh : s.handle h with
  | none => exact Sem.fail_same inv _ _ _
  | some b =>
    simp only
    obtain ⟨x, hb⟩ := inv.live h b hh
    rw [hb]
    simp only
    have hu := inv.used b x hb
    have hal := inv.aligned b x hb
    have absx : s.abs h = x.content := State.abs_of hh hb
    have es := ensure_sem inv hh hb true x.used (by intro e; cases e)
    generalize ensure s h b true _ = r at es
    cases r with
    | fault w => exact es
    | fail s1 e => exact ⟨es.1, by rw [es.2.1], es.2.2⟩
    | ok s1 nb =>
      simp only
      have dp : DetachPost s h x x.used s1 nb := es
      obtain ⟨z, hz, zr, zi, zs, zt, zu, zc⟩ := dp.keeps hu (Nat.le_refl _)
      have inv2 := dp.1
      have zused := inv2.used nb z hz
      have zp := inv2.plain nb z hz
      rcases bufferCut_plain hz zp off len with ⟨e, he⟩ | ⟨len', hl, fit, o0, al, he⟩
      · rw [he]; exact Sem.of_private_fail _ dp hu (Nat.le_refl _) absx _
      · rw [he]
        have cc := cutPlain_content z off len' zused fit
        have pm := inv2.setBuf_private dp.2.2.2.1 hz zr (cutPlain z off len') zr cc.2.1 zp
          (by
            show (cutPlain z off len').used % esize z.traits = 0
            rw [cc.2.2]
            exact sub_mod_zero (by rw [zu, zt]; exact hal) al.2)
        refine ⟨pm.1, by simpa using dp.2.1, ?_, ?_⟩
        · rw [pm.2.1, cc.1, zc, absx]
          have cl := content_length x hu
          show Vec.cut x.content off len = some _
          unfold Vec.cut
          rw [cl]
          by_cases l0 : len = 0
          · simp only [l0, if_true] at hl ⊢
            rw [if_pos (by rw [← zu]; exact o0 l0)]
            have : off + len' = x.used := by rw [hl, zu]; have := o0 l0; omega
            rw [this, List.drop_of_length_le (by omega)]; simp
          · simp only [l0, if_false] at hl ⊢
            rw [if_pos (by rw [← zu, ← hl]; exact fit), hl]
        · intro h' ne; rw [pm.2.2 h' ne]; exact dp.2.2.1 h' ne



/-- effect of `mpt_buffer_insert` on a plain buffer -/
def insPlain (x : Buf) (pos len : Nat) : Buf :=
  { x with
    data :=
      (if pos > x.used then
        Mem.write (if x.used - pos ≠ 0 then Mem.move x.data (pos + len) pos (x.used - pos) else x.data)
          x.used (zeros (pos - x.used))
       else (if x.used - pos ≠ 0 then Mem.move x.data (pos + len) pos (x.used - pos) else x.data)),
    used := max x.used pos + len }

theorem bufferInsert_plain {s : State} {b : Nat} {x : Buf} (hb : s.buf? b = some x) (hp : PlainT x.traits) (pos len : Nat) :
    (∃ e, bufferInsert s b pos len = .fail s e) ∨
    (max x.used pos + len = 0 ∧ bufferInsert s b pos len = .ok s 0) ∨
    (max x.used pos + len ≤ x.size ∧ x.immutable = false ∧
      (pos % esize x.traits = 0 ∧ len % esize x.traits = 0) ∧
      bufferInsert s b pos len = .ok (s.setBuf b (insPlain x pos len)) pos) := by
  unfold bufferInsert
  rw [hb]
  simp only
  by_cases t0 : max x.used pos + len = 0
  · rw [if_pos t0]; exact Or.inr (Or.inl ⟨t0, rfl⟩)
  · rw [if_neg t0]
    by_cases fit : max x.used pos + len > x.size
    · rw [if_pos fit]; exact Or.inl ⟨_, rfl⟩
    · rw [if_neg fit]
      by_cases imm : x.immutable = true
      · rw [if_pos imm]; exact Or.inl ⟨_, rfl⟩
      · rw [if_neg imm]
        have imm' : x.immutable = false := by simpa using imm
        cases ht : x.traits with
        | none =>
          simp only
          exact Or.inr (Or.inr ⟨by omega, imm', ⟨by simp [esize, Nat.mod_one], by simp [esize, Nat.mod_one]⟩, rfl⟩)
        | some t =>
          simp only
          split
          · exact Or.inl ⟨_, rfl⟩
          · rename_i c4
            have pt := hp t ht
            simp only [not_or, Decidable.not_not] at c4
            simp only [pt.1, Bool.false_eq_true, if_false]
            exact Or.inr (Or.inr ⟨by omega, imm', ⟨by simpa [esize] using c4.2.2.1, by simpa [esize] using c4.2.2.2⟩, rfl⟩)

theorem insPlain_poke_content (x : Buf) (pos : Nat) (bytes : List Byte) (hu : x.used ≤ x.size)
    (fit : max x.used pos + bytes.length ≤ x.size) :
    (Mem.write (insPlain x pos bytes.length).data pos bytes).take (insPlain x pos bytes.length).used
      = Vec.insert x.content pos bytes ∧
    (insPlain x pos bytes.length).data.length = x.data.length := by
  simp only [Buf.size] at hu fit
  unfold insPlain Vec.insert Vec.padTo Vec.zeros Buf.content
  simp only
  by_cases c : pos < x.used
  · have c' : ¬ pos > x.used := by omega
    have k : x.used - pos ≠ 0 := by omega
    simp only [c', if_false, k, ne_eq, not_false_eq_true, if_true]
    have ml := move_length x.data (pos + bytes.length) pos (x.used - pos) (by omega) (by omega)
    refine ⟨?_, ml⟩
    apply List.ext_getElem?
    intro i
    rw [List.getElem?_take, getElem?_write _ _ _ _ (by rw [ml]; omega),
      getElem?_move _ _ _ _ _ (by omega) (by omega)]
    simp only [List.getElem?_append, List.getElem?_take, List.getElem?_drop, List.length_take, List.length_append,
      List.length_replicate, List.getElem?_replicate]
    grind
  · have k : x.used - pos = 0 := by omega
    simp only [k, ne_eq, not_true_eq_false, if_false]
    by_cases c' : pos > x.used
    · simp only [c', if_true]
      have wl := write_length x.data x.used (zeros (pos - x.used)) (by simp; omega)
      refine ⟨?_, wl⟩
      apply List.ext_getElem?
      intro i
      rw [List.getElem?_take, getElem?_write _ _ _ _ (by rw [wl]; omega),
        getElem?_write _ _ _ _ (by simp; omega)]
      simp only [getElem?_zeros, zeros_length]
      simp only [List.getElem?_append, List.getElem?_take, List.getElem?_drop, List.length_take, List.length_append,
        List.length_replicate, List.getElem?_replicate]
      grind
    · simp only [c', if_false]
      refine ⟨?_, trivial⟩
      apply List.ext_getElem?
      intro i
      rw [List.getElem?_take, getElem?_write _ _ _ _ (by omega)]
      simp only [List.getElem?_append, List.getElem?_take, List.getElem?_drop, List.length_take, List.length_append,
        List.length_replicate, List.getElem?_replicate]
      grind


theorem State.setBuf_setBuf (s : State) (b : Nat) (x y : Buf) : (s.setBuf b x).setBuf b y = s.setBuf b y := by
  simp [State.setBuf, List.set_set]

theorem poke_eq {s : State} {h nb : Nat} {y : Buf} (hh : s.handle h = some nb) (hy : s.buf? nb = some y)
    (off : Nat) (bytes : List Byte) (fit : off + bytes.length ≤ y.size) :
    poke s h off bytes = .ok (s.setBuf nb { y with data := Mem.write y.data off bytes }) () := by
  unfold poke
  rw [hh]; simp only; rw [hy]; simp only
  rw [if_neg (by omega)]

theorem write_nil (d : List Byte) (off : Nat) : Mem.write d off [] = d := by
  simp [Mem.write]

/-- `mpt_buffer_insert` followed by the caller's copy, on the private buffer obtained by `ensure` -/
theorem insert_private_sem {s s1 : State} {h nb : Nat} {x : Buf} {n : Nat} (pos : Nat) (bytes : List Byte)
    (hu : x.used ≤ x.size) (hal : x.used % esize x.traits = 0) (absx : s.abs h = x.content)
    (dp : DetachPost s h x n s1 nb) (hn : max x.used pos + bytes.length ≤ n) :
    Sem s h (fun v v' => v' = Vec.insert v pos bytes)
      (match bufferInsert s1 nb pos bytes.length with
       | .ok s2 p =>
         (match poke s2 h p bytes with
          | .ok s3 _ => .ok s3 p
          | .fail s3 e => .fail s3 e
          | .fault w => .fault w)
       | .fail s2 e => .fail s2 e
       | .fault w => .fault w) := by
  obtain ⟨z, hz, zr, zi, zs, zt, zu, zc⟩ := dp.keeps hu (by omega)
  have inv2 := dp.1
  have hh2 := dp.2.2.2.1
  have zused := inv2.used nb z hz
  have zp := inv2.plain nb z hz
  rcases bufferInsert_plain hz zp pos bytes.length with ⟨e, he⟩ | ⟨t0, he⟩ | ⟨fit, _, al, he⟩
  · rw [he]; exact Sem.of_private_fail _ dp hu (by omega) absx _
  · rw [he]
    simp only
    have b0 : bytes = [] := List.eq_nil_of_length_eq_zero (by omega)
    have p0 : pos = 0 := by omega
    have u0 : x.used = 0 := by omega
    subst b0 p0
    rw [poke_eq hh2 hz 0 [] (by simp)]
    simp only [write_nil]
    have pm := inv2.setBuf_private hh2 hz zr z zr zused zp (inv2.aligned nb z hz)
    refine ⟨pm.1, by simpa using dp.2.1, ?_, ?_⟩
    · rw [pm.2.1, zc, absx]
      have : x.content = [] := by simp [Buf.content, u0]
      simp [this, Vec.insert, Vec.padTo, Vec.zeros]
    · intro h' ne; rw [pm.2.2 h' ne]; exact dp.2.2.1 h' ne
  · rw [he]
    simp only
    have blt := State.buf?_lt hz
    have hy : (s1.setBuf nb (insPlain z pos bytes.length)).buf? nb = some (insPlain z pos bytes.length) := by
      rw [State.buf?_setBuf _ _ _ _ blt]; simp
    have ipc := insPlain_poke_content z pos bytes zused (by rw [zu]; omega)
    rw [poke_eq (by simpa using hh2) hy pos bytes (by simp only [Buf.size]; rw [ipc.2]; simp only [Buf.size] at zs; omega)]
    simp only [State.setBuf_setBuf]
    have pm := inv2.setBuf_private hh2 hz zr
      { insPlain z pos bytes.length with data := Mem.write (insPlain z pos bytes.length).data pos bytes } zr
      (by
        simp only [Buf.size]
        rw [write_length _ _ _ (by rw [ipc.2]; simp only [Buf.size] at zs; omega), ipc.2]
        show max z.used pos + bytes.length ≤ z.data.length
        simp only [Buf.size] at zs; omega)
      zp
      (by
        show (max z.used pos + bytes.length) % esize z.traits = 0
        have a1 : z.used % esize z.traits = 0 := by rw [zu, zt]; exact hal
        have : max z.used pos % esize z.traits = 0 := by rw [Nat.max_def]; split; exact al.1; exact a1
        rw [Nat.add_mod, this, al.2]; simp)
    refine ⟨pm.1, by simpa using dp.2.1, ?_, ?_⟩
    · rw [pm.2.1, absx, ← zc]
      exact ipc.1
    · intro h' ne; rw [pm.2.2 h' ne]; exact dp.2.2.1 h' ne


/-- an empty handle gets a fresh buffer -/
theorem attach_fresh {s : State} (inv : Inv s) {h : Nat} (hlt : h < s.hs.length) (hh : s.handle h = none)
    (len : Nat) (t : Option Traits) (pt : PlainT t) :
    DetachPost s h (State.fresh len 0 t) len ((s.newBuf len 0 t).setHandle h (some s.bufs.length)) s.bufs.length ∧
    s.abs h = (State.fresh len 0 t).content := by
  have hnb : s.buf? s.bufs.length = none := State.buf?_ge_length s _ (Nat.le_refl _)
  have ret := Inv.retarget (s' := (s.newBuf len 0 t).setHandle h (some s.bufs.length)) inv
    (z := State.fresh len 0 t) hlt hnb (by simp)
    (by intro c; rw [State.buf?_setHandle, State.buf?_newBuf]; simp [hh])
    rfl (by simp [State.fresh]) pt (by simp [State.fresh])
  have hz : ((s.newBuf len 0 t).setHandle h (some s.bufs.length)).buf? s.bufs.length = some (State.fresh len 0 t) := by
    rw [State.buf?_setHandle, State.buf?_newBuf]; simp
  refine ⟨⟨ret.1, by simp, ret.2.2.2, ret.2.1, _, hz, rfl, ?_, ?_, rfl, len, Nat.le_refl _, ?_⟩, ?_⟩
  · simp [Buf.immutable, State.fresh]
  · simp only [State.fresh, Buf.size, List.length_replicate]; exact le_allocSize len
  · simp [State.fresh, Buf.content]
  · rw [State.abs_none hh]; simp [State.fresh, Buf.content]

theorem fresh_used (len f : Nat) (t : Option Traits) : (State.fresh len f t).used = 0 := rfl
theorem fresh_size (len f : Nat) (t : Option Traits) : (State.fresh len f t).size = allocSize len := by
  simp [State.fresh, Buf.size]

theorem insert_sem {s : State} (inv : Inv s) {h : Nat} (hlt : h < s.hs.length) (pos : Nat) (bytes : List Byte) :
    Sem s h (fun v v' => v' = Vec.insert v pos bytes) (insertOp s h pos bytes) := by
  unfold insertOp arrayInsert
  cases hh : s.handle h with
  | none =>
    simp only
    obtain ⟨dp, absx⟩ := attach_fresh inv hlt hh (bytes.length + pos) none PlainT.none
    obtain ⟨inv1, len1, oth1, hh1, z, hz, _⟩ := dp
    have hz' : ((s.newBuf (bytes.length + pos) 0).setHandle h (some s.bufs.length)).buf? s.bufs.length
        = some (State.fresh (bytes.length + pos) 0 none) := by
      rw [State.buf?_setHandle, State.buf?_newBuf]; simp
    rw [hz']
    simp only [setUsed]
    generalize hs1 : (s.newBuf (bytes.length + pos) 0).setHandle h (some s.bufs.length) = s1 at *
    have blt := State.buf?_lt hz'
    generalize hd : (if pos ≠ 0 then Mem.write (State.fresh (bytes.length + pos) 0 none).data 0 (zeros pos)
      else (State.fresh (bytes.length + pos) 0 none).data) = d
    have asz := le_allocSize (bytes.length + pos)
    have dl : d.length = allocSize (bytes.length + pos) := by
      rw [← hd]; split
      · rw [write_length _ _ _ (by simp [State.fresh]; omega)]; simp [State.fresh]
      · simp [State.fresh]
    have hy : (s1.setBuf s.bufs.length { State.fresh (bytes.length + pos) 0 none with data := d, used := bytes.length + pos }).buf? s.bufs.length
        = some { State.fresh (bytes.length + pos) 0 none with data := d, used := bytes.length + pos } := by
      rw [State.buf?_setBuf _ _ _ _ blt]; simp
    rw [poke_eq (by simpa using hh1) hy pos bytes (by simp only [Buf.size]; omega)]
    simp only [State.setBuf_setBuf]
    have pm := inv1.setBuf_private hh1 hz' rfl
      { State.fresh (bytes.length + pos) 0 none with data := Mem.write d pos bytes, used := bytes.length + pos } rfl
      (by simp only [Buf.size]; rw [write_length _ _ _ (by omega)]; omega)
      PlainT.none (by simp [State.fresh, esize, Nat.mod_one])
    refine ⟨pm.1, by simpa using len1, ?_, ?_⟩
    · rw [pm.2.1, State.abs_none hh]
      simp only [Buf.content, Vec.insert, Vec.padTo, Vec.zeros]
      apply List.ext_getElem?
      intro i
      rw [List.getElem?_take, getElem?_write _ _ _ _ (by omega), ← hd]
      by_cases p0 : pos = 0
      · simp only [p0, ne_eq, not_true_eq_false, if_false, State.fresh]
        simp only [List.getElem?_append, List.getElem?_take, List.getElem?_drop, List.length_take, List.length_append,
          List.length_replicate, List.getElem?_replicate]
        grind
      · simp only [p0, ne_eq, not_false_eq_true, if_true]
        rw [getElem?_write _ _ _ _ (by simp [State.fresh]; omega)]
        simp only [getElem?_zeros, zeros_length, State.fresh]
        simp only [List.getElem?_append, List.getElem?_take, List.getElem?_drop, List.length_take, List.length_append,
          List.length_replicate, List.getElem?_replicate]
        grind
    · intro h' ne; rw [pm.2.2 h' ne]; exact oth1 h' ne
  | some b =>
    simp only
    obtain ⟨x, hb⟩ := inv.live h b hh
    rw [hb]
    simp only
    have hu := inv.used b x hb
    have hal := inv.aligned b x hb
    have absx : s.abs h = x.content := State.abs_of hh hb
    by_cases need : (max x.used pos + bytes.length ≤ x.size ∧ ¬ x.shared = true)
    · -- no detach
      have dn : decide (¬ (max x.used pos + bytes.length ≤ x.size ∧ ¬ x.shared = true)) = false := by simp [need]
      rw [dn]
      by_cases imm : x.immutable = true
      · -- `mpt_buffer_insert` refuses an immutable buffer (or has nothing to do)
        simp only [ensure, Bool.false_eq_true, if_false]
        have hp := inv.plain b x hb
        rcases bufferInsert_plain hb hp pos bytes.length with ⟨e, he⟩ | ⟨t0, he⟩ | ⟨_, ni, _⟩
        · rw [he]; exact Sem.fail_same inv _ _ _
        · rw [he]
          simp only
          have b0 : bytes = [] := List.eq_nil_of_length_eq_zero (by omega)
          have p0 : pos = 0 := by omega
          have u0 : x.used = 0 := by omega
          subst b0 p0
          rw [poke_eq hh hb 0 [] (by simp)]
          simp only [write_nil]
          have : s.setBuf b x = s := by
            have := State.handle_eq_some.mp hh
            simp only [State.setBuf]
            have e : s.bufs.set b (some x) = s.bufs := by
              apply List.ext_getElem?
              intro i
              rw [List.getElem?_set]
              split
              · rename_i eq; subst eq
                have blt := State.buf?_lt hb
                simp only [blt, if_true]
                unfold State.buf? at hb
                split at hb
                · rename_i hx; cases hb; exact hx.symm
                · cases hb
              · rfl
            rw [e]
          rw [this]
          refine ⟨inv, rfl, ?_, fun _ _ => rfl⟩
          rw [absx]
          have : x.content = [] := by simp [Buf.content, u0]
          simp [this, Vec.insert, Vec.padTo, Vec.zeros]
        · rw [imm] at ni; cases ni
      · have es := ensure_sem inv hh hb false (max x.used pos + bytes.length)
          (by intro _; simp only [Buf.shared, decide_eq_true_eq] at need; exact ⟨by omega, by simpa using imm, need.1⟩)
        generalize ensure s h b false _ = r at es
        cases r with
        | fault w => exact es
        | fail s1 e => exact ⟨es.1, by rw [es.2.1], es.2.2⟩
        | ok s1 nb => exact insert_private_sem pos bytes hu hal absx es (Nat.le_refl _)
    · have dn : decide (¬ (max x.used pos + bytes.length ≤ x.size ∧ ¬ x.shared = true)) = true := by
        simp only [decide_eq_true_eq]; exact need
      rw [dn]
      have es := ensure_sem inv hh hb true (max x.used pos + bytes.length) (by intro e; cases e)
      generalize ensure s h b true _ = r at es
      cases r with
      | fault w => exact es
      | fail s1 e => exact ⟨es.1, by rw [es.2.1], es.2.2⟩
      | ok s1 nb => exact insert_private_sem pos bytes hu hal absx es (Nat.le_refl _)


/-- the value returned does not matter for `Sem` -/
def Out.mapv {α β : Type} (f : α → β) : Out α → Out β
  | .ok s v => .ok s (f v)
  | .fail s e => .fail s e
  | .fault w => .fault w

theorem Sem.mapv {α β : Type} {s : State} {h : Nat} {R : Vec.Vec → Vec.Vec → Prop} {r : Out α} (f : α → β)
    (hs : Sem s h R r) : Sem s h R (Out.mapv f r) := by
  cases r <;> exact hs

/-- failure code does not matter for `Sem` -/
def Out.mape {α : Type} (f : Fail → Fail) : Out α → Out α
  | .ok s v => .ok s v
  | .fail s e => .fail s (f e)
  | .fault w => .fault w

theorem Sem.mape {α : Type} {s : State} {h : Nat} {R : Vec.Vec → Vec.Vec → Prop} {r : Out α} (f : Fail → Fail)
    (hs : Sem s h R r) : Sem s h R (Out.mape f r) := by
  cases r <;> exact hs

theorem Sem.weaken {α : Type} {s : State} {h : Nat} {R R' : Vec.Vec → Vec.Vec → Prop} {r : Out α}
    (hs : Sem s h R r) (imp : ∀ v v', R v v' → R' v v') : Sem s h R' r := by
  cases r with
  | fault w => exact hs
  | fail s1 e => exact hs
  | ok s1 v => exact ⟨hs.1, hs.2.1, imp _ _ hs.2.2.1, hs.2.2.2⟩

theorem vec_insert_end (v : List Byte) (n : Nat) : Vec.insert v v.length (zeros n) = Vec.padTo v (v.length + n) := by
  simp [Vec.insert, Vec.padTo, Vec.zeros, zeros]

theorem sliceFill_plain (s : State) (h nb : Nat) (t : Option Traits) (pt : PlainT t) (p m : Nat) :
    sliceFill s h nb t p m = poke s h p (zeros m) := by
  unfold sliceFill
  cases t with
  | none => rfl
  | some t => simp [(pt t rfl).1]

theorem slice_sem {s : State} (inv : Inv s) {h : Nat} (hlt : h < s.hs.length) (off len : Nat) :
    Sem s h (fun v v' => v' = Vec.slice v off len) (arraySlice s h off len) := by
  unfold arraySlice
  cases hh : s.handle h with
  | none =>
    simp only
    obtain ⟨dp, absx⟩ := attach_fresh inv hlt hh (off + len) none PlainT.none
    obtain ⟨inv1, len1, oth1, hh1, z, hz, _⟩ := dp
    have hz' : ((s.newBuf (off + len) 0).setHandle h (some s.bufs.length)).buf? s.bufs.length
        = some (State.fresh (off + len) 0 none) := by
      rw [State.buf?_setHandle, State.buf?_newBuf]; simp
    rw [hz']
    simp only [setUsed]
    have asz := le_allocSize (off + len)
    have pm := inv1.setBuf_private hh1 hz' rfl
      { State.fresh (off + len) 0 none with
        data := (if off + len ≠ 0 then Mem.write (State.fresh (off + len) 0 none).data 0 (zeros (off + len)) else (State.fresh (off + len) 0 none).data),
        used := off + len } rfl
      (by
        simp only [Buf.size]
        split
        · rw [write_length _ _ _ (by simp [State.fresh]; omega)]; simp [State.fresh]; omega
        · simp [State.fresh]; omega)
      PlainT.none (by simp [State.fresh, esize, Nat.mod_one])
    refine ⟨pm.1, by simpa using len1, ?_, ?_⟩
    · rw [pm.2.1, State.abs_none hh]
      simp only [Buf.content, Vec.slice, Vec.padTo, Vec.zeros]
      by_cases t0 : off + len = 0
      · simp [t0]
      · simp only [t0, ne_eq, not_false_eq_true, if_true]
        have := content_take_write (State.fresh (off + len) 0 none).data (zeros (off + len)) (by simp [State.fresh]; omega)
        simp only [zeros_length] at this
        rw [this]; simp [zeros]
    · intro h' ne; rw [pm.2.2 h' ne]; exact oth1 h' ne
  | some b =>
    simp only
    obtain ⟨x, hb⟩ := inv.live h b hh
    rw [hb]
    simp only
    have hu := inv.used b x hb
    have hal := inv.aligned b x hb
    have hp := inv.plain b x hb
    have absx : s.abs h = x.content := State.abs_of hh hb
    have cl := content_length x hu
    split
    · exact Sem.fail_same inv _ _ _
    · have es := ensure_sem inv hh hb (decide (off + len > x.size ∨ x.immutable = true ∨ x.shared = true)) (max (off + len) x.used)
        (by
          intro hn
          simp only [decide_eq_false_iff_not, not_or, Buf.shared, decide_eq_true_eq, Bool.not_eq_true] at hn
          simp only [Buf.size] at hu hn ⊢
          exact ⟨by omega, hn.2.1, by omega⟩)
      generalize ensure s h b _ (max (off + len) x.used) = r at es
      cases r with
      | fault w => exact es
      | fail s1 e => exact ⟨es.1, by rw [es.2.1], es.2.2⟩
      | ok s1 nb =>
        simp only
        have dp : DetachPost s h x (max (off + len) x.used) s1 nb := es
        split
        · rename_i grow
          have ips := insert_private_sem (s := s) (h := h) x.used (zeros (off + len - x.used)) hu hal absx dp
            (by simp only [zeros_length]; omega)
          simp only [zeros_length] at ips
          unfold sliceGrow
          have ips2 := (ips.mapv (fun _ => off)).mape (fun _ => Fail.null)
          have rel : ∀ v v', v' = Vec.insert v x.used (zeros (off + len - x.used)) → v = x.content → v' = Vec.slice v off len := by
            intro v v' e1 e2
            subst e2
            rw [e1, ← cl, vec_insert_end, cl]
            simp only [Vec.slice]
            congr 1; omega
          cases hbi : bufferInsert s1 nb x.used (off + len - x.used) with
          | fault w => rw [hbi] at ips2; exact ips2
          | fail s2 e =>
            rw [hbi] at ips2
            exact ⟨ips2.1, ips2.2.1, ips2.2.2⟩
          | ok s2 p =>
            rw [hbi] at ips2
            simp only at ips2
            simp only [sliceFill_plain _ _ _ _ hp]
            cases hpk : poke s2 h p (zeros (off + len - x.used)) with
            | fault w => rw [hpk] at ips2; exact ips2
            | fail s3 e => rw [hpk] at ips2; exact ⟨ips2.1, ips2.2.1, ips2.2.2⟩
            | ok s3 u =>
              rw [hpk] at ips2
              exact ⟨ips2.1, ips2.2.1, rel _ _ ips2.2.2.1 absx, ips2.2.2.2⟩
        · rename_i nogrow
          obtain ⟨z, hz, zr, zi, zs, zt, zu, zc⟩ := dp.keeps hu (by omega)
          refine ⟨dp.1, dp.2.1, ?_, dp.2.2.1⟩
          rw [State.abs_of dp.2.2.2.1 hz, zc, absx]
          simp only [Vec.slice, Vec.padTo, Vec.zeros]
          rw [cl]
          have : off + len - x.used = 0 := by omega
          simp [this]


theorem set_sem {s : State} (inv : Inv s) {h : Nat} (hlt : h < s.hs.length) (t : Traits) (pt : PlainT (some t))
    (bytes : List Byte) (hasSrc : Bool) (off : Int) :
    Sem s h (fun v v' => Vec.setAt v t.size off bytes = some v') (arraySet s h (some t) bytes hasSrc off) := by
  unfold arraySet
  simp only
  split
  · exact Sem.fail_same inv _ _ _
  · rename_i szok
    simp only [not_or, Decidable.not_not] at szok
    cases hh : s.handle h with
    | none =>
      simp only
      split
      · exact Sem.fail_same inv _ _ _
      · rename_i posok
        obtain ⟨dp, absx⟩ := attach_fresh inv hlt hh ((off * Int.ofNat t.size).toNat + bytes.length) (some t) pt
        have bs := bufferSet_private_sem (s := s) (h := h) (off * Int.ofNat t.size).toNat bytes hasSrc
          (x := State.fresh ((off * Int.ofNat t.size).toNat + bytes.length) 0 (some t))
          (by simp [State.fresh]) (by simp [State.fresh]) absx dp (by simp [State.fresh])
        have rel : ∀ v v', v' = Vec.write v (off * Int.ofNat t.size).toNat bytes → v = [] →
            Vec.setAt v t.size off bytes = some v' := by
          intro v v' e1 e2
          subst e2
          unfold Vec.setAt
          have o0 : ¬ off < 0 := by
            intro neg
            have : off * Int.ofNat t.size ≤ 0 := Int.mul_nonpos_of_nonpos_of_nonneg (Int.le_of_lt neg) (Int.natCast_nonneg _)
            have tpos : (0 : Int) < Int.ofNat t.size := by
              have := szok.1; simp; omega
            have : off * Int.ofNat t.size < 0 := Int.mul_neg_of_neg_of_pos neg tpos
            omega
          simp only [o0, if_false, posok, e1]
        have a0 : s.abs h = [] := State.abs_none hh
        show Sem s h _ (match bufferSet _ _ (State.fresh ((off * Int.ofNat t.size).toNat + bytes.length) 0 (some t)).traits _ _ _ with
          | .ok s2 _ => .ok s2 _
          | .fail s2 _ => .fail s2 .null
          | .fault w => .fault w)
        generalize bufferSet _ _ (State.fresh ((off * Int.ofNat t.size).toNat + bytes.length) 0 (some t)).traits _ _ _ = r at bs
        cases r with
        | fault w => exact bs
        | fail s2 e => exact ⟨bs.1, bs.2.1, bs.2.2⟩
        | ok s2 v => exact ⟨bs.1, bs.2.1, rel _ _ bs.2.2.1 a0, bs.2.2.2⟩
    | some b =>
      simp only
      obtain ⟨x, hb⟩ := inv.live h b hh
      rw [hb]
      simp only
      have hu := inv.used b x hb
      have hal := inv.aligned b x hb
      have absx : s.abs h = x.content := State.abs_of hh hb
      have cl := content_length x hu
      split
      · exact Sem.fail_same inv _ _ _
      · rename_i sameT
        have xt : x.traits = some t := by simpa using sameT
        generalize hpos : (if off < 0 then off * Int.ofNat t.size + Int.ofNat x.used else off * Int.ofNat t.size) = pos1
        split
        · exact Sem.fail_same inv _ _ _
        · rename_i posok
          have es := ensure_sem inv hh hb (decide (x.size < pos1.toNat + bytes.length ∨ x.immutable = true ∨ x.shared = true))
            (max (pos1.toNat + bytes.length) x.used)
            (by
              intro hn
              simp only [decide_eq_false_iff_not, not_or, Buf.shared, decide_eq_true_eq, Bool.not_eq_true] at hn
              simp only [Buf.size] at hu hn ⊢
              exact ⟨by omega, hn.2.1, by omega⟩)
          generalize ensure s h b _ (max (pos1.toNat + bytes.length) x.used) = r at es
          cases r with
          | fault w => exact es
          | fail s1 e => exact ⟨es.1, by rw [es.2.1], es.2.2⟩
          | ok s1 nb =>
            simp only
            have bs := bufferSet_private_sem (s := s) (h := h) pos1.toNat bytes hasSrc hu hal absx es (by omega)
            have rel : ∀ v v', v' = Vec.write v pos1.toNat bytes → v = x.content →
                Vec.setAt v t.size off bytes = some v' := by
              intro v v' e1 e2
              subst e2
              unfold Vec.setAt
              rw [cl]
              have : (if off < 0 then Int.ofNat x.used + off * Int.ofNat t.size else off * Int.ofNat t.size) = pos1 := by
                rw [← hpos]; split <;> omega
              simp only [this, posok, if_false, e1]
            rw [← xt]
            generalize bufferSet s1 nb x.traits pos1.toNat bytes hasSrc = r at bs
            cases r with
            | fault w => exact bs
            | fail s2 e => exact ⟨bs.1, bs.2.1, bs.2.2⟩
            | ok s2 v => exact ⟨bs.1, bs.2.1, rel _ _ bs.2.2.1 absx, bs.2.2.2⟩


/-- handle `h` is re-pointed from its buffer (one reference less, freed at zero) to the live buffer `new`
    (one reference more) or to nothing -/
theorem Inv.reassign {s s' : State} (inv : Inv s) {h : Nat} (hlt : h < s.hs.length) (new : Option Nat)
    (hnew : ∀ a, new = some a → ∃ x, s.buf? a = some x)
    (hne : s.handle h ≠ new)
    (hhs : s'.hs = s.hs.set h new)
    (hbuf : ∀ c, s'.buf? c =
      if new = some c then (s.buf? c).map (fun x => { x with ref := x.ref + 1 })
      else if s.handle h = some c then
        (match s.buf? c with
         | some x => if x.ref = 1 then none else some { x with ref := x.ref - 1 }
         | none => none)
      else s.buf? c) :
    Inv s' ∧
    (s'.abs h = match new with
      | some a => (match s.buf? a with | some x => x.content | none => [])
      | none => []) ∧
    ∀ h', h' ≠ h → s'.abs h' = s.abs h' := by
  have hh : ∀ h1, s'.handle h1 = if h1 = h then new else s.handle h1 := by
    intro h1
    have := State.handle_setHandle s h h1 new hlt
    simp only [State.handle, State.setHandle] at this ⊢
    rw [hhs]; exact this
  have hcnt : ∀ c, s'.hs.count (some c) = (s.hs.count (some c) - if s.handle h = some c then 1 else 0) + if new = some c then 1 else 0 := by
    intro c
    rw [hhs, count_set_handle _ _ _ _ hlt]
    have e1 : (s.hs[h] = some c) ↔ (s.handle h = some c) := by
      rw [State.handle_eq_some, List.getElem?_eq_getElem hlt]; simp
    simp only [e1]
  have two : ∀ h1 c x, h1 ≠ h → s.handle h1 = some c → s.handle h = some c → s.buf? c = some x → 2 ≤ x.ref := by
    intro h1 c x ne e1 e2 ex
    have r := inv.ref c x ex
    rcases Nat.lt_or_ge x.ref 2 with lt | ge
    · have : x.ref = 1 := by omega
      exact absurd (inv.unique ex this e2 e1) ne
    · exact ge
  -- the three cases of a buffer in the new state
  have cases3 : ∀ c y, s'.buf? c = some y →
      (new = some c ∧ ∃ x, s.buf? c = some x ∧ y = { x with ref := x.ref + 1 }) ∨
      (new ≠ some c ∧ s.handle h = some c ∧ ∃ x, s.buf? c = some x ∧ x.ref ≠ 1 ∧ y = { x with ref := x.ref - 1 }) ∨
      (new ≠ some c ∧ s.handle h ≠ some c ∧ s.buf? c = some y) := by
    intro c y e
    rw [hbuf] at e
    by_cases n1 : new = some c
    · rw [if_pos n1] at e
      cases hx : s.buf? c with
      | none => rw [hx] at e; cases e
      | some x => rw [hx] at e; simp only [Option.map_some, Option.some.injEq] at e; exact Or.inl ⟨n1, x, rfl, e.symm⟩
    · rw [if_neg n1] at e
      by_cases o1 : s.handle h = some c
      · rw [if_pos o1] at e
        cases hx : s.buf? c with
        | none => rw [hx] at e; cases e
        | some x =>
          rw [hx] at e; simp only at e
          by_cases r1 : x.ref = 1
          · rw [if_pos r1] at e; cases e
          · rw [if_neg r1] at e; cases e; exact Or.inr (Or.inl ⟨n1, o1, x, rfl, r1, rfl⟩)
      · rw [if_neg o1] at e; exact Or.inr (Or.inr ⟨n1, o1, e⟩)
  refine ⟨⟨?_, ?_, ?_, ?_, ?_⟩, ?_, ?_⟩
  · intro h1 b1 e
    rw [hh] at e
    rw [hbuf]
    by_cases e1 : h1 = h
    · rw [if_pos e1] at e
      obtain ⟨x, hx⟩ := hnew b1 e
      simp [e, hx]
    · rw [if_neg e1] at e
      obtain ⟨x, hx⟩ := inv.live h1 b1 e
      by_cases n1 : new = some b1
      · simp [n1, hx]
      · rw [if_neg n1]
        by_cases o1 : s.handle h = some b1
        · have := two h1 b1 x e1 e o1 hx
          have : ¬ x.ref = 1 := by omega
          simp [o1, hx, this]
        · simp [o1, hx]
  · intro c y e
    rw [hcnt]
    rcases cases3 c y e with ⟨n1, x, hx, ey⟩ | ⟨n1, o1, x, hx, r1, ey⟩ | ⟨n1, o1, ey⟩
    · have r := inv.ref c x hx
      have o1 : ¬ s.handle h = some c := by intro o; exact hne (o.trans n1.symm)
      subst ey
      simp only [o1, n1, if_true, if_false]
      omega
    · have r := inv.ref c x hx
      subst ey
      simp only [o1, n1, if_true, if_false]
      omega
    · have r := inv.ref c y ey
      simp only [o1, n1, if_false]
      omega
  · intro c y e
    rcases cases3 c y e with ⟨_, x, hx, ey⟩ | ⟨_, _, x, hx, _, ey⟩ | ⟨_, _, ey⟩
    · subst ey; exact inv.used c x hx
    · subst ey; exact inv.used c x hx
    · exact inv.used c y ey
  · intro c y e
    rcases cases3 c y e with ⟨_, x, hx, ey⟩ | ⟨_, _, x, hx, _, ey⟩ | ⟨_, _, ey⟩
    · subst ey; exact inv.plain c x hx
    · subst ey; exact inv.plain c x hx
    · exact inv.plain c y ey
  · intro c y e
    rcases cases3 c y e with ⟨_, x, hx, ey⟩ | ⟨_, _, x, hx, _, ey⟩ | ⟨_, _, ey⟩
    · subst ey; exact inv.aligned c x hx
    · subst ey; exact inv.aligned c x hx
    · exact inv.aligned c y ey
  · rw [State.abs_eq, hh]
    simp only [if_true]
    cases new with
    | none => rfl
    | some a =>
      simp only
      rw [hbuf]
      simp only [if_true]
      cases s.buf? a <;> rfl
  · intro h1 ne
    rw [State.abs_eq, State.abs_eq, hh]
    simp only [ne, if_false]
    cases e : s.handle h1 with
    | none => rfl
    | some b1 =>
      simp only
      obtain ⟨x, hx⟩ := inv.live h1 b1 e
      rw [hbuf, hx]
      by_cases n1 : new = some b1
      · simp [n1, Buf.content]
      · rw [if_neg n1]
        by_cases o1 : s.handle h = some b1
        · have := two h1 b1 x ne e o1 hx
          have : ¬ x.ref = 1 := by omega
          simp [o1, this, Buf.content]
        · simp [o1]


/-- content named by an optional buffer -/
def contentOf (s : State) (a : Option Nat) : List Byte :=
  match a with
  | some a => (match s.buf? a with | some x => x.content | none => [])
  | none => []

/-- `replaceBuf` after the reference on `new` has been taken (`s1` = `s` with that reference added) -/
theorem replaceBuf_sem {s s1 : State} (inv : Inv s) {dst : Nat} (hlt : dst < s.hs.length) (new : Option Nat)
    (hnew : ∀ a, new = some a → ∃ x, s.buf? a = some x)
    (hne : s.handle dst ≠ new)
    (hs1hs : s1.hs = s.hs)
    (hs1len : s1.bufs.length = s.bufs.length)
    (hs1 : ∀ c, s1.buf? c = if new = some c then (s.buf? c).map (fun x => { x with ref := x.ref + 1 }) else s.buf? c) :
    Sem s dst (fun _ v' => v' = contentOf s new) (replaceBuf s1 dst new (s.handle dst)) := by
  unfold replaceBuf
  cases hd : s.handle dst with
  | none =>
    simp only
    have ra := Inv.reassign (s' := s1.setHandle dst new) inv hlt new hnew hne (by simp [hs1hs])
      (by intro c; rw [State.buf?_setHandle, hs1]; simp [hd])
    exact ⟨ra.1, by simp [hs1hs], ra.2.1, ra.2.2⟩
  | some b =>
    simp only
    obtain ⟨x, hb⟩ := inv.live dst b hd
    have blt := State.buf?_lt hb
    have nb : ¬ new = some b := by intro e; exact hne (hd.trans e.symm)
    have hb1 : (s1.setHandle dst new).buf? b = some x := by
      rw [State.buf?_setHandle, hs1]; simp [nb, hb]
    rw [unref_plain hb1 (inv.plain b x hb)]
    have r := inv.ref b x hb
    have r0 : ¬ x.ref = 0 := by omega
    rw [if_neg r0]
    by_cases r1 : x.ref = 1
    · simp only [r1, ne_eq, not_true_eq_false, if_false]
      have ra := Inv.reassign (s' := ((s1.setHandle dst new).setBuf b { x with ref := 0 }).freeBuf b) inv hlt new hnew hne
        (by simp [hs1hs])
        (by
          intro c
          rw [State.buf?_freeBuf _ _ _ (by simp [hs1len]; exact blt), State.buf?_setBuf _ _ _ _ (by simp [hs1len]; exact blt),
            State.buf?_setHandle, hs1]
          by_cases cb : c = b
          · subst cb; simp [nb, hd, hb, r1]
          · have : ¬ some b = some c := by intro e; cases e; exact cb rfl
            simp [cb, hd, this])
      exact ⟨ra.1, by simp [hs1hs], ra.2.1, ra.2.2⟩
    · simp only [r1, ne_eq, not_false_eq_true, if_true]
      have ra := Inv.reassign (s' := (s1.setHandle dst new).setBuf b { x with ref := x.ref - 1 }) inv hlt new hnew hne
        (by simp [hs1hs])
        (by
          intro c
          rw [State.buf?_setBuf _ _ _ _ (by simp [hs1len]; exact blt), State.buf?_setHandle, hs1]
          by_cases cb : c = b
          · subst cb; simp [nb, hd, hb, r1]
          · have : ¬ some b = some c := by intro e; cases e; exact cb rfl
            simp [cb, hd, this])
      exact ⟨ra.1, by simp [hs1hs], ra.2.1, ra.2.2⟩

theorem clone_sem {s : State} (inv : Inv s) {dst : Nat} (hlt : dst < s.hs.length) (src : Option Nat) :
    Sem s dst (fun _ v' => v' = match src with | some hsrc => s.abs hsrc | none => []) (arrayClone s dst src) := by
  unfold arrayClone
  cases src with
  | none =>
    simp only
    by_cases hd : s.handle dst = none
    · rw [hd]
      simp only [replaceBuf]
      have : s.setHandle dst none = s := by
        have e : s.hs.set dst none = s.hs := by
          apply List.ext_getElem?
          intro i
          rw [List.getElem?_set]
          split
          · rename_i eq; subst eq
            unfold State.handle at hd
            split at hd
            · exact absurd hd (by simp)
            · rename_i hn
              cases hx : s.hs[dst]? with
              | none => have := List.getElem?_eq_none_iff.mp hx; omega
              | some v => cases v with
                | none => rfl
                | some b => exact absurd hx (hn b)
          · rfl
        simp [State.setHandle, e]
      rw [this]
      exact ⟨inv, rfl, by simp [State.abs_none hd], fun _ _ => rfl⟩
    · exact replaceBuf_sem inv hlt none (by intro a e; cases e) hd rfl rfl (by intro c; simp)
  | some hsrc =>
    simp only
    split
    · rename_i same
      refine ⟨inv, rfl, ?_, fun _ _ => rfl⟩
      simp [State.abs_eq, same]
    · rename_i diff
      split
      · exact Sem.fail_same inv _ _ _
      · cases hs : s.handle hsrc with
        | none =>
          simp only
          have := replaceBuf_sem inv hlt none (by intro a e; cases e) (by rw [← hs]; exact fun e => diff e.symm) rfl rfl (by intro c; simp)
          refine Sem.weaken this ?_
          intro v v' e; rw [e]; simp [contentOf, State.abs_none hs]
        | some a =>
          simp only
          obtain ⟨x, ha⟩ := inv.live hsrc a hs
          have alt := State.buf?_lt ha
          have r := inv.ref a x ha
          unfold addref
          rw [ha]
          have r0 : ¬ x.ref = 0 := by omega
          simp only [r0, if_false]
          have := replaceBuf_sem (s1 := s.setBuf a { x with ref := x.ref + 1 }) inv hlt (some a)
            (by intro a' e; cases e; exact ⟨x, ha⟩) (by rw [← hs]; exact fun e => diff e.symm) rfl (by simp)
            (by
              intro c
              rw [State.buf?_setBuf _ _ _ _ alt]
              by_cases ca : c = a
              · subst ca; simp [ha]
              · have : ¬ some a = some c := by intro e; cases e; exact ca rfl
                simp [ca, this])
          have key : Sem s dst (fun _ v' => v' = s.abs hsrc) (replaceBuf (s.setBuf a { x with ref := x.ref + 1 }) dst (some a) (s.handle dst)) := by
            refine Sem.weaken this ?_
            intro v v' e; rw [e]; simp only [contentOf, State.abs_eq, hs, ha]
          have nz : x.ref + 1 ≠ 0 := by omega
          generalize x.ref + 1 = k at nz key
          cases k with
          | zero => exact absurd rfl nz
          | succ k => exact key


theorem detachOp_sem {s : State} (inv : Inv s) {h : Nat} (n : Nat) :
    Sem s h (fun v v' => v' = v ∨ (ownerImmutable s h = true ∧ ∃ k, n ≤ k ∧ k < v.length ∧ v' = v.take k)) (detachOp s h n) := by
  unfold detachOp
  cases hh : s.handle h with
  | none => exact Sem.fail_same inv _ _ _
  | some b =>
    simp only
    obtain ⟨x, hb⟩ := inv.live h b hh
    have absx : s.abs h = x.content := State.abs_of hh hb
    have cl := content_length x (inv.used b x hb)
    have es := ensure_sem inv hh hb true n (by intro e; cases e)
    generalize ensure s h b true n = r at es
    cases r with
    | fault w => exact es
    | fail s1 e => exact ⟨es.1, by rw [es.2.1], es.2.2⟩
    | ok s1 nb =>
      obtain ⟨inv2, len2, oth2, hh2, z, hz, _, _, _, _, k, hk, zc, ktr⟩ := es
      refine ⟨inv2, len2, ?_, oth2⟩
      rw [State.abs_of hh2 hz, zc, absx]
      by_cases lt : k < x.used
      · right
        obtain ⟨im, rf⟩ := ktr lt
        refine ⟨by simp [ownerImmutable, hh, hb, im, rf], k, hk, by rw [cl]; exact lt, rfl⟩
      · left
        exact List.take_of_length_le (by rw [cl]; omega)

theorem reduce_sem {s : State} (inv : Inv s) {h : Nat} :
    Sem s h (fun v v' => v' = v) (arrayReduce s h) := by
  unfold arrayReduce
  cases hh : s.handle h with
  | none => exact ⟨inv, rfl, rfl, fun _ _ => rfl⟩
  | some b =>
    simp only
    obtain ⟨x, hb⟩ := inv.live h b hh
    rw [hb]
    simp only
    have hu := inv.used b x hb
    have absx : s.abs h = x.content := State.abs_of hh hb
    have es := ensure_sem inv hh hb true x.used (by intro e; cases e)
    generalize ensure s h b true x.used = r at es
    cases r with
    | fault w => exact es
    | fail s1 e =>
      simp only
      refine ⟨es.1, by rw [es.2.1], ?_, fun h' _ => es.2.2 h'⟩
      exact es.2.2 h
    | ok s1 nb =>
      simp only
      have dp : DetachPost s h x x.used s1 nb := es
      obtain ⟨z, hz, _, _, _, _, _, zc⟩ := dp.keeps hu (Nat.le_refl _)
      rw [hz]
      exact ⟨dp.1, dp.2.1, by rw [State.abs_of dp.2.2.2.1 hz, zc, absx], dp.2.2.1⟩


/-! ### reserve -/


theorem min_mod {a b k : Nat} (ha : a % k = 0) (hb : b % k = 0) : min a b % k = 0 := by
  rw [Nat.min_def]; split <;> assumption

theorem reserveNew_shared_sem {s : State} (inv : Inv s) {h b : Nat} {x : Buf} (hh : s.handle h = some b)
    (hb : s.buf? b = some x) (n len : Nat) (nlen : n ≤ len) (traits : Option Traits) (pt : PlainT traits)
    (lal : len % esize traits = 0) :
    Sem s h (fun v v' => (x.traits = traits ∧ x.uncopyable = false ∧ v' = v.take len) ∨ (v' = [] ∧ ¬ (x.traits = traits ∧ x.uncopyable = false))) (reserveNew s h (some b) len traits) := by
  have hlt := State.handle_lt hh
  have blt := State.buf?_lt hb
  have hu := inv.used b x hb
  have hal := inv.aligned b x hb
  have hp := inv.plain b x hb
  have hr := inv.ref b x hb
  have absx : s.abs h = x.content := State.abs_of hh hb
  have hnb : s.buf? s.bufs.length = none := State.buf?_ge_length s _ (Nat.le_refl _)
  have nbne : s.bufs.length ≠ b := by omega
  have esz0 : esize x.traits ≠ 0 := by
    cases ht : x.traits with
    | none => simp [esize]
    | some t => simp only [esize]; exact (hp t ht).2.2
  unfold reserveNew
  simp only
  rw [hb]
  simp only
  rw [if_neg esz0]
  -- the new buffer after the copy step
  have copy : ∃ z, z.ref = 1 ∧ z.used ≤ z.size ∧ PlainT z.traits ∧ z.used % esize z.traits = 0 ∧
      ((x.traits = traits ∧ x.uncopyable = false ∧ z.content = x.content.take len) ∨
        (z.content = [] ∧ ¬ (x.traits = traits ∧ x.uncopyable = false))) ∧
      ∃ v, reserveCopy (s.newBuf len 0 traits) s.bufs.length x len traits =
        .ok ((s.newBuf len 0 traits).setBuf s.bufs.length z) v := by
    unfold reserveCopy
    have hz : (s.newBuf len 0 traits).buf? s.bufs.length = some (State.fresh len 0 traits) := by
      rw [State.buf?_newBuf]; simp
    have same : (s.newBuf len 0 traits).setBuf s.bufs.length (State.fresh len 0 traits) = s.newBuf len 0 traits := by
      simp [State.setBuf, State.newBuf, State.fresh]
    split
    · rename_i c
      have te : x.traits = traits := c.1
      rw [hal, Nat.sub_zero]
      have bs := bufferSet_plain hz pt 0 (x.data.take (min x.used len)) true
      have e1 : (State.fresh len 0 traits).traits = traits := rfl
      have e2 : (State.fresh len 0 traits).size = allocSize len := by simp [State.fresh, Buf.size]
      rw [e1, e2] at bs
      have tl : (x.data.take (min x.used len)).length = min x.used len := by
        rw [List.length_take]; simp only [Buf.size] at hu; omega
      have asz := le_allocSize len
      rw [bs, if_neg (by rw [tl]; omega)]
      have zfacts : ∀ esz, esz = esize traits →
          let z := setPlain (State.fresh len 0 traits) esz 0 (x.data.take (min x.used len))
          z.ref = 1 ∧ z.used ≤ z.size ∧ PlainT z.traits ∧ z.used % esize z.traits = 0 ∧
          ((x.traits = traits ∧ x.uncopyable = false ∧ z.content = x.content.take len) ∨
            (z.content = [] ∧ ¬ (x.traits = traits ∧ x.uncopyable = false))) := by
        intro esz he
        rw [setPlain_fresh]
        refine ⟨rfl, ?_, pt, ?_, Or.inl ⟨te, by simpa using c.2.1, ?_⟩⟩
        · simp only [Buf.size]
          rw [write_length _ _ _ (by rw [tl, List.length_replicate]; omega), tl, List.length_replicate]; omega
        · show (x.data.take (min x.used len)).length % esize traits = 0
          rw [tl]
          exact min_mod (by rw [← te]; exact hal) lal
        · simp only [Buf.content]
          have := content_take_write (List.replicate (allocSize len) poison) (x.data.take (min x.used len))
            (by rw [tl, List.length_replicate]; omega)
          rw [this, List.take_take, Nat.min_comm]
      cases ht : traits with
      | none =>
        simp only
        have zf := zfacts 1 (by rw [ht]; rfl)
        rw [ht] at zf
        exact ⟨_, zf.1, zf.2.1, zf.2.2.1, zf.2.2.2.1, zf.2.2.2.2, _, rfl⟩
      | some t =>
        simp only
        have pts := pt t ht
        have m0 : (x.data.take (min x.used len)).length % t.size = 0 := by
          rw [tl]
          exact min_mod (by have := hal; rw [te, ht] at this; exact this) (by rw [ht] at lal; exact lal)
        rw [if_neg (by rw [m0]; simp [pts.2.2])]
        have zf := zfacts t.size (by rw [ht]; rfl)
        rw [ht] at zf
        exact ⟨_, zf.1, zf.2.1, zf.2.2.1, zf.2.2.2.1, zf.2.2.2.2, _, rfl⟩
    · rename_i nc
      refine ⟨State.fresh len 0 traits, rfl, by simp [State.fresh], pt, by simp [State.fresh], ?_, 0, ?_⟩
      · by_cases tc : x.traits = traits ∧ x.uncopyable = false
        · left
          refine ⟨tc.1, tc.2, ?_⟩
          have m0 : min (x.used - x.used % esize x.traits) len = 0 := by
            apply Decidable.byContradiction
            intro ne
            exact nc ⟨tc.1, by simp [tc.2], ne⟩
          rw [hal, Nat.sub_zero] at m0
          have : x.content.take len = [] := by
            apply List.eq_nil_of_length_eq_zero
            rw [List.length_take, content_length x hu]; omega
          rw [this]; simp [State.fresh, Buf.content]
        · right; exact ⟨by simp [State.fresh, Buf.content], tc⟩
      · rw [same]
  obtain ⟨z, zr, zu, zp, za, zc, v, hcopy⟩ := copy
  rw [hcopy]
  simp only
  have l2 : ((s.newBuf len 0 traits).setBuf s.bufs.length z).bufs.length = s.bufs.length + 1 := by simp
  have hb2 : ((s.newBuf len 0 traits).setBuf s.bufs.length z).buf? b = some x := by
    rw [State.buf?_setBuf _ _ _ _ (by simp), State.buf?_newBuf]
    have : ¬ b = s.bufs.length := fun e => nbne e.symm
    simp [this, hb]
  rw [unref_plain hb2 hp]
  have r0 : ¬ x.ref = 0 := by omega
  rw [if_neg r0]
  have final : ∀ s3 : State, s3.hs = s.hs →
      (∀ c, s3.buf? c = if c = s.bufs.length then some z else
        if c = b then (if x.ref = 1 then none else some { x with ref := x.ref - 1 }) else s.buf? c) →
      Sem (α := Nat) s h (fun v v' => (x.traits = traits ∧ x.uncopyable = false ∧ v' = v.take len) ∨ (v' = [] ∧ ¬ (x.traits = traits ∧ x.uncopyable = false))) (.ok (s3.setHandle h (some s.bufs.length)) s.bufs.length) := by
    intro s3 h3 b3
    have ret := Inv.retarget (s' := s3.setHandle h (some s.bufs.length)) inv (z := z) hlt hnb (by simp [h3])
      (by
        intro c
        rw [State.buf?_setHandle, b3]
        by_cases e1 : c = s.bufs.length
        · simp [e1]
        · simp only [e1, if_false, hh]
          by_cases e2 : c = b
          · subst e2; simp [hb]
          · have : ¬ some b = some c := by intro e; cases e; exact e2 rfl
            simp [e2, this])
      zr zu zp za
    refine ⟨ret.1, by simp [h3], ?_, ret.2.2.2⟩
    rw [ret.2.2.1, absx]
    rcases zc with ⟨e1, e2, e3⟩ | ⟨e1, e2⟩
    · exact Or.inl ⟨e1, e2, e3⟩
    · exact Or.inr ⟨e1, e2⟩
  have bne : ¬ b = s.bufs.length := fun e => nbne e.symm
  by_cases r1 : x.ref = 1
  · simp only [r1, ne_eq, not_true_eq_false, if_false]
    apply final
    · simp
    · intro c
      rw [State.buf?_freeBuf _ _ _ (by simp; omega), State.buf?_setBuf _ _ _ _ (by simp; omega),
        State.buf?_setBuf _ _ _ _ (by simp), State.buf?_newBuf]
      by_cases e1 : c = s.bufs.length
      · subst e1; simp [nbne]
      · by_cases e2 : c = b
        · rw [e2]; simp [bne, r1]
        · simp [e1, e2]
  · simp only [r1, ne_eq, not_false_eq_true, if_true]
    apply final
    · simp
    · intro c
      rw [State.buf?_setBuf _ _ _ _ (by simp; omega), State.buf?_setBuf _ _ _ _ (by simp), State.buf?_newBuf]
      by_cases e1 : c = s.bufs.length
      · subst e1; simp [nbne]
      · by_cases e2 : c = b
        · rw [e2]; simp [bne, r1]
        · simp [e1, e2]


theorem reserveFini_plain (s : State) (b : Nat) (x : Buf) (hp : PlainT x.traits) : reserveFini s b x = .ok s () := by
  unfold reserveFini
  cases ht : x.traits with
  | none => rfl
  | some t => simp [(hp t ht).2.1]

theorem reserveClear_plain (s : State) (b : Nat) (x : Buf) (traits : Option Traits) (hb : s.buf? b = some x)
    (hp : PlainT x.traits) :
    reserveClear s b x traits = if x.traits ≠ traits then .ok (s.setBuf b { x with used := 0 }) () else .ok s () := by
  unfold reserveClear
  rw [reserveFini_plain s b x hp]
  have fn : (x.traits.bind (·.fini)).isNone = true := by
    cases ht : x.traits with
    | none => rfl
    | some t => simp [(hp t ht).2.1]
  by_cases ne : x.traits = traits
  · simp [ne]
  · simp only [ne, ne_eq, not_false_eq_true, fn, true_or, or_true, and_self, if_true, hb]

/-- detaching an unshared plain buffer cannot be refused -/
theorem detach_private_no_fail {s : State} {b : Nat} {x : Buf} (hb : s.buf? b = some x) (hp : PlainT x.traits)
    (r1 : x.ref = 1) (n : Nat) (s' : State) (e : Fail) : detach s b n ≠ .fail s' e := by
  have esz0 : esize x.traits ≠ 0 := by
    cases ht : x.traits with
    | none => simp [esize]
    | some t => simp only [esize]; exact (hp t ht).2.2
  have blt := State.buf?_lt hb
  unfold detach
  rw [hb]
  simp only
  rw [if_neg esz0]
  split
  · intro c; cases c
  · rw [if_neg (by omega), if_neg (by omega)]
    unfold detachMove
    have ft : ∀ s2, finiTail s2 b x (roundUp n (esize x.traits)) = .ok s2 () := by
      intro s2
      unfold finiTail
      split
      · cases ht : x.traits with
        | none => rfl
        | some t => simp [(hp t ht).2.1]
      · rfl
    rw [ft]
    simp only
    split
    · split
      · intro c; cases c
      · intro c; cases c
    · intro c; cases c

theorem reserveKeep_sem {s : State} (inv : Inv s) {h b : Nat} {x : Buf} (hh : s.handle h = some b)
    (hb : s.buf? b = some x) (priv : x.shared = false) (mu : x.immutable = false) (n len : Nat) (nlen : n ≤ len)
    (traits : Option Traits) (pt : PlainT traits) :
    Sem s h (fun v v' => v' = v ∨ (v' = [] ∧ x.traits ≠ traits)) (reserveKeep s h b x len traits) := by
  have hu := inv.used b x hb
  have hal := inv.aligned b x hb
  have hp := inv.plain b x hb
  have hr := inv.ref b x hb
  have blt := State.buf?_lt hb
  have r1 : x.ref = 1 := by simp [Buf.shared] at priv; omega
  have absx : s.abs h = x.content := State.abs_of hh hb
  unfold reserveKeep
  rw [reserveClear_plain s b x traits hb hp]
  -- the state after the optional clearing, and its buffer
  have mid : ∃ s1 x1, (if x.traits ≠ traits then Out.ok (s.setBuf b { x with used := 0 }) () else Out.ok s ()) = Out.ok s1 () ∧
      Inv s1 ∧ s1.handle h = some b ∧ s1.buf? b = some x1 ∧ s1.hs = s.hs ∧ (∀ h', h' ≠ h → s1.abs h' = s.abs h') ∧
      x1.traits = x.traits ∧ ((x.traits ≠ traits ∧ x1.content = []) ∨ (x.traits = traits ∧ x1.content = x.content)) ∧
      (x.traits ≠ traits → x1.used = 0) ∧ x1.flags = x.flags := by
    by_cases ne : x.traits = traits
    · exact ⟨s, x, by simp [ne], inv, hh, hb, rfl, fun _ _ => rfl, rfl, Or.inr ⟨ne, rfl⟩, fun c => absurd ne c, rfl⟩
    · have pm := inv.setBuf_private hh hb r1 { x with used := 0 } r1 (by simp) hp (by simp)
      refine ⟨_, { x with used := 0 }, by simp [ne], pm.1, by simpa using hh, ?_, rfl, pm.2.2, rfl,
        Or.inl ⟨ne, by simp [Buf.content]⟩, fun _ => rfl, rfl⟩
      rw [State.buf?_setBuf _ _ _ _ blt]; simp
  obtain ⟨s1, x1, he, inv1, hh1, hb1, hs1, oth1, xt1, xc1, xu1, xf1⟩ := mid
  rw [he]
  simp only
  have es := ensure_sem inv1 hh1 hb1 true len (by intro e; cases e)
  have r11 : x1.ref = 1 := by
    have := inv1.ref b x1 hb1
    rw [hs1] at this
    omega
  have nofail : ∀ s2 e, ensure s1 h b true len ≠ .fail s2 e := by
    intro s2 e
    unfold ensure
    simp only [if_true]
    have := detach_private_no_fail hb1 (inv1.plain b x1 hb1) r11 len
    cases hd : detach s1 b len with
    | ok a b' => simp
    | fail a e' => exact absurd hd (this a e')
    | fault w => simp
  generalize hr' : ensure s1 h b true len = r at es nofail
  cases r with
  | fault w => exact es
  | fail s2 e => exact absurd rfl (nofail s2 e)
  | ok s2 nb =>
    simp only
    have dp : DetachPost s1 h x1 len s2 nb := es
    obtain ⟨inv2, len2, oth2, hh2, z, hz, zr, zi, zs, zt, k, hk, zc, ktr⟩ := dp
    rw [hz]
    simp only
    have zu := inv2.used nb z hz
    have za := inv2.aligned nb z hz
    have pm := inv2.setBuf_private hh2 hz zr { z with traits := traits } zr zu pt
      (by
        show z.used % esize traits = 0
        by_cases ne : x.traits = traits
        · rw [← ne, ← xt1, ← zt]; exact za
        · have u0 := xu1 ne
          have : z.content.length = 0 := by rw [zc]; simp [Buf.content, u0]
          rw [content_length z zu] at this
          simp [this])
    refine ⟨pm.1, by simp [len2, hs1], ?_, ?_⟩
    · rw [pm.2.1, absx]
      show z.content = x.content ∨ (z.content = [] ∧ x.traits ≠ traits)
      -- a private, mutable buffer is never truncated by detach
      have kfull : x1.used ≤ k := by
        apply Decidable.byContradiction
        intro lt
        have := (ktr (by omega)).1
        simp only [Buf.immutable, xf1] at this mu
        rw [mu] at this; cases this
      have zc' : z.content = x1.content := by
        rw [zc]
        exact List.take_of_length_le (by rw [content_length x1 (inv1.used b x1 hb1)]; exact kfull)
      rw [zc']
      rcases xc1 with ⟨c0, c1⟩ | ⟨c0, c1⟩
      · right; exact ⟨c1, c0⟩
      · left; exact c1
    · intro h' ne; rw [pm.2.2 h' ne, oth2 h' ne]; exact oth1 h' ne


theorem esize_ne_zero_of_plain (t : Option Traits) (pt : PlainT t) : esize t ≠ 0 := by
  cases ht : t with
  | none => simp [esize]
  | some x => simp only [esize]; exact (pt x ht).2.2

theorem le_reserveLen (x : Buf) (len : Nat) (traits : Option Traits) : len ≤ reserveLen x len traits := by
  unfold reserveLen
  split
  · exact Nat.le_max_left _ _
  · exact Nat.le_refl _

theorem reserveLen_mod (x : Buf) (len : Nat) (traits : Option Traits) (h : len % esize traits = 0) :
    reserveLen x len traits % esize traits = 0 := by
  unfold reserveLen
  split
  · rename_i c
    rw [c.1]
    have e : (x.used - x.used % esize traits) % esize traits = 0 := by
      have := Nat.div_add_mod x.used (esize traits)
      have e2 : x.used - x.used % esize traits = esize traits * (x.used / esize traits) := by omega
      rw [e2]; exact Nat.mul_mod_right _ _
    rw [Nat.max_def]
    split
    · exact e
    · exact h
  · exact h

/-- what `mpt_array_reserve` may do to the value of its handle: nothing, or — only when the element type changes —
    drop it -/
def ReserveRel (s : State) (h : Nat) (traits : Option Traits) (v v' : Vec.Vec) : Prop :=
  v' = v ∨ (typeDiffers s h traits = true ∧ v' = [])

theorem reserve_sem {s : State} (inv : Inv s) {h : Nat} (hlt : h < s.hs.length) (n : Nat) (traits : Option Traits)
    (pt : PlainT traits) :
    Sem s h (ReserveRel s h traits) (arrayReserve s h n traits) := by
  have e0 := esize_ne_zero_of_plain traits pt
  unfold arrayReserve
  rw [if_neg e0]
  have nlen : n ≤ roundUp n (esize traits) := le_roundUp _ _
  have lal := roundUp_mod n (esize traits) e0
  cases hh : s.handle h with
  | none =>
    simp only [reserveNew]
    obtain ⟨dp, absx⟩ := attach_fresh inv hlt hh (roundUp n (esize traits)) traits pt
    obtain ⟨inv1, len1, oth1, hh1, z, hz, _, _, _, _, k, _, zc, _⟩ := dp
    refine ⟨inv1, len1, Or.inl ?_, oth1⟩
    rw [State.abs_of hh1 hz, zc, State.abs_none hh]
    simp [State.fresh, Buf.content]
  | some b =>
    simp only
    obtain ⟨x, hb⟩ := inv.live h b hh
    rw [hb]
    simp only
    have hu := inv.used b x hb
    have hal := inv.aligned b x hb
    have absx : s.abs h = x.content := State.abs_of hh hb
    have bx : (s.handle h).bind s.buf? = some x := by rw [hh]; simp [hb]
    split
    · by_cases guard : x.traits = traits ∧ x.uncopyable = true ∧ x.used - x.used % esize x.traits ≠ 0
      · rw [if_pos guard]; exact Sem.fail_same inv _ _ _
      · rw [if_neg guard]
        have rs := reserveNew_shared_sem inv hh hb n _ (Nat.le_trans nlen (le_reserveLen x _ traits)) traits pt (reserveLen_mod x _ traits lal)
        generalize reserveNew s h (some b) (reserveLen x (roundUp n (esize traits)) traits) traits = r at rs
        cases r with
        | fault w => exact rs
        | fail s1 e => exact rs
        | ok s1 v =>
          refine ⟨rs.1, rs.2.1, ?_, rs.2.2.2⟩
          have cl := content_length x hu
          rcases rs.2.2.1 with ⟨te, cp, e⟩ | ⟨e, nc⟩
          · left
            rw [e]
            apply List.take_of_length_le
            rw [absx, cl]
            unfold reserveLen
            rw [if_pos ⟨te, by simp [cp]⟩, hal]
            exact Nat.le_max_right _ _
          · by_cases te : x.traits = traits
            · left
              have unc : x.uncopyable = true := by
                cases hc : x.uncopyable with
                | true => rfl
                | false => exact absurd ⟨te, hc⟩ nc
              have u0 : x.used = 0 := by
                apply Decidable.byContradiction
                intro ne
                exact guard ⟨te, unc, by rw [hal]; omega⟩
              rw [e, absx]
              exact (List.eq_nil_of_length_eq_zero (by rw [cl]; exact u0)).symm
            · exact Or.inr ⟨by simp [typeDiffers, bx, te], e⟩
    · rename_i priv
      simp only [not_or, Bool.not_eq_true] at priv
      have rk := reserveKeep_sem inv hh hb priv.1 priv.2 n _ nlen traits pt
      generalize reserveKeep s h b x (roundUp n (esize traits)) traits = r at rk
      cases r with
      | fault w => exact rk
      | fail s1 e => exact rk
      | ok s1 v =>
        refine ⟨rk.1, rk.2.1, ?_, rk.2.2.2⟩
        rcases rk.2.2.1 with e | ⟨e, ne⟩
        · exact Or.inl e
        · exact Or.inr ⟨by simp [typeDiffers, bx, ne], e⟩

end Mpt.Heap
