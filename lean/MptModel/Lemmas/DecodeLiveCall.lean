/-
  Helper lemmas for C02 (core Lean only), liveness of one decoder call on data in any segments: the work area
  invariant `SlackOk` is kept by every call, and a call whose unread input contains the delimiter of a valid
  frame delivers or asks for work area.
-/
import MptModel.Lemmas.DecodeLive
import MptModel.Lemmas.DecodeCall
namespace Mpt.Codec
open Mpt.Cobs

/-- entry into the block loop from a state with an open block: the decoded bytes end where they ended -/
theorem decPrep_mid_done (st : DecState) (segs : List Seg) (store2 : List Byte) (st' : DecState) (l : Loc) (c p : Nat)
    (hmsg : st.msg = none) (hctx : st.ctx = p * 256 + c) (hc0 : 0 < c) (hc : c < 256)
    (h : decPrep st segs store2 false = .inr (st', l)) : l.done + l.mlen = st.pos + st.len := by
  have hprev : decPrev st = (st, st.pos, st.len) := by simp [decPrev, hmsg]
  have hcne : ¬ (st.ctx % 256 = 0) := by rw [hctx, ctx_code c p hc]; omega
  unfold decPrep decEnter at h
  simp only [hprev, hmsg, Option.isSome_none, Bool.false_eq_true, false_and, if_false, hcne] at h
  repeat' split at h
  all_goals first
    | (cases h; done)
    | (simp only [Sum.inr.injEq, Prod.mk.injEq] at h; obtain ⟨_, rfl⟩ := h; first | omega | (simp only; omega) | rfl)

/-- facts about the exit of a call for liveness -/
structure LiveOut (v : Variant) (o : DecOut) (slack : Nat) (pre : List Byte) : Prop where
  ok : SlackOk v o.st
  ret : o.ret = .val 1 ∨ o.ret = .err .MissingData ∨ o.ret = .err .MissingBuffer
  enough : pre.length + 2 ≤ slack → o.ret ≠ .err .MissingBuffer

/-- a call inside a frame whose delimiter has arrived -/
theorem mid_live0 (v : Variant) (segs : List Seg) (st : DecState) (store : List Byte) (c p : Nat)
    (hflat : flat segs = store) (hb : Bnd store.length st) (hs : SlackOk v st)
    (hmsg : st.msg = none) (hctx : st.ctx = p * 256 + c) (hc0 : 0 < c) (hc : c < 256) (hp : p < 256)
    (pre junk : List Byte) (hun : store.drop st.curr = pre ++ 0 :: junk) (hnz : ∀ x ∈ pre, x ≠ 0) :
    LiveOut v (decodeCobs v st segs false) (st.curr - (st.pos + st.len)) pre := by
  obtain ⟨st', l, hprep⟩ := decPrep_noerr st segs store hb
  obtain ⟨h1, h2, h3, h4, h5, h6, h7, h8, h9, h10⟩ := decPrep_mid st _ _ st' l c p hmsg hctx hc0 hc hp hprep
  have hd := decPrep_mid_done st segs store st' l c p hmsg hctx hc0 hc hprep
  have hproc : l.proc = st.curr - (st.pos + st.len) := by simp only [Loc.r] at h5; omega
  have hjl : JL v l := by
    refine ⟨by rw [h2]; exact hc, by rw [h3]; exact hp, fun hlt => ?_⟩
    rw [h2, h3] at hlt
    have e1 : st.ctx / 256 = p := by omega
    have e2 : st.ctx % 256 = c := by omega
    have := hs.2 (by rw [e1, e2]; exact hlt)
    omega
  have hout : decodeCobs v st segs false = decLoop v st' false (l.store.length - l.r) l := by
    unfold decodeCobs
    simp only [Bool.false_eq_true, if_false, hflat, hprep]
    unfold decStart
    rw [if_neg (by omega)]
  have hl8 : l.r ≤ l.store.length := by rw [h1]; exact h8
  obtain ⟨a, b⟩ := decLoop_live v st' (l.store.length - l.r) l (by omega) hjl h6
  obtain ⟨b1, b2⟩ := b pre junk (by rw [h1, h5]; exact hun) hnz
  rw [hout]
  exact ⟨a, b1, by rw [← hproc]; exact b2⟩

/-- a call between two messages that finds a frame whose delimiter has arrived -/
theorem fresh_live0 (v : Variant) (segs : List Seg) (st : DecState) (store : List Byte) (hflat : flat segs = store)
    (hb : Bnd store.length st) (hf : Fresh st) (c0 : Byte) (pre junk : List Byte)
    (hU : store.drop st.curr = c0 :: (pre ++ 0 :: junk)) (hc0 : c0 ≠ 0) (hnz : ∀ x ∈ pre, x ≠ 0) :
    LiveOut v (decodeCobs v st segs false) 0 pre := by
  obtain ⟨st', l, hprep⟩ := decPrep_noerr st segs store hb
  obtain ⟨h1, h2, h3, h4, h5, h6, h7⟩ := decPrep_fresh st _ store st' l hf hprep
  have hc : l.store[l.r]? = some c0 := by
    rw [h1, h5]
    have := congrArg (fun x => x[0]?) hU
    simpa using this
  have hlt : l.r < l.store.length := by
    rcases Nat.lt_or_ge l.r l.store.length with h | h
    · exact h
    · simp [List.getElem?_eq_none h] at hc
  have hdrop : l.store.drop (l.r + 1) = pre ++ 0 :: junk := by
    rw [h1, h5]
    have := congrArg (List.drop 1) hU
    simpa [List.drop_drop, Nat.add_comm] using this
  have hr1 : ({ l with proc := l.proc + 1, code := c0.toNat, reads := [l.r] } : Loc).r = l.r + 1 := by
    simp only [Loc.r]; omega
  have hout : decodeCobs v st segs false =
      decLoop v st' false (l.store.length - (l.r + 1)) { l with proc := l.proc + 1, code := c0.toNat, reads := [l.r] } := by
    unfold decodeCobs
    simp only [Bool.false_eq_true, if_false, hflat, hprep]
    unfold decStart
    rw [if_pos h2, hc]
    simp only [hc0, if_false]
  obtain ⟨a, b⟩ := decLoop_live v st' (l.store.length - (l.r + 1)) { l with proc := l.proc + 1, code := c0.toNat, reads := [l.r] }
    (by rw [hr1]; simp only; omega) ⟨UInt8.toNat_lt c0, by simp only; omega, fun _ => by simp only; omega⟩ h6
  obtain ⟨b1, _⟩ := b pre junk (by rw [hr1]; exact hdrop) hnz
  rw [hout]
  exact ⟨a, b1, fun h => by omega⟩

end Mpt.Codec
