/-
  Helper lemmas for C02 (core Lean only), liveness of one decoder call on data in any segments: the work area
  invariant `SlackOk` is kept by every call, and a call whose unread input contains the delimiter of a valid
  frame delivers or asks for work area.
-/
import MptModel.Lemmas.DecodeLive
import MptModel.Lemmas.DecodeCall
namespace Mpt.Codec
open Mpt.Cobs

/-- entry into the block loop from a state with an open block: the decoded bytes end where they ended -/
theorem decPrep_mid_done (st : DecState) (segs : List Seg) (store2 : List Byte) (st' : DecState) (l : Loc) (c p : Nat)
    (hmsg : st.msg = none) (hctx : st.ctx = p * 256 + c) (hc0 : 0 < c) (hc : c < 256)
    (h : decPrep st segs store2 false = .inr (st', l)) : l.done + l.mlen = st.pos + st.len := by
  have hprev : decPrev st = (st, st.pos, st.len) := by simp [decPrev, hmsg]
  have hcne : ¬ (st.ctx % 256 = 0) := by rw [hctx, ctx_code c p hc]; omega
  unfold decPrep decEnter at h
  simp only [hprev, hmsg, Option.isSome_none, Bool.false_eq_true, false_and, if_false, hcne] at h
  repeat' split at h
  all_goals first
    | (cases h; done)
    | (simp only [Sum.inr.injEq, Prod.mk.injEq] at h; obtain ⟨_, rfl⟩ := h; first | omega | (simp only; omega) | rfl)

/-- facts about the exit of a call for liveness -/
structure LiveOut (v : Variant) (o : DecOut) (slack : Nat) (unread : List Byte) : Prop where
  ok : SlackOk v o.st
  live : ∀ pre junk, unread = pre ++ 0 :: junk → (∀ x ∈ pre, x ≠ 0) →
    (o.ret = .val 1 ∨ o.ret = .err .MissingData ∨ o.ret = .err .MissingBuffer) ∧
    (pre.length + 2 ≤ slack → o.ret ≠ .err .MissingBuffer)

/-- a call inside a frame whose delimiter has arrived -/
theorem mid_live0 (v : Variant) (segs : List Seg) (st : DecState) (store : List Byte) (c p : Nat)
    (hflat : flat segs = store) (hb : Bnd store.length st) (hs : SlackOk v st)
    (hmsg : st.msg = none) (hctx : st.ctx = p * 256 + c) (hc0 : 0 < c) (hc : c < 256) (hp : p < 256) :
    LiveOut v (decodeCobs v st segs false) (st.curr - (st.pos + st.len)) (store.drop st.curr) := by
  obtain ⟨st', l, hprep⟩ := decPrep_noerr st segs store hb
  obtain ⟨h1, h2, h3, h4, h5, h6, h7, h8, h9, h10⟩ := decPrep_mid st _ _ st' l c p hmsg hctx hc0 hc hp hprep
  have hd := decPrep_mid_done st segs store st' l c p hmsg hctx hc0 hc hprep
  have hproc : l.proc = st.curr - (st.pos + st.len) := by simp only [Loc.r] at h5; omega
  have hjl : JL v l := by
    refine ⟨by rw [h2]; exact hc, by rw [h3]; exact hp, fun hlt => ?_⟩
    rw [h2, h3] at hlt
    have e1 : st.ctx / 256 = p := by omega
    have e2 : st.ctx % 256 = c := by omega
    have := hs.2 (by rw [e1, e2]; exact hlt)
    omega
  have hout : decodeCobs v st segs false = decLoop v st' false (l.store.length - l.r) l := by
    unfold decodeCobs
    simp only [Bool.false_eq_true, if_false, hflat, hprep]
    unfold decStart
    rw [if_neg (by omega)]
  have hl8 : l.r ≤ l.store.length := by rw [h1]; exact h8
  obtain ⟨a, b⟩ := decLoop_live v st' (l.store.length - l.r) l (by omega) hjl h6
  rw [hout]
  refine ⟨a, fun pre junk hun hnz => ?_⟩
  obtain ⟨b1, b2⟩ := b pre junk (by rw [h1, h5]; exact hun) hnz
  exact ⟨b1, by rw [← hproc]; exact b2⟩

/-- a call between two messages that finds a frame whose delimiter has arrived -/
theorem fresh_live0 (v : Variant) (segs : List Seg) (st : DecState) (store : List Byte) (hflat : flat segs = store)
    (hb : Bnd store.length st) (hf : Fresh st) (c0 : Byte) (U : List Byte)
    (hU : store.drop st.curr = c0 :: U) (hc0 : c0 ≠ 0) :
    LiveOut v (decodeCobs v st segs false) 0 U := by
  obtain ⟨st', l, hprep⟩ := decPrep_noerr st segs store hb
  obtain ⟨h1, h2, h3, h4, h5, h6, h7⟩ := decPrep_fresh st _ store st' l hf hprep
  have hc : l.store[l.r]? = some c0 := by
    rw [h1, h5]
    have := congrArg (fun x => x[0]?) hU
    simpa using this
  have hlt : l.r < l.store.length := by
    rcases Nat.lt_or_ge l.r l.store.length with h | h
    · exact h
    · simp [List.getElem?_eq_none h] at hc
  have hdrop : l.store.drop (l.r + 1) = U := by
    rw [h1, h5]
    have := congrArg (List.drop 1) hU
    simpa [List.drop_drop, Nat.add_comm] using this
  have hr1 : ({ l with proc := l.proc + 1, code := c0.toNat, reads := [l.r] } : Loc).r = l.r + 1 := by
    simp only [Loc.r]; omega
  have hout : decodeCobs v st segs false =
      decLoop v st' false (l.store.length - (l.r + 1)) { l with proc := l.proc + 1, code := c0.toNat, reads := [l.r] } := by
    unfold decodeCobs
    simp only [Bool.false_eq_true, if_false, hflat, hprep]
    unfold decStart
    rw [if_pos h2, hc]
    simp only [hc0, if_false]
  obtain ⟨a, b⟩ := decLoop_live v st' (l.store.length - (l.r + 1)) { l with proc := l.proc + 1, code := c0.toNat, reads := [l.r] }
    (by rw [hr1]; simp only; omega) ⟨UInt8.toNat_lt c0, by simp only; omega, fun _ => by simp only; omega⟩ h6
  rw [hout]
  refine ⟨a, fun pre junk hun hnz => ?_⟩
  obtain ⟨b1, _⟩ := b pre junk (by rw [hr1, hdrop]; exact hun) hnz
  exact ⟨b1, fun h => by omega⟩

/-- the same for the decoder selected by the variant -/
structure LiveOutV (v : Variant) (o : DecOut) (slack : Nat) (unread : List Byte) : Prop where
  ok : SlackOk v o.st
  live : ∀ pre junk, unread = pre ++ 0 :: junk → (∀ x ∈ pre, x ≠ 0) →
    (o.ret = .val 1 ∨ o.ret = .err .MissingBuffer ∨ (o.ret = .err .MissingData ∧ (v.tail = false ∨ o.st.ctx = 0))) ∧
    (pre.length + 2 ≤ slack → o.ret ≠ .err .MissingBuffer)

theorem lift_live (v : Variant) (st : DecState) (segs : List Seg) (slack : Nat) (unread : List Byte)
    (hwf : ∀ m, st.msg = some m → m = st.len)
    (h : LiveOut v (decodeCobs v st segs false) slack unread) : LiveOutV v (decodeV v st segs false) slack unread := by
  have hsafe := decodeCobs_safe v st segs false hwf
  have hplain : decodeV v st segs false = decodeCobs v st segs false →
      (decodeCobs v st segs false).ret = .err .MissingData → (v.tail = false ∨ (decodeCobs v st segs false).st.ctx = 0) →
      LiveOutV v (decodeV v st segs false) slack unread := by
    intro e hmd hor
    rw [e]
    refine ⟨h.ok, fun pre junk hu hnz => ?_⟩
    obtain ⟨a, b⟩ := h.live pre junk hu hnz
    exact ⟨Or.inr (Or.inr ⟨hmd, hor⟩), b⟩
  by_cases hmd : (decodeCobs v st segs false).ret = .err .MissingData
  · cases ht : v.tail
    · exact hplain (by unfold decodeV; simp [ht]) hmd (Or.inl ht)
    · by_cases hctx : (decodeCobs v st segs false).st.ctx ≠ 0
      · have hmd' := hsafe.md hmd
        have hlen := hsafe.len
        simp only [Bool.false_eq_true, if_false] at hmd' hlen
        unfold decodeV
        simp only [ht, if_true]
        unfold decodeCobsR
        simp only [Bool.false_eq_true, false_or]
        generalize decodeCobs v st segs false = o at hmd hctx hmd' hlen
        rw [if_pos ⟨hmd, hctx⟩, if_neg (by omega), if_pos (by omega)]
        exact ⟨slackOk_ctx0 v _ rfl, fun _ _ _ _ => ⟨Or.inl rfl, fun _ => by simp⟩⟩
      · refine hplain ?_ hmd (Or.inr (by simpa using hctx))
        unfold decodeV
        simp only [ht, if_true]
        unfold decodeCobsR
        simp only
        rw [if_neg (by intro hc; exact hctx hc.2)]
  · rw [decodeV_eq_of_ret v st segs hmd]
    refine ⟨h.ok, fun pre junk hu hnz => ?_⟩
    obtain ⟨a, b⟩ := h.live pre junk hu hnz
    rcases a with a | a | a
    · exact ⟨Or.inl a, b⟩
    · exact absurd a hmd
    · exact ⟨Or.inr (Or.inl a), b⟩

end Mpt.Codec
