/-
  Helper lemmas for C18: the 16-bit fraction code and the crossing fractions (core Lean only).
-/
import MptModel.Lemmas.Linepart
namespace Mpt.Linepart
open Mpt.Visible

theorem code_eq (f : Rat) (h0 : 0 ≤ f) (h1 : f ≤ 1) :
    code f = if f ≠ 0 ∧ f * 65536 < 1 then 1 else if 65535 < f * 65536 then 65535 else (f * 65536).floor := by
  unfold code
  rw [if_neg (by grind)]

theorem code_bounds (f : Rat) (h0 : 0 ≤ f) (h1 : f ≤ 1) : 0 ≤ code f ∧ code f ≤ 65535 := by
  rw [code_eq f h0 h1]
  split
  · omega
  · split
    · omega
    · constructor
      · rw [Rat.le_floor_iff]; grind
      · have : (f * 65536).floor < 65536 := by rw [Rat.floor_lt_iff]; grind
        omega

/-- a non-zero fraction gets a non-zero code -/
theorem code_pos (f : Rat) (h0 : 0 < f) (h1 : f ≤ 1) : 1 ≤ code f := by
  rw [code_eq f (by grind) h1]
  split
  · omega
  · rename_i hn
    split
    · omega
    · rw [Rat.le_floor_iff]
      have : ¬ (f * 65536 < 1) := by
        intro hc; exact hn ⟨by grind, hc⟩
      grind

theorem code_accuracy (f : Rat) (h0 : 0 ≤ f) (h1 : f ≤ 1) :
    real (code f) - f ≤ 1 / 65536 ∧ f - real (code f) ≤ 1 / 65536 := by
  rw [code_eq f h0 h1]
  unfold real
  split
  · rename_i h; constructor <;> grind
  · split
    · rename_i h; constructor <;> grind
    · have h2 := Rat.floor_le (f * 65536)
      have h3 := Rat.lt_floor_add_one (f * 65536)
      have h4 : (((f * 65536).floor + 1 : Int) : Rat) = ((f * 65536).floor : Rat) + 1 := by
        simp [Rat.intCast_add]
      rw [h4] at h3
      generalize ((f * 65536).floor : Rat) = c at h2 h3
      constructor <;> grind

theorem u16_code (f : Rat) (h0 : 0 ≤ f) (h1 : f ≤ 1) : u16 (code f) = (code f).toNat := by
  obtain ⟨a, b⟩ := code_bounds f h0 h1
  unfold u16
  rw [Int.emod_eq_of_lt a (by omega)]

theorem u16_le (c : Int) : u16 c ≤ 65535 := by
  unfold u16
  have := Int.emod_lt_of_pos c (show (0 : Int) < 65536 by omega)
  have := Int.emod_nonneg c (show (65536 : Int) ≠ 0 by omega)
  omega

theorem out_iff (r : Range) (x : Rat) : out r x = true ↔ (x < r.min ∨ r.max < x) := by
  unfold out; simp

theorem has_iff (r : Range) (x : Rat) : r.has x = true ↔ (r.min ≤ x ∧ x ≤ r.max) := by
  unfold Range.has; simp

/-- the fraction handed to `mpt_linepart_code` is the crossing fraction of the segment from the invisible
    value `a` to the visible value `b` with the bound next to `a` -/
theorem cutFrac_crossing (r : Range) (a b : Rat) (ha : out r a = true) (hb : r.has b = true) :
    cutFrac r a b = crossing a b (nearBound r a) ∧
    0 < crossing a b (nearBound r a) ∧ crossing a b (nearBound r a) ≤ 1 ∧
    a + crossing a b (nearBound r a) * (b - a) = nearBound r a := by
  rw [out_iff] at ha
  rw [has_iff] at hb
  unfold cutFrac crossing nearBound
  by_cases h : a < r.min
  · simp only [h, ↓reduceIte]
    have hpos : 0 < b - a := by grind
    refine ⟨trivial, ?_, ?_, ?_⟩
    · rw [Rat.lt_div_iff hpos]; grind
    · apply Rat.not_lt.1; intro hc
      rw [Rat.lt_div_iff hpos] at hc; grind
    · rw [Rat.div_mul_cancel (by grind)]; grind
  · simp only [h, ↓reduceIte]
    have hm : r.max < a := by grind
    have hpos : 0 < a - b := by grind
    have e : (r.max - a) / (b - a) = (a - r.max) / (a - b) := by
      have : (r.max - a) / (b - a) = (-(a - r.max)) / (-(a - b)) := by congr 1 <;> grind
      rw [this]; grind
    rw [e]
    refine ⟨rfl, ?_, ?_, ?_⟩
    · rw [Rat.lt_div_iff hpos]; grind
    · apply Rat.not_lt.1; intro hc
      rw [Rat.lt_div_iff hpos] at hc; grind
    · have : (a - r.max) / (a - b) * (b - a) = -((a - r.max) / (a - b) * (a - b)) := by grind
      rw [this, Rat.div_mul_cancel (by grind)]; grind

theorem trimFrac_eq (r : Range) (prev x : Rat) : trimFrac r prev x = cutFrac r x prev := rfl


set_option linter.unusedSimpArgs false in
theorem core_cut (r : Range) (ys : List Rat) (hc : headCut r ys = true) (x0 x1 : Rat)
    (h0 : ys[0]? = some x0) (h1 : ys[1]? = some x1) :
    (linearCore r ys).cut = u16 (code (cutFrac r x0 x1)) := by
  match ys, hc, h0, h1 with
  | y0 :: y1 :: rest, hc, h0, h1 =>
    simp at h0 h1; subst h0; subst h1
    rw [linearCore_eq]
    split <;> simp only [hc, ↓reduceIte, cutCode]

theorem core_trim (r : Range) (ys : List Rat) (hlt : bIdx r ys < ys.length) (hz : bIdx r ys ≠ 0)
    (prev x : Rat) (hp : ys[bIdx r ys - 1]? = some prev) (hx : ys[bIdx r ys]? = some x) :
    (linearCore r ys).trim = u16 (code (trimFrac r prev x)) := by
  rw [linearCore_eq, if_neg (by omega)]
  simp only [hz, ne_eq, not_false_eq_true, ↓reduceIte, List.getD_eq_getElem?_getD, hp, hx, Option.getD_some]

/-- the point in front of the stop index is visible -/
theorem bIdx_prev_inside (r : Range) (ys : List Rat) (h : 0 < bIdx r ys) : insideAt r ys (bIdx r ys - 1) := by
  by_cases h1 : bIdx r ys = 1
  · have hc : headCut r ys = false := by
      by_cases hc : headCut r ys = true
      · unfold bIdx kIdx at h1; simp only [hc, ↓reduceIte] at h1; omega
      · simpa using hc
    rw [h1]; exact bIdx_inside0 r ys hc h
  · exact bIdx_inside r ys _ (by omega) (by omega)

/-- the last drawn point is invisible exactly in the "trim" case of the counting loop -/
theorem core_trim_case (r : Range) (ys : List Rat) (h2 : 2 ≤ (linearCore r ys).usr)
    (hn : ¬ insideAt r ys ((linearCore r ys).usr - 1)) :
    bIdx r ys < ys.length ∧ bIdx r ys ≠ 0 ∧ (linearCore r ys).usr = bIdx r ys + 1 := by
  have hb := bIdx_le r ys
  rw [linearCore_eq] at h2 hn ⊢
  by_cases hd : bIdx r ys = ys.length
  · rw [if_pos hd] at h2 hn
    simp only [] at h2 hn
    exact absurd (bIdx_prev_inside r ys (by omega)) hn
  · rw [if_neg hd] at h2 ⊢
    by_cases hz : bIdx r ys = 0
    · simp only [hz] at h2; simp at h2
    · refine ⟨by omega, hz, ?_⟩
      simp only [hz, ne_eq, not_false_eq_true, ↓reduceIte]

end Mpt.Linepart
