/-
  Helper lemmas for C13, part 3: memrev (block rotation), align, resize, string (core Lean only).
-/
import MptModel.Lemmas.Ring2
namespace Mpt
namespace Ring

/-- `s'` is `s` with `[pos, pos+pre+post)` rotated left by `pre` -/
def Rotated (s s' : List Byte) (pos pre post : Nat) : Prop :=
  s'.length = s.length ∧
  ∀ i, s'[i]? = if pos ≤ i ∧ i < pos + post then s[i + pre]?
               else if pos + post ≤ i ∧ i < pos + post + pre then s[i - post]? else s[i]?

theorem rotateTmp_spec (s : List Byte) (pos pre post : Nat) (h : pos + pre + post ≤ s.length) :
    ∃ s', rotateTmp s pos pre post = .ok s' ∧ Rotated s s' pos pre post := by
  unfold rotateTmp Rotated
  rw [Mem.rd_ok _ _ _ (by omega), Mem.rd_ok _ _ _ (by omega)]
  simp only []
  have hl : (Mem.read s (pos + pre) post ++ Mem.read s pos pre).length = post + pre := by
    rw [List.length_append, Mem.read_length _ _ _ (by omega), Mem.read_length _ _ _ (by omega)]
  rw [Mem.wr_ok _ _ _ (by omega)]
  refine ⟨_, rfl, Mem.write_length _ _ _ (by omega), ?_⟩
  intro i
  rw [Mem.getElem?_write _ _ _ _ (by omega), hl, List.getElem?_append, Mem.read_length _ _ _ (by omega),
    Mem.getElem?_read, Mem.getElem?_read]
  ite_idx

theorem memswap_spec (s : List Byte) (a b len : Nat) (hab : a + len ≤ b) (hb : b + len ≤ s.length) :
    ∃ s', memswap s a b len = .ok s' ∧ s'.length = s.length ∧
      ∀ i, s'[i]? = if a ≤ i ∧ i < a + len then s[i + (b - a)]?
                   else if b ≤ i ∧ i < b + len then s[i - (b - a)]? else s[i]? := by
  unfold memswap
  rw [Mem.rd_ok _ _ _ (by omega), Mem.rd_ok _ _ _ (by omega)]
  simp only []
  have hla := Mem.read_length s a len (by omega)
  have hlb := Mem.read_length s b len (by omega)
  rw [Mem.wr_ok _ _ _ (by omega)]
  simp only []
  have hw := Mem.write_length s a (Mem.read s b len) (by omega)
  rw [Mem.wr_ok _ _ _ (by omega)]
  refine ⟨_, rfl, by rw [Mem.write_length _ _ _ (by omega), hw], ?_⟩
  intro i
  rw [Mem.getElem?_write _ _ _ _ (by omega), hla, Mem.getElem?_write _ _ _ _ (by omega), hlb,
    Mem.getElem?_read, Mem.getElem?_read]
  ite_idx

theorem memrevLoop_spec (s : List Byte) (data pre post : Nat) (h : data + pre + post ≤ s.length) :
    ∃ s', memrevLoop s data pre post = .ok s' ∧ Rotated s s' data pre post := by
  fun_induction memrevLoop s data pre post with
  | case1 s data pre post h0 =>
    refine ⟨s, rfl, rfl, ?_⟩
    intro i
    rcases h0 with h0 | h0 <;> subst h0 <;> ite_idx
  | case2 s data pre post _ _ => exact rotateTmp_spec s data pre post h
  | case3 s data pre post _ _ _ => exact rotateTmp_spec s data pre post h
  | case4 s data pre post h0 h1 h2 hlt s1 he ih =>
    obtain ⟨s1', he', hl1, hs1⟩ := memswap_spec s data (data + pre) pre (by omega) (by omega)
    rw [he] at he'; cases he'
    obtain ⟨s', hr, hl', hs'⟩ := ih (by omega)
    refine ⟨s', hr, by omega, ?_⟩
    intro i
    rw [hs']
    simp only [hs1]
    clear hs' hs1 hr he ih
    ite_idx
  | case5 s data pre post h0 h1 h2 hlt hne =>
    exfalso
    obtain ⟨s1', he', _⟩ := memswap_spec s data (data + pre) pre (by omega) (by omega)
    exact hne s1' he'
  | case6 s data pre post h0 h1 h2 hlt s1 he ih =>
    obtain ⟨s1', he', hl1, hs1⟩ := memswap_spec s (data + (pre - post)) (data + pre) post (by omega) (by omega)
    rw [he] at he'; cases he'
    obtain ⟨s', hr, hl', hs'⟩ := ih (by omega)
    refine ⟨s', hr, by omega, ?_⟩
    intro i
    rw [hs']
    simp only [hs1]
    clear hs' hs1 hr he ih
    ite_idx
  | case7 s data pre post h0 h1 h2 hlt hne =>
    exfalso
    obtain ⟨s1', he', _⟩ := memswap_spec s (data + (pre - post)) (data + pre) post (by omega) (by omega)
    exact hne s1' he'

theorem memrev_spec (s : List Byte) (pos pre len : Nat) (hp : pre ≤ len) (h : pos + len ≤ s.length) :
    ∃ s', memrev s pos pre len = .ok s' ∧ Rotated s s' pos pre (len - pre) := by
  unfold memrev
  rw [if_neg (by omega)]
  exact memrevLoop_spec s pos pre (len - pre) (by omega)

/-- same logical content, stated on physical positions -/
theorem content_eq_of_phys (r r' : Ring) (h1 : r.len ≤ r.store.length) (h2 : r.off ≤ r.store.length)
    (h1' : r'.len ≤ r'.store.length) (h2' : r'.off ≤ r'.store.length) (hl : r'.len = r.len)
    (H : ∀ i, i < r.len → phys r'.store r'.off i = phys r.store r.off i) : r'.content = r.content := by
  apply List.ext_getElem?; intro i
  rw [getElem?_content' _ _ h1 h2, getElem?_content' _ _ h1' h2', hl]
  split
  · exact H i (by assumption)
  · rfl

theorem alignFlat_spec (r : Ring) (h : r.WF) (hf : r.store.length - r.len < r.off) :
    ∃ r1, r.alignFlat = .ok r1 ∧ r1.WF ∧ r1.off = 0 ∧ r1.len = r.len ∧ r1.store.length = r.store.length
      ∧ r1.content = r.content := by
  obtain ⟨h1, h2⟩ := h
  unfold alignFlat
  simp only [max]
  by_cases hpv : r.store.length - r.len ≠ 0
  · rw [if_pos hpv, Mem.mv_ok _ _ _ _ (by omega) (by omega)]
    simp only []
    have hml := Mem.move_length r.store (r.off - (r.store.length - r.len)) r.off (r.store.length - r.off)
      (by omega) (by omega)
    have hm := fun i => Mem.getElem?_move r.store (r.off - (r.store.length - r.len)) r.off
      (r.store.length - r.off) i (by omega) (by omega)
    obtain ⟨s2, he, hl2, hs2⟩ := memrev_spec
      (Mem.move r.store (r.off - (r.store.length - r.len)) r.off (r.store.length - r.off)) 0
      (r.off - (r.store.length - r.len)) r.len (by omega) (by omega)
    rw [he]
    simp only []
    refine ⟨_, rfl, ⟨by simp only []; omega, by simp only []; omega⟩, rfl, rfl, by simp only []; omega, ?_⟩
    refine content_eq_of_phys r ⟨s2, r.len, 0⟩ h1 h2 (by simp only []; omega) (by simp only []; omega) rfl ?_
    intro i hi
    unfold phys
    simp only [hs2, hm, hl2, hml]
    clear hs2 hm he
    ite_idx
  · rw [if_neg hpv]
    simp only []
    obtain ⟨s2, he, hl2, hs2⟩ := memrev_spec r.store 0 r.off r.len (by omega) (by omega)
    rw [he]
    simp only []
    refine ⟨_, rfl, ⟨by simp only []; omega, by simp only []; omega⟩, rfl, rfl, by simp only []; omega, ?_⟩
    refine content_eq_of_phys r ⟨s2, r.len, 0⟩ h1 h2 (by simp only []; omega) (by simp only []; omega) rfl ?_
    intro i hi
    unfold phys
    simp only [hs2, hl2]
    clear hs2 he
    ite_idx

theorem alignMove_spec (r : Ring) (h : r.WF) (pos : Nat) (hc : r.off + r.len ≤ r.store.length)
    (hp : pos ≤ r.store.length) :
    ∃ r1, r.alignMove pos = .ok r1 ∧ r1.WF ∧ r1.off = pos ∧ r1.len = r.len
      ∧ r1.store.length = r.store.length ∧ r1.content = r.content := by
  obtain ⟨h1, h2⟩ := h
  unfold alignMove
  simp only [max]
  by_cases hfit : r.store.length - r.len ≥ pos
  · rw [if_pos hfit, Mem.mv_ok _ _ _ _ (by omega) (by omega)]
    simp only []
    have hml := Mem.move_length r.store pos r.off r.len (by omega) (by omega)
    have hm := fun i => Mem.getElem?_move r.store pos r.off r.len i (by omega) (by omega)
    refine ⟨_, rfl, ⟨by simp only []; omega, by simp only []; omega⟩, rfl, rfl, hml, ?_⟩
    refine content_eq_of_phys r ⟨_, r.len, pos⟩ h1 h2 (by simp only []; omega) (by simp only []; omega) rfl ?_
    intro i hi
    unfold phys
    simp only [hm, hml]
    clear hm
    ite_idx
  · rw [if_neg hfit]
    obtain ⟨s1, he, hl1, hs1⟩ := memrev_spec r.store r.off (r.store.length - pos) r.len (by omega) (by omega)
    rw [he]
    simp only []
    -- upper part
    have hup : ∃ s2, (if r.store.length - pos ≠ 0 ∧ pos ≠ r.off + r.len - (r.store.length - pos) then
          Mem.mv s1 pos (r.off + r.len - (r.store.length - pos)) (r.store.length - pos) else Res.ok s1) = .ok s2
        ∧ s2.length = r.store.length ∧
        ∀ i, s2[i]? = if pos ≤ i ∧ i < r.store.length then s1[r.off + r.len - (r.store.length - pos) + (i - pos)]?
                      else s1[i]? := by
      split
      · rw [Mem.mv_ok _ _ _ _ (by omega) (by omega)]
        refine ⟨_, rfl, by rw [Mem.move_length _ _ _ _ (by omega) (by omega), hl1], ?_⟩
        intro i
        rw [Mem.getElem?_move _ _ _ _ _ (by omega) (by omega)]
        ite_idx
      · refine ⟨s1, rfl, hl1, ?_⟩
        intro i
        split
        · congr 1; omega
        · rfl
    obtain ⟨s2, he2, hl2, hs2⟩ := hup
    rw [he2]
    simp only []
    have hlo : ∃ s3, (if r.off ≠ 0 then Mem.mv s2 0 r.off (r.len - (r.store.length - pos)) else Res.ok s2) = .ok s3
        ∧ s3.length = r.store.length ∧
        ∀ i, s3[i]? = if i < r.len - (r.store.length - pos) then s2[r.off + i]? else s2[i]? := by
      split
      · rw [Mem.mv_ok _ _ _ _ (by omega) (by omega)]
        refine ⟨_, rfl, by rw [Mem.move_length _ _ _ _ (by omega) (by omega), hl2], ?_⟩
        intro i
        rw [Mem.getElem?_move _ _ _ _ _ (by omega) (by omega)]
        ite_idx
      · refine ⟨s2, rfl, hl2, ?_⟩
        intro i
        split
        · congr 1; omega
        · rfl
    obtain ⟨s3, he3, hl3, hs3⟩ := hlo
    rw [he3]
    simp only []
    refine ⟨_, rfl, ⟨by simp only []; omega, by simp only []; omega⟩, rfl, rfl, hl3, ?_⟩
    refine content_eq_of_phys r ⟨s3, r.len, pos⟩ h1 h2 (by simp only []; omega) (by simp only []; omega) rfl ?_
    intro i hi
    unfold phys
    simp only [hs3, hs2, hs1, hl3]
    clear hs3 hs2 hs1 he he2 he3
    ite_idx

theorem align_spec (r : Ring) (h : r.WF) (pos : Nat) :
    ∃ r1, r.align pos = .ok r1 ∧ r1.WF ∧ r1.len = r.len ∧ r1.store.length = r.store.length
      ∧ r1.content = r.content ∧ (pos = 0 → r1.off = 0) := by
  have hwf := h
  obtain ⟨h1, h2⟩ := h
  unfold align
  simp only [max]
  by_cases hp : pos > r.store.length
  · rw [if_pos hp]
    exact ⟨r, rfl, hwf, rfl, rfl, rfl, by omega⟩
  · rw [if_neg hp]
    by_cases hl : r.len = 0
    · rw [if_pos hl]
      refine ⟨_, rfl, ⟨by simp only []; omega, by simp only []; omega⟩, rfl, rfl, ?_, fun _ => rfl⟩
      unfold content
      simp only [hl, List.take_zero]
    · rw [if_neg hl]
      unfold frag
      simp only [max, decide_eq_true_eq]
      by_cases hf : r.store.length - r.len < r.off
      · rw [if_pos hf]
        obtain ⟨r1, he, hw1, ho1, hl1, hs1, hc1⟩ := alignFlat_spec r hwf hf
        rw [he]
        simp only []
        by_cases hz : pos = 0
        · rw [if_pos hz]
          exact ⟨r1, rfl, hw1, hl1, hs1, hc1, fun _ => ho1⟩
        · rw [if_neg hz]
          obtain ⟨r2, he2, hw2, ho2, hl2, hs2, hc2⟩ := alignMove_spec r1 hw1 pos (by omega) (by omega)
          exact ⟨r2, he2, hw2, by omega, by omega, by rw [hc2, hc1], fun hh => by omega⟩
      · rw [if_neg hf]
        by_cases hz : pos = r.off
        · rw [if_pos hz]
          exact ⟨r, rfl, hwf, rfl, rfl, rfl, fun hh => by omega⟩
        · rw [if_neg hz]
          obtain ⟨r2, he2, hw2, ho2, hl2, hs2, hc2⟩ := alignMove_spec r hwf pos (by omega) (by omega)
          exact ⟨r2, he2, hw2, hl2, hs2, hc2, fun hh => by omega⟩

theorem content_flat (r : Ring) (h0 : r.off = 0) : r.content = r.store.take r.len := by
  unfold content
  rw [h0]
  simp

theorem resize_spec (r : Ring) (h : r.WF) (n : Nat) :
    ∃ r', r.resize n = .ok r' ∧ r'.WF ∧ r'.store.length = n ∧ r'.content = r.content.drop (r.len - n) := by
  have hwf := h
  obtain ⟨h1, h2⟩ := h
  have hcl := content_length r h1 h2
  unfold resize
  simp only [max, Bool.not_true, Bool.false_eq_true, ↓reduceIte]
  by_cases hn0 : n = 0
  · rw [if_pos hn0]
    refine ⟨_, rfl, ⟨by simp only []; exact Nat.le_refl _, by simp only []; exact Nat.le_refl _⟩, by simp [hn0], ?_⟩
    subst hn0
    unfold content
    simp
  · rw [if_neg hn0]
    by_cases hlt : n < r.store.length
    · rw [if_pos hlt]
      -- the ring after dropping from the start
      have hr1 : ∃ r1 : Ring, r.dropFront n = r1 ∧ r1.WF ∧ r1.store.length = r.store.length ∧ r1.len ≤ n ∧
          r1.content = r.content.drop (r.len - n) := by
        unfold dropFront
        by_cases hc : n < r.len
        · rw [if_pos hc]
          obtain ⟨r', c, he, hw', hs', hl', hc'⟩ := crop_front r hwf (r.len - n) (by omega)
          rw [he]
          exact ⟨r', rfl, hw', by rw [hs'], by omega, hc'⟩
        · rw [if_neg hc]
          refine ⟨r, rfl, hwf, rfl, by omega, ?_⟩
          rw [show r.len - n = 0 by omega, List.drop_zero]
      obtain ⟨r1, he1, hw1, hs1, hl1, hc1⟩ := hr1
      rw [he1]
      obtain ⟨r2, he2, hw2, hl2, hs2, hc2, ho2⟩ := align_spec r1 hw1 0
      rw [he2]
      simp only []
      have ho := ho2 rfl
      refine ⟨_, rfl, ⟨?_, ?_⟩, ?_, ?_⟩
      · simp only [List.length_take]; omega
      · simp only [List.length_take]; omega
      · simp only [List.length_take]; omega
      · rw [← hc1, ← hc2, content_flat r2 ho, content_flat _ (by simp only []; exact ho)]
        simp only [List.take_take]
        congr 1; omega
    · rw [if_neg hlt]
      by_cases hgt : n > r.store.length
      · rw [if_pos hgt]
        have hr1 : ∃ r2 : Ring, (if r.frag = true then r.align 0 else Res.ok r) = .ok r2 ∧ r2.WF ∧
            r2.store.length = r.store.length ∧ r2.len = r.len ∧ r2.off + r2.len ≤ r2.store.length ∧
            r2.content = r.content := by
          unfold frag
          simp only [max, decide_eq_true_eq]
          by_cases hf : r.store.length - r.len < r.off
          · rw [if_pos hf]
            obtain ⟨r2, he2, hw2, hl2, hs2, hc2, ho2⟩ := align_spec r hwf 0
            have := ho2 rfl
            exact ⟨r2, he2, hw2, hs2, hl2, by have := hw2.1; omega, hc2⟩
          · rw [if_neg hf]
            exact ⟨r, rfl, hwf, rfl, rfl, by omega, rfl⟩
        obtain ⟨r2, he2, hw2, hs2, hl2, hfit, hc2⟩ := hr1
        rw [he2]
        simp only []
        have h12 := hw2.1
        have h22 := hw2.2
        refine ⟨_, rfl, ⟨?_, ?_⟩, ?_, ?_⟩
        · simp only [List.length_append, List.length_replicate]; omega
        · simp only [List.length_append, List.length_replicate]; omega
        · simp only [List.length_append, List.length_replicate]; omega
        · rw [show r.len - n = 0 by omega, List.drop_zero, ← hc2]
          apply List.ext_getElem?; intro i
          rw [getElem?_content _ _ h12 h22, getElem?_content _ _
            (by simp only [List.length_append, List.length_replicate]; omega)
            (by simp only [List.length_append, List.length_replicate]; omega)]
          simp only [List.length_append, List.length_replicate, List.getElem?_append]
          ite_idx
      · rw [if_neg hgt]
        have : n = r.store.length := by omega
        refine ⟨r, rfl, hwf, by omega, ?_⟩
        rw [show r.len - n = 0 by omega, List.drop_zero]

theorem string_spec (r : Ring) (h : r.WF) (hfree : r.len < r.store.length) :
    ∃ r', r.string = .ok (r', r.content) ∧ r'.WF ∧ r'.store.length = r.store.length
      ∧ r'.content = r.content := by
  have hwf := h
  obtain ⟨h1, h2⟩ := h
  unfold string
  simp only [max]
  rw [if_neg (by omega)]
  have hr1 : ∃ r1 : Ring, (if r.store.length - r.len ≤ r.off then r.align 0 else Res.ok r) = .ok r1 ∧ r1.WF ∧
      r1.store.length = r.store.length ∧ r1.len = r.len ∧ r1.off + r1.len < r1.store.length ∧
      r1.content = r.content := by
    by_cases hf : r.store.length - r.len ≤ r.off
    · rw [if_pos hf]
      obtain ⟨r2, he2, hw2, hl2, hs2, hc2, ho2⟩ := align_spec r hwf 0
      have := ho2 rfl
      exact ⟨r2, he2, hw2, hs2, hl2, by omega, hc2⟩
    · rw [if_neg hf]
      exact ⟨r, rfl, hwf, rfl, rfl, by omega, rfl⟩
  obtain ⟨r1, he1, hw1, hs1, hl1, hfit, hc1⟩ := hr1
  rw [he1]
  simp only []
  have h11 := hw1.1
  have h21 := hw1.2
  rw [Mem.wr_ok _ _ _ (by simp only [List.length_singleton]; omega)]
  simp only []
  have hwl := Mem.write_length r1.store (r1.off + r1.len) [0] (by simp only [List.length_singleton]; omega)
  rw [Mem.rd_ok _ _ _ (by omega)]
  simp only []
  have hsame : ∀ i, i < r1.off + r1.len → (Mem.write r1.store (r1.off + r1.len) [0])[i]? = r1.store[i]? := by
    intro i hi
    rw [Mem.getElem?_write _ _ _ _ (by simp only [List.length_singleton]; omega), if_pos hi]
  have hout : Mem.read (Mem.write r1.store (r1.off + r1.len) [0]) r1.off r1.len = r.content := by
    rw [← hc1]
    apply List.ext_getElem?; intro i
    rw [Mem.getElem?_read, getElem?_content _ _ h11 h21]
    split
    · rw [hsame _ (by omega), if_pos (by omega)]
    · rfl
  rw [hout]
  refine ⟨_, rfl, ⟨by simp only []; omega, by simp only []; omega⟩, hwl.trans hs1, ?_⟩
  rw [← hc1]
  apply List.ext_getElem?; intro i
  rw [getElem?_content _ _ h11 h21, getElem?_content _ _ (by simp only []; omega) (by simp only []; omega)]
  simp only [hwl]
  split
  · rw [if_pos (by omega), if_pos (by omega), hsame _ (by omega)]
  · rfl

theorem prepare_spec (r : Ring) (h : r.WF) (n : Nat) :
    ∃ r' left, r.prepare n = .ok (r', left) ∧ r'.WF ∧ r'.content = r.content ∧
      left = r'.store.length - r'.len ∧ n ≤ left ∧ r'.len = r.len := by
  have hwf := h
  obtain ⟨h1, h2⟩ := h
  have hcl := content_length r h1 h2
  unfold prepare
  simp only [max]
  by_cases hn : n > r.store.length - r.len
  · rw [if_pos hn]
    obtain ⟨r', he, hw', hl', hc'⟩ := resize_spec r hwf (alignSize (n - (r.store.length - r.len) + r.store.length))
    have hge : n - (r.store.length - r.len) + r.store.length ≤
        alignSize (n - (r.store.length - r.len) + r.store.length) := by unfold alignSize; omega
    rw [he]
    simp only []
    have hc2 : r'.content = r.content := by
      rw [hc', show r.len - alignSize (n - (r.store.length - r.len) + r.store.length) = 0 by omega, List.drop_zero]
    have hlen : r'.len = r.len := by
      have := content_length r' hw'.1 hw'.2
      rw [hc2, hcl] at this
      omega
    exact ⟨r', _, rfl, hw', hc2, rfl, by omega, hlen⟩
  · rw [if_neg hn]
    exact ⟨r, _, rfl, hwf, rfl, rfl, by omega, rfl⟩

theorem setSrc_some' (bs : List Byte) : setSrc bs.length (some bs) = bs := by
  unfold setSrc; simp

/-- `io::queue::push`: accepted and appended, except an empty push onto a queue that has no free byte -/
theorem xpush_spec (r : Ring) (h : r.WF) (bytes : List Byte) :
    ∃ r' b, r.xpush bytes = .ok (r', b) ∧ r'.WF ∧
      (b = true → r'.content = r.content ++ bytes) ∧ (b = false → r'.content = r.content ∧ bytes = []) := by
  obtain ⟨r1, left, he, hw1, hc1, hl, hn, hlen⟩ := prepare_spec r h bytes.length
  unfold xpush
  rw [he]
  simp only []
  by_cases hfull : r1.len < r1.store.length
  · obtain ⟨r2, c, he2, hw2, hl2, hc2⟩ := qpush_ok r1 hw1 bytes.length (some bytes) hfull (by omega)
    rw [he2]
    refine ⟨r2, true, rfl, hw2, fun _ => ?_, fun hf => Bool.noConfusion hf⟩
    rw [hc2, hc1, setSrc_some']
  · rw [qpush_refused r1 hw1 bytes.length (some bytes) (Or.inr (by have := hw1.1; omega))]
    refine ⟨r1, false, rfl, hw1, fun hf => Bool.noConfusion hf, fun _ => ⟨hc1, ?_⟩⟩
    have : bytes.length = 0 := by omega
    exact List.eq_nil_of_length_eq_zero this

theorem xunshift_spec (r : Ring) (h : r.WF) (bytes : List Byte) :
    ∃ r' b, r.xunshift bytes = .ok (r', b) ∧ r'.WF ∧
      (b = true → r'.content = bytes ++ r.content) ∧ (b = false → r'.content = r.content ∧ bytes = []) := by
  obtain ⟨r1, left, he, hw1, hc1, hl, hn, hlen⟩ := prepare_spec r h bytes.length
  unfold xunshift
  rw [he]
  simp only []
  by_cases hfull : r1.len < r1.store.length
  · obtain ⟨r2, c, he2, hw2, hl2, hc2⟩ := qunshift_ok r1 hw1 bytes.length (some bytes) hfull (by omega)
    rw [he2]
    refine ⟨r2, true, rfl, hw2, fun _ => ?_, fun hf => Bool.noConfusion hf⟩
    rw [hc2, hc1, setSrc_some']
  · rw [qunshift_refused r1 hw1 bytes.length (some bytes) (Or.inr (by have := hw1.1; omega))]
    refine ⟨r1, false, rfl, hw1, fun hf => Bool.noConfusion hf, fun _ => ⟨hc1, ?_⟩⟩
    have : bytes.length = 0 := by omega
    exact List.eq_nil_of_length_eq_zero this

end Ring
end Mpt
