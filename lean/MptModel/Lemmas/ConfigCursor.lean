/-
  node_query.c / node_assign.c walk the tree while they consume the path cursor; that is the same as splitting the
  path first (`elems`) and walking with the element list (`findExact`, `nodeAssign`).
-/
import MptModel.Lemmas.ConfigMap
namespace Mpt.Config
open Mpt Mpt.PathMap

/-- one unfolding of the walk of a path -/
theorem elems_step {p : Path} {f : Nat} {es : List (List Byte)} (h : elems p (f + 1) = .ok es) (hl : p.len ≠ 0) :
    ∃ q n es', pathNext p = .ok (q, n) ∧ elems q f = .ok es' ∧ es = stepElem p q n :: es' := by
  simp only [elems, hl, ↓reduceIte] at h
  cases hn : pathNext p with
  | ok qn =>
    obtain ⟨q, n⟩ := qn
    simp only [hn] at h
    cases he : elems q f with
    | ok es' =>
      simp only [he, Res.ok.injEq] at h
      exact ⟨q, n, es', rfl, he, by rw [← h]; rfl⟩
    | err x => simp [he] at h
    | null => simp [he] at h
    | oob => simp [he] at h
    | fault => simp [he] at h
  | err x => simp [hn] at h
  | null => simp [hn] at h
  | oob => simp [hn] at h
  | fault => simp [hn] at h

theorem elems_nil_iff {q : Path} {f : Nat} {es : List (List Byte)} (h : elems q f = .ok es) : es = [] ↔ q.len = 0 := by
  cases f with
  | zero => simp [elems] at h
  | succ f =>
    by_cases hl : q.len = 0
    · simp only [elems, hl, ↓reduceIte, Res.ok.injEq] at h
      simp [hl, ← h]
    · obtain ⟨_, _, _, _, _, he⟩ := elems_step h hl
      simp [hl, he]

/-- `mpt_node_assign` on the cursor = split, then assign along the elements -/
theorem nodeAssignP_eq (v : List Byte) : ∀ (f : Nat) (l : List CNode) (p : Path) (es : List (List Byte)),
    elems p f = .ok es → nodeAssignP l p v f = .ok (nodeAssign l es v)
  | 0, _, _, _, h => by simp [elems] at h
  | f + 1, l, p, es, h => by
    by_cases hl : p.len = 0
    · have : es = [] := by simpa [elems, hl] using h.symm
      subst this
      simp [nodeAssignP, hl, nodeAssign]
    · obtain ⟨q, n, es', hn, he, rfl⟩ := elems_step h hl
      simp only [nodeAssignP, hl, ↓reduceIte, hn, nodeAssign]
      cases hloc : locate l (stepElem p q n) with
      | none => simp [he]
      | some i =>
        simp only
        cases hc : l[i]? with
        | none => rfl
        | some c =>
          simp only
          by_cases hq : q.len = 0
          · have : es' = [] := (elems_nil_iff he).2 hq
            subst this
            simp [hq]
          · have hne : es' ≠ [] := fun h' => hq ((elems_nil_iff he).1 h')
            have hemp : es'.isEmpty = false := by cases es' <;> simp_all
            simp only [hq, ↓reduceIte, hemp, Bool.false_eq_true, nodeAssignP_eq v f c.kids q es' he]
            cases nodeAssign c.kids es' v <;> rfl

/-- `mpt_node_query` on the cursor finds what the exact lookup along the elements finds -/
theorem nodeFindP_spec : ∀ (f : Nat) (l : List CNode) (p : Path) (es : List (List Byte)), elems p f = .ok es →
    ∃ r q', nodeFindP l p f = .ok (r, q') ∧ (r = none → q' = p) ∧
      (match findExact l es with
       | some c => r = some c ∧ q'.len = 0
       | none => r = none ∨ q'.len ≠ 0)
  | 0, _, _, _, h => by simp [elems] at h
  | f + 1, l, p, es, h => by
    by_cases hl : p.len = 0
    · have : es = [] := by simpa [elems, hl] using h.symm
      subst this
      exact ⟨none, p, by simp [nodeFindP, hl], fun _ => rfl, by simp [findExact]⟩
    · obtain ⟨q, n, es', hn, he, rfl⟩ := elems_step h hl
      simp only [nodeFindP, hl, ↓reduceIte, hn, findExact]
      cases hloc : locate l (stepElem p q n) with
      | none => exact ⟨none, p, rfl, fun _ => rfl, Or.inl rfl⟩
      | some i =>
        simp only
        cases hc : l[i]? with
        | none => exact ⟨none, p, rfl, fun _ => rfl, Or.inl rfl⟩
        | some c =>
          simp only
          by_cases hk : c.kids.isEmpty
          · simp only [hk, ↓reduceIte]
            refine ⟨some c, q, rfl, (fun h' => by cases h'), ?_⟩
            by_cases hq : q.len = 0
            · have : es' = [] := (elems_nil_iff he).2 hq
              subst this
              simp [hq]
            · have hne : es' ≠ [] := fun h' => hq ((elems_nil_iff he).1 h')
              have hemp : es'.isEmpty = false := by cases es' <;> simp_all
              have hkn : c.kids = [] := by simpa using hk
              simp only [hemp, Bool.false_eq_true, ↓reduceIte, hkn]
              have : findExact [] es' = none := by
                cases es' with
                | nil => exact absurd rfl hne
                | cons a as => simp [findExact, locate]
              simp [this, hq]
          · simp only [hk, Bool.false_eq_true, ↓reduceIte]
            obtain ⟨r, q', hr, hrn, hcase⟩ := nodeFindP_spec f c.kids q es' he
            rw [hr]
            by_cases hq : q.len = 0
            · have hes : es' = [] := (elems_nil_iff he).2 hq
              subst hes
              simp only [findExact] at hcase
              have hq' : q'.len = 0 ∨ r = none := by
                rcases hcase with h1 | h1
                · exact Or.inr h1
                · exact Or.inr (by
                    -- with an empty cursor nothing is found
                    cases f with
                    | zero => simp [elems] at he
                    | succ f' => simp [nodeFindP, hq] at hr; exact hr.1.symm)
              have hrn' : r = none := by
                cases f with
                | zero => simp [elems] at he
                | succ f' => simp [nodeFindP, hq] at hr; exact hr.1.symm
              subst hrn'
              have := hrn rfl
              subst this
              exact ⟨some c, q', rfl, (fun h' => by cases h'), by simp [hq]⟩
            · have hne : es' ≠ [] := fun h' => hq ((elems_nil_iff he).1 h')
              have hemp : es'.isEmpty = false := by cases es' <;> simp_all
              simp only [hemp, Bool.false_eq_true, ↓reduceIte]
              cases r with
              | some d =>
                refine ⟨some d, q', rfl, (fun h' => by cases h'), ?_⟩
                cases hfe : findExact c.kids es' with
                | some c2 => simpa [hfe] using hcase
                | none =>
                  simp only [hfe] at hcase
                  rcases hcase with h1 | h1
                  · cases h1
                  · exact Or.inr h1
              | none =>
                have := hrn rfl
                subst this
                refine ⟨some c, q', rfl, (fun h' => by cases h'), ?_⟩
                cases hfe : findExact c.kids es' with
                | some c2 => simp [hfe] at hcase
                | none => exact Or.inr hq

/-- reading a value through `mpt_node_query` (whole path consumed) = the exact lookup along the elements -/
theorem nodeGetP_eq (f : Nat) (l : List CNode) (p : Path) (es : List (List Byte)) (h : elems p f = .ok es) :
    nodeGetP l p f = .ok (valueAt l es) := by
  obtain ⟨r, q', hr, hrn, hcase⟩ := nodeFindP_spec f l p es h
  simp only [nodeGetP, hr, valueAt]
  cases hfe : findExact l es with
  | some c =>
    simp only [hfe] at hcase
    obtain ⟨rfl, hq⟩ := hcase
    simp [hq]
  | none =>
    simp only [hfe] at hcase
    cases r with
    | none => simp
    | some d =>
      rcases hcase with h1 | h1
      · cases h1
      · simp [h1]

end Mpt.Config
