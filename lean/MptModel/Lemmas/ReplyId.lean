/-
  C12, ids: mpt_message_id2buf / mpt_message_buf2id against the big-endian spec, for all ids and widths
  (induction and arithmetic, no enumeration).
-/
import MptModel.Impl.Reply
namespace Mpt
open Mpt.ReplySpec

theorem byteOf_toNat (n : Nat) : (byteOf n).toNat = n % 256 := by
  have : n % 256 < 256 := Nat.mod_lt _ (by decide)
  simp [byteOf, UInt8.toNat_ofNat']

/- ---------------------------------------------------------------- powers of 256 -/

theorem pow256_pos (n : Nat) : 0 < 256 ^ n := Nat.pow_pos (by decide)
theorem pow256_succ (n : Nat) : 256 ^ (n + 1) = 256 * 256 ^ n := by rw [Nat.pow_succ, Nat.mul_comm]
/-- `2^(8w−1) = 128·256^(w−1)` for `w ≥ 1` -/
theorem halfTop (n : Nat) : 2 ^ (8 * (n + 1) - 1) = 128 * 256 ^ n := by
  have : 8 * (n + 1) - 1 = 8 * n + 7 := by omega
  rw [this, Nat.pow_add, Nat.pow_mul]
  have : (2 : Nat) ^ 8 = 256 := by decide
  rw [this]; omega

/- ---------------------------------------------------------------- id2buf -/

theorem id2bufLoop_eq (len id used : Nat) (acc : List Byte) :
    (MsgId.id2bufLoop len id used acc).1 = id / 256 ^ len ∧
    (MsgId.id2bufLoop len id used acc).2.2 = beDigits len (id / 256) ++ acc := by
  induction len generalizing id used acc with
  | zero => simp [MsgId.id2bufLoop, beDigits]
  | succ n ih =>
    unfold MsgId.id2bufLoop
    obtain ⟨h1, h2⟩ := ih (id / 256) (if id / 256 ≠ 0 then used + 1 else used) (byteOf (id / 256) :: acc)
    refine ⟨?_, ?_⟩
    · rw [h1, Nat.div_div_eq_div_mul, pow256_succ]
    · rw [h2]; simp [beDigits]

theorem beDigits_head (n x : Nat) : (beDigits (n + 1) x).headD 0 = byteOf (x / 256 ^ n) := by
  induction n generalizing x with
  | zero => simp [beDigits]
  | succ n ih =>
    have h := ih (x / 256)
    have hne : beDigits (n + 1) (x / 256) ≠ [] := by simp [beDigits]
    rw [show beDigits (n + 1 + 1) x = beDigits (n + 1) (x / 256) ++ [byteOf x] from rfl]
    cases hb : beDigits (n + 1) (x / 256) with
    | nil => exact absurd hb hne
    | cons b bs =>
      rw [hb] at h
      simp only [List.cons_append, List.headD_cons] at h ⊢
      rw [h, Nat.div_div_eq_div_mul, pow256_succ]

/-- `mpt_message_id2buf` accepts exactly the ids that fit and then writes their big-endian digits -/
theorem id2buf_spec (id w : Nat) :
    (fits id w = true → ∃ used, MsgId.id2buf id w = .ok (beDigits w id, used)) ∧
    (fits id w = false → ∃ e, MsgId.id2buf id w = .err e) := by
  cases w with
  | zero =>
    simp only [fits, MsgId.id2buf, beDigits]
    constructor
    · intro h
      have : id = 0 := by simp at h; omega
      exact ⟨0, by simp [this]⟩
    · intro h
      have : id ≠ 0 := by simp at h; omega
      exact ⟨.MissingBuffer, by simp [this]⟩
  | succ n =>
    have hP := pow256_pos n
    generalize hPd : 256 ^ n = P at hP
    have hfit : fits id (n + 1) = decide (id < 128 * P) := by simp [fits, halfTop, hPd]
    obtain ⟨l1, l2⟩ := id2bufLoop_eq n id 1 [byteOf id]
    have hbuf : (MsgId.id2bufLoop n id 1 [byteOf id]).2.2 = beDigits (n + 1) id := by rw [l2]; rfl
    have hhead : ((beDigits (n + 1) id).headD 0).toNat = id / P % 256 := by
      rw [beDigits_head, byteOf_toNat, hPd]
    rw [hPd] at l1
    unfold MsgId.id2buf
    rw [if_neg (Nat.add_one_ne_zero n)]
    simp only [Nat.add_sub_cancel]
    rw [l1, hbuf, hhead, hfit]
    constructor
    · intro h
      have h : id < 128 * P := by simpa using h
      have hq : id / P < 128 := (Nat.div_lt_iff_lt_mul hP).2 h
      have h1 : ¬ id / P / 256 ≠ 0 := by omega
      have h2 : ¬ id / P % 256 ≥ 128 := by omega
      exact ⟨(MsgId.id2bufLoop n id 1 [byteOf id]).2.1, by rw [if_neg h1, if_neg h2]⟩
    · intro h
      have h : 128 * P ≤ id := by simpa using h
      have hq : 128 ≤ id / P := (Nat.le_div_iff_mul_le hP).2 h
      by_cases h1 : id / P / 256 ≠ 0
      · exact ⟨.MissingBuffer, by rw [if_pos h1]⟩
      · have h2 : id / P % 256 ≥ 128 := by omega
        exact ⟨.BadValue, by rw [if_neg h1, if_pos h2]⟩

/- ---------------------------------------------------------------- buf2id -/

/-- big-endian accumulation starting from `a` -/
def valFrom (a : Nat) (bs : List Byte) : Nat := bs.foldl (fun a b => a * 256 + b.toNat) a

theorem value_eq (bs : List Byte) : value bs = valFrom 0 bs := rfl

theorem valFrom_ge (a : Nat) (bs : List Byte) : a ≤ valFrom a bs := by
  induction bs generalizing a with
  | nil => simp [valFrom]
  | cons b bs ih =>
    have := ih (a * 256 + b.toNat)
    simp only [valFrom, List.foldl_cons] at this ⊢
    omega

/-- `used` counts the significant bytes of `id` -/
def usedInv (id used : Nat) : Prop :=
  (id = 0 ∧ used = 0) ∨ (1 ≤ used ∧ 256 ^ (used - 1) ≤ id ∧ id < 256 ^ used)

theorem buf2idLoop_spec (bs : List Byte) (id used : Nat) (hinv : usedInv id used) (hu : used ≤ 8) :
    (valFrom id bs < 2 ^ 64 → ∃ u, MsgId.buf2idLoop bs id used = .ok (valFrom id bs, u)) ∧
    (2 ^ 64 ≤ valFrom id bs → MsgId.buf2idLoop bs id used = .err .BadValue) := by
  induction bs generalizing id used with
  | nil =>
    simp only [valFrom, List.foldl_nil, MsgId.buf2idLoop]
    refine ⟨fun _ => ⟨used, rfl⟩, ?_⟩
    intro h
    -- id < 256^used ≤ 256^8
    rcases hinv with ⟨h0, _⟩ | ⟨_, _, hlt⟩
    · subst h0; simp at h
    · have : 256 ^ used ≤ 256 ^ 8 := Nat.pow_le_pow_right (by decide) hu
      have h8 : (256 : Nat) ^ 8 = 2 ^ 64 := by decide
      omega
  | cons v vs ih =>
    have hv : v.toNat < 256 := v.toNat_lt
    have hstep : valFrom id (v :: vs) = valFrom (id * 256 + v.toNat) vs := rfl
    rw [hstep]
    unfold MsgId.buf2idLoop
    by_cases hc : (v ≠ 0 ∨ used ≠ 0)
    · by_cases h8 : used + 1 > 8
      · -- eight significant bytes already: the value cannot fit
        have hu8 : used = 8 := by omega
        have hbig : 2 ^ 64 ≤ valFrom (id * 256 + v.toNat) vs := by
          have := valFrom_ge (id * 256 + v.toNat) vs
          rcases hinv with ⟨_, h0⟩ | ⟨_, hge, _⟩
          · omega
          · subst hu8
            have h7 : (256 : Nat) ^ (8 - 1) = 72057594037927936 := by decide
            have h64 : (2 : Nat) ^ 64 = 18446744073709551616 := by decide
            omega
        simp only [hc, h8, and_self, if_true]
        refine ⟨fun h => absurd hbig (by omega), ?_⟩
        simp
      · have hinv' : usedInv (id * 256 + v.toNat) (used + 1) := by
          right
          rcases hinv with ⟨h0, hu0⟩ | ⟨h1, hge, hlt⟩
          · subst h0; subst hu0
            have hvne : v.toNat ≠ 0 := by
              intro hz
              rcases hc with hc | hc
              · exact hc (UInt8.toNat_inj.mp (by simpa using hz))
              · exact hc rfl
            simp; omega
          · have hp : 256 ^ used = 256 * 256 ^ (used - 1) := by
              have : used = (used - 1) + 1 := by omega
              rw [this, pow256_succ]; simp
            refine ⟨by omega, ?_, ?_⟩
            · simp only [Nat.add_sub_cancel]; rw [hp]; omega
            · rw [pow256_succ, hp]; rw [hp] at hlt; omega
        have := ih (id * 256 + v.toNat) (used + 1) hinv' (by omega)
        simpa [hc, h8] using this
    · have hv0 : v = 0 := by
        by_cases h : v = 0
        · exact h
        · exact absurd (Or.inl h) hc
      have hu0 : used = 0 := by
        by_cases h : used = 0
        · exact h
        · exact absurd (Or.inr h) hc
      have hid : id = 0 := by
        rcases hinv with ⟨h0, _⟩ | ⟨h1, _, _⟩
        · exact h0
        · omega
      subst hv0; subst hu0; subst hid
      have := ih 0 0 (Or.inl ⟨rfl, rfl⟩) (by omega)
      simpa using this

theorem buf2id_eq_loop (bs : List Byte) : MsgId.buf2id bs = MsgId.buf2idLoop bs 0 0 := by
  cases bs with
  | nil => rfl
  | cons b rest =>
    simp only [MsgId.buf2id, MsgId.buf2idLoop]
    by_cases hb : b = 0 <;> simp [hb]

/-- `mpt_message_buf2id` yields the big-endian value of the bytes when it is a 64-bit number and
    refuses otherwise -/
theorem buf2id_spec (bs : List Byte) :
    (value bs < 2 ^ 64 → ∃ u, MsgId.buf2id bs = .ok (value bs, u)) ∧
    (2 ^ 64 ≤ value bs → MsgId.buf2id bs = .err .BadValue) := by
  rw [buf2id_eq_loop, value_eq]
  exact buf2idLoop_spec bs 0 0 (Or.inl ⟨rfl, rfl⟩) (by omega)

/- ---------------------------------------------------------------- digits ↔ value -/

theorem valFrom_append (a : Nat) (l : List Byte) (b : Byte) : valFrom a (l ++ [b]) = valFrom a l * 256 + b.toNat := by
  simp [valFrom, List.foldl_append]

theorem valFrom_beDigits (n x a : Nat) : valFrom a (beDigits n x) = a * 256 ^ n + x % 256 ^ n := by
  induction n generalizing x with
  | zero => simp [beDigits, valFrom, Nat.mod_one]
  | succ n ih =>
    rw [show beDigits (n + 1) x = beDigits n (x / 256) ++ [byteOf x] from rfl, valFrom_append, ih, byteOf_toNat,
      pow256_succ, Nat.mod_mul]
    have : a * (256 * 256 ^ n) = a * 256 ^ n * 256 := by rw [Nat.mul_comm 256, Nat.mul_assoc]
    rw [this, Nat.add_mul]
    omega

theorem value_beDigits (n x : Nat) (h : x < 256 ^ n) : value (beDigits n x) = x := by
  rw [value_eq, valFrom_beDigits, Nat.mod_eq_of_lt h]; simp

end Mpt
