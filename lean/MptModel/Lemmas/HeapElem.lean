/-
  Lemmas about buffers whose elements have constructors/destructors (C05): what the finaliser loops log,
  what a release of the last reference does, what an element-wise copy creates.
-/
import MptModel.Lemmas.Heap
import MptModel.Lemmas.TokReplay
namespace Mpt.Heap
open Mpt

/-- tokens stored in `n` consecutive elements of `sz` bytes starting at `pos` -/
def toksAt (d : List Byte) (pos sz : Nat) : Nat → List Nat
  | 0 => []
  | n + 1 => rdTok d pos :: toksAt d (pos + sz) sz n

theorem getD_write_lt (d : List Byte) (q : Nat) (bytes : List Byte) (i : Nat) (h : q + bytes.length ≤ d.length)
    (hi : i < q ∨ q + bytes.length ≤ i) : (Mem.write d q bytes).getD i 0 = d.getD i 0 := by
  simp only [List.getD_eq_getElem?_getD]
  rw [getElem?_write _ _ _ _ h]
  rcases hi with l | g
  · simp [l]
  · have : ¬ i < q := by omega
    have : ¬ i < q + bytes.length := by omega
    simp [*]

/-- a token read is not disturbed by a write that ends before it -/
theorem rdTok_write_before (d : List Byte) (q : Nat) (bytes : List Byte) (p : Nat) (h : q + bytes.length ≤ d.length)
    (hp : q + bytes.length ≤ p) : rdTok (Mem.write d q bytes) p = rdTok d p := by
  unfold rdTok
  rw [getD_write_lt _ _ _ _ h (Or.inr (by omega)), getD_write_lt _ _ _ _ h (Or.inr (by omega)),
    getD_write_lt _ _ _ _ h (Or.inr (by omega)), getD_write_lt _ _ _ _ h (Or.inr (by omega))]

theorem toksAt_write_before (d : List Byte) (q : Nat) (bytes : List Byte) (p sz n : Nat) (h : q + bytes.length ≤ d.length)
    (hp : q + bytes.length ≤ p) : toksAt (Mem.write d q bytes) p sz n = toksAt d p sz n := by
  induction n generalizing p with
  | zero => rfl
  | succ n ih =>
    simp only [toksAt]
    rw [rdTok_write_before _ _ _ _ h hp, ih (p + sz) (by omega)]

/-- `s'` differs from `s` only in buffer `b` and the event log -/
structure OnlyBuf (s s' : State) (b : Nat) : Prop where
  hs : s'.hs = s.hs
  wins : s'.wins = s.wins
  next : s'.next = s.next
  oracle : s'.oracle = s.oracle
  len : s'.bufs.length = s.bufs.length
  other : ∀ c, c ≠ b → s'.buf? c = s.buf? c

theorem OnlyBuf.refl (s : State) (b : Nat) : OnlyBuf s s b := ⟨rfl, rfl, rfl, rfl, rfl, fun _ _ => rfl⟩

theorem OnlyBuf.trans {s s1 s2 : State} {b : Nat} (h1 : OnlyBuf s s1 b) (h2 : OnlyBuf s1 s2 b) : OnlyBuf s s2 b :=
  ⟨h2.hs.trans h1.hs, h2.wins.trans h1.wins, h2.next.trans h1.next, h2.oracle.trans h1.oracle, h2.len.trans h1.len,
   fun c ne => (h2.other c ne).trans (h1.other c ne)⟩

/-- what `finiLoop` does: the tokens found in the elements are logged in storage order, the elements are
    scribbled over, nothing else changes -/
theorem finiLoop_spec : ∀ (n : Nat) (s : State) (b pos sz : Nat) (x : Buf), s.buf? b = some x →
    pos + n * sz ≤ x.size →
    ∃ s' d', finiLoop n s b pos sz = .ok s' () ∧ OnlyBuf s s' b ∧
      s'.log = s.log ++ (toksAt x.data pos sz n).map Ev.fini ∧
      s'.buf? b = some { x with data := d' } ∧
      d'.length = x.data.length ∧ (∀ i, i < pos ∨ pos + n * sz ≤ i → d'.getD i 0 = x.data.getD i 0) := by
  intro n
  induction n with
  | zero =>
    intro s b pos sz x hb _
    exact ⟨s, x.data, rfl, OnlyBuf.refl s b, by simp [toksAt], hb, rfl, fun _ _ => rfl⟩
  | succ n ih =>
    intro s b pos sz x hb fit
    have blt := State.buf?_lt hb
    have mul : (n + 1) * sz = n * sz + sz := by rw [Nat.add_mul]; simp
    have f1 : pos + sz ≤ x.size := by omega
    simp only [finiLoop, finiAt, hb]
    rw [if_neg (by omega)]
    simp only
    generalize hs1 : State.setBuf { s with log := s.log ++ [Ev.fini (rdTok x.data pos)] } b
      { x with data := Mem.write x.data pos (List.replicate sz 0xdd) } = s1
    have hb1 : s1.buf? b = some { x with data := Mem.write x.data pos (List.replicate sz 0xdd) } := by
      rw [← hs1]
      have e := State.buf?_setBuf { s with log := s.log ++ [Ev.fini (rdTok x.data pos)] } b b
        { x with data := Mem.write x.data pos (List.replicate sz 0xdd) } blt
      simpa using e
    have o1 : OnlyBuf s s1 b := by
      rw [← hs1]
      refine ⟨rfl, rfl, rfl, rfl, by simp, ?_⟩
      intro c ne
      have e := State.buf?_setBuf { s with log := s.log ++ [Ev.fini (rdTok x.data pos)] } b c
        { x with data := Mem.write x.data pos (List.replicate sz 0xdd) } blt
      rw [e]; simp [ne]; rfl
    have l1 : s1.log = s.log ++ [Ev.fini (rdTok x.data pos)] := by rw [← hs1]; rfl
    have wl : (Mem.write x.data pos (List.replicate sz 0xdd)).length = x.data.length :=
      write_length _ _ _ (by simpa using f1)
    have fit1 : pos + sz + n * sz ≤ ({ x with data := Mem.write x.data pos (List.replicate sz 0xdd) } : Buf).size := by
      simp only [Buf.size, wl]
      simp only [Buf.size] at fit; omega
    obtain ⟨s2, d', hd, o2, l2, hb2, dl, dsame⟩ := ih s1 b (pos + sz) sz _ hb1 fit1
    refine ⟨s2, d', hd, o1.trans o2, ?_, hb2, by rw [dl, wl], ?_⟩
    · rw [l2, l1]
      simp only [toksAt, List.map_cons]
      rw [toksAt_write_before _ _ _ _ _ _ (by simpa using f1) (by simp)]
      simp [List.append_assoc]
    · intro i hi
      rw [dsame i (by omega)]
      exact getD_write_lt _ _ _ _ (by simpa using f1) (by simp only [List.length_replicate]; omega)


/-- the tokens a buffer with finaliser stores: one per whole element inside the used size -/
def Buf.toks (x : Buf) : List Nat :=
  match x.traits with
  | some t => if t.fini.isSome ∧ t.size ≠ 0 then toksAt x.data 0 t.size (x.used / t.size) else []
  | none => []

theorem sub_mod_div (u sz : Nat) : (u - u % sz) / sz = u / sz := by
  by_cases h : sz = 0
  · subst h; simp
  · have e := Nat.mod_add_div u sz
    have : u - u % sz = sz * (u / sz) := by omega
    rw [this, Nat.mul_div_cancel_left _ (Nat.pos_of_ne_zero h)]

/-- releasing the last reference of a buffer with finaliser: exactly the stored tokens are finalised, each
    once, in storage order; the buffer is gone; nothing else changes -/
theorem unref_last_managed {s : State} {b : Nat} {x : Buf} {t : Traits} (hb : s.buf? b = some x) (hr : x.ref = 1)
    (ht : x.traits = some t) (hf : t.fini.isSome = true) (hsz : t.size ≠ 0) (hu : x.used ≤ x.size) :
    ∃ s', unref s b = .ok s' () ∧ s'.buf? b = none ∧ (∀ c, c ≠ b → s'.buf? c = s.buf? c) ∧ s'.hs = s.hs ∧
      s'.next = s.next ∧ s'.oracle = s.oracle ∧
      s'.log = s.log ++ x.toks.map Ev.fini := by
  have blt := State.buf?_lt hb
  unfold unref
  rw [hb]
  simp only [hr, Nat.succ_ne_zero, if_false, ne_eq, not_true_eq_false, ht, hsz, not_false_eq_true, hf, and_self, if_true]
  have xe : ({ x with ref := 0, traits := some t } : Buf) = { x with ref := 0 } := by rw [← ht]
  rw [xe]
  generalize hs0 : s.setBuf b { x with ref := 0 } = s0
  have hb0 : s0.buf? b = some { x with ref := 0 } := by rw [← hs0, State.buf?_setBuf _ _ _ _ blt]; simp
  have o0 : OnlyBuf s s0 b := by
    rw [← hs0]
    exact ⟨rfl, rfl, rfl, rfl, by simp, fun c ne => by rw [State.buf?_setBuf _ _ _ _ blt]; simp [ne]⟩
  have fit : 0 + (x.used - x.used % t.size) / t.size * t.size ≤ ({ x with ref := 0 } : Buf).size := by
    have := Nat.div_mul_le_self (x.used - x.used % t.size) t.size
    simp only [Buf.size] at hu ⊢; omega
  obtain ⟨s1, d', hd, o1, l1, hb1, _, _⟩ := finiLoop_spec _ s0 b 0 t.size _ hb0 fit
  rw [hd]
  simp only
  have blt1 : b < s1.bufs.length := by rw [o1.len, o0.len]; exact blt
  refine ⟨s1.freeBuf b, rfl, ?_, ?_, ?_, ?_, ?_, ?_⟩
  · rw [State.buf?_freeBuf _ _ _ blt1]; simp
  · intro c ne
    rw [State.buf?_freeBuf _ _ _ blt1]; simp only [ne, if_false]
    rw [o1.other c ne, o0.other c ne]
  · simp [o1.hs, o0.hs]
  · show s1.next = s.next; rw [o1.next, o0.next]
  · show s1.oracle = s.oracle; rw [o1.oracle, o0.oracle]
  · show s1.log = _
    rw [l1, ← hs0]
    simp only [Buf.toks, ht, hf, hsz, ne_eq, not_false_eq_true, and_self, if_true, sub_mod_div]
    rfl



theorem elemBytes_length (tok sz : Nat) (h : 4 ≤ sz) : (elemBytes tok sz).length = sz := by
  simp [elemBytes, le32]; omega

theorem getD_write_in (d : List Byte) (q : Nat) (bytes : List Byte) (j : Nat) (h : q + bytes.length ≤ d.length)
    (hj : j < bytes.length) : (Mem.write d q bytes).getD (q + j) 0 = bytes.getD j 0 := by
  simp only [List.getD_eq_getElem?_getD]
  rw [getElem?_write _ _ _ _ h]
  have : ¬ q + j < q := by omega
  simp [this, hj]

theorem elemBytes_getD (tok sz : Nat) (h : 4 ≤ sz) :
    (elemBytes tok sz).getD 0 0 = UInt8.ofNat (tok % 256) ∧
    (elemBytes tok sz).getD 1 0 = UInt8.ofNat (tok / 256 % 256) ∧
    (elemBytes tok sz).getD 2 0 = UInt8.ofNat (tok / 65536 % 256) ∧
    (elemBytes tok sz).getD 3 0 = UInt8.ofNat (tok / 16777216 % 256) := by
  have h0 : 0 < sz := by omega
  have h1 : 1 < sz := by omega
  have h2 : 2 < sz := by omega
  have h3 : 3 < sz := by omega
  simp [elemBytes, le32, List.getD_eq_getElem?_getD, List.getElem?_take, h0, h1, h2, h3]

theorem rdTok_elem (d : List Byte) (pos tok sz : Nat) (h4 : 4 ≤ sz) (fit : pos + sz ≤ d.length) (small : tok < 4294967296) :
    rdTok (Mem.write d pos (elemBytes tok sz)) pos = tok := by
  have el := elemBytes_length tok sz h4
  have g := elemBytes_getD tok sz h4
  unfold rdTok
  have e0 := getD_write_in d pos (elemBytes tok sz) 0 (by rw [el]; exact fit) (by rw [el]; omega)
  have e1 := getD_write_in d pos (elemBytes tok sz) 1 (by rw [el]; exact fit) (by rw [el]; omega)
  have e2 := getD_write_in d pos (elemBytes tok sz) 2 (by rw [el]; exact fit) (by rw [el]; omega)
  have e3 := getD_write_in d pos (elemBytes tok sz) 3 (by rw [el]; exact fit) (by rw [el]; omega)
  simp only [Nat.add_zero] at e0
  rw [e0, e1, e2, e3, g.1, g.2.1, g.2.2.1, g.2.2.2]
  simp only [UInt8.toNat_ofNat']
  omega

/-- a token read is not disturbed by a write that starts behind it -/
theorem rdTok_write_after (d : List Byte) (q : Nat) (bytes : List Byte) (p : Nat) (h : q + bytes.length ≤ d.length)
    (hp : p + 4 ≤ q) : rdTok (Mem.write d q bytes) p = rdTok d p := by
  unfold rdTok
  rw [getD_write_lt _ _ _ _ h (Or.inl (by omega)), getD_write_lt _ _ _ _ h (Or.inl (by omega)),
    getD_write_lt _ _ _ _ h (Or.inl (by omega)), getD_write_lt _ _ _ _ h (Or.inl (by omega))]


/-- `s'` differs from `s` only in buffer `b`, the log and the callback bookkeeping -/
structure Frame (s s' : State) (b : Nat) : Prop where
  hs : s'.hs = s.hs
  wins : s'.wins = s.wins
  len : s'.bufs.length = s.bufs.length
  other : ∀ c, c ≠ b → s'.buf? c = s.buf? c

theorem Frame.refl (s : State) (b : Nat) : Frame s s b := ⟨rfl, rfl, rfl, fun _ _ => rfl⟩
theorem Frame.trans {s s1 s2 : State} {b : Nat} (h1 : Frame s s1 b) (h2 : Frame s1 s2 b) : Frame s s2 b :=
  ⟨h2.hs.trans h1.hs, h2.wins.trans h1.wins, h2.len.trans h1.len, fun c ne => (h2.other c ne).trans (h1.other c ne)⟩

/-- copy-construction events: new tokens `next, next+1, ..` from the tokens found in the source elements -/
def copyEvs (next : Nat) (bytes : List Byte) (off sz : Nat) : Nat → List Ev
  | 0 => []
  | n + 1 => Ev.copy next (rdTok bytes off) :: copyEvs (next + 1) bytes (off + sz) sz n

theorem rdTok_congr (d d' : List Byte) (p : Nat) (h : ∀ i, i < p + 4 → d'.getD i 0 = d.getD i 0) : rdTok d' p = rdTok d p := by
  unfold rdTok
  rw [h p (by omega), h (p + 1) (by omega), h (p + 2) (by omega), h (p + 3) (by omega)]

/-- the copy-construction loop of `mpt_buffer_set` when no constructor is refused: one fresh token per
    element, written into the element, logged with its source token; memory below `pos` untouched -/
theorem setInitLoop_nofail : ∀ (n : Nat) (s : State) (b pos stop used base : Nat) (bytes : List Byte) (sz : Nat)
    (hasFini : Bool) (count : Nat) (x : Buf),
    s.oracle = [] → s.buf? b = some x → 4 ≤ sz → pos + n * sz ≤ x.size → s.next + n < 4294967296 → base ≤ pos →
    ∃ s' d', setInitLoop n s b pos stop used base bytes true sz hasFini count = .ok s' (Int.ofNat (count + n)) ∧
      Frame s s' b ∧ s'.next = s.next + n ∧ s'.oracle = [] ∧
      s'.log = s.log ++ copyEvs s.next bytes (pos - base) sz n ∧
      s'.buf? b = some { x with data := d', used := max used stop } ∧
      d'.length = x.data.length ∧
      toksAt d' pos sz n = seqFrom s.next n ∧
      (∀ i, i < pos → d'.getD i 0 = x.data.getD i 0) := by
  intro n
  induction n with
  | zero =>
    intro s b pos stop used base bytes sz hasFini count x ho hb _ _ _ _
    have blt := State.buf?_lt hb
    refine ⟨s.setBuf b { x with used := max used stop }, x.data, ?_, ?_, rfl, ho, by simp [copyEvs, State.setBuf], ?_, rfl, rfl, fun _ _ => rfl⟩
    · simp [setInitLoop, hb]
    · exact ⟨rfl, rfl, by simp, fun c ne => by rw [State.buf?_setBuf _ _ _ _ blt]; simp [ne]⟩
    · rw [State.buf?_setBuf _ _ _ _ blt]; simp
  | succ n ih =>
    intro s b pos stop used base bytes sz hasFini count x ho hb h4 fit small bp
    have blt := State.buf?_lt hb
    have mul : (n + 1) * sz = n * sz + sz := by rw [Nat.add_mul]; simp
    have f1 : pos + sz ≤ x.size := by omega
    simp only [setInitLoop, if_true, initAt, hb, ho]
    rw [if_neg (by omega)]
    simp only [List.tail_nil]
    generalize hs1 : State.setBuf { s with oracle := [], next := s.next + 1, log := s.log ++ [ctorEv s.next (some (rdTok bytes (pos - base)))] } b
      { x with data := Mem.write x.data pos (elemBytes s.next sz) } = s1
    have el := elemBytes_length s.next sz h4
    have wl : (Mem.write x.data pos (elemBytes s.next sz)).length = x.data.length :=
      write_length _ _ _ (by rw [el]; exact f1)
    have hb1 : s1.buf? b = some { x with data := Mem.write x.data pos (elemBytes s.next sz) } := by
      rw [← hs1]
      have e := State.buf?_setBuf { s with oracle := [], next := s.next + 1, log := s.log ++ [ctorEv s.next (some (rdTok bytes (pos - base)))] } b b
        { x with data := Mem.write x.data pos (elemBytes s.next sz) } blt
      simpa using e
    have fr1 : Frame s s1 b := by
      rw [← hs1]
      refine ⟨rfl, rfl, by simp, ?_⟩
      intro c ne
      have e := State.buf?_setBuf { s with oracle := [], next := s.next + 1, log := s.log ++ [ctorEv s.next (some (rdTok bytes (pos - base)))] } b c
        { x with data := Mem.write x.data pos (elemBytes s.next sz) } blt
      rw [e]; simp [ne]; rfl
    have n1 : s1.next = s.next + 1 := by rw [← hs1]; rfl
    have o1 : s1.oracle = [] := by rw [← hs1]; rfl
    have l1 : s1.log = s.log ++ [Ev.copy s.next (rdTok bytes (pos - base))] := by rw [← hs1]; rfl
    obtain ⟨s2, d', hd, fr2, n2, o2, l2, hb2, dl, tk, low⟩ :=
      ih s1 b (pos + sz) stop used base bytes sz hasFini (count + 1) _ o1 hb1 h4
        (by simp only [Buf.size, wl]; simp only [Buf.size] at fit; omega) (by rw [n1]; omega) (by omega)
    refine ⟨s2, d', ?_, fr1.trans fr2, by rw [n2, n1]; omega, o2, ?_, hb2, by rw [dl, wl], ?_, ?_⟩
    · rw [hd]; congr 2; omega
    · rw [l2, l1, n1]
      simp only [copyEvs, List.append_assoc, List.singleton_append]
      congr 3; omega
    · simp only [toksAt, seqFrom]
      rw [tk, n1]
      congr 1
      rw [rdTok_congr _ _ _ (fun i hi => low i (by omega))]
      exact rdTok_elem _ _ _ _ h4 (by simp only [Buf.size] at f1; exact f1) (by omega)
    · intro i hi
      rw [low i (by omega)]
      exact getD_write_lt _ _ _ _ (by rw [el]; exact f1) (Or.inl hi)


theorem iters_zero (a sz : Nat) (h : sz ≠ 0) : iters a a sz = 0 := by
  unfold iters
  rw [Nat.sub_self, Nat.zero_add]
  exact Nat.div_eq_of_lt (by omega)

theorem iters_mul (k sz : Nat) (h : sz ≠ 0) : iters 0 (k * sz) sz = k := by
  unfold iters
  have : k * sz - 0 + sz - 1 = sz * k + (sz - 1) := by rw [Nat.mul_comm]; omega
  rw [this, Nat.mul_add_div (Nat.pos_of_ne_zero h), Nat.div_eq_of_lt (by omega)]
  simp

/-- `mpt_buffer_set(target, traits, 0, source elements, len)` into an empty typed buffer when no constructor
    is refused: every element is copy-constructed (a fresh token each), nothing is duplicated as raw bytes -/
theorem bufferSet_copy_fresh {s : State} {nb : Nat} {z : Buf} {t : Traits} (hz : s.buf? nb = some z)
    (zt : z.traits = some t) (zu : z.used = 0) (ti : t.init = true) (tf : t.fini.isSome = true) (h4 : 4 ≤ t.size)
    (k : Nat) (bytes : List Byte) (bl : bytes.length = k * t.size) (fit : k * t.size ≤ z.size)
    (ho : s.oracle = []) (small : s.next + k < 4294967296) :
    ∃ s' d', bufferSet s nb (some t) 0 bytes true = .ok s' (Int.ofNat k) ∧ Frame s s' nb ∧ s'.next = s.next + k ∧
      s'.oracle = [] ∧
      s'.log = s.log ++ copyEvs s.next bytes 0 t.size k ∧
      s'.buf? nb = some { z with data := d', used := k * t.size } ∧
      toksAt d' 0 t.size k = seqFrom s.next k := by
  have sz0 : t.size ≠ 0 := by omega
  unfold bufferSet
  rw [hz]
  simp only
  rw [if_neg (by rw [bl]; omega)]
  rw [zt]
  simp only [bufferSetTyped]
  have m0 : bytes.length % t.size = 0 := by rw [bl]; exact Nat.mul_mod_left k t.size
  rw [if_neg (by simp [sz0, m0])]
  rw [if_neg (by simp)]
  rw [if_neg (by simp [ti])]
  simp only [tf, if_true, ti, zu, Nat.zero_mod, Nat.sub_zero, Nat.zero_add, Nat.zero_min]
  rw [iters_zero 0 t.size sz0]
  simp only [setGapLoop]
  rw [bl, iters_mul k t.size sz0]
  obtain ⟨s', d', hd, fr, n', o', l', hb', _, tk, _⟩ :=
    setInitLoop_nofail k s nb 0 (k * t.size) 0 0 bytes t.size true 0 z ho hz h4 (by omega) small (Nat.le_refl _)
  refine ⟨s', d', ?_, fr, n', o', ?_, ?_, tk⟩
  · rw [hd]; simp [savedToks]
  · rw [l']
  · rw [hb']; simp [zt]


/-- the default-construction loop of `mpt_array_slice` under ANY constructor failure schedule: it builds a
    prefix of `m ≤ n` elements with fresh tokens; when a constructor is refused (`m < n`) the used size is
    set to the end of that prefix, so exactly the constructed elements lie inside the used data -/
theorem initLoopStop_spec : ∀ (n : Nat) (s : State) (b pos sz : Nat) (x : Buf),
    s.buf? b = some x → 4 ≤ sz → pos + n * sz ≤ x.size → s.next + n < 4294967296 →
    ∃ s' d' m, m ≤ n ∧ Frame s s' b ∧ s'.next = s.next + m ∧ d'.length = x.data.length ∧
      toksAt d' pos sz m = seqFrom s.next m ∧ (∀ i, i < pos → d'.getD i 0 = x.data.getD i 0) ∧
      s'.log = s.log ++ (seqFrom s.next m).map Ev.init ++ (if m < n then [Ev.fail] else []) ∧
      ((m = n ∧ initLoopStop n s b pos sz = .ok s' () ∧ s'.buf? b = some { x with data := d' }) ∨
       (m < n ∧ initLoopStop n s b pos sz = .fail s' .null ∧ s'.buf? b = some { x with data := d', used := pos + m * sz })) := by
  intro n
  induction n with
  | zero =>
    intro s b pos sz x hb _ _ _
    exact ⟨s, x.data, 0, Nat.le_refl _, Frame.refl s b, rfl, rfl, rfl, fun _ _ => rfl, by simp [seqFrom],
      Or.inl ⟨rfl, rfl, hb⟩⟩
  | succ n ih =>
    intro s b pos sz x hb h4 fit small
    have blt := State.buf?_lt hb
    have mul : (n + 1) * sz = n * sz + sz := by rw [Nat.add_mul]; simp
    have f1 : pos + sz ≤ x.size := by omega
    -- the state after a successful construction at `pos` with remaining schedule `o`
    have good : ∀ (o : List Bool),
        (∃ s1, s1 = State.setBuf { s with oracle := o, next := s.next + 1, log := s.log ++ [ctorEv s.next none] } b
            { x with data := Mem.write x.data pos (elemBytes s.next sz) }) := fun o => ⟨_, rfl⟩
    have el := elemBytes_length s.next sz h4
    have wl : (Mem.write x.data pos (elemBytes s.next sz)).length = x.data.length :=
      write_length _ _ _ (by rw [el]; exact f1)
    have step : ∀ (o : List Bool) (s1 : State),
        s1 = State.setBuf { s with oracle := o, next := s.next + 1, log := s.log ++ [ctorEv s.next none] } b
            { x with data := Mem.write x.data pos (elemBytes s.next sz) } →
        (match initLoopStop n s1 b (pos + sz) sz with
          | r => True) →
        ∃ s' d' m, m ≤ n + 1 ∧ Frame s s' b ∧ s'.next = s.next + m ∧ d'.length = x.data.length ∧
          toksAt d' pos sz m = seqFrom s.next m ∧ (∀ i, i < pos → d'.getD i 0 = x.data.getD i 0) ∧
          s'.log = s.log ++ (seqFrom s.next m).map Ev.init ++ (if m < n + 1 then [Ev.fail] else []) ∧
          ((m = n + 1 ∧ initLoopStop n s1 b (pos + sz) sz = .ok s' () ∧ s'.buf? b = some { x with data := d' }) ∨
           (m < n + 1 ∧ initLoopStop n s1 b (pos + sz) sz = .fail s' .null ∧ s'.buf? b = some { x with data := d', used := pos + m * sz })) := by
      intro o s1 hs1 _
      have hb1 : s1.buf? b = some { x with data := Mem.write x.data pos (elemBytes s.next sz) } := by
        rw [hs1]
        have e := State.buf?_setBuf { s with oracle := o, next := s.next + 1, log := s.log ++ [ctorEv s.next none] } b b
          { x with data := Mem.write x.data pos (elemBytes s.next sz) } blt
        simpa using e
      have fr1 : Frame s s1 b := by
        rw [hs1]
        refine ⟨rfl, rfl, by simp, ?_⟩
        intro c ne
        have e := State.buf?_setBuf { s with oracle := o, next := s.next + 1, log := s.log ++ [ctorEv s.next none] } b c
          { x with data := Mem.write x.data pos (elemBytes s.next sz) } blt
        rw [e]; simp [ne]; rfl
      have n1 : s1.next = s.next + 1 := by rw [hs1]; rfl
      have l1 : s1.log = s.log ++ [Ev.init s.next] := by rw [hs1]; rfl
      obtain ⟨s2, d', m, mle, fr2, n2, dl, tk, low, l2, alt⟩ :=
        ih s1 b (pos + sz) sz _ hb1 h4 (by simp only [Buf.size, wl]; simp only [Buf.size] at fit; omega) (by rw [n1]; omega)
      have tok0 : rdTok d' pos = s.next := by
        rw [rdTok_congr _ _ _ (fun i hi => low i (by omega))]
        exact rdTok_elem _ _ _ _ h4 (by simp only [Buf.size] at f1; exact f1) (by omega)
      refine ⟨s2, d', m + 1, by omega, fr1.trans fr2, by rw [n2, n1]; omega, by rw [dl, wl], ?_, ?_, ?_, ?_⟩
      · simp only [toksAt, seqFrom]; rw [tk, n1, tok0]
      · intro i hi
        rw [low i (by omega)]
        exact getD_write_lt _ _ _ _ (by rw [el]; exact f1) (Or.inl hi)
      · rw [l2, l1, n1]
        simp only [seqFrom, List.map_cons, List.append_assoc, List.singleton_append]
        have : (m + 1 < n + 1) ↔ (m < n) := by omega
        simp only [this]
      · rcases alt with ⟨me, he, hb2⟩ | ⟨ml, he, hb2⟩
        · exact Or.inl ⟨by omega, he, hb2⟩
        · refine Or.inr ⟨by omega, he, ?_⟩
          rw [hb2]
          have : pos + sz + m * sz = pos + (m + 1) * sz := by rw [Nat.add_mul]; omega
          simp [this]
    simp only [initLoopStop, initAt, hb]
    rw [if_neg (by omega)]
    -- schedule cases
    cases ho : s.oracle with
    | nil =>
      simp only [List.tail_nil]
      exact step [] _ rfl trivial
    | cons f rest =>
      cases f with
      | true =>
        simp only
        have hbf : ({ s with oracle := rest, log := s.log ++ [Ev.fail] } : State).buf? b = some x := hb
        rw [hbf]
        simp only
        refine ⟨State.setBuf { s with oracle := rest, log := s.log ++ [Ev.fail] } b { x with used := pos }, x.data, 0,
          by omega, ?_, rfl, rfl, rfl, fun _ _ => rfl, ?_, Or.inr ⟨by omega, rfl, ?_⟩⟩
        · refine ⟨rfl, rfl, by simp, ?_⟩
          intro c ne
          have e := State.buf?_setBuf { s with oracle := rest, log := s.log ++ [Ev.fail] } b c { x with used := pos } blt
          rw [e]; simp [ne]; rfl
        · simp [seqFrom, State.setBuf]
        · have e := State.buf?_setBuf { s with oracle := rest, log := s.log ++ [Ev.fail] } b b { x with used := pos } blt
          rw [e]; simp
      | false =>
        simp only [List.tail_cons]
        exact step rest _ rfl trivial


/-- detaching a shared typed buffer with constructor and destructor (no refused constructor): the source keeps
    its elements and loses one reference; the new private buffer holds one fresh token per element, each
    logged as a copy of the corresponding source element -/
theorem detach_copy_constructs {s : State} {b : Nat} {x : Buf} {t : Traits} (hb : s.buf? b = some x)
    (xt : x.traits = some t) (ti : t.init = true) (tf : t.fini.isSome = true) (h4 : 4 ≤ t.size)
    (shared : 2 ≤ x.ref) (nc : x.nocopy = false) (k : Nat) (xu : x.used = k * t.size) (hu : x.used ≤ x.size)
    (n : Nat) (hn : x.used ≤ n) (ho : s.oracle = []) (small : s.next + k < 4294967296) :
    ∃ s' z, detach s b n = .ok s' s.bufs.length ∧
      s'.buf? b = some { x with ref := x.ref - 1 } ∧
      s'.buf? s.bufs.length = some z ∧ z.ref = 1 ∧ z.traits = some t ∧ z.used = x.used ∧
      toksAt z.data 0 t.size k = seqFrom s.next k ∧
      (∀ c, c ≠ b → c ≠ s.bufs.length → s'.buf? c = s.buf? c) ∧ s'.hs = s.hs ∧
      s'.next = s.next + k ∧
      s'.log = s.log ++ copyEvs s.next x.content 0 t.size k := by
  have blt := State.buf?_lt hb
  have nbne : s.bufs.length ≠ b := by omega
  have sz0 : t.size ≠ 0 := by omega
  unfold detach
  rw [hb]
  simp only [xt, esize]
  rw [if_neg sz0]
  rw [if_neg (by omega)]
  have unc : x.uncopyable = false := by simp [Buf.uncopyable, nc, xt, ti]
  rw [if_neg (by simp [unc])]
  rw [if_pos shared]
  unfold detachCopy
  simp only
  generalize hlen : roundUp n t.size = len
  have nlen : n ≤ len := by rw [← hlen]; exact le_roundUp n _
  generalize hs2 : ((s.newBuf len (x.flags - x.flags % 2) (some t)).setBuf b { x with ref := x.ref - 1 }) = s2
  have l2 : s2.bufs.length = s.bufs.length + 1 := by rw [← hs2]; simp
  have h2 : ∀ c, s2.buf? c = if c = b then some { x with ref := x.ref - 1 } else if c = s.bufs.length then
      some (State.fresh len (x.flags - x.flags % 2) (some t)) else s.buf? c := by
    intro c; rw [← hs2, State.buf?_setBuf _ _ _ _ (by simp; omega), State.buf?_newBuf]
  have hz : s2.buf? s.bufs.length = some (State.fresh len (x.flags - x.flags % 2) (some t)) := by
    rw [h2]; simp [nbne]
  have cl : x.content.length = k * t.size := by rw [content_length x hu, xu]
  have o2 : s2.oracle = [] := by rw [← hs2]; exact ho
  have n2 : s2.next = s.next := by rw [← hs2]; rfl
  have lg2 : s2.log = s.log := by rw [← hs2]; rfl
  obtain ⟨s3, d', hd, fr, n3, _, l3, hb3, tk⟩ := bufferSet_copy_fresh (s := s2) hz rfl rfl ti tf h4 k x.content cl
    (by simp only [State.fresh, Buf.size, List.length_replicate]; have := le_allocSize len; omega) o2 (by rw [n2]; exact small)
  rw [xt, hd]
  simp only
  refine ⟨s3, _, rfl, ?_, hb3, rfl, rfl, by simp [xu], ?_, ?_, ?_, by rw [n3, n2], by rw [l3, lg2, n2]⟩
  · rw [fr.other b (fun e => nbne e.symm), h2]; simp [xt]
  · exact tk.trans (by rw [n2])
  · intro c c1 c2
    rw [fr.other c c2, h2]; simp [c1, c2]
  · rw [fr.hs, ← hs2]; rfl


end Mpt.Heap
