/-
  Helper lemmas for C17 (fragment handling = contiguous computation).  Core Lean only.
-/
import MptModel.Impl.Message
namespace Mpt
open Mpt.Flat

/- ---------------------------------------------------------------- lengths -/

theorem foldl_len (frags : List Frag) (a : Nat) :
    frags.foldl (fun acc f => acc + f.length) a = a + frags.flatten.length := by
  induction frags generalizing a with
  | nil => simp
  | cons f fs ih => simp [List.foldl_cons, ih]; omega

theorem sumLen_eq (frags : List Frag) : sumLen frags = frags.flatten.length := by
  simp [sumLen, foldl_len]

/- ---------------------------------------------------------------- forward search -/

theorem fGo_eq (frags : List Frag) (p : Byte → Bool) (suf pre : List Frag) (h : frags = pre ++ suf) :
    Iov.fGo frags p suf pre.length = (suf.flatten.findIdx? p).map (· + pre.flatten.length) := by
  induction suf generalizing pre with
  | nil => simp [Iov.fGo]
  | cons f fs ih =>
    unfold Iov.fGo
    have htake : frags.take pre.length = pre := by rw [h]; simp
    rw [List.flatten_cons, List.findIdx?_append]
    cases hf : f.findIdx? p with
    | some pos => simp [htake, sumLen_eq]
    | none =>
      simp only [Option.none_or]
      have := ih (pre ++ [f]) (by simp [h])
      simp only [List.length_append, List.length_cons, List.length_nil, Nat.zero_add] at this
      rw [this]
      simp [Option.map_map, Function.comp_def]
      congr 1; funext x; omega

theorem memfcn_eq (frags : List Frag) (p : Byte → Bool) : Iov.memfcn frags p = Flat.find p frags.flatten := by
  have := fGo_eq frags p frags [] (by simp)
  simpa [Iov.memfcn, Flat.find] using this

/- ---------------------------------------------------------------- backward search -/

theorem rfind_append (p : Byte → Bool) (a b : List Byte) :
    Flat.rfind p (a ++ b) = match Flat.rfind p b with
      | some i => some (a.length + i)
      | none => Flat.rfind p a := by
  induction a with
  | nil => cases h : Flat.rfind p b <;> simp [Flat.rfind, h]
  | cons c cs ih =>
    simp only [List.cons_append, Flat.rfind, ih]
    cases h : Flat.rfind p b with
    | some i => simp; omega
    | none => simp

theorem rGo_eq (frags : List Frag) (p : Byte → Bool) (i : Nat) (hi : i ≤ frags.length) :
    Iov.rGo frags p i = Flat.rfind p (frags.take i).flatten := by
  induction i with
  | zero => simp [Iov.rGo, Flat.rfind]
  | succ i ih =>
    have hlt : i < frags.length := by omega
    unfold Iov.rGo
    rw [List.take_add_one, List.flatten_append, rfind_append]
    have hget : frags.getD i [] = frags[i] := by simp [List.getD_eq_getElem?_getD, hlt]
    have hq : frags[i]?.toList.flatten = frags[i] := by simp [hlt]
    rw [hget, hq]
    cases h : Flat.rfind p frags[i] with
    | some pos => simp [sumLen_eq]; omega
    | none => simp [ih (by omega)]

theorem memrfcn_eq (frags : List Frag) (p : Byte → Bool) : Iov.memrfcn frags p = Flat.rfind p frags.flatten := by
  have := rGo_eq frags p frags.length (Nat.le_refl _)
  simpa [Iov.memrfcn] using this

/- ---------------------------------------------------------------- scanner -/

theorem scan_append {σ : Type} (step : σ → Byte → Option σ) (s : σ) (a b : List Byte) :
    Flat.scan step s (a ++ b) = match Flat.scan step s a with
      | .found i => .found i
      | .more s' =>
        match Flat.scan step s' b with
        | .found j => .found (a.length + j)
        | .more t => .more t := by
  induction a generalizing s with
  | nil => cases h : Flat.scan step s b <;> simp [Flat.scan, h]
  | cons c cs ih =>
    simp only [List.cons_append, Flat.scan]
    cases hs : step s c with
    | none => simp
    | some s' =>
      simp only [ih]
      cases h1 : Flat.scan step s' cs with
      | found i => simp
      | more t =>
        cases h2 : Flat.scan step t b with
        | found j => simp [h2]; omega
        | more u => simp [h2]

theorem tokGo_eq (frags : List Frag) (a : TokArgs) (s : TokSt) (suf pre : List Frag) (h : frags = pre ++ suf) :
    Iov.tokGo frags a s suf pre.length = match Flat.scan (tokStep a) s suf.flatten with
      | .found i => some (i + pre.flatten.length)
      | .more _ => none := by
  induction suf generalizing pre s with
  | nil => simp [Iov.tokGo, Flat.scan]
  | cons f fs ih =>
    unfold Iov.tokGo
    have htake : frags.take pre.length = pre := by rw [h]; simp
    rw [List.flatten_cons, scan_append]
    cases hf : Flat.scan (tokStep a) s f with
    | found pos => simp [htake, sumLen_eq]
    | more s' =>
      have := ih s' (pre ++ [f]) (by simp [h])
      simp only [List.length_append, List.length_cons, List.length_nil, Nat.zero_add] at this
      simp only [this]
      cases h2 : Flat.scan (tokStep a) s' fs.flatten with
      | found j => simp; omega
      | more u => simp

theorem memtok_eq (frags : List Frag) (a : TokArgs) : Iov.memtok frags a = Flat.tok frags.flatten a := by
  have := tokGo_eq frags a {} frags [] (by simp)
  simp only [List.length_nil, List.flatten_nil, Nat.add_zero] at this
  simp only [Iov.memtok, Flat.tok, this]
  cases Flat.scan (tokStep a) {} frags.flatten <;> rfl

/- ---------------------------------------------------------------- read -/

theorem skipEmpty_flat (b : Frag) (c : List Frag) : (Msg.skipEmpty b c).flat = b ++ c.flatten := by
  induction c generalizing b with
  | nil => cases b <;> simp [Msg.skipEmpty, Msg.flat]
  | cons f fs ih =>
    cases b with
    | nil => simp [Msg.skipEmpty, ih]
    | cons x xs => simp [Msg.skipEmpty, Msg.flat]

theorem readLoop_eq (base : Frag) (cont : List Frag) (len total : Nat) (out : List Byte) :
    (Msg.readLoop base cont len total out).out = out ++ (base ++ cont.flatten).take len ∧
    (Msg.readLoop base cont len total out).msg.flat = (base ++ cont.flatten).drop len ∧
    (Msg.readLoop base cont len total out).total = total + min len (base ++ cont.flatten).length := by
  induction cont generalizing base len total out with
  | nil =>
    unfold Msg.readLoop
    split
    · rename_i h
      simp [Msg.flat, List.take_of_length_le (Nat.le_of_lt h), List.drop_of_length_le (Nat.le_of_lt h)]
      omega
    · rename_i h
      simp [skipEmpty_flat]
      omega
  | cons f fs ih =>
    unfold Msg.readLoop
    split
    · rename_i h
      have := ih f (len - base.length) (total + base.length) (out ++ base)
      obtain ⟨h1, h2, h3⟩ := this
      refine ⟨?_, ?_, ?_⟩
      · rw [h1]; simp [List.take_append, List.take_of_length_le (Nat.le_of_lt h)]
      · rw [h2]; simp [List.drop_append, List.drop_of_length_le (Nat.le_of_lt h)]
      · rw [h3]; simp; omega
    · rename_i h
      have hle : len ≤ base.length := by omega
      refine ⟨?_, ?_, ?_⟩
      · simp [List.take_append, Nat.sub_eq_zero_of_le hle]
      · simp [skipEmpty_flat, List.drop_append, Nat.sub_eq_zero_of_le hle]
      · simp; omega

/- ---------------------------------------------------------------- append -/

theorem append_foldl (a : List Byte) (cont : List Frag) :
    cont.foldl (fun a f => if f.length = 0 then a else a ++ f) a = a ++ cont.flatten := by
  induction cont generalizing a with
  | nil => simp
  | cons f fs ih =>
    simp only [List.foldl_cons, ih, List.flatten_cons]
    split
    · rename_i h
      have : f = [] := List.eq_nil_of_length_eq_zero h
      simp [this]
    · simp

theorem append_eq (arr : List Byte) (m : Msg) : m.append arr = Flat.append arr m.flat := by
  simp only [Msg.append, append_foldl, Flat.append, Msg.flat]
  split
  · simp
  · rename_i h
    have : m.base = [] := List.eq_nil_of_length_eq_zero (by omega)
    simp [this]

/- ---------------------------------------------------------------- append with allocation failures -/

/-- whatever happens, the buffer content only grows at its end -/
theorem appendLoop_prefix (failAt : Nat) (fs : List Frag) (cap : Option Nat) (cur : List Byte) (n : Nat) :
    ∃ x, (Msg.appendLoop failAt fs cap cur n).2.1 = cur ++ x := by
  induction fs generalizing cap cur n with
  | nil => exact ⟨[], by simp [Msg.appendLoop]⟩
  | cons f fs ih =>
    unfold Msg.appendLoop
    by_cases h0 : f.length = 0
    · simp only [h0, if_true]; exact ih cap cur n
    · simp only [h0, if_false]
      by_cases hn : Msg.needAlloc cap cur.length f.length = true
      · simp only [hn, if_true]
        by_cases hf : n + 1 = failAt
        · simp only [hf, if_true]; exact ⟨[], by simp⟩
        · simp only [hf, if_false]
          obtain ⟨x, hx⟩ := ih (some (Msg.bufCap (cur.length + f.length))) (cur ++ f) (n + 1)
          exact ⟨f ++ x, by rw [hx]; simp⟩
      · simp only [hn, if_false, Bool.false_eq_true]
        obtain ⟨x, hx⟩ := ih cap (cur ++ f) n
        exact ⟨f ++ x, by rw [hx]; simp⟩

/-- without a failing allocation every fragment arrives -/
theorem appendLoop_ok (fs : List Frag) (cap : Option Nat) (cur : List Byte) (n : Nat) :
    (Msg.appendLoop 0 fs cap cur n).1 = true ∧ (Msg.appendLoop 0 fs cap cur n).2.1 = cur ++ fs.flatten := by
  induction fs generalizing cap cur n with
  | nil => simp [Msg.appendLoop]
  | cons f fs ih =>
    unfold Msg.appendLoop
    by_cases h0 : f.length = 0
    · have : f = [] := List.eq_nil_of_length_eq_zero h0
      simp only [h0, if_true]
      simpa [this] using ih cap cur n
    · simp only [h0, if_false, Nat.add_one_ne_zero]
      by_cases hn : Msg.needAlloc cap cur.length f.length = true
      · simp only [hn, if_true]
        simpa using ih (some (Msg.bufCap (cur.length + f.length))) (cur ++ f) (n + 1)
      · simp only [hn, if_false, Bool.false_eq_true]
        simpa using ih cap (cur ++ f) n

end Mpt
