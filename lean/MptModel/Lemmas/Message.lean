/-
  Helper lemmas for C17 (fragment handling = contiguous computation).  Core Lean only.
-/
import MptModel.Impl.Message
namespace Mpt
open Mpt.Flat

/- ---------------------------------------------------------------- lengths -/

theorem foldl_len (frags : List Frag) (a : Nat) :
    frags.foldl (fun acc f => acc + f.length) a = a + frags.flatten.length := by
  induction frags generalizing a with
  | nil => simp
  | cons f fs ih => simp [List.foldl_cons, ih]; omega

theorem sumLen_eq (frags : List Frag) : sumLen frags = frags.flatten.length := by
  simp [sumLen, foldl_len]

/- ---------------------------------------------------------------- forward search -/

theorem fGo_eq (frags : List Frag) (p : Byte → Bool) (suf pre : List Frag) (h : frags = pre ++ suf) :
    Iov.fGo frags p suf pre.length = (suf.flatten.findIdx? p).map (· + pre.flatten.length) := by
  induction suf generalizing pre with
  | nil => simp [Iov.fGo]
  | cons f fs ih =>
    unfold Iov.fGo
    have htake : frags.take pre.length = pre := by rw [h]; simp
    rw [List.flatten_cons, List.findIdx?_append]
    cases hf : f.findIdx? p with
    | some pos => simp [htake, sumLen_eq]
    | none =>
      simp only [Option.none_or]
      have := ih (pre ++ [f]) (by simp [h])
      simp only [List.length_append, List.length_cons, List.length_nil, Nat.zero_add] at this
      rw [this]
      simp [Option.map_map, Function.comp_def]
      congr 1; funext x; omega

theorem memfcn_eq (frags : List Frag) (p : Byte → Bool) : Iov.memfcn frags p = Flat.find p frags.flatten := by
  have := fGo_eq frags p frags [] (by simp)
  simpa [Iov.memfcn, Flat.find] using this

/- ---------------------------------------------------------------- backward search -/

theorem rfind_append (p : Byte → Bool) (a b : List Byte) :
    Flat.rfind p (a ++ b) = match Flat.rfind p b with
      | some i => some (a.length + i)
      | none => Flat.rfind p a := by
  induction a with
  | nil => cases h : Flat.rfind p b <;> simp [Flat.rfind, h]
  | cons c cs ih =>
    simp only [List.cons_append, Flat.rfind, ih]
    cases h : Flat.rfind p b with
    | some i => simp; omega
    | none => simp

theorem rGo_eq (frags : List Frag) (p : Byte → Bool) (i : Nat) (hi : i ≤ frags.length) :
    Iov.rGo frags p i = Flat.rfind p (frags.take i).flatten := by
  induction i with
  | zero => simp [Iov.rGo, Flat.rfind]
  | succ i ih =>
    have hlt : i < frags.length := by omega
    unfold Iov.rGo
    rw [List.take_add_one, List.flatten_append, rfind_append]
    have hget : frags.getD i [] = frags[i] := by simp [List.getD_eq_getElem?_getD, hlt]
    have hq : frags[i]?.toList.flatten = frags[i] := by simp [hlt]
    rw [hget, hq]
    cases h : Flat.rfind p frags[i] with
    | some pos => simp [sumLen_eq]; omega
    | none => simp [ih (by omega)]

theorem memrfcn_eq (frags : List Frag) (p : Byte → Bool) : Iov.memrfcn frags p = Flat.rfind p frags.flatten := by
  have := rGo_eq frags p frags.length (Nat.le_refl _)
  simpa [Iov.memrfcn] using this

/- ---------------------------------------------------------------- scanner -/

theorem scan_append {σ : Type} (step : σ → Byte → Option σ) (s : σ) (a b : List Byte) :
    Flat.scan step s (a ++ b) = match Flat.scan step s a with
      | .found i => .found i
      | .more s' =>
        match Flat.scan step s' b with
        | .found j => .found (a.length + j)
        | .more t => .more t := by
  induction a generalizing s with
  | nil => cases h : Flat.scan step s b <;> simp [Flat.scan, h]
  | cons c cs ih =>
    simp only [List.cons_append, Flat.scan]
    cases hs : step s c with
    | none => simp
    | some s' =>
      simp only [ih]
      cases h1 : Flat.scan step s' cs with
      | found i => simp
      | more t =>
        cases h2 : Flat.scan step t b with
        | found j => simp [h2]; omega
        | more u => simp [h2]

/-- how the byte loop of the model reads off the spec's scanner -/
def outOf : Flat.Scan TokSt → Iov.TokOut
  | .found i => .found i
  | .more s => if s.skip then .comment s.quote s.prev else .more s.quote s.prev

theorem outOf_shift (r : Flat.Scan TokSt) :
    (outOf r).shift = outOf (match r with | .found i => .found (i + 1) | .more t => .more t) := by
  cases r with
  | found i => rfl
  | more s => simp only [outOf]; split <;> rfl

/-- the hand-written byte loop of `mpt_memtok` = the spec's one-character rule iterated -/
theorem tokStep_mk (a : TokArgs) (q : Option Byte) (prev : Byte) (inC : Bool) (c : Byte) :
    tokStep a ⟨q, prev, inC⟩ c =
      (if inC = true then (if (c == 10) = true then some ⟨q, c, false⟩ else some ⟨q, prev, true⟩)
       else if (!a.esc.isEmpty && q.isSome) = true then some ⟨if (q == some c && prev != 92) = true then none else q, c, false⟩
       else if (!a.esc.isEmpty && a.esc.contains c) = true then some ⟨some c, prev, false⟩
       else if (a.com.contains c && isSpace prev) = true then
         (match a.tok with
          | some _ => none
          | none => some ⟨q, prev, true⟩)
       else
         (match a.tok with
          | some t => if t.contains c = true then none else some ⟨q, c, false⟩
          | none => if (!isSpace c) = true then none else some ⟨q, c, false⟩)) := by
  cases inC <;> rfl

theorem tokBytes_scan (a : TokArgs) (q : Option Byte) (prev : Byte) (inC : Bool) (bs : List Byte) :
    Iov.tokBytes a q prev inC bs = outOf (Flat.scan (tokStep a) ⟨q, prev, inC⟩ bs) := by
  induction bs generalizing q prev inC with
  | nil => cases inC <;> simp [Iov.tokBytes, Flat.scan, outOf]
  | cons c cs ih =>
    -- one step of the spec's scanner, then the rest
    have hstep : ∀ s', tokStep a ⟨q, prev, inC⟩ c = some s' →
        outOf (Flat.scan (tokStep a) ⟨q, prev, inC⟩ (c :: cs)) = (outOf (Flat.scan (tokStep a) s' cs)).shift := by
      intro s' hs
      simp only [Flat.scan, hs]
      cases Flat.scan (tokStep a) s' cs with
      | found i => rfl
      | more t => simp only [outOf]; split <;> rfl
    have hfound : tokStep a ⟨q, prev, inC⟩ c = none →
        outOf (Flat.scan (tokStep a) ⟨q, prev, inC⟩ (c :: cs)) = .found 0 := by
      intro hs; simp only [Flat.scan, hs]; rfl
    rw [tokStep_mk] at hstep hfound
    unfold Iov.tokBytes
    by_cases hC : inC = true
    · simp only [hC, if_true] at hstep hfound ⊢
      by_cases h10 : (c == 10) = true
      · simp only [h10, if_true] at hstep ⊢
        rw [hstep _ rfl, ih]
      · simp only [h10, if_false, Bool.false_eq_true] at hstep ⊢
        rw [hstep _ rfl, ih]
    · simp only [hC, if_false, Bool.false_eq_true] at hstep hfound ⊢
      by_cases h1 : (!a.esc.isEmpty && q.isSome) = true
      · simp only [h1, if_true] at hstep ⊢
        rw [hstep _ rfl, ih]
      · simp only [h1, if_false, Bool.false_eq_true] at hstep hfound ⊢
        by_cases h2 : (!a.esc.isEmpty && a.esc.contains c) = true
        · simp only [h2, if_true] at hstep ⊢
          rw [hstep _ rfl, ih]
        · simp only [h2, if_false, Bool.false_eq_true] at hstep hfound ⊢
          by_cases h3 : (a.com.contains c && isSpace prev) = true
          · simp only [h3, if_true] at hstep hfound ⊢
            cases ht : a.tok with
            | some t => simp only [ht] at hfound ⊢; rw [hfound (by first | rfl | trivial)]
            | none => simp only [ht] at hstep ⊢; rw [hstep _ rfl, ih]
          · simp only [h3, if_false, Bool.false_eq_true] at hstep hfound ⊢
            cases ht : a.tok with
            | some t =>
              simp only [ht] at hstep hfound ⊢
              by_cases h4 : t.contains c = true
              · simp only [h4, if_true] at hfound ⊢; rw [hfound (by first | rfl | trivial)]
              · simp only [h4, if_false, Bool.false_eq_true] at hstep ⊢; rw [hstep _ rfl, ih]
            | none =>
              simp only [ht] at hstep hfound ⊢
              by_cases h4 : (!isSpace c) = true
              · simp only [h4, if_true] at hfound ⊢; rw [hfound (by first | rfl | trivial)]
              · simp only [h4, if_false, Bool.false_eq_true] at hstep ⊢; rw [hstep _ rfl, ih]

theorem tokGo_eq (frags : List Frag) (a : TokArgs) (inC : Bool) (q : Option Byte) (prev : Byte) (suf pre : List Frag)
    (h : frags = pre ++ suf) :
    Iov.tokGo frags a inC q prev suf pre.length = match Flat.scan (tokStep a) ⟨q, prev, inC⟩ suf.flatten with
      | .found i => some (i + pre.flatten.length)
      | .more _ => none := by
  induction suf generalizing pre inC q prev with
  | nil => cases inC <;> simp [Iov.tokGo, Flat.scan]
  | cons f fs ih =>
    have htake : frags.take pre.length = pre := by rw [h]; simp
    have hnext := fun (b : Bool) (q' : Option Byte) (p' : Byte) => ih b q' p' (pre ++ [f]) (by simp [h])
    simp only [List.length_append, List.length_cons, List.length_nil, Nat.zero_add] at hnext
    rw [List.flatten_cons, scan_append]
    cases inC with
    | false =>
      unfold Iov.tokGo
      rw [tokBytes_scan]
      cases hf : Flat.scan (tokStep a) ⟨q, prev, false⟩ f with
      | found pos => simp [outOf, htake, sumLen_eq]
      | more s =>
        simp only [outOf]
        cases hs : s.skip with
        | false =>
          simp only [Bool.false_eq_true, if_false, hnext]
          have : (⟨s.quote, s.prev, false⟩ : TokSt) = s := by cases s; simp_all
          rw [this]
          cases Flat.scan (tokStep a) s fs.flatten with
          | found j => first | (simp; omega) | simp
          | more u => simp
        | true =>
          simp only [if_true, hnext]
          have : (⟨s.quote, s.prev, true⟩ : TokSt) = s := by cases s; simp_all
          rw [this]
          cases Flat.scan (tokStep a) s fs.flatten with
          | found j => first | (simp; omega) | simp
          | more u => simp
    | true =>
      cases f with
      | nil =>
        unfold Iov.tokGo
        simp only [Flat.scan, List.length_nil, Nat.zero_add, hnext]
        cases Flat.scan (tokStep a) ⟨q, prev, true⟩ fs.flatten with
        | found j => simp
        | more u => simp
      | cons c cs =>
        unfold Iov.tokGo
        -- first byte of the new part on its own, then the inner loop
        have hfirst : (if (c == 10) = true then Iov.tokBytes a q c false cs else Iov.tokBytes a q prev true cs) =
            outOf (match tokStep a ⟨q, prev, true⟩ c with
              | none => .found 0
              | some s' => Flat.scan (tokStep a) s' cs) := by
          by_cases h10 : (c == 10) = true
          · simp only [h10, if_true, tokStep, tokBytes_scan]
          · simp only [h10, Bool.false_eq_true, if_false, tokStep, if_true, tokBytes_scan]
        rw [hfirst]
        simp only [Flat.scan]
        have hsome : ∃ s', tokStep a ⟨q, prev, true⟩ c = some s' := by
          by_cases h10 : (c == 10) = true <;> simp [tokStep, h10]
        obtain ⟨s', hs'⟩ := hsome
        rw [hs']
        simp only []
        cases hf : Flat.scan (tokStep a) s' cs with
        | found pos => first | (simp [outOf, htake, sumLen_eq]; omega) | simp [outOf, htake, sumLen_eq]
        | more s =>
          simp only [outOf]
          cases hs : s.skip with
          | false =>
            simp only [Bool.false_eq_true, if_false, hnext]
            have : (⟨s.quote, s.prev, false⟩ : TokSt) = s := by cases s; simp_all
            rw [this]
            cases Flat.scan (tokStep a) s fs.flatten with
            | found j => first | (simp; omega) | simp
            | more u => simp
          | true =>
            simp only [if_true, hnext]
            have : (⟨s.quote, s.prev, true⟩ : TokSt) = s := by cases s; simp_all
            rw [this]
            cases Flat.scan (tokStep a) s fs.flatten with
            | found j => first | (simp; omega) | simp
            | more u => simp

theorem memtok_eq (frags : List Frag) (a : TokArgs) : Iov.memtok frags a = Flat.tok frags.flatten a := by
  have := tokGo_eq frags a false none 32 frags [] (by simp)
  simp only [List.length_nil, List.flatten_nil, Nat.add_zero] at this
  simp only [Iov.memtok, Flat.tok, this]
  have : (⟨none, 32, false⟩ : TokSt) = {} := rfl
  rw [this]
  cases Flat.scan (tokStep a) {} frags.flatten <;> rfl

/- ---------------------------------------------------------------- nextSpace of message_argv.c -/

theorem nsBytes_scan (q : Option Byte) (prev : Byte) (bs : List Byte) :
    Iov.nsBytes q prev bs = outOf (Flat.scan (tokStep wsTok) ⟨q, prev, false⟩ bs) := by
  induction bs generalizing q prev with
  | nil => simp [Iov.nsBytes, Flat.scan, outOf]
  | cons c cs ih =>
    have hstep : ∀ s', tokStep wsTok ⟨q, prev, false⟩ c = some s' →
        outOf (Flat.scan (tokStep wsTok) ⟨q, prev, false⟩ (c :: cs)) = (outOf (Flat.scan (tokStep wsTok) s' cs)).shift := by
      intro s' hs
      simp only [Flat.scan, hs]
      cases Flat.scan (tokStep wsTok) s' cs with
      | found i => rfl
      | more t => simp only [outOf]; split <;> rfl
    have hfound : tokStep wsTok ⟨q, prev, false⟩ c = none →
        outOf (Flat.scan (tokStep wsTok) ⟨q, prev, false⟩ (c :: cs)) = .found 0 := by
      intro hs; simp only [Flat.scan, hs]; rfl
    rw [tokStep_mk] at hstep hfound
    have hesc : (!wsTok.esc.isEmpty) = true := rfl
    have hcom : wsTok.com.contains c = false := rfl
    have htok : wsTok.tok = some [9, 32, 10, 13, 11] := rfl
    have hq : wsTok.esc.contains c = ([39, 34] : List Byte).contains c := rfl
    simp only [Bool.false_eq_true, if_false, hesc, hcom, htok, hq, Bool.true_and, Bool.false_and] at hstep hfound
    unfold Iov.nsBytes
    cases q with
    | some m =>
      simp only [Option.isSome_some, if_true] at hstep ⊢
      rw [hstep _ rfl, ih]
    | none =>
      simp only [Option.isSome_none, Bool.false_eq_true, if_false] at hstep hfound ⊢
      by_cases h2 : ([39, 34] : List Byte).contains c = true
      · simp only [h2, if_true] at hstep ⊢
        rw [hstep _ rfl, ih]
      · simp only [h2, if_false, Bool.false_eq_true] at hstep hfound ⊢
        by_cases h4 : ([9, 32, 10, 13, 11] : List Byte).contains c = true
        · simp only [h4, if_true] at hfound ⊢
          rw [hfound (by first | rfl | trivial)]
        · simp only [h4, if_false, Bool.false_eq_true] at hstep ⊢
          rw [hstep _ rfl, ih]

/-- with a token set the scanner never enters the comment mode -/
theorem ws_skip_false (bs : List Byte) (q : Option Byte) (prev : Byte) (t : TokSt)
    (h : Flat.scan (tokStep wsTok) ⟨q, prev, false⟩ bs = .more t) : t.skip = false := by
  have := nsBytes_scan q prev bs
  rw [h] at this
  -- nsBytes never answers `comment`
  have hno : ∀ (bs : List Byte) (q : Option Byte) (prev : Byte) (a : Option Byte) (b : Byte), Iov.nsBytes q prev bs ≠ .comment a b := by
    intro bs
    induction bs with
    | nil => intro q prev a b; simp [Iov.nsBytes]
    | cons c cs ih =>
      intro q prev a b
      unfold Iov.nsBytes
      have hsh : ∀ (x : Iov.TokOut), x ≠ .comment a b → x.shift ≠ .comment a b := by
        intro x hx; cases x <;> simp_all [Iov.TokOut.shift]
      cases q with
      | some m => exact hsh _ (ih _ _ a b)
      | none =>
        simp only []
        split
        · exact hsh _ (ih _ _ a b)
        · split
          · simp
          · exact hsh _ (ih _ _ a b)
  cases hs : t.skip with
  | false => rfl
  | true => simp only [outOf, hs, if_true] at this; exact absurd this (hno bs q prev _ _)

theorem nsGo_eq (q : Option Byte) (prev : Byte) (curr : Frag) (cont : List Frag) (pos : Nat) :
    Iov.nsGo q prev curr cont pos = match Flat.scan (tokStep wsTok) ⟨q, prev, false⟩ (curr ++ cont.flatten) with
      | .found i => some (pos + i)
      | .more _ => none := by
  induction cont generalizing q prev curr pos with
  | nil =>
    unfold Iov.nsGo
    rw [nsBytes_scan]
    simp only [List.flatten_nil, List.append_nil]
    cases hf : Flat.scan (tokStep wsTok) ⟨q, prev, false⟩ curr with
    | found i => simp [outOf]
    | more s => cases hs : s.skip <;> simp [outOf, hs]
  | cons f fs ih =>
    unfold Iov.nsGo
    rw [nsBytes_scan, List.flatten_cons, scan_append]
    cases hf : Flat.scan (tokStep wsTok) ⟨q, prev, false⟩ curr with
    | found i => simp [outOf]
    | more s =>
      have hskip : s.skip = false := ws_skip_false curr q prev s hf
      simp only [outOf, hskip, Bool.false_eq_true, if_false]
      rw [ih]
      have : (⟨s.quote, s.prev, false⟩ : TokSt) = s := by cases s; simp_all
      rw [this]
      cases Flat.scan (tokStep wsTok) s (f ++ fs.flatten) with
      | found j => first | (simp; omega) | simp
      | more u => simp

theorem nextSpace_eq (curr : Frag) (cont : List Frag) :
    Iov.nextSpace curr cont = Flat.tok (curr ++ cont.flatten) wsTok := by
  unfold Iov.nextSpace Flat.tok
  rw [nsGo_eq]
  have : (⟨none, 32, false⟩ : TokSt) = {} := rfl
  rw [this]
  cases Flat.scan (tokStep wsTok) {} (curr ++ cont.flatten) <;> simp

/- ---------------------------------------------------------------- read -/

theorem skipEmpty_flat (b : Frag) (c : List Frag) : (Msg.skipEmpty b c).flat = b ++ c.flatten := by
  induction c generalizing b with
  | nil => cases b <;> simp [Msg.skipEmpty, Msg.flat]
  | cons f fs ih =>
    cases b with
    | nil => simp [Msg.skipEmpty, ih]
    | cons x xs => simp [Msg.skipEmpty, Msg.flat]

theorem readLoop_eq (base : Frag) (cont : List Frag) (len total : Nat) (out : List Byte) :
    (Msg.readLoop base cont len total out).out = out ++ (base ++ cont.flatten).take len ∧
    (Msg.readLoop base cont len total out).msg.flat = (base ++ cont.flatten).drop len ∧
    (Msg.readLoop base cont len total out).total = total + min len (base ++ cont.flatten).length := by
  induction cont generalizing base len total out with
  | nil =>
    unfold Msg.readLoop
    split
    · rename_i h
      simp [Msg.flat, List.take_of_length_le (Nat.le_of_lt h), List.drop_of_length_le (Nat.le_of_lt h)]
      omega
    · rename_i h
      simp [skipEmpty_flat]
      omega
  | cons f fs ih =>
    unfold Msg.readLoop
    split
    · rename_i h
      have := ih f (len - base.length) (total + base.length) (out ++ base)
      obtain ⟨h1, h2, h3⟩ := this
      refine ⟨?_, ?_, ?_⟩
      · rw [h1]; simp [List.take_append, List.take_of_length_le (Nat.le_of_lt h)]
      · rw [h2]; simp [List.drop_append, List.drop_of_length_le (Nat.le_of_lt h)]
      · rw [h3]; simp; omega
    · rename_i h
      have hle : len ≤ base.length := by omega
      refine ⟨?_, ?_, ?_⟩
      · simp [List.take_append, Nat.sub_eq_zero_of_le hle]
      · simp [skipEmpty_flat, List.drop_append, Nat.sub_eq_zero_of_le hle]
      · simp; omega

/- ---------------------------------------------------------------- append -/

theorem append_foldl (a : List Byte) (cont : List Frag) :
    cont.foldl (fun a f => if f.length = 0 then a else a ++ f) a = a ++ cont.flatten := by
  induction cont generalizing a with
  | nil => simp
  | cons f fs ih =>
    simp only [List.foldl_cons, ih, List.flatten_cons]
    split
    · rename_i h
      have : f = [] := List.eq_nil_of_length_eq_zero h
      simp [this]
    · simp

theorem append_eq (arr : List Byte) (m : Msg) : m.append arr = Flat.append arr m.flat := by
  simp only [Msg.append, append_foldl, Flat.append, Msg.flat]
  split
  · simp
  · rename_i h
    have : m.base = [] := List.eq_nil_of_length_eq_zero (by omega)
    simp [this]

/- ---------------------------------------------------------------- append with allocation failures -/

/-- whatever happens, the buffer content only grows at its end -/
theorem appendLoop_prefix (failAt : Nat) (fs : List Frag) (cap : Option Nat) (cur : List Byte) (n : Nat) :
    ∃ x, (Msg.appendLoop failAt fs cap cur n).2.1 = cur ++ x := by
  induction fs generalizing cap cur n with
  | nil => exact ⟨[], by simp [Msg.appendLoop]⟩
  | cons f fs ih =>
    unfold Msg.appendLoop
    by_cases h0 : f.length = 0
    · simp only [h0, if_true]; exact ih cap cur n
    · simp only [h0, if_false]
      by_cases hn : Msg.needAlloc cap cur.length f.length = true
      · simp only [hn, if_true]
        by_cases hf : n + 1 = failAt
        · simp only [hf, if_true]; exact ⟨[], by simp⟩
        · simp only [hf, if_false]
          obtain ⟨x, hx⟩ := ih (some (Msg.bufCap (cur.length + f.length))) (cur ++ f) (n + 1)
          exact ⟨f ++ x, by rw [hx]; simp⟩
      · simp only [hn, if_false, Bool.false_eq_true]
        obtain ⟨x, hx⟩ := ih cap (cur ++ f) n
        exact ⟨f ++ x, by rw [hx]; simp⟩

/-- without a failing allocation every fragment arrives -/
theorem appendLoop_ok (fs : List Frag) (cap : Option Nat) (cur : List Byte) (n : Nat) :
    (Msg.appendLoop 0 fs cap cur n).1 = true ∧ (Msg.appendLoop 0 fs cap cur n).2.1 = cur ++ fs.flatten := by
  induction fs generalizing cap cur n with
  | nil => simp [Msg.appendLoop]
  | cons f fs ih =>
    unfold Msg.appendLoop
    by_cases h0 : f.length = 0
    · have : f = [] := List.eq_nil_of_length_eq_zero h0
      simp only [h0, if_true]
      simpa [this] using ih cap cur n
    · simp only [h0, if_false, Nat.add_one_ne_zero]
      by_cases hn : Msg.needAlloc cap cur.length f.length = true
      · simp only [hn, if_true]
        simpa using ih (some (Msg.bufCap (cur.length + f.length))) (cur ++ f) (n + 1)
      · simp only [hn, if_false, Bool.false_eq_true]
        simpa using ih cap (cur ++ f) n

end Mpt
