/-
  The abstraction relation between the pointer store and ordered forests:
  `Real s par prev l` = "the sibling list `l` (with everything below) is laid out in `s` with parent
  `par` and the first element's predecessor `prev`".  Core Lean only.
-/
import MptModel.Lemmas.NodesBasic
namespace Mpt.Nodes
open Mpt Mpt.Forest

/-- the record a node of the forest must have -/
@[reducible] def recOf (next prev par : Option Nat) (cs : Forest) (n : Name) (v : Val) : Node :=
  { next := next, prev := prev, parent := par, children := headId cs, name := n, value := v, alive := true }

/-- the store lays out the sibling list `l` under parent `par`; `prev` is the first element's predecessor -/
def Real (s : Store) : Option Nat → Option Nat → Forest → Prop
  | _, _, [] => True
  | par, prev, (.node i n v cs) :: ts =>
      s.nodes[i]? = some (recOf (headId ts) prev par cs n v) ∧ Real s (some i) none cs ∧ Real s par (some i) ts

@[simp] theorem Real_nil (s : Store) (par prev : Option Nat) : Real s par prev [] = True := by simp [Real]

theorem Real_cons (s : Store) (par prev : Option Nat) (i : Nat) (n : Name) (v : Val) (cs ts : Forest) :
    Real s par prev ((.node i n v cs) :: ts) =
      (s.nodes[i]? = some (recOf (headId ts) prev par cs n v) ∧ Real s (some i) none cs ∧ Real s par (some i) ts) := by
  simp [Real]

@[simp] theorem ids_nil : ids [] = [] := by simp [ids]
@[simp] theorem ids_cons (i : Nat) (n : Name) (v : Val) (cs ts : Forest) :
    ids ((.node i n v cs) :: ts) = i :: (ids cs ++ ids ts) := by simp [ids]

theorem ids_append (a b : Forest) : ids (a ++ b) = ids a ++ ids b := by
  fun_induction ids a <;> simp_all

@[simp] theorem headId_nil : headId [] = none := rfl
@[simp] theorem headId_cons (i : Nat) (n : Name) (v : Val) (cs ts : Forest) : headId ((.node i n v cs) :: ts) = some i := rfl

theorem headId_mem {l : Forest} {k : Nat} (h : headId l = some k) : k ∈ ids l := by
  cases l with
  | nil => simp at h
  | cons t ts =>
    cases t with
    | node i n v cs => simp at h; simp [h]

/-- only the records of the forest's own nodes matter -/
theorem Real.frame {s s' : Store} : ∀ {l : Forest} {par prev : Option Nat},
    Real s par prev l → (∀ i ∈ ids l, s'.nodes[i]? = s.nodes[i]?) → Real s' par prev l
  | [], _, _, _, _ => by simp
  | (.node i n v cs) :: ts, par, prev, h, hf => by
    rw [Real_cons] at h ⊢
    refine ⟨?_, ?_, ?_⟩
    · rw [hf i (by simp)]; exact h.1
    · exact Real.frame h.2.1 (fun k hk => hf k (by simp [hk]))
    · exact Real.frame h.2.2 (fun k hk => hf k (by simp [hk]))

/-- every node of a realised forest is a live record -/
theorem Real.live {s : Store} : ∀ {l : Forest} {par prev : Option Nat},
    Real s par prev l → ∀ i ∈ ids l, ∃ n, s.Live i n
  | [], _, _, _, i, hi => by simp at hi
  | (.node j n v cs) :: ts, par, prev, h, i, hi => by
    rw [Real_cons] at h
    simp at hi
    rcases hi with rfl | hi | hi
    · exact ⟨_, h.1, rfl⟩
    · exact Real.live h.2.1 i hi
    · exact Real.live h.2.2 i hi

/-- changing the predecessor of the first element -/
theorem Real.set_prev {s s' : Store} {par prev prev' : Option Nat} : ∀ {l : Forest},
    Real s par prev l → (ids l).Nodup →
    (∀ i ∈ ids l, s'.nodes[i]? = if some i = headId l then (s.nodes[i]?).map (fun qn => { qn with prev := prev' }) else s.nodes[i]?) →
    Real s' par prev' l
  | [], _, _, _ => by simp
  | (.node i n v cs) :: ts, h, hnd, hs => by
    rw [Real_cons] at h ⊢
    simp at hnd
    refine ⟨?_, ?_, ?_⟩
    · rw [hs i (by simp)]; simp [h.1]
    · refine Real.frame h.2.1 (fun k hk => ?_)
      rw [hs k (by simp [hk])]
      have : k ≠ i := by rintro rfl; exact hnd.1.1 hk
      simp [this]
    · refine Real.frame h.2.2 (fun k hk => ?_)
      rw [hs k (by simp [hk])]
      have : k ≠ i := by rintro rfl; exact hnd.1.2 hk
      simp [this]

theorem idx?_cons (p i : Nat) (n : Name) (v : Val) (cs ts : Forest) :
    idx? p ((.node i n v cs) :: ts) = if i = p then some 0 else (idx? p ts).map (· + 1) := by
  simp [idx?, List.findIdx?_cons, Tree.id]

@[simp] theorem idx?_nil (p : Nat) : idx? p [] = none := by simp [idx?]

theorem idx?_lt {p : Nat} : ∀ {l : Forest} {j : Nat}, idx? p l = some j → j < l.length
  | [], _, h => by simp at h
  | (.node i n v cs) :: ts, j, h => by
    rw [idx?_cons] at h
    by_cases hip : i = p
    · simp [hip] at h; subst h; simp
    · simp [hip] at h
      obtain ⟨j', hj', rfl⟩ := h
      have := idx?_lt hj'
      simp; omega

theorem idx?_mem {p : Nat} : ∀ {l : Forest} {j : Nat}, idx? p l = some j → p ∈ ids l
  | [], _, h => by simp at h
  | (.node i n v cs) :: ts, j, h => by
    rw [idx?_cons] at h
    by_cases hip : i = p
    · simp [hip]
    · simp [hip] at h
      obtain ⟨j', hj', rfl⟩ := h
      have := idx?_mem hj'
      simp [this]

theorem ids_drop_subset (l : Forest) (n : Nat) : ∀ k ∈ ids (l.drop n), k ∈ ids l := by
  intro k hk
  have : l = l.take n ++ l.drop n := (List.take_append_drop n l).symm
  rw [this, ids_append]
  simp [hk]

theorem headId_insertIdx_succ (l : Forest) (j : Nat) (t : Tree) (h : l ≠ []) :
    headId (l.insertIdx (j + 1) t) = headId l := by
  cases l with
  | nil => simp at h
  | cons a as => simp [List.insertIdx_succ_cons, headId]

end Mpt.Nodes
