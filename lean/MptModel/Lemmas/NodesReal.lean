/-
  The abstraction relation between the pointer store and ordered forests:
  `Real s par prev l` = "the sibling list `l` (with everything below) is laid out in `s` with parent
  `par` and the first element's predecessor `prev`".  Core Lean only.
-/
import MptModel.Lemmas.NodesBasic
namespace Mpt.Nodes
open Mpt Mpt.Forest

/-- the record a node of the forest must have -/
@[reducible] def recOf (next prev par : Option Nat) (cs : Forest) (n : Name) (v : Val) : Node :=
  { next := next, prev := prev, parent := par, children := headId cs, name := n, value := v, alive := true }

/-- the store lays out the sibling list `l` under parent `par`; `prev` is the first element's predecessor -/
def Real (s : Store) : Option Nat → Option Nat → Forest → Prop
  | _, _, [] => True
  | par, prev, (.node i n v cs) :: ts =>
      s.nodes[i]? = some (recOf (headId ts) prev par cs n v) ∧ Real s (some i) none cs ∧ Real s par (some i) ts

@[simp] theorem Real_nil (s : Store) (par prev : Option Nat) : Real s par prev [] = True := by simp [Real]

theorem Real_cons (s : Store) (par prev : Option Nat) (i : Nat) (n : Name) (v : Val) (cs ts : Forest) :
    Real s par prev ((.node i n v cs) :: ts) =
      (s.nodes[i]? = some (recOf (headId ts) prev par cs n v) ∧ Real s (some i) none cs ∧ Real s par (some i) ts) := by
  simp [Real]

@[simp] theorem ids_nil : ids [] = [] := by simp [ids]
@[simp] theorem ids_cons (i : Nat) (n : Name) (v : Val) (cs ts : Forest) :
    ids ((.node i n v cs) :: ts) = i :: (ids cs ++ ids ts) := by simp [ids]

theorem ids_append (a b : Forest) : ids (a ++ b) = ids a ++ ids b := by
  fun_induction ids a <;> simp_all

@[simp] theorem headId_nil : headId [] = none := rfl
@[simp] theorem headId_cons (i : Nat) (n : Name) (v : Val) (cs ts : Forest) : headId ((.node i n v cs) :: ts) = some i := rfl

theorem headId_mem {l : Forest} {k : Nat} (h : headId l = some k) : k ∈ ids l := by
  cases l with
  | nil => simp at h
  | cons t ts =>
    cases t with
    | node i n v cs => simp at h; simp [h]

/-- only the records of the forest's own nodes matter -/
theorem Real.frame {s s' : Store} : ∀ {l : Forest} {par prev : Option Nat},
    Real s par prev l → (∀ i ∈ ids l, s'.nodes[i]? = s.nodes[i]?) → Real s' par prev l
  | [], _, _, _, _ => by simp
  | (.node i n v cs) :: ts, par, prev, h, hf => by
    rw [Real_cons] at h ⊢
    refine ⟨?_, ?_, ?_⟩
    · rw [hf i (by simp)]; exact h.1
    · exact Real.frame h.2.1 (fun k hk => hf k (by simp [hk]))
    · exact Real.frame h.2.2 (fun k hk => hf k (by simp [hk]))

/-- every node of a realised forest is a live record -/
theorem Real.live {s : Store} : ∀ {l : Forest} {par prev : Option Nat},
    Real s par prev l → ∀ i ∈ ids l, ∃ n, s.Live i n
  | [], _, _, _, i, hi => by simp at hi
  | (.node j n v cs) :: ts, par, prev, h, i, hi => by
    rw [Real_cons] at h
    simp at hi
    rcases hi with rfl | hi | hi
    · exact ⟨_, h.1, rfl⟩
    · exact Real.live h.2.1 i hi
    · exact Real.live h.2.2 i hi

/-- changing the predecessor of the first element -/
theorem Real.set_prev {s s' : Store} {par prev prev' : Option Nat} : ∀ {l : Forest},
    Real s par prev l → (ids l).Nodup →
    (∀ i ∈ ids l, s'.nodes[i]? = if some i = headId l then (s.nodes[i]?).map (fun qn => { qn with prev := prev' }) else s.nodes[i]?) →
    Real s' par prev' l
  | [], _, _, _ => by simp
  | (.node i n v cs) :: ts, h, hnd, hs => by
    rw [Real_cons] at h ⊢
    simp at hnd
    refine ⟨?_, ?_, ?_⟩
    · rw [hs i (by simp)]; simp [h.1]
    · refine Real.frame h.2.1 (fun k hk => ?_)
      rw [hs k (by simp [hk])]
      have : k ≠ i := by rintro rfl; exact hnd.1.1 hk
      simp [this]
    · refine Real.frame h.2.2 (fun k hk => ?_)
      rw [hs k (by simp [hk])]
      have : k ≠ i := by rintro rfl; exact hnd.1.2 hk
      simp [this]

theorem idx?_cons (p i : Nat) (n : Name) (v : Val) (cs ts : Forest) :
    idx? p ((.node i n v cs) :: ts) = if i = p then some 0 else (idx? p ts).map (· + 1) := by
  simp [idx?, List.findIdx?_cons, Tree.id]

@[simp] theorem idx?_nil (p : Nat) : idx? p [] = none := by simp [idx?]

theorem idx?_lt {p : Nat} : ∀ {l : Forest} {j : Nat}, idx? p l = some j → j < l.length
  | [], _, h => by simp at h
  | (.node i n v cs) :: ts, j, h => by
    rw [idx?_cons] at h
    by_cases hip : i = p
    · simp [hip] at h; subst h; simp
    · simp [hip] at h
      obtain ⟨j', hj', rfl⟩ := h
      have := idx?_lt hj'
      simp; omega

theorem idx?_mem {p : Nat} : ∀ {l : Forest} {j : Nat}, idx? p l = some j → p ∈ ids l
  | [], _, h => by simp at h
  | (.node i n v cs) :: ts, j, h => by
    rw [idx?_cons] at h
    by_cases hip : i = p
    · simp [hip]
    · simp [hip] at h
      obtain ⟨j', hj', rfl⟩ := h
      have := idx?_mem hj'
      simp [this]

theorem ids_drop_subset (l : Forest) (n : Nat) : ∀ k ∈ ids (l.drop n), k ∈ ids l := by
  intro k hk
  have : l = l.take n ++ l.drop n := (List.take_append_drop n l).symm
  rw [this, ids_append]
  simp [hk]

theorem headId_insertIdx_succ (l : Forest) (j : Nat) (t : Tree) (h : l ≠ []) :
    headId (l.insertIdx (j + 1) t) = headId l := by
  cases l with
  | nil => simp at h
  | cons a as => simp [List.insertIdx_succ_cons, headId]

/-! ### searching in forests -/

theorem find?_mem {q : Nat} : ∀ {l : Forest} {tq : Tree}, find? q l = some tq → q ∈ ids l ∧ tq.id = q
  | [], _, h => by simp [find?] at h
  | (.node i n v cs) :: ts, tq, h => by
    simp only [find?] at h
    by_cases hiq : i = q
    · simp [hiq] at h; subst h; simp [hiq, Tree.id]
    · simp only [hiq, ↓reduceIte] at h
      cases hc : find? q cs with
      | some t =>
        simp [hc] at h; subst h
        have := find?_mem hc
        simp [this]
      | none =>
        simp [hc] at h
        have := find?_mem h
        simp [this]

theorem find?_none {q : Nat} : ∀ {l : Forest}, q ∉ ids l → find? q l = none
  | [], _ => by simp [find?]
  | (.node i n v cs) :: ts, h => by
    simp at h
    simp only [find?]
    have h1 : ¬ i = q := fun e => h.1 e.symm
    simp [h1, find?_none h.2.1, find?_none h.2.2]

theorem find?_children_subset {q : Nat} : ∀ {l : Forest} {tq : Tree}, find? q l = some tq →
    ∀ k ∈ ids tq.children, k ∈ ids l
  | [], _, h => by simp [find?] at h
  | (.node i n v cs) :: ts, tq, h => by
    simp only [find?] at h
    by_cases hiq : i = q
    · simp [hiq] at h; subst h; intro k hk; simp [Tree.children] at hk; simp [hk]
    · simp only [hiq, ↓reduceIte] at h
      cases hc : find? q cs with
      | some t =>
        simp [hc] at h; subst h
        intro k hk
        have := find?_children_subset hc k hk
        simp [this]
      | none =>
        simp [hc] at h
        intro k hk
        have := find?_children_subset h k hk
        simp [this]

theorem modKids_of_not_mem {q : Nat} {g : Forest → Forest} : ∀ {l : Forest}, q ∉ ids l → modKids q g l = l
  | [], _ => by simp [modKids]
  | (.node i n v cs) :: ts, h => by
    simp at h
    have h1 : ¬ i = q := fun e => h.1 e.symm
    simp [modKids, h1, modKids_of_not_mem h.2.1, modKids_of_not_mem h.2.2]

theorem headId_modKids {q : Nat} {g : Forest → Forest} : ∀ (l : Forest), headId (modKids q g l) = headId l
  | [] => by simp [modKids]
  | (.node i n v cs) :: ts => by
    simp only [modKids]
    split <;> simp

/-- context lemma: replacing the children of node `q` -/
theorem real_modKids {s s' : Store} {q : Nat} {g : Forest → Forest} {tq : Tree} :
    ∀ {l : Forest} {par prev : Option Nat},
    Real s par prev l → (ids l).Nodup → find? q l = some tq →
    Real s' (some q) none (g tq.children) →
    s'.nodes[q]? = (s.nodes[q]?).map (fun n => { n with children := headId (g tq.children) }) →
    (∀ i ∈ ids l, i ≠ q → i ∉ ids tq.children → s'.nodes[i]? = s.nodes[i]?) →
    Real s' par prev (modKids q g l)
  | [], _, _, _, _, hf, _, _, _ => by simp [find?] at hf
  | (.node i n v cs) :: ts, par, prev, hL, hnd, hf, hloc, hq, hfr => by
    rw [Real_cons] at hL
    rw [ids_cons, List.nodup_cons, List.mem_append, List.nodup_append] at hnd
    obtain ⟨hni, ndcs, ndts, disj⟩ := hnd
    simp only [find?] at hf
    simp only [modKids]
    by_cases hiq : i = q
    · subst hiq
      simp at hf; subst hf
      simp only [↓reduceIte, Tree.children] at hloc hq hfr ⊢
      rw [Real_cons]
      refine ⟨?_, hloc, ?_⟩
      · rw [hq, hL.1]; rfl
      · refine Real.frame hL.2.2 (fun k hk => hfr k (by simp [hk]) ?_ ?_)
        · rintro rfl; exact hni (Or.inr hk)
        · intro h; exact disj k h k hk rfl
    · simp only [hiq, ↓reduceIte] at hf ⊢
      rw [Real_cons, headId_modKids]
      cases hc : find? q cs with
      | some t =>
        simp [hc] at hf; subst hf
        have hqcs := (find?_mem hc).1
        have hsub := find?_children_subset hc
        have hqts : q ∉ ids ts := fun h => disj q hqcs q h rfl
        rw [modKids_of_not_mem hqts]
        refine ⟨?_, ?_, ?_⟩
        · rw [hfr i (by simp) hiq (fun h => hni (Or.inl (hsub i h))), hL.1]
          simp [recOf, headId_modKids]
        · exact real_modKids hL.2.1 ndcs hc hloc hq (fun k hk h1 h2 => hfr k (by simp [hk]) h1 h2)
        · refine Real.frame hL.2.2 (fun k hk => hfr k (by simp [hk]) ?_ ?_)
          · rintro rfl; exact hqts hk
          · intro h; exact disj k (hsub k h) k hk rfl
      | none =>
        simp [hc] at hf
        have hqts := (find?_mem hf).1
        have hsub := find?_children_subset hf
        have hqcs : q ∉ ids cs := fun h => disj q h q hqts rfl
        rw [modKids_of_not_mem hqcs]
        refine ⟨?_, ?_, ?_⟩
        · rw [hfr i (by simp) hiq (fun h => hni (Or.inr (hsub i h))), hL.1]
        · refine Real.frame hL.2.1 (fun k hk => hfr k (by simp [hk]) ?_ ?_)
          · rintro rfl; exact hqcs hk
          · intro h; exact disj k hk k (hsub k h) rfl
        · exact real_modKids hL.2.2 ndts hf hloc hq (fun k hk h1 h2 => hfr k (by simp [hk]) h1 h2)

end Mpt.Nodes
