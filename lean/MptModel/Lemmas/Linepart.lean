/-
  Helper lemmas for C18 (core Lean only).
-/
import MptModel.Impl.Linepart
namespace Mpt.Linepart
open Mpt.Visible

theorem has_eq_not_out (r : Range) (x : Rat) : r.has x = !out r x := by
  unfold Range.has out
  by_cases h1 : x < r.min <;> by_cases h2 : r.max < x <;> simp [h1, h2] <;> grind

theorem not_inside_of_out (r : Range) (ys : List Rat) (i : Nat) (x : Rat)
    (h : ys[i]? = some x) (ho : out r x = true) : ¬ insideAt r ys i := by
  intro ⟨y, hy, hh⟩
  rw [h] at hy; cases hy
  rw [has_eq_not_out, ho] at hh
  cases hh

theorem inside_of_not_out (r : Range) (ys : List Rat) (i : Nat) (x : Rat)
    (h : ys[i]? = some x) (ho : out r x = false) : insideAt r ys i :=
  ⟨x, h, by rw [has_eq_not_out, ho]; rfl⟩

theorem visLen_le (r : Range) (l : List Rat) : visLen r l ≤ l.length := by
  induction l with
  | nil => simp [visLen]
  | cons x xs ih => unfold visLen; split <;> simp <;> omega

theorem visLen_in (r : Range) (l : List Rat) (i : Nat) (h : i < visLen r l) :
    ∃ x, l[i]? = some x ∧ out r x = false := by
  induction l generalizing i with
  | nil => simp [visLen] at h
  | cons x xs ih =>
    unfold visLen at h
    split at h
    · omega
    · cases i with
      | zero => exact ⟨x, rfl, by simp_all⟩
      | succ j => simpa using ih j (by omega)

theorem visLen_stop (r : Range) (l : List Rat) (h : visLen r l < l.length) :
    ∃ x, l[visLen r l]? = some x ∧ out r x = true := by
  induction l with
  | nil => simp at h
  | cons x xs ih =>
    unfold visLen at h ⊢
    split
    · exact ⟨x, rfl, by assumption⟩
    · rename_i hx
      rw [if_neg hx] at h
      simpa using ih (by simpa using h)

theorem outLen_le (r : Range) (l : List Rat) : outLen r l ≤ l.length := by
  induction l with
  | nil => simp [outLen]
  | cons x xs ih => unfold outLen; split <;> simp <;> omega

theorem outLen_in (r : Range) (l : List Rat) (i : Nat) (h : i < outLen r l) :
    ∃ x, l[i]? = some x ∧ out r x = true := by
  induction l generalizing i with
  | nil => simp [outLen] at h
  | cons x xs ih =>
    unfold outLen at h
    split at h
    · cases i with
      | zero => exact ⟨x, rfl, by assumption⟩
      | succ j => simpa using ih j (by omega)
    · omega

theorem outLen_pos (r : Range) (l : List Rat) (x : Rat) (h : l[0]? = some x) (ho : out r x = true) :
    0 < outLen r l := by
  cases l with
  | nil => simp at h
  | cons y ys =>
    simp at h; subst h
    unfold outLen; rw [if_pos ho]; omega


theorem outLen_stop (r : Range) (l : List Rat) (h : outLen r l < l.length) :
    ∃ x, l[outLen r l]? = some x ∧ out r x = false := by
  induction l with
  | nil => simp at h
  | cons x xs ih =>
    unfold outLen at h ⊢
    split
    · rename_i hx
      rw [if_pos hx] at h
      simpa using ih (by simpa using h)
    · exact ⟨x, rfl, by simp_all⟩

/-- number of points taken by the "partial first" block -/
def kIdx (r : Range) (ys : List Rat) : Nat := if headCut r ys then 2 else 0
/-- index at which the counting loop stops (`raw = usr = bIdx` at that moment) -/
def bIdx (r : Range) (ys : List Rat) : Nat := kIdx r ys + visLen r (ys.drop (kIdx r ys))
/-- number of values skipped by the "trailing invisible" loop -/
def tLen (r : Range) (ys : List Rat) : Nat := outLen r (ys.drop (bIdx r ys + 1))

theorem headCut_spec (r : Range) (ys : List Rat) (h : headCut r ys = true) :
    2 ≤ ys.length ∧ ∃ x0 x1, ys[0]? = some x0 ∧ ys[1]? = some x1 ∧ out r x0 = true ∧ r.has x1 = true := by
  match ys, h with
  | x0 :: x1 :: rest, h =>
    simp only [headCut, Bool.and_eq_true] at h
    exact ⟨by simp, x0, x1, rfl, rfl, h.1, h.2⟩

theorem headCut_false (r : Range) (ys : List Rat) (h : headCut r ys = false) (x0 x1 : Rat)
    (h0 : ys[0]? = some x0) (h1 : ys[1]? = some x1) (ho : out r x0 = true) : out r x1 = true := by
  match ys, h, h0, h1 with
  | y0 :: y1 :: rest, h, h0, h1 =>
    simp at h0 h1; subst h0; subst h1
    simp only [headCut, ho, Bool.true_and] at h
    rw [has_eq_not_out] at h
    simpa using h

theorem bIdx_le (r : Range) (ys : List Rat) : bIdx r ys ≤ ys.length := by
  unfold bIdx kIdx
  have := visLen_le r (ys.drop (if headCut r ys then 2 else 0))
  simp only [List.length_drop] at this
  split
  · rename_i h
    have := (headCut_spec r ys h).1
    simp only [h, ↓reduceIte] at *
    omega
  · rename_i h
    simp only [h] at *
    simp only [Bool.false_eq_true, ↓reduceIte, List.drop_zero, Nat.sub_zero, Nat.zero_add] at *
    omega

/-- all points strictly between the first and the stop index are visible -/
theorem bIdx_inside (r : Range) (ys : List Rat) (i : Nat) (h0 : 0 < i) (h : i < bIdx r ys) :
    insideAt r ys i := by
  unfold bIdx kIdx at h
  by_cases hc : headCut r ys = true
  · simp only [hc, ↓reduceIte] at h
    obtain ⟨hl, x0, x1, e0, e1, ho, hh⟩ := headCut_spec r ys hc
    by_cases hi : i = 1
    · subst hi; exact ⟨x1, e1, hh⟩
    · obtain ⟨x, hx, hxo⟩ := visLen_in r (ys.drop 2) (i - 2) (by omega)
      rw [List.getElem?_drop, show 2 + (i - 2) = i by omega] at hx
      exact inside_of_not_out r ys i x hx hxo
  · simp only [hc] at h
    simp at h
    obtain ⟨x, hx, hxo⟩ := visLen_in r ys i h
    exact inside_of_not_out r ys i x hx hxo

/-- without the "partial first" block the first point is visible as well -/
theorem bIdx_inside0 (r : Range) (ys : List Rat) (hc : headCut r ys = false) (h : 0 < bIdx r ys) :
    insideAt r ys 0 := by
  unfold bIdx kIdx at h
  simp only [hc] at h
  simp at h
  obtain ⟨x, hx, hxo⟩ := visLen_in r ys 0 h
  exact inside_of_not_out r ys 0 x hx hxo

/-- the counting loop stops at an invisible value -/
theorem bIdx_stop (r : Range) (ys : List Rat) (h : bIdx r ys < ys.length) :
    ∃ x, ys[bIdx r ys]? = some x ∧ out r x = true := by
  have hk : kIdx r ys ≤ ys.length := by
    have := bIdx_le r ys
    unfold bIdx at this; omega
  obtain ⟨x, hx, hxo⟩ := visLen_stop r (ys.drop (kIdx r ys)) (by
    simp only [List.length_drop]; unfold bIdx at h; omega)
  rw [List.getElem?_drop] at hx
  exact ⟨x, hx, hxo⟩

/-- nothing visible at the start and no "partial first": the second value is invisible too -/
theorem bIdx_zero_next (r : Range) (ys : List Rat) (h : bIdx r ys = 0) (x1 : Rat) (h1 : ys[1]? = some x1) :
    out r x1 = true := by
  have hk : kIdx r ys = 0 := by unfold bIdx at h; omega
  have hc : headCut r ys = false := by
    unfold kIdx at hk
    by_cases hc : headCut r ys = true
    · simp [hc] at hk
    · simpa using hc
  have hl : bIdx r ys < ys.length := by
    rw [h]
    cases ys with
    | nil => simp at h1
    | cons a as => simp
  obtain ⟨x0, e0, ho⟩ := bIdx_stop r ys hl
  rw [h] at e0
  exact headCut_false r ys hc x0 x1 e0 h1 ho

theorem tLen_le (r : Range) (ys : List Rat) (h : bIdx r ys < ys.length) :
    bIdx r ys + 1 + tLen r ys ≤ ys.length := by
  unfold tLen
  have := outLen_le r (ys.drop (bIdx r ys + 1))
  simp only [List.length_drop] at this
  omega

theorem tLen_out (r : Range) (ys : List Rat) (i : Nat) (h1 : bIdx r ys < i) (h2 : i ≤ bIdx r ys + tLen r ys) :
    ¬ insideAt r ys i := by
  unfold tLen at h2
  obtain ⟨x, hx, hxo⟩ := outLen_in r (ys.drop (bIdx r ys + 1)) (i - (bIdx r ys + 1)) (by omega)
  rw [List.getElem?_drop, show bIdx r ys + 1 + (i - (bIdx r ys + 1)) = i by omega] at hx
  exact not_inside_of_out r ys i x hx hxo

theorem tLen_pos (r : Range) (ys : List Rat) (h : bIdx r ys = 0) (hl : 1 < ys.length) : 0 < tLen r ys := by
  unfold tLen
  rw [h]
  have : ∃ x1, ys[1]? = some x1 := ⟨ys[1], by simp [hl]⟩
  obtain ⟨x1, h1⟩ := this
  apply outLen_pos r _ x1
  · rw [List.getElem?_drop]; exact h1
  · exact bIdx_zero_next r ys h x1 h1

/-- after the trailing invisible values a visible one follows (if any value follows) -/
theorem tLen_stop (r : Range) (ys : List Rat) (h : bIdx r ys + 1 + tLen r ys < ys.length) :
    insideAt r ys (bIdx r ys + 1 + tLen r ys) := by
  obtain ⟨x, hx, hxo⟩ := outLen_stop r (ys.drop (bIdx r ys + 1)) (by
    simp only [List.length_drop]; unfold tLen at h; omega)
  rw [List.getElem?_drop] at hx
  exact inside_of_not_out r ys _ x hx hxo

/-- `linearCore` in terms of the three indices -/
theorem linearCore_eq (r : Range) (ys : List Rat) :
    linearCore r ys =
      if bIdx r ys = ys.length then
        { raw := bIdx r ys, usr := bIdx r ys, cut := if headCut r ys then cutCode r ys else 0, trim := 0 }
      else
        { raw := bIdx r ys + tLen r ys + (if bIdx r ys + 1 + tLen r ys = ys.length then 1 else 0),
          usr := if bIdx r ys ≠ 0 then bIdx r ys + 1 else 0,
          cut := if headCut r ys then cutCode r ys else 0,
          trim := if bIdx r ys ≠ 0 then
            u16 (code (trimFrac r (ys.getD (bIdx r ys - 1) 0) (ys.getD (bIdx r ys) 0))) else 0 } := by
  rfl


/-- what one call on a non-empty window guarantees -/
structure PartOK (r : Range) (ys : List Rat) (p : Part) : Prop where
  pos : 0 < p.raw
  raw_le : p.raw ≤ ys.length
  usr_le : p.usr ≤ ys.length
  usr_raw : p.usr ≤ p.raw + 1
  interior : ∀ i, 0 < i → i + 1 < p.usr → insideAt r ys i
  hidden : ∀ i, p.usr ≤ i → i < p.raw → ¬ insideAt r ys i
  last : p.raw < p.usr → ¬ insideAt r ys p.raw
  first : 0 < p.usr → ¬ insideAt r ys 0 → headCut r ys = true

theorem linearCore_ok (r : Range) (ys : List Rat) (hne : 0 < ys.length) : PartOK r ys (linearCore r ys) := by
  rw [linearCore_eq]
  have hb := bIdx_le r ys
  by_cases hd : bIdx r ys = ys.length
  · rw [if_pos hd]
    refine ⟨by simp only []; omega, by simp only []; omega, by simp only []; omega, by simp only []; omega,
      ?_, ?_, ?_, ?_⟩
    · intro i h0 h1; exact bIdx_inside r ys i h0 (by simp only [] at h1; omega)
    · intro i h1 h2; simp only [] at h1 h2; omega
    · intro h; simp only [] at h; omega
    · intro h hn
      by_cases hc : headCut r ys = true
      · exact hc
      · exact absurd (bIdx_inside0 r ys (by simpa using hc) (by omega)) hn
  · rw [if_neg hd]
    have hlt : bIdx r ys < ys.length := by omega
    have ht := tLen_le r ys hlt
    obtain ⟨xb, hxb, hxbo⟩ := bIdx_stop r ys hlt
    by_cases hz : bIdx r ys = 0
    · -- nothing drawn
      have hpos : 0 < tLen r ys + (if bIdx r ys + 1 + tLen r ys = ys.length then 1 else 0) := by
        by_cases hl : 1 < ys.length
        · have := tLen_pos r ys hz hl; omega
        · have : tLen r ys = 0 := by omega
          rw [if_pos (by omega)]; omega
      refine ⟨by simp only []; omega, by simp only []; split <;> omega, by simp only [hz]; simp,
        by simp only [hz]; simp, ?_, ?_, ?_, ?_⟩
      · intro i _ h1; simp only [hz] at h1; simp at h1
      · intro i _ h2
        simp only [] at h2
        by_cases hi : i = 0
        · subst hi; rw [hz] at hxb; exact not_inside_of_out r ys 0 xb hxb hxbo
        · exact tLen_out r ys i (by omega) (by split at h2 <;> omega)
      · intro h; simp only [hz] at h; simp at h
      · intro h; simp only [hz] at h; simp at h
    · refine ⟨by simp only []; omega, by simp only []; split <;> omega, by simp only []; rw [if_pos hz]; omega,
        by simp only []; rw [if_pos hz]; omega, ?_, ?_, ?_, ?_⟩
      · intro i h0 h1
        simp only [hz, ne_eq, not_false_eq_true, ↓reduceIte] at h1
        exact bIdx_inside r ys i h0 (by omega)
      · intro i h1 h2
        simp only [hz, ne_eq, not_false_eq_true, ↓reduceIte] at h1 h2
        exact tLen_out r ys i (by omega) (by split at h2 <;> omega)
      · intro h
        simp only [hz, ne_eq, not_false_eq_true, ↓reduceIte] at h ⊢
        have h0 : tLen r ys = 0 := by split at h <;> omega
        have h1 : ¬ (bIdx r ys + 1 + tLen r ys = ys.length) := by
          intro hc; rw [if_pos hc] at h; omega
        rw [if_neg h1, h0]
        exact not_inside_of_out r ys _ xb (by simpa using hxb) hxbo
      · intro _ hn
        by_cases hc : headCut r ys = true
        · exact hc
        · exact absurd (bIdx_inside0 r ys (by simpa using hc) (by omega)) hn


theorem insideAt_take (r : Range) (xs : List Rat) (n i : Nat) (h : i < n) :
    insideAt r (xs.take n) i ↔ insideAt r xs i := by
  unfold insideAt
  rw [List.getElem?_take, if_pos h]

/-- what one call of `mpt_linepart_linear` with a range guarantees about the caller's data -/
structure CallOK (r : Range) (xs : List Rat) (p : Part) : Prop where
  pos : 0 < p.raw
  raw_le : p.raw ≤ min xs.length u16max
  usr_le : p.usr ≤ min xs.length u16max
  usr_raw : p.usr ≤ p.raw + 1
  interior : ∀ i, 0 < i → i + 1 < p.usr → insideAt r xs i
  hidden : ∀ i, p.usr ≤ i → i < p.raw → ¬ insideAt r xs i
  last : p.raw < p.usr → ¬ insideAt r xs p.raw

theorem linear_ok (r : Range) (xs : List Rat) (hne : 0 < xs.length) :
    CallOK r xs (linepartLinear xs (some r)) := by
  have hl : (xs.take u16max).length = min u16max xs.length := List.length_take
  have hu : u16max = 65535 := rfl
  have h := linearCore_ok r (xs.take u16max) (by rw [hl, hu]; omega)
  show CallOK r xs (linearCore r (xs.take u16max))
  generalize linearCore r (xs.take u16max) = p at h
  obtain ⟨h1, h2, h3, h4, h5, h6, h7, _⟩ := h
  rw [hl] at h2 h3
  refine ⟨h1, by omega, by omega, h4, ?_, ?_, ?_⟩
  · intro i a b; exact (insideAt_take r xs u16max i (by omega)).1 (h5 i a b)
  · intro i a b c; exact h6 i a b ((insideAt_take r xs u16max i (by omega)).2 c)
  · intro a c; exact h7 a ((insideAt_take r xs u16max _ (by omega)).2 c)

theorem linear_none (xs : List Rat) :
    linepartLinear xs none = { raw := min u16max xs.length, usr := min u16max xs.length, cut := 0, trim := 0 } := by
  show ({ raw := (xs.take u16max).length, usr := (xs.take u16max).length, cut := 0, trim := 0 } : Part) = _
  rw [List.length_take]

theorem linear_progress (xs : List Rat) (range : Option Range) (hne : 0 < xs.length) :
    0 < (linepartLinear xs range).raw ∧ (linepartLinear xs range).raw ≤ min xs.length u16max := by
  cases range with
  | none =>
    rw [linear_none]
    have hu : u16max = 65535 := rfl
    simp only []; omega
  | some r => exact ⟨(linear_ok r xs hne).pos, (linear_ok r xs hne).raw_le⟩

theorem partsAux_cons (range : Option Range) (fuel : Nat) (xs : List Rat) (hne : 0 < xs.length) :
    partsAux range (fuel + 1) xs =
      linepartLinear xs range :: partsAux range fuel (xs.drop (linepartLinear xs range).raw) := by
  have := (linear_progress xs range hne).1
  simp only [partsAux]
  rw [if_neg (by omega), if_neg (by omega)]

theorem partsAux_nil (range : Option Range) (fuel : Nat) (xs : List Rat) (h : xs.length = 0) :
    partsAux range fuel xs = [] := by
  cases fuel with
  | zero => rfl
  | succ n => simp only [partsAux]; rw [if_pos h]

theorem partsAux_sum (range : Option Range) (fuel : Nat) (xs : List Rat) (h : xs.length ≤ fuel) :
    ((partsAux range fuel xs).map (·.raw)).sum = xs.length := by
  induction fuel generalizing xs with
  | zero => rw [partsAux_nil range 0 xs (by omega)]; simp; omega
  | succ n ih =>
    by_cases hne : 0 < xs.length
    · rw [partsAux_cons range n xs hne]
      obtain ⟨h1, h2⟩ := linear_progress xs range hne
      simp only [List.map_cons, List.sum_cons]
      rw [ih _ (by simp only [List.length_drop]; omega)]
      simp only [List.length_drop]; omega
    · rw [partsAux_nil range _ xs (by omega)]; simp; omega

theorem partsAux_pos (range : Option Range) (fuel : Nat) (xs : List Rat) :
    ∀ p ∈ partsAux range fuel xs, 0 < p.raw := by
  induction fuel generalizing xs with
  | zero => intro p hp; simp [partsAux] at hp
  | succ n ih =>
    by_cases hne : 0 < xs.length
    · rw [partsAux_cons range n xs hne]
      intro p hp
      rcases List.mem_cons.1 hp with h | h
      · rw [h]; exact (linear_progress xs range hne).1
      · exact ih _ p h
    · rw [partsAux_nil range _ xs (by omega)]; intro p hp; cases hp

/-- the drawn portions of the parts of the window `zs = xs[s..]`: nothing before the window is drawn,
    every visible point of the window is drawn exactly once -/
theorem partsAux_drawn (r : Range) (fuel : Nat) (zs : List Rat) (s : Nat) (h : zs.length ≤ fuel) (i : Nat) :
    (i < s → drawnCount (partsAux (some r) fuel zs) s i = 0) ∧
    (s ≤ i → insideAt r zs (i - s) → drawnCount (partsAux (some r) fuel zs) s i = 1) := by
  induction fuel generalizing zs s with
  | zero =>
    rw [partsAux_nil _ 0 zs (by omega)]
    refine ⟨fun _ => rfl, fun _ hin => ?_⟩
    obtain ⟨x, hx, _⟩ := hin
    have : zs = [] := List.eq_nil_of_length_eq_zero (by omega)
    subst this; simp at hx
  | succ n ih =>
    by_cases hne : 0 < zs.length
    · rw [partsAux_cons _ n zs hne]
      have ok := linear_ok r zs hne
      generalize linepartLinear zs (some r) = p at ok
      have ihr := ih (zs.drop p.raw) (s + p.raw) (by
        have := ok.pos; have := ok.raw_le; simp only [List.length_drop]; omega)
      simp only [drawnCount]
      refine ⟨fun hi => ?_, fun hi hin => ?_⟩
      · rw [if_neg (by omega), ihr.1 (by omega)]
      · by_cases hc : i - s < p.raw
        · have hu : i - s < p.usr := by
            apply Decidable.byContradiction; intro hn
            exact ok.hidden (i - s) (by omega) hc hin
          rw [if_pos ⟨hi, by omega⟩, ihr.1 (by omega)]
        · have hn : ¬ (s ≤ i ∧ i < s + p.usr) := by
            intro ⟨_, h2⟩
            have hur := ok.usr_raw
            have he : i - s = p.raw := by omega
            exact ok.last (by omega) (he ▸ hin)
          have hin2 : insideAt r (zs.drop p.raw) (i - (s + p.raw)) := by
            obtain ⟨x, hx, hh⟩ := hin
            refine ⟨x, ?_, hh⟩
            rw [List.getElem?_drop, show p.raw + (i - (s + p.raw)) = i - s by omega]; exact hx
          rw [if_neg hn, ihr.2 (by omega) hin2]
    · rw [partsAux_nil _ _ zs (by omega)]
      refine ⟨fun _ => rfl, fun _ hin => ?_⟩
      obtain ⟨x, hx, _⟩ := hin
      have : zs = [] := List.eq_nil_of_length_eq_zero (by omega)
      subst this; simp at hx

theorem partsAux_interior (r : Range) (xs : List Rat) (fuel : Nat) (zs : List Rat) (s : Nat)
    (hz : ∀ j, zs[j]? = xs[s + j]?) (h : zs.length ≤ fuel) :
    InteriorVisible r xs (partsAux (some r) fuel zs) s := by
  induction fuel generalizing zs s with
  | zero => rw [partsAux_nil _ 0 zs (by omega)]; trivial
  | succ n ih =>
    by_cases hne : 0 < zs.length
    · rw [partsAux_cons _ n zs hne]
      have ok := linear_ok r zs hne
      generalize linepartLinear zs (some r) = p at ok
      refine ⟨?_, ih (zs.drop p.raw) (s + p.raw) ?_ ?_⟩
      · intro i h1 h2
        obtain ⟨x, hx, hh⟩ := ok.interior (i - s) (by omega) (by omega)
        refine ⟨x, ?_, hh⟩
        rw [← hx, hz, show s + (i - s) = i by omega]
      · intro j; rw [List.getElem?_drop, hz]; congr 1; omega
      · have := ok.pos; have := ok.raw_le; simp only [List.length_drop]; omega
    · rw [partsAux_nil _ _ zs (by omega)]; trivial

end Mpt.Linepart
