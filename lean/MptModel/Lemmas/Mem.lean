/-
  Element-wise characterisation of the raw memory primitives (core Lean only).
-/
import MptModel.Impl.Ring
namespace Mpt

/-- close a goal that is an equation between nested `if`s over `s[idx]?` terms: split every `if`,
    then decide each leaf by linear arithmetic on the conditions and the indices -/
macro "ite_idx" : tactic =>
  `(tactic| ((repeat' split) <;> first | rfl | omega | (congr 1; omega) | (exfalso; omega)))

theorem Mem.write_length (s : List Byte) (d : Nat) (b : List Byte) (h : d + b.length ≤ s.length) :
    (Mem.write s d b).length = s.length := by
  simp [Mem.write]; omega

theorem Mem.read_length (s : List Byte) (src n : Nat) (h : src + n ≤ s.length) :
    (Mem.read s src n).length = n := by
  simp [Mem.read]; omega

theorem Mem.getElem?_write (s : List Byte) (d : Nat) (b : List Byte) (i : Nat) (h : d + b.length ≤ s.length) :
    (Mem.write s d b)[i]? = if i < d then s[i]? else if i < d + b.length then b[i - d]? else s[i]? := by
  unfold Mem.write
  grind

theorem Mem.getElem?_read (s : List Byte) (src n i : Nat) :
    (Mem.read s src n)[i]? = if i < n then s[src + i]? else none := by
  unfold Mem.read
  grind

theorem Mem.move_length (s : List Byte) (d src n : Nat) (h1 : src + n ≤ s.length) (h2 : d + n ≤ s.length) :
    (Mem.move s d src n).length = s.length := by
  unfold Mem.move
  rw [Mem.write_length]
  rw [Mem.read_length _ _ _ h1]; exact h2

theorem Mem.getElem?_move (s : List Byte) (d src n i : Nat) (h1 : src + n ≤ s.length) (h2 : d + n ≤ s.length) :
    (Mem.move s d src n)[i]? = if i < d then s[i]? else if i < d + n then s[src + (i - d)]? else s[i]? := by
  unfold Mem.move Mem.write Mem.read
  grind

end Mpt
