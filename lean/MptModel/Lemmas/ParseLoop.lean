/-
  Facts about the element loop of `mpt_parse_config` (`Parse.loop`), by induction along its
  own recursion: input consumption, number of handler calls, nesting of the recorded events.
-/
import MptModel.Lemmas.ParseNest

namespace Mpt.Parse
open Mpt.Events

/-- unfolding of the loop: an element was returned -/
theorem loop_pos {α : Type} (k : Kind) (cfg : Cfg) (save : Handler α) (ctx : α) (prev : Nat) (s : St) (src : Src)
    (h : 0 < (next k cfg prev s src).1) :
    loop k cfg save ctx prev s src =
      match save ctx (next k cfg prev s src).2.1 prev (next k cfg prev s src).1 with
      | none => { code := -128, ctx := ctx, st := (next k cfg prev s src).2.1, prev := prev,
                  src := (next k cfg prev s src).2.2 }
      | some ctx1 =>
        match afterSave (next k cfg prev s src).1 (next k cfg prev s src).2.1.path with
        | .error _ => { code := Err.MissingData.code, ctx := ctx1, st := (next k cfg prev s src).2.1,
                        prev := prev, src := (next k cfg prev s src).2.2 }
        | .ok p => loop k cfg save ctx1 (next k cfg prev s src).2.1.curr
                    { (next k cfg prev s src).2.1 with path := p, curr := 0, valid := 0 }
                    (next k cfg prev s src).2.2 := by
  rw [loop]
  simp only [h, ↓reduceDIte]
  rfl

/-- unfolding of the loop: end of input or error -/
theorem loop_nonpos {α : Type} (k : Kind) (cfg : Cfg) (save : Handler α) (ctx : α) (prev : Nat) (s : St)
    (src : Src) (h : ¬ 0 < (next k cfg prev s src).1) :
    loop k cfg save ctx prev s src =
      { code := (next k cfg prev s src).1, ctx := ctx, st := (next k cfg prev s src).2.1, prev := prev,
        src := (next k cfg prev s src).2.2 } := by
  rw [loop]
  simp only [h, ↓reduceDIte]

/-- induction principle: a property of loop states that is preserved by one element holds at the end -/
theorem loop_induction {α : Type} (k : Kind) (cfg : Cfg) (save : Handler α)
    (P : α → Nat → St → Src → Prop) (Q : Result α → Prop)
    (hstop : ∀ ctx prev s src, P ctx prev s src → ¬ 0 < (next k cfg prev s src).1 →
      Q { code := (next k cfg prev s src).1, ctx := ctx, st := (next k cfg prev s src).2.1, prev := prev,
          src := (next k cfg prev s src).2.2 })
    (hrefuse : ∀ ctx prev s src, P ctx prev s src → 0 < (next k cfg prev s src).1 →
      save ctx (next k cfg prev s src).2.1 prev (next k cfg prev s src).1 = none →
      Q { code := -128, ctx := ctx, st := (next k cfg prev s src).2.1, prev := prev,
          src := (next k cfg prev s src).2.2 })
    (hdel : ∀ ctx prev s src ctx1 e, P ctx prev s src → 0 < (next k cfg prev s src).1 →
      save ctx (next k cfg prev s src).2.1 prev (next k cfg prev s src).1 = some ctx1 →
      afterSave (next k cfg prev s src).1 (next k cfg prev s src).2.1.path = .error e →
      Q { code := Err.MissingData.code, ctx := ctx1, st := (next k cfg prev s src).2.1, prev := prev,
          src := (next k cfg prev s src).2.2 })
    (hstep : ∀ ctx prev s src ctx1 p, P ctx prev s src → 0 < (next k cfg prev s src).1 →
      save ctx (next k cfg prev s src).2.1 prev (next k cfg prev s src).1 = some ctx1 →
      afterSave (next k cfg prev s src).1 (next k cfg prev s src).2.1.path = .ok p →
      P ctx1 (next k cfg prev s src).2.1.curr
        { (next k cfg prev s src).2.1 with path := p, curr := 0, valid := 0 } (next k cfg prev s src).2.2) :
    ∀ (n : Nat) ctx prev s src, measure prev src ≤ n → P ctx prev s src → Q (loop k cfg save ctx prev s src) := by
  intro n
  induction n with
  | zero =>
    intro ctx prev s src hm hp
    by_cases h : 0 < (next k cfg prev s src).1
    · have := next_measure k cfg prev s src h; omega
    · rw [loop_nonpos _ _ _ _ _ _ _ h]; exact hstop _ _ _ _ hp h
  | succ n ih =>
    intro ctx prev s src hm hp
    by_cases h : 0 < (next k cfg prev s src).1
    · rw [loop_pos _ _ _ _ _ _ _ h]
      split
      · rename_i hs; exact hrefuse _ _ _ _ hp h hs
      · rename_i ctx1 hs
        split
        · rename_i e he; exact hdel _ _ _ _ _ _ hp h hs he
        · rename_i p he
          have hlt := next_measure k cfg prev s src h
          exact ih _ _ _ _ (by omega) (hstep _ _ _ _ _ _ hp h hs he)
    · rw [loop_nonpos _ _ _ _ _ _ _ h]; exact hstop _ _ _ _ hp h

/-! ### consumption -/
theorem loop_reads {α : Type} (k : Kind) (cfg : Cfg) (save : Handler α) (ctx : α) (prev : Nat) (s : St)
    (src : Src) : Reads src (loop k cfg save ctx prev s src).src := by
  refine loop_induction k cfg save (fun _ _ _ src' => Reads src src') (fun r => Reads src r.src)
    ?_ ?_ ?_ ?_ (measure prev src) ctx prev s src (Nat.le_refl _) (Reads.refl _)
  · intro ctx prev s src' hp _; exact hp.trans (next_reads _ _ _ _ _)
  · intro ctx prev s src' hp _ _; exact hp.trans (next_reads _ _ _ _ _)
  · intro ctx prev s src' ctx1 e hp _ _ _; exact hp.trans (next_reads _ _ _ _ _)
  · intro ctx prev s src' ctx1 p hp _ _ _; exact hp.trans (next_reads _ _ _ _ _)

/-! ### the handler is called at most `measure` times -/
theorem loop_calls (k : Kind) (cfg : Cfg) (fa : Option Nat) (evs : List Event) (prev : Nat) (s : St) (src : Src) :
    (loop k cfg (record fa) evs prev s src).ctx.length ≤ evs.length + measure prev src := by
  refine loop_induction k cfg (record fa)
    (fun evs' prev' _ src' => evs'.length + measure prev' src' ≤ evs.length + measure prev src)
    (fun r => r.ctx.length ≤ evs.length + measure prev src)
    ?_ ?_ ?_ ?_ (measure prev src) evs prev s src (Nat.le_refl _) (Nat.le_refl _)
  · intro ctx prev' s' src' hp _; simp only []; omega
  · intro ctx prev' s' src' hp _ _; simp only []; omega
  · intro ctx prev' s' src' ctx1 e hp h hs _
    have hlt := next_measure k cfg prev' s' src' h
    simp only [record] at hs
    split at hs
    · cases hs
    · simp only [Option.some.injEq] at hs; rw [← hs]; simp only [List.length_cons]; omega
  · intro ctx prev' s' src' ctx1 p hp h hs _
    have hlt := next_measure k cfg prev' s' src' h
    simp only [record] at hs
    split at hs
    · cases hs
    · simp only [Option.some.injEq] at hs; rw [← hs]; simp only [List.length_cons]; omega

/-! ### nesting -/
theorem run_append (st : List Name) (es : List Event) (e : Event) :
    Events.run st (es ++ [e]) = (Events.run st es).bind (fun s => Events.step s e) := by
  induction es generalizing st with
  | nil => cases h : Events.step st e <;> simp [Events.run, h]
  | cons x xs ih =>
    simp only [List.cons_append, Events.run]
    cases Events.step st x with
    | none => rfl
    | some s' => exact ih s'

/-- the events recorded so far lead to the committed path elements as stack of open sections -/
def NestInv (evs : List Event) (s : St) : Prop := Events.run [] evs.reverse = some s.path.elems

theorem dropLast_append_singleton {α : Type} (l : List α) (a : α) : (l ++ [a]).dropLast = l := by
  simp

/-- one accepted element keeps the invariant, or the path element removal fails -/
theorem nest_step (o : Out) (s : St) (evs : List Event)
    (hg : Good s.path.elems o) (hpos : 0 < o.1) (hinv : NestInv evs s) :
    (∃ e, afterSave o.1 o.2.1.path = .error e) ∨
    (∃ p, afterSave o.1 o.2.1.path = .ok p ∧
      Events.run [] (mkEvent o.1 o.2.1 :: evs).reverse = some p.elems) := by
  obtain ⟨ret, s1, src1⟩ := o
  simp only [] at hpos ⊢
  unfold NestInv at hinv
  simp only [List.reverse_cons, run_append, hinv, Option.bind]
  rcases hg with h0 | ⟨hc, n, he⟩ | ⟨hc, he⟩
  · simp only [] at h0; omega
  · simp only [Out.elems] at he
    rcases hc with hc | hc | hc <;> simp only [] at hc <;> subst hc
    · -- section start
      right
      refine ⟨s1.path.invalidate, by simp [afterSave, Flag.sectEnd], ?_⟩
      simp [mkEvent, Events.step, he]
    · right
      have hne : s1.path.elems.isEmpty = false := by rw [he]; simp
      refine ⟨_, by simp [afterSave, Flag.sectEnd, Path.del, hne]; rfl, ?_⟩
      simp [mkEvent, Events.step, he]
    · right
      have hne : s1.path.elems.isEmpty = false := by rw [he]; simp
      refine ⟨_, by simp [afterSave, Flag.sectEnd, Path.del, hne]; rfl, ?_⟩
      simp [mkEvent, Events.step, he]
  · simp only [Out.elems] at he
    rcases hc with hc | hc <;> simp only [] at hc <;> subst hc
    · -- section end
      by_cases hemp : s1.path.elems.isEmpty = true
      · left; exact ⟨.MissingData, by simp [afterSave, Flag.sectEnd, Path.del, hemp]⟩
      · right
        refine ⟨_, by simp [afterSave, Flag.sectEnd, Path.del, hemp]; rfl, ?_⟩
        have : s.path.elems ≠ [] := by rw [← he]; simpa using hemp
        simp [mkEvent, Events.step, he, this]
    · right
      refine ⟨s1.path.invalidate, by simp [afterSave, Flag.sectEnd], ?_⟩
      simp [mkEvent, Events.step, he]

theorem loop_nested (k : Kind) (cfg : Cfg) (evs : List Event) (prev : Nat) (s : St) (src : Src)
    (hinv : NestInv evs s) (hok : 0 ≤ (loop k cfg (record none) evs prev s src).code) :
    (Events.run [] (loop k cfg (record none) evs prev s src).ctx.reverse).isSome = true := by
  revert hok
  refine loop_induction k cfg (record none) (fun evs' _ s' _ => NestInv evs' s')
    (fun r => 0 ≤ r.code → (Events.run [] r.ctx.reverse).isSome = true)
    ?_ ?_ ?_ ?_ (measure prev src) evs prev s src (Nat.le_refl _) hinv
  · intro ctx prev' s' src' hp _ _
    unfold NestInv at hp; simp only [hp]; rfl
  · intro ctx prev' s' src' _ _ _ hc
    have hc' : (0 : Int) ≤ -128 := hc
    exact absurd hc' (by decide)
  · intro ctx prev' s' src' ctx1 e _ _ _ _ hc
    have := Err.code_neg .MissingData; simp only [] at hc; omega
  · intro ctx prev' s' src' ctx1 p hp h hs ha
    simp only [record] at hs
    have hs : mkEvent (next k cfg prev' s' src').1 (next k cfg prev' s' src').2.1 :: ctx = ctx1 := by
      split at hs
      · cases hs
      · simpa using hs
    have hg := next_good k cfg prev' s' src'
    rcases nest_step (next k cfg prev' s' src') s' ctx hg h hp with ⟨e, he⟩ | ⟨p', hp', hr⟩
    · rw [he] at ha; cases ha
    · rw [hp'] at ha
      simp only [Except.ok.injEq] at ha
      unfold NestInv
      rw [← hs, ← ha]; exact hr

end Mpt.Parse
