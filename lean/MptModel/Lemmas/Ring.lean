/-
  Helper lemmas for C13 (core Lean only).
-/
import MptModel.Lemmas.Mem
namespace Mpt

theorem Mem.mv_ok (s : List Byte) (d src n : Nat) (h1 : src + n ≤ s.length) (h2 : d + n ≤ s.length) :
    Mem.mv s d src n = .ok (Mem.move s d src n) := by
  unfold Mem.mv; simp [h1, h2]

theorem Mem.rd_ok (s : List Byte) (src n : Nat) (h1 : src + n ≤ s.length) :
    Mem.rd s src n = .ok (Mem.read s src n) := by
  unfold Mem.rd; simp [h1]

theorem Mem.wr_ok (s : List Byte) (d : Nat) (b : List Byte) (h1 : d + b.length ≤ s.length) :
    Mem.wr s d b = .ok (Mem.write s d b) := by
  unfold Mem.wr; simp [h1]

namespace Ring

/-- well-formed ring: what every queue function maintains -/
def WF (r : Ring) : Prop := r.len ≤ r.store.length ∧ r.off ≤ r.store.length

theorem content_length (r : Ring) (h1 : r.len ≤ r.store.length) (h2 : r.off ≤ r.store.length) :
    r.content.length = r.len := by
  unfold content; simp; omega

theorem getElem?_content (r : Ring) (i : Nat) (h1 : r.len ≤ r.store.length) (h2 : r.off ≤ r.store.length) :
    r.content[i]? = if i < r.len then
        (if r.off + i < r.store.length then r.store[r.off + i]? else r.store[r.off + i - r.store.length]?)
      else none := by
  unfold content
  grind

theorem cropFill_spec (s : List Byte) (base src post low : Nat)
    (hb : base + low ≤ s.length) (hs : src + post ≤ base) :
    ∃ s' c, cropFill s base src post low = .ok (s', c) ∧ s'.length = s.length ∧
      ∀ i, s'[i]? =
        if base ≤ i ∧ i < base + min post low then s[src + (i - base)]?
        else if i < post - low then s[src + low + i]?
        else s[i]? := by
  unfold cropFill
  split
  · rw [Mem.mv_ok _ _ _ _ (by omega) (by omega)]
    refine ⟨_, _, rfl, Mem.move_length _ _ _ _ (by omega) (by omega), ?_⟩
    intro i
    rw [Mem.getElem?_move _ _ _ _ _ (by omega) (by omega)]
    grind
  · rw [Mem.mv_ok _ _ _ _ (by omega) (by omega)]
    simp only []
    have hl := Mem.move_length s base src low (by omega) (by omega)
    rw [Mem.mv_ok _ _ _ _ (by omega) (by omega)]
    refine ⟨_, _, rfl, ?_, ?_⟩
    · rw [Mem.move_length _ _ _ _ (by omega) (by omega), hl]
    · intro i
      rw [Mem.getElem?_move _ _ _ _ _ (by omega) (by omega)]
      rw [Mem.getElem?_move _ _ _ _ _ (by omega) (by omega)]
      rw [Mem.getElem?_move _ _ _ _ _ (by omega) (by omega)]
      grind

/-- the tail view: `low` bytes at `base` followed by the second part at the storage start -/
def tailAt (s : List Byte) (base low : Nat) (j : Nat) : Option Byte :=
  if j < low then s[base + j]? else s[j - low]?

theorem cropWrapped_spec (s : List Byte) (base low high n : Nat)
    (hb : base + low = s.length) (hh : high ≤ base) (hn : n ≤ low + high) :
    ∃ s' c, cropWrapped s base low high n = .ok (s', c) ∧ s'.length = s.length ∧
      (∀ j, j < low + high - n → tailAt s' base low j = tailAt s base low (j + n)) ∧
      (∀ i, high ≤ i → i < base → s'[i]? = s[i]?) := by
  unfold cropWrapped tailAt
  simp only []
  split
  · rw [Mem.mv_ok _ _ _ _ (by omega) (by omega)]
    simp only []
    have hl := Mem.move_length s base (base + n) (low - n) (by omega) (by omega)
    obtain ⟨s', c, he, hlen, hel⟩ := cropFill_spec (Mem.move s base (base + n) (low - n)) (base + (low - n)) 0
      (low + high - n - (low - n)) n (by omega) (by omega)
    have hm := fun i => Mem.getElem?_move s base (base + n) (low - n) i (by omega) (by omega)
    refine ⟨s', c, he, by omega, ?_, ?_⟩
    · intro j hj
      simp only [hel, hm]
      clear hel hm he hlen hl
      grind
    · intro i h1 h2
      simp only [hel, hm]
      clear hel hm he hlen hl
      grind
  · obtain ⟨s', c, he, hlen, hel⟩ := cropFill_spec s base (n - low) (low + high - n) low (by omega) (by omega)
    refine ⟨s', c, he, hlen, ?_, ?_⟩
    · intro j hj
      simp only [hel]
      clear hel he hlen
      ite_idx
    · intro i h1 h2
      simp only [hel]
      clear hel he hlen
      ite_idx

theorem cropLinear_spec (s : List Byte) (base low n : Nat)
    (hb : base + low ≤ s.length) (hn : n ≤ low) :
    ∃ s' c, cropLinear s base low n = .ok (s', c) ∧ s'.length = s.length ∧
      (∀ j, j < low - n → s'[base + j]? = s[base + j + n]?) ∧
      (∀ i, i < base → s'[i]? = s[i]?) ∧ (∀ i, base + low ≤ i → s'[i]? = s[i]?) := by
  unfold cropLinear
  simp only []
  split
  · rw [Mem.mv_ok _ _ _ _ (by omega) (by omega)]
    refine ⟨_, _, rfl, Mem.move_length _ _ _ _ (by omega) (by omega), ?_, ?_, ?_⟩
    all_goals (intros; rw [Mem.getElem?_move _ _ _ _ _ (by omega) (by omega)]; grind)
  · refine ⟨_, _, rfl, rfl, ?_, ?_, ?_⟩
    · intro j hj; omega
    · intros; rfl
    · intros; rfl

theorem getElem?_cropped (l : List Byte) (pos n i : Nat) (hp : pos ≤ l.length) :
    (l.take pos ++ l.drop (pos + n))[i]? = if i < pos then l[i]? else l[i + n]? := by
  rw [List.getElem?_append]
  simp only [List.length_take, List.getElem?_take, List.getElem?_drop]
  have : min pos l.length = pos := by omega
  rw [this]
  split
  · rfl
  · congr 1; omega

theorem crop_front (r : Ring) (h : r.WF) (n : Nat) (hn : n ≤ r.len) :
    ∃ r' c, r.crop 0 n = .ok (r', c) ∧ r'.WF ∧ r'.store = r.store ∧ r'.len = r.len - n
      ∧ r'.content = r.content.drop n := by
  obtain ⟨h1, h2⟩ := h
  unfold crop low
  simp only [↓reduceIte, max]
  split
  · omega
  · split
    all_goals refine ⟨_, _, rfl, ?_, rfl, rfl, ?_⟩
    all_goals first
      | (unfold WF; simp only []; omega)
      | (apply List.ext_getElem?; intro i
         rw [List.getElem?_drop, getElem?_content _ _ h1 h2,
           getElem?_content _ _ (by simp only []; omega) (by simp only []; omega)]
         simp only []
         ite_idx)

/-- the byte the C struct denotes at logical position `i` -/
def phys (store : List Byte) (off i : Nat) : Option Byte :=
  if off + i < store.length then store[off + i]? else store[off + i - store.length]?

theorem getElem?_content' (r : Ring) (i : Nat) (h1 : r.len ≤ r.store.length) (h2 : r.off ≤ r.store.length) :
    r.content[i]? = if i < r.len then phys r.store r.off i else none := by
  rw [getElem?_content _ _ h1 h2]; rfl

/-- content of a ring after removing `[pos, pos+n)`, from a statement about physical positions -/
theorem content_cropped (r : Ring) (s' : List Byte) (pos n : Nat) (h1 : r.len ≤ r.store.length)
    (h2 : r.off ≤ r.store.length) (hn : pos + n ≤ r.len) (hl : s'.length = r.store.length)
    (H : ∀ i, i < r.len - n → phys s' r.off i = if i < pos then phys r.store r.off i else phys r.store r.off (i + n)) :
    ({ r with store := s', len := r.len - n } : Ring).content = r.content.take pos ++ r.content.drop (pos + n) := by
  have hcl := content_length r h1 h2
  apply List.ext_getElem?; intro i
  rw [getElem?_cropped _ _ _ _ (by omega), getElem?_content' _ _ h1 h2, getElem?_content' _ _ h1 h2,
    getElem?_content' _ _ (by simp only []; omega) (by simp only []; omega)]
  simp only []
  by_cases hi : i < r.len - n
  · rw [if_pos hi, H i hi]
    split
    · rw [if_pos (by omega)]
    · rw [if_pos (by omega)]
  · rw [if_neg hi]
    split
    · omega
    · rw [if_neg (by omega)]

theorem phys_tail (s : List Byte) (off pos i : Nat) (hpos : pos ≤ i) (h : off + pos ≤ s.length) :
    phys s off i = tailAt s (off + pos) (s.length - off - pos) (i - pos) := by
  unfold phys tailAt
  ite_idx

/-- wrapped data, removed range starts in the first part -/
theorem crop_WA (r : Ring) (pos n : Nat) (h1 : r.len ≤ r.store.length) (h2 : r.off ≤ r.store.length)
    (hw : r.store.length - r.off < r.len) (hA : pos < r.store.length - r.off) (hn : pos + n ≤ r.len) :
    ∃ s' c, cropWrapped r.store (r.off + pos) (r.store.length - r.off - pos) (r.len - (r.store.length - r.off)) n
        = .ok (s', c) ∧ s'.length = r.store.length ∧
      ∀ i, i < r.len - n → phys s' r.off i = if i < pos then phys r.store r.off i else phys r.store r.off (i + n) := by
  obtain ⟨s', c, he, hlen, htail, hkeep⟩ := cropWrapped_spec r.store (r.off + pos)
    (r.store.length - r.off - pos) (r.len - (r.store.length - r.off)) n (by omega) (by omega) (by omega)
  refine ⟨s', c, he, hlen, ?_⟩
  intro i hi
  by_cases hp : i < pos
  · rw [if_pos hp]
    have := hkeep (r.off + i) (by omega) (by omega)
    unfold phys
    rw [if_pos (by omega), if_pos (by omega), this]
  · rw [if_neg hp]
    rw [phys_tail s' r.off pos i (by omega) (by omega), phys_tail r.store r.off pos (i + n) (by omega) (by omega)]
    rw [hlen]
    have := htail (i - pos) (by omega)
    rw [this]
    congr 1; omega

/-- removal inside one contiguous stretch `[base, base+low)` -/
theorem crop_lin (s : List Byte) (off len base low pos n : Nat)
    (hb : base + low ≤ s.length) (hn : n ≤ low) (_hoff : off ≤ s.length) (hlen : len ≤ s.length)
    (hpn : pos + n ≤ len) (hlow : low = len - pos)
    (hbase : (off + pos < s.length ∧ base = off + pos) ∨ (s.length ≤ off + pos ∧ base = off + pos - s.length))
    (hfit : off + pos < s.length → off + len ≤ s.length) :
    ∃ s' c, cropLinear s base low n = .ok (s', c) ∧ s'.length = s.length ∧
      ∀ i, i < len - n → phys s' off i = if i < pos then phys s off i else phys s off (i + n) := by
  obtain ⟨s', c, he, hl, hmv, hlo, hhi⟩ := cropLinear_spec s base low n hb hn
  refine ⟨s', c, he, hl, ?_⟩
  intro i hi
  unfold phys
  rw [hl]
  rcases hbase with ⟨hb1, hb2⟩ | ⟨hb1, hb2⟩
  · have hf := hfit hb1
    by_cases hp : i < pos
    · rw [if_pos hp, if_pos (by omega), if_pos (by omega)]
      exact hlo _ (by omega)
    · rw [if_neg hp, if_pos (by omega), if_pos (by omega)]
      have := hmv (i - pos) (by omega)
      rw [show base + (i - pos) = off + i by omega, show off + i + n = off + (i + n) by omega] at this
      exact this
  · by_cases hp : i < pos
    · rw [if_pos hp]
      split
      · exact hhi _ (by omega)
      · exact hlo _ (by omega)
    · rw [if_neg hp, if_neg (by omega), if_neg (by omega)]
      have := hmv (i - pos) (by omega)
      rw [show base + (i - pos) = off + i - s.length by omega,
        show off + i - s.length + n = off + (i + n) - s.length by omega] at this
      exact this

theorem crop_mid (r : Ring) (h : r.WF) (pos n : Nat) (hp : pos ≠ 0) (hn : pos + n ≤ r.len) :
    ∃ r' c, r.crop pos n = .ok (r', c) ∧ r'.WF ∧ r'.store.length = r.store.length ∧ r'.off = r.off
      ∧ r'.len = r.len - n ∧ r'.content = r.content.take pos ++ r.content.drop (pos + n) := by
  obtain ⟨h1, h2⟩ := h
  unfold crop low cropTail
  simp only [hp, ↓reduceIte, max]
  by_cases hw : r.store.length - r.off < r.len
  · -- wrapped content
    rw [show min (r.store.length - r.off) r.len = r.store.length - r.off by omega]
    by_cases hA : pos < r.store.length - r.off
    · rw [if_pos hA, if_neg (by omega), if_pos (by omega)]
      obtain ⟨s', c, he, hl, H⟩ := crop_WA r pos n h1 h2 hw hA hn
      rw [he]
      refine ⟨_, _, rfl, ?_, hl, rfl, rfl, content_cropped r s' pos n h1 h2 hn hl H⟩
      unfold WF; simp only []; omega
    · rw [if_neg hA, if_neg (by omega), if_neg (by omega)]
      simp only [ne_eq, not_true_eq_false, ↓reduceIte]
      obtain ⟨s', c, he, hl, H⟩ := crop_lin r.store r.off r.len (pos - (r.store.length - r.off))
        (r.len - (r.store.length - r.off) - (pos - (r.store.length - r.off))) pos n
        (by omega) (by omega) h2 h1 hn (by omega) (Or.inr ⟨by omega, by omega⟩) (by omega)
      rw [he]
      refine ⟨_, _, rfl, ?_, hl, rfl, rfl, content_cropped r s' pos n h1 h2 hn hl H⟩
      unfold WF; simp only []; omega
  · -- contiguous content
    rw [show min (r.store.length - r.off) r.len = r.len by omega]
    by_cases hA : pos < r.len
    · rw [if_pos hA, if_neg (by omega)]
      simp only [Nat.sub_self, ne_eq, not_true_eq_false, ↓reduceIte]
      obtain ⟨s', c, he, hl, H⟩ := crop_lin r.store r.off r.len (r.off + pos) (r.len - pos) pos n
        (by omega) (by omega) h2 h1 hn rfl (Or.inl ⟨by omega, rfl⟩) (by omega)
      rw [he]
      refine ⟨_, _, rfl, ?_, hl, rfl, rfl, content_cropped r s' pos n h1 h2 hn hl H⟩
      unfold WF; simp only []; omega
    · -- pos = len, n = 0
      have hpl : pos = r.len := by omega
      have hn0 : n = 0 := by omega
      subst hn0
      rw [if_neg hA, if_neg (by omega)]
      simp only [Nat.sub_self, Nat.add_zero, Nat.zero_sub, ne_eq, not_true_eq_false, ↓reduceIte]
      unfold cropLinear
      simp only [Nat.sub_self, ne_eq, not_true_eq_false, ↓reduceIte, Nat.sub_zero]
      refine ⟨_, _, rfl, ⟨h1, h2⟩, rfl, rfl, rfl, ?_⟩
      have hcl := content_length r h1 h2
      rw [List.take_append_drop]

theorem crop_refused (r : Ring) (h : r.WF) (pos n : Nat) (hn : r.len < pos + n) :
    r.crop pos n = .err .BadArgument := by
  obtain ⟨h1, h2⟩ := h
  unfold crop low cropTail
  simp only [max]
  by_cases hp : pos = 0
  · subst hp
    simp only [↓reduceIte]
    rw [if_pos (by omega)]
  · simp only [hp, ↓reduceIte]
    by_cases hA : pos < min (r.store.length - r.off) r.len
    · rw [if_pos hA, if_pos (by omega)]
    · rw [if_neg hA]
      by_cases hB : pos - min (r.store.length - r.off) r.len > r.len - min (r.store.length - r.off) r.len
      · rw [if_pos hB]
      · rw [if_neg hB, if_pos (by omega)]

/-- physical index of logical position `pos` -/
def physIdx (M off pos : Nat) : Nat := if off + pos < M then off + pos else off + pos - M

theorem crop_zero_eq (r : Ring) (n : Nat) (hn : n ≤ r.len) :
    ∃ c, r.crop 0 n = .ok (Ring.mk r.store (r.len - n)
      (if n ≥ min (r.store.length - r.off) r.len then n - min (r.store.length - r.off) r.len else r.off + n), c) := by
  unfold crop low
  simp only [↓reduceIte, max]
  rw [if_neg (by omega)]
  split
  · exact ⟨_, rfl⟩
  · exact ⟨_, rfl⟩

theorem view_ok (r : Ring) (h : r.WF) (pos n : Nat) (e : Err) (h0 : 0 < n) (hn : pos + n ≤ r.len) :
    ∃ bit base low high, r.view pos n e = .ok (bit, base, low, high) ∧ base + low ≤ r.store.length ∧
      low + high = n ∧ high ≤ base ∧
      ∀ i, i < n → physIdx r.store.length r.off (pos + i) = if i < low then base + i else i - low := by
  obtain ⟨h1, h2⟩ := h
  unfold view
  by_cases hp : pos = 0
  · subst hp
    simp only [ne_eq, not_true_eq_false, false_and, ↓reduceIte, max, Nat.zero_add]
    rw [if_neg (by omega)]
    refine ⟨_, _, _, _, rfl, by omega, by omega, by omega, ?_⟩
    intro i hi
    unfold physIdx
    ite_idx
  · simp only [hp, ne_eq, not_false_eq_true, true_and, ↓reduceIte, max]
    obtain ⟨c, hc⟩ := crop_zero_eq r pos (by omega)
    rw [hc]
    simp only []
    rw [if_neg (by omega)]
    refine ⟨_, _, _, _, rfl, ?_, by omega, ?_, ?_⟩
    · split <;> omega
    · split <;> omega
    · intro i hi
      unfold physIdx
      ite_idx

theorem view_refused (r : Ring) (h : r.WF) (pos n : Nat) (e : Err) (hn : r.len < pos + n) :
    r.view pos n e = .err e ∨ r.view pos n e = .err .BadArgument := by
  unfold view
  by_cases hp : pos = 0
  · subst hp
    simp only [ne_eq, not_true_eq_false, false_and, ↓reduceIte]
    left; rw [if_pos (by omega)]
  · simp only [hp, ne_eq, not_false_eq_true, true_and, ↓reduceIte]
    by_cases hpl : pos ≤ r.len
    · obtain ⟨r', c, he, _, _, hl, _⟩ := crop_front r h pos hpl
      rw [he]
      simp only []
      left; rw [if_pos (by omega)]
    · rw [crop_refused r h 0 pos (by omega)]
      right; rfl

theorem readParts_ok (s : List Byte) (base low high : Nat) (h1 : base + low ≤ s.length) (h2 : high ≤ s.length) :
    readParts s base low high = .ok (Mem.read s base low ++ Mem.read s 0 high) := by
  unfold readParts
  rw [Mem.rd_ok _ _ _ h1, Mem.rd_ok _ _ _ (by omega)]
  by_cases hl : low = 0 <;> by_cases hh : high = 0 <;> simp [hl, hh, Mem.read]

theorem get_ok (r : Ring) (h : r.WF) (pos n : Nat) (h0 : 0 < n) (hn : pos + n ≤ r.len) :
    ∃ c, r.get pos n true = .ok (c, (r.content.drop pos).take n) := by
  obtain ⟨bit, base, low, high, hv, hb, hlh, _, hidx⟩ := view_ok r h pos n .BadArgument h0 hn
  obtain ⟨h1, h2⟩ := h
  unfold get
  rw [if_neg (by omega), hv]
  simp only [Bool.not_true, Bool.false_eq_true, ↓reduceIte]
  rw [readParts_ok _ _ _ _ hb (by omega)]
  simp only []
  have hout : Mem.read r.store base low ++ Mem.read r.store 0 high = (r.content.drop pos).take n := by
    apply List.ext_getElem?; intro i
    rw [List.getElem?_take, List.getElem?_drop, getElem?_content _ _ h1 h2, List.getElem?_append,
      Mem.read_length _ _ _ (by omega), Mem.getElem?_read, Mem.getElem?_read]
    by_cases hi : i < n
    · have := hidx i hi
      have hp : (if r.off + (pos + i) < r.store.length then r.store[r.off + (pos + i)]?
          else r.store[r.off + (pos + i) - r.store.length]?) = r.store[physIdx r.store.length r.off (pos + i)]? := by
        unfold physIdx; split <;> rfl
      rw [if_pos hi, if_pos (show pos + i < r.len by omega), hp, this]
      by_cases hl : i < low
      · rw [if_pos hl, if_pos hl, if_pos hl]
      · rw [if_neg hl, if_neg hl, if_pos (by omega)]
        congr 1; omega
    · rw [if_neg hi]
      ite_idx
  rw [hout]
  exact ⟨_, rfl⟩

theorem get_refused (r : Ring) (h : r.WF) (pos n : Nat) (dst : Bool) (h0 : 0 < n) (hn : r.len < pos + n) :
    r.get pos n dst = .err .BadArgument := by
  unfold get
  rw [if_neg (by omega)]
  rcases view_refused r h pos n .BadArgument hn with hv | hv <;> rw [hv]

theorem physIdx_inj (M off a b : Nat) (hoff : off ≤ M) (ha : a < M) (hb : b < M)
    (h : physIdx M off a = physIdx M off b) : a = b := by
  unfold physIdx at h
  split at h <;> split at h <;> omega

theorem physIdx_lt (M off a : Nat) (_hoff : off ≤ M) (ha : a < M) : physIdx M off a < M := by
  unfold physIdx; split <;> omega

theorem phys_eq (s : List Byte) (off i : Nat) : phys s off i = s[physIdx s.length off i]? := by
  unfold phys physIdx; split <;> rfl

theorem setSrc_length (n : Nat) (b : Option (List Byte)) : (setSrc n b).length = n := by
  unfold setSrc
  cases b <;> simp <;> omega

theorem Mem.write_nil (s : List Byte) (d : Nat) : Mem.write s d [] = s := by
  unfold Mem.write; simp

theorem writeParts_spec (s : List Byte) (base low high : Nat) (src : List Byte)
    (hb : base + low ≤ s.length) (hh : high ≤ base) (hs : src.length = low + high) :
    ∃ s', writeParts s base low high src = .ok s' ∧ s'.length = s.length ∧
      ∀ k, s'[k]? = if base ≤ k ∧ k < base + low then src[k - base]?
                    else if k < high then src[low + k]? else s[k]? := by
  unfold writeParts
  have hl1 : (src.take low).length = low := by simp; omega
  have hl2 : ((src.drop low).take high).length = high := by simp; omega
  have hw1 : (Mem.write s base (src.take low)).length = s.length := Mem.write_length _ _ _ (by omega)
  have e1 : (if low ≠ 0 then Mem.wr s base (src.take low) else Res.ok s) = .ok (Mem.write s base (src.take low)) := by
    split
    · exact Mem.wr_ok _ _ _ (by omega)
    · have : low = 0 := by omega
      subst this
      rw [List.take_zero, Mem.write_nil]
  rw [e1]
  simp only []
  have e2 : (if high ≠ 0 then Mem.wr (Mem.write s base (src.take low)) 0 ((src.drop low).take high)
      else Res.ok (Mem.write s base (src.take low)))
      = .ok (Mem.write (Mem.write s base (src.take low)) 0 ((src.drop low).take high)) := by
    split
    · exact Mem.wr_ok _ _ _ (by omega)
    · have : high = 0 := by omega
      subst this
      rw [List.take_zero, Mem.write_nil]
  rw [e2]
  refine ⟨_, rfl, by rw [Mem.write_length _ _ _ (by omega), hw1], ?_⟩
  intro k
  rw [Mem.getElem?_write _ _ _ _ (by omega), hl2, Mem.getElem?_write _ _ _ _ (by omega), hl1]
  simp only [List.getElem?_take, List.getElem?_drop]
  ite_idx

theorem getElem?_spliced (l src : List Byte) (pos i : Nat) (hp : pos + src.length ≤ l.length) :
    (l.take pos ++ src ++ l.drop (pos + src.length))[i]? =
      if i < pos then l[i]? else if i < pos + src.length then src[i - pos]? else l[i]? := by
  rw [List.append_assoc, List.getElem?_append]
  simp only [List.length_take, List.getElem?_take]
  have : min pos l.length = pos := by omega
  rw [this, List.getElem?_append, List.getElem?_drop]
  ite_idx

theorem set_ok (r : Ring) (h : r.WF) (pos n : Nat) (bytes : Option (List Byte)) (h0 : 0 < n)
    (hn : pos + n ≤ r.len) :
    ∃ r' c, r.set pos n bytes = .ok (r', c) ∧ r'.WF ∧ r'.store.length = r.store.length ∧ r'.off = r.off
      ∧ r'.len = r.len
      ∧ r'.content = r.content.take pos ++ setSrc n bytes ++ r.content.drop (pos + n) := by
  obtain ⟨bit, base, low, high, hv, hb, hlh, hhb, hidx⟩ := view_ok r h pos n .MissingBuffer h0 hn
  have hwf := h
  obtain ⟨h1, h2⟩ := h
  have hsl := setSrc_length n bytes
  obtain ⟨s', hw, hl', hel⟩ := writeParts_spec r.store base low high (setSrc n bytes) hb hhb (by omega)
  unfold set
  rw [if_neg (by omega), hv]
  simp only []
  rw [hw]
  simp only []
  refine ⟨_, _, rfl, ?_, hl', rfl, rfl, ?_⟩
  · unfold WF; simp only []; omega
  · have hcl := content_length r h1 h2
    apply List.ext_getElem?; intro i
    have hsp := getElem?_spliced r.content (setSrc n bytes) pos i (by omega)
    rw [hsl] at hsp
    rw [hsp, getElem?_content' _ _ (by simp only []; omega) (by simp only []; omega)]
    simp only []
    clear hsp
    by_cases hi : i < r.len
    · rw [if_pos hi, phys_eq, hl', hel]
      have hk := physIdx_lt r.store.length r.off i h2 (by omega)
      by_cases hin : pos ≤ i ∧ i < pos + n
      · have hx := hidx (i - pos) (by omega)
        rw [show pos + (i - pos) = i by omega] at hx
        have hR : (if i < pos then r.content[i]? else if i < pos + n then (setSrc n bytes)[i - pos]?
            else r.content[i]?) = (setSrc n bytes)[i - pos]? := by
          rw [if_neg (by omega), if_pos (by omega)]
        rw [hR, hx]
        by_cases hlo : i - pos < low
        · rw [if_pos hlo, if_pos (by omega)]
          congr 1; omega
        · rw [if_neg hlo, if_neg (by omega), if_pos (by omega)]
          congr 1; omega
      · -- untouched position: not the image of any written logical index
        have hout : ¬ (base ≤ physIdx r.store.length r.off i ∧ physIdx r.store.length r.off i < base + low) := by
          intro hc
          have hx := hidx (physIdx r.store.length r.off i - base) (by omega)
          rw [if_pos (by omega)] at hx
          have := physIdx_inj r.store.length r.off (pos + (physIdx r.store.length r.off i - base)) i h2
            (by omega) (by omega) (by omega)
          omega
        have hout2 : ¬ (physIdx r.store.length r.off i < high) := by
          intro hc
          have hx := hidx (low + physIdx r.store.length r.off i) (by omega)
          rw [if_neg (by omega)] at hx
          have := physIdx_inj r.store.length r.off (pos + (low + physIdx r.store.length r.off i)) i h2
            (by omega) (by omega) (by omega)
          omega
        have hR : (if i < pos then r.content[i]? else if i < pos + n then (setSrc n bytes)[i - pos]?
            else r.content[i]?) = r.content[i]? := by
          by_cases hlt : i < pos
          · rw [if_pos hlt]
          · rw [if_neg hlt, if_neg (by omega)]
        rw [if_neg hout, if_neg hout2, hR, getElem?_content' _ _ h1 h2, if_pos hi, phys_eq]
    · have hR : (if i < pos then r.content[i]? else if i < pos + n then (setSrc n bytes)[i - pos]?
          else r.content[i]?) = none := by
        rw [if_neg (by omega), if_neg (by omega), getElem?_content' _ _ h1 h2, if_neg hi]
      rw [if_neg hi, hR]

theorem set_refused (r : Ring) (h : r.WF) (pos n : Nat) (bytes : Option (List Byte)) (h0 : 0 < n)
    (hn : r.len < pos + n) :
    r.set pos n bytes = .err .MissingBuffer ∨ r.set pos n bytes = .err .BadArgument := by
  unfold set
  rw [if_neg (by omega)]
  rcases view_refused r h pos n .MissingBuffer hn with hv | hv <;> rw [hv]
  · left; rfl
  · right; rfl

theorem content_take (r : Ring) (n : Nat) (_hn : n ≤ r.len) :
    ({ r with len := n } : Ring).content = r.content.take n := by
  unfold content
  simp only [List.take_take]
  congr 1; omega

theorem empty_some (r : Ring) (hfull : r.len < r.store.length) :
    ∃ st, r.empty = some (st,
      (if r.store.length - r.len ≤ r.off then r.store.length - r.len else r.store.length - r.len - r.off),
      (if r.store.length - r.len ≤ r.off then 0 else r.off)) := by
  unfold empty
  simp only [max]
  rw [if_neg (by omega)]
  split
  · exact ⟨_, rfl⟩
  · exact ⟨_, rfl⟩

theorem empty_none (r : Ring) (hfull : r.store.length ≤ r.len) : r.empty = none := by
  unfold empty
  simp only [max]
  rw [if_pos (by omega)]

theorem qpost_ok (r : Ring) (h : r.WF) (n : Nat) (hfull : r.len < r.store.length) (hn : n ≤ r.store.length - r.len) :
    ∃ k, r.qpost n = .ok ({ r with len := r.len + n }, k) := by
  obtain ⟨h1, h2⟩ := h
  obtain ⟨st, he⟩ := empty_some r hfull
  unfold qpost
  rw [he]
  simp only []
  rw [if_neg (by split <;> omega)]
  exact ⟨_, rfl⟩

theorem qpost_refused (r : Ring) (h : r.WF) (n : Nat) (hn : r.store.length - r.len < n ∨ r.len = r.store.length) :
    r.qpost n = .err .MissingBuffer := by
  obtain ⟨h1, h2⟩ := h
  unfold qpost
  by_cases hf : r.len < r.store.length
  · obtain ⟨st, he⟩ := empty_some r hf
    rw [he]
    simp only []
    rw [if_pos (by split <;> omega)]
  · rw [empty_none r (by omega)]

theorem qpre_ok (r : Ring) (h : r.WF) (n : Nat) (hfull : r.len < r.store.length) (hn : n ≤ r.store.length - r.len) :
    ∃ r1 k, r.qpre n = .ok (r1, k) ∧ r1.WF ∧ r1.store = r.store ∧ r1.len = r.len + n ∧
      r1.content.drop n = r.content := by
  have hwf := h
  obtain ⟨h1, h2⟩ := h
  obtain ⟨st, he⟩ := empty_some r hfull
  unfold qpre
  rw [he]
  simp only [max]
  rw [if_neg (by split <;> omega)]
  have hoff : (if (if r.store.length - r.len ≤ r.off then 0 else r.off) ≠ 0 ∧
        (if r.store.length - r.len ≤ r.off then 0 else r.off) < n then
        r.store.length - (n - if r.store.length - r.len ≤ r.off then 0 else r.off)
      else if n < r.off then r.off - n else r.off + (r.store.length - n)) ≤ r.store.length := by
    by_cases hc : r.store.length - r.len ≤ r.off
    · simp only [hc, ↓reduceIte, ne_eq, not_true_eq_false, false_and]
      split <;> omega
    · simp only [hc, ↓reduceIte]
      split
      · omega
      · split <;> omega
  refine ⟨_, _, rfl, ?_, rfl, rfl, ?_⟩
  · unfold WF; simp only []; exact ⟨by omega, hoff⟩
  · apply List.ext_getElem?; intro i
    rw [List.getElem?_drop, getElem?_content _ _ h1 h2,
      getElem?_content _ _ (by simp only []; omega) (by simp only []; exact hoff)]
    simp only []
    clear hoff he
    ite_idx

theorem qpre_refused (r : Ring) (h : r.WF) (n : Nat) (hn : r.store.length - r.len < n ∨ r.len = r.store.length) :
    r.qpre n = .err .MissingBuffer := by
  obtain ⟨h1, h2⟩ := h
  unfold qpre
  by_cases hf : r.len < r.store.length
  · obtain ⟨st, he⟩ := empty_some r hf
    rw [he]
    simp only []
    rw [if_pos (by split <;> omega)]
  · rw [empty_none r (by omega)]

end Ring
end Mpt
