/-
  mpt_path_set + mpt_path_next visit exactly the separator-delimited components (separator mode).
-/
import MptModel.Impl.Config
import MptModel.Spec.PathMap
namespace Mpt.Config
open Mpt Mpt.PathMap

theorem splitOn_ne_nil (sep : Byte) : ∀ t : List Byte, splitOn sep t ≠ []
  | [] => by simp [splitOn]
  | c :: cs => by
    simp only [splitOn]
    split
    · simp
    · split <;> simp

/-- a text without separator is one component -/
theorem splitOn_no_sep (sep : Byte) : ∀ t : List Byte, sep ∉ t → splitOn sep t = [t]
  | [], _ => by simp [splitOn]
  | c :: cs, h => by
    simp at h
    simp only [splitOn]
    have hc : ¬ c = sep := fun e => h.1 e.symm
    simp [hc, splitOn_no_sep sep cs h.2]

/-- the first component ends at the first separator -/
theorem splitOn_append_sep (sep : Byte) : ∀ (a rest : List Byte), sep ∉ a →
    splitOn sep (a ++ sep :: rest) = a :: splitOn sep rest
  | [], rest, _ => by simp [splitOn]
  | c :: cs, rest, h => by
    simp at h
    have hc : ¬ c = sep := fun e => h.1 e.symm
    simp only [List.cons_append, splitOn, hc, ↓reduceIte]
    rw [splitOn_append_sep sep cs rest h.2]

/-- split a text at its first separator -/
theorem exists_first_sep (sep : Byte) : ∀ t : List Byte, sep ∈ t →
    ∃ a rest, t = a ++ sep :: rest ∧ sep ∉ a
  | [], h => by simp at h
  | c :: cs, h => by
    by_cases hc : c = sep
    · exact ⟨[], cs, by simp [hc], by simp⟩
    · simp at h
      rcases h with h | h
      · exact absurd h.symm hc
      · obtain ⟨a, rest, h1, h2⟩ := exists_first_sep sep cs h
        exact ⟨c :: a, rest, by simp [h1], by simp [h2]; exact fun e => hc e.symm⟩

theorem memchr_none (data : List Byte) (c : Byte) (n : Nat) (h : c ∉ data.take n) : memchr data c n = none := by
  unfold memchr
  have : (data.take n).findIdx (· = c) = (data.take n).length := by
    apply List.findIdx_eq_length.2
    intro x hx
    simp
    rintro rfl
    exact h hx
  simp [this]

theorem memchr_some (a rest : List Byte) (c : Byte) (n : Nat) (h : c ∉ a) (hn : a.length < n) :
    memchr (a ++ c :: rest) c n = some a.length := by
  unfold memchr
  have hlen : a.length < ((a ++ c :: rest).take n).length := by simp; omega
  have : ((a ++ c :: rest).take n).findIdx (· = c) = a.length := by
    rw [List.findIdx_eq hlen]
    constructor
    · simp [List.getElem_take]
    · intro j hj
      have : ((a ++ c :: rest).take n)[j]'(by omega) = a[j] := by
        simp [List.getElem_take, List.getElem_append_left hj]
      simp [this]
      rintro rfl
      exact h (List.getElem_mem hj)
  simp [this]
  omega


/-- walking a separator-mode path whose `first` field is unknown (0) yields the components of its text -/
theorem elems_first0 (sep : Byte) : ∀ (n : Nat) (t pre : List Byte) (p : Path) (fuel : Nat),
    t.length ≤ n → t.length + 2 ≤ fuel →
    p.base = pre ++ t ++ [0] → p.off = pre.length → p.len = t.length + 1 → p.first = 0 → p.binary = false →
    p.sep = sep →
    elems p fuel = .ok (splitOn sep t) := by
  intro n
  induction n with
  | zero =>
    intro t pre p fuel hn hf hb ho hl hfi hbin hs
    have ht : t = [] := List.length_eq_zero_iff.1 (by omega)
    subst ht
    obtain ⟨f, rfl⟩ : ∃ f, fuel = f + 2 := ⟨fuel - 2, by omega⟩
    have hnext : pathNext p = .ok ({ p with off := p.off + 1, len := 0 }, 0) := by
      simp [pathNext, hl, hbin, hfi, hb, ho, memchr]
    simp [elems, hl, hnext, splitOn, hb, ho]
  | succ n ih =>
    intro t pre p fuel hn hf hb ho hl hfi hbin hs
    obtain ⟨f, rfl⟩ : ∃ f, fuel = f + 1 := ⟨fuel - 1, by omega⟩
    have hdata : p.base.drop p.off = t ++ [0] := by simp [hb, ho]
    by_cases hsep : sep ∈ t
    · obtain ⟨a, rest, hta, hna⟩ := exists_first_sep sep t hsep
      have hmem : memchr (t ++ [0]) sep t.length = some a.length := by
        rw [hta]
        simp only [List.append_assoc, List.cons_append]
        apply memchr_some _ _ _ _ hna
        simp
      have hnext : pathNext p = .ok ({ p with off := p.off + (a.length + 1), len := p.len - (a.length + 1) }, a.length) := by
        simp only [pathNext, hl, hbin, hfi, hdata, hs]
        simp [hb, ho, hmem]
      have hq := ih rest (pre ++ a ++ [sep]) { p with off := p.off + (a.length + 1), len := p.len - (a.length + 1) } f
        (by rw [hta] at hn; simp at hn; omega) (by rw [hta] at hf; simp at hf; omega)
        (by simp [hb, hta]) (by simp [ho]) (by simp [hl, hta]) hfi hbin hs
      simp only [elems]
      have hl0 : ¬ p.len = 0 := by omega
      simp only [hl0, ↓reduceIte, hnext]
      rw [hq]
      have hsp : splitOn sep t = a :: splitOn sep rest := by rw [hta]; exact splitOn_append_sep sep a rest hna
      rw [hsp]
      simp [hbin, hb, ho, hta]
      have : pre.length + (a.length + 1) - a.length - 1 = pre.length := by omega
      rw [this]; simp
    · have hmem : memchr (t ++ [0]) sep t.length = none := by
        apply memchr_none
        simp [hsep]
      have hnext : pathNext p = .ok ({ p with off := p.off + p.len, len := 0 }, t.length) := by
        simp only [pathNext, hl, hbin, hfi, hdata, hs]
        simp [hb, ho, hmem]
      obtain ⟨f', rfl⟩ : ∃ f', f = f' + 1 := ⟨f - 1, by omega⟩
      simp only [elems]
      have hl0 : ¬ p.len = 0 := by omega
      simp only [hl0, ↓reduceIte, hnext]
      rw [splitOn_no_sep sep t hsep]
      simp [hbin, hb, ho, hl]
      have : pre.length + (t.length + 1) - t.length - 1 = pre.length := by omega
      rw [this]; simp


/-- scan of a terminated text after the first separator was seen: `first` stays -/
theorem setScan_later (sep : Byte) (hs : sep ≠ 0) : ∀ (t : List Byte) (plen elem first : Nat), (0 : Byte) ∉ t → elem ≠ 0 →
    (setScan sep 0 (t ++ [0]) plen elem first).1 = plen + t.length + 1 ∧
    (setScan sep 0 (t ++ [0]) plen elem first).2.2.1 = first ∧
    (setScan sep 0 (t ++ [0]) plen elem first).2.2.2 = true
  | [], plen, elem, first, _, _ => by simp [setScan]
  | c :: cs, plen, elem, first, h0, he => by
    simp at h0
    have hc0 : ¬ c = 0 := fun e => h0.1 e.symm
    simp only [List.cons_append, setScan, hc0, false_or]
    by_cases hcs : c = sep
    · simp only [hcs, hs, ↓reduceIte, he]
      have := setScan_later sep hs cs (plen + 1) (elem + 1) first h0.2 (by omega)
      simp only [List.length_cons]
      refine ⟨by rw [this.1]; omega, this.2.1, this.2.2⟩
    · simp only [hcs, ↓reduceIte]
      have := setScan_later sep hs cs (plen + 1) elem first h0.2 he
      simp only [List.length_cons]
      refine ⟨by rw [this.1]; omega, this.2.1, this.2.2⟩

/-- scan of a terminated text before any separator was seen -/
theorem setScan_first (sep : Byte) (hs : sep ≠ 0) : ∀ (t : List Byte) (plen first : Nat), (0 : Byte) ∉ t →
    (setScan sep 0 (t ++ [0]) plen 0 first).1 = plen + t.length + 1 ∧
    (setScan sep 0 (t ++ [0]) plen 0 first).2.2.2 = true ∧
    (sep ∉ t → (setScan sep 0 (t ++ [0]) plen 0 first).2.2.1 = first) ∧
    (∀ a rest, t = a ++ sep :: rest → sep ∉ a → (setScan sep 0 (t ++ [0]) plen 0 first).2.2.1 = plen + a.length)
  | [], plen, first, _ => by
    simp [setScan]
  | c :: cs, plen, first, h0 => by
    simp at h0
    have hc0 : ¬ c = 0 := fun e => h0.1 e.symm
    simp only [List.cons_append, setScan, hc0, false_or]
    by_cases hcs : c = sep
    · simp only [hcs, hs, ↓reduceIte]
      have := setScan_later sep hs cs (plen + 1) 1 plen h0.2 (by omega)
      simp only [List.length_cons]
      refine ⟨by rw [this.1]; omega, this.2.2, by simp, ?_⟩
      intro a rest hta hna
      cases a with
      | nil => simpa using this.2.1
      | cons x xs =>
        simp at hta hna
        exact absurd hta.1 hna.1
    · simp only [hcs, ↓reduceIte]
      have := setScan_first sep hs cs (plen + 1) first h0.2
      simp only [List.length_cons]
      refine ⟨by rw [this.1]; omega, this.2.1, ?_, ?_⟩
      · intro h
        simp at h
        exact this.2.2.1 h.2
      · intro a rest hta hna
        cases a with
        | nil => simp at hta; exact absurd hta.1 hcs
        | cons x xs =>
          simp at hta hna
          rw [this.2.2.2 xs rest hta.2 hna.2]
          simp; omega

/-- `mpt_path_set` followed by `mpt_path_next` until the path is used up visits exactly the
    separator-delimited components of the text (assign character 0, i.e. the terminator ends the path) -/
theorem elems_pathSet (sep : Byte) (hs : sep ≠ 0) (text : List Byte) (h0 : (0 : Byte) ∉ text) :
    elems (pathSet sep 0 text).1 (text.length + 2) = .ok (splitOn sep text) := by
  obtain ⟨h1, h2, h3, h4⟩ := setScan_first sep hs text 0 0 h0
  by_cases hsep : sep ∈ text
  · obtain ⟨a, rest, hta, hna⟩ := exists_first_sep sep text hsep
    have hf := h4 a rest hta hna
    simp only [Nat.zero_add] at hf h1
    by_cases hbig : a.length = 0 ∨ a.length > 255
    · -- `first` is stored as 0: the plain search is used
      refine elems_first0 sep text.length text [] _ _ (Nat.le_refl _) (Nat.le_refl _) (by simp [pathSet]) (by simp [pathSet])
        (by simp [pathSet, h1, h2]) ?_ (by simp [pathSet]) (by simp [pathSet])
      simp only [pathSet, hf]
      rcases hbig with h | h
      · simp [h]
      · simp [h]
    · -- one step through the recorded length of the first element, then the plain search
      have ha : 0 < a.length ∧ a.length ≤ 255 := by omega
      have hfirst : (pathSet sep 0 text).1.first = a.length := by
        simp only [pathSet, hf]
        have : ¬ a.length > 255 := by omega
        simp [this]
      have hlen : (pathSet sep 0 text).1.len = text.length + 1 := by simp [pathSet, h1, h2]
      have hnext : pathNext (pathSet sep 0 text).1 =
          .ok ({ (pathSet sep 0 text).1 with first := 0, off := a.length + 1, len := text.length + 1 - (a.length + 1) }, a.length) := by
        have hne : ¬ a.length = 0 := by omega
        have hle : ¬ (a.length + 1 > text.length + 1) := by rw [hta]; simp
        simp only [pathNext, hlen, hfirst]
        simp [pathSet, hne, hle]
      have hq := elems_first0 sep rest.length rest (a ++ [sep])
        { (pathSet sep 0 text).1 with first := 0, off := a.length + 1, len := text.length + 1 - (a.length + 1) } (text.length + 1)
        (Nat.le_refl _) (by rw [hta]; simp) (by simp [pathSet, hta]) (by simp) (by rw [hta]; simp)
        rfl (by simp [pathSet]) (by simp [pathSet])
      rw [show text.length + 2 = (text.length + 1) + 1 from rfl, elems]
      have hl0 : ¬ (pathSet sep 0 text).1.len = 0 := by rw [hlen]; omega
      simp only [hl0, ↓reduceIte, hnext]
      rw [hq]
      have hsp : splitOn sep text = a :: splitOn sep rest := by rw [hta]; exact splitOn_append_sep sep a rest hna
      rw [hsp]
      simp [pathSet, hta]
  · refine elems_first0 sep text.length text [] _ _ (Nat.le_refl _) (Nat.le_refl _) (by simp [pathSet]) (by simp [pathSet])
      (by simp [pathSet, h1, h2]) ?_ (by simp [pathSet]) (by simp [pathSet])
    simp [pathSet, h3 hsep]

/-- `elems_first0` for a text that is followed by anything (an assign character and the value text, …) -/
theorem elems_first0G (sep : Byte) : ∀ (n : Nat) (t pre tl : List Byte) (p : Path) (fuel : Nat),
    t.length ≤ n → t.length + 2 ≤ fuel → tl ≠ [] →
    p.base = pre ++ t ++ tl → p.off = pre.length → p.len = t.length + 1 → p.first = 0 → p.binary = false →
    p.sep = sep →
    elems p fuel = .ok (splitOn sep t) := by
  intro n
  induction n with
  | zero =>
    intro t pre tl p fuel hn hf htl hb ho hl hfi hbin hs
    have ht : t = [] := List.length_eq_zero_iff.1 (by omega)
    subst ht
    obtain ⟨f, rfl⟩ : ∃ f, fuel = f + 2 := ⟨fuel - 2, by omega⟩
    have hnext : pathNext p = .ok ({ p with off := p.off + 1, len := 0 }, 0) := by
      simp [pathNext, hl, hbin, hfi, hb, ho, memchr]
    simp [elems, hl, hnext, splitOn, hb, ho]
  | succ n ih =>
    intro t pre tl p fuel hn hf htl hb ho hl hfi hbin hs
    obtain ⟨f, rfl⟩ : ∃ f, fuel = f + 1 := ⟨fuel - 1, by omega⟩
    have hdata : p.base.drop p.off = t ++ tl := by simp [hb, ho]
    by_cases hsep : sep ∈ t
    · obtain ⟨a, rest, hta, hna⟩ := exists_first_sep sep t hsep
      have hmem : memchr (t ++ tl) sep t.length = some a.length := by
        rw [hta]
        simp only [List.append_assoc, List.cons_append]
        apply memchr_some _ _ _ _ hna
        simp
      have hnext : pathNext p = .ok ({ p with off := p.off + (a.length + 1), len := p.len - (a.length + 1) }, a.length) := by
        simp only [pathNext, hl, hbin, hfi, hdata, hs]
        simp [hb, ho, hmem]
      have hq := ih rest (pre ++ a ++ [sep]) tl { p with off := p.off + (a.length + 1), len := p.len - (a.length + 1) } f
        (by rw [hta] at hn; simp at hn; omega) (by rw [hta] at hf; simp at hf; omega) htl
        (by simp [hb, hta]) (by simp [ho]) (by simp [hl, hta]) hfi hbin hs
      simp only [elems]
      have hl0 : ¬ p.len = 0 := by omega
      simp only [hl0, ↓reduceIte, hnext]
      rw [hq]
      have hsp : splitOn sep t = a :: splitOn sep rest := by rw [hta]; exact splitOn_append_sep sep a rest hna
      rw [hsp]
      simp [hbin, hb, ho, hta]
      have : pre.length + (a.length + 1) - a.length - 1 = pre.length := by omega
      rw [this]; simp
    · have hmem : memchr (t ++ tl) sep t.length = none := by
        apply memchr_none
        simp [hsep]
      have hnext : pathNext p = .ok ({ p with off := p.off + p.len, len := 0 }, t.length) := by
        simp only [pathNext, hl, hbin, hfi, hdata, hs]
        simp [hb, ho, hmem]
      obtain ⟨f', rfl⟩ : ∃ f', f = f' + 1 := ⟨f - 1, by omega⟩
      simp only [elems]
      have hl0 : ¬ p.len = 0 := by omega
      simp only [hl0, ↓reduceIte, hnext]
      rw [splitOn_no_sep sep t hsep]
      simp [hbin, hb, ho, hl]
      have : pre.length + (t.length + 1) - t.length - 1 = pre.length := by omega
      rw [this]; simp

/-- scan up to the first assign character or terminator `x`, after the first separator was seen: `first` stays -/
theorem setScanG_later (sep assign : Byte) (hs : sep ≠ 0) (hsa : sep ≠ assign) :
    ∀ (t : List Byte) (x : Byte) (tl : List Byte) (plen elem first : Nat),
    (∀ c ∈ t, c ≠ assign ∧ c ≠ 0) → (x = assign ∨ x = 0) → elem ≠ 0 →
    (setScan sep assign (t ++ x :: tl) plen elem first).1 = plen + t.length + 1 ∧
    (setScan sep assign (t ++ x :: tl) plen elem first).2.2.1 = first ∧
    (setScan sep assign (t ++ x :: tl) plen elem first).2.2.2 = true
  | [], x, tl, plen, elem, first, _, hx, _ => by simp [setScan, hx]
  | c :: cs, x, tl, plen, elem, first, h0, hx, he => by
    have hc := h0 c (by simp)
    have h0' : ∀ d ∈ cs, d ≠ assign ∧ d ≠ 0 := fun d hd => h0 d (by simp [hd])
    have hc0 : ¬ (c = assign ∨ c = 0) := by simp [hc.1, hc.2]
    simp only [List.cons_append, setScan, hc0, ↓reduceIte]
    by_cases hcs : c = sep
    · simp only [hcs, ↓reduceIte, he]
      have := setScanG_later sep assign hs hsa cs x tl (plen + 1) (elem + 1) first h0' hx (by omega)
      simp only [List.length_cons]
      refine ⟨by rw [this.1]; omega, this.2.1, this.2.2⟩
    · simp only [hcs, ↓reduceIte]
      have := setScanG_later sep assign hs hsa cs x tl (plen + 1) elem first h0' hx he
      simp only [List.length_cons]
      refine ⟨by rw [this.1]; omega, this.2.1, this.2.2⟩

/-- scan up to the first assign character or terminator `x`, before any separator was seen -/
theorem setScanG_first (sep assign : Byte) (hs : sep ≠ 0) (hsa : sep ≠ assign) :
    ∀ (t : List Byte) (x : Byte) (tl : List Byte) (plen first : Nat),
    (∀ c ∈ t, c ≠ assign ∧ c ≠ 0) → (x = assign ∨ x = 0) →
    (setScan sep assign (t ++ x :: tl) plen 0 first).1 = plen + t.length + 1 ∧
    (setScan sep assign (t ++ x :: tl) plen 0 first).2.2.2 = true ∧
    (sep ∉ t → (setScan sep assign (t ++ x :: tl) plen 0 first).2.2.1 = first) ∧
    (∀ a rest, t = a ++ sep :: rest → sep ∉ a → (setScan sep assign (t ++ x :: tl) plen 0 first).2.2.1 = plen + a.length)
  | [], x, tl, plen, first, _, hx => by
    simp [setScan, hx]
  | c :: cs, x, tl, plen, first, h0, hx => by
    have hc := h0 c (by simp)
    have h0' : ∀ d ∈ cs, d ≠ assign ∧ d ≠ 0 := fun d hd => h0 d (by simp [hd])
    have hc0 : ¬ (c = assign ∨ c = 0) := by simp [hc.1, hc.2]
    simp only [List.cons_append, setScan, hc0, ↓reduceIte]
    by_cases hcs : c = sep
    · simp only [hcs, ↓reduceIte]
      have := setScanG_later sep assign hs hsa cs x tl (plen + 1) 1 plen h0' hx (by omega)
      simp only [List.length_cons]
      refine ⟨by rw [this.1]; omega, this.2.2, by simp, ?_⟩
      intro a rest hta hna
      cases a with
      | nil => simpa using this.2.1
      | cons y ys =>
        simp at hta hna
        exact absurd hta.1 hna.1
    · simp only [hcs, ↓reduceIte]
      have := setScanG_first sep assign hs hsa cs x tl (plen + 1) first h0' hx
      simp only [List.length_cons]
      refine ⟨by rw [this.1]; omega, this.2.1, ?_, ?_⟩
      · intro h
        simp at h
        exact this.2.2.1 h.2
      · intro a rest hta hna
        cases a with
        | nil => simp at hta; exact absurd hta.1 hcs
        | cons y ys =>
          simp at hta hna
          rw [this.2.2.2 ys rest hta.2 hna.2]
          simp; omega


/-- a terminated text up to its first assign character (or the terminator) -/
theorem text_decomp (assign : Byte) : ∀ (text : List Byte), (0 : Byte) ∉ text →
    ∃ x tl, text ++ [0] = text.takeWhile (· ≠ assign) ++ x :: tl ∧ (x = assign ∨ x = 0) ∧
      ∀ c ∈ text.takeWhile (· ≠ assign), c ≠ assign ∧ c ≠ 0
  | [], _ => ⟨0, [], by simp, Or.inr rfl, by simp⟩
  | c :: cs, h0 => by
    simp at h0
    by_cases hc : c = assign
    · exact ⟨assign, cs ++ [0], by simp [hc], Or.inl rfl, by simp [hc]⟩
    · obtain ⟨x, tl, h1, h2, h3⟩ := text_decomp assign cs h0.2
      refine ⟨x, tl, by simp [hc, h1], h2, ?_⟩
      intro d hd
      simp [hc] at hd
      rcases hd with rfl | hd
      · exact ⟨hc, fun e => h0.1 e.symm⟩
      · exact h3 d (by simpa using hd)

/-- `mpt_path_set` with any assign character followed by `mpt_path_next` until the path is used up visits exactly
    the separator-delimited components of the text in front of the first assign character -/
theorem elems_pathSet_assign (sep assign : Byte) (hs : sep ≠ 0) (hsa : sep ≠ assign) (text : List Byte)
    (h0 : (0 : Byte) ∉ text) :
    elems (pathSet sep assign text).1 (text.length + 2) = .ok (splitPath sep assign text) := by
  obtain ⟨x, tl, hdec, hx, hall⟩ := text_decomp assign text h0
  simp only [splitPath]
  generalize ht : text.takeWhile (· ≠ assign) = t at hdec hall ⊢
  have htlen : t.length ≤ text.length := by
    have := congrArg List.length hdec
    simp at this; omega
  obtain ⟨h1, h2, h3, h4⟩ := setScanG_first sep assign hs hsa t x tl 0 0 hall hx
  simp only [Nat.zero_add] at h1
  have hbase : (pathSet sep assign text).1.base = [] ++ t ++ x :: tl := by simp [pathSet, hdec]
  have hlen : (pathSet sep assign text).1.len = t.length + 1 := by simp [pathSet, hdec, h1, h2]
  by_cases hsep : sep ∈ t
  · obtain ⟨a, rest, hta, hna⟩ := exists_first_sep sep t hsep
    have hf := h4 a rest hta hna
    simp only [Nat.zero_add] at hf
    by_cases hbig : a.length = 0 ∨ a.length > 255
    · refine elems_first0G sep t.length t [] (x :: tl) _ _ (Nat.le_refl _) (by omega) (by simp) hbase (by simp [pathSet])
        hlen ?_ (by simp [pathSet]) (by simp [pathSet])
      simp only [pathSet, hdec, hf]
      rcases hbig with h | h
      · simp [h]
      · simp [h]
    · have ha : 0 < a.length ∧ a.length ≤ 255 := by omega
      have hfirst : (pathSet sep assign text).1.first = a.length := by
        simp only [pathSet, hdec, hf]
        have : ¬ a.length > 255 := by omega
        simp [this]
      have hnext : pathNext (pathSet sep assign text).1 =
          .ok ({ (pathSet sep assign text).1 with first := 0, off := a.length + 1, len := t.length + 1 - (a.length + 1) }, a.length) := by
        have hne : ¬ a.length = 0 := by omega
        have hle : ¬ (a.length + 1 > t.length + 1) := by rw [hta]; simp
        simp only [pathNext, hlen, hfirst]
        simp [pathSet, hne, hle]
      have hq := elems_first0G sep rest.length rest (a ++ [sep]) (x :: tl)
        { (pathSet sep assign text).1 with first := 0, off := a.length + 1, len := t.length + 1 - (a.length + 1) } (text.length + 1)
        (Nat.le_refl _) (by rw [hta] at htlen; simp at htlen; omega) (by simp) (by simp [pathSet, hdec, hta]) (by simp)
        (by rw [hta]; simp) rfl (by simp [pathSet]) (by simp [pathSet])
      rw [show text.length + 2 = (text.length + 1) + 1 from rfl, elems]
      have hl0 : ¬ (pathSet sep assign text).1.len = 0 := by rw [hlen]; omega
      simp only [hl0, ↓reduceIte, hnext]
      rw [hq]
      have hsp : splitOn sep t = a :: splitOn sep rest := by rw [hta]; exact splitOn_append_sep sep a rest hna
      rw [hsp]
      simp [pathSet, hdec, hta]
  · refine elems_first0G sep t.length t [] (x :: tl) _ _ (Nat.le_refl _) (by omega) (by simp) hbase (by simp [pathSet])
      hlen ?_ (by simp [pathSet]) (by simp [pathSet])
    simp [pathSet, hdec, h3 hsep]


end Mpt.Config
