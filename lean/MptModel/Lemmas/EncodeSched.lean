/-
  The caller loop `encodeSched` for the four COBS framings under arbitrary growth schedules: it never
  stores outside the window, never leaves the modelled states, and finishes as soon as the space granted in
  total suffices (core Lean only).
-/
import MptModel.Lemmas.EncodeZpe
namespace Mpt.Codec
open Mpt.Cobs

/-- a successful data call opens a block and needs at most two bytes per consumed byte (plus the first code
    byte of the message) -/
theorem encode_push_tight (v : Variant) (st : EncState) (win pre : List Byte) (ms : List (Byte × Bool)) (bytes : List Byte)
    (o : EncOut) (h : EncInvM v st win pre ms) (he : encode (.cobs v) st win (some bytes) = .ok o) :
    1 ≤ o.st.scratch ∧
    o.st.done + o.st.scratch + 2 * (bytes.length - o.ret) ≤ st.done + max st.scratch 1 + 2 * bytes.length := by
  rw [encode_some] at he
  obtain ⟨fin, run, h1, h2, h3, h4⟩ := h
  have hm := v.maxlen_cases
  have hsc : st.scratch % 256 = st.scratch := by
    rcases h3 with ⟨a, _⟩ | ⟨a, _⟩ <;> omega
  have hdl : st.done + st.scratch ≤ win.length := by
    rcases h3 with ⟨a, _, _, _, _, f⟩ | ⟨_, _, c⟩ <;> omega
  unfold encodeCobs at he
  simp only [hsc] at he
  rw [if_neg (by omega), if_neg (by omega)] at he
  by_cases hb : bytes.length = 0
  · rw [if_pos hb] at he; simp at he
  rw [if_neg hb] at he
  by_cases hg1 : st.scratch ≠ 0 ∧ win.length - st.done - st.scratch = 0
  · rw [if_pos hg1] at he; simp at he
  rw [if_neg hg1] at he
  by_cases hg2 : st.scratch = 0 ∧ win.length - st.done ≤ 1
  · rw [if_pos hg2] at he; simp at he
  rw [if_neg hg2] at he
  have hloop : ∃ ph code, code = (if st.scratch ≠ 0 then st.scratch else 1) ∧ code = run.length + 1 ∧
      win.take (st.done + code) = (pre ++ fin) ++ ph :: run ∧ st.done + code < win.length := by
    rcases h3 with ⟨a, b, c, d, e, f⟩ | ⟨a, b, c⟩
    · obtain ⟨ph, hph⟩ := take_succ_ex win st.done (by omega)
      refine ⟨ph, 1, by simp [a], by simp [b], ?_, by omega⟩
      rw [hph, e, b, c]; simp
    · refine ⟨codeOf run, st.scratch, by simp; omega, a, by rw [b], by omega⟩
  obtain ⟨ph, code, hc1, hc2, hc3, hc4⟩ := hloop
  obtain ⟨lo, ho, hp1, hp2, hp3, hp3b, hp3c, fin', run', hp4, hp5, hp6, hp7, hp8, hp9⟩ :=
    encLoopM_spec v bytes.length bytes rfl win (st.done + code) code (pre ++ fin) ph run hc3 hc2 hc4 h2
  rw [← hc1, ho] at he
  simp only [CRes.bind_ok, CRes.pure_eq, CRes.ok.injEq] at he
  subst he
  have hcode : code = max st.scratch 1 := by rw [hc1]; split <;> omega
  simp only
  constructor
  · omega
  · omega

/-- the caller loop never stores outside the window and never leaves the modelled states, whatever the
    pieces and the growth schedule -/
theorem sched_safeM (v : Variant) (fill : Byte) (fuel : Nat) :
    ∀ (st : EncState) (win : List Byte) (chunks : List (List Byte)) (caps : List Nat) (pre : List Byte)
      (ms : List (Byte × Bool)), EncInvM v st win pre ms →
      encodeSched (.cobs v) fill fuel st win chunks caps ≠ .oob ∧
      encodeSched (.cobs v) fill fuel st win chunks caps ≠ .unmodelled ∧
      ∀ e, encodeSched (.cobs v) fill fuel st win chunks caps = .err e → e = .MissingBuffer ∨ e = .BadValue := by
  induction fuel with
  | zero => intro st win chunks caps pre ms _; simp [encodeSched]
  | succ f ih =>
    intro st win chunks caps pre ms hinv
    cases chunks with
    | nil =>
      simp only [encodeSched]
      rcases encode_termM v st win pre ms hinv with ⟨he, _⟩ | ⟨o', he, _⟩
      · rw [he]
        simp only [if_true]
        cases caps with
        | nil => simp
        | cons k caps => exact ih _ _ _ _ _ _ (hinv.grow _)
      · rw [he]; simp
    | cons ch rest =>
      simp only [encodeSched]
      rcases encode_pushM v st win pre ms ch hinv with ⟨_, he⟩ | ⟨he, _⟩ | ⟨o', he, _, _, _, _, _, hinv'⟩
      · rw [he]; simp
      · rw [he]
        simp only [if_true]
        cases caps with
        | nil => simp
        | cons k caps => exact ih _ _ _ _ _ _ (hinv.grow _)
      · rw [he]
        simp only
        by_cases hall : o'.ret = ch.length
        · rw [if_pos hall]; exact ih _ _ _ _ _ _ hinv'
        · rw [if_neg hall]
          cases caps with
          | nil => simp
          | cons k caps => exact ih _ _ _ _ _ _ (hinv'.grow _)

/-- total correctness under an arbitrary growth schedule, all framings: if the space granted in total (the
    start window and all portions of `caps`, of whatever size, zero included) reaches two bytes per message
    byte plus three, the loop finishes with a frame -/
theorem sched_total_capsM (v : Variant) (fill : Byte) (fuel : Nat) :
    ∀ (st : EncState) (win : List Byte) (chunks : List (List Byte)) (caps : List Nat) (pre : List Byte)
      (ms : List (Byte × Bool)), EncInvM v st win pre ms → (∀ c ∈ chunks, c ≠ []) →
      chunks.length + caps.length + 1 ≤ fuel →
      st.done + max st.scratch 1 + 2 * chunks.flatten.length + 2 ≤ win.length + caps.sum →
      ∃ o, encodeSched (.cobs v) fill fuel st win chunks caps = .ok o := by
  induction fuel with
  | zero => intro st win chunks caps pre ms _ _ hf _; omega
  | succ f ih =>
    intro st win chunks caps pre ms hinv hne hf hsp
    cases chunks with
    | nil =>
      simp only [encodeSched]
      rcases encode_termM v st win pre ms hinv with ⟨he, hl⟩ | ⟨o', he, _⟩
      · rw [he]
        simp only [if_true]
        cases caps with
        | nil => simp at hsp; omega
        | cons k caps =>
          refine ih _ _ _ _ _ _ (hinv.grow _) hne (by simp at hf ⊢; omega) ?_
          simp only [List.sum_cons, List.length_append, List.length_replicate] at hsp ⊢; omega
      · rw [he]; exact ⟨o', rfl⟩
    | cons ch rest =>
      simp only [encodeSched]
      have hchne : ch ≠ [] := hne ch (by simp)
      simp only [List.flatten_cons, List.length_append, List.length_cons] at hsp hf
      rcases encode_pushM v st win pre ms ch hinv with ⟨hnil, _⟩ | ⟨he, hl⟩ | ⟨o', he, hlen, hr, hall, _, _, hinv'⟩
      · exact absurd hnil hchne
      · rw [he]
        simp only [if_true]
        cases caps with
        | nil => simp at hsp; omega
        | cons k caps =>
          refine ih _ _ _ _ _ _ (hinv.grow _) hne (by simp at hf ⊢; omega) ?_
          simp only [List.sum_cons, List.length_append, List.length_replicate, List.flatten_cons] at hsp ⊢; omega
      · obtain ⟨hs1, htight⟩ := encode_push_tight v st win pre ms ch o' hinv he
        rw [he]
        simp only
        have hmax : max o'.st.scratch 1 = o'.st.scratch := by omega
        by_cases hfull : o'.ret = ch.length
        · rw [if_pos hfull]
          refine ih _ _ _ _ _ _ hinv' (fun c hc => hne c (by simp [hc])) (by omega) ?_
          rw [hmax, hlen]; rw [hfull] at htight; omega
        · rw [if_neg hfull]
          cases caps with
          | nil =>
            simp at hsp
            exact absurd (hall (by omega)) hfull
          | cons k caps =>
            have hdl : (ch.drop o'.ret).length = ch.length - o'.ret := by simp
            refine ih _ _ _ _ _ _ (hinv'.grow _) ?_ (by simp at hf ⊢; omega) ?_
            · intro c hc
              rcases List.mem_cons.mp hc with h | h
              · subst h; intro h0; have := congrArg List.length h0; simp at this; omega
              · exact hne c (by simp [h])
            · simp only [List.sum_cons, List.length_append, List.length_replicate, List.flatten_cons, hdl] at hsp ⊢
              rw [hmax, hlen]; omega

end Mpt.Codec
