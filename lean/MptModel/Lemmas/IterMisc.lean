/-
  Helper lemmas for C19 (core Lean only): range generator from an argument text, skip / unsigned consume on a
  generator, key and word reads of the text argument iterator, the array fillers.
-/
import MptModel.Lemmas.IterProto
namespace Mpt.Iter
open Mpt.IterSpec

/-- **range generator from an argument text** `a c b c' s`: the same generator as `range(a b : s)` -/
theorem rangeFromIter_text (sep ta tb ts : List Char) (c1 c2 : Char) (va vb vs : Rat)
    (ha : strictNumber ta = some va) (hb : strictNumber tb = some vb) (hs : strictNumber ts = some vs)
    (h1 : SepChar c1) (h2 : SepChar c2) :
    (rangeFromIter (.str (StrIt.create (some (ta ++ c1 :: (tb ++ c2 :: ts))) (some sep)))).2
      = (if ¬ (0 < vs) ∨ (vb - va) * (1 + rangeTol) < vs ∨ vs < (vb - va) * (1 / 1000000) then none
         else some (.linear va vs (wrap32 (rangeSteps va vb vs + 1)) 0)) := by
  have hcreate : StrIt.create (some (ta ++ c1 :: (tb ++ c2 :: ts))) (some sep)
      = atPos sep ([] ++ (ta ++ c1 :: (tb ++ c2 :: ts))) ([] : List Char).length := rfl
  rw [hcreate]
  unfold rangeFromIter
  simp only [rangeSet]
  rw [consumeD_mid sep [] ta c1 _ va ha h1 (strict_noLead tb _ vb hb)]
  simp only []
  rw [consumeD_mid sep ([] ++ ta ++ [c1]) tb c2 ts vb hb h2 (by have := strict_noLead ts [] vs hs; simpa using this)]
  simp only []
  rw [consumeD_last sep (([] ++ ta ++ [c1]) ++ tb ++ [c2]) ts vs hs]

/-- `mpt_iterator_consume(it, 0, 0)` on a generator: the current element is skipped; past the end an error -/
theorem skip_gen (g : Gen) (h : g.WF) :
    (∀ v t, g.rem = v :: t → ∃ g', (Src.gen g).skip = (.gen g', none) ∧ g'.rem = t ∧ g'.WF) ∧
    (g.rem = [] → ∃ g' e, (Src.gen g).skip = (.gen g', some e) ∧ g'.rem = []) := by
  obtain ⟨_, b, c⟩ := value_sim g h
  obtain ⟨d1, d2, d3⟩ := advance_sim g.value.1 c
  constructor
  · intro v t he
    have hb : g.value.1.abs = { all := g.all, rem := v :: t } := by rw [b]; simp [Gen.abs, he]
    rw [hb] at d1 d2
    simp only [Cur.advance] at d1 d2
    simp only [Src.skip]
    cases hr : g.value.1.advance with
    | mk g2 res =>
      rw [hr] at d1 d2 d3; simp only [] at d1 d2 d3
      have hrem : g2.rem = t := congrArg Cur.rem d1
      cases res with
      | err e => simp only [advClass] at d2; split at d2 <;> cases d2
      | more => exact ⟨g2, rfl, hrem, d3⟩
      | last => exact ⟨g2, rfl, hrem, d3⟩
  · intro he
    have hb : g.value.1.abs = { all := g.all, rem := [] } := by rw [b]; simp [Gen.abs, he]
    rw [hb] at d1 d2
    simp only [Cur.advance] at d1 d2
    simp only [Src.skip]
    cases hr : g.value.1.advance with
    | mk g2 res =>
      rw [hr] at d1 d2; simp only [] at d1 d2
      have hrem : g2.rem = [] := congrArg Cur.rem d1
      cases res with
      | err e => exact ⟨g2, e, rfl, hrem⟩
      | more => simp [advClass] at d2
      | last => simp [advClass] at d2

/-- `mpt_iterator_consume(it, 'u', …)` on a generator of `double` values: no conversion, nothing is consumed -/
theorem consumeU_gen (g : Gen) (h : g.WF) :
    ∃ g', (Src.gen g).consumeU.1 = .gen g' ∧ g'.abs = g.abs ∧ g'.WF ∧
      (Src.gen g).consumeU.2 = .err (if g.rem = [] then .MissingData else .BadType) := by
  obtain ⟨a, b, c⟩ := value_sim g h
  simp only [Src.consumeU]
  cases hq : g.value with
  | mk g1 r =>
    rw [hq] at a b c; simp only [] at a b c
    cases r with
    | none =>
      have : g.rem = [] := by
        have : g.abs.value = none := a.symm
        simp only [Gen.abs, Cur.value] at this
        cases hr : g.rem with
        | nil => rfl
        | cons _ _ => rw [hr] at this; simp at this
      exact ⟨g1, rfl, b, c, by simp [this]⟩
    | some v =>
      have : g.rem ≠ [] := by
        intro he
        have : g.abs.value = some v := a.symm
        simp [Gen.abs, Cur.value, he] at this
      exact ⟨g1, rfl, b, c, by simp [this]⟩

/-! ### key and word reads of a text argument -/

theorem keyBody_word (sep : List Char) (se : Bool) (w rest : List Char) (e len : Nat)
    (hw : ∀ x ∈ w, isSpace x = false ∧ sep.contains x = false) :
    StrIt.keyBody sep se (w ++ rest) e len =
      if w = [] then StrIt.keyBody sep se rest e len
      else StrIt.keyBody sep se rest (e + w.length) (e + w.length) := by
  induction w generalizing e len with
  | nil => simp
  | cons x xs ih =>
    obtain ⟨h1, h2⟩ := hw x (by simp)
    simp only [List.cons_append, StrIt.keyBody, h1, Bool.false_eq_true, ↓reduceIte, h2]
    rw [ih (e + 1) (e + 1) (fun y hy => hw y (by simp [hy]))]
    by_cases hx : xs = []
    · subst hx; simp
    · simp only [hx, ↓reduceIte, List.length_cons, reduceCtorEq]
      have : e + 1 + xs.length = e + (xs.length + 1) := by omega
      rw [this]

theorem spaceLen_head (c : Char) (t : List Char) (h : isSpace c = false) : StrIt.spaceLen (c :: t) = 0 := by
  simp [StrIt.spaceLen, h]

/-- a word: not empty, without white space and separator characters -/
def KeyWord (sep w : List Char) : Prop := w ≠ [] ∧ ∀ x ∈ w, isSpace x = false ∧ sep.contains x = false

theorem keyScan_mid (sep w : List Char) (c : Char) (rest : List Char) (hw : KeyWord sep w)
    (hc : sep.contains c = true) (hcs : isSpace c = false) :
    StrIt.keyScan sep (w ++ c :: rest) = some (0, w.length) := by
  obtain ⟨hne, hall⟩ := hw
  have hsep : sep.isEmpty = false := by cases sep with | nil => simp at hc | cons _ _ => rfl
  cases w with
  | nil => exact absurd rfl hne
  | cons x xs =>
    have hx := (hall x (by simp)).1
    unfold StrIt.keyScan
    simp only [List.cons_append, spaceLen_head x _ hx, List.drop_zero, hsep, Bool.false_eq_true, ↓reduceIte]
    have := keyBody_word sep (sep.any isSpace) (x :: xs) (c :: rest) 0 0 hall
    simp only [List.cons_append] at this
    rw [this]
    simp only [reduceCtorEq, ↓reduceIte, StrIt.keyBody, hcs, Bool.false_eq_true, hc, Nat.zero_add]

theorem keyScan_last (sep w : List Char) (hw : KeyWord sep w) (hsep : sep.isEmpty = false) :
    StrIt.keyScan sep w = some (0, w.length) := by
  obtain ⟨hne, hall⟩ := hw
  cases w with
  | nil => exact absurd rfl hne
  | cons x xs =>
    have hx := (hall x (by simp)).1
    unfold StrIt.keyScan
    simp only [spaceLen_head x _ hx, List.drop_zero, hsep, Bool.false_eq_true, ↓reduceIte]
    have := keyBody_word sep (sep.any isSpace) (x :: xs) [] 0 0 hall
    simp only [List.append_nil] at this
    rw [this]
    simp [StrIt.keyBody]

/-- a key read in the middle of the text: the word, the element ends behind it -/
theorem key_mid (sep pre w : List Char) (c : Char) (rest : List Char) (hw : KeyWord sep w)
    (hc : sep.contains c = true) (hcs : isSpace c = false) :
    (atPos sep (pre ++ (w ++ c :: rest)) pre.length).key =
      ({ atPos sep (pre ++ (w ++ c :: rest)) pre.length with restore := some (pre.length + w.length), patched := true },
        .ok w) := by
  have he : (w ++ c :: rest).isEmpty = false := by cases w <;> rfl
  unfold StrIt.key atPos
  simp only [List.drop_left, he, Bool.false_eq_true, ↓reduceIte, keyScan_mid sep w c rest hw hc hcs, Nat.add_zero,
    List.drop_zero, List.take_left']
  rw [if_neg (by simp)]

/-- the last key -/
theorem key_last (sep pre w : List Char) (hw : KeyWord sep w) (hsep : sep.isEmpty = false) :
    (atPos sep (pre ++ w) pre.length).key = (atPos sep (pre ++ w) pre.length, .ok w) := by
  have he : w.isEmpty = false := by cases w with | nil => exact absurd rfl hw.1 | cons _ _ => rfl
  unfold StrIt.key atPos
  simp only [List.drop_left, he, Bool.false_eq_true, ↓reduceIte, keyScan_last sep w hw hsep, Nat.add_zero,
    List.drop_zero, List.take_length]
  rw [if_pos (by simp)]

/-- the documented loop reading keys -/
def keyWalk : Nat → StrIt → List (List Char)
  | 0, _ => []
  | fuel + 1, it =>
    if !it.hasValue then []
    else match it.key with
      | (it1, .ok v) =>
        match it1.advance with
        | (it2, .more) => v :: keyWalk fuel it2
        | (_, _) => [v]
      | (_, _) => []

theorem keyJoin_noLead (sep : List Char) (pairs : List (List Char × Char)) (last : List Char)
    (hp : ∀ p ∈ pairs, KeyWord sep p.1) (hl : KeyWord sep last) : NoLeadSpace (sepJoin pairs last) := by
  have key : ∀ (w rest : List Char), KeyWord sep w → NoLeadSpace (w ++ rest) := by
    intro w rest hw
    cases w with
    | nil => exact absurd rfl hw.1
    | cons x xs => exact ⟨x, xs ++ rest, rfl, (hw.2 x (by simp)).1⟩
  cases pairs with
  | nil => simpa [sepJoin] using key last [] hl
  | cons p more =>
    obtain ⟨w, c⟩ := p
    exact key w _ (hp (w, c) (by simp))

theorem keyWalk_from (sep : List Char) (pairs : List (List Char × Char)) (last : List Char)
    (hp : ∀ p ∈ pairs, KeyWord sep p.1 ∧ sep.contains p.2 = true ∧ isSpace p.2 = false)
    (hl : KeyWord sep last) (hsep : sep.isEmpty = false) (pre : List Char) (fuel : Nat) (hf : pairs.length < fuel) :
    keyWalk fuel (atPos sep (pre ++ sepJoin pairs last) pre.length) = pairs.map (·.1) ++ [last] := by
  induction pairs generalizing pre fuel with
  | nil =>
    obtain ⟨f, rfl⟩ : ∃ f, fuel = f + 1 := ⟨fuel - 1, by omega⟩
    have hlt : pre.length < (pre ++ last).length := by
      have : 0 < last.length := by cases last with | nil => exact absurd rfl hl.1 | cons _ _ => simp
      simp; omega
    simp only [sepJoin]
    rw [keyWalk]
    have hv1 : (atPos sep (pre ++ last) pre.length).hasValue = true := rfl
    rw [hv1]
    simp only [Bool.not_true, Bool.false_eq_true, ↓reduceIte]
    rw [key_last sep pre last hl hsep]
    simp only []
    rw [advance_last sep _ _ hlt]
    rfl
  | cons p more ih =>
    obtain ⟨w, c⟩ := p
    obtain ⟨f, rfl⟩ : ∃ f, fuel = f + 1 := ⟨fuel - 1, by omega⟩
    obtain ⟨hw, hc, hcs⟩ := hp (w, c) (by simp)
    have hrec := ih (fun q hq => hp q (by simp [hq])) (pre ++ w ++ [c]) f (by simp at hf; omega)
    have hlt : pre.length < (pre ++ (w ++ c :: sepJoin more last)).length := by simp; omega
    simp only [sepJoin]
    rw [keyWalk]
    have hv1 : (atPos sep (pre ++ (w ++ c :: sepJoin more last)) pre.length).hasValue = true := rfl
    rw [hv1]
    simp only [Bool.not_true, Bool.false_eq_true, ↓reduceIte]
    rw [key_mid sep pre w c _ hw hc hcs]
    simp only []
    have hnl : NoLeadSpace ((pre ++ (w ++ c :: sepJoin more last)).drop (pre.length + w.length + 1)) := by
      have e : pre ++ (w ++ c :: sepJoin more last) = (pre ++ w ++ [c]) ++ sepJoin more last := by simp
      have l : pre.length + w.length + 1 = (pre ++ w ++ [c]).length := by simp; omega
      rw [e, l, List.drop_left]
      exact keyJoin_noLead sep more last (fun q hq => (hp q (by simp [hq])).1) hl
    rw [advance_mid sep _ _ _ hlt hnl]
    simp only []
    have htxt : pre ++ (w ++ c :: sepJoin more last) = (pre ++ w ++ [c]) ++ sepJoin more last := by simp
    have hpos : pre.length + w.length + 1 = (pre ++ w ++ [c]).length := by simp; omega
    rw [htxt, hpos, hrec]
    rfl

theorem wordLen_word (w rest : List Char) (hw : ∀ x ∈ w, isSpace x = false) :
    StrIt.wordLen (w ++ ' ' :: rest) = w.length := by
  induction w with
  | nil => simp [StrIt.wordLen, isSpace]
  | cons x xs ih =>
    simp only [List.cons_append, StrIt.wordLen, hw x (by simp), Bool.false_eq_true, ↓reduceIte, List.length_cons]
    rw [ih (fun y hy => hw y (by simp [hy]))]

/-- a word read (`char` vector): the word up to the next white space, the element ends behind it -/
theorem word_mid (sep pre w rest : List Char) (hne : w ≠ []) (hw : ∀ x ∈ w, isSpace x = false) :
    (atPos sep (pre ++ (w ++ ' ' :: rest)) pre.length).word =
      ({ atPos sep (pre ++ (w ++ ' ' :: rest)) pre.length with restore := some (pre.length + w.length), patched := true },
        .ok w) := by
  have he : (w ++ ' ' :: rest).isEmpty = false := by cases w <;> rfl
  have hsl : StrIt.spaceLen (w ++ ' ' :: rest) = 0 := by
    cases w with
    | nil => exact absurd rfl hne
    | cons x xs => exact spaceLen_head x _ (hw x (by simp))
  unfold StrIt.word atPos
  simp only [List.drop_left, he, Bool.false_eq_true, ↓reduceIte, hsl, List.drop_zero, wordLen_word w rest hw,
    Nat.zero_add, List.take_left']
  rw [if_neg (by simp)]

/-! ### array fillers -/

theorem getD_map_range (f : Nat → Rat) (n k : Nat) (hk : k < n) : ((List.range n).map f).getD k 0 = f k := by
  simp [List.getD_eq_getElem?_getD, List.getElem?_range hk]

theorem linear_last (mn mx : Rat) (len : Nat) (h : 1 ≤ len) :
    mn + ((len : Nat) : Rat) * ((mx - mn) / ((len : Nat) : Rat)) = mx := by
  have hne : ((len : Nat) : Rat) ≠ 0 := by
    intro hc
    have : ((len : Nat) : Rat) = ((0 : Nat) : Rat) := by simpa using hc
    have := Rat.natCast_inj.1 this
    omega
  rw [Rat.div_def, Rat.mul_comm (mx - mn), ← Rat.mul_assoc, Rat.mul_inv_cancel _ hne, Rat.one_mul]
  grind

/-- **`mpt_values_linear`** with at least two points and a stride of at least 1: slot `i·ld` holds the
    `i`-th value of the linear sequence from `min` to `max`, every other slot is left alone (zero here) -/
theorem valuesLinear_spec (points ld : Nat) (mn mx : Rat) (size : Nat) (hp : 2 ≤ points) (hl : 1 ≤ ld)
    (k : Nat) (hk : k < size) :
    (valuesLinear points ld mn mx size).getD k 0 =
      if k % ld = 0 ∧ k / ld < points then (IterSpec.linear (points - 1) mn mx).nth (k / ld) else 0 := by
  unfold valuesLinear
  rw [if_neg (by omega)]
  simp only []
  rw [getD_map_range _ _ _ hk]
  have hdm := Nat.div_add_mod k ld
  by_cases h1 : k = (points - 1) * ld
  · rw [if_pos h1]
    have hm : k % ld = 0 := by rw [h1]; exact Nat.mul_mod_left _ _
    have hd : k / ld = points - 1 := by rw [h1]; exact Nat.mul_div_cancel _ (by omega)
    rw [if_pos ⟨hm, by omega⟩, hd]
    simp only [IterSpec.linear]
    exact (linear_last mn mx (points - 1) (by omega)).symm
  · rw [if_neg h1]
    by_cases h2 : ld ≠ 0 ∧ k % ld = 0 ∧ 0 < k / ld ∧ k / ld < points - 1
    · rw [if_pos h2, if_pos ⟨h2.2.1, by omega⟩]
      simp only [IterSpec.linear]
    · rw [if_neg h2]
      by_cases h3 : k = 0
      · subst h3
        simp only [↓reduceIte, Nat.zero_mod, Nat.zero_div, true_and]
        rw [if_pos (by omega)]
        simp only [IterSpec.linear]
        grind
      · rw [if_neg h3, if_neg]
        intro ⟨hm, hd⟩
        rw [hm, Nat.add_zero] at hdm
        generalize k / ld = q at hdm hd h2
        by_cases hq : q = 0
        · rw [hq, Nat.mul_zero] at hdm; omega
        · have : q = points - 1 := by
            apply Classical.byContradiction
            intro hc
            exact h2 ⟨by omega, hm, by omega, by omega⟩
          rw [this, Nat.mul_comm] at hdm
          exact h1 hdm.symm

/-- **`mpt_values_bound`** with at least two points and a stride of at least 1: `left`, `cont` …, `right` -/
theorem valuesBound_spec (points ld : Nat) (l c r : Rat) (size : Nat) (hp : 2 ≤ points) (hl : 1 ≤ ld)
    (k : Nat) (hk : k < size) :
    (valuesBound points ld l c r size).getD k 0 =
      if k % ld = 0 ∧ k / ld < points then (IterSpec.boundary points l c r).nth (k / ld) else 0 := by
  unfold valuesBound
  rw [if_neg (by omega), if_neg (by omega)]
  simp only []
  rw [getD_map_range _ _ _ hk]
  have hdm := Nat.div_add_mod k ld
  by_cases h1 : k = ld * (points - 1)
  · rw [if_pos h1]
    have hm : k % ld = 0 := by rw [h1]; exact Nat.mul_mod_right _ _
    have hd : k / ld = points - 1 := by rw [h1]; exact Nat.mul_div_cancel_left _ (by omega)
    rw [if_pos ⟨hm, by omega⟩, hd]
    simp only [IterSpec.boundary]
    rw [if_neg (by omega), if_neg (by omega)]
  · rw [if_neg h1]
    by_cases h2 : ld ≠ 0 ∧ k % ld = 0 ∧ 0 < k / ld ∧ k / ld < points - 1
    · rw [if_pos h2, if_pos ⟨h2.2.1, by omega⟩]
      simp only [IterSpec.boundary]
      rw [if_neg (by omega), if_pos (by omega)]
    · rw [if_neg h2]
      by_cases h3 : k = 0
      · subst h3
        simp only [↓reduceIte, Nat.zero_mod, Nat.zero_div, true_and]
        rw [if_pos (by omega)]
        simp [IterSpec.boundary]
      · rw [if_neg h3, if_neg]
        intro ⟨hm, hd⟩
        rw [hm, Nat.add_zero] at hdm
        generalize k / ld = q at hdm hd h2
        by_cases hq : q = 0
        · rw [hq, Nat.mul_zero] at hdm; omega
        · have : q = points - 1 := by
            apply Classical.byContradiction
            intro hc
            exact h2 ⟨by omega, hm, by omega, by omega⟩
          rw [this] at hdm
          exact h1 hdm.symm

end Mpt.Iter
