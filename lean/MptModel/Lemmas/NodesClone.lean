/-
  Locating nodes, clones: pure facts about `relabel`, and the shallow `mpt_node_clone`.
-/
import MptModel.Lemmas.NodesFree
namespace Mpt.Nodes
open Mpt Mpt.Forest

theorem find?_cons_self (i : Nat) (n : Name) (v : Val) (cs ts : Forest) :
    find? i ((.node i n v cs) :: ts) = some (.node i n v cs) := by simp [find?]

/-- every node of a forest has a sibling list: the top level or the children of its parent -/
theorem sibsAt_exists {p : Nat} : ∀ {l : Forest}, (ids l).Nodup → p ∈ ids l → ∃ L j par, SibsAt p l L j par
  | [], _, h => by simp at h
  | (.node i n v cs) :: ts, hnd, hp => by
    have hnd' := hnd
    rw [ids_cons, List.nodup_cons, List.mem_append, List.nodup_append] at hnd
    obtain ⟨hni, ndcs, ndts, disj⟩ := hnd
    by_cases hip : i = p
    · exact ⟨_, 0, none, SibsAt.top (by rw [idx?_cons]; simp [hip])⟩
    · simp at hp
      rcases hp with rfl | hp | hp
      · exact absurd rfl hip
      · obtain ⟨L, j, par, h⟩ := sibsAt_exists ndcs hp
        cases h with
        | top hj =>
          exact ⟨_, j, some i, SibsAt.kids (tq := .node i n v cs) (find?_cons_self i n v cs ts) hj⟩
        | kids hf hj =>
          rename_i q tq
          have hq := (find?_mem hf).1
          have hiq : ¬ i = q := by rintro rfl; exact hni (Or.inl hq)
          exact ⟨_, j, some q, SibsAt.kids (by simp only [find?, hiq, ↓reduceIte, hf]) hj⟩
      · obtain ⟨L, j, par, h⟩ := sibsAt_exists ndts hp
        cases h with
        | top hj =>
          exact ⟨_, j + 1, none, SibsAt.top (by rw [idx?_cons]; simp [hip, hj])⟩
        | kids hf hj =>
          rename_i q tq
          have hq := (find?_mem hf).1
          have hiq : ¬ i = q := by rintro rfl; exact hni (Or.inr hq)
          have hqcs : q ∉ ids cs := fun h => disj q h q hq rfl
          exact ⟨_, j, some q, SibsAt.kids (by simp only [find?, hiq, ↓reduceIte, find?_none hqcs, hf]) hj⟩

/-! ### pure facts about clones -/

theorem shape_relabel : ∀ (l : Forest) (k : Nat), shape (relabel l k).1 = shape l
  | [], _ => by simp [relabel, shape]
  | (.node i n v cs) :: ts, k => by
    simp only [relabel, shape]
    rw [shape_relabel cs (k + 1), shape_relabel ts _]

/-- the handles of a relabelled forest are the consecutive numbers `k, k+1, …` in pre-order -/
theorem ids_relabel : ∀ (l : Forest) (k : Nat),
    ids (relabel l k).1 = List.range' k (ids l).length ∧ (relabel l k).2 = k + (ids l).length
  | [], k => by simp [relabel]
  | (.node i n v cs) :: ts, k => by
    obtain ⟨h1, h2⟩ := ids_relabel cs (k + 1)
    obtain ⟨h3, h4⟩ := ids_relabel ts (relabel cs (k + 1)).2
    simp only [relabel, ids_cons, List.length_cons, List.length_append]
    refine ⟨?_, by rw [h4, h2]; omega⟩
    rw [h1, h3, h2]
    rw [List.range'_succ, List.range'_append_1]


/-- `mpt_node_clone(x)`: a new detached root with the name and value of `x` -/
theorem nodeClone_refines {s : Store} {tops : List Forest} {x : Nat} {xn : Node}
    (hR : Realises s tops) (hx : s.Live x xn) :
    ∃ s', s.nodeClone x = .ok (s', s.nodes.length) ∧
      Realises s' (tops ++ [[.node s.nodes.length xn.name xn.value []]]) := by
  refine ⟨{ s with nodes := s.nodes ++ [{ name := xn.name, value := xn.value }] }, ?_, ?_⟩
  · simp [Store.nodeClone, Store.get_ok hx, Store.alloc]
  · have hold : ∀ i, i < s.nodes.length →
        (s.nodes ++ [({ name := xn.name, value := xn.value } : Node)])[i]? = s.nodes[i]? := by
      intro i hi; simp [List.getElem?_append_left hi]
    have hnew : (s.nodes ++ [({ name := xn.name, value := xn.value } : Node)])[s.nodes.length]? =
        some { name := xn.name, value := xn.value } := by simp
    have hlt : ∀ l ∈ tops, ∀ i ∈ ids l, i < s.nodes.length := by
      intro l hl i hi
      obtain ⟨n, hn⟩ := Real.live (hR.real l hl).2 i hi
      exact hn.lt
    refine ⟨?_, ?_, ?_, hR.freedNodup, ?_⟩
    · intro l hl
      rw [List.mem_append] at hl
      rcases hl with hl | hl
      · have hr := hR.real l hl
        exact ⟨hr.1, Real.frame hr.2 (fun i hi => hold i (hlt l hl i hi))⟩
      · simp at hl; subst hl
        refine ⟨by simp, ?_⟩
        rw [Real_cons]
        exact ⟨by rw [hnew]; rfl, by simp, by simp⟩
    · rw [List.flatMap_append, List.nodup_append]
      refine ⟨hR.nodup, by simp, ?_⟩
      intro a ha b hb hab
      subst hab
      simp at hb
      obtain ⟨l, hl, hi⟩ := List.mem_flatMap.1 ha
      have := hlt l hl a hi
      omega
    · intro i n hn ha
      rw [List.flatMap_append, List.mem_append]
      by_cases hi : i < s.nodes.length
      · left
        exact hR.cover i n (by rw [← hold i hi]; exact hn) ha
      · right
        have : i = s.nodes.length := by
          rcases Nat.lt_or_ge i (s.nodes.length + 1) with h | h
          · omega
          · have : (s.nodes ++ [({ name := xn.name, value := xn.value } : Node)])[i]? = none := by
              apply List.getElem?_eq_none; simp; omega
            rw [this] at hn
            exact absurd hn (by simp)
        subst this
        simp
    · intro i
      rw [hR.freedIff i]
      by_cases hi : i < s.nodes.length
      · simp only [hold i hi]
      · constructor
        · rintro ⟨n, hn, _⟩
          have : s.nodes[i]? = none := List.getElem?_eq_none (by omega)
          rw [this] at hn
          exact absurd hn (by simp)
        · rintro ⟨n, hn, hd⟩
          exfalso
          rcases Nat.lt_or_ge i (s.nodes.length + 1) with h | h
          · have : i = s.nodes.length := by omega
            subst this
            rw [hnew] at hn
            have := Option.some.inj hn
            subst this
            simp at hd
          · have : (s.nodes ++ [({ name := xn.name, value := xn.value } : Node)])[i]? = none := by
              apply List.getElem?_eq_none; simp; omega
            rw [this] at hn
            exact absurd hn (by simp)

end Mpt.Nodes
