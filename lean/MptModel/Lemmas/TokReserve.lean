/-
  C05, layer 8b: `mpt_array_reserve` on heaps of managed buffers.
-/
import MptModel.Lemmas.TokOps
namespace Mpt.Heap
open Mpt

/-- outcome of the copy part of `mpt_array_reserve` into the fresh buffer (not yet referenced by a handle) -/
theorem reserveCopy_res {s : State} {x : Buf} {tx t : Traits} (xt : x.traits = some tx) (mtx : Managed tx) (mt : Managed t)
    {N : Nat} (hu : x.used = N * tx.size) (hsz : x.used ≤ x.size) (L : Nat) :
    (∃ e, reserveCopy (s.newBuf L 0 (some t)) s.bufs.length x L (some t) = .fail (s.newBuf L 0 (some t)) e) ∨
    (∃ s2 v z m cre, reserveCopy (s.newBuf L 0 (some t)) s.bufs.length x L (some t) = .ok s2 v ∧
       Frame (s.newBuf L 0 (some t)) s2 s.bufs.length ∧ s2.buf? s.bufs.length = some z ∧
       z.ref = 1 ∧ z.traits = some t ∧ GoodBuf z ∧ s2.next = s.next + m ∧ s2.log = s.log ++ cre ∧ Creates x.toks s.next cre m ∧
       (s2.next ≤ tokLimit → z.toks = seqFrom s.next m)) := by
  have hz : (s.newBuf L 0 (some t)).buf? s.bufs.length = some (State.fresh L 0 (some t)) := by
    rw [State.buf?_newBuf]; simp
  unfold reserveCopy
  split
  · rename_i cond
    obtain ⟨te, _, _⟩ := cond
    have e : tx = t := by rw [xt] at te; cases te; rfl
    subst e
    have h4 := mt.2.2
    have sz0 : tx.size ≠ 0 := by omega
    have szp : 0 < tx.size := by omega
    have m0 : x.used % esize x.traits = 0 := by rw [xt, hu]; exact Nat.mul_mod_left _ _
    rw [m0, Nat.sub_zero]
    have bl : (x.data.take (min x.used L)).length = min x.used L := by
      rw [List.length_take]; simp only [Buf.size] at hsz; omega
    have srcs : true = true → ∀ j, j < (x.data.take (min x.used L)).length / tx.size → slot (x.data.take (min x.used L)) tx.size j ∈ x.toks := by
      intro _ j hj
      rw [bl] at hj
      have h1 : (j + 1) * tx.size ≤ min x.used L := (Nat.le_div_iff_mul_le szp).mp hj
      rw [slot_take x.data tx.size _ j h4 h1, toks_of_used xt mt hu, mem_slotsFrom]
      refine ⟨j, by omega, ?_, by simp⟩
      have : (j + 1) * tx.size ≤ N * tx.size := by rw [← hu]; omega
      have := Nat.le_of_mul_le_mul_right this szp
      omega
    rcases bufferSet_managed hz rfl mt (n := 0) (by simp [State.fresh]) (by simp [State.fresh]) 0 (x.data.take (min x.used L)) true x.toks srcs with
      ⟨e, he⟩ | ⟨p, k, m, fatal, s3, z, v, ep, ek, qfit, he, sd⟩ | ⟨p, m, s3, z, ep, lt, _⟩
    · exact Or.inl ⟨e, he⟩
    · right
      have p0 : p = 0 := by
        rcases Nat.mul_eq_zero.mp ep.symm with h | h
        · exact h
        · omega
      subst p0
      have zu : z.used = m * tx.size := by
        rw [sd.used]
        cases fatal with
        | true => simp
        | false => simp only [Bool.false_eq_true, if_false]; rw [sd.nfat rfl]; simp
      have zfit : m * tx.size ≤ z.size := by
        simp only [Buf.size, sd.len]
        have : m * tx.size ≤ (0 + k) * tx.size := Nat.mul_le_mul_right _ (by have := sd.mle; omega)
        simp only [Buf.size] at qfit; omega
      obtain ⟨cre, crc, lg⟩ := sd.log
      refine ⟨s3, v, z, m, cre, he, sd.frame, sd.buf, by rw [sd.ref]; rfl, sd.traits.trans rfl,
        goodBuf_of (sd.traits.trans rfl) mt zu zfit, by rw [sd.next]; show s.next + _ = _; omega, ?_,
        (by have c2 : Creates x.toks s.next cre (0 - 0 + m) := crc
            simpa using c2), ?_⟩
      · have z1 : min 0 (0 + k) - 0 = 0 := by omega
        have z2 : 0 - (0 + k) = 0 := by omega
        rw [lg, z1, z2]
        show s.log ++ _ ++ _ ++ _ = _
        cases fatal <;> simp [slotsFrom]
      · intro small
        rw [toks_of_used (sd.traits.trans rfl) mt zu]
        apply slotsFrom_eq_seqFrom
        intro j h1 h2
        rw [sd.new small j h1 h2]
        show s.next + _ + _ = _
        omega
    · exfalso
      rcases Nat.mul_eq_zero.mp ep.symm with h | h <;> omega
  · right
    refine ⟨_, 0, State.fresh L 0 (some t), 0, [], rfl, Frame.refl _ _, hz, rfl, rfl,
      goodBuf_of (n := 0) rfl mt (by simp [State.fresh]) (by simp), rfl, by show s.log = _; simp, Creates.nil _, ?_⟩
    intro _
    rw [fresh_toks _ _ t mt]; rfl


/-- shared / immutable / empty branch of `mpt_array_reserve`: a fresh buffer gets copies of the elements, the
    handle's reference to the old buffer is dropped (the last one destroys its elements) -/
theorem reserveNew_ok {amb : List Nat} {s : State} (gs : GoodS amb s) {h : Nat} (hlt : h < s.hs.length) (t : Traits) (mt : Managed t)
    (L : Nat) : OpOK amb s (reserveNew s h (s.handle h) L (some t)) := by
  have hnb : s.buf? s.bufs.length = none := State.buf?_ge_length s _ (Nat.le_refl _)
  have h4 := mt.2.2
  have sz0 : t.size ≠ 0 := by omega
  unfold reserveNew
  cases hh : s.handle h with
  | none =>
    simp only
    exact (attach_managed_step gs hlt hh L 0 t mt).1
  | some b =>
    simp only
    obtain ⟨x, hb⟩ := gs.inv.live h b hh
    rw [hb]
    simp only
    obtain ⟨tx, N, xt, mtx, hu, hsz⟩ := (gs.inv.good b x hb).elems
    have blt := State.buf?_lt hb
    have nbne : s.bufs.length ≠ b := by omega
    have bne : ¬ b = s.bufs.length := fun e => nbne e.symm
    have r := gs.inv.ref b x hb
    have ez : ¬ esize x.traits = 0 := by rw [xt]; have := mtx.2.2; simp only [esize]; omega
    rw [if_neg ez]
    have hz1 : (s.newBuf L 0 (some t)).buf? s.bufs.length = some (State.fresh L 0 (some t)) := by
      rw [State.buf?_newBuf]; simp
    rcases reserveCopy_res (s := s) xt mtx mt hu hsz L with ⟨e, he⟩ | ⟨s2, v, z, m, cre, he, fr, hz, zr, zt, zg, hnx, hlog, crc, ztoks⟩
    · -- the copy was refused: the new buffer is released again
      rw [he]
      simp only
      obtain ⟨s4, hu4, hn4, ho4, hh4, nx4, _, lg4⟩ := unref_last_managed (s := s.newBuf L 0 (some t)) hz1 rfl (t := t) rfl mt.2.1 sz0 (by simp [State.fresh])
      rw [hu4]
      simp only
      refine step_of_same gs ?_ (by rw [hh4]; rfl) (by rw [lg4, fresh_toks _ _ t mt]; show s.log ++ _ = _; simp) (by rw [nx4]; rfl)
      intro c
      by_cases e2 : c = s.bufs.length
      · rw [e2, hn4, hnb]
      · rw [ho4 c e2, State.buf?_newBuf]; simp [e2]
    · rw [he]
      simp only
      have hb2 : s2.buf? b = some x := by rw [fr.other b bne, State.buf?_newBuf]; simp [bne, hb]
      have hs2 : s2.hs = s.hs := by rw [fr.hs]; rfl
      have l2 : s2.bufs.length = s.bufs.length + 1 := by rw [fr.len]; simp
      have oth2 : ∀ c, c ≠ s.bufs.length → s2.buf? c = s.buf? c := by
        intro c ne; rw [fr.other c ne, State.buf?_newBuf]; simp [ne]
      by_cases r1 : x.ref = 1
      · -- the only reference: the old elements are destroyed after the copy
        obtain ⟨s3, hu3, hn3, ho3, hh3, nx3, _, lg3⟩ := unref_last_managed hb2 r1 xt mtx.2.1 (by have := mtx.2.2; omega) hsz
        rw [hu3]
        simp only
        have hbuf' : ∀ c, (s3.setHandle h (some s.bufs.length)).buf? c =
            if c = s.bufs.length then some z else
              if s.handle h = some c then
                (match s.buf? c with
                 | some x => if x.ref = 1 then none else some { x with ref := x.ref - 1 }
                 | none => none)
              else s.buf? c := by
          intro c
          rw [State.buf?_setHandle, hh]
          by_cases e1 : c = s.bufs.length
          · rw [e1, ho3 _ nbne, hz]; simp
          · simp only [e1, if_false]
            by_cases e2 : c = b
            · rw [e2, hn3, hb]; simp [r1]
            · have : ¬ some b = some c := by intro e; cases e; exact e2 rfl
              rw [ho3 c e2, oth2 c e1]; simp [this]
        obtain ⟨inv', _⟩ := gs.inv.retarget (s' := s3.setHandle h (some s.bufs.length)) hlt hnb (by simp [hh3, hs2]) hbuf' zr zg
        have hbb : (s3.setHandle h (some s.bufs.length)).buf? b = none := by rw [hbuf' b]; simp [bne, hh, hb, r1]
        have hbn : (s3.setHandle h (some s.bufs.length)).buf? s.bufs.length = some z := by rw [hbuf']; simp
        refine step_of_pair gs hb hnb inv' (by simp [hh3, hs2]) (by show s.next ≤ s3.next; omega)
          (by
            intro c c1 c2
            have : ¬ some b = some c := by intro e; cases e; exact c1 rfl
            rw [hbuf' c, hh]; simp [c2, this]) ?_
        intro small
        have small2 : s2.next ≤ tokLimit := by rw [← nx3]; exact small
        obtain ⟨tp, am⟩ := gs.tok (by omega)
        rw [hbb, hbn]
        simp only [bufToks, List.nil_append, ztoks small2]
        have nd := tp.nodup b x hb
        have old := tp.fresh b x hb
        refine ⟨Delta.mk [] x.toks cre m x.toks (by show s3.next = _; rw [nx3, hnx]) (by show s3.log = _; rw [lg3, hlog]; simp) crc
          List.nodup_nil (fun t ht => by cases ht)
          (fun k hk => ⟨Or.inr ((mem_stored_split hb k).mpr (Or.inl hk)), by simp⟩) nd (fun t ht => Or.inl ⟨ht, by simp⟩)
          (seqFrom_nodup _ _) ?_⟩
        intro k
        rw [mem_seqFrom]
        constructor
        · intro hk
          refine ⟨Or.inr (by omega), fun hx => ?_⟩
          have := old k hx
          omega
        · rintro ⟨(⟨hx, _⟩ | hk), nx⟩
          · exact absurd hx nx
          · omega
      · -- other handles keep the old buffer
        unfold unref
        rw [hb2]
        have r0 : ¬ x.ref = 0 := by omega
        simp only [r0, if_false, ne_eq, r1, not_false_eq_true, if_true]
        have lb2 : b < s2.bufs.length := by omega
        have hbuf' : ∀ c, ((s2.setBuf b { x with ref := x.ref - 1 }).setHandle h (some s.bufs.length)).buf? c =
            if c = s.bufs.length then some z else
              if s.handle h = some c then
                (match s.buf? c with
                 | some x => if x.ref = 1 then none else some { x with ref := x.ref - 1 }
                 | none => none)
              else s.buf? c := by
          intro c
          rw [State.buf?_setHandle, State.buf?_setBuf _ _ _ _ lb2, hh]
          by_cases e1 : c = s.bufs.length
          · rw [e1, if_neg nbne, hz]; simp
          · simp only [e1, if_false]
            by_cases e2 : c = b
            · rw [e2, hb]; simp [r1]
            · have : ¬ some b = some c := by intro e; cases e; exact e2 rfl
              rw [if_neg e2, oth2 c e1]; simp [this]
        obtain ⟨inv', _⟩ := gs.inv.retarget (s' := (s2.setBuf b { x with ref := x.ref - 1 }).setHandle h (some s.bufs.length)) hlt hnb
          (by simp [hs2]) hbuf' zr zg
        have hbb : ((s2.setBuf b { x with ref := x.ref - 1 }).setHandle h (some s.bufs.length)).buf? b = some { x with ref := x.ref - 1 } := by
          rw [hbuf' b]; simp [bne, hh, hb, r1]
        have hbn : ((s2.setBuf b { x with ref := x.ref - 1 }).setHandle h (some s.bufs.length)).buf? s.bufs.length = some z := by
          rw [hbuf']; simp
        refine step_of_pair gs hb hnb inv' (by simp [hs2]) (by show s.next ≤ s2.next; omega)
          (by
            intro c c1 c2
            have : ¬ some b = some c := by intro e; cases e; exact c1 rfl
            rw [hbuf' c, hh]; simp [c2, this]) ?_
        intro small
        have small2 : s2.next ≤ tokLimit := small
        obtain ⟨tp, am⟩ := gs.tok (by omega)
        rw [hbb, hbn]
        have xtk : ({ x with ref := x.ref - 1 } : Buf).toks = x.toks := rfl
        simp only [bufToks, xtk, ztoks small2]
        have nd := tp.nodup b x hb
        have old := tp.fresh b x hb
        refine ⟨Delta.mk [] [] cre m x.toks hnx (by show s2.log = _; rw [hlog]; simp) crc List.nodup_nil (fun t ht => by cases ht)
          (fun k hk => ⟨Or.inr ((mem_stored_split hb k).mpr (Or.inl hk)), by simp⟩) List.nodup_nil (fun t ht => by cases ht) ?_ ?_⟩
        · rw [List.nodup_append]
          refine ⟨nd, seqFrom_nodup _ _, fun a ha c hc e => ?_⟩
          subst e
          have := old a ha
          have := mem_seqFrom.mp hc
          omega
        · intro t
          rw [List.mem_append, mem_seqFrom]
          simp


/-- incompatible content of a private buffer is destroyed by `mpt_array_reserve` before the type is replaced -/
theorem reserveClear_step {amb : List Nat} {s : State} {b : Nat} {x : Buf} {tx : Traits} (gs : GoodS amb s) (hb : s.buf? b = some x)
    (xt : x.traits = some tx) (t : Traits) :
    match reserveClear s b x (some t) with
    | .fault _ => False
    | .fail _ _ => False
    | .ok s1 _ => Step amb s s1 ∧ Frame s s1 b ∧ ∃ x1, s1.buf? b = some x1 ∧ x1.traits = some tx ∧
        (x1.used = 0 ∨ tx = t ∨ tx.size = t.size) := by
  obtain ⟨tx', N, xt', mtx, hu, hsz⟩ := (gs.inv.good b x hb).elems
  have e : tx' = tx := by rw [xt] at xt'; cases xt'; rfl
  subst e
  have h4 := mtx.2.2
  have sz0 : tx'.size ≠ 0 := by omega
  unfold reserveClear
  by_cases cond : x.traits ≠ some t ∧ (x.traits.isNone = true ∨ (x.traits.bind (·.fini)).isNone = true ∨ (some t).isNone = true
      ∨ x.traits.bind (·.fini) ≠ (some t).bind (·.fini) ∨ esize x.traits ≠ esize (some t))
  · rw [if_pos cond]
    unfold reserveFini
    simp only [xt, mtx.2.1, if_true, if_neg sz0]
    have cnt : (x.used - x.used % tx'.size) / tx'.size = N := by
      rw [hu, Nat.mul_mod_left, Nat.sub_zero, mul_div_self N _ sz0]
    rw [cnt]
    obtain ⟨s1, d', h1, ob, lg, hb1, dl, _⟩ := finiLoop_slots N s b 0 tx'.size x hb h4 (by rw [Nat.zero_add, ← hu]; exact hsz)
    rw [Nat.zero_mul] at h1
    rw [h1]
    simp only [hb1]
    have blt1 := State.buf?_lt hb1
    have fr : Frame s (s1.setBuf b { x with data := d', used := 0 }) b :=
      ⟨by simp [ob.hs], by show s1.wins = _; exact ob.wins, by simp [ob.len], fun c ne => by
        rw [State.buf?_setBuf _ _ _ _ blt1, if_neg ne]; exact ob.other c ne⟩
    have hb' : (s1.setBuf b { x with data := d', used := 0 }).buf? b = some { x with data := d', used := 0 } := by
      rw [State.buf?_setBuf _ _ _ _ blt1, if_pos rfl]
    refine ⟨?_, fr, _, hb', xt, Or.inl rfl⟩
    have tk' : ({ x with data := d', used := 0 } : Buf).toks = [] := by
      rw [toks_of_used (x := { x with data := d', used := 0 }) (n := 0) xt mtx (by simp)]; rfl
    refine step_of_frame gs hb fr hb' rfl (goodBuf_of (n := 0) xt mtx (by simp) (by simp)) (by show s.next ≤ s1.next; rw [ob.next]; exact Nat.le_refl _) ?_
    intro small
    have tp := (gs.tok (by have : s1.next ≤ tokLimit := small; rw [ob.next] at this; exact this)).1
    have nd := tp.nodup b x hb
    rw [tk']
    refine ⟨Delta.mk x.toks [] [] 0 [] (by show s1.next = _; rw [ob.next]; rfl)
      (by show s1.log = _; rw [lg, toks_of_used xt mtx hu]; simp) (Creates.nil _) nd (fun t ht => ht)
      (fun k hk => by cases hk) List.nodup_nil (fun t ht => by cases ht) List.nodup_nil ?_⟩
    intro k
    constructor
    · intro h; cases h
    · rintro ⟨(⟨h1, h2⟩ | h), _⟩
      · exact absurd h1 h2
      · omega
  · rw [if_neg cond]
    refine ⟨Step.refl gs, Frame.refl s b, x, hb, xt, Or.inr ?_⟩
    by_cases e1 : tx' = t
    · exact Or.inl e1
    · right
      simp only [ne_eq, xt, Option.isNone_some, Option.bind_some, Bool.false_eq_true, false_or, esize] at cond
      apply Decidable.byContradiction
      intro nf
      exact cond ⟨fun e => by cases e; exact e1 rfl, Or.inr (Or.inr nf)⟩

theorem Frame.ofSetBuf {s : State} {b : Nat} (blt : b < s.bufs.length) (y : Buf) : Frame s (s.setBuf b y) b :=
  ⟨rfl, rfl, by simp, fun c ne => by rw [State.buf?_setBuf _ _ _ _ blt, if_neg ne]⟩

/-- the element type of a buffer is replaced by a compatible one (no elements, or the same element size) -/
theorem retype_step {amb : List Nat} {s : State} {nb : Nat} {z : Buf} {tx t : Traits} (gs : GoodS amb s) (hz : s.buf? nb = some z)
    (zt : z.traits = some tx) (mt : Managed t) (ok : z.used = 0 ∨ tx.size = t.size) :
    Step amb s (s.setBuf nb { z with traits := some t }) := by
  obtain ⟨tx', N, zt', mtx, hu, hsz⟩ := (gs.inv.good nb z hz).elems
  have e : tx' = tx := by rw [zt] at zt'; cases zt'; rfl
  subst e
  have blt := State.buf?_lt hz
  have hb' : (s.setBuf nb { z with traits := some t }).buf? nb = some { z with traits := some t } := by
    rw [State.buf?_setBuf _ _ _ _ blt, if_pos rfl]
  have both : ∃ M, z.used = M * t.size ∧ ({ z with traits := some t } : Buf).toks = z.toks := by
    rcases ok with u0 | se
    · refine ⟨0, by rw [u0]; simp, ?_⟩
      have n0 : N = 0 := by
        rw [u0] at hu
        rcases Nat.mul_eq_zero.mp hu.symm with h | h
        · exact h
        · have := mtx.2.2; omega
      rw [toks_of_used (x := { z with traits := some t }) (n := 0) rfl mt (by rw [u0]; simp), toks_of_used zt mtx hu, n0]
      rfl
    · refine ⟨N, by rw [← se]; exact hu, ?_⟩
      rw [toks_of_used (x := { z with traits := some t }) (n := N) rfl mt (by rw [← se]; exact hu), toks_of_used zt mtx hu, se]
  obtain ⟨M, hM, tk⟩ := both
  refine step_of_frame gs hz (Frame.ofSetBuf blt _) hb' rfl (goodBuf_of (n := M) rfl mt hM (by rw [← hM]; exact hsz)) (Nat.le_refl _) ?_
  intro small
  have tp := (gs.tok small).1
  have nd := tp.nodup nb z hz
  rw [tk]
  refine ⟨Delta.mk [] [] [] 0 [] rfl (by show s.log = _; simp) (Creates.nil _) List.nodup_nil (fun t ht => by cases ht)
    (fun k hk => by cases hk) List.nodup_nil (fun t ht => by cases ht) nd ?_⟩
  intro k
  constructor
  · intro h; exact ⟨Or.inl ⟨h, by simp⟩, by simp⟩
  · rintro ⟨(⟨h1, _⟩ | h), _⟩
    · exact h1
    · omega

/-- private, mutable branch of `mpt_array_reserve` -/
theorem reserveKeep_ok {amb : List Nat} {s : State} (gs : GoodS amb s) {h b : Nat} {x : Buf} {tx : Traits} (hh : s.handle h = some b)
    (hb : s.buf? b = some x) (xt : x.traits = some tx) (t : Traits) (mt : Managed t) (L : Nat) :
    OpOK amb s (reserveKeep s h b x L (some t)) := by
  unfold reserveKeep
  have rc := reserveClear_step gs hb xt t
  generalize reserveClear s b x (some t) = r at rc
  cases r with
  | fault w => exact rc
  | fail s1 e => exact rc.elim
  | ok s1 u =>
    obtain ⟨st1, fr1, x1, hb1, x1t, alt⟩ := rc
    simp only
    have es := ensure_step st1.good ((fr1.handle h).trans hh) hb1 x1t true L
    generalize ensure s1 h b true L = r at es
    cases r with
    | fault w => exact es
    | fail s2 e => exact st1.trans es
    | ok s2 nb =>
      obtain ⟨st2, _, z, hz, zt, zu⟩ := es
      simp only [hz]
      refine st1.trans (st2.trans (retype_step st2.good hz zt mt ?_))
      rcases alt with u0 | e | e
      · left; omega
      · right; rw [e]
      · right; exact e

/-- `mpt_array_reserve` with managed element traits (a differently typed private buffer keeps its data only when the
    types share destructor and element size) -/
theorem reserve_ok {amb : List Nat} {s : State} (gs : GoodS amb s) {h : Nat} (hlt : h < s.hs.length) (len : Nat) (t : Traits) (mt : Managed t) :
    OpOK amb s (arrayReserve s h len (some t)) := by
  have h4 := mt.2.2
  have sz0 : ¬ esize (some t) = 0 := by simp only [esize]; omega
  unfold arrayReserve
  rw [if_neg sz0]
  cases hh : s.handle h with
  | none =>
    simp only
    have := reserveNew_ok gs hlt t mt (roundUp len (esize (some t)))
    rw [hh] at this
    exact this
  | some b =>
    simp only
    obtain ⟨x, hb⟩ := gs.inv.live h b hh
    rw [hb]
    simp only
    split
    · split
      · exact OpOK.fail_same gs _
      · have := reserveNew_ok gs hlt t mt (reserveLen x (roundUp len (esize (some t))) (some t))
        rw [hh] at this
        exact this
    · obtain ⟨tx, _, xt, _, _, _⟩ := (gs.inv.good b x hb).elems
      exact reserveKeep_ok gs hh hb xt t mt _

end Mpt.Heap
