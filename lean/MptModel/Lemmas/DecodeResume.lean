/-
  Lemmas for C03 (core Lean only): what every exit of the decoder block loop leaves behind so that a later
  call with more input continues the same machine run (`Susp`), and the resulting honesty of the decoder over
  arbitrary arrival of the input in pieces.
-/
import MptModel.Lemmas.Decode
namespace Mpt.Codec
open Mpt.Cobs

/-- the zero loop in both outcomes: `j` zeros were appended -/
theorem putZeros_gen (k : Nat) : ∀ (l : Loc) (r : Nat), r = l.r + 1 → r ≤ l.store.length →
    ∃ j, j ≤ k ∧ ((putZeros k l r).2 = true → j = k) ∧ ((putZeros k l r).2 = false → j < k) ∧
      (putZeros k l r).1.done = l.done ∧ (putZeros k l r).1.mlen = l.mlen + j ∧
      (putZeros k l r).1.proc + j = l.proc ∧ (putZeros k l r).1.code = l.code ∧
      (putZeros k l r).1.pos = l.pos + j ∧
      (putZeros k l r).1.store.length = l.store.length ∧
      (putZeros k l r).1.store.drop l.r = l.store.drop l.r ∧
      (putZeros k l r).1.acc = l.acc ++ List.replicate j 0 := by
  induction k with
  | zero => intro l r _ _; exact ⟨0, by simp [putZeros]⟩
  | succ k ih =>
    intro l r hr hrl
    unfold putZeros
    by_cases hp : l.proc = 0
    · rw [if_pos hp]; exact ⟨0, by simp⟩
    · rw [if_neg hp]
      have hw : l.w < r := by simp only [Loc.w, Loc.r] at *; omega
      rw [Loc.put_some l r 0 hw hrl]
      simp only
      obtain ⟨j, h0, h1, h2, h3, h4, h5, h6, h7, h8, h9, h10⟩ :=
        ih { l with store := l.store.set l.w 0, mlen := l.mlen + 1, writes := l.writes ++ [(l.w, r)], proc := l.proc - 1, pos := l.pos + 1 } r
          (by simp only [Loc.r] at *; omega) (by simpa using hrl)
      dsimp only at h3 h4 h5 h6 h7 h8
      refine ⟨j + 1, by omega, fun h => by have := h1 h; omega, fun h => by have := h2 h; omega, h3, ?_, ?_, h6, ?_, ?_, ?_, ?_⟩
      · rw [h4]; omega
      · omega
      · rw [h7]; omega
      · rw [h8]; simp
      · simp only [Loc.r, Loc.w] at h9 hw ⊢
        have e : l.done + (l.mlen + 1) + (l.proc - 1) = l.done + l.mlen + l.proc := by omega
        rw [e] at h9
        rw [h9, drop_set_lt _ _ _ _ (by omega)]
      · rw [h10]
        simp only [Loc.acc, Loc.w]
        have hwl : l.done + l.mlen < l.store.length := by simp only [Loc.r, Loc.w] at *; omega
        rw [region_snoc _ _ _ _ hwl]
        simp [List.replicate_succ]


/-- facts about every exit of the block loop needed to resume with more input -/
structure Susp (v : Variant) (st : DecState) (l : Loc) (inp : List Byte) (o : DecOut) : Prop where
  len : o.store.length = l.store.length
  curr : l.r ≤ o.st.curr ∧ o.st.curr ≤ l.r + inp.length
  unread : o.store.drop o.st.curr = l.store.drop o.st.curr
  sv : o.ret ≠ .val 1 → ∃ out c p,
    o.st = { st with ctx := p * 256 + c, curr := o.st.curr, len := l.mlen + out.length } ∧
    0 < c ∧ c < 256 ∧ p < 256 ∧
    (o.store.drop l.done).take (l.mlen + out.length) = l.acc ++ out ∧
    ∀ more, mach v l.code l.pos (inp ++ more) = (mach v c p (inp.drop (o.st.curr - l.r) ++ more)).pre out

/-- a "save state and return" exit at the current read position -/
theorem Susp.ofSave {v : Variant} {st : DecState} {l lx : Loc} {inp : List Byte} (out : List Byte) (ret : DecRet)
    (hdone : lx.done = l.done) (hmlen : lx.mlen = l.mlen + out.length) (hr : lx.r = l.r)
    (hcode : lx.code = l.code) (hc0 : 0 < l.code) (hc : l.code < 256) (hp : lx.pos < 256)
    (hlen : lx.store.length = l.store.length) (hdrop : lx.store.drop l.r = l.store.drop l.r)
    (hacc : lx.acc = l.acc ++ out)
    (hm : ∀ more, mach v l.code l.pos (inp ++ more) = (mach v l.code lx.pos (inp ++ more)).pre out) :
    Susp v st l inp (lx.save st ret) := by
  refine ⟨hlen, by simp [Loc.save, hr], by simp [Loc.save, hr, hdrop], fun _ => ⟨out, l.code, lx.pos, ?_, hc0, hc, hp, ?_, ?_⟩⟩
  · simp [Loc.save, hcode, hmlen]
  · simp only [Loc.save]
    simp only [Loc.acc] at hacc
    rw [← hdone, ← hmlen]; exact hacc
  · intro more
    simp only [Loc.save, hr, Nat.sub_self, List.drop_zero]
    exact hm more

theorem drop_ge_of_drop {s t : List Byte} {i j : Nat} (h : s.drop i = t.drop i) (hij : i ≤ j) : s.drop j = t.drop j := by
  have := congrArg (List.drop (j - i)) h
  simpa [List.drop_drop, Nat.add_sub_cancel' hij, Nat.sub_add_cancel hij] using this

/-- transfer over one consumed byte `b` that appended `xs` -/
theorem Susp.step {v : Variant} {st : DecState} {l l2 : Loc} {inp2 : List Byte} {o : DecOut} (b : Byte) (xs : List Byte)
    (h : Susp v st l2 inp2 o) (hr : l2.r = l.r + 1) (hlen : l2.store.length = l.store.length)
    (hdrop : l2.store.drop (l.r + 1) = l.store.drop (l.r + 1)) (hdone : l2.done = l.done)
    (hmlen : l2.mlen = l.mlen + xs.length) (hacc : l2.acc = l.acc ++ xs)
    (hm : ∀ tl, mach v l.code l.pos (b :: tl) = (mach v l2.code l2.pos tl).pre xs) :
    Susp v st l (b :: inp2) o := by
  obtain ⟨h1, h2, h3, h4⟩ := h
  refine ⟨by rw [h1, hlen], by simp only [List.length_cons]; omega, ?_, ?_⟩
  · rw [h3]; exact drop_ge_of_drop hdrop (by omega)
  · intro hne
    obtain ⟨out, c, p, e1, e2, e3, e4, e5, e6⟩ := h4 hne
    refine ⟨xs ++ out, c, p, ?_, e2, e3, e4, ?_, ?_⟩
    · rw [e1]; simp [hmlen]; omega
    · rw [hdone, hmlen, hacc] at e5
      simpa [Nat.add_assoc] using e5
    · intro more
      have : o.st.curr - l.r = (o.st.curr - l2.r) + 1 := by omega
      rw [this]
      simp only [List.cons_append, List.drop_succ_cons]
      rw [hm, e6, MRes.pre_pre]


theorem Susp.step' {v : Variant} {st : DecState} {l l2 : Loc} {o : DecOut} (b : Byte) (xs : List Byte)
    (h : Susp v st l2 (l2.store.drop l2.r) o) (hr : l2.r = l.r + 1) (hlen : l2.store.length = l.store.length)
    (hdrop : l2.store.drop (l.r + 1) = l.store.drop (l.r + 1)) (hdone : l2.done = l.done)
    (hmlen : l2.mlen = l.mlen + xs.length) (hacc : l2.acc = l.acc ++ xs)
    (hm : ∀ tl, mach v l.code l.pos (b :: tl) = (mach v l2.code l2.pos tl).pre xs) :
    Susp v st l (b :: l.store.drop (l.r + 1)) o := by
  rw [hr, hdrop] at h
  exact Susp.step b xs h hr hlen hdrop hdone hmlen hacc hm

theorem lenData_lt (v : Variant) (c : Nat) (h : c < 256) : lenData v c < 255 := by
  unfold lenData
  have := v.maxlen_cases
  split
  · split <;> omega
  · omega

theorem lenDZ_lt (v : Variant) (c n : Nat) (h : c < 256) : lenData v c + lenZero v c n < 256 := by
  unfold lenData lenZero
  cases hz : v.isZpe
  · have := v.nozpe_maxlen hz
    simp only [Bool.false_eq_true, false_and, if_false]
    split <;> omega
  · have := v.zpe_maxlen hz
    simp only [if_true, true_and]
    split <;> split <;> (try split) <;> omega

/-- a resumed zero run: `j` of the zeros after the block were written in an earlier call -/
theorem mach_zero_split (v : Variant) (code pos j : Nat) (b : Byte) (tl : List Byte) (hd : ¬ pos < lenData v code)
    (hj : j ≤ lenData v code + lenZero v code b.toNat - pos) :
    mach v code pos (b :: tl) = (mach v code (pos + j) (b :: tl)).pre (List.replicate j 0) := by
  have hd2 : ¬ pos + j < lenData v code := by omega
  simp only [mach, hd, hd2, if_false]
  by_cases hb : b = 0
  · subst hb
    simp only [if_true, MRes.pre, UInt8.toNat_zero] at hj ⊢
    rw [List.replicate_append_replicate]; congr 2; omega
  · simp only [hb, if_false]
    rw [MRes.pre_pre, List.replicate_append_replicate]; congr 2; omega

theorem decLoop_susp (v : Variant) (st : DecState) (n : Nat) : ∀ (l : Loc),
    l.r + n = l.store.length → 0 < l.code → l.code < 256 → l.pos < 256 →
    Susp v st l (l.store.drop l.r) (decLoop v st false n l) := by
  induction n with
  | zero =>
    intro l _ hc0 hc hp
    simp only [decLoop]
    exact Susp.ofSave [] _ rfl rfl rfl rfl hc0 hc hp rfl rfl (by simp [Loc.acc]) (by intro m; rw [MRes.pre_nil])
  | succ n ih =>
    intro l hn hc0 hc hp
    have hlt : l.r < l.store.length := by omega
    have hb : l.store[l.r]? = some l.store[l.r] := by simp [hlt]
    have hinp : l.store.drop l.r = l.store[l.r] :: l.store.drop (l.r + 1) := by
      rw [List.drop_eq_getElem_cons hlt]
    generalize l.store[l.r] = b at hb hinp
    unfold decLoop
    rw [hinp]
    by_cases hd : l.pos < lenData v l.code
    · simp only [hd, if_true, hb]
      by_cases hz : b = 0
      · simp only [hz, if_true]
        exact Susp.ofSave [] _ rfl rfl rfl rfl hc0 hc hp rfl rfl (by simp [Loc.acc]) (by intro m; rw [MRes.pre_nil])
      simp only [hz, if_false]
      by_cases hpr : l.proc = 0
      · rw [if_pos hpr]
        exact Susp.ofSave [] _ rfl rfl rfl rfl hc0 hc hp rfl rfl (by simp [Loc.acc]) (by intro m; rw [MRes.pre_nil])
      rw [if_neg hpr]
      have hw : l.w < l.r + 1 := by simp only [Loc.w, Loc.r]; omega
      rw [Loc.put_some { l with reads := l.reads ++ [l.r] } (l.r + 1) b hw (by simp; omega)]
      simp only
      have hwl : l.done + l.mlen < l.store.length := by simp only [Loc.r] at hlt; omega
      have hld := lenData_lt v l.code hc
      refine Susp.step' b [b] (ih _ ?_ hc0 hc ?_) ?_ ?_ ?_ rfl rfl ?_ ?_
      · simp only [Loc.r, Loc.w, List.length_set] at *; omega
      · show l.pos + 1 < 256; omega
      · simp only [Loc.r]; omega
      · simp
      · exact drop_set_lt _ _ _ _ hw
      · simp only [Loc.acc, Loc.w]; exact region_snoc _ _ _ _ hwl
      · intro tl; simp [mach, hd, hz]
    · simp only [hd, if_false, Bool.false_eq_true, hb]
      obtain ⟨j, g0, g1, g2, g3, g4, g5, g6, g7, g8, g9, g10⟩ :=
        putZeros_gen (lenData v l.code + lenZero v l.code b.toNat - l.pos) { l with reads := l.reads ++ [l.r] } (l.r + 1) rfl
          (by simp only [Loc.r] at hlt ⊢; omega)
      generalize hq : putZeros (lenData v l.code + lenZero v l.code b.toNat - l.pos) { l with reads := l.reads ++ [l.r] } (l.r + 1) = q at g1 g2 g3 g4 g5 g6 g7 g8 g9 g10
      obtain ⟨l', ok⟩ := q
      dsimp only at g1 g2 g3 g4 g5 g6 g7 g8 g9 g10
      have hdz := lenDZ_lt v l.code b.toNat hc
      have g3' : l'.done = l.done := g3
      have g4' : l'.mlen = l.mlen + j := g4
      have g5' : l'.proc + j = l.proc := g5
      have g7' : l'.pos = l.pos + j := g7
      have g9' : l'.store.drop l.r = l.store.drop l.r := g9
      have hr' : l'.r = l.r := by simp only [Loc.r]; omega
      cases ok
      · -- no remaining target space
        have hj := g2 rfl
        refine Susp.ofSave (List.replicate j 0) _ g3 (by simpa using g4) hr' g6 hc0 hc (by omega) g8 g9' (by simpa [Loc.acc] using g10) ?_
        intro more
        rw [g7']
        simp only [List.cons_append]
        exact mach_zero_split v l.code l.pos j b _ hd (by omega)
      · have hj := g1 rfl
        subst hj
        show Susp v st l _ (if b = 0 then _ else _)
        have hdrop1 : l'.store.drop (l.r + 1) = l.store.drop (l.r + 1) := drop_ge_of_drop g9' (by omega)
        by_cases hn0 : b = 0
        · subst hn0
          simp only [if_true]
          refine ⟨g8, ?_, ?_, by simp⟩
          · simp only [Loc.r, List.length_cons] at *; omega
          · have : l'.done + l'.mlen + (l'.proc + 1) = l.r + 1 := by simp only [Loc.r] at *; omega
            simp only [Loc.r, this]; exact hdrop1
        · simp only [hn0, if_false]
          have hbn : 0 < b.toNat := Nat.pos_of_ne_zero ((toNat_ne_zero b).mpr hn0)
          refine Susp.step' b (List.replicate (lenData v l.code + lenZero v l.code b.toNat - l.pos) 0)
            (ih _ ?_ hbn (UInt8.toNat_lt b) ?_) ?_ g8 hdrop1 g3 (by simpa using g4) (by simpa [Loc.acc] using g10) ?_
          · simp only [Loc.r] at *; omega
          · show 0 < 256; omega
          · simp only [Loc.r] at *; omega
          · intro tl; simp [mach, hd, hn0]

end Mpt.Codec
