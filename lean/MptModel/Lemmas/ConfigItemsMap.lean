/-
  The item-array store of the private C++ configuration refines the path -> value map:
  states reachable through assign/remove have no unused slots, and on those the item functions are the
  tree functions of `Impl/Config.lean` (assign = nodeAssign, query = exact lookup, remove = empty the element).
-/
import MptModel.Impl.ConfigItems
import MptModel.Lemmas.ConfigMap
namespace Mpt.Config
open Mpt Mpt.PathMap

/-- tree view of `config::root::remove`: the element at exactly this path loses value and children, keeps its place -/
def wipeC : List CNode → Key → Option (List CNode)
  | _, [] => none
  | l, e :: es =>
    match locate l e with
    | none => none
    | some i =>
      match l[i]? with
      | none => none
      | some c =>
        if es.isEmpty then some (l.set i (.mk c.name none []))
        else
          match wipeC c.kids es with
          | some ks' => some (l.set i (.mk c.name c.value ks'))
          | none => none

theorem valueAt_nil_list (k : Key) : valueAt [] k = none := by
  cases k with
  | nil => simp [valueAt, findExact]
  | cons e es => simp [valueAt, findExact, locate]

/-- after emptying an element the path and everything beneath reads absent, every other path reads as before -/
theorem valueAt_wipe : ∀ (k : Key) (l l' : List CNode), wipeC l k = some l' →
    ∀ k', valueAt l' k' = if k.isPrefixOf k' then none else valueAt l k'
  | [], _, _, h, _ => by simp [wipeC] at h
  | e :: es, l, l', h, k' => by
    simp only [wipeC] at h
    cases k' with
    | nil => simp [valueAt_nil_key, List.isPrefixOf]
    | cons e' es' =>
      cases hl : locate l e with
      | none => simp [hl] at h
      | some i =>
        obtain ⟨c, hc, hcn⟩ := locate_name hl
        simp only [hl, hc] at h
        simp only [List.isPrefixOf]
        by_cases hes : es.isEmpty
        · simp only [hes, ↓reduceIte] at h
          cases h
          have hes' : es = [] := by simpa using hes
          subst hes'
          rw [valueAt_set (c' := .mk c.name none []) hl hc rfl]
          by_cases he : e' = e
          · subst he
            by_cases hes'' : es'.isEmpty
            · simp [hes'']
            · simp [hes'', valueAt_nil_list]
          · have : (e == e') = false := by simp; exact fun h => he h.symm
            simp [he, this]
        · simp only [hes] at h
          have hne : es ≠ [] := by intro h; simp [h] at hes
          cases hk : wipeC c.kids es with
          | none => simp [hk] at h
          | some ks' =>
            simp only [hk] at h
            cases h
            rw [valueAt_set (c' := .mk c.name c.value ks') hl hc rfl]
            by_cases he : e' = e
            · subst he
              simp only [↓reduceIte, beq_self_eq_true, Bool.true_and, CNode.value_mk, CNode.kids_mk]
              by_cases hes'' : es'.isEmpty
              · have : es' = [] := by simpa using hes''
                subst this
                have hpre : es.isPrefixOf [] = false := by
                  cases es with
                  | nil => exact absurd rfl hne
                  | cons a as => rfl
                simp only [List.isEmpty_nil, ↓reduceIte, hpre, Bool.false_eq_true]
                rw [valueAt_cons_key, hl]
                simp [hc]
              · simp only [hes'', Bool.false_eq_true, ↓reduceIte]
                rw [valueAt_wipe es c.kids ks' hk es']
                rw [valueAt_cons_key (l := l), hl]
                simp [hc, hes'']
            · have : (e == e') = false := by simp; exact fun h => he h.symm
              simp [he, this]

/-- nothing to empty: no path beneath `k` holds a value -/
theorem valueAt_wipe_none : ∀ (k : Key) (l : List CNode), k ≠ [] → wipeC l k = none →
    ∀ k', k.isPrefixOf k' = true → valueAt l k' = none
  | [], _, h, _, _, _ => absurd rfl h
  | e :: es, l, _, h, k', hp => by
    cases k' with
    | nil => simp [List.isPrefixOf] at hp
    | cons e' es' =>
      simp only [List.isPrefixOf, Bool.and_eq_true, beq_iff_eq] at hp
      obtain ⟨rfl, hp'⟩ := hp
      simp only [wipeC] at h
      rw [valueAt_cons_key]
      cases hl : locate l e with
      | none => simp
      | some i =>
        obtain ⟨c, hc, _⟩ := locate_name hl
        simp only [hl, hc] at h ⊢
        by_cases hes : es.isEmpty
        · simp [hes] at h
        · simp only [hes] at h
          have hne : es ≠ [] := by intro h; simp [h] at hes
          cases hk : wipeC c.kids es with
          | some ks' => simp [hk] at h
          | none =>
            have hes' : ¬ es'.isEmpty := by
              intro h
              have : es' = [] := by simpa using h
              subst this
              cases es with
              | nil => exact hne rfl
              | cons a as => simp [List.isPrefixOf] at hp'
            simp only [hes', Bool.false_eq_true, ↓reduceIte]
            exact valueAt_wipe_none es c.kids hne hk es' hp'

/-! ### item arrays without unused slots are trees -/

/-- no slot is unused, at any depth -/
def AllUsed : List Item → Prop
  | [] => True
  | (.mk n _ ks) :: ts => n ≠ none ∧ AllUsed ks ∧ AllUsed ts

/-- the tree an item array without unused slots denotes (unused slots would be dropped) -/
def toC : List Item → List CNode
  | [] => []
  | (.mk (some n) v ks) :: ts => .mk n v (toC ks) :: toC ts
  | (.mk none _ _) :: ts => toC ts

theorem AllUsed_cons (c : Item) (ts : List Item) :
    AllUsed (c :: ts) ↔ c.name ≠ none ∧ AllUsed c.elems ∧ AllUsed ts := by
  cases c with
  | mk n v ks => simp [AllUsed, Item.name, Item.elems]

theorem toC_cons_used (n : List Byte) (v : Option (List Byte)) (ks ts : List Item) :
    toC (.mk (some n) v ks :: ts) = .mk n v (toC ks) :: toC ts := by simp [toC]

theorem iunused_none : ∀ {l : List Item}, AllUsed l → iunused l = none
  | [], _ => by simp [iunused]
  | (.mk n v ks) :: ts, h => by
    rw [AllUsed_cons] at h
    simp only [iunused, Item.name] at *
    simp [h.1, iunused_none h.2.2]

theorem ilocate_toC : ∀ {l : List Item}, AllUsed l → ∀ e, ilocate l e = locate (toC l) e
  | [], _, e => by simp [ilocate, locate, toC]
  | (.mk n v ks) :: ts, h, e => by
    rw [AllUsed_cons] at h
    cases n with
    | none => exact absurd rfl h.1
    | some nm =>
      simp only [ilocate, toC, locate, Item.name, CNode.name_mk]
      by_cases hn : nm = e
      · simp [hn]
      · simp [hn, ilocate_toC h.2.2 e]

theorem getElem?_toC : ∀ {l : List Item}, AllUsed l → ∀ i : Nat, (toC l)[i]? = (l[i]?).map fun (c : Item) =>
    CNode.mk (c.name.getD []) c.value (toC c.elems)
  | [], _, i => by simp [toC]
  | (.mk n v ks) :: ts, h, i => by
    rw [AllUsed_cons] at h
    cases n with
    | none => exact absurd rfl h.1
    | some nm =>
      cases i with
      | zero => simp [toC, Item.name, Item.value, Item.elems]
      | succ j => simpa [toC] using getElem?_toC h.2.2 j

theorem AllUsed_getElem : ∀ {l : List Item} {i : Nat} {c : Item}, AllUsed l → l[i]? = some c → c.name ≠ none ∧ AllUsed c.elems
  | [], _, _, _, h => by simp at h
  | d :: ts, 0, c, hu, h => by
    rw [AllUsed_cons] at hu
    simp at h; subst h; exact ⟨hu.1, hu.2.1⟩
  | d :: ts, j + 1, c, hu, h => by
    rw [AllUsed_cons] at hu
    exact AllUsed_getElem hu.2.2 (by simpa using h)

theorem toC_set : ∀ {l : List Item} {i : Nat} {c : Item}, AllUsed l → c.name ≠ none →
    toC (l.set i c) = (toC l).set i (.mk (c.name.getD []) c.value (toC c.elems))
  | [], _, _, _, _ => by simp [toC]
  | (.mk n v ks) :: ts, 0, c, h, hc => by
    rw [AllUsed_cons] at h
    cases n with
    | none => exact absurd rfl h.1
    | some nm =>
      cases c with
      | mk cn cv ck =>
        cases cn with
        | none => exact absurd rfl hc
        | some cnm => simp [toC, Item.name, Item.value, Item.elems]
  | (.mk n v ks) :: ts, j + 1, c, h, hc => by
    rw [AllUsed_cons] at h
    cases n with
    | none => exact absurd rfl h.1
    | some nm => simp [toC, toC_set h.2.2 hc]

theorem AllUsed_set : ∀ {l : List Item} {i : Nat} {c : Item}, AllUsed l → c.name ≠ none → AllUsed c.elems →
    AllUsed (l.set i c)
  | [], _, _, _, _, _ => by simp [AllUsed]
  | d :: ts, 0, c, h, hn, he => by
    rw [AllUsed_cons] at h
    simp only [List.set, AllUsed_cons]
    exact ⟨hn, he, h.2.2⟩
  | d :: ts, j + 1, c, h, hn, he => by
    rw [AllUsed_cons] at h
    simp only [List.set, AllUsed_cons]
    exact ⟨h.1, h.2.1, AllUsed_set h.2.2 hn he⟩

theorem toC_append : ∀ (l m : List Item), toC (l ++ m) = toC l ++ toC m
  | [], m => by simp [toC]
  | (.mk n v ks) :: ts, m => by
    cases n with
    | none => simp [toC, toC_append ts m]
    | some nm => simp [toC, toC_append ts m]

theorem AllUsed_append : ∀ {l m : List Item}, AllUsed l → AllUsed m → AllUsed (l ++ m)
  | [], m, _, hm => by simpa using hm
  | d :: ts, m, hl, hm => by
    rw [AllUsed_cons] at hl
    rw [List.cons_append, AllUsed_cons]
    exact ⟨hl.1, hl.2.1, AllUsed_append hl.2.2 hm⟩

/-- the value a query of the item store finds at exactly this path -/
def ivalueAt (l : List Item) (k : Key) : Option Value := (itemFind l k).bind Item.value

theorem ivalueAt_toC : ∀ (k : Key) (l : List Item), AllUsed l → ivalueAt l k = valueAt (toC l) k
  | [], l, _ => by simp [ivalueAt, itemFind, valueAt, findExact]
  | e :: es, l, h => by
    simp only [ivalueAt, itemFind, valueAt, findExact]
    rw [← ilocate_toC h e]
    cases hl : ilocate l e with
    | none => simp
    | some i =>
      simp only [getElem?_toC h i]
      cases hc : l[i]? with
      | none => simp
      | some c =>
        have hcu := AllUsed_getElem h hc
        simp only [Option.map_some]
        by_cases hes : es.isEmpty
        · simp [hes]
        · simp only [hes, Bool.false_eq_true, ↓reduceIte, CNode.kids_mk]
          have := ivalueAt_toC es c.elems hcu.2
          simpa [ivalueAt, valueAt] using this

theorem itemAssign_toC : ∀ (k : Key) (l l' : List Item) (v : Value), AllUsed l → itemAssign l k v = some l' →
    AllUsed l' ∧ nodeAssign (toC l) k v = some (toC l')
  | [], _, _, _, _, h => by simp [itemAssign] at h
  | e :: es, l, l', v, hu, h => by
    simp only [itemAssign] at h
    simp only [nodeAssign]
    rw [← ilocate_toC hu e]
    cases hl : ilocate l e with
    | some i =>
      simp only [hl] at h
      simp only [getElem?_toC hu i]
      cases hc : l[i]? with
      | none => simp [hc] at h
      | some c =>
        have hcu := AllUsed_getElem hu hc
        simp only [hc] at h
        simp only [Option.map_some, CNode.name_mk, CNode.kids_mk, CNode.value_mk]
        by_cases hes : es.isEmpty
        · simp only [hes, ↓reduceIte] at h ⊢
          cases h
          refine ⟨AllUsed_set hu (by simpa [Item.name] using hcu.1) (by simpa [Item.elems] using hcu.2), ?_⟩
          rw [toC_set hu (by simpa [Item.name] using hcu.1)]
          simp [Item.name, Item.value, Item.elems]
        · simp only [hes, Bool.false_eq_true, ↓reduceIte] at h ⊢
          cases hk : itemAssign c.elems es v with
          | none => simp [hk] at h
          | some k' =>
            simp only [hk] at h
            cases h
            obtain ⟨hu', hn'⟩ := itemAssign_toC es c.elems k' v hcu.2 hk
            rw [hn']
            refine ⟨AllUsed_set hu (by simpa [Item.name] using hcu.1) (by simpa [Item.elems] using hu'), ?_⟩
            rw [toC_set hu (by simpa [Item.name] using hcu.1)]
            simp [Item.name, Item.value, Item.elems]
    | none =>
      simp only [hl, iunused_none hu] at h
      by_cases hes : es.isEmpty
      · simp only [hes, ↓reduceIte] at h
        cases h
        have hes' : es = [] := by simpa using hes
        subst hes'
        refine ⟨AllUsed_append hu (by simp [AllUsed]), ?_⟩
        simp [toC_append, toC, chain]
      · simp only [hes, Bool.false_eq_true, ↓reduceIte] at h
        cases hk : itemAssign [] es v with
        | none => simp [hk] at h
        | some k' =>
          simp only [hk] at h
          cases h
          obtain ⟨hu', hn'⟩ := itemAssign_toC es [] k' v (by simp [AllUsed]) hk
          refine ⟨AllUsed_append hu (by simp [AllUsed, hu']), ?_⟩
          cases es with
          | nil => simp at hes
          | cons e2 es2 =>
            simp only [toC, nodeAssign, locate, List.nil_append] at hn'
            have hn'' : toC k' = chain (e2 :: es2) (some v) := (Option.some.inj hn').symm
            simp [toC_append, toC, chain, hn'']

theorem itemAssign_some : ∀ (k : Key) (l : List Item) (v : Value), AllUsed l → k ≠ [] → ∃ l', itemAssign l k v = some l'
  | [], _, _, _, h => absurd rfl h
  | e :: es, l, v, hu, _ => by
    simp only [itemAssign]
    cases hl : ilocate l e with
    | some i =>
      have hlt : i < (toC l).length := locate_lt (by rw [← ilocate_toC hu e]; exact hl)
      have hci := getElem?_toC hu i
      cases hc : l[i]? with
      | none =>
        rw [hc] at hci
        simp at hci
        omega
      | some c =>
        have hcu := AllUsed_getElem hu hc
        by_cases hes : es.isEmpty
        · simp [hes, hc]
        · simp only [hes]
          have : es ≠ [] := by intro h; simp [h] at hes
          obtain ⟨k', hk⟩ := itemAssign_some es c.elems v hcu.2 this
          simp [hk, hc]
    | none =>
      simp only [iunused_none hu]
      by_cases hes : es.isEmpty
      · simp [hes]
      · simp only [hes]
        have : es ≠ [] := by intro h; simp [h] at hes
        obtain ⟨k', hk⟩ := itemAssign_some es [] v (by simp [AllUsed]) this
        simp [hk]

theorem itemWipe_toC : ∀ (k : Key) (l : List Item), AllUsed l →
    (∀ l', itemWipe l k = some l' → AllUsed l' ∧ wipeC (toC l) k = some (toC l')) ∧
    (itemWipe l k = none → wipeC (toC l) k = none)
  | [], l, _ => by simp [itemWipe, wipeC]
  | e :: es, l, hu => by
    simp only [itemWipe, wipeC]
    rw [← ilocate_toC hu e]
    cases hl : ilocate l e with
    | none => simp
    | some i =>
      simp only [getElem?_toC hu i]
      cases hc : l[i]? with
      | none => simp
      | some c =>
        have hcu := AllUsed_getElem hu hc
        simp only [Option.map_some, CNode.name_mk, CNode.kids_mk, CNode.value_mk]
        by_cases hes : es.isEmpty
        · simp only [hes, ↓reduceIte]
          refine ⟨?_, by simp⟩
          intro l' h
          cases h
          refine ⟨AllUsed_set hu (by simpa [Item.name] using hcu.1) (by simp [Item.elems, AllUsed]), ?_⟩
          rw [toC_set hu (by simpa [Item.name] using hcu.1)]
          simp [Item.name, Item.value, Item.elems, toC]
        · simp only [hes, Bool.false_eq_true, ↓reduceIte]
          obtain ⟨ih1, ih2⟩ := itemWipe_toC es c.elems hcu.2
          cases hk : itemWipe c.elems es with
          | none => simp [ih2 hk]
          | some k' =>
            obtain ⟨hu', hw⟩ := ih1 k' hk
            simp only [hw]
            refine ⟨?_, by simp⟩
            intro l' h
            cases h
            refine ⟨AllUsed_set hu (by simpa [Item.name] using hcu.1) (by simpa [Item.elems] using hu'), ?_⟩
            rw [toC_set hu (by simpa [Item.name] using hcu.1)]
            simp [Item.name, Item.value, Item.elems]

/-- one step of the item store (assign / remove of `config::root`) -/
def stepI (l : List Item) : Op → List Item
  | .set k v => (itemAssign l k v).getD l
  | .del k => (itemWipe l k).getD l

theorem agreeI_foldl : ∀ (ops : List Op) (l : List Item) (m : PMap), AllUsed l → Agree (toC l) m →
    (∀ op ∈ ops, op.key ≠ []) →
    AllUsed (ops.foldl stepI l) ∧ Agree (toC (ops.foldl stepI l)) (ops.foldl stepS m)
  | [], l, m, hu, ha, _ => ⟨hu, ha⟩
  | op :: ops, l, m, hu, ha, hk => by
    have hkey := hk op (by simp)
    have hstep : AllUsed (stepI l op) ∧ Agree (toC (stepI l op)) (stepS m op) := by
      cases op with
      | set k v =>
        obtain ⟨l', hl'⟩ := itemAssign_some k l v hu hkey
        obtain ⟨hu', hn⟩ := itemAssign_toC k l l' v hu hl'
        simp only [stepI, stepS, hl', Option.getD_some]
        refine ⟨hu', fun k' hk' => ?_⟩
        rw [valueAt_assign k (toC l) (toC l') v hn k', get_set, ha k' hk']
      | del k =>
        simp only [stepI, stepS]
        obtain ⟨h1, h2⟩ := itemWipe_toC k l hu
        cases hr : itemWipe l k with
        | some l' =>
          obtain ⟨hu', hw⟩ := h1 l' hr
          simp only [Option.getD_some]
          refine ⟨hu', fun k' hk' => ?_⟩
          rw [valueAt_wipe k (toC l) (toC l') hw k', get_removePrefix, ha k' hk']
        | none =>
          simp only [Option.getD_none]
          refine ⟨hu, fun k' hk' => ?_⟩
          rw [get_removePrefix]
          by_cases hp : k.isPrefixOf k'
          · simp only [hp, ↓reduceIte]
            exact valueAt_wipe_none k (toC l) hkey (h2 hr) k' hp
          · simp only [hp, Bool.false_eq_true, ↓reduceIte]
            exact ha k' hk'
    exact agreeI_foldl ops _ _ hstep.1 hstep.2 (fun o ho => hk o (by simp [ho]))


end Mpt.Config
