import MptModel.Lemmas.DispatchText
import MptModel.Lemmas.MessageArgv
namespace Mpt.Dispatch
open Mpt

theorem isGraph_eq (c : Byte) : Flat.isGraph c = isGraph c := by
  simp [Flat.isGraph, isGraph]

theorem flat_nextChar (d : List Byte) (c : Byte) : Flat.nextChar d c = nextChar d c := by
  unfold Flat.nextChar Flat.find nextChar
  cases d.findIdx? (· == c) <;> rfl

theorem flat_trim (d : List Byte) :
    Flat.trimFlat d = (match d.findIdx? (fun c => !isSpace c) with | some p => d.drop p | none => d) := by
  unfold Flat.trimFlat Flat.find Flat.notSpace
  have : (fun c => !Flat.isSpace c) = (fun c => !isSpace c) := by
    funext c; simp [Flat.isSpace, isSpace]
  rw [this]
  cases d.findIdx? (fun c => !isSpace c) <;> rfl

theorem wsTok_contains (c : Byte) : ([9, 32, 10, 13, 11] : List Byte).contains c = isTokWs c := by
  simp only [isTokWs, List.contains, List.elem]
  rcases hc1 : (c == 9) with _ | _ <;> rcases hc2 : (c == 32) with _ | _ <;> rcases hc3 : (c == 10) with _ | _ <;>
    rcases hc4 : (c == 13) with _ | _ <;> rcases hc5 : (c == 11) with _ | _ <;> simp_all

theorem isQuote_iff (c : Byte) : isQuote c = true ↔ (c = 39 ∨ c = 34) := by
  simp [isQuote]
theorem isTokWs_iff (c : Byte) : isTokWs c = true ↔ (c = 9 ∨ c = 32 ∨ c = 10 ∨ c = 13 ∨ c = 11) := by
  simp [isTokWs, or_assoc]

theorem quote_contains (c : Byte) : ([39, 34] : List Byte).contains c = isQuote c := by
  simp only [isQuote, List.contains, List.elem]
  rcases hc1 : (c == 39) with _ | _ <;> rcases hc2 : (c == 34) with _ | _ <;> simp_all


/-- the quoting tokenizer of this model and the one of the C17 model (Spec/Flat.lean) are the same function -/
theorem tok_eq_go (d : List Byte) (pos : Nat) (q : Option Byte) (prev : Byte) (hq : ∀ c, q = some c → c ≠ 0) :
    memtokGo d pos (q.getD 0) prev =
      match Flat.scan (Flat.tokStep Flat.wsTok) ⟨q, prev, false⟩ d with
      | .found i => some (pos + i)
      | .more _ => none := by
  induction d generalizing pos q prev with
  | nil => simp [memtokGo, Flat.scan]
  | cons c rest ih =>
    unfold memtokGo Flat.scan
    cases q with
    | some qc =>
      have hne : qc ≠ 0 := hq qc rfl
      simp only [Option.getD_some, ne_eq, hne, not_false_eq_true, if_true]
      have hstep : Flat.tokStep Flat.wsTok ⟨some qc, prev, false⟩ c =
          some ⟨if (some qc == some c && prev != 92) then none else some qc, c, false⟩ := by
        simp [Flat.tokStep, Flat.wsTok]
      rw [hstep]
      simp only
      have hsw : (some qc == some c) = (c == qc) := by
        by_cases h : c = qc
        · subst h; simp
        · have h' : ¬ qc = c := fun hc => h hc.symm
          have h1 : (c == qc) = false := by simpa using h
          have h2 : (some qc == some c) = false := by simpa using h'
          rw [h1, h2]
      rw [hsw]
      by_cases hcl : (c == qc && prev != 92) = true
      · simp only [hcl, if_true]
        have := ih (pos + 1) none c (by intro x hx; cases hx)
        simp only [Option.getD_none] at this
        rw [this]
        cases Flat.scan (Flat.tokStep Flat.wsTok) ⟨none, c, false⟩ rest <;> simp <;> omega
      · have hcl' : (c == qc && prev != 92) = false := by simpa using hcl
        simp only [hcl', Bool.false_eq_true, if_false]
        have := ih (pos + 1) (some qc) c hq
        simp only [Option.getD_some] at this
        rw [this]
        cases Flat.scan (Flat.tokStep Flat.wsTok) ⟨some qc, c, false⟩ rest <;> simp <;> omega
    | none =>
      simp only [Option.getD_none, ne_eq, not_true_eq_false, if_false]
      by_cases hqt : isQuote c = true
      · have hstep : Flat.tokStep Flat.wsTok ⟨none, prev, false⟩ c = some ⟨some c, prev, false⟩ := by
          simp [Flat.tokStep, Flat.wsTok, ← isQuote_iff, hqt]
        rw [hstep]
        simp only [hqt, if_true]
        have hc0 : c ≠ 0 := by
          intro h0; subst h0; simp [isQuote] at hqt
        have := ih (pos + 1) (some c) prev (by intro x hx; cases hx; exact hc0)
        simp only [Option.getD_some] at this
        rw [this]
        cases Flat.scan (Flat.tokStep Flat.wsTok) ⟨some c, prev, false⟩ rest <;> simp <;> omega
      · have hqf : isQuote c = false := by simpa using hqt
        simp only [hqf, Bool.false_eq_true, if_false]
        by_cases hws : isTokWs c = true
        · have hstep : Flat.tokStep Flat.wsTok ⟨none, prev, false⟩ c = none := by
            simp [Flat.tokStep, Flat.wsTok, ← isQuote_iff, ← isTokWs_iff, hqf, hws]
          rw [hstep]
          simp [hws]
        · have hwf : isTokWs c = false := by simpa using hws
          have hstep : Flat.tokStep Flat.wsTok ⟨none, prev, false⟩ c = some ⟨none, c, false⟩ := by
            simp [Flat.tokStep, Flat.wsTok, ← isQuote_iff, ← isTokWs_iff, hqf, hwf]
          rw [hstep]
          simp only [hwf, Bool.false_eq_true, if_false]
          have := ih (pos + 1) none c (by intro x hx; cases hx)
          simp only [Option.getD_none] at this
          rw [this]
          cases Flat.scan (Flat.tokStep Flat.wsTok) ⟨none, c, false⟩ rest <;> simp <;> omega

theorem flat_tok (d : List Byte) : Flat.tok d Flat.wsTok = memtok d := by
  unfold Flat.tok memtok
  have := tok_eq_go d 0 none 32 (by intro c hc; cases hc)
  simp only [Option.getD_none] at this
  rw [this]
  cases Flat.scan (Flat.tokStep Flat.wsTok) {} d <;> simp

/-- the contiguous argument scan of this model is `Flat.argv` of the C17 model -/
theorem flat_argv (d : List Byte) (sep : Byte) :
    Flat.argv d sep = (messageArgv d sep).map fun p => (p.2, p.1) := by
  unfold Flat.argv messageArgv argWs
  by_cases he : d.isEmpty = true
  · simp [he]
  · simp only [he, Bool.false_eq_true, if_false]
    by_cases hs : sep = 0
    · subst hs; simp [flat_nextChar]
    · have hs' : (sep == 0) = false := by simpa using hs
      simp only [hs', hs, Bool.false_eq_true, if_false, flat_trim, isGraph_eq]
      cases hf : d.findIdx? (fun c => !isSpace c) <;>
        (simp only []; by_cases hg : isGraph sep = true
         · simp [hg, flat_nextChar]
         · have hg' : isGraph sep = false := by simpa using hg
           simp only [hg', Bool.not_false, if_true, Bool.false_eq_true, if_false, flat_tok]
           cases memtok _ <;> simp [flat_nextChar])


theorem messageArgv_bounds {d : List Byte} {sep : Byte} {base : List Byte} {len : Nat}
    (h : messageArgv d sep = some (base, len)) : len ≤ base.length ∧ base.length ≤ d.length := by
  unfold messageArgv at h
  by_cases he : d.isEmpty = true
  · simp [he] at h
  · by_cases hs : sep = 0
    · simp only [he, hs, if_true] at h
      simp only [Bool.false_eq_true, if_false, Option.some.injEq, Prod.mk.injEq] at h
      rw [← h.1, ← h.2]; exact ⟨nextChar_le _ _, Nat.le_refl _⟩
    · simp only [he, hs, if_false] at h
      simp only [Bool.false_eq_true, if_false] at h
      split at h
      · simp only [Option.some.injEq, Prod.mk.injEq] at h
        rw [← h.1, ← h.2]; refine ⟨nextChar_le _ _, ?_⟩; split <;> simp
      · simp only [Option.some.injEq, Prod.mk.injEq] at h
        rw [← h.1, ← h.2]; refine ⟨(argWs_spec _).1, ?_⟩; split <;> simp

theorem msgOf_flat (frags : List (List Byte)) : (msgOf frags).flat = frags.flatten := by
  cases frags <;> simp [Msg.flat, msgOf]

/-- the id computed from a fragmented message is the id computed from the flattened message -/
theorem hashIdFrag_flat (frags : List (List Byte)) : hashIdFrag frags = hashId frags.flatten := by
  unfold hashIdFrag
  have hflat := msgOf_flat frags
  generalize msgOf frags = m at hflat
  generalize frags.flatten = flat at hflat
  obtain ⟨hout, hrest⟩ := read_eq m 2
  have htot : (m.read 2).total = min 2 flat.length := by
    have := (readLoop_eq m.base m.cont 2 0 []).2.2
    simpa [Msg.read, Msg.flat, ← hflat] using this
  rw [hflat] at hout hrest
  simp only
  match flat, hout, hrest, htot with
  | [], _, _, htot => simp [htot, hashId]
  | [x], _, _, htot => simp [htot, hashId]
  | ty :: arg :: payload, hout, hrest, htot =>
    have h2 : ¬ (m.read 2).total < 2 := by rw [htot]; simp
    have hty : (m.read 2).out[0]?.getD 0 = ty := by rw [hout]; rfl
    have harg : (m.read 2).out[1]?.getD 0 = arg := by rw [hout]; rfl
    simp only [h2, if_false]
    generalize (m.read 2).out[0]?.getD 0 = ty' at hty
    generalize (m.read 2).out[1]?.getD 0 = arg' at harg
    subst hty harg
    generalize hsep : (if ty' = msgCommand then arg' else 0) = sep
    have hag := argv_eq (m.read 2).msg sep
    unfold argvAgrees at hag
    simp only [List.drop_succ_cons, List.drop_zero] at hrest
    unfold hashId
    simp only [hsep]
    cases hma : messageArgv payload sep with
    | none =>
      simp only [hrest, flat_argv, hma, Option.map_none] at hag
      generalize (m.read 2).msg.argv sep = res at hag
      obtain ⟨m2, r⟩ := res
      simp only at hag
      rw [hag.1]
    | some p =>
      obtain ⟨base, len⟩ := p
      simp only [hrest, flat_argv, hma, Option.map_some] at hag
      generalize (m.read 2).msg.argv sep = res at hag
      obtain ⟨m2, r⟩ := res
      simp only at hag
      obtain ⟨hr, hm2⟩ := hag
      subst hr
      simp only
      by_cases hz : len = 0
      · simp [hz]
      · simp only [hz, if_false]
        have hm2' : m2.base ++ m2.cont.flatten = base := hm2
        by_cases hc : m2.base.length ≥ len
        · simp only [hc, if_true]
          have htk : ∀ n, n ≤ len → m2.base.take n = base.take n := by
            intro n hn
            rw [← hm2', List.take_append_of_le_length (by omega)]
          have hge : m2.base[len - 1]? = base[len - 1]? := by
            rw [← hm2', List.getElem?_append_left (by omega)]
          rw [hge]
          split <;> rw [htk _ (by omega)]
        · simp only [hc, if_false]
          have hrd := (read_eq m2 len).1
          rw [hrd]
          have : m2.flat = base := hm2
          rw [this]
          rw [List.take_take]
          have hmin : ∀ n, n ≤ len → min n len = n := fun n hn => Nat.min_eq_left hn
          have hge : (base.take len)[len - 1]? = base[len - 1]? := by
            rw [List.getElem?_take]; simp; omega
          rw [hge]
          split <;> rw [hmin _ (by omega)]

/-- the id computed from a fragmented message is one of the readings the spec accepts -/
theorem hashIdFrag_cmdIds (frags : List (List Byte)) :
    (∃ v, hashIdFrag frags = .id v ∧ some v ∈ cmdIdsFrag frags) ∨ (hashIdFrag frags = .fail ∧ none ∈ cmdIdsFrag frags) := by
  unfold cmdIdsFrag
  rw [hashIdFrag_flat]
  exact hashId_cmdIds frags.flatten

end Mpt.Dispatch
