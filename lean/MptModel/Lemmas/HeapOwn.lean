/-
  C04: a handle that owns a private, mutable buffer.  In-place updates of such a buffer, and the structural
  facts about `mpt_array_slice` needed to compose it with other calls (`mpt_printf`, `mpt_slice_write`).
-/
import MptModel.Lemmas.HeapOps
namespace Mpt.Heap
open Mpt

/-- handle `h` holds buffer `nb` = `z`, which no other handle references and which may be written -/
structure Own (s : State) (h nb : Nat) (z : Buf) : Prop where
  hh : s.handle h = some nb
  hb : s.buf? nb = some z
  ref : z.ref = 1
  wr : z.immutable = false

/-- replace the owned buffer by an updated one -/
theorem Own.update {s : State} {h nb : Nat} {z : Buf} (inv : Inv s) (o : Own s h nb z) (z' : Buf) (r' : z'.ref = 1)
    (f' : z'.flags = z.flags) (u' : z'.used ≤ z'.size) (p' : PlainT z'.traits) (a' : z'.used % esize z'.traits = 0) :
    Inv (s.setBuf nb z') ∧ Own (s.setBuf nb z') h nb z' ∧ (s.setBuf nb z').abs h = z'.content ∧
      (∀ h', h' ≠ h → (s.setBuf nb z').abs h' = s.abs h') ∧ (s.setBuf nb z').hs.length = s.hs.length := by
  have pm := inv.setBuf_private o.hh o.hb o.ref z' r' u' p' a'
  have blt := State.buf?_lt o.hb
  refine ⟨pm.1, ⟨by simpa using o.hh, by rw [State.buf?_setBuf _ _ _ _ blt, if_pos rfl], r', ?_⟩, pm.2.1, pm.2.2, by simp⟩
  have := o.wr
  simp only [Buf.immutable, f'] at this ⊢
  exact this

theorem DetachPost.own {s : State} {h : Nat} {x : Buf} {n : Nat} {s2 : State} {nb : Nat} (p : DetachPost s h x n s2 nb) :
    ∃ z, Own s2 h nb z ∧ n ≤ z.size ∧ z.traits = x.traits := by
  obtain ⟨_, _, _, hh, z, hz, zr, zi, zs, zt, _⟩ := p
  exact ⟨z, ⟨hh, hz, zr, zi⟩, zs, zt⟩

theorem esize_one_mod (t : Option Traits) (h : esize t = 1) (n : Nat) : n % esize t = 0 := by rw [h]; exact Nat.mod_one n

theorem sliceBad_false (x : Buf) (h1 : esize x.traits = 1) (off len : Nat) : sliceBad x off len = false := by
  unfold sliceBad
  cases ht : x.traits with
  | none => rfl
  | some t =>
    rw [ht] at h1
    simp only [esize] at h1
    simp [h1, Nat.mod_one]

/-- `mpt_buffer_insert` on a plain buffer with room: the explicit result -/
theorem bufferInsert_plain_ok {s : State} {b : Nat} {x : Buf} (hb : s.buf? b = some x) (hp : PlainT x.traits) (pos len : Nat)
    (t0 : max x.used pos + len ≠ 0) (fit : max x.used pos + len ≤ x.size) (imm : x.immutable = false)
    (a0 : x.used % esize x.traits = 0) (a1 : pos % esize x.traits = 0) (a2 : len % esize x.traits = 0) :
    bufferInsert s b pos len = .ok (s.setBuf b (insPlain x pos len)) pos := by
  rcases bufferInsert_plain hb hp pos len with ⟨e, he⟩ | ⟨z, _⟩ | ⟨_, _, _, he⟩
  · exfalso
    unfold bufferInsert at he
    rw [hb] at he
    simp only at he
    rw [if_neg t0, if_neg (by omega), if_neg (by simp [imm])] at he
    cases ht : x.traits with
    | none => rw [ht] at he; simp at he
    | some t =>
      rw [ht] at he a0 a1 a2
      simp only [esize] at a0 a1 a2
      have pt := hp t ht
      simp only [pt.2.2, a0, a1, a2, ne_eq, not_true_eq_false, or_self, if_false, pt.1, Bool.false_eq_true] at he
      cases he
  · exact absurd z t0
  · exact he

/-- structure of `mpt_array_slice`: after success the handle owns a buffer that contains the region; on a handle
    that owns a buffer of byte-sized elements the call is never refused -/
theorem slice_struct {s : State} (inv : Inv s) {h : Nat} (hlt : h < s.hs.length) (off len : Nat) :
    match arraySlice s h off len with
    | .ok s' v => v = off ∧ ∃ nb z, Own s' h nb z ∧ off + len ≤ z.size ∧
        z.traits = ((s.handle h).bind s.buf?).bind (·.traits)
    | .fail _ _ => ∀ nb z, Own s h nb z → esize z.traits = 1 → False
    | .fault _ => True := by
  unfold arraySlice
  cases hh : s.handle h with
  | none =>
    simp only
    obtain ⟨dp, _⟩ := attach_fresh inv hlt hh (off + len) none PlainT.none
    obtain ⟨inv1, _, _, hh1, _⟩ := dp
    have hz' : ((s.newBuf (off + len) 0).setHandle h (some s.bufs.length)).buf? s.bufs.length
        = some (State.fresh (off + len) 0 none) := by
      rw [State.buf?_setHandle, State.buf?_newBuf]; simp
    rw [hz']
    simp only [setUsed]
    have asz := le_allocSize (off + len)
    have o1 : Own ((s.newBuf (off + len) 0).setHandle h (some s.bufs.length)) h s.bufs.length (State.fresh (off + len) 0 none) :=
      ⟨hh1, hz', rfl, by simp [Buf.immutable, State.fresh]⟩
    have dl : (if off + len ≠ 0 then Mem.write (State.fresh (off + len) 0 none).data 0 (zeros (off + len))
        else (State.fresh (off + len) 0 none).data).length = allocSize (off + len) := by
      split
      · rw [write_length _ _ _ (by simp [State.fresh]; omega)]; simp [State.fresh]
      · simp [State.fresh]
    have up := o1.update inv1
      { State.fresh (off + len) 0 none with
        data := (if off + len ≠ 0 then Mem.write (State.fresh (off + len) 0 none).data 0 (zeros (off + len)) else (State.fresh (off + len) 0 none).data),
        used := off + len } rfl rfl (by simp only [Buf.size, dl]; omega) PlainT.none (by simp [State.fresh, esize, Nat.mod_one])
    exact ⟨trivial, _, _, up.2.1, by simp only [Buf.size, dl]; omega, rfl⟩
  | some b =>
    simp only
    obtain ⟨x, hb⟩ := inv.live h b hh
    rw [hb]
    simp only [Option.bind_some]
    have hu := inv.used b x hb
    have bt : ((s.buf? b).bind fun x => x.traits) = x.traits := by rw [hb]; rfl
    have hal := inv.aligned b x hb
    have hp := inv.plain b x hb
    have hr := inv.ref b x hb
    by_cases bad : sliceBad x off len = true
    · rw [if_pos bad]
      intro nb z o e1
      have q1 : nb = b := Option.some.inj (o.hh.symm.trans hh)
      have q2 : z = x := by have := o.hb; rw [q1, hb] at this; exact (Option.some.inj this).symm
      rw [q2] at e1
      rw [sliceBad_false x e1] at bad
      cases bad
    · rw [if_neg bad]
      have bad' : sliceBad x off len = false := by simpa using bad
      have algn : off % esize x.traits = 0 ∧ len % esize x.traits = 0 := by
        unfold sliceBad at bad'
        cases ht : x.traits with
        | none => simp [esize, Nat.mod_one]
        | some t =>
          rw [ht] at bad'
          simp only [decide_eq_false_iff_not, not_or, Decidable.not_not] at bad'
          exact ⟨bad'.2.1, bad'.2.2.1⟩
      have es := ensure_sem inv hh hb (decide (off + len > x.size ∨ x.immutable = true ∨ x.shared = true)) (max (off + len) x.used)
        (by
          intro hn
          simp only [decide_eq_false_iff_not, not_or, Buf.shared, decide_eq_true_eq, Bool.not_eq_true] at hn
          simp only [Buf.size] at hu hn ⊢
          exact ⟨by omega, hn.2.1, by omega⟩)
      have nofail : ∀ s1 e, ensure s h b (decide (off + len > x.size ∨ x.immutable = true ∨ x.shared = true)) (max (off + len) x.used) = .fail s1 e →
          ∀ nb z, Own s h nb z → False := by
        intro s1 e he nb z o
        have q1 : nb = b := Option.some.inj (o.hh.symm.trans hh)
        have q2 : z = x := by have := o.hb; rw [q1, hb] at this; exact (Option.some.inj this).symm
        have xr : x.ref = 1 := by rw [← q2]; exact o.ref
        unfold ensure at he
        split at he
        · have nf := detach_private_no_fail hb hp xr (max (off + len) x.used)
          cases hd : detach s b (max (off + len) x.used) with
          | ok s2 v => rw [hd] at he; cases he
          | fail s2 e2 => exact nf s2 e2 hd
          | fault w => rw [hd] at he; cases he
        · cases he
      generalize hens : ensure s h b _ (max (off + len) x.used) = r at es nofail
      cases r with
      | fault w => trivial
      | fail s1 e => intro nb z o _; exact nofail s1 e rfl nb z o
      | ok s1 nb =>
        simp only
        have dp : DetachPost s h x (max (off + len) x.used) s1 nb := es
        obtain ⟨z, hz, zr, zi, zs, zt, zu, zc⟩ := dp.keeps hu (by omega)
        have o1 : Own s1 h nb z := ⟨dp.2.2.2.1, hz, zr, zi⟩
        have inv1 := dp.1
        by_cases grow : off + len > x.used
        · rw [if_pos grow]
          unfold sliceGrow
          have zp := inv1.plain nb z hz
          have bi := bufferInsert_plain_ok (s := s1) hz zp x.used (off + len - x.used) (by omega)
            (by rw [zu]; omega) zi (by rw [zu, zt]; exact hal) (by rw [zt]; exact hal)
            (by rw [zt]; exact sub_mod_zero (by rw [Nat.add_mod, algn.1, algn.2]; simp) hal)
          rw [bi]
          simp only [sliceFill_plain _ _ _ _ hp]
          have blt := State.buf?_lt hz
          have hy : (s1.setBuf nb (insPlain z x.used (off + len - x.used))).buf? nb = some (insPlain z x.used (off + len - x.used)) := by
            rw [State.buf?_setBuf _ _ _ _ blt]; simp
          have ipc := insPlain_poke_content z x.used (zeros (off + len - x.used)) (inv1.used nb z hz) (by simp only [zeros_length]; rw [zu]; omega)
          simp only [zeros_length] at ipc
          rw [poke_eq (by simpa using o1.hh) hy x.used (zeros (off + len - x.used)) (by simp only [Buf.size, zeros_length]; rw [ipc.2]; simp only [Buf.size] at zs; omega)]
          simp only [State.setBuf_setBuf]
          have wl : (Mem.write (insPlain z x.used (off + len - x.used)).data x.used (zeros (off + len - x.used))).length = z.data.length := by
            rw [write_length _ _ _ (by simp only [zeros_length]; rw [ipc.2]; simp only [Buf.size] at zs; omega), ipc.2]
          have up := o1.update inv1
            { insPlain z x.used (off + len - x.used) with data := Mem.write (insPlain z x.used (off + len - x.used)).data x.used (zeros (off + len - x.used)) }
            zr rfl
            (by
              simp only [Buf.size, wl]
              show max z.used x.used + (off + len - x.used) ≤ z.data.length
              simp only [Buf.size] at zs; omega)
            zp
            (by
              show (max z.used x.used + (off + len - x.used)) % esize z.traits = 0
              have e : max z.used x.used + (off + len - x.used) = off + len := by rw [zu]; omega
              rw [e, zt, Nat.add_mod, algn.1, algn.2]; simp)
          refine ⟨trivial, nb, _, up.2.1, ?_, by show z.traits = _; rw [bt]; exact zt⟩
          simp only [Buf.size, wl]
          simp only [Buf.size] at zs; omega
        · rw [if_neg grow]
          exact ⟨rfl, nb, z, o1, by omega, by rw [bt]; exact zt⟩

end Mpt.Heap
