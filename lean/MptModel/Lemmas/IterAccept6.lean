/-
  Helper lemmas for C19 (core Lean only): recognised `fac(…)` descriptions are accepted with the denoted
  sequence.
-/
import MptModel.Lemmas.IterAccept5
namespace Mpt.Iter
open Mpt.IterSpec

theorem dblMin_eq : dblMinS = dblMin := rfl

theorem ten_not_small : ¬ (10 : Rat) < dblMin := by decide +kernel

/-- a number token starts with a sign or a digit -/
theorem strict_head (t : List Char) (v : Rat) (h : strictNumber t = some v) :
    ∀ c, t.head? = some c → c = '-' ∨ c = '+' ∨ isDigit c = true := by
  intro c hc
  by_cases hsg : t.head? = some '-' ∨ t.head? = some '+'
  · rcases hsg with e | e <;> (rw [e] at hc; cases hc; simp)
  · right; right
    have hu : unsign t = t := by unfold unsign; rw [if_neg hsg]
    have hip : intPart t ≠ [] := by
      intro e
      unfold strictNumber at h
      rw [e] at h; simp at h
    unfold intPart at hip
    rw [hu] at hip
    cases t with
    | nil => simp at hc
    | cons x xs =>
      simp at hc; subst hc
      by_cases hd : isDig x = true
      · exact hd
      · simp [List.takeWhile, hd] at hip

theorem opt_head_not_colon (a t rest : List Char) (v : Rat) (oa : OptBlank a) (h : strictNumber t = some v) :
    ¬ (a ++ (t ++ rest)).head? = some ':' := by
  intro hc
  rcases oa with e | e <;> subst e
  · have hne := strict_ne_nil t v h
    simp only [List.nil_append] at hc
    rw [head_append_of_ne _ _ hne] at hc
    rcases strict_head t v h ':' hc with e | e | e <;> simp [isDigit] at e
  · simp at hc

theorem facCount_ok (a1 n b1 : List Char) (k : Nat) (c : Char) (t : List Char) (oa1 : OptBlank a1) (ob1 : OptBlank b1)
    (hn : strictCount n = some k) (hc : isDigit c = false) :
    facCount (a1 ++ (n ++ (b1 ++ c :: t))) = some (k, b1 ++ c :: t) := by
  unfold facCount
  rw [uint_opt a1 _ k _ oa1 (cuint32_strict n (b1 ++ c :: t) k hn (head_opt_nodigit b1 c t ob1 hc)).1]

theorem facBase_none (b1 : List Char) (ob1 : OptBlank b1) : facBase (b1 ++ [')']) = some (10, b1 ++ [')']) := by
  unfold facBase
  rw [nextIs_other b1 ')' ':' [] ob1 paren_close_graph.1 paren_close_graph.2 (by decide)]
  rfl

theorem optNumber_ok (b1 a2 tb : List Char) (vb d : Rat) (c : Char) (t : List Char)
    (ob1 : OptBlank b1) (oa2 : OptBlank a2) (ob2 : List Char) (hob2 : OptBlank ob2)
    (h : strictNumber tb = some vb) (hc : isDigit c = false ∧ c ≠ '.' ∧ c ≠ 'e' ∧ c ≠ 'E') :
    optNumber (b1 ++ ':' :: (a2 ++ (tb ++ (ob2 ++ c :: t)))) d = some (vb, ob2 ++ c :: t) := by
  unfold optNumber
  rw [(nextIs_opt b1 ':' _ ob1 colon_graph.1 colon_graph.2).2]
  simp only [List.tail_cons]
  rw [cdouble_opt a2 _ vb _ oa2 (cdouble_strict tb (ob2 ++ c :: t) vb h (stops_opt ob2 c t hob2 hc))]

theorem facBase_some (b1 a2 tb b2 : List Char) (vb : Rat) (c : Char) (t : List Char)
    (ob1 : OptBlank b1) (oa2 : OptBlank a2) (ob2 : OptBlank b2)
    (h : strictNumber tb = some vb) (hc : isDigit c = false ∧ c ≠ '.' ∧ c ≠ 'e' ∧ c ≠ 'E') :
    facBase (b1 ++ ':' :: (a2 ++ (tb ++ (b2 ++ c :: t)))) = some (vb, b2 ++ c :: t) := by
  unfold facBase
  rw [(nextIs_opt b1 ':' _ ob1 colon_graph.1 colon_graph.2).1]
  simp only [↓reduceIte]
  exact optNumber_ok b1 a2 tb vb 10 c t ob1 oa2 b2 ob2 h hc

/-- no factor group: the factor is the base -/
theorem facTail_none (base : Rat) (b : List Char) (ob : OptBlank b) (hb : ¬ base < dblMin) :
    facTail base (b ++ [')']) = some (base, 0, b ++ [')']) := by
  unfold facTail
  rw [nextIs_other b ')' ':' [] ob paren_close_graph.1 paren_close_graph.2 (by decide)]
  simp only [Bool.false_eq_true, ↓reduceIte]
  rw [if_neg hb]

theorem facFact_cons (base : Rat) (c : Char) (X : List Char) :
    facFact base (c :: X) =
      (if X.head? = some ':' then (if base < dblMin then none else some (base, X))
       else match cdouble X with
         | .err _ => none
         | .zero => if (10 : Rat) < dblMin then none else some (10, X)
         | .ok v rest => if v < dblMin then none else some (v, rest)) := rfl

theorem facFact_ok (base : Rat) (a tf : List Char) (vf : Rat) (rest : List Char) (oa : OptBlank a)
    (h : strictNumber tf = some vf) (hs : Stops rest) (hv : ¬ vf < dblMin) :
    facFact base (':' :: (a ++ (tf ++ rest))) = some (vf, rest) := by
  rw [facFact_cons, if_neg (opt_head_not_colon a tf rest vf oa h)]
  rw [cdouble_opt a _ vf _ oa (cdouble_strict tf rest vf h hs)]
  simp only []
  rw [if_neg hv]

/-- factor group only -/
theorem facTail_fact (base : Rat) (b2 a3 tf b3 : List Char) (vf : Rat)
    (ob2 : OptBlank b2) (oa3 : OptBlank a3) (ob3 : OptBlank b3)
    (h : strictNumber tf = some vf) (hv : ¬ vf < dblMin) :
    facTail base (b2 ++ ':' :: (a3 ++ (tf ++ (b3 ++ [')'])))) = some (vf, 0, b3 ++ [')']) := by
  unfold facTail
  obtain ⟨n1, n2⟩ := nextIs_opt b2 ':' (a3 ++ (tf ++ (b3 ++ [')']))) ob2 colon_graph.1 colon_graph.2
  rw [if_pos n1, n2, facFact_ok base a3 tf vf _ oa3 h (stops_opt b3 ')' [] ob3 close_stops) hv]
  simp only []
  rw [nextIs_other b3 ')' ':' [] ob3 paren_close_graph.1 paren_close_graph.2 (by decide)]
  simp

/-- factor and start value groups -/
theorem facTail_init (base : Rat) (b2 a3 tf b3 a4 ti b4 : List Char) (vf vi : Rat)
    (ob2 : OptBlank b2) (oa3 : OptBlank a3) (ob3 : OptBlank b3) (oa4 : OptBlank a4) (ob4 : OptBlank b4)
    (h : strictNumber tf = some vf) (hi : strictNumber ti = some vi) (hv : ¬ vf < dblMin) :
    facTail base (b2 ++ ':' :: (a3 ++ (tf ++ (b3 ++ ':' :: (a4 ++ (ti ++ (b4 ++ [')'])))))))
      = some (vf, vi, b4 ++ [')']) := by
  unfold facTail
  obtain ⟨n1, n2⟩ := nextIs_opt b2 ':' (a3 ++ (tf ++ (b3 ++ ':' :: (a4 ++ (ti ++ (b4 ++ [')'])))))) ob2
    colon_graph.1 colon_graph.2
  rw [if_pos n1, n2, facFact_ok base a3 tf vf _ oa3 h (stops_opt b3 ':' _ ob3 colon_stops) hv]
  simp only []
  rw [(nextIs_opt b3 ':' _ ob3 colon_graph.1 colon_graph.2).1]
  simp only [↓reduceIte]
  rw [optNumber_ok b3 a4 ti vi 0 ')' [] ob3 oa4 b4 ob4 hi close_stops]

theorem fac_den (k : Nat) (base f init : Rat) (hk : k < 4294967295) :
    (Gen.factor base f init (wrap32 (k + 1)) 0 init).all = (IterSpec.factor k base f init).elems
    ∧ (Gen.factor base f init (wrap32 (k + 1)) 0 init).rem = (Gen.factor base f init (wrap32 (k + 1)) 0 init).all
    ∧ (Gen.factor base f init (wrap32 (k + 1)) 0 init).WF := by
  rw [wrap32_small k hk]
  refine ⟨?_, by simp [Gen.rem], fun _ => by simp [facNth]⟩
  simp only [Gen.all, IterSpec.factor, Den.elems]
  rfl

/-- head of the argument text: parenthesis and count -/
theorem facArgs_head (a0 a1 n b1 : List Char) (k : Nat) (c : Char) (t : List Char)
    (oa : OptBlank a0) (oa1 : OptBlank a1) (ob1 : OptBlank b1) (hn : strictCount n = some k) (hc : isDigit c = false) :
    facArgs (a0 ++ '(' :: (a1 ++ (n ++ (b1 ++ c :: t)))) =
      (match facBase (b1 ++ c :: t) with
       | none => none
       | some (base, s2) =>
         match facTail base s2 with
         | none => none
         | some (fact, init, s5) =>
           if !nextIs s5 ')' then none else some (.factor base fact init (wrap32 (k + 1)) 0 init)) := by
  unfold facArgs
  rw [nextvis_opt a0 '(' _ oa paren_open_graph.1 paren_open_graph.2]
  simp only [List.tail_cons, ne_eq, not_true_eq_false, ↓reduceIte]
  rw [facCount_ok a1 n b1 k c t oa1 ob1 hn hc]

end Mpt.Iter
