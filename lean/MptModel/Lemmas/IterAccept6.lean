/-
  Helper lemmas for C19 (core Lean only): recognised `fac(…)` descriptions are accepted with the denoted
  sequence.
-/
import MptModel.Lemmas.IterAccept5
namespace Mpt.Iter
open Mpt.IterSpec

theorem dblMin_eq : dblMinS = dblMin := rfl

theorem ten_not_small : ¬ (10 : Rat) < dblMin := by decide +kernel

/-- a number token starts with a sign or a digit -/
theorem strict_head (t : List Char) (v : Rat) (h : strictNumber t = some v) :
    ∀ c, t.head? = some c → c = '-' ∨ c = '+' ∨ isDigit c = true := by
  intro c hc
  by_cases hsg : t.head? = some '-' ∨ t.head? = some '+'
  · rcases hsg with e | e <;> (rw [e] at hc; cases hc; simp)
  · right; right
    have hu : unsign t = t := by unfold unsign; rw [if_neg hsg]
    have hip : intPart t ≠ [] := by
      intro e
      unfold strictNumber at h
      rw [e] at h; simp at h
    unfold intPart at hip
    rw [hu] at hip
    cases t with
    | nil => simp at hc
    | cons x xs =>
      simp at hc; subst hc
      by_cases hd : isDig x = true
      · exact hd
      · simp [List.takeWhile, hd] at hip

theorem opt_head_not_colon (a t rest : List Char) (v : Rat) (oa : OptBlank a) (h : strictNumber t = some v) :
    ¬ (a ++ (t ++ rest)).head? = some ':' := by
  intro hc
  rcases oa with e | e <;> subst e
  · have hne := strict_ne_nil t v h
    simp only [List.nil_append] at hc
    rw [head_append_of_ne _ _ hne] at hc
    rcases strict_head t v h ':' hc with e | e | e <;> simp [isDigit] at e
  · simp at hc

theorem facCount_ok (a1 n b1 : List Char) (k : Nat) (c : Char) (t : List Char) (oa1 : OptBlank a1) (ob1 : OptBlank b1)
    (hn : strictCount n = some k) (hc : isDigit c = false) :
    facCount (a1 ++ (n ++ (b1 ++ c :: t))) = some (k, b1 ++ c :: t) := by
  unfold facCount
  obtain ⟨hu, hlt⟩ := cuint32_strict n (b1 ++ c :: t) k hn (head_opt_nodigit b1 c t ob1 hc)
  rw [uint_opt a1 _ k _ oa1 hu]
  simp only []
  rw [if_neg (by omega)]

theorem facBase_none (b1 : List Char) (ob1 : OptBlank b1) : facBase (b1 ++ [')']) = some (10, b1 ++ [')']) := by
  unfold facBase
  rw [nextIs_other b1 ')' ':' [] ob1 paren_close_graph.1 paren_close_graph.2 (by decide)]
  rfl

theorem optNumber_ok (b1 a2 tb : List Char) (vb d : Rat) (c : Char) (t : List Char)
    (ob1 : OptBlank b1) (oa2 : OptBlank a2) (ob2 : List Char) (hob2 : OptBlank ob2)
    (h : strictNumber tb = some vb) (hc : isDigit c = false ∧ c ≠ '.' ∧ c ≠ 'e' ∧ c ≠ 'E') :
    optNumber (b1 ++ ':' :: (a2 ++ (tb ++ (ob2 ++ c :: t)))) d = some (vb, ob2 ++ c :: t) := by
  unfold optNumber
  rw [(nextIs_opt b1 ':' _ ob1 colon_graph.1 colon_graph.2).2]
  simp only [List.tail_cons]
  rw [cdouble_opt a2 _ vb _ oa2 (cdouble_strict tb (ob2 ++ c :: t) vb h (stops_opt ob2 c t hob2 hc))]

theorem facBase_some (b1 a2 tb b2 : List Char) (vb : Rat) (c : Char) (t : List Char)
    (ob1 : OptBlank b1) (oa2 : OptBlank a2) (ob2 : OptBlank b2)
    (h : strictNumber tb = some vb) (hc : isDigit c = false ∧ c ≠ '.' ∧ c ≠ 'e' ∧ c ≠ 'E') :
    facBase (b1 ++ ':' :: (a2 ++ (tb ++ (b2 ++ c :: t)))) = some (vb, b2 ++ c :: t) := by
  unfold facBase
  rw [(nextIs_opt b1 ':' _ ob1 colon_graph.1 colon_graph.2).1]
  simp only [↓reduceIte]
  exact optNumber_ok b1 a2 tb vb 10 c t ob1 oa2 b2 ob2 h hc

/-- no factor group: the factor is the base -/
theorem facTail_none (base : Rat) (b : List Char) (ob : OptBlank b) (hb : ¬ base < dblMin) :
    facTail base (b ++ [')']) = some (base, 0, b ++ [')']) := by
  unfold facTail
  rw [nextIs_other b ')' ':' [] ob paren_close_graph.1 paren_close_graph.2 (by decide)]
  simp only [Bool.false_eq_true, ↓reduceIte]
  rw [if_neg hb]

theorem facFact_cons (base : Rat) (c : Char) (X : List Char) :
    facFact base (c :: X) =
      (if X.head? = some ':' then (if base < dblMin then none else some (base, X))
       else match cdouble X with
         | .err _ => none
         | .zero => if (10 : Rat) < dblMin then none else some (10, X)
         | .ok v rest => if v < dblMin then none else some (v, rest)) := rfl

theorem facFact_ok (base : Rat) (a tf : List Char) (vf : Rat) (rest : List Char) (oa : OptBlank a)
    (h : strictNumber tf = some vf) (hs : Stops rest) (hv : ¬ vf < dblMin) :
    facFact base (':' :: (a ++ (tf ++ rest))) = some (vf, rest) := by
  rw [facFact_cons, if_neg (opt_head_not_colon a tf rest vf oa h)]
  rw [cdouble_opt a _ vf _ oa (cdouble_strict tf rest vf h hs)]
  simp only []
  rw [if_neg hv]

/-- factor group only -/
theorem facTail_fact (base : Rat) (b2 a3 tf b3 : List Char) (vf : Rat)
    (ob2 : OptBlank b2) (oa3 : OptBlank a3) (ob3 : OptBlank b3)
    (h : strictNumber tf = some vf) (hv : ¬ vf < dblMin) :
    facTail base (b2 ++ ':' :: (a3 ++ (tf ++ (b3 ++ [')'])))) = some (vf, 0, b3 ++ [')']) := by
  unfold facTail
  obtain ⟨n1, n2⟩ := nextIs_opt b2 ':' (a3 ++ (tf ++ (b3 ++ [')']))) ob2 colon_graph.1 colon_graph.2
  rw [if_pos n1, n2, facFact_ok base a3 tf vf _ oa3 h (stops_opt b3 ')' [] ob3 close_stops) hv]
  simp only []
  rw [nextIs_other b3 ')' ':' [] ob3 paren_close_graph.1 paren_close_graph.2 (by decide)]
  simp

/-- factor and start value groups -/
theorem facTail_init (base : Rat) (b2 a3 tf b3 a4 ti b4 : List Char) (vf vi : Rat)
    (ob2 : OptBlank b2) (oa3 : OptBlank a3) (ob3 : OptBlank b3) (oa4 : OptBlank a4) (ob4 : OptBlank b4)
    (h : strictNumber tf = some vf) (hi : strictNumber ti = some vi) (hv : ¬ vf < dblMin) :
    facTail base (b2 ++ ':' :: (a3 ++ (tf ++ (b3 ++ ':' :: (a4 ++ (ti ++ (b4 ++ [')'])))))))
      = some (vf, vi, b4 ++ [')']) := by
  unfold facTail
  obtain ⟨n1, n2⟩ := nextIs_opt b2 ':' (a3 ++ (tf ++ (b3 ++ ':' :: (a4 ++ (ti ++ (b4 ++ [')'])))))) ob2
    colon_graph.1 colon_graph.2
  rw [if_pos n1, n2, facFact_ok base a3 tf vf _ oa3 h (stops_opt b3 ':' _ ob3 colon_stops) hv]
  simp only []
  rw [(nextIs_opt b3 ':' _ ob3 colon_graph.1 colon_graph.2).1]
  simp only [↓reduceIte]
  rw [optNumber_ok b3 a4 ti vi 0 ')' [] ob3 oa4 b4 ob4 hi close_stops]

theorem fac_den (k : Nat) (base f init : Rat) (hk : k < 4294967295) :
    (Gen.factor base f init (wrap32 (k + 1)) 0 init).all = (IterSpec.factor k base f init).elems
    ∧ (Gen.factor base f init (wrap32 (k + 1)) 0 init).rem = (Gen.factor base f init (wrap32 (k + 1)) 0 init).all
    ∧ (Gen.factor base f init (wrap32 (k + 1)) 0 init).WF := by
  rw [wrap32_small k hk]
  refine ⟨?_, by simp [Gen.rem], fun _ => by simp [facNth]⟩
  simp only [Gen.all, IterSpec.factor, Den.elems]
  rfl

/-- head of the argument text: parenthesis and count -/
theorem facArgs_head (a0 a1 n b1 : List Char) (k : Nat) (c : Char) (t : List Char)
    (oa : OptBlank a0) (oa1 : OptBlank a1) (ob1 : OptBlank b1) (hn : strictCount n = some k) (hc : isDigit c = false) :
    facArgs (a0 ++ '(' :: (a1 ++ (n ++ (b1 ++ c :: t)))) =
      (match facBase (b1 ++ c :: t) with
       | none => none
       | some (base, s2) =>
         match facTail base s2 with
         | none => none
         | some (fact, init, s5) =>
           if !closeOk s5 then none else some (.factor base fact init (wrap32 (k + 1)) 0 init)) := by
  unfold facArgs
  rw [nextvis_opt a0 '(' _ oa paren_open_graph.1 paren_open_graph.2]
  simp only [List.tail_cons, ne_eq, not_true_eq_false, ↓reduceIte]
  rw [facCount_ok a1 n b1 k c t oa1 ob1 hn hc]
  rfl

theorem nextIs_close (b : List Char) (ob : OptBlank b) : (!closeOk (b ++ [')'])) = false := by
  rw [closeOk_opt b ob]; rfl

/-- **a recognised `fac(…)` description is accepted and denotes its sequence** -/
theorem accept_fac (s : List Char) (k : Nat) (base f init : Rat) (den : Den)
    (h : recognise s = some (.fac k base f init)) (hd : (Desc.fac k base f init).den = some den) :
    ∃ g, create s = some g ∧ g.all = den.elems ∧ g.rem = g.all ∧ g.WF := by
  have hk : dblMinS ≤ base ∧ dblMinS ≤ f ∧ k < 4294967295 ∧ den = IterSpec.factor k base f init := by
    simp only [Desc.den] at hd
    split at hd
    · rename_i hc; cases hd; exact ⟨hc.1, hc.2.1, hc.2.2, rfl⟩
    · cases hd
  obtain ⟨c1, c2, c3, hden⟩ := hk
  subst hden
  rw [dblMin_eq] at c1 c2
  have nb : ¬ base < dblMin := by grind
  have nf : ¬ f < dblMin := by grind
  unfold recognise at h
  simp only [] at h
  split at h
  · cases hq : numbers s with
    | none => rw [hq] at h; simp at h
    | some vs => rw [hq] at h; simp only [Option.bind_some] at h; split at h <;> cases h
  · rename_i hname
    have hname' : (s.takeWhile isLetter).isEmpty = false := by simpa using hname
    have finish : ∀ (hkw : keywordKind (s.takeWhile isLetter) = some 2) (rest' : List Char),
        s.dropWhile isLetter = rest' →
        facArgs rest' = some (.factor base f init (wrap32 (k + 1)) 0 init) →
        ∃ g, create s = some g ∧ g.all = (IterSpec.factor k base f init).elems ∧ g.rem = g.all ∧ g.WF := by
      intro hkw rest' hr hfa
      have hkw' := keyword_fac _ hkw
      have hl : (s.takeWhile isLetter).length ≤ 6 := by
        rw [← lowerAll_length]
        rcases hkw' with e | e | e <;> rw [e] <;> decide
      rw [create_keyword s hname' hl]
      simp only []
      rw [if_neg (by rcases hkw' with e | e | e <;> rw [e] <;> decide), if_pos hkw', hr, hfa]
      obtain ⟨d1, d2, d3⟩ := fac_den k base f init c3
      exact ⟨_, rfl, d1, d2, d3⟩
    split at h
    all_goals first
      | (cases h; done)
      | (exfalso; revert h; (repeat' split) <;> intros <;> simp_all; done)
      | skip
    · -- count only: base 10, factor 10, start 0
      rename_i n hkw hf
      cases hn : strictCount n with
      | none => rw [hn] at h; simp at h
      | some k' =>
        rw [hn] at h
        simp only [Option.map_some, Option.some.injEq, Desc.fac.injEq] at h
        obtain ⟨e1, e2, e3, e4⟩ := h
        subst e1; subst e2; subst e3; subst e4
        obtain ⟨a0, inner, hrest, oa, hfs⟩ := fieldsOf_inv _ _ hf
        obtain ⟨g1, hg1, hg2⟩ := map_eq_one trim1 _ n hfs.symm
        have hj := join_splitC ':' inner
        rw [hg1] at hj
        simp only [joinC] at hj
        obtain ⟨a1, b1, hf1, oa1, ob1⟩ := trim1_inv g1
        rw [hg2] at hf1
        apply finish hkw (a0 ++ '(' :: (a1 ++ (n ++ (b1 ++ [')']))))
        · rw [hrest, ← hj, hf1]; simp only [List.append_assoc, List.cons_append, List.nil_append]
        · rw [facArgs_head a0 a1 n b1 k' ')' [] oa oa1 ob1 hn close_stops.1, facBase_none b1 ob1]
          simp only []
          rw [facTail_none 10 b1 ob1 ten_not_small]
          simp only []
          rw [nextIs_close b1 ob1]
          rfl
    · -- count and base: the factor is the base
      rename_i n bx hkw hf
      cases hn : strictCount n with
      | none => rw [hn] at h; simp at h
      | some k' =>
        rw [hn] at h
        cases hb : numbers bx with
        | none => rw [hb] at h; simp at h
        | some vs =>
          rw [hb] at h
          match vs, h, hb with
          | [x], h, hb =>
            simp only [Option.some.injEq, Desc.fac.injEq] at h
            obtain ⟨e1, e2, e3, e4⟩ := h
            subst e1; subst e2; subst e3; subst e4
            have hx := numbers_one bx x hb
            obtain ⟨a0, inner, hrest, oa, hfs⟩ := fieldsOf_inv _ _ hf
            obtain ⟨g1, g2, hg, hg1, hg2⟩ := map_eq_two trim1 _ n bx hfs.symm
            have hj := join_splitC ':' inner
            rw [hg] at hj
            simp only [joinC] at hj
            obtain ⟨a1, b1, hf1, oa1, ob1⟩ := trim1_inv g1
            obtain ⟨a2, b2, hf2, oa2, ob2⟩ := trim1_inv g2
            rw [hg1] at hf1
            rw [hg2] at hf2
            apply finish hkw (a0 ++ '(' :: (a1 ++ (n ++ (b1 ++ ':' :: (a2 ++ (bx ++ (b2 ++ [')'])))))))
            · rw [hrest, ← hj, hf1, hf2]; simp only [List.append_assoc, List.cons_append, List.nil_append]
            · rw [facArgs_head a0 a1 n b1 k' ':' _ oa oa1 ob1 hn colon_stops.1,
                facBase_some b1 a2 bx b2 x ')' [] ob1 oa2 ob2 hx close_stops]
              simp only []
              rw [facTail_none x b2 ob2 nb]
              simp only []
              rw [nextIs_close b2 ob2]
              rfl
          | [], h, _ => simp at h
          | _ :: _ :: _, h, _ => simp at h
    · -- count, base and factor
      rename_i n bx fx hkw hf
      cases hn : strictCount n with
      | none => rw [hn] at h; simp at h
      | some k' =>
        rw [hn] at h
        cases hb : numbers bx with
        | none => rw [hb] at h; simp at h
        | some vs =>
          rw [hb] at h
          cases hfx : numbers fx with
          | none => rw [hfx] at h; revert h; (repeat' split) <;> intros <;> simp_all
          | some ws =>
            rw [hfx] at h
            match vs, ws, h, hb, hfx with
            | [x], [y], h, hb, hfx =>
              simp only [Option.some.injEq, Desc.fac.injEq] at h
              obtain ⟨e1, e2, e3, e4⟩ := h
              subst e1; subst e2; subst e3; subst e4
              have hx := numbers_one bx x hb
              have hy := numbers_one fx y hfx
              obtain ⟨a0, inner, hrest, oa, hfs⟩ := fieldsOf_inv _ _ hf
              match hsp : IterSpec.splitOn ':' inner, hfs with
              | [g1, g2, g3], hfs =>
                simp only [List.map_cons, List.map_nil, List.cons.injEq, and_true] at hfs
                obtain ⟨hg1, hg2, hg3⟩ := hfs
                have hj := join_splitC ':' inner
                rw [hsp] at hj
                simp only [joinC] at hj
                obtain ⟨a1, b1, hf1, oa1, ob1⟩ := trim1_inv g1
                obtain ⟨a2, b2, hf2, oa2, ob2⟩ := trim1_inv g2
                obtain ⟨a3, b3, hf3, oa3, ob3⟩ := trim1_inv g3
                rw [← hg1] at hf1
                rw [← hg2] at hf2
                rw [← hg3] at hf3
                apply finish hkw (a0 ++ '(' :: (a1 ++ (n ++ (b1 ++ ':' :: (a2 ++ (bx ++ (b2 ++ ':' :: (a3 ++ (fx ++ (b3 ++ [')']))))))))))
                · rw [hrest, ← hj, hf1, hf2, hf3]; simp only [List.append_assoc, List.cons_append, List.nil_append]
                · rw [facArgs_head a0 a1 n b1 k' ':' _ oa oa1 ob1 hn colon_stops.1,
                    facBase_some b1 a2 bx b2 x ':' _ ob1 oa2 ob2 hx colon_stops]
                  simp only []
                  rw [facTail_fact x b2 a3 fx b3 y ob2 oa3 ob3 hy nf]
                  simp only []
                  rw [nextIs_close b3 ob3]
                  rfl
              | [], hfs => simp at hfs
              | [_], hfs => simp at hfs
              | [_, _], hfs => simp at hfs
              | _ :: _ :: _ :: _ :: _, hfs => simp at hfs
            | [], _, h, _, _ => simp at h
            | _ :: _ :: _, _, h, _, _ => simp at h
            | [_], [], h, _, _ => simp at h
            | [_], _ :: _ :: _, h, _, _ => simp at h
    · -- all four fields
      rename_i n bx fx ix hkw hf
      cases hn : strictCount n with
      | none => rw [hn] at h; simp at h
      | some k' =>
        rw [hn] at h
        cases hb : numbers bx with
        | none => rw [hb] at h; simp at h
        | some vs =>
          rw [hb] at h
          cases hfx : numbers fx with
          | none => rw [hfx] at h; revert h; (repeat' split) <;> intros <;> simp_all
          | some ws =>
            rw [hfx] at h
            cases hix : numbers ix with
            | none => rw [hix] at h; revert h; (repeat' split) <;> intros <;> simp_all
            | some us =>
              rw [hix] at h
              match vs, ws, us, h, hb, hfx, hix with
              | [x], [y], [z], h, hb, hfx, hix =>
                simp only [Option.some.injEq, Desc.fac.injEq] at h
                obtain ⟨e1, e2, e3, e4⟩ := h
                subst e1; subst e2; subst e3; subst e4
                have hx := numbers_one bx x hb
                have hy := numbers_one fx y hfx
                have hz := numbers_one ix z hix
                obtain ⟨a0, inner, hrest, oa, hfs⟩ := fieldsOf_inv _ _ hf
                match hsp : IterSpec.splitOn ':' inner, hfs with
                | [g1, g2, g3, g4], hfs =>
                  simp only [List.map_cons, List.map_nil, List.cons.injEq, and_true] at hfs
                  obtain ⟨hg1, hg2, hg3, hg4⟩ := hfs
                  have hj := join_splitC ':' inner
                  rw [hsp] at hj
                  simp only [joinC] at hj
                  obtain ⟨a1, b1, hf1, oa1, ob1⟩ := trim1_inv g1
                  obtain ⟨a2, b2, hf2, oa2, ob2⟩ := trim1_inv g2
                  obtain ⟨a3, b3, hf3, oa3, ob3⟩ := trim1_inv g3
                  obtain ⟨a4, b4, hf4, oa4, ob4⟩ := trim1_inv g4
                  rw [← hg1] at hf1
                  rw [← hg2] at hf2
                  rw [← hg3] at hf3
                  rw [← hg4] at hf4
                  apply finish hkw (a0 ++ '(' :: (a1 ++ (n ++ (b1 ++ ':' :: (a2 ++ (bx ++ (b2 ++ ':' :: (a3 ++ (fx ++ (b3 ++ ':' :: (a4 ++ (ix ++ (b4 ++ [')'])))))))))))))
                  · rw [hrest, ← hj, hf1, hf2, hf3, hf4]; simp only [List.append_assoc, List.cons_append, List.nil_append]
                  · rw [facArgs_head a0 a1 n b1 k' ':' _ oa oa1 ob1 hn colon_stops.1,
                      facBase_some b1 a2 bx b2 x ':' _ ob1 oa2 ob2 hx colon_stops]
                    simp only []
                    rw [facTail_init x b2 a3 fx b3 a4 ix b4 y z ob2 oa3 ob3 oa4 ob4 hy hz nf]
                    simp only []
                    rw [nextIs_close b4 ob4]
                    rfl
                | [], hfs => simp at hfs
                | [_], hfs => simp at hfs
                | [_, _], hfs => simp at hfs
                | [_, _, _], hfs => simp at hfs
                | _ :: _ :: _ :: _ :: _ :: _, hfs => simp at hfs
              | [], _, _, h, _, _, _ => simp at h
              | _ :: _ :: _, _, _, h, _, _, _ => simp at h
              | [_], [], _, h, _, _, _ => simp at h
              | [_], _ :: _ :: _, _, h, _, _, _ => simp at h
              | [_], [_], [], h, _, _, _ => simp at h
              | [_], [_], _ :: _ :: _, h, _, _, _ => simp at h

end Mpt.Iter
