/-
  Table-level lemmas for C11: what the command-table functions of `Impl/Dispatch.lean` do to the list of
  live registrations `liveL slots` = `(id, registration)` of every active element.
-/
import MptModel.Impl.Dispatch
namespace Mpt.Dispatch

/-- live registrations of an element list, in table order -/
def liveL (slots : List Slot) : List (Id × Reg) := (slots.filter (·.live)).map fun s => (s.id, s.arg)

theorem liveList_some (t : Table) : liveList (some t) = liveL t.slots := rfl
theorem liveList_none : liveList none = [] := rfl

@[simp] theorem liveL_nil : liveL [] = [] := rfl
theorem liveL_append (a b : List Slot) : liveL (a ++ b) = liveL a ++ liveL b := by
  simp [liveL, List.filter_append]
theorem liveL_cons (s : Slot) (a : List Slot) :
    liveL (s :: a) = if s.live then (s.id, s.arg) :: liveL a else liveL a := by
  simp only [liveL, List.filter_cons]
  split <;> simp

theorem mem_liveL {slots : List Slot} {p : Id × Reg} :
    p ∈ liveL slots ↔ ∃ s, s ∈ slots ∧ s.live ∧ p = (s.id, s.arg) := by
  simp only [liveL, List.mem_map, List.mem_filter]
  grind

theorem split_at {slots : List Slot} {i : Nat} {s : Slot} (h : slots[i]? = some s) :
    slots = slots.take i ++ s :: slots.drop (i + 1) := by
  have hi : i < slots.length := by
    rcases Nat.lt_or_ge i slots.length with h' | h'
    · exact h'
    · rw [List.getElem?_eq_none h'] at h; cases h
  have : slots[i] = s := by
    rw [List.getElem?_eq_getElem hi] at h; exact Option.some.inj h
  rw [← this]
  exact (List.take_append_drop i slots).symm.trans (by rw [List.drop_eq_getElem_cons hi])

theorem set_at {slots : List Slot} {i : Nat} (s' : Slot) (h : i < slots.length) :
    slots.set i s' = slots.take i ++ s' :: slots.drop (i + 1) :=
  List.set_eq_take_append_cons_drop .. |>.trans (by simp [h])

/-- `liveL` around one element -/
theorem liveL_split {slots : List Slot} {i : Nat} {s : Slot} (h : slots[i]? = some s) :
    liveL slots = liveL (slots.take i) ++ ((if s.live then [(s.id, s.arg)] else []) ++ liveL (slots.drop (i + 1))) := by
  conv => lhs; rw [split_at h]
  rw [liveL_append, liveL_cons]
  split <;> simp

theorem liveL_set {slots : List Slot} {i : Nat} (s' : Slot) (h : i < slots.length) :
    liveL (slots.set i s') = liveL (slots.take i) ++ ((if s'.live then [(s'.id, s'.arg)] else []) ++ liveL (slots.drop (i + 1))) := by
  rw [set_at s' h, liveL_append, liveL_cons]
  split <;> simp

/- ---------- command_get.c ---------- -/
theorem commandFind_some {slots : List Slot} {id : Id} {i : Nat} (h : commandFind slots id = some i) :
    ∃ s, slots[i]? = some s ∧ s.live = true ∧ s.id = id := by
  unfold commandFind at h
  rw [List.findIdx?_eq_some_iff_getElem] at h
  obtain ⟨hi, hp, _⟩ := h
  refine ⟨slots[i], List.getElem?_eq_getElem hi, ?_, ?_⟩
  · simp only [Bool.and_eq_true, beq_iff_eq] at hp; exact hp.1
  · simp only [Bool.and_eq_true, beq_iff_eq] at hp; exact hp.2.symm

theorem commandFind_none {slots : List Slot} {id : Id} (h : commandFind slots id = none) :
    ∀ r, (id, r) ∉ liveL slots := by
  unfold commandFind at h
  rw [List.findIdx?_eq_none_iff] at h
  intro r hm
  rw [mem_liveL] at hm
  obtain ⟨s, hs, hl, he⟩ := hm
  have := h s hs
  simp only [Bool.and_eq_false_imp, beq_eq_false_iff_ne] at this
  have := this hl
  cases he
  exact this rfl

theorem commandGet_some {tab : Option Table} {id : Id} {i : Nat} {s : Slot} (h : commandGet tab id = some (i, s)) :
    ∃ t, tab = some t ∧ t.slots[i]? = some s ∧ s.live = true ∧ s.id = id := by
  unfold commandGet at h
  split at h
  · cases h
  · rename_i t
    split at h
    · cases h
    · rename_i j hf
      obtain ⟨s', hs', hl, hid⟩ := commandFind_some hf
      rw [hs'] at h
      simp only [Option.some.injEq, Prod.mk.injEq] at h
      obtain ⟨rfl, rfl⟩ := h
      exact ⟨t, rfl, hs', hl, hid⟩

theorem commandGet_none {tab : Option Table} {id : Id} (h : commandGet tab id = none) :
    ∀ r, (id, r) ∉ liveList tab := by
  unfold commandGet at h
  split at h
  · intro r; simp [liveList]
  · rename_i t
    split at h
    · rename_i hf
      exact commandFind_none hf
    · rename_i j hf
      obtain ⟨s', hs', _, _⟩ := commandFind_some hf
      rw [hs'] at h
      cases h

theorem commandEmpty_some {slots : List Slot} {i : Nat} (h : commandEmpty slots = some i) :
    ∃ s, slots[i]? = some s ∧ s.live = false := by
  unfold commandEmpty at h
  rw [List.findIdx?_eq_some_iff_getElem] at h
  obtain ⟨hi, hp, _⟩ := h
  refine ⟨slots[i], List.getElem?_eq_getElem hi, ?_⟩
  simpa using hp

/-- a live element found in the table gives a live registration -/
theorem mem_liveL_of_getElem {slots : List Slot} {i : Nat} {s : Slot} (h : slots[i]? = some s) (hl : s.live = true) :
    (s.id, s.arg) ∈ liveL slots := by
  rw [mem_liveL]
  exact ⟨s, List.mem_of_getElem? h, hl, rfl⟩

/-- all active elements are harness handlers -/
def AllUser (slots : List Slot) : Prop := ∀ s, s ∈ slots → s.cmd ≠ some .logReply

theorem finalise_user {s : Slot} (h : s.cmd ≠ some .logReply) :
    finalise s = if s.live then [.fin s.arg] else [] := by
  unfold finalise Slot.live
  cases hc : s.cmd with
  | none => simp
  | some x => cases x <;> simp_all

theorem clear_log {slots : List Slot} (h : AllUser slots) :
    (slots.map finalise).flatten = (liveL slots).map (.fin ·.2) := by
  induction slots with
  | nil => simp
  | cons s rest ih =>
    have hs : s.cmd ≠ some .logReply := h s (by simp)
    have hr : AllUser rest := fun x hx => h x (by simp [hx])
    rw [List.map_cons, List.flatten_cons, ih hr, liveL_cons, finalise_user hs]
    split <;> simp

/- ---------- command_reserve.c: the compaction loop ---------- -/
structure CInv (orig : List Slot) (i : Nat) (st : CompSt) : Prop where
  hi : i ≤ orig.length
  hlen : st.slots.length = orig.length
  hdrop : ∀ j, i ≤ j → st.slots[j]? = orig[j]?
  hk : st.used ≤ i
  htake : st.slots.take st.used = (orig.take i).filter (·.live)
  hempty : ∀ j, st.used ≤ j → j < i → ∃ s, st.slots[j]? = some s ∧ s.live = false
  hcmd : st.cmd = if st.used < i then some st.used else none
  hmid : ∀ s, s ∈ orig.take i → s.id ≤ st.mid

theorem nextFree_eq {slots : List Slot} {c i fuel : Nat} (hf : 0 < fuel)
    (h : c < i → ∃ s, slots[c]? = some s ∧ s.live = false) : nextFree slots c i fuel = c := by
  cases fuel with
  | zero => omega
  | succ n =>
    unfold nextFree
    split
    · rename_i hci
      obtain ⟨s, hs, hl⟩ := h hci
      rw [hs]; simp [hl]
    · rfl

def midUpd (m b : Id) : Id := if b > m then b else m
theorem midUpd_left (m b : Id) : m ≤ midUpd m b := by
  unfold midUpd; split
  · rename_i h; exact UInt64.le_of_lt h
  · exact UInt64.le_refl _
theorem midUpd_right (m b : Id) : b ≤ midUpd m b := by
  unfold midUpd; split
  · exact UInt64.le_refl _
  · rename_i h; exact UInt64.not_lt.mp h

theorem take_succ_of {orig : List Slot} {i : Nat} (hi : i < orig.length) :
    orig.take (i + 1) = orig.take i ++ [orig[i]] := by
  rw [List.take_add_one, List.getElem?_eq_getElem hi]; rfl

theorem take_succ_set {α} {l : List α} {u : Nat} (h : u < l.length) (x : α) :
    (l.take (u + 1)).set u x = l.take u ++ [x] := by
  apply List.ext_getElem?
  intro j
  rw [List.getElem?_set, List.getElem?_append, List.getElem?_take, List.getElem?_take]
  simp only [List.length_take]
  grind

theorem compactStep_inv {orig : List Slot} {i : Nat} {st : CompSt} (h : CInv orig i st) (hi : i < orig.length) :
    CInv orig (i + 1) (compactStep st i) := by
  have hbi : st.slots[i]? = some orig[i] := by
    rw [h.hdrop i (Nat.le_refl i)]; exact List.getElem?_eq_getElem hi
  have htk := take_succ_of hi
  have hmid' : ∀ s, s ∈ orig.take (i + 1) → s.id ≤ midUpd st.mid orig[i].id := by
    intro s hs
    rw [htk, List.mem_append] at hs
    rcases hs with hs | hs
    · exact UInt64.le_trans (h.hmid s hs) (midUpd_left _ _)
    · simp only [List.mem_singleton] at hs
      subst hs; exact midUpd_right _ _
  have hilen : i < st.slots.length := by rw [h.hlen]; exact hi
  unfold compactStep
  rw [hbi]
  simp only
  by_cases hlive : orig[i].live = true
  · -- active element
    simp only [hlive, Bool.not_true, Bool.false_eq_true, if_false]
    by_cases hu : st.used < i
    · -- move it down to position `used`
      have hc := h.hcmd
      rw [if_pos hu] at hc
      rw [hc]
      simp only
      have hulen : st.used < st.slots.length := by omega
      constructor
      · exact hi
      · simp [h.hlen]
      · intro j hj
        simp only
        rw [List.getElem?_set, List.getElem?_set]
        have : ¬ i = j := by omega
        have : ¬ st.used = j := by omega
        simp only [*, if_false]
        exact h.hdrop j (by omega)
      · simp only; omega
      · simp only
        rw [htk, List.filter_append, ← h.htake]
        rw [List.take_set, List.take_set]
        rw [List.set_eq_of_length_le (by simp; omega)]
        rw [take_succ_set hulen]
        simp [hlive]
      · intro j hj1 hj2
        simp only at hj1 ⊢
        rw [List.getElem?_set, List.getElem?_set]
        by_cases hji : i = j
        · subst hji
          simp [hilen, Slot.live]
        · have : ¬ st.used = j := by omega
          simp only [hji, this, if_false]
          exact h.hempty j (by omega) (by omega)
      · simp only
        have : st.used + 1 < i + 1 := by omega
        rw [if_pos this]
        congr 1
        apply nextFree_eq (by omega)
        intro hlt
        rw [List.getElem?_set, List.getElem?_set]
        have h1 : ¬ i = st.used + 1 := by omega
        have h2 : ¬ st.used = st.used + 1 := by omega
        simp only [h1, h2, if_false]
        exact h.hempty (st.used + 1) (by omega) hlt
      · exact hmid'
    · have hui : st.used = i := by have := h.hk; omega
      have hc := h.hcmd
      rw [if_neg hu] at hc
      rw [hc]
      simp only
      constructor
      · exact hi
      · exact h.hlen
      · intro j hj; exact h.hdrop j (by omega)
      · simp only; omega
      · simp only
        rw [htk, List.filter_append, ← h.htake, hui]
        rw [List.take_add_one, hbi]
        simp [hlive]
      · intro j hj1 hj2; simp only at hj1; omega
      · simp only; rw [hui]; simp
      · exact hmid'
  · -- unused element
    have hl' : orig[i].live = false := by simpa using hlive
    simp only [hl', Bool.not_false, if_true]
    constructor
    · exact hi
    · exact h.hlen
    · intro j hj; exact h.hdrop j (by omega)
    · simp only; have := h.hk; omega
    · simp only
      rw [htk, List.filter_append, ← h.htake]
      simp [hl']
    · intro j hj1 hj2
      simp only at hj1 ⊢
      by_cases hji : j = i
      · subst hji; exact ⟨_, hbi, hl'⟩
      · exact h.hempty j hj1 (by omega)
    · simp only
      have hc := h.hcmd
      have := h.hk
      by_cases hu : st.used < i
      · rw [if_pos hu] at hc; rw [hc]; simp; omega
      · rw [if_neg hu] at hc; rw [hc]
        have : st.used = i := by omega
        simp [this]
    · exact hmid'

theorem compactLoop_inv {orig : List Slot} (n : Nat) {i : Nat} {st : CompSt} (h : CInv orig i st) (hn : i + n = orig.length) :
    CInv orig orig.length (compactLoop st i n) := by
  induction n generalizing i st with
  | zero =>
    simp only [compactLoop]
    have : i = orig.length := by omega
    subst this; exact h
  | succ k ih =>
    simp only [compactLoop]
    exact ih (compactStep_inv h (by omega)) (by omega)

theorem CInv.init (orig : List Slot) : CInv orig 0 ⟨orig, none, 0, 0⟩ := by
  constructor <;> simp

/-- the compaction loop of `mpt_command_reserve` keeps exactly the active elements, in order, and `mid` bounds every id -/
theorem compactLoop_spec (orig : List Slot) :
    let st := compactLoop ⟨orig, none, 0, 0⟩ 0 orig.length
    st.slots.take st.used = orig.filter (·.live) ∧ (∀ s, s ∈ orig → s.id ≤ st.mid) := by
  have h := compactLoop_inv orig.length (CInv.init orig) (by simp)
  refine ⟨?_, ?_⟩
  · have := h.htake
    rwa [List.take_length] at this
  · intro s hs
    apply h.hmid
    rwa [List.take_length]


/- ---------- command_reserve.c: the whole function ---------- -/
theorem widthMax_le (w : Nat) : widthMax w ≤ 9223372036854775807 := by
  unfold widthMax; split <;> omega

theorem liveL_filter (slots : List Slot) : liveL (slots.filter (·.live)) = liveL slots := by
  simp [liveL, List.filter_filter]

/-- shape of a successful `mpt_command_reserve`: the reserved element sits between elements whose live registrations
    are those of the table before; its id names none of them -/
theorem commandReserve_some {tab tab' : Option Table} {w idx : Nat} (h : commandReserve tab w = (tab', some idx)) :
    ∃ a b idv m cap, tab' = some ⟨a ++ ⟨idv, some .logReply, m⟩ :: b, cap⟩ ∧ idx = a.length ∧
      liveL a ++ liveL b = liveList tab ∧ (∀ s, s ∈ a ++ b → (∃ t, tab = some t ∧ s ∈ t.slots) ∨ s.live = false) ∧
      (∀ r, (idv, r) ∉ liveList tab) := by
  unfold commandReserve at h
  simp only at h
  split at h
  · cases h
  · split at h
    · -- first use
      simp only [Prod.mk.injEq, Option.some.injEq] at h
      obtain ⟨rfl, rfl⟩ := h
      refine ⟨[], List.replicate 7 ⟨0, none, 0⟩, 1, 1, _, rfl, rfl, ?_, ?_, ?_⟩
      · simp [liveList, liveL, Slot.live]
      · intro s hs
        simp only [List.nil_append, List.mem_replicate] at hs
        right; rw [hs.2]; rfl
      · intro r; simp [liveList]
    · rename_i t
      obtain ⟨htake, hmid⟩ := compactLoop_spec t.slots

      generalize compactLoop ⟨t.slots, none, 0, 0⟩ 0 t.slots.length = st at h htake hmid
      split at h
      · cases h
      · rename_i m hm
        · simp only [Prod.mk.injEq, Option.some.injEq] at h
          obtain ⟨rfl, rfl⟩ := h
          refine ⟨st.slots.take st.used, [], UInt64.ofNat m, m, _, rfl, rfl, ?_, ?_, ?_⟩
          · rw [htake, liveL_filter]; simp [liveList, liveL]
          · intro s hs
            simp only [List.append_nil, htake, List.mem_filter] at hs
            left; exact ⟨t, rfl, hs.1⟩
          · intro r hr
            rw [liveList_some, mem_liveL] at hr
            obtain ⟨s, hs, hl, he⟩ := hr
            simp only [Prod.mk.injEq] at he
            split at hm
            · -- low free id
              unfold lowFreeId at hm
              have := List.find?_some hm
              simp only [Option.isNone_iff_eq_none] at this
              have := commandFind_none this r
              apply this
              rw [htake, liveL_filter, mem_liveL]
              exact ⟨s, hs, hl, by rw [he.1, he.2]⟩
            · -- next id after the highest one
              rename_i hlt
              simp only [Option.some.injEq] at hm
              have h1 := hmid s hs
              have h2 := widthMax_le w
              have h3 : (UInt64.ofNat m).toNat = m := by
                rw [UInt64.toNat_ofNat']; omega
              have h4 := UInt64.le_iff_toNat_le.mp h1
              rw [← he.1, h3] at h4
              omega


/-- a refused `mpt_command_reserve` may have compacted the table, nothing else -/
theorem commandReserve_none {tab tab' : Option Table} {w : Nat} (h : commandReserve tab w = (tab', none)) :
    liveList tab' = liveList tab ∧
      (∀ t', tab' = some t' → ∃ t, tab = some t ∧ ∀ s, s ∈ t'.slots → s ∈ t.slots) := by
  unfold commandReserve at h
  simp only at h
  split at h
  · simp only [Prod.mk.injEq, and_true] at h
    subst h
    exact ⟨rfl, fun t' ht => ⟨t', ht, fun s hs => hs⟩⟩
  · split at h
    · cases h
    · rename_i t
      obtain ⟨htake, _⟩ := compactLoop_spec t.slots
      generalize compactLoop ⟨t.slots, none, 0, 0⟩ 0 t.slots.length = st at h htake
      have key : liveList (some { t with slots := st.slots.take st.used }) = liveList (some t) ∧
          (∀ t', some { t with slots := st.slots.take st.used } = some t' → ∃ t0, some t = some t0 ∧ ∀ s, s ∈ t'.slots → s ∈ t0.slots) := by
        refine ⟨?_, ?_⟩
        · simp only [liveList_some, htake, liveL_filter]
        · intro t' ht
          cases ht
          refine ⟨t, rfl, ?_⟩
          intro s hs
          simp only [htake, List.mem_filter] at hs
          exact hs.1
      split at h
      · simp only [Prod.mk.injEq, and_true] at h
        subst h; exact key
      · cases h


/- ---------- when `mpt_command_reserve` must succeed ---------- -/
theorem exists_not_mem_of_length_lt {α} [DecidableEq α] (L c : List α) (hc : c.Nodup) (hl : L.length < c.length) :
    ∃ x, x ∈ c ∧ x ∉ L := by
  induction L generalizing c with
  | nil =>
    cases c with
    | nil => simp at hl
    | cons x r => exact ⟨x, by simp, by simp⟩
  | cons a L' ih =>
    have hlen : L'.length < (c.erase a).length := by
      rw [List.length_erase]
      simp only [List.length_cons] at hl
      split <;> omega
    obtain ⟨x, hx, hn⟩ := ih (c.erase a) (hc.erase a) hlen
    have := (List.Nodup.mem_erase_iff hc).mp hx
    exact ⟨x, this.2, by simp [this.1, hn]⟩

theorem nodup_map_of_inj_on {α β} {f : α → β} {l : List α} (hl : l.Nodup)
    (hf : ∀ a, a ∈ l → ∀ b, b ∈ l → f a = f b → a = b) : (l.map f).Nodup := by
  unfold List.Nodup at *
  rw [List.pairwise_map]
  exact List.Pairwise.imp_of_mem (fun ha hb hne h => hne (hf _ ha _ hb h)) hl

theorem lowIds_nodup (n : Nat) : (lowIds n).Nodup := by
  unfold lowIds
  exact nodup_map_of_inj_on List.nodup_range (by intro a _ b _ h; omega)

theorem mem_lowIds {n x : Nat} : x ∈ lowIds n ↔ 1 ≤ x ∧ x ≤ n := by
  unfold lowIds
  simp only [List.mem_map, List.mem_range]
  constructor
  · rintro ⟨a, ha, rfl⟩; omega
  · intro h; exact ⟨x - 1, by omega, by omega⟩

/-- "try to find low free id" succeeds whenever some id in `1..max` is free: cutting the search after `used + 1`
    candidates (as the model does) loses nothing, because that many candidates cannot all be taken -/
theorem lowFreeId_some {slots : List Slot} {max i : Nat} (hmax : max ≤ 9223372036854775807) (h1 : 1 ≤ i) (h2 : i ≤ max)
    (hfree : ∀ r, (UInt64.ofNat i, r) ∉ liveL slots) : ∃ m, lowFreeId slots max = some m := by
  unfold lowFreeId
  cases hf : (lowIds (min max (slots.length + 1))).find? fun i => (commandFind slots (UInt64.ofNat i)).isNone with
  | some m => exact ⟨m, rfl⟩
  | none =>
    exfalso
    rw [List.find?_eq_none] at hf
    have hall : ∀ x, 1 ≤ x → x ≤ min max (slots.length + 1) → ∃ s, s ∈ slots ∧ s.live = true ∧ s.id = UInt64.ofNat x := by
      intro x hx1 hx2
      have := hf x (mem_lowIds.mpr ⟨hx1, hx2⟩)
      simp only [Option.isNone_iff_eq_none] at this
      cases hc : commandFind slots (UInt64.ofNat x) with
      | none => exact absurd hc this
      | some j =>
        obtain ⟨s, hs, hl, hid⟩ := commandFind_some hc
        exact ⟨s, List.mem_of_getElem? hs, hl, hid⟩
    by_cases hcase : max ≤ slots.length + 1
    · obtain ⟨s, hs, hl, hid⟩ := hall i h1 (by omega)
      apply hfree s.arg
      rw [mem_liveL]
      exact ⟨s, hs, hl, by rw [hid]⟩
    · -- more candidates than elements
      have hnd : ((lowIds (slots.length + 1)).map UInt64.ofNat).Nodup := by
        apply nodup_map_of_inj_on (lowIds_nodup _)
        intro a ha b hb hab
        rw [mem_lowIds] at ha hb
        have ha' : a < 2 ^ 64 := by omega
        have hb' : b < 2 ^ 64 := by omega
        have := congrArg UInt64.toNat hab
        rw [UInt64.toNat_ofNat', UInt64.toNat_ofNat'] at this
        omega
      obtain ⟨y, hy, hny⟩ := exists_not_mem_of_length_lt (slots.map (·.id)) _ hnd (by simp [lowIds])
      simp only [List.mem_map] at hy
      obtain ⟨x, hx, rfl⟩ := hy
      rw [mem_lowIds] at hx
      obtain ⟨s, hs, _, hid⟩ := hall x hx.1 (by omega)
      apply hny
      simp only [List.mem_map]
      exact ⟨s, hs, hid⟩

/-- `mpt_command_reserve` must succeed whenever the width class is valid and some id of its range is free -/
theorem commandReserve_succeeds (tab : Option Table) (w i : Nat) (hw : widthMax w ≠ 0) (h1 : 1 ≤ i) (h2 : i ≤ widthMax w)
    (hfree : ∀ r, (UInt64.ofNat i, r) ∉ liveList tab) : ∃ tab' idx, commandReserve tab w = (tab', some idx) := by
  unfold commandReserve
  simp only [hw, if_false]
  cases tab with
  | none => exact ⟨_, _, rfl⟩
  | some t =>
    simp only
    obtain ⟨htake, _⟩ := compactLoop_spec t.slots
    generalize compactLoop ⟨t.slots, none, 0, 0⟩ 0 t.slots.length = st at htake
    by_cases hmid : st.mid.toNat ≥ widthMax w
    · simp only [hmid, if_true]
      have hfree' : ∀ r, (UInt64.ofNat i, r) ∉ liveL (st.slots.take st.used) := by
        intro r
        rw [htake, liveL_filter]
        exact hfree r
      obtain ⟨m, hm⟩ := lowFreeId_some (widthMax_le w) h1 h2 hfree'
      rw [hm]
      exact ⟨_, _, rfl⟩
    · simp only [hmid, if_false]
      exact ⟨_, _, rfl⟩


end Mpt.Dispatch
