/-
  Helper lemmas for C15 (core Lean only).
-/
import MptModel.Impl.Refcount

namespace Mpt.Refcount

/-! ### the counter -/

theorem raise_eq (v : Nat) (h : v ≤ MAXV) :
    raise v = if v = 0 ∨ v = MAXV then (v, 0) else (v + 1, v + 1) := by
  unfold raise
  simp only [MAXV] at h ⊢
  by_cases h0 : v = 0
  · simp [h0]
  · by_cases hm : v = 18446744073709551615
    · subst hm; simp
    · have e : (v + 1) % (18446744073709551615 + 1) = v + 1 := by omega
      simp only [h0, hm, ↓reduceIte, e, or_self]
      have : v + 1 ≠ 0 := by omega
      simp [this]

theorem lower_eq (v : Nat) (h : v ≤ MAXV) :
    lower v = if v = 0 then (0, MAXV) else (v - 1, v - 1) := by
  unfold lower
  simp only [MAXV] at h ⊢
  by_cases h0 : v = 0
  · simp [h0]
  · have e : (v + 18446744073709551615) % (18446744073709551615 + 1) = v - 1 := by omega
    simp only [h0, ↓reduceIte, e]

/-! ### reading objects -/

theorem obj_alive_lt (s : St) (o : Nat) (h : (s.obj o).alive = true) : o < s.objs.length := by
  unfold St.obj at h
  rcases Nat.lt_or_ge o s.objs.length with hl | hl
  · exact hl
  · rw [List.getD_eq_getElem?_getD, List.getElem?_eq_none hl] at h
    exact absurd h (by decide)

theorem getD_set (l : List RObj) (o o' : Nat) (x : RObj) :
    (l.set o x).getD o' default = if o' = o ∧ o < l.length then x else l.getD o' default := by
  simp only [List.getD_eq_getElem?_getD, List.getElem?_set]
  by_cases h : o = o'
  · subst h
    by_cases hl : o < l.length
    · simp [hl]
    · simp [hl, List.getElem?_eq_none (Nat.le_of_not_lt hl)]
  · have : ¬ o' = o := fun e => h e.symm
    simp [h, this]

/-- references held by handles -/
def hrefs (hnd : List (Option Nat)) (o : Nat) : Nat := (hnd.filter (· == some o)).length

theorem hrefs_set (hnd : List (Option Nat)) (h : Nat) (v : Option Nat) (o : Nat) (hl : h < hnd.length) :
    hrefs (hnd.set h v) o + (if hnd.getD h none = some o then 1 else 0) =
      hrefs hnd o + (if v = some o then 1 else 0) := by
  unfold hrefs
  induction hnd generalizing h with
  | nil => simp at hl
  | cons a r ih =>
    cases h with
    | zero =>
      simp only [List.set_cons_zero, List.filter_cons, List.getD_cons_zero]
      by_cases h1 : v = some o <;> by_cases h2 : a = some o <;> simp [h1, h2] <;> omega
    | succ n =>
      simp only [List.set_cons_succ, List.filter_cons, List.getD_cons_succ]
      have := ih n (by simpa using hl)
      by_cases h2 : (a == some o) = true
      · simp only [h2, ↓reduceIte, List.length_cons]; omega
      · simp only [h2, Bool.false_eq_true, ↓reduceIte]; exact this

/-! ### the vtable operations -/

theorem obj_setobjs (s : St) (o o' : Nat) (x : RObj) (ev : List Ev) (el : List ElEv) :
    ({ s with objs := s.objs.set o x, ev := ev, elog := el } : St).obj o' =
      if o' = o ∧ o < s.objs.length then x else s.obj o' := by
  unfold St.obj; exact getD_set _ _ _ _

/-- vtable addref: the object afterwards -/
theorem addref_obj (s : St) (o o' : Nat) :
    (s.addref o).1.obj o' =
      if o' = o ∧ (s.obj o).alive = true then { s.obj o with count := (raise (s.obj o).count).1 } else s.obj o' := by
  unfold St.addref
  simp only []
  by_cases ha : (s.obj o).alive = true
  · have hl := obj_alive_lt s o ha
    simp only [ha, Bool.not_true, Bool.false_eq_true, ↓reduceIte, and_true]
    unfold St.obj
    simp only [getD_set, hl, and_true]
  · have ha' : (s.obj o).alive = false := by simpa using ha
    simp only [ha', Bool.not_false, ↓reduceIte, Bool.false_eq_true, and_false]
    rfl

theorem addref_hnd (s : St) (o : Nat) : (s.addref o).1.hnd = s.hnd := by
  unfold St.addref; simp only []; split <;> rfl

theorem addref_ret (s : St) (o : Nat) :
    (s.addref o).2 = if (s.obj o).alive = true then (raise (s.obj o).count).2 else 0 := by
  unfold St.addref; simp only []; by_cases ha : (s.obj o).alive = true <;> simp [ha]

/-- vtable unref: the object afterwards -/
theorem unref_obj (s : St) (o o' : Nat) :
    (s.unref o).obj o' =
      if o' = o ∧ (s.obj o).alive = true then
        { s.obj o with count := (lower (s.obj o).count).1, alive := decide ((lower (s.obj o).count).2 ≠ 0) }
      else s.obj o' := by
  unfold St.unref
  simp only []
  by_cases ha : (s.obj o).alive = true
  · have hl := obj_alive_lt s o ha
    simp only [ha, Bool.not_true, Bool.false_eq_true, ↓reduceIte, and_true]
    by_cases hr : (lower (s.obj o).count).2 = 0
    · simp only [hr, ne_eq, not_true_eq_false, ↓reduceIte, decide_false]
      unfold St.obj
      simp only [getD_set, hl, and_true]
    · simp only [hr, ne_eq, not_false_eq_true, ↓reduceIte, decide_true]
      unfold St.obj
      simp only [getD_set, hl, and_true]
  · have ha' : (s.obj o).alive = false := by simpa using ha
    simp only [ha', Bool.not_false, ↓reduceIte, Bool.false_eq_true, and_false]
    rfl

theorem unref_hnd (s : St) (o : Nat) : (s.unref o).hnd = s.hnd := by
  unfold St.unref; simp only []; (repeat' split) <;> rfl

/-! ### the invariant, with a balance for operations in progress -/

/-- the count of every object is the number of references to it — external ones, handles, and a balance
    `p o` of references an operation in progress has retained but not yet stored (positive) or released but
    still stored (negative); it never exceeds the largest counter value; a destroyed object has none -/
def InvP (s : St) (p : Nat → Int) : Prop :=
  ∀ o, ((s.obj o).count : Int) = (s.obj o).ext + hrefs s.hnd o + p o ∧ (s.obj o).count ≤ MAXV ∧
    ((s.obj o).alive = false → (s.obj o).count = 0)

/-- indicator of `v = some x` -/
def ind (v : Option Nat) (x : Nat) : Int := if v = some x then 1 else 0

theorem invP_congr (s : St) (p q : Nat → Int) (h : InvP s p) (e : ∀ x, p x = q x) : InvP s q := by
  intro o; rw [← e o]; exact h o

theorem addref_invP (s : St) (p : Nat → Int) (o : Nat) (hI : InvP s p) :
    InvP (s.addref o).1 (fun x => p x + (if (s.addref o).2 = 0 then 0 else ind (some o) x)) := by
  intro o'
  obtain ⟨h1, h2, h3⟩ := hI o'
  obtain ⟨g1, g2, g3⟩ := hI o
  rw [addref_ret, addref_obj, addref_hnd]
  by_cases ha : (s.obj o).alive = true
  · simp only [ha, ↓reduceIte, and_true]
    rw [raise_eq _ g2]
    by_cases hc : (s.obj o).count = 0 ∨ (s.obj o).count = MAXV
    · simp only [hc, ↓reduceIte, Int.add_zero]
      by_cases e : o' = o
      · subst e; simp only [↓reduceIte]; exact ⟨h1, h2, fun hd => by cases hd⟩
      · simp only [e, ↓reduceIte]; exact ⟨h1, h2, h3⟩
    · have hne : (s.obj o).count + 1 ≠ 0 := by omega
      simp only [hc, ↓reduceIte, hne, ind, Option.some.injEq]
      by_cases e : o' = o
      · subst e
        simp only [↓reduceIte]
        simp only [MAXV] at *
        exact ⟨by omega, by omega, fun hd => by cases hd⟩
      · have e' : ¬ o = o' := fun x => e x.symm
        simp only [e, e', ↓reduceIte, Int.add_zero]; exact ⟨h1, h2, h3⟩
  · have ha' : (s.obj o).alive = false := by simpa using ha
    simp only [ha', Bool.false_eq_true, ↓reduceIte, and_false, Int.add_zero]
    exact ⟨h1, h2, h3⟩

/-- releasing a reference of an object that has one -/
theorem unref_invP (s : St) (p : Nat → Int) (o : Nat) (hI : InvP s p) (hpos : 1 ≤ (s.obj o).count) :
    InvP (s.unref o) (fun x => p x - ind (some o) x) := by
  intro o'
  obtain ⟨h1, h2, h3⟩ := hI o'
  obtain ⟨g1, g2, g3⟩ := hI o
  have ha : (s.obj o).alive = true := by
    cases hx : (s.obj o).alive with
    | true => rfl
    | false => have := g3 hx; omega
  rw [unref_obj, unref_hnd]
  simp only [ha, and_true]
  rw [lower_eq _ g2]
  have hne : ¬ (s.obj o).count = 0 := by omega
  simp only [hne, ↓reduceIte, ind, Option.some.injEq]
  by_cases e : o' = o
  · subst e
    simp only [↓reduceIte]
    refine ⟨by omega, by omega, ?_⟩
    intro hd
    simp only [ne_eq, decide_not, Bool.not_eq_eq_eq_not, Bool.not_false, decide_eq_true_eq] at hd
    exact hd
  · have e' : ¬ o = o' := fun x => e x.symm
    simp only [e, e', ↓reduceIte, Int.sub_zero]; exact ⟨h1, h2, h3⟩

/-- storing `v` in handle `h` -/
theorem sethnd_invP (s : St) (p : Nat → Int) (h : Nat) (v : Option Nat) (hI : InvP s p) (hh : h < s.hnd.length) :
    InvP { s with hnd := s.hnd.set h v } (fun x => p x + ind (s.hnd.getD h none) x - ind v x) := by
  intro o'
  obtain ⟨h1, h2, h3⟩ := hI o'
  have hs := hrefs_set s.hnd h v o' hh
  refine ⟨?_, h2, h3⟩
  show ((s.obj o').count : Int) = (s.obj o').ext + hrefs (s.hnd.set h v) o' + _
  simp only [ind]
  by_cases e1 : s.hnd.getD h none = some o' <;> by_cases e2 : v = some o' <;>
    simp only [e1, e2, ↓reduceIte] at hs ⊢ <;> omega

theorem hrefs_pos (hnd : List (Option Nat)) (h o : Nat) (e : hnd.getD h none = some o) : 1 ≤ hrefs hnd o := by
  unfold hrefs
  have hm : some o ∈ hnd := by
    rw [List.getD_eq_getElem?_getD] at e
    cases hg : hnd[h]? with
    | none => rw [hg] at e; cases e
    | some v => rw [hg] at e; simp at e; subst e; exact List.mem_of_getElem? hg
  have : some o ∈ hnd.filter (· == some o) := by simp [List.mem_filter, hm]
  exact List.length_pos_of_mem this

/-! ### the generic operations keep the invariant -/

/-- **count = number of references** (external ones + handles), bounded, and nothing left on a destroyed object -/
def Inv (s : St) : Prop := InvP s (fun _ => 0)

theorem take_inv (s : St) (h o : Nat) (hI : Inv s) (hh : h < s.hnd.length) (he : s.hnd.getD h none = none) :
    Inv (s.take h o).1 := by
  unfold St.take
  have a := addref_invP s _ o hI
  by_cases hr : (s.addref o).2 = 0
  · simp only [hr, ↓reduceIte] at a ⊢
    exact invP_congr _ _ _ a (fun x => by simp)
  · simp only [hr, ↓reduceIte] at a ⊢
    have b := sethnd_invP (s.addref o).1 _ h (some o) a (by rw [addref_hnd]; exact hh)
    refine invP_congr _ _ _ b (fun x => ?_)
    simp only [addref_hnd, he, ind, reduceCtorEq, ↓reduceIte]
    omega

theorem copy_inv (s : St) (h g : Nat) (hI : Inv s) (hh : h < s.hnd.length) (he : s.hnd.getD h none = none) :
    Inv (s.copy h g).1 := by
  unfold St.copy
  split
  · exact hI
  · exact take_inv s h _ hI hh he

theorem drop_inv (s : St) (h : Nat) (hI : Inv s) (hh : h < s.hnd.length) : Inv (s.drop h) := by
  unfold St.drop
  cases e : s.hnd.getD h none with
  | none => exact hI
  | some o =>
    simp only []
    have hp : 1 ≤ (s.obj o).count := by
      have h0 := (hI o).1; simp only [Int.add_zero] at h0
      have := hrefs_pos s.hnd h o e; omega
    have a := unref_invP s _ o hI hp
    have b := sethnd_invP (s.unref o) _ h none a (by rw [unref_hnd]; exact hh)
    refine invP_congr _ _ _ b (fun x => ?_)
    simp only [unref_hnd, e, ind, reduceCtorEq, ↓reduceIte]
    omega

/-- retaining the source of an assignment -/
theorem retain_invP (s : St) (src : Option Nat) (hI : Inv s) :
    InvP (s.retain src).1 (fun x => if (s.retain src).2 then ind src x else 0) ∧ (s.retain src).1.hnd = s.hnd := by
  unfold St.retain
  cases src with
  | none => exact ⟨invP_congr _ _ _ hI (fun x => by simp [ind]), rfl⟩
  | some n =>
    simp only []
    refine ⟨?_, addref_hnd s n⟩
    have a := addref_invP s _ n hI
    refine invP_congr _ _ _ a (fun x => ?_)
    by_cases hr : (s.addref n).2 = 0 <;> simp [hr]

theorem release_invP (s : St) (p : Nat → Int) (old : Option Nat) (hI : InvP s p)
    (hp : ∀ b, old = some b → 1 ≤ (s.obj b).count) :
    InvP (s.release old) (fun x => p x - ind old x) ∧ (s.release old).hnd = s.hnd := by
  unfold St.release
  cases old with
  | none => exact ⟨invP_congr _ _ _ hI (fun x => by simp [ind]), rfl⟩
  | some b => exact ⟨unref_invP s p b hI (hp b rfl), unref_hnd s b⟩

theorem assignMeta_inv (s : St) (h : Nat) (src : Option Nat) (hI : Inv s) (hh : h < s.hnd.length) :
    Inv (s.assignMeta h src).1 := by
  unfold St.assignMeta
  obtain ⟨a, ah⟩ := retain_invP s src hI
  by_cases hr : (s.retain src).2 = true
  · simp only [hr, Bool.not_true, Bool.false_eq_true, ↓reduceIte] at a ⊢
    have hp : ∀ b, s.hnd.getD h none = some b → 1 ≤ ((s.retain src).1.obj b).count := by
      intro b hb
      have h1 := (a b).1
      have h2 := hrefs_pos s.hnd h b hb
      rw [ah] at h1
      simp only [ind] at h1
      split at h1 <;> omega
    obtain ⟨b, bh⟩ := release_invP (s.retain src).1 _ (s.hnd.getD h none) a hp
    have c := sethnd_invP _ _ h src b (by rw [bh, ah]; exact hh)
    refine invP_congr _ _ _ c (fun x => ?_)
    simp only [bh, ah]
    omega
  · have hr' : (s.retain src).2 = false := by simpa using hr
    simp only [hr', Bool.not_false, ↓reduceIte, Bool.false_eq_true] at a ⊢
    exact a

theorem assignArr_inv (s : St) (h : Nat) (src : Option Nat) (hI : Inv s) (hh : h < s.hnd.length) :
    Inv (s.assignArr h src).1 := by
  unfold St.assignArr
  split
  · exact hI
  · split
    · exact hI
    · obtain ⟨a, ah⟩ := retain_invP s src hI
      by_cases hr : (s.retain src).2 = true
      · simp only [hr, Bool.not_true, Bool.false_eq_true, ↓reduceIte] at a ⊢
        have c := sethnd_invP _ _ h src a (by rw [ah]; exact hh)
        rw [ah] at c
        have hp : ∀ b, s.hnd.getD h none = some b →
            1 ≤ (({ (s.retain src).1 with hnd := s.hnd.set h src } : St).obj b).count := by
          intro b hb
          have h1 := (a b).1
          have h2 := hrefs_pos s.hnd h b hb
          rw [ah] at h1
          show 1 ≤ ((s.retain src).1.obj b).count
          simp only [ind] at h1
          split at h1 <;> omega
        obtain ⟨d, _⟩ := release_invP _ _ (s.hnd.getD h none) c hp
        rw [ah]
        refine invP_congr _ _ _ d (fun x => ?_)
        omega
      · have hr' : (s.retain src).2 = false := by simpa using hr
        simp only [hr', Bool.not_false, ↓reduceIte, Bool.false_eq_true] at a ⊢
        exact a

/-! ### external references -/

theorem obj_lt_of_ext (s : St) (o : Nat) (h : 1 ≤ (s.obj o).ext) : o < s.objs.length := by
  unfold St.obj at h
  rcases Nat.lt_or_ge o s.objs.length with hl | hl
  · exact hl
  · rw [List.getD_eq_getElem?_getD, List.getElem?_eq_none hl] at h
    exact absurd h (by decide)

/-- changing the number of external references of object `o` -/
theorem setext_invP (s : St) (p : Nat → Int) (o n : Nat) (hI : InvP s p) (hl : o < s.objs.length) :
    InvP { s with objs := s.objs.set o { (s.obj o) with ext := n } }
      (fun x => p x - (if x = o then (n : Int) - (s.obj o).ext else 0)) := by
  intro o'
  obtain ⟨h1, h2, h3⟩ := hI o'
  have e : ({ s with objs := s.objs.set o { (s.obj o) with ext := n } } : St).obj o' =
      if o' = o ∧ o < s.objs.length then { (s.obj o) with ext := n } else s.obj o' := by
    unfold St.obj; exact getD_set _ _ _ _
  rw [e]
  show _ = _ + (hrefs s.hnd o' : Int) + _ ∧ _
  by_cases eo : o' = o
  · subst eo
    simp only [hl, and_self, ↓reduceIte]
    exact ⟨by omega, h2, h3⟩
  · simp only [eo, false_and, ↓reduceIte, Int.sub_zero]
    exact ⟨h1, h2, h3⟩

theorem extAdd_inv (s : St) (o : Nat) (hI : Inv s) : Inv (s.extAdd o).1 := by
  unfold St.extAdd
  have a := addref_invP s _ o hI
  by_cases hr : (s.addref o).2 = 0
  · simp only [hr, ne_eq, not_true_eq_false, ↓reduceIte] at a ⊢
    exact invP_congr _ _ _ a (fun x => by simp)
  · simp only [hr, ne_eq, not_false_eq_true, ↓reduceIte] at a ⊢
    have hal : (s.obj o).alive = true := by
      rw [addref_ret] at hr
      by_cases ha : (s.obj o).alive = true
      · exact ha
      · simp [ha] at hr
    have hl : o < (s.addref o).1.objs.length := by
      have := obj_alive_lt s o hal
      unfold St.addref; simp only []; split <;> simp [this]
    have b := setext_invP (s.addref o).1 _ o (((s.addref o).1.obj o).ext + 1) a hl
    refine invP_congr _ _ _ b (fun x => ?_)
    simp only [ind, Option.some.injEq]
    by_cases e : x = o
    · subst e; simp only [↓reduceIte]; omega
    · have e' : ¬ o = x := fun y => e y.symm
      simp only [e, e', ↓reduceIte]; omega

theorem extUnref_inv (s : St) (o : Nat) (hI : Inv s) (he : 1 ≤ (s.obj o).ext) : Inv (s.extUnref o) := by
  unfold St.extUnref
  have h0 := (hI o).1
  simp only [Int.add_zero] at h0
  have hp : 1 ≤ (s.obj o).count := by omega
  have a := unref_invP s _ o hI hp
  have hl : o < (s.unref o).objs.length := by
    have := obj_lt_of_ext s o he
    unfold St.unref; simp only []; (repeat' split) <;> simp [this]
  have hext : ((s.unref o).obj o).ext = (s.obj o).ext := by
    rw [unref_obj]; split <;> rfl
  have b := setext_invP (s.unref o) _ o (((s.unref o).obj o).ext - 1) a hl
  refine invP_congr _ _ _ b (fun x => ?_)
  simp only [ind, Option.some.injEq, hext]
  by_cases e : x = o
  · subst e; simp only [↓reduceIte]; omega
  · have e' : ¬ o = x := fun y => e y.symm
    simp only [e, e', ↓reduceIte]; omega

/-! ### external references are only changed by the `ext` operations -/

theorem addref_ext (s : St) (o x : Nat) : ((s.addref o).1.obj x).ext = (s.obj x).ext := by
  rw [addref_obj]; split
  · rename_i h; rw [h.1]
  · rfl

theorem unref_ext (s : St) (o x : Nat) : ((s.unref o).obj x).ext = (s.obj x).ext := by
  rw [unref_obj]; split
  · rename_i h; rw [h.1]
  · rfl

theorem retain_ext (s : St) (src : Option Nat) (x : Nat) : ((s.retain src).1.obj x).ext = (s.obj x).ext := by
  unfold St.retain; cases src with
  | none => rfl
  | some n => exact addref_ext s n x

theorem release_ext (s : St) (old : Option Nat) (x : Nat) : ((s.release old).obj x).ext = (s.obj x).ext := by
  unfold St.release; cases old with
  | none => rfl
  | some n => exact unref_ext s n x

theorem release_hnd (s : St) (old : Option Nat) : (s.release old).hnd = s.hnd := by
  unfold St.release; cases old with
  | none => rfl
  | some n => exact unref_hnd s n

theorem retain_hnd (s : St) (src : Option Nat) : (s.retain src).1.hnd = s.hnd := by
  unfold St.retain; cases src with
  | none => rfl
  | some n => exact addref_hnd s n

/-- counts are determined by the invariant: same external references and handles, same counts -/
theorem count_of_inv (s : St) (hI : Inv s) (x : Nat) : ((s.obj x).count : Int) = (s.obj x).ext + hrefs s.hnd x := by
  have := (hI x).1; simpa using this

/-! ### detach of a library heap buffer -/

/-- a state whose objects have the same counter, flags and external references and whose handles are the
    same satisfies the same invariant -/
theorem invP_of_same (s s' : St) (p : Nat → Int) (hI : InvP s p) (hh : s'.hnd = s.hnd)
    (ho : ∀ x, (s'.obj x).count = (s.obj x).count ∧ (s'.obj x).ext = (s.obj x).ext ∧ (s'.obj x).alive = (s.obj x).alive) :
    InvP s' p := by
  intro x
  obtain ⟨a, b, c⟩ := ho x
  rw [a, b, c, hh]
  exact hI x

theorem clearElems_invP (s : St) (p : Nat → Int) (o : Nat) (hI : InvP s p) :
    InvP { s with objs := s.objs.set o { (s.obj o) with elems := [] } } p := by
  refine invP_of_same s _ p hI rfl ?_
  intro x
  have e : ({ s with objs := s.objs.set o { (s.obj o) with elems := [] } } : St).obj x =
      if x = o ∧ o < s.objs.length then { (s.obj o) with elems := [] } else s.obj x := by
    unfold St.obj; exact getD_set _ _ _ _
  rw [e]
  split
  · rename_i h; rw [h.1]; exact ⟨rfl, rfl, rfl⟩
  · exact ⟨rfl, rfl, rfl⟩

/-- appending a new object that holds one reference -/
theorem push_invP (s : St) (p : Nat → Int) (nb : RObj) (ev : List Ev) (hI : InvP s p)
    (hn : nb.count = 1 ∧ nb.ext = 0 ∧ nb.alive = true) :
    InvP { s with objs := s.objs ++ [nb], ev := ev } (fun x => p x + (if x = s.objs.length then 1 else 0)) := by
  intro x
  obtain ⟨h1, h2, h3⟩ := hI x
  have e : ({ s with objs := s.objs ++ [nb], ev := ev } : St).obj x =
      if x = s.objs.length then nb else s.obj x := by
    unfold St.obj
    simp only [List.getD_eq_getElem?_getD]
    by_cases hx : x = s.objs.length
    · subst hx; simp
    · simp only [hx, ↓reduceIte]
      rcases Nat.lt_or_ge x s.objs.length with hl | hl
      · rw [List.getElem?_append_left hl]
      · have : s.objs.length + 1 ≤ x := by omega
        rw [List.getElem?_eq_none (by simp; omega), List.getElem?_eq_none hl]
  rw [e]
  show _ = _ + (hrefs s.hnd x : Int) + _ ∧ _
  by_cases hx : x = s.objs.length
  · subst hx
    simp only [↓reduceIte, hn.1, hn.2.1, hn.2.2]
    have hd : s.obj s.objs.length = default := by
      unfold St.obj; rw [List.getD_eq_getElem?_getD, List.getElem?_eq_none (Nat.le_refl _)]; rfl
    rw [hd] at h1
    have hz : ((default : RObj).count : Int) = 0 := by decide
    have hz2 : ((default : RObj).ext : Int) = 0 := by decide
    rw [hz, hz2] at h1
    refine ⟨by simp only [MAXV] at *; omega, by simp [MAXV], fun h => by cases h⟩
  · simp only [hx, ↓reduceIte, Int.add_zero]; exact ⟨h1, h2, h3⟩

theorem relocateWith_inv (s : St) (h o newcap : Nat) (clear : Bool) (els : List Nat) (hI : Inv s) (hh : h < s.hnd.length)
    (ho : s.hnd.getD h none = some o) : Inv (s.relocateWith h o newcap clear els) := by
  unfold St.relocateWith
  simp only []
  -- step 1: elements cleared or copies logged
  have a : ∃ s1 : St, s1 = (if clear = true then ({ s with objs := s.objs.set o { (s.obj o) with elems := [] } } : St)
      else { s with elog := s.elog ++ els.map ElEv.copy }) ∧ InvP s1 (fun _ => 0) ∧ s1.hnd = s.hnd ∧
      (s1.obj o).count = (s.obj o).count := by
    refine ⟨_, rfl, ?_, ?_, ?_⟩
    · by_cases hc : clear = true
      · simp only [hc, ↓reduceIte]; exact clearElems_invP s _ o hI
      · simp only [hc, ↓reduceIte]; exact invP_of_same s _ _ hI rfl (fun x => ⟨rfl, rfl, rfl⟩)
    · by_cases hc : clear = true <;> simp [hc]
    · by_cases hc : clear = true
      · simp only [hc, ↓reduceIte]
        have e : ({ s with objs := s.objs.set o { (s.obj o) with elems := [] } } : St).obj o =
            if o = o ∧ o < s.objs.length then { (s.obj o) with elems := [] } else s.obj o := by
          unfold St.obj; exact getD_set _ _ _ _
        rw [e]; split <;> rfl
      · simp only [hc, ↓reduceIte]; rfl
  obtain ⟨s1, hs1, i1, hh1, hc1⟩ := a
  rw [← hs1]
  have hp : 1 ≤ (s1.obj o).count := by
    have h0 := (hI o).1; simp only [Int.add_zero] at h0
    have := hrefs_pos s.hnd h o ho
    rw [hc1]; omega
  have i2 := unref_invP s1 _ o i1 hp
  have i3 := push_invP (s1.unref o) _
    { kind := .rbuf, count := 1, alive := true, ext := 0, elems := els, cap := newcap }
    ((s1.unref o).ev ++ [({} : Ev)]) i2 ⟨rfl, rfl, rfl⟩
  have i4 := sethnd_invP _ _ h (some (s1.unref o).objs.length) i3 (by
    show h < (s1.unref o).hnd.length
    rw [unref_hnd, hh1]; exact hh)
  refine invP_congr _ _ _ i4 (fun x => ?_)
  show (0 : Int) - ind (some o) x + (if x = (s1.unref o).objs.length then 1 else 0)
      + ind ((s1.unref o).hnd.getD h none) x - ind (some (s1.unref o).objs.length) x = 0
  rw [unref_hnd, hh1, ho]
  generalize (s1.unref o).objs.length = L
  simp only [ind, Option.some.injEq]
  by_cases e1 : o = x
  · subst e1
    by_cases e2 : o = L
    · subst e2; simp only [↓reduceIte]; omega
    · have e2' : ¬ L = o := fun y => e2 y.symm
      simp only [e2, e2', ↓reduceIte]; omega
  · by_cases e2 : x = L
    · subst e2; simp only [e1, ↓reduceIte]; omega
    · have e2' : ¬ L = x := fun y => e2 y.symm
      simp only [e1, e2, e2', ↓reduceIte]; omega

theorem relocate_inv (s : St) (h o newcap : Nat) (clear : Bool) (hI : Inv s) (hh : h < s.hnd.length)
    (ho : s.hnd.getD h none = some o) : Inv (s.relocate h o newcap clear) :=
  relocateWith_inv s h o newcap clear _ hI hh ho

theorem detach_inv (s : St) (h len : Nat) (hI : Inv s) (hh : h < s.hnd.length) : Inv (s.detach h len).1 := by
  unfold St.detach
  cases ho : s.hnd.getD h none with
  | none => exact hI
  | some o =>
    simp only []
    split
    · split
      · exact hI
      · exact relocate_inv s h o _ true hI hh ho
    · split
      · exact hI
      · exact relocate_inv s h o _ false hI hh ho

/-- a refused detach changes nothing at all -/
theorem detach_refused (s : St) (h len : Nat) (hr : (s.detach h len).2 = false) : (s.detach h len).1 = s := by
  unfold St.detach at hr ⊢
  cases ho : s.hnd.getD h none with
  | none => rfl
  | some o =>
    simp only [ho] at hr ⊢
    (repeat' split at hr) <;> first | (cases hr; done) | skip
    all_goals (repeat' split) <;> first | rfl | simp_all


theorem reserve_inv (s : St) (h len : Nat) (hI : Inv s) (hh : h < s.hnd.length) : Inv (s.reserve h len).1 := by
  unfold St.reserve
  cases ho : s.hnd.getD h none with
  | none =>
    simp only []
    have a := push_invP s _ { kind := .rbuf, count := 1, alive := true, ext := 0, elems := [], cap := capOf (len * 8) }
      (s.ev ++ [({} : Ev)]) hI ⟨rfl, rfl, rfl⟩
    have b := sethnd_invP _ _ h (some s.objs.length) a (by show h < s.hnd.length; exact hh)
    refine invP_congr _ _ _ b (fun x => ?_)
    show (0 : Int) + (if x = s.objs.length then 1 else 0) + ind (s.hnd.getD h none) x - ind (some s.objs.length) x = 0
    rw [ho]
    generalize s.objs.length = L
    simp only [ind, reduceCtorEq, ↓reduceIte, Option.some.injEq]
    by_cases e : x = L
    · subst e; simp only [↓reduceIte]; omega
    · have e' : ¬ L = x := fun y => e y.symm
      simp only [e, e', ↓reduceIte]; omega
  | some o =>
    simp only []
    split
    · exact relocateWith_inv s h o _ false _ hI hh ho
    · exact detach_inv s h len hI hh

/-! ### unique_array -/

theorem uaPrivate_inv (s : St) (a : Nat) (hI : Inv s) (hh : a < s.hnd.length) : Inv (s.uaPrivate a).1 := by
  unfold St.uaPrivate
  cases ho : s.hnd.getD a none with
  | none =>
    simp only []
    have x := push_invP s _ { kind := .rbuf, count := 1, alive := true, ext := 0, elems := [] }
      (s.ev ++ [({} : Ev)]) hI ⟨rfl, rfl, rfl⟩
    have b := sethnd_invP _ _ a (some s.objs.length) x (by show a < s.hnd.length; exact hh)
    refine invP_congr _ _ _ b (fun x => ?_)
    show (0 : Int) + (if x = s.objs.length then 1 else 0) + ind (s.hnd.getD a none) x - ind (some s.objs.length) x = 0
    rw [ho]
    generalize s.objs.length = L
    simp only [ind, reduceCtorEq, ↓reduceIte, Option.some.injEq]
    by_cases e : x = L
    · subst e; simp only [↓reduceIte]; omega
    · have e' : ¬ L = x := fun y => e y.symm
      simp only [e, e', ↓reduceIte]; omega
  | some b =>
    simp only []
    split
    · split
      · exact relocateWith_inv s a b _ false _ hI hh ho
      · exact hI
    · exact hI

/-- a refused `unique_array<T>::reserve()` leaves everything as it was: the handle still names the buffer -/
theorem uaPrivate_refused (s : St) (a : Nat) (hr : (s.uaPrivate a).2 = false) : (s.uaPrivate a).1 = s := by
  unfold St.uaPrivate at hr ⊢
  cases ho : s.hnd.getD a none with
  | none => rw [ho] at hr; simp at hr
  | some b =>
    simp only [ho] at hr ⊢
    (repeat' split at hr) <;> first | (cases hr; done) | skip
    all_goals (repeat' split) <;> first | rfl | simp_all

theorem uaSetLen_inv (s : St) (a n : Nat) (hI : Inv s) : Inv (s.uaSetLen a n) := by
  unfold St.uaSetLen
  split
  · exact hI
  · rename_i b _
    refine invP_of_same s _ _ hI rfl ?_
    intro x
    have e : ({ s with objs := s.objs.set b { (s.obj b) with elems := List.replicate n 0 } } : St).obj x =
        if x = b ∧ b < s.objs.length then { (s.obj b) with elems := List.replicate n 0 } else s.obj x := by
      unfold St.obj; exact getD_set _ _ _ _
    rw [e]
    split
    · rename_i h; rw [h.1]; exact ⟨rfl, rfl, rfl⟩
    · exact ⟨rfl, rfl, rfl⟩

/-! ### the C++ handle class -/

theorem assignRef_inv (s : St) (h : Nat) (src : Option Nat) (hI : Inv s) (hh : h < s.hnd.length) :
    Inv (s.assignRef h src) := by
  unfold St.assignRef
  split
  · exact hI
  · obtain ⟨a, ah⟩ := retain_invP s src hI
    have hp : ∀ b, s.hnd.getD h none = some b → 1 ≤ ((s.retain src).1.obj b).count := by
      intro b hb
      have h1 := (a b).1
      have h2 := hrefs_pos s.hnd h b hb
      rw [ah] at h1
      simp only [ind] at h1
      (repeat' split at h1) <;> omega
    obtain ⟨b, bh⟩ := release_invP (s.retain src).1 _ (s.hnd.getD h none) a hp
    have c := sethnd_invP _ _ h (if (s.retain src).2 then src else none) b (by rw [bh, ah]; exact hh)
    refine invP_congr _ _ _ c (fun x => ?_)
    simp only [bh, ah]
    by_cases hr : (s.retain src).2 = true
    · simp only [hr, ↓reduceIte]; omega
    · have hr' : (s.retain src).2 = false := by simpa using hr
      simp only [hr', Bool.false_eq_true, ↓reduceIte, ind, reduceCtorEq]; omega

theorem moveRef_inv (s : St) (h g : Nat) (hI : Inv s) (hh : h < s.hnd.length) (hg : g < s.hnd.length) :
    Inv (s.moveRef h g) := by
  unfold St.moveRef
  split
  · exact hI
  · rename_i hne
    have a := sethnd_invP s _ g none hI hg
    have hgd : ({ s with hnd := s.hnd.set g none } : St).hnd.getD h none = s.hnd.getD h none := by
      show (s.hnd.set g none).getD h none = _
      simp only [List.getD_eq_getElem?_getD]
      rw [List.getElem?_set_ne (fun e => hne e.symm)]
    have hp : ∀ b, s.hnd.getD h none = some b → 1 ≤ (({ s with hnd := s.hnd.set g none } : St).obj b).count := by
      intro b hb
      show 1 ≤ (s.obj b).count
      have h0 := (hI b).1; simp only [Int.add_zero] at h0
      have := hrefs_pos s.hnd h b hb
      omega
    obtain ⟨b, bh⟩ := release_invP _ _ (s.hnd.getD h none) a hp
    have c := sethnd_invP _ _ h (s.hnd.getD g none) b (by rw [bh]; show h < (s.hnd.set g none).length; simpa using hh)
    refine invP_congr _ _ _ c (fun x => ?_)
    rw [bh, hgd]
    simp only [ind, reduceCtorEq, ↓reduceIte]
    omega

theorem detachRef_inv (s : St) (h : Nat) (hI : Inv s) (hh : h < s.hnd.length) : Inv (s.detachRef h) := by
  unfold St.detachRef
  cases ho : s.hnd.getD h none with
  | none => exact hI
  | some o =>
    simp only []
    have hl : o < s.objs.length := by
      have h0 := (hI o).1; simp only [Int.add_zero] at h0
      have := hrefs_pos s.hnd h o ho
      have hc : 1 ≤ (s.obj o).count := by omega
      have ha : (s.obj o).alive = true := by
        cases hx : (s.obj o).alive with
        | true => rfl
        | false => have := (hI o).2.2 hx; omega
      exact obj_alive_lt s o ha
    have a := sethnd_invP s _ h none hI hh
    have b := setext_invP ({ s with hnd := s.hnd.set h none } : St) _ o ((s.obj o).ext + 1) a hl
    refine invP_congr _ _ _ b (fun x => ?_)
    show (0 : Int) + ind (s.hnd.getD h none) x - ind none x - (if x = o then (((s.obj o).ext + 1 : Nat) : Int) - (s.obj o).ext else 0) = 0
    rw [ho]
    simp only [ind, Option.some.injEq, reduceCtorEq, ↓reduceIte]
    by_cases e : x = o
    · subst e; simp only [↓reduceIte]; omega
    · have e' : ¬ o = x := fun y => e y.symm
      simp only [e, e', ↓reduceIte]; omega

theorem cascade_inv (s : St) (nroot fuel : Nat) (hI : Inv s) (hl : ∀ o, o < s.objs.length → nroot + o < s.hnd.length) :
    Inv (s.cascade nroot fuel) := by
  induction fuel generalizing s with
  | zero => exact hI
  | succ n ih =>
    unfold St.cascade
    cases hp : s.pendingOwner nroot with
    | none => exact hI
    | some o =>
      simp only []
      have ho : o < s.objs.length := by
        unfold St.pendingOwner at hp
        have := List.mem_of_find?_eq_some hp
        simpa using this
      have hd := drop_inv s (nroot + o) hI (hl o ho)
      apply ih _ hd
      intro o' ho'
      have e1 : (s.drop (nroot + o)).objs.length = s.objs.length := by
        unfold St.drop; split
        · rfl
        · unfold St.unref; simp only []; (repeat' split) <;> simp
      have e2 : (s.drop (nroot + o)).hnd.length = s.hnd.length := by
        unfold St.drop; split
        · rfl
        · simp [unref_hnd]
      rw [e2]; rw [e1] at ho'; exact hl o' ho'


/-- number of objects and of handle slots -/
def St.shape (s : St) : Nat × Nat := (s.objs.length, s.hnd.length)

theorem addref_shape (s : St) (o : Nat) : (s.addref o).1.shape = s.shape := by
  unfold St.addref St.shape; simp only []; split <;> simp

theorem unref_shape (s : St) (o : Nat) : (s.unref o).shape = s.shape := by
  unfold St.unref St.shape; simp only []; (repeat' split) <;> simp

theorem retain_shape (s : St) (src : Option Nat) : (s.retain src).1.shape = s.shape := by
  unfold St.retain; cases src with
  | none => rfl
  | some n => exact addref_shape s n

theorem release_shape (s : St) (old : Option Nat) : (s.release old).shape = s.shape := by
  unfold St.release; cases old with
  | none => rfl
  | some n => exact unref_shape s n

theorem sethnd_shape (s : St) (h : Nat) (v : Option Nat) : ({ s with hnd := s.hnd.set h v } : St).shape = s.shape := by
  simp [St.shape]

theorem drop_shape (s : St) (h : Nat) : (s.drop h).shape = s.shape := by
  unfold St.drop; split
  · rfl
  · rw [sethnd_shape, unref_shape]

theorem assignRef_shape (s : St) (h : Nat) (src : Option Nat) : (s.assignRef h src).shape = s.shape := by
  unfold St.assignRef; split
  · rfl
  · rw [sethnd_shape, release_shape, retain_shape]

theorem moveRef_shape (s : St) (h g : Nat) : (s.moveRef h g).shape = s.shape := by
  unfold St.moveRef; split
  · rfl
  · rw [sethnd_shape, release_shape, sethnd_shape]

theorem detachRef_shape (s : St) (h : Nat) : (s.detachRef h).shape = s.shape := by
  unfold St.detachRef; split
  · rfl
  · simp [St.shape]

theorem extUnref_shape (s : St) (o : Nat) : (s.extUnref o).shape = s.shape := by
  unfold St.extUnref
  have := unref_shape s o
  simp only [St.shape, List.length_set, Prod.mk.injEq] at this ⊢
  exact this

theorem cascade_shape (s : St) (nroot fuel : Nat) : (s.cascade nroot fuel).shape = s.shape := by
  induction fuel generalizing s with
  | zero => rfl
  | succ n ih =>
    unfold St.cascade
    split
    · rfl
    · rw [ih, drop_shape]

/-- every object has its owned handle slot -/
def Slots (s : St) (nroot : Nat) : Prop := ∀ o, o < s.objs.length → nroot + o < s.hnd.length

theorem slots_of_shape (s s' : St) (nroot : Nat) (h : s'.shape = s.shape) (hs : Slots s nroot) : Slots s' nroot := by
  simp only [St.shape, Prod.mk.injEq] at h
  intro o ho
  rw [h.2]; rw [h.1] at ho; exact hs o ho

/-- a handle never names a destroyed object -/
theorem inv_referenced_alive (s : St) (hI : Inv s) (h o : Nat) (hn : s.hnd.getD h none = some o) :
    (s.obj o).alive = true := by
  have hi := hI o
  simp only [Int.add_zero] at hi
  have hp := hrefs_pos _ h o hn
  cases ha : (s.obj o).alive with
  | true => rfl
  | false => have := hi.2.2 ha; omega

end Mpt.Refcount
